#!/usr/bin/env python3
"""Runs /repo's pinned suite (guard OFF) and compares with /root/.vp/BASELINE.json stable_pass."""
import json, subprocess, os, sys
env = dict(os.environ, GOFLAGS="-mod=mod", GOPROXY="off")
p = subprocess.run("go test -json -vet=off -count=1 -timeout 25m ./...", shell=True, cwd="/repo", env=env,
                   stdout=subprocess.PIPE, stderr=subprocess.DEVNULL)
passed = set()
failed = set()
for l in p.stdout.decode("utf-8", "replace").split("\n"):
    try: o = json.loads(l)
    except Exception: continue
    if o.get("Test") and o.get("Action") in ("pass", "fail"):
        (passed if o["Action"] == "pass" else failed).add(o["Package"] + "::" + o["Test"])
base = set(json.load(open("/root/.vp/BASELINE.json"))["stable_pass"])
missing = sorted(base - passed)
print(f"baseline={len(base)} passed_now={len(passed)} baseline_missing={len(missing)} failed_now={len(failed)}")
for m in missing[:20]: print("  MISSING", m)
for m in sorted(failed)[:20]: print("  FAILED", m)
sys.exit(1 if missing else 0)
