#!/usr/bin/env python3
"""Re-verify the stored blind seeds against /repo's CURRENT HEAD.

For every /verif/seeded/<ID>/patch.diff: a scratch worktree of HEAD under /tmp, `git apply` the patch,
`VERIF_REPO=<worktree> ./check <prop> quick`, expect exit 1 with a VIOLATION line; the worktree is removed.
Properties run in parallel lanes (one lane per property, seeds of one property sequentially, because a
property's run directory and harness binary are per property).

usage: tools/reverify_seeds.py [-j LANES] [ID-or-property ...]
Results: /verif/.cache/reverify/<ID>.txt and a summary on stdout (also .cache/reverify/SUMMARY.txt).
"""
import os, sys, subprocess, json, glob, concurrent.futures, time

VERIF = os.path.dirname(os.path.dirname(os.path.abspath(__file__)))
OUT = os.path.join(VERIF, ".cache", "reverify")
os.makedirs(OUT, exist_ok=True)


def run(cmd, **kw):
    return subprocess.run(cmd, stdout=subprocess.PIPE, stderr=subprocess.STDOUT, text=True, **kw)


def one(seed_id):
    prop = seed_id.split("-")[0]
    wt = f"/tmp/rvwt-{seed_id.lower()}"
    patch = os.path.join(VERIF, "seeded", seed_id, "patch.diff")
    run(["git", "-C", "/repo", "worktree", "remove", "--force", wt])
    r = run(["git", "-C", "/repo", "worktree", "add", "-q", "--detach", wt, "HEAD"])
    if r.returncode != 0:
        return seed_id, "WORKTREE-FAILED", r.stdout[-300:]
    try:
        r = run(["git", "-C", wt, "apply", patch])
        if r.returncode != 0:
            r3 = run(["git", "-C", wt, "apply", "--3way", patch])
            if r3.returncode != 0:
                return seed_id, "PATCH-DOES-NOT-APPLY", (r.stdout + r3.stdout)[-400:]
        env = dict(os.environ, VERIF_REPO=wt)
        t0 = time.time()
        r = run([os.path.join(VERIF, "check"), prop, "quick"], cwd=VERIF, env=env, timeout=3600)
        tail = "\n".join(r.stdout.strip().split("\n")[-4:])
        open(os.path.join(OUT, seed_id + ".txt"), "w").write(r.stdout)
        if r.returncode == 1 and "VIOLATION property=" + prop in r.stdout:
            return seed_id, "CAUGHT", f"{time.time() - t0:.0f}s"
        if r.returncode == 0:
            return seed_id, "MISSED", tail[-400:]
        return seed_id, f"EXIT-{r.returncode}", tail[-400:]
    except subprocess.TimeoutExpired:
        return seed_id, "TIMEOUT", ""
    finally:
        run(["git", "-C", "/repo", "worktree", "remove", "--force", wt])


def lane(ids):
    return [one(i) for i in ids]


def main():
    args = sys.argv[1:]
    lanes = 5
    if args[:1] == ["-j"]:
        lanes = int(args[1]); args = args[2:]
    all_ids = sorted(os.path.basename(os.path.dirname(p)) for p in glob.glob(os.path.join(VERIF, "seeded", "*", "patch.diff")))
    ids = [i for i in all_ids if not args or i in args or i.split("-")[0] in args]
    by_prop = {}
    for i in ids:
        by_prop.setdefault(i.split("-")[0], []).append(i)
    res = []
    with concurrent.futures.ThreadPoolExecutor(max_workers=lanes) as ex:
        for out in ex.map(lane, by_prop.values()):
            for r in out:
                print("%-7s %-22s %s" % r, flush=True)
                res.append(r)
    bad = [r for r in res if r[1] != "CAUGHT"]
    with open(os.path.join(OUT, "SUMMARY.txt"), "w") as f:
        for r in sorted(res):
            f.write("%-7s %-22s %s\n" % (r[0], r[1], r[2].replace("\n", " | ")))
    print(f"{len(res) - len(bad)}/{len(res)} caught")
    return 1 if bad else 0


if __name__ == "__main__":
    sys.exit(main())
