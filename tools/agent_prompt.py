#!/usr/bin/env python3
"""Prints the builder-agent prompt for one property (used by the coordinator)."""
import json, sys
pid = sys.argv[1]
extra = sys.argv[2] if len(sys.argv) > 2 else ""
for l in open('/verif/properties.jsonl'):
    p = json.loads(l)
    if p['id'] == pid: break
print(f"""You are building the verification check for ONE property ({pid}) of the Go/eBPF project dae (source in /repo, a git repository at a pinned commit plus a few `fix:` commits). The verification framework lives in /verif. The technique is FIXED: machine-checked proof in Lean 4 of theorems about an executable model, tied to the real code by a differential correspondence harness that runs on every check. The sandbox is offline.

FIRST read, in this order: /verif/BUILDING.md (the rules and mechanics — follow them exactly), the worked example it points to (C12: lean/DaeVerif/C12/*.lean, harness/overlay/control/c12_test.go, checks/c12.py, verifkit.py), then in /verif/DESIGN.md the sections "§5 … ### {pid}" (the intended design for this property: model, theorems, tie, generators), "§4" if it mentions shared foundations you need, and "§7" (suspected/confirmed defects; the ones with a `fixed` line in /verif/known_findings.jsonl are already repaired in /repo — model the repaired code). Then read the anchored source files in /repo carefully; the model must mirror the code that exists.

THE PROPERTY (given and fixed; do not edit /verif/properties.jsonl):
id: {p['id']}
title: {p['title']}
statement: {p['statement']}
quantifier: {p['quantifier']['text']}
why tests can't settle it: {p['why_tests_cant']}
anchor files: {', '.join(p['anchors']['files'])}
mechanisms: {json.dumps(p['anchors']['mechanism'])}
hook needed (per the property author): {p['anchors'].get('hook_needed')}

DELIVERABLES (all under /verif; create design_notes/{pid}.md last):
- lean/DaeVerif/{pid}/Model.lean (core-only, executable), Proofs.lean, Props.lean (namespace DaeVerif.{pid}.Props: ONLY property theorems + non-vacuity examples), Main.lean (driver; exe name {pid.lower()}drv is pre-declared in lakefile.toml)
- harness/overlay/<package dir>/{pid.lower()}_test.go (one or more; Go harness calling the REAL code in-process, white-box via the overlay mechanism)
- checks/{pid.lower()}.py (prove -> tie -> report, using verifkit like checks/c12.py)
- design_notes/{pid}.md: what is modelled and what is not (trusted base/residue), each theorem (full-strength vs `_partial`, with what is missing), the tie and generators with measured distribution, which realistic code edits you tested and whether the check caught them, any finding (with the concrete failing input on the real code and a minimal proposed patch), timings of quick/thorough.
`./check {pid} quick` (<= ~3 min) and `./check {pid} thorough` (<= ~15 min) must exit 0 with no VIOLATION line on the unchanged /repo, and `python3-vt -c "import json,jsonschema; jsonschema.validate(json.load(open('/verif/evidence/{pid}.json')), json.load(open('/root/.vp/EVIDENCE.schema.json')))"` must pass.

PRIORITIES: (1) get a sound end-to-end check working early (model + a first real theorem + tie + check script), then (2) widen: more of the code inside the model, stronger/more theorems covering every clause of the property statement, sharper generators, (3) test it: in a scratch worktree (see BUILDING.md: VERIF_REPO=/tmp/wt-{pid.lower()} …) apply 3-5 realistic edits that break the property but compile and keep the existing tests passing (off-by-one, swapped condition, dropped step, wrong order, stale value…) and confirm the check reports each; also confirm a harmless refactor does not alarm. Strengthen the check where it misses one. Remove scratch worktrees when done.
Quality bar: theorems must quantify over ALL inputs/histories (no bounded enumeration standing in for a theorem), must not be vacuous, must be about the model that the driver executes (the same definitions), and the correspondence must compare observable results of the real code with the model on well-distributed, boundary-heavy generated inputs (report the distribution). If part of the property cannot be proved in the time available, keep the full statement visible and prove a clearly named `_partial` version; say exactly what is missing. If a clause genuinely cannot be expressed by an executable model (pure runtime/OS behaviour), name it as residue in the design note rather than faking it.

CONSTRAINTS: work only in your own files (lean/DaeVerif/{pid}/, harness/overlay/**/{pid.lower()}_*.go, checks/{pid.lower()}.py, design_notes/{pid}.md, scratch under /tmp/{pid.lower()}*). Other agents are working on other properties concurrently in the same /verif tree and lake workspace: build only your own lake targets, never `lake clean`, never edit Common/*, verifkit.py, MANIFEST.json, DESIGN.md, BUILDING.md or another property's files; do not `git commit` anywhere; do not modify /repo's working tree (use overlay files, or a scratch worktree for experiments). If you believe an in-repo hook or a `fix:` is required, do not apply it to /repo: describe the exact patch in your design note and final report (you may test it in a scratch worktree via VERIF_REPO). Keep CPU use reasonable (other builds run in parallel): no more than ~4 parallel jobs of your own.
{extra}
When finished, reply with a concise report: files created, the list of theorems (name + one-line meaning + full/partial), what the tie compares and how many cases quick/thorough evaluate, wall times, edits tested (caught / missed), findings and proposed patches, and known weaknesses. Work autonomously; do not ask questions.""")
