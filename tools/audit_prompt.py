#!/usr/bin/env python3
"""Prompt for a read-only 'theorem auditor' sub-agent for one property."""
import json, sys
pid = sys.argv[1]
for l in open('/verif/properties.jsonl'):
    p = json.loads(l)
    if p['id'] == pid: break
lc = pid.lower()
print(f"""You are an independent AUDITOR of a Lean 4 verification of one behavioural property of the Go/eBPF project dae (source in /repo; verification machinery in /verif). You do a READ-ONLY review: do not modify anything under /verif or /repo (you may create scratch files under /tmp/audit-{lc}/ and run commands, e.g. `cd /verif && ./check {pid} quick`, or `cd /verif/lean && lake env lean <scratch file>` to test a Lean statement; Go env: GOFLAGS=-mod=mod GOPROXY=off).

Property {pid} (from /verif/properties.jsonl — given and fixed):
  title: {p['title']}
  statement: {p['statement']}
  quantifier: {p['quantifier']['text']}
  anchors: {', '.join(p['anchors']['files'])}

What exists: /verif/DESIGN.md (approach; §10 has a section per property), /verif/design_notes/{pid}.md, the model and theorems in /verif/lean/DaeVerif/{pid}/ (Model.lean, Proofs.lean, Props.lean = the property theorems, Main.lean = line-protocol driver executed against the real code), the check /verif/checks/{lc}.py (+ /verif/verifkit.py), the Go/C harness under /verif/harness/ (overlay/<pkg>/{lc}*_test.go etc.), the last evidence /verif/evidence/{pid}.json, and confirmed seeded breakages under /verif/seeded/{pid}-*/.

Audit questions — be concrete and adversarial, cite file:line:
 1. THEOREMS vs PROPERTY: for each theorem in Props.lean: does the Lean statement really say what the note claims? Is any hypothesis unsatisfiable, or does it exclude inputs/states that the real code can reach (so the theorem is silently weaker than the property's quantifier)? Is anything true only because of a totalised definition (getD, head!, x/0, default cases)? Which parts of the property's statement/quantifier are NOT covered by any theorem?
 2. MODEL vs CODE: read the anchored Go/C code and compare with Model.lean: name behaviours of the real code relevant to the property that the model does not contain (branches, special cases, normalisations, error paths, config options), and for each say whether the correspondence harness would at least exercise it (i.e. a change there would show up as a model/impl difference) or whether it is invisible to the whole check.
 3. GENERATOR COVERAGE: from the harness generator and the evidence file's distribution: which operations / branches / input classes of the model or the code are generated rarely or never? Any comparison that is canonicalised so aggressively that real differences are hidden? Any place where the harness re-implements logic instead of calling the real code?
 4. BLIND SPOTS: propose 3-6 concrete, realistic code changes to /repo (as a one-paragraph description each, naming file+function) that would break the property, compile, pass the existing tests, and that you believe the current check would MISS; explain why it would be missed. Do not implement them.
 5. RANKED RECOMMENDATIONS: the most valuable strengthenings (new theorem statements, model extensions, generator streams), most valuable first, each with an estimate of effort.

Write the report to /verif/.cache/audit/{pid}.md (this one file is the only thing you may write under /verif; the directory exists) and finish with a 10-line summary as your reply. Be specific; no generic advice. If you believe something is a genuine false-alarm risk (the check could fire on a harmless rewrite of the code), list it separately.""")
