#!/usr/bin/env python3
"""Round-7+ prompt for a blind 'seeded breakage' sub-agent: property text + scratch worktree only.
The list of changes other engineers already produced (their own one-line summaries, nothing from the
checks) is passed so that new changes differ in site and mechanism."""
import json, sys, glob
pid, tag = sys.argv[1], sys.argv[2]
hint = sys.argv[3] if len(sys.argv) > 3 else ""
for l in open('/verif/properties.jsonl'):
    p = json.loads(l)
    if p['id'] == pid: break
taken = []
for f in sorted(glob.glob(f'/verif/seeded/{pid}-*/meta.json')):
    m = json.load(open(f)); taken.append('  - ' + m['summary'][:260].replace('\n', ' '))
wt = f"/tmp/seedwt-{pid.lower()}-{tag}"
out = f"/tmp/seed-{pid.lower()}-{tag}"
print(f"""You are a software engineer asked to produce a SUBTLE REGRESSION in the open-source Go/eBPF project dae (a transparent proxy), for the purpose of testing a verification tool. You work ONLY in the git worktree {wt} (a checkout of the project; it already exists) and write your results to {out}/ (create it). Do not read or write anything under /verif, and do not touch /repo itself.

The behavioural property that your change must break:
  title: {p['title']}
  statement: {p['statement']}
  it is meant to hold: {p['quantifier']['text']}
  code areas involved: {', '.join(p['anchors']['files'])}

Task: make ONE small, realistic change to the project's non-test source code in {wt} (the kind of mistake a maintainer could make in a refactor or an optimisation: an off-by-one, a dropped step, a wrong order, a stale value, a condition that is slightly too weak or too strong, two sites that each look fine alone but disagree) such that
  1. the project still compiles: `cd {wt} && GOFLAGS=-mod=mod GOPROXY=off go build -tags dae_stub_ebpf ./...` (this form builds package `control` and `cmd`; plain `go build ./...` may fail for them already before your change — that is expected);
  2. the existing test suite still passes exactly as before: `cd {wt} && GOFLAGS=-mod=mod GOPROXY=off go test -vet=off -count=1 ./... 2>&1 | grep -v 'no test files'` (packages that failed to build before your change may keep failing the same way; no package that passed may fail);
  3. the property above is violated — but NOT in a way ordinary use would expose at once: it must need something specific to manifest (a particular interleaving of goroutines, a crash/error/fault at a particular point, a multi-step sequence of operations, an unusual but legal input or configuration, or two cooperating sites that each look fine alone). {hint}

Other engineers have ALREADY produced the following changes for this property. Yours must differ from all of them in both the code site and the mechanism (pick a different function / clause of the property):
{chr(10).join(taken) if taken else '  (none)'}
Also note that the git history of the worktree contains many recent commits whose message starts with "fix:" — simply reverting one of those is NOT acceptable; find something new.

IMPORTANT: never use `git stash` (the stash is shared between all worktrees of the repository and other engineers work in sibling worktrees) — to compare with/without your change use `git diff > /tmp/x-{pid.lower()}.diff; git apply -R /tmp/x-{pid.lower()}.diff; …; git apply /tmp/x-{pid.lower()}.diff`. Do not edit or add test files in the worktree as part of the change, do not change exported APIs, do not add build tags. (Environment: offline; use GOFLAGS=-mod=mod GOPROXY=off; do NOT set GOSUMDB=off or GOTOOLCHAIN=local. Use `-tags dae_stub_ebpf` whenever you build or test package control or cmd. For control/kern/tproxy.c there is no BPF toolchain: a C change must be demonstrated by reasoning plus, if you can, a small native C program that includes the relevant functions; keep C changes syntactically safe.) Keep CPU use modest (others share the machine): do not run the whole test suite more than twice.

Then write a DEMONSTRATION: a Go test file (placed in the relevant package directory of the worktree, named zz_seed_demo_test.go, or a small main program) that FAILS with your change and PASSES without it (verify both by reverting/re-applying your diff as described above), exercising the real code.

Deliver in {out}/ :
  - patch.diff  = `git -C {wt} diff -- . ':(exclude)*zz_seed_demo_test.go'` (ONLY the source change, no test file)
  - the demonstration file(s) (copy of zz_seed_demo_test.go, with a header comment saying in which package directory it belongs and the exact command to run it)
  - meta.json   = {{"property": "{pid}", "summary": "<one line: what was changed>", "needs": "<what specific input/sequence/interleaving makes it manifest>", "demo_pkg": "<package dir of the demo>", "demo_run": "<go test -run regex>", "demo_tags": "<build tags or empty>", "demo_cmd": "<full command>", "suite_cmd": "<command you ran for the existing tests>", "suite_result": "<short>"}}
Finally reply with a short report (what you changed, why existing tests do not notice, how the demo shows it). Work autonomously; do not ask questions. Leave the worktree with your change applied (and the demo file present).""")
