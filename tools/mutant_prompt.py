#!/usr/bin/env python3
"""Prompt for a blind 'seeded breakage' sub-agent: gets only the property text and a scratch worktree."""
import json, sys
pid, tag = sys.argv[1], sys.argv[2]
hint = sys.argv[3] if len(sys.argv) > 3 else ""
for l in open('/verif/properties.jsonl'):
    p = json.loads(l)
    if p['id'] == pid: break
wt = f"/tmp/seedwt-{pid.lower()}-{tag}"
out = f"/tmp/seed-{pid.lower()}-{tag}"
print(f"""You are a software engineer asked to produce a SUBTLE REGRESSION in the open-source Go/eBPF project dae (a transparent proxy), for the purpose of testing a verification tool. You work ONLY in the git worktree {wt} (a checkout of the project; it already exists) and write your results to {out}/ (create it). Do not read or write anything under /verif, and do not touch /repo itself.

The behavioural property that your change must break:
  title: {p['title']}
  statement: {p['statement']}
  it is meant to hold: {p['quantifier']['text']}
  code areas involved: {', '.join(p['anchors']['files'])}

Task: make ONE small, realistic change to the project's non-test source code in {wt} (the kind of mistake a maintainer could make in a refactor or an optimisation: an off-by-one, a dropped step, a wrong order, a stale value, a condition that is slightly too weak or too strong, two sites that each look fine alone but disagree) such that
  1. the project still compiles: `cd {wt} && GOFLAGS=-mod=mod GOPROXY=off go build ./... ; GOFLAGS=-mod=mod GOPROXY=off go build -tags dae_stub_ebpf ./...` (the second form is the one that builds package `control`; the first may fail for package control/cmd already before your change — that is expected);
  2. the existing test suite still passes exactly as before: `cd {wt} && GOFLAGS=-mod=mod GOPROXY=off go test -vet=off -count=1 ./... 2>&1 | grep -v 'no test files'` (packages that failed to build before your change may keep failing the same way; no package that passed may fail);
  3. the property above is violated — but NOT in a way ordinary use would expose at once: it should need something specific to manifest (a particular input or boundary value, a multi-step sequence of operations, a particular interleaving, an unusual but legal configuration). {hint}
IMPORTANT: never use `git stash` (the stash is shared between all worktrees of the repository and other engineers work in sibling worktrees) — to compare with/without your change use `git diff > /tmp/x.diff; git apply -R /tmp/x.diff; …; git apply /tmp/x.diff`. Do not edit or add test files in the worktree as part of the change, do not change exported APIs, do not add build tags. (Environment: offline; use GOFLAGS=-mod=mod GOPROXY=off; do NOT set GOSUMDB=off or GOTOOLCHAIN=local. Use `-tags dae_stub_ebpf` whenever you build or test package control or cmd.)

Then write a DEMONSTRATION: a Go test file (placed in the relevant package directory of the worktree, named zz_seed_demo_test.go, or a small main program) that FAILS with your change and PASSES without it (verify both: `git stash` / `git stash pop` or by reverting your edit), exercising the real code.

Deliver in {out}/ :
  - patch.diff  = `git -C {wt} diff -- . ':(exclude)*zz_seed_demo_test.go'` (ONLY the source change, no test file)
  - the demonstration file(s) (copy of zz_seed_demo_test.go, with a header comment saying in which package directory it belongs and the exact command to run it)
  - meta.json   = {{"property": "{pid}", "summary": "<one line: what was changed>", "needs": "<what specific input/sequence/interleaving makes it manifest>", "demo_cmd": "<command>", "suite_cmd": "<command you ran for the existing tests>", "suite_result": "<short>"}}
Finally reply with a short report (what you changed, why existing tests do not notice, how the demo shows it). Work autonomously; do not ask questions. Leave the worktree with your change applied (and the demo file present).""")
