#!/bin/sh
# tools/verify_seed2.sh <lc id e.g. c15-g>   (reads demo_pkg/demo_run/demo_tags from /tmp/seed-<lc>/meta.json)
# Confirms: demo fails with the change, passes without; then runs the property's quick check on the worktree.
lc=$1
wt=/tmp/seedwt-$lc; out=/tmp/seed-$lc
export GOFLAGS=-mod=mod GOPROXY=off
pkg=$(python3 -c "import json;print(json.load(open('$out/meta.json')).get('demo_pkg','').strip('./'))")
run=$(python3 -c "import json;print(json.load(open('$out/meta.json')).get('demo_run',''))")
tags=$(python3 -c "import json;print(json.load(open('$out/meta.json')).get('demo_tags','') or '')")
case "$pkg" in control*|cmd*) [ -z "$tags" ] && tags=dae_stub_ebpf;; esac
cd $wt || exit 2
T=""; [ -n "$tags" ] && T="-tags $tags"
[ -f $wt/$pkg/zz_seed_demo_test.go ] || cp $out/zz_seed_demo_test.go $wt/$pkg/
git diff -- . ':(exclude)*zz_seed_demo_test.go' > /tmp/vs-$lc.diff
echo "--- with change ($pkg / $run / $tags):"; go test -vet=off -count=1 $T -run "$run" ./$pkg/ 2>&1 | tail -3
git apply -R /tmp/vs-$lc.diff || exit 2
echo "--- without change:"; go test -vet=off -count=1 $T -run "$run" ./$pkg/ 2>&1 | tail -2
git apply /tmp/vs-$lc.diff
cp /tmp/vs-$lc.diff $out/patch.diff
mv $wt/$pkg/zz_seed_demo_test.go $out/demo_in_place.go
prop=$(echo $lc | cut -d- -f1 | tr c C)
cd /verif && echo "--- check:" && VERIF_REPO=$wt ./check $prop quick 2>&1 | tail -4; echo "exit=$?"
