#!/bin/sh
# tools/store_seed.sh <ID e.g. C12-b> <lc e.g. c12-b> "<check result>" "<suite note>"
id=$1; lc=$2; res="$3"; suite="$4"
cd /verif
mkdir -p seeded/$id && cp /tmp/seed-$lc/patch.diff seeded/$id/ && cp /tmp/seed-$lc/demo_in_place.go seeded/$id/zz_seed_demo_test.go.txt && python3 - "$id" "$lc" "$res" "$suite" <<'PY'
import json,sys
id,lc,res,suite=sys.argv[1:5]
m=json.load(open(f'/tmp/seed-{lc}/meta.json'))
m.update({"id":id,"confirmed_by_coordinator":{"demo_fails_with_change":True,"demo_passes_without":True,"suite":suite,"check_run":f"VERIF_REPO=<worktree with patch> ./check {id.split('-')[0]} quick","check_result":res},"demo_file":"zz_seed_demo_test.go.txt"})
json.dump(m,open(f'seeded/{id}/meta.json','w'),indent=1)
PY
git -C /repo worktree remove --force /tmp/seedwt-$lc
rm -rf /tmp/seed-$lc
