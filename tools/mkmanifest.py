#!/usr/bin/env python3
"""Regenerates /verif/MANIFEST.json from the table below (kept next to the checks so that the
manifest never drifts from what exists)."""
import json, os
HERE = os.path.dirname(os.path.dirname(os.path.abspath(__file__)))
ALL = ["C%02d" % i for i in range(1, 21)]

CHECKS = {
 "C01": dict(
  text="Lean theorem match_is_first_match (unbounded: all rule lists, fallbacks, packets): the Match loop over the match-set array emitted by the builder's lowering returns exactly the first rule whose &&-joined, possibly negated, OR-of-values conditions hold, with must_rules sticky and fallback; per-condition meaning theorems (CIDR containment incl. IPv4-mapped via C12, inclusive port ranges, l4proto/ipversion masks incl. unknown literals, negated MAC never matches zero MAC, pname on 16 bytes only when known, DSCP, domain bit). Tied to /repo by differential runs through the real config parser, config.New (must_ patch), optimizers, builder, Route/Match on packets generated from each rule's boundary values.",
  note="Trusted: Lean kernel + standard axioms; domain key-group truth is an oracle supplied by a reference matcher (meaning of domain patterns = C11); match-set position bookkeeping and text->typed-value parsing are tied, not proved; generator's typed program is the meaning of the rendered text.",
  technique="Lean 4 proof (refinement: scan over lowered rules = first-match spec) + differential correspondence (go test -overlay)",
  design="§5 C01"),
 "C12": dict(
  text="Lean theorems (unbounded): Prefix2bin128's bit string is a prefix of the probe's iff the prefix numerically contains the address, for all lengths 0..128 and IPv4-as-mapped; userspace trie query and kernel LPM keys describe the same set; canonicalisation keeps the set; an LPM slot is shared only by identical canonical lists for ANY hash function. Tied to /repo by a differential harness over the real Prefix2bin128/Trie/cidrToBpfLpmKey/canonicalizePrefixes/addIp.",
  note="Trusted: Lean kernel + propext/Classical.choice/Quot.sound; kernel LPM-trie lookup contract; harness generators; pkg/trie internals tied at API level only (C11 covers them).",
  technique="Lean 4 proof over executable model + differential correspondence (go test -overlay, real-build variant)",
  design="§5 C12"),
}

CHECKS["C14"] = dict(
  text="Lean theorems (unbounded, for every regex/duration oracle): FilterAndAnnotate returns exactly the nodes satisfying some filter line (AND of possibly negated OR-of-values conditions on name/subtag with exact/keyword/regex values), once each, in pool order, with the annotation of the first satisfied line; no filter = all nodes; an invalid filter/annotation/policy anywhere is an error for every pool (error_iff_invalid, invalid_always_reported); policy parsing and fixed(i) selection characterised. Tied to /repo by differential runs of the real parser + FilterAndAnnotate + DialerGroup construction/Select.",
  note="Trusted: Lean kernel + standard axioms; regexp2 and time.ParseDuration are oracles (theorems hold for every oracle; answers supplied by the real libraries at run time); the group loop of NewControlPlane is replicated in the harness.",
  technique="Lean 4 proof over executable model + differential correspondence (go test -overlay)",
  design="§10 C14")

CHECKS["C18"] = dict(
  text="Lean theorems (unbounded: all worlds, sniffed strings, destinations, event histories): the decision table of ChooseDialTarget per dial_mode (ip/no name/built-in => destination IP:port; domain => name iff genuine; domain+ => name, never re-route; domain++ => name and the flow is routed again with that name), normalisation and well-formedness of every target (byte-level models of SplitHostPort/JoinHostPort/ParseAddr/AddrPort.String), and 'genuine' = resolved through dae within its original TTL or verified by a positive probe (induction over cache event histories). Tied to /repo by differential runs of the real ChooseDialTarget/routeDial/DnsController knowledge functions under virtual time.",
  note="Trusted: Lean kernel + standard axioms; byte-level library models (net.SplitHostPort, JoinHostPort, netip.ParseAddr, strconv.Itoa, dns.CanonicalName) tied by differential testing only; realDomainSet Bloom filter modelled as an exact set; Route is an oracle for the sniffed name; comparison at quiescence (no concurrency of the caches).",
  technique="Lean 4 proof over executable model + differential correspondence (go test -overlay, synctest virtual time)",
  design="§10 C18")

CHECKS["C07"] = dict(
  text="Lean theorems (unbounded: all rule lists, names, qtypes, answers, caches, upstream behaviours): the byte-level Match loops of the DNS request and response matchers over the compiled (lowered + index-linked) program return the first rule that holds, else the fallback (scanGo_link + RuleScan.scan_lower), names routed alike up to case and one trailing dot; controller skeleton: reject beats any cache content and clears the family, a question goes to the selected upstream, accept/empty/re-ask per first matching response rule, at most MaxDnsLookupDepth=3 upstream queries for every rule set (reask_bounded), bouncing ends with the documented error. Tied to /repo by differential runs of the real builders/matchers (compiled array dump + decisions) and the real DnsController with fake forwarders.",
  note="Trusted: Lean kernel + standard axioms; domain matcher / regex / CIDR trie are oracles (C11, C12); cache modelled as fresh entries only (C08); sequential single-client asks (concurrency is C09); ASCII names.",
  technique="Lean 4 proof (refinement to first-match spec + structural recursion bound) + differential correspondence (go test -overlay)",
  design="§10 C07")

CHECKS["C02"] = dict(
  text="Lean theorems (unbounded: all installed programs, packets, reload histories): the byte-level model of the kernel route() (state bits, per-word domain cache, active length clamp, error results, packed s64) over the byte image the Go builder writes returns pack(dnsAdjust(userspace Match)) — routeK_eq_userspace, chained to C01's first-match specification (kernel_eq_first_match_spec); every field the kernel reads from the Go image decodes to the value written (decode_encode_little), LPM keys / domain bit / packed result agree, ring-slot rewrite injective and disjoint across consecutive generations (with the exact overlap bound), big-endian negative result stated. Three-way tie on every run: real Go Match vs native route() compiled from /repo's tproxy.c (ASan+UBSan) on the Go-emitted bytes vs the Lean model, plus constant/layout cross-checks.",
  note="Trusted: Lean kernel + standard axioms; kernel LPM-trie contract, verifier acceptance, bpf_loop cap; H2 (installed domain bitmap = userspace bitmap) is C10/C11's subject; map update syscalls of buildRoutingKernspace are mirrored by the harness with a textual tripwire; C shim helper/map semantics.",
  technique="Lean 4 proof (byte-level refinement kernel = userspace = first-match spec) + three-way differential correspondence (Go overlay harness, native C build of tproxy.c)",
  design="§10 C02")

CHECKS["C04"] = dict(
  text="Lean theorems (unbounded: all parser-producible rule lists, all geodata, all packets/questions): the program compiled after alias rewriting, geodata expansion, neighbour merging, condition/value sorting and duplicate removal decides exactly like first-match over the rules as written — traffic_compiled_decides_as_written, dns_request_compiled_decides_as_written (incl. SplitRequestRules), dns_response_compiled_decides_as_written; stage-by-stage preservation lemmas; necessity witnesses (merging negated neighbours is unsound). Partial only for the daedns internal selectors (sub/node/subnode), which bypass RulesBuilder.Apply. Tied to /repo by running the real optimizer chains (AST compared up to the proved normal-form equivalence), the real builders/matchers and a brute-force first-match evaluator on generated neighbour-heavy rule lists, with the optimizer list at each production call site read by go/ast.",
  note="Trusted: Lean kernel + standard axioms; leaf-value truth and geodata decoding are tied to the real code (oracles), not proved; internal_selectors theorem is _partial (hypothesis: no function left without parameters by the expansion).",
  technique="Lean 4 proof (semantic preservation of each optimizer + pipeline) + differential correspondence (go test -overlay, go/ast call-site extraction)",
  design="§10 C04")

CHECKS["C10"] = dict(
  text="Lean theorems (unbounded: all configs, all histories): after ANY history of syncOwner calls the kernel table holds, per address, exactly the OR of the bitmaps of the owners whose latest snapshot lists it, with no zero or orphaned entry (kernel_mirrors_owners, kernel_no_orphan, tracker_indexes_agree, batches_minimal); and after ANY history of cache operations (insert/replace/refresh, remove, family removal on reject, expiry on lookup, janitor+LRU, time, deferred refresh worker) the table is exactly the union over the currently cached entries listing the address (table_mirrors_cache, full strength after fix c8f5aff; Lean-checked revert witness). Tied to /repo by differential runs of the real tracker and the real DnsController with production wiring under virtual time; the batch stubs of bpf_stub.go are replaced (overlay, regenerated every run) by observers so every update/delete batch is compared.",
  note="Trusted: Lean kernel + standard axioms; sequential atomic steps (the property quantifies over histories, not goroutine schedules: the non-atomic store+sync and the reload rollback are recorded as observations); eviction order is observed and checked for legality; MatchDomainBitmap replaced by generator-chosen bitmaps; batch syscall failures not explored.",
  technique="Lean 4 proof (inductive invariants over operation histories) + differential correspondence (go test -overlay with regenerated observer stubs, synctest virtual time)",
  design="§10 C10")

CHECKS["C19"] = dict(
  category="proof",
  text="The model of this property is REGENERATED from /repo's sources on every run (translators/c19_regen.py: C record layouts, enums, #defines and maps from the unmodified tproxy.c via clang -target bpf; Go layouts for the 13 release GOARCHes + encoding/binary wire layouts, constants, ebpf tags, map call sites and the PARAM literal via go/types+go/ast) and the theorems are re-checked against it: layouts_agree (size, offset, width, count, signedness class of every mirrored field; every C member and Go field accounted for), consts_agree, limits_agree, shared maps/call-site widths, generated files = spec (decide +kernel over the whole regenerated tables), plus for-all theorems on the byte-level key constructors: tuples_key_bytes (all 40 bytes incl. zero padding, both IPv4 forms converge), reversed key, connectivity key (agreement, range, injectivity), listen keys, LPM keys, domain-routing keys, word order preservation; the explicit little-endian value encodings are proved for little-endian and refuted for big-endian targets. Validated by native and Go-side offsetof/sizeof programs and by comparing C-computed and Go-computed key bytes for the same logical entity.",
  note="Trusted: Lean kernel + standard axioms; the two translators (cross-validated by clang -fdump-record-layouts, reflect/binary.Size and the natively compiled tproxy.c); the hand-written pairing table; bpf2go output is unavailable offline (stub types stand in); big-endian behaviour is theorem-only.",
  technique="Lean 4 proof over a model regenerated from source (translation validation of layouts/constants + for-all theorems on key constructors) + native C / Go cross-checks",
  design="§10 C19")
CHECKS["C08"] = dict(
  text="Lean theorems (unbounded: every configuration, every history of inserts, lookups, janitor runs, reload clones, config swaps, refresh clean-ups and removals, clocks that may jump): a served answer was stored by an insert of the history under exactly that canonical key (name case-insensitive, type, upstream scope), is fresh only before its deadline (reply TTL or the fixed TTL in force), stale only with optimistic caching inside the window, never after it (served_only_live_and_scoped); stale answers are served at once with needRefresh exactly when no refresh is in flight (at most one in flight per entry); shown TTL <= max(1, whole seconds left) + 15 (fresh_ttl_within_slack); the janitor evicts exactly the least recently used entries above max_cache_size for any map iteration order (janitor_evicts_least_recently_used, heap_selects_oldest). Tied to /repo by running the real DnsController (production insert path, LookupDnsRespCache_, janitor, clone/restore, backgroundRefresh) under testing/synctest virtual time with clocks aimed at every boundary ±1 ns.",
  note="Trusted: Lean kernel + standard axioms; one LookupDnsRespCache_ call is one atomic step (the CAS on the refresh latch is not explored under real concurrency); miekg/dns Pack/Unpack; ASCII names; int64 time overflow not modelled.",
  technique="Lean 4 proof (invariants over operation histories with explicit clock) + differential correspondence (go test -overlay, synctest virtual time)",
  design="§10 C08")
CHECKS["C15"] = dict(
  text="Lean theorems over all histories of latency samples, alive/not-alive notifications and policy switches from NewDialerGroup: swap-remove bookkeeping stays consistent and no panic point is reachable (index_consistent); the cached best is alive and nil iff nobody is alive; selection returns a node alive in a consulted domain (data-UDP -> DNS-UDP -> TCP, other family when allowed), never the excluded node unless fixed or single-node last resort, errors iff all tried domains are empty; fixed(i) returns the i-th node; random returns an alive non-excluded node for every value of the random source; min policies return an unbeaten alive node and switch only when the documented tolerance gate allows (these tolerance theorems are _partial: they assume a node the set holds a latency for keeps reporting one — necessity witnessed in Lean). Tied to /repo by statement-level mirror runs of the real AliveDialerSet / DialerGroup / chooseProxyDialer through the production notification paths.",
  note="Trusted: Lean kernel + standard axioms; fastrand answers compared as membership in the model's candidate set; concurrency/locking and int64 overflow not modelled; thresholds that decide when a node is reported dead are C16's subject.",
  technique="Lean 4 proof (invariants over event histories) + differential correspondence (go test -overlay)",
  design="§10 C15")

CHECKS["C20"] = dict(
  text="Lean theorems over every reachable state of an interleaving transition system (signals, main-loop sections, worker statements, release-goroutine sections, retirement completions, every path choice incl. a failure at each stage): at most one reload/suspend in progress (tokens = [pending]); a signal taken while one is in progress — in the main select or in the hand-off's ready wait — is answered busy and changes nothing else (refusal_is_pure, signal_while_in_progress_is_refused_busy); the failure-report suppression counter is balanced and never clamped; every settled state is clean (no pending, suppression lifted, no stale busy report — no_stale_busy_when_idle over all refuser x releaser interleavings), internal steps terminate (ranking function) and the next signal is accepted again. The per-path effects of the worker body, the run-state handler and the signal dispatch are REGENERATED from cmd/run.go by a go/ast path extractor and checked against the model tables on every run; the real queue/release/finish/ready-wait/progress-file functions and the real dialer suppression counter run under forced schedules and are compared with the model after every atomic section.",
  note="Trusted: Lean kernel + standard axioms; atomicity granularity = code between two hook calls/statements; worker/handler bodies are tied by path extraction, not executed; liveness relative to the ready-wait timer, retirement completion and fair scheduling; `answered` clause is _partial (answered_full stated, unproved).",
  technique="Lean 4 proof (inductive invariant + ranking function over an interleaving transition system) + regenerated path tables (go/ast) + schedule-forced correspondence (go test -overlay)",
  design="§10 C20")
CHECKS["C11"] = dict(
  text="Lean theorems, all full strength: the documented meaning of full / suffix / leading-dot suffix / keyword / regex(oracle) patterns on the normalised (lower-cased, one trailing dot stripped) name; a set's bit is set iff one of its valid patterns matches, independently of all other sets; invalid patterns are skipped without effect; Build fails only as documented; AND the bit-exact model of the implementation: CompactBitList Get/Set/Append for every unit size, countZeros = rank0 and selectIthOne = select1 with the init() caches, and the full LOUDS correctness theorem trie_hasPrefix_eq_spec (for any alphabet of 1..256 bytes, any non-empty key list, any word: NewTrie succeeds and HasPrefix = some stored key is a prefix of the word), composed into domain_matcher_correct (MatchDomainBitmap through the packed tries = documented meaning). Tied to /repo by bit-exact comparison of the real bitlist buffers and trie arrays and by matcher sessions over indices 0..1023 with probes derived from the patterns, up to 50 000-pattern sets.",
  note="Trusted: Lean kernel + standard axioms; Go regexp and the Aho-Corasick Contains are oracles (checked against substring containment by the tie); ASCII names; the empty keyword never matches (stated as a theorem).",
  technique="Lean 4 proof (bit-exact LOUDS/rank-select/bitlist correctness + pattern semantics) + differential correspondence (go test -overlay, white-box buffer dumps)",
  design="§10 C11")
CHECKS["C13"] = dict(
  text="Lean theorems: for the per-flow UDP task queue as an interleaving transition system of the code's atomic steps (any channel capacity, any number of producers, idle GC, overflow, re-creation): done k ++ pending k = accepted k (exactly once, in order), no cross-flow execution, one convoy at a time per flow, recycled channels are empty, work is never stranded (repaired protocol after fixes 4640436/351fba0; Lean witnesses that the pre-fix protocol violates it); conn-state tuple tracker: refcount = owners, a kernel delete exactly when the last owner leaves, hand-over never deletes, waiters woken; drain tickets: active = outstanding, idle closed iff 0, release idempotent; endpoint keys: same source (+dst/scope for bound flows) iff same key; endpoint pool (sequential spec + lock-structure TSys): hand-out iff usable, failure markers block dialing, retired/dead never handed out again, transport closed at most once with the endpoint, single dial under concurrent GetOrCreate. Tied to /repo by schedule replay through the verif yield points on the real UdpTaskPool under synctest, op sequences on the real tracker/drain/pool with fake dialers, and implementation-side oracles (nothing lost/reordered, nothing closed twice, quiet-period leak check).",
  note="Trusted: Lean kernel + standard axioms; sync.Map/atomics/channels as linearizable objects; pool concurrency beyond the modelled windows and 'eventually closed' are checked by the tie, not proved; liveness needs scheduler fairness; handlePkt itself is not tied.",
  technique="Lean 4 proof (invariants over an interleaving transition system + sequential refinement) + schedule-forced correspondence via build-tag verif yield points (go test -overlay, synctest)",
  design="§10 C13")

CHECKS["C05"] = dict(
  text="Lean theorems (unbounded: every wrapper stack plain/prefixed/bufio/sniffer, every payload, segmentation, arrival timing, stream ending and each of the 8 copy-path combinations): the destination receives exactly the buffered bytes followed by the rest of the stream, once, in order (relay_identity, upstream_receives_client_stream, client_receives_upstream_stream with exact delivery times); a taken prefix is never replayed; detection hands over every byte (detection_hands_over_every_byte), delays the relay by at most its window (5 s on port 53, twice the sniffing timeout on a sniffed port) and leaves no deadline armed; EOF is forwarded as a write shutdown at the moment it is read while the opposite direction keeps flowing up to the 10 s grace period, and a healthy connection is never cut (healthy_connection_not_cut). 'Every armed read deadline is cleared on every exit path' is closed by decide over a table REGENERATED from /repo by a go/ast path extractor. Tied to /repo by whole connections through the real handleConn (real DNS fast path, prefetch, ConnSniffer, relayCore) under synctest virtual time and by the real copy engine over loopback TCP (writev, splice).",
  note="Trusted: Lean kernel + standard axioms; timing is virtual time only; partial writev/splice writes occur only as the kernel produces them; write failures not modelled; relayCore.run is exempt from the deadline table by name (its grace timer deliberately outlives it).",
  technique="Lean 4 proof (stream identity over layered replay buffers + timed relay state machine) + regenerated deadline-path table (go/ast) + differential correspondence (go test -overlay, synctest, loopback TCP)",
  design="§10 C05")

CHECKS["C17"] = dict(
  text="Lean theorems: a total lexer + LL(2) parser + Walker for the dae grammar (character classes probed from the real ANTLR lexer on every run and checked against the WF hypothesis): every text is rejected or parsed (parse_total), token sequences and trees correspond one-to-one and in order (tokens_iff_tree, parse_spells), parse(render cfg) = cfg for any quoting style and any whitespace/comments between tokens (parse_render), one AST item per written item with names, negations and parameters in order; include merging over an abstract file system: including file first then each include in listed order depth-first (merge_order), any edge to a visited file incl. every cycle is rejected before opening, every path opened ends in .dae and lies lexically under the entry directory (merge_reads_confined); typed configuration: unknown/missing sections and keys rejected, defaults applied for present and omitted sections (defaults_applied, after fix 2aec039), oversized rule programs rejected (oversize_rejected). 'Never crashes' is decided on the Go side: Parse, config.New, Merger.Merge and the whole rule-compilation pipeline (optimizers incl. DatReader, matcher builders, dns.New — in a child process so goroutine panics are seen) run on grammar-generated texts, token-level near-misses and arbitrary bytes; any panic is a violation, accepted inputs are compared by full AST / typed-config equality with the model.",
  note="Trusted: Lean kernel + standard axioms; the ANTLR model is reconstructed from the shipped .interp files and tied differentially; value decoders (FuzzyDecode etc.), filepath.Glob and geodata parsing are oracles / no-panic only; error messages are compared by class; merge termination is stated (merge_terminates_full) but not proved.",
  technique="Lean 4 proof (parser/renderer round trip, merger invariants, config decoding) + differential correspondence on three input streams with crash detection (go test -overlay, child processes)",
  design="§10 C17")

CHECKS["C16"] = dict(
  text="Lean theorems over every history of probe results, traffic reports, forced reports, ignorable/cancelled errors, reload suppression windows and snapshot/restore steps over all six health domains, for nodes shared by any number of groups: an alive->dead transition happens only at the k-th consecutive counted failure (1 TCP probe / 3 UDP probes / 10 TCP / 50 UDP traffic failures) with no success in between, on a forced report, a restore, or the three-deaths escalation that takes all six domains down (dead_only_after_threshold, threshold_reached_kills, below_threshold_stays, escalation_only_after_three_deaths); any successful probe (data-UDP: traffic) revives and clears the counts; cancellation/teardown/suppressed failures never count; exactly one transition callback per actual flip; every registered set lists a member exactly when it is alive; the kernel connectivity bit of a latency-policy group is 0 exactly when its set is empty (kernel_bit, unconditional after fixes 307ce76/addc261); a reload hands over alive flags and latencies with counters cleared and leaves every non-empty group a selectable node. Tied to /repo by the real Dialer.Check loop / Report* / suppression / RestoreHealthSnapshot and real DialerGroup objects under synctest, plus the real outboundAliveChangeCallback writing a real BPF array map (bpf(2) works in this sandbox).",
  note="Trusted: Lean kernel + standard axioms; the latency a set reads (snapshotLatencyForPolicy incl. back-off penalty) is an oracle input (theorems hold for all values); events are serialised (no concurrent reports); probes enter as events (scheduler/jitter not modelled).",
  technique="Lean 4 proof (invariants over event histories) + differential correspondence (go test -overlay, synctest, real BPF array map)",
  design="§10 C16")
CHECKS["C06"] = dict(
  text="Lean theorems: for every byte string the TLS walk is total with no out-of-bounds access (tls_total, tls_record_total); every well-formed ClientHello (any extension order, GREASE, padding, session id, several SNI entries) yields its first host_name and any reported name is literally a host_name entry of the input (tls_sni_found, tls_sni_sound); any cutting into reads after the 5-byte record header gives the whole-record answer (sniff_tcp_chunk_invariant); HTTP/1 Host of any request head; QUIC: any framing of the handshake into CRYPTO frames (cuts, reorder, overlap, padding, varint widths, any number of packets) that covers it reassembles to the message and yields the carried name, reassembly keeps only slices of the stream, in-place unprotect + restore is the identity on the datagram; whatever the outcome (found, not found, not applicable, timed out, EOF, reset) the relayed bytes equal the client's bytes (relay_identity), a stall ends sniffing with nothing latched, buffered datagrams of a flow are forwarded in ingress order and nothing is withheld once the ClientHello is complete (udp_flow_in_order, udp_not_withheld_when_complete). Tied to /repo by white-box runs of the sniffing package on exact-capacity slices (a stray index is a panic), a real ConnSniffer over scripted conns, QUIC Initials sealed by an independent RFC 9001/9369 encoder, and the real handlePkt with a recording outbound.",
  note="Trusted: Lean kernel + standard axioms; AES/HKDF/GCM are an oracle (answers from the real code); scripted conns stand for sockets (real-time deadlines not covered); QUIC packet-header walk is tied, no round-trip theorem; single-flow handlePkt model.",
  technique="Lean 4 proof (parser soundness/totality, reassembly, replay identity) + differential correspondence (go test -overlay, independent RFC encoders)",
  design="§10 C06")

def main():
    checks = []
    for pid in ALL:
        if pid not in CHECKS: continue
        c = CHECKS[pid]
        checks.append({
            "property_id": pid,
            "quick_cmd": f"./check {pid} quick",
            "thorough_cmd": f"./check {pid} thorough",
            "evidence_file": f"/verif/evidence/{pid}.json",
            "replay_cmd_template": f"cat {{path}}  # then: VERIF_SEED=<seed in file name> ./check {pid} quick",
            "engine": "lean-proof+correspondence",
            "level_claimed": {"category": c.get("category", "proof"), "text": c["text"], "design_ref": c["design"]},
            "level_note": c["note"],
            "technique": c["technique"],
        })
    hooks_commits = [l.strip() for l in open(os.path.join(HERE, "hooks_commits.txt"))] if os.path.exists(os.path.join(HERE, "hooks_commits.txt")) else []
    m = {
     "version": 1,
     "setup_cmd": "./setup.sh",
     "hooks": {"guard": "verif",
               "enable": "go test -tags verif,dae_stub_ebpf for the checks that need in-repo hooks; all other white-box access is by `go test -overlay` from /verif/harness/overlay (no change to /repo)",
               "baseline_off_cmd": "cd /repo && GOFLAGS=-mod=mod GOPROXY=off go test -vet=off -count=1 -timeout 25m ./...",
               "source_commits": hooks_commits, "add_only": True},
     "engines": [{"name": "lean-proof+correspondence", "path": "/verif/check", "serves_properties": sorted(CHECKS),
                  "kind_free_text": "Lean 4 theorems about an executable model (lake build + axiom audit on every run) tied to /repo's working tree by a differential harness (go test -overlay / native C build) through a line protocol; see DESIGN.md"}],
     "checks": checks,
     "not_applicable": [{"property_id": p, "reason": NOT_YET.get(p, "check not built yet in this round (work in progress; see DESIGN.md §5 for the intended design)")} for p in ALL if p not in CHECKS],
     "notes": "One entry point: ./check <Cxx> <quick|thorough>. VERIF_SEED selects the generator seed. Evidence is rewritten on every run. known_findings.jsonl lists fixed/open findings.",
    }
    json.dump(m, open(os.path.join(HERE, "MANIFEST.json"), "w"), indent=1)
    print("MANIFEST.json:", len(checks), "checks;", len(m["not_applicable"]), "not claimed")

NOT_YET = {}
if __name__ == "__main__":
    main()
