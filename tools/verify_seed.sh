#!/bin/sh
# tools/verify_seed.sh <lc id e.g. c15-a> <pkg path of demo e.g. component/outbound> <go test -run regex> [tags]
# Confirms: demo fails with the change, passes without; then runs the property's quick check on the worktree.
lc=$1; pkg=$2; run=$3; tags=$4
wt=/tmp/seedwt-$lc; out=/tmp/seed-$lc
export GOFLAGS=-mod=mod GOPROXY=off
cd $wt || exit 2
T=""; [ -n "$tags" ] && T="-tags $tags"
echo "--- with change:"; go test -vet=off -count=1 $T -run "$run" ./$pkg/ 2>&1 | tail -3
git apply -R $out/patch.diff || exit 2
echo "--- without change:"; go test -vet=off -count=1 $T -run "$run" ./$pkg/ 2>&1 | tail -2
git apply $out/patch.diff
mv $wt/$pkg/zz_seed_demo_test.go $out/demo_in_place.go
prop=$(echo $lc | cut -d- -f1 | tr c C)
cd /verif && echo "--- check:" && VERIF_REPO=$wt ./check $prop quick | tail -3
