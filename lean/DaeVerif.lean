-- Root module; individual property modules are built by name (see ../check).
import DaeVerif.Common.Audit
