import DaeVerif.C08.Model
namespace DaeVerif.C08
end DaeVerif.C08
