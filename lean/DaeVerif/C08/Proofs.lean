import DaeVerif.C08.Model
/-!
# C08 — helper lemmas (association list, generic invariant preservation, the invariants)
-/
namespace DaeVerif.C08

/-! ## the association list -/

theorem find_mem {es : List (Key × Entry)} {k : Key} {e : Entry} (h : find es k = some e) : (k, e) ∈ es := by
  induction es with
  | nil => simp [find] at h
  | cons p rest ih =>
    obtain ⟨k', e'⟩ := p
    simp only [find] at h
    split at h
    · rename_i hk; cases h; subst hk; exact List.mem_cons_self
    · exact List.mem_cons_of_mem _ (ih h)

theorem mem_erase {es : List (Key × Entry)} {k : Key} {p : Key × Entry} :
    p ∈ erase es k ↔ p ∈ es ∧ p.1 ≠ k := by
  simp [erase, List.mem_filter]

theorem mem_store {es : List (Key × Entry)} {k : Key} {e : Entry} {p : Key × Entry} :
    p ∈ store es k e ↔ p = (k, e) ∨ (p ∈ es ∧ p.1 ≠ k) := by
  simp [store, mem_erase]

theorem find_erase (es : List (Key × Entry)) (k k' : Key) :
    find (erase es k) k' = if k = k' then none else find es k' := by
  induction es with
  | nil => simp [erase, find]
  | cons p rest ih =>
    obtain ⟨k0, e0⟩ := p
    simp only [erase, List.filter] at ih ⊢
    by_cases h0 : k0 = k
    · subst h0
      simp only [ne_eq, not_true_eq_false, decide_false]
      rw [ih]
      by_cases hk : k0 = k'
      · simp [hk]
      · simp [hk, find]
    · simp only [ne_eq, h0, not_false_eq_true, decide_true, find]
      rw [ih]
      by_cases hk : k = k'
      · subst hk; simp [h0]
      · simp [hk]

theorem find_store (es : List (Key × Entry)) (k : Key) (e : Entry) (k' : Key) :
    find (store es k e) k' = if k = k' then some e else find es k' := by
  simp only [store, find]
  by_cases hk : k = k'
  · simp [hk]
  · simp [hk, find_erase]

/-- every stored pair satisfies `P` -/
def AllE (P : Key → Entry → Prop) (es : List (Key × Entry)) : Prop := ∀ p ∈ es, P p.1 p.2

theorem AllE.filter {P : Key → Entry → Prop} {es : List (Key × Entry)} (f : Key × Entry → Bool)
    (h : AllE P es) : AllE P (es.filter f) := fun p hp => h p (List.mem_filter.mp hp).1

theorem AllE.erase {P : Key → Entry → Prop} {es : List (Key × Entry)} (k : Key)
    (h : AllE P es) : AllE P (erase es k) := h.filter _

theorem AllE.store {P : Key → Entry → Prop} {es : List (Key × Entry)} {k : Key} {e : Entry}
    (h : AllE P es) (he : P k e) : AllE P (store es k e) := by
  intro p hp
  rcases mem_store.mp hp with rfl | ⟨hp, _⟩
  · exact he
  · exact h p hp

theorem AllE.mono {P Q : Key → Entry → Prop} {es : List (Key × Entry)} (hpq : ∀ k e, P k e → Q k e)
    (h : AllE P es) : AllE Q es := fun p hp => hpq _ _ (h p hp)

theorem mem_cloneAll {es : List (Key × Entry)} {id0 : Nat} {p : Key × Entry} (hp : p ∈ cloneAll es id0) :
    ∃ k e i, (k, e) ∈ es ∧ id0 ≤ i ∧ i < id0 + es.length ∧ p = (k, cloneForReload e i) := by
  induction es generalizing id0 with
  | nil => simp [cloneAll] at hp
  | cons q rest ih =>
    obtain ⟨k0, e0⟩ := q
    simp only [cloneAll, List.mem_cons] at hp
    rcases hp with rfl | hp
    · exact ⟨k0, e0, id0, List.mem_cons_self, Nat.le_refl _, by simp, rfl⟩
    · obtain ⟨k, e, i, hm, h1, h2, rfl⟩ := ih hp
      exact ⟨k, e, i, List.mem_cons_of_mem _ hm, by omega, by simp only [List.length_cons]; omega, rfl⟩

theorem length_cloneAll (es : List (Key × Entry)) (id0 : Nat) : (cloneAll es id0).length = es.length := by
  induction es generalizing id0 with
  | nil => rfl
  | cons q rest ih => obtain ⟨k0, e0⟩ := q; simp [cloneAll, ih]

/-! ## generic preservation of a per-entry invariant by one step

`P` holds before the step, `Q` must hold after it (they differ in the ghost data they mention:
the history so far, the latest instant, the next free id). -/

theorem janitor_subset (cfg : Cfg) (s : State) (now : Int) (choice : List Key) :
    ∀ p ∈ (s.janitor cfg now choice).entries, p ∈ s.entries := by
  intro p hp
  simp only [State.janitor, lruEvict, timeEvict] at hp
  split at hp <;> split at hp <;>
    first
    | exact (List.mem_filter.mp (List.mem_filter.mp hp).1).1
    | exact (List.mem_filter.mp hp).1
    | exact hp

theorem step_AllE {P Q : Key → Entry → Prop} (w : World) (op : Op)
    (mono : ∀ k e, P k e → Q k e)
    (hins : ∀ now key host qtype ttl ans nAns ns, op = .insert now key host qtype ttl ans nAns ns false →
      Q (insKey key host qtype) (insEntry w.cfg w.st.nextId now key host qtype ttl ans nAns ns))
    (hlook : ∀ now key ign e e' r, op = .lookup now key ign → (key, e) ∈ w.st.entries → P key e →
      lookupEntry w.cfg now ign e = (some e', r) → Q key e')
    (hclone : ∀ c k e id, op = .reload c → P k e → w.st.nextId ≤ id → id < w.st.nextId + w.st.entries.length →
      Q k (cloneForReload e id))
    (hrd : ∀ now key e, op = .refreshDone now key → (key, e) ∈ w.st.entries → P key e → e.deadline > now →
      e.refreshing = true → Q key { e with refreshing := false })
    (h : AllE P w.st.entries) : AllE Q (step w op).1.st.entries := by
  cases op with
  | insert now key host qtype ttl ans nAns ns isIp =>
    simp only [step, State.insert]
    cases isIp with
    | true => exact h.mono mono
    | false =>
      simp only [Bool.false_eq_true, if_false]
      exact (h.mono mono).store (hins now key host qtype ttl ans nAns ns rfl)
  | lookup now key ign =>
    simp only [step, State.lookup]
    cases hf : find w.st.entries key with
    | none => exact h.mono mono
    | some e0 =>
      have hm := find_mem hf
      cases hl : lookupEntry w.cfg now ign e0 with
      | mk oe r =>
        cases oe with
        | none => simp only [hl]; exact (h.mono mono).erase _
        | some e' => simp only [hl]; exact (h.mono mono).store (hlook now key ign e0 e' r rfl hm (h _ hm) hl)
  | janitor now choice =>
    simp only [step]
    intro p hp
    exact mono _ _ (h p (janitor_subset _ _ _ _ p hp))
  | reload c =>
    simp only [step, State.reload]
    intro p hp
    obtain ⟨k, e, i, hm, h1, h2, rfl⟩ := mem_cloneAll hp
    exact hclone c k e i rfl (h _ hm) h1 h2
  | reconf c => exact h.mono mono
  | refreshDone now key =>
    simp only [step, State.refreshDone]
    cases hf : find w.st.entries key with
    | none => exact h.mono mono
    | some e =>
      have hm := find_mem hf
      simp only []
      split
      · split
        · rename_i hd hr
          exact (h.mono mono).store (hrd now key e rfl hm (h _ hm) hd hr)
        · exact h.mono mono
      · exact (h.mono mono).erase _
  | remove key => exact (h.mono mono).erase _
  | removeFamily base =>
    simp only [step, State.removeFamily]
    split
    · exact h.mono mono
    · exact (h.mono mono).filter _

end DaeVerif.C08
