import DaeVerif.C08.Model
/-!
# C08 — helper lemmas (association list, generic invariant preservation, the invariants)
-/
namespace DaeVerif.C08

/-! ## the association list -/

theorem find_mem {es : List (Key × Entry)} {k : Key} {e : Entry} (h : find es k = some e) : (k, e) ∈ es := by
  induction es with
  | nil => simp [find] at h
  | cons p rest ih =>
    obtain ⟨k', e'⟩ := p
    simp only [find] at h
    split at h
    · rename_i hk; cases h; subst hk; exact List.mem_cons_self
    · exact List.mem_cons_of_mem _ (ih h)

theorem mem_erase {es : List (Key × Entry)} {k : Key} {p : Key × Entry} :
    p ∈ erase es k ↔ p ∈ es ∧ p.1 ≠ k := by
  simp [erase, List.mem_filter]

theorem mem_store {es : List (Key × Entry)} {k : Key} {e : Entry} {p : Key × Entry} :
    p ∈ store es k e ↔ p = (k, e) ∨ (p ∈ es ∧ p.1 ≠ k) := by
  simp [store, mem_erase]

theorem find_erase (es : List (Key × Entry)) (k k' : Key) :
    find (erase es k) k' = if k = k' then none else find es k' := by
  induction es with
  | nil => simp [erase, find]
  | cons p rest ih =>
    obtain ⟨k0, e0⟩ := p
    simp only [erase, List.filter] at ih ⊢
    by_cases h0 : k0 = k
    · subst h0
      simp only [ne_eq, not_true_eq_false, decide_false]
      rw [ih]
      by_cases hk : k0 = k'
      · simp [hk]
      · simp [hk, find]
    · simp only [ne_eq, h0, not_false_eq_true, decide_true, find]
      rw [ih]
      by_cases hk : k = k'
      · subst hk; simp [h0]
      · simp [hk]

theorem find_store (es : List (Key × Entry)) (k : Key) (e : Entry) (k' : Key) :
    find (store es k e) k' = if k = k' then some e else find es k' := by
  simp only [store, find]
  by_cases hk : k = k'
  · simp [hk]
  · simp [hk, find_erase]

/-- every stored pair satisfies `P` -/
def AllE (P : Key → Entry → Prop) (es : List (Key × Entry)) : Prop := ∀ p ∈ es, P p.1 p.2

theorem AllE.filter {P : Key → Entry → Prop} {es : List (Key × Entry)} (f : Key × Entry → Bool)
    (h : AllE P es) : AllE P (es.filter f) := fun p hp => h p (List.mem_filter.mp hp).1

theorem AllE.erase {P : Key → Entry → Prop} {es : List (Key × Entry)} (k : Key)
    (h : AllE P es) : AllE P (erase es k) := h.filter _

theorem AllE.store {P : Key → Entry → Prop} {es : List (Key × Entry)} {k : Key} {e : Entry}
    (h : AllE P es) (he : P k e) : AllE P (store es k e) := by
  intro p hp
  rcases mem_store.mp hp with rfl | ⟨hp, _⟩
  · exact he
  · exact h p hp

theorem AllE.mono {P Q : Key → Entry → Prop} {es : List (Key × Entry)} (hpq : ∀ k e, P k e → Q k e)
    (h : AllE P es) : AllE Q es := fun p hp => hpq _ _ (h p hp)

theorem mem_cloneAll {es : List (Key × Entry)} {id0 : Nat} {p : Key × Entry} (hp : p ∈ cloneAll es id0) :
    ∃ k e i, (k, e) ∈ es ∧ id0 ≤ i ∧ i < id0 + es.length ∧ p = (k, cloneForReload e i) := by
  induction es generalizing id0 with
  | nil => simp [cloneAll] at hp
  | cons q rest ih =>
    obtain ⟨k0, e0⟩ := q
    simp only [cloneAll, List.mem_cons] at hp
    rcases hp with rfl | hp
    · exact ⟨k0, e0, id0, List.mem_cons_self, Nat.le_refl _, by simp, rfl⟩
    · obtain ⟨k, e, i, hm, h1, h2, rfl⟩ := ih hp
      exact ⟨k, e, i, List.mem_cons_of_mem _ hm, by omega, by simp only [List.length_cons]; omega, rfl⟩

theorem length_cloneAll (es : List (Key × Entry)) (id0 : Nat) : (cloneAll es id0).length = es.length := by
  induction es generalizing id0 with
  | nil => rfl
  | cons q rest ih => obtain ⟨k0, e0⟩ := q; simp [cloneAll, ih]

/-! ## generic preservation of a per-entry invariant by one step

`P` holds before the step, `Q` must hold after it (they differ in the ghost data they mention:
the history so far, the latest instant, the next free id). -/

theorem janitor_subset (cfg : Cfg) (s : State) (now : Int) (choice : List Key) :
    ∀ p ∈ (s.janitor cfg now choice).entries, p ∈ s.entries := by
  intro p hp
  simp only [State.janitor, lruEvict, timeEvict] at hp
  split at hp <;> split at hp <;>
    first
    | exact (List.mem_filter.mp (List.mem_filter.mp hp).1).1
    | exact (List.mem_filter.mp hp).1
    | exact hp

theorem step_AllE {P Q : Key → Entry → Prop} (w : World) (op : Op)
    (mono : ∀ k e, P k e → Q k e)
    (hins : ∀ now key host qtype ttl ans nAns ns, op = .insert now key host qtype ttl ans nAns ns false →
      Q (insKey key host qtype) (insEntry w.cfg w.st.nextId now key host qtype ttl ans nAns ns))
    (hlook : ∀ now key ign e e' r, op = .lookup now key ign → (key, e) ∈ w.st.entries → P key e →
      lookupEntry w.cfg now ign e = (some e', r) → Q key e')
    (hclone : ∀ c k e id, op = .reload c → P k e → w.st.nextId ≤ id → id < w.st.nextId + w.st.entries.length →
      Q k (cloneForReload e id))
    (hrd : ∀ now key e, op = .refreshDone now key → (key, e) ∈ w.st.entries → P key e →
      e.refreshing = true → Q key { e with refreshing := false })
    (h : AllE P w.st.entries) : AllE Q (step w op).1.st.entries := by
  cases op with
  | insert now key host qtype ttl ans nAns ns isIp =>
    simp only [step, State.insert]
    cases isIp with
    | true => exact h.mono mono
    | false =>
      simp only [Bool.false_eq_true, if_false]
      exact (h.mono mono).store (hins now key host qtype ttl ans nAns ns rfl)
  | lookup now key ign =>
    simp only [step, State.lookup]
    cases hf : find w.st.entries key with
    | none => exact h.mono mono
    | some e0 =>
      have hm := find_mem hf
      cases hl : lookupEntry w.cfg now ign e0 with
      | mk oe r =>
        cases oe with
        | none => simp only [hl]; exact (h.mono mono).erase _
        | some e' => simp only [hl]; exact (h.mono mono).store (hlook now key ign e0 e' r rfl hm (h _ hm) hl)
  | janitor now choice =>
    simp only [step]
    intro p hp
    exact mono _ _ (h p (janitor_subset _ _ _ _ p hp))
  | reload c =>
    simp only [step, State.reload]
    intro p hp
    obtain ⟨k, e, i, hm, h1, h2, rfl⟩ := mem_cloneAll hp
    exact hclone c k e i rfl (h _ hm) h1 h2
  | reconf c => exact h.mono mono
  | refreshDone now key =>
    simp only [step, State.refreshDone]
    cases hf : find w.st.entries key with
    | none => exact h.mono mono
    | some e =>
      have hm := find_mem hf
      simp only []
      split
      · rename_i hr
        exact (h.mono mono).store (hrd now key e rfl hm (h _ hm) hr)
      · exact h.mono mono
  | remove key => exact (h.mono mono).erase _
  | removeFamily base =>
    simp only [step, State.removeFamily]
    split
    · exact h.mono mono
    · exact (h.mono mono).filter _

/-! ## what one lookup does to the entry it finds -/


/-- what `packedApprox` can do to an entry -/
theorem packedApprox_entry (e : Entry) (now : Int) :
    (packedApprox e now).2 = e ∨
    ((packedApprox e now).2 = repack e now ∧ e.ns ≠ 2 ∧ e.deadlineNano > now ∧ now - e.packedAt > SEC) := by
  unfold packedApprox
  by_cases h1 : e.deadlineNano ≤ now
  · rw [if_pos h1]; exact Or.inl rfl
  · rw [if_neg h1]
    by_cases h2 : e.packed ∧ withinSlack e.packedTTL (curTtl e now)
    · rw [if_pos h2]; exact Or.inl rfl
    · rw [if_neg h2]
      by_cases h3 : now - e.packedAt > SEC ∧ e.ns ≠ 2
      · rw [if_pos h3]; exact Or.inr ⟨rfl, h3.2, by omega, h3.1⟩
      · rw [if_neg h3]; exact Or.inl rfl

/-- the TTL `packedApprox` shows, case by case -/
theorem packedApprox_ttl (e : Entry) (now : Int) (ttl : Nat) (h : (packedApprox e now).1 = some ttl) :
    e.deadlineNano > now ∧
    ((e.packed = true ∧ withinSlack e.packedTTL (curTtl e now) = true ∧ ttl = e.packedTTL) ∨
     ttl = curTtl e now ∨
     (e.packed = true ∧ ttl = e.packedTTL ∧ e.packedTTL ≤ curTtl e now + SLACK)) := by
  unfold packedApprox at h
  by_cases h1 : e.deadlineNano ≤ now
  · rw [if_pos h1] at h; cases h
  · rw [if_neg h1] at h
    refine ⟨by omega, ?_⟩
    by_cases h2 : e.packed ∧ withinSlack e.packedTTL (curTtl e now)
    · rw [if_pos h2] at h; cases h; exact Or.inl ⟨h2.1, h2.2, rfl⟩
    · rw [if_neg h2] at h
      by_cases h3 : now - e.packedAt > SEC ∧ e.ns ≠ 2
      · rw [if_pos h3] at h; cases h; exact Or.inr (Or.inl rfl)
      · rw [if_neg h3] at h
        by_cases h4 : e.packed ∧ ¬ (e.packedTTL > curTtl e now ∧ e.packedTTL - curTtl e now > SLACK)
        · rw [if_pos h4] at h; cases h
          refine Or.inr (Or.inr ⟨h4.1, rfl, ?_⟩)
          have := h4.2
          omega
        · rw [if_neg h4] at h; cases h



theorem lookupEntry_cases (cfg : Cfg) (now : Int) (ign : Bool) (e0 : Entry) :
    let e := touch e0 now
    (lookupDeadline ign e0 > now ∧
      ((∃ ttl, (packedApprox e now).1 = some ttl ∧
          lookupEntry cfg now ign e0 =
            (some (packedApprox e now).2, .hit (freshServed e ttl (packedVisible e)))) ∨
       ((packedApprox e now).1 = none ∧
          lookupEntry cfg now ign e0 =
            (some (packedApprox e now).2, .hit (freshServed e (ttlFromDeadline e.deadline now) (e.nAns > 0)))))) ∨
    (lookupDeadline ign e0 ≤ now ∧ cfg.optimistic = true ∧ ∃ ttl, staleResp e now cfg.staleTtl = some ttl ∧
        lookupEntry cfg now ign e0 =
          (some { e with refreshing := true },
            .hit ⟨e.id, e.src, e.ans, e.nAns, ttl, packedVisible e, true, !e.refreshing⟩)) ∨
    (lookupDeadline ign e0 ≤ now ∧ (cfg.optimistic = false ∨ staleResp e now cfg.staleTtl = none) ∧
        lookupEntry cfg now ign e0 = (none, .miss)) := by
  intro e
  have hd : lookupDeadline ign (touch e0 now) = lookupDeadline ign e0 := by
    simp [lookupDeadline, touch]
  unfold lookupEntry
  simp only []
  by_cases h1 : lookupDeadline ign (touch e0 now) > now
  · left
    rw [if_pos h1]
    refine ⟨by rw [← hd]; exact h1, ?_⟩
    cases hp : (packedApprox (touch e0 now) now).1 with
    | some ttl => left; exact ⟨ttl, rfl, rfl⟩
    | none => right; exact ⟨rfl, rfl⟩
  · right
    rw [if_neg h1]
    have h1' : lookupDeadline ign e0 ≤ now := by rw [← hd]; omega
    by_cases h2 : cfg.optimistic = true
    · rw [if_pos h2]
      cases hs : staleResp (touch e0 now) now cfg.staleTtl with
      | some ttl => left; exact ⟨h1', h2, ttl, rfl, rfl⟩
      | none => right; exact ⟨h1', Or.inr rfl, rfl⟩
    · rw [if_neg h2]
      right; exact ⟨h1', Or.inl (by simpa using h2), rfl⟩

/-! ## the per-entry invariant -/


/-- per-entry invariant: structure (first four) and time (`T` = latest instant so far) -/
structure Ok (T : Int) (k : Key) (e : Entry) : Prop where
  dn : e.deadlineNano = e.deadline
  dl : e.deadline = e.src.t + e.src.eff * SEC
  key : e.src.key = k
  pk : e.packed = true → e.ns ≠ 2
  pat : e.packed = true → e.packedAt ≤ T
  pttl : e.packed = true → e.packedTTL = ttlFromDeadline e.deadline e.packedAt
  st : e.src.t ≤ T
  la : e.lastAccess ≤ T

theorem Ok.mono {T T' : Int} {k : Key} {e : Entry} (hT : T ≤ T') (h : Ok T k e) : Ok T' k e :=
  { h with
    pat := fun hp => Int.le_trans (h.pat hp) hT
    st := Int.le_trans h.st hT
    la := Int.le_trans h.la hT }

theorem Ok.of_insEntry (cfg : Cfg) (id : Nat) (now : Int) (key : Key) (host : List Char) (qtype : Nat)
    (ttl : Int) (ans nAns ns : Nat) :
    Ok now (insKey key host qtype) (insEntry cfg id now key host qtype ttl ans nAns ns) := by
  constructor <;> simp [insEntry]
  · intro h; simp [h]
  · intro h; simp [h]

theorem curTtl_eq (e : Entry) (now : Int) (hd : e.deadlineNano = e.deadline) (h : e.deadlineNano > now) :
    curTtl e now = ttlFromDeadline e.deadline now := by
  unfold curTtl ttlFromDeadline
  rw [hd] at h ⊢
  rw [if_neg (by omega)]

theorem Ok.of_repack {T now : Int} {k : Key} {e : Entry} (hT : T ≤ now) (h : Ok T k e)
    (hns : e.ns ≠ 2) (hd : e.deadlineNano > now) : Ok now k (repack e now) := by
  have h' := h.mono hT
  constructor <;> simp only [repack]
  · exact h.dn
  · exact h.dl
  · exact h.key
  · intro _; exact hns
  · intro _; exact Int.le_refl _
  · intro _; exact curTtl_eq e now h.dn hd
  · exact h'.st
  · exact h'.la

theorem Ok.of_touch {T now : Int} {k : Key} {e : Entry} (hT : T ≤ now) (h : Ok T k e) : Ok now k (touch e now) := by
  have h' := h.mono hT
  exact { h' with la := Int.le_refl _ }

theorem staleResp_some {e : Entry} {now stale : Int} {ttl : Nat} (h : staleResp e now stale = some ttl) :
    e.deadlineNano ≤ now ∧ (stale > 0 → now ≤ e.deadlineNano + stale * SEC) ∧ e.packed = true ∧ ttl = e.packedTTL := by
  unfold staleResp at h
  by_cases h1 : e.deadlineNano > now
  · rw [if_pos h1] at h; cases h
  · rw [if_neg h1] at h
    by_cases h2 : stale > 0 ∧ now > e.deadlineNano + stale * SEC
    · rw [if_pos h2] at h; cases h
    · rw [if_neg h2] at h
      by_cases h3 : e.packed = true
      · rw [if_pos h3] at h; cases h
        refine ⟨by omega, ?_, h3, rfl⟩
        intro hs
        by_cases h4 : now > e.deadlineNano + stale * SEC
        · exact absurd ⟨hs, h4⟩ h2
        · omega
      · rw [if_neg h3] at h; cases h

/-- one step keeps the per-entry invariant, given that the clock did not go backwards -/
theorem step_Ok (T : Int) (w : World) (op : Op) (hpre : ∀ t, op.time = some t → T ≤ t)
    (h : AllE (Ok T) w.st.entries) : AllE (Ok (op.time.getD T)) (step w op).1.st.entries := by
  have hT : T ≤ op.time.getD T := by
    cases ht : op.time with
    | none => simp
    | some t => simpa using hpre t ht
  apply step_AllE (P := Ok T) (Q := Ok (op.time.getD T)) w op (fun k e hk => hk.mono hT) _ _ _ _ h
  · intro now key host qtype ttl ans nAns ns hop
    subst hop
    exact Ok.of_insEntry ..
  · intro now key ign e e' r hop _ hP hl
    subst hop
    have hT' : T ≤ now := hpre now rfl
    simp only [Op.time, Option.getD_some]
    have ht := hP.of_touch hT'
    rcases lookupEntry_cases w.cfg now ign e with ⟨_, hc | hc⟩ | hc | hc
    · obtain ⟨ttl, _, heq⟩ := hc
      rw [heq] at hl; cases hl
      rcases packedApprox_entry (touch e now) now with he | ⟨he, hns, hdn, _⟩
      · rw [he]; exact ht
      · rw [he]; exact ht.of_repack (Int.le_refl _) hns hdn
    · obtain ⟨_, heq⟩ := hc
      rw [heq] at hl; cases hl
      rcases packedApprox_entry (touch e now) now with he | ⟨he, hns, hdn, _⟩
      · rw [he]; exact ht
      · rw [he]; exact ht.of_repack (Int.le_refl _) hns hdn
    · obtain ⟨_, _, ttl, hs, heq⟩ := hc
      rw [heq] at hl; cases hl
      exact { ht with }
    · obtain ⟨_, _, heq⟩ := hc
      rw [heq] at hl; cases hl
  · intro c k e id hop hP _ _
    subst hop
    simp only [Op.time, Option.getD_none]
    constructor <;> simp only [cloneForReload]
    · rw [hP.dn]; simp
    · exact hP.dl
    · exact hP.key
    · exact hP.pk
    · intro hp; simp only [hp, if_true]; exact hP.pat hp
    · intro hp; simp only [hp, if_true]; exact hP.pttl hp
    · exact hP.st
    · exact hP.la
  · intro now key e hop _ hP _
    subst hop
    have hT' : T ≤ now := hpre now rfl
    simp only [Op.time, Option.getD_some]
    have h' := hP.mono hT'
    exact { h' with }

/-! ## histories -/


theorem run_nil (w : World) : run w [] = (w, []) := rfl

theorem run_cons (w : World) (op : Op) (ops : List Op) :
    run w (op :: ops) = ((run (step w op).1 ops).1, (step w op).2 :: (run (step w op).1 ops).2) := rfl

theorem run_append (w : World) (a b : List Op) :
    run w (a ++ b) = ((run (run w a).1 b).1, (run w a).2 ++ (run (run w a).1 b).2) := by
  induction a generalizing w with
  | nil => simp [run_nil]
  | cons op a ih => simp only [List.cons_append, run_cons, ih, List.cons_append]

/-- the latest instant of a history that starts at `t0` -/
def lastTime (t0 : Int) : List Op → Int
  | [] => t0
  | op :: ops => lastTime (op.time.getD t0) ops

theorem Mono.head {t0 : Int} {op : Op} {ops : List Op} (h : Mono t0 (op :: ops)) :
    (∀ t, op.time = some t → t0 ≤ t) ∧ Mono (op.time.getD t0) ops := by
  unfold Mono at h
  cases ht : op.time with
  | none => rw [ht] at h; simpa using h
  | some t => rw [ht] at h; simp only at h; exact ⟨fun t' h' => by cases h'; exact h.1, by simpa using h.2⟩

theorem run_Ok (ops : List Op) (T : Int) (w : World) (hm : Mono T ops) (h : AllE (Ok T) w.st.entries) :
    AllE (Ok (lastTime T ops)) (run w ops).1.st.entries := by
  induction ops generalizing T w with
  | nil => exact h
  | cons op ops ih =>
    rw [run_cons]
    exact ih _ _ hm.head.2 (step_Ok T w op hm.head.1 h)

theorem Mono.le_lastTime {t0 : Int} {ops : List Op} (h : Mono t0 ops) : t0 ≤ lastTime t0 ops := by
  induction ops generalizing t0 with
  | nil => exact Int.le_refl _
  | cons op ops ih =>
    have := ih h.head.2
    have h1 := h.head.1
    simp only [lastTime]
    cases ht : op.time with
    | none => simpa [ht] using this
    | some t => rw [ht] at this; simp only [Option.getD_some] at this ⊢; exact Int.le_trans (h1 t ht) this

theorem AllE_empty (P : Key → Entry → Prop) : AllE P State.empty.entries := by
  intro p hp; simp [State.empty] at hp

/-- the result of a lookup step in terms of `lookupEntry` -/
theorem step_lookup_hit {w : World} {now : Int} {key : Key} {ign : Bool} {sv : Served}
    (h : (step w (.lookup now key ign)).2 = .hit sv) :
    ∃ e0, find w.st.entries key = some e0 ∧ (lookupEntry w.cfg now ign e0).2 = .hit sv := by
  simp only [step, State.lookup] at h
  cases hf : find w.st.entries key with
  | none => rw [hf] at h; cases h
  | some e0 =>
    refine ⟨e0, rfl, ?_⟩
    rw [hf] at h
    simp only at h
    cases hl : lookupEntry w.cfg now ign e0 with
    | mk oe r =>
      rw [hl] at h
      cases oe <;> simpa using h

/-! ## the TTL shown for a fresh answer -/


theorem ttlFromDeadline_le (d now : Int) : ttlFromDeadline d now ≤ max 1 ((d - now) / SEC).toNat := by
  unfold ttlFromDeadline
  by_cases hh : d ≤ now
  · rw [if_pos hh]; omega
  · rw [if_neg hh]; omega

theorem ttlFromDeadline_shift (d p now : Int) (h1 : p ≤ now) (h2 : now - p ≤ SEC) :
    ttlFromDeadline d p ≤ max 1 ((d - now) / SEC).toNat + 1 := by
  unfold ttlFromDeadline
  simp only [SEC] at *
  by_cases hh : d ≤ p
  · rw [if_pos hh]; omega
  · rw [if_neg hh]; omega

theorem withinSlack_le {a b : Nat} (h : withinSlack a b = true) : a ≤ b + SLACK := by
  unfold withinSlack at h
  by_cases hh : a ≥ b
  · rw [if_pos hh] at h; simp at h; omega
  · omega

@[simp] theorem touch_deadline (e : Entry) (now : Int) : (touch e now).deadline = e.deadline := rfl
@[simp] theorem touch_packedAt (e : Entry) (now : Int) : (touch e now).packedAt = e.packedAt := rfl
@[simp] theorem touch_packedTTL (e : Entry) (now : Int) : (touch e now).packedTTL = e.packedTTL := rfl
@[simp] theorem touch_deadlineNano (e : Entry) (now : Int) : (touch e now).deadlineNano = e.deadlineNano := rfl

/-- TTL shown on the fresh path, on an entry satisfying the invariant, at an instant not before `T` -/
theorem fresh_ttl_bound {T now : Int} {k : Key} {e0 : Entry} {cfg : Cfg} {ign : Bool} {sv : Served}
    (hok : Ok T k e0) (hT : T ≤ now) (h : (lookupEntry cfg now ign e0).2 = .hit sv) (hs : sv.stale = false) :
    sv.ttl ≤ max 1 ((e0.deadline - now) / SEC).toNat + SLACK ∧ sv.src = e0.src ∧ sv.eid = e0.id ∧
    sv.ans = e0.ans ∧ sv.nAns = e0.nAns ∧ lookupDeadline ign e0 > now ∧ sv.refresh = false := by
  have ht := hok.of_touch hT
  rcases lookupEntry_cases cfg now ign e0 with ⟨hd, hc | hc⟩ | hc | hc
  · obtain ⟨ttl, hp, heq⟩ := hc
    rw [heq] at h; cases h
    refine ⟨?_, rfl, rfl, rfl, rfl, hd, rfl⟩
    simp only [freshServed]
    obtain ⟨hdn, hcases⟩ := packedApprox_ttl _ _ _ hp
    have hcur : curTtl (touch e0 now) now = max 1 ((e0.deadline - now) / SEC).toNat := by
      simp only [curTtl, touch_deadlineNano]; rw [hok.dn]
    rcases hcases with ⟨_, hw, rfl⟩ | rfl | ⟨hpk, rfl, hg⟩
    · rw [hcur] at hw
      exact withinSlack_le hw
    · rw [hcur]; omega
    · rw [hcur] at hg; exact hg
  · obtain ⟨_, heq⟩ := hc
    rw [heq] at h; cases h
    refine ⟨?_, rfl, rfl, rfl, rfl, hd, rfl⟩
    simp only [freshServed, touch_deadline]
    have := ttlFromDeadline_le e0.deadline now
    omega
  · obtain ⟨_, _, ttl, _, heq⟩ := hc
    rw [heq] at h; cases h; cases hs
  · obtain ⟨_, _, heq⟩ := hc
    rw [heq] at h; cases h



/-- a stale answer: what must have been true of the entry and the configuration -/
theorem stale_facts {T now : Int} {k : Key} {e0 : Entry} {cfg : Cfg} {ign : Bool} {sv : Served}
    (hok : Ok T k e0) (h : (lookupEntry cfg now ign e0).2 = .hit sv) (hs : sv.stale = true) :
    cfg.optimistic = true ∧ e0.deadline ≤ now ∧ (cfg.staleTtl > 0 → now ≤ e0.deadline + cfg.staleTtl * SEC) ∧
    sv.src = e0.src ∧ sv.eid = e0.id ∧ sv.ans = e0.ans ∧ sv.nAns = e0.nAns ∧ sv.refresh = !e0.refreshing ∧
    sv.ttl = e0.packedTTL ∧ e0.packed = true := by
  rcases lookupEntry_cases cfg now ign e0 with ⟨hd, hc | hc⟩ | hc | hc
  · obtain ⟨ttl, hp, heq⟩ := hc
    rw [heq] at h; cases h; cases hs
  · obtain ⟨_, heq⟩ := hc
    rw [heq] at h; cases h; cases hs
  · obtain ⟨_, hopt, ttl, hst, heq⟩ := hc
    rw [heq] at h; cases h
    obtain ⟨h1, h2, h3, h4⟩ := staleResp_some hst
    rw [touch_deadlineNano, hok.dn] at h1 h2
    exact ⟨hopt, h1, h2, rfl, rfl, rfl, rfl, rfl, h4, h3⟩
  · obtain ⟨_, _, heq⟩ := hc
    rw [heq] at h; cases h

/-- fields a lookup never changes -/
theorem lookupEntry_preserves {cfg : Cfg} {now : Int} {ign : Bool} {e e' : Entry} {r : LRes}
    (h : lookupEntry cfg now ign e = (some e', r)) :
    e'.src = e.src ∧ e'.ans = e.ans ∧ e'.nAns = e.nAns ∧ e'.ns = e.ns ∧ e'.id = e.id ∧ e'.deadline = e.deadline ∧
    e'.orig = e.orig ∧ e'.lastAccess = now ∧ (e.refreshing = true → e'.refreshing = true) := by
  have hpa : ∀ x : Entry, x = touch e now ∨ x = repack (touch e now) now →
      x.src = e.src ∧ x.ans = e.ans ∧ x.nAns = e.nAns ∧ x.ns = e.ns ∧ x.id = e.id ∧ x.deadline = e.deadline ∧
      x.orig = e.orig ∧ x.lastAccess = now ∧ (e.refreshing = true → x.refreshing = true) := by
    intro x hx
    rcases hx with rfl | rfl <;> simp [touch, repack]
  have hpe : (packedApprox (touch e now) now).2 = touch e now ∨
      (packedApprox (touch e now) now).2 = repack (touch e now) now := by
    rcases packedApprox_entry (touch e now) now with he | ⟨he, _⟩
    · exact Or.inl he
    · exact Or.inr he
  rcases lookupEntry_cases cfg now ign e with ⟨_, hc | hc⟩ | hc | hc
  · obtain ⟨ttl, _, heq⟩ := hc
    rw [heq] at h; cases h; exact hpa _ hpe
  · obtain ⟨_, heq⟩ := hc
    rw [heq] at h; cases h; exact hpa _ hpe
  · obtain ⟨_, _, ttl, _, heq⟩ := hc
    rw [heq] at h; cases h; simp [touch]
  · obtain ⟨_, _, heq⟩ := hc
    rw [heq] at h; cases h

/-! ## every entry comes from an insert of the history -/

def cfgOfOp : Op → Option Cfg
  | .reload c => some c
  | .reconf c => some c
  | _ => none

/-- the configurations in force at some point of a history that starts under `c0` -/
def cfgsOf (c0 : Cfg) (ops : List Op) : List Cfg := c0 :: ops.filterMap cfgOfOp

/-- the entry stored under `k` was created by an insert operation of `past`, under the key `k`, with
the answers it still has, its `Deadline` TTL being the caller's TTL or the fixed TTL of a
configuration that was in force -/
def SrcOk (cfgs : List Cfg) (past : List Op) (k : Key) (e : Entry) : Prop :=
  ∃ key0 host0 ns c,
    Op.insert e.src.t key0 host0 e.src.qtype e.src.ttl e.ans e.nAns ns false ∈ past ∧ c ∈ cfgs ∧
    e.src.host = (splitHost host0).2 ∧ k = insKey key0 host0 e.src.qtype ∧
    e.src.eff = effTtl c e.src.host e.src.ttl

theorem SrcOk.mono {cfgs cfgs' : List Cfg} {past past' : List Op} {k : Key} {e : Entry}
    (hc : ∀ c ∈ cfgs, c ∈ cfgs') (hp : ∀ o ∈ past, o ∈ past') (h : SrcOk cfgs past k e) : SrcOk cfgs' past' k e := by
  obtain ⟨key0, host0, ns, c, h1, h2, h3⟩ := h
  exact ⟨key0, host0, ns, c, hp _ h1, hc _ h2, h3⟩

theorem SrcOk.congr {cfgs : List Cfg} {past : List Op} {k : Key} {e e' : Entry}
    (hs : e'.src = e.src) (ha : e'.ans = e.ans) (hn : e'.nAns = e.nAns) (h : SrcOk cfgs past k e) :
    SrcOk cfgs past k e' := by
  unfold SrcOk at *
  rw [hs, ha, hn]; exact h

theorem step_SrcOk (cfgs : List Cfg) (past : List Op) (w : World) (op : Op) (hc : w.cfg ∈ cfgs)
    (h : AllE (SrcOk cfgs past) w.st.entries) :
    (step w op).1.cfg ∈ cfgs ++ (cfgOfOp op).toList ∧
    AllE (SrcOk (cfgs ++ (cfgOfOp op).toList) (past ++ [op])) (step w op).1.st.entries := by
  constructor
  · cases op <;> simp [step, cfgOfOp, hc]
  · have hm : ∀ k e, SrcOk cfgs past k e → SrcOk (cfgs ++ (cfgOfOp op).toList) (past ++ [op]) k e :=
      fun k e hk => hk.mono (fun c hc => List.mem_append_left _ hc) (fun o ho => List.mem_append_left _ ho)
    apply step_AllE (P := SrcOk cfgs past) w op hm _ _ _ _ h
    · intro now key host qtype ttl ans nAns ns hop
      subst hop
      exact ⟨key, host, ns, w.cfg, by simp [insEntry], List.mem_append_left _ hc, rfl, rfl, rfl⟩
    · intro now key ign e e' r _ _ hP hl
      obtain ⟨h1, h2, h3, _⟩ := lookupEntry_preserves hl
      exact (hm _ _ hP).congr h1 h2 h3
    · intro c k e id _ hP _ _
      exact (hm _ _ hP).congr rfl rfl rfl
    · intro now key e _ _ hP _
      exact (hm _ _ hP).congr rfl rfl rfl

theorem run_SrcOk (ops : List Op) (cfgs : List Cfg) (past : List Op) (w : World) (hc : w.cfg ∈ cfgs)
    (h : AllE (SrcOk cfgs past) w.st.entries) :
    (run w ops).1.cfg ∈ cfgs ++ ops.filterMap cfgOfOp ∧
    AllE (SrcOk (cfgs ++ ops.filterMap cfgOfOp) (past ++ ops)) (run w ops).1.st.entries := by
  induction ops generalizing cfgs past w with
  | nil => simpa using ⟨hc, h⟩
  | cons op ops ih =>
    rw [run_cons]
    obtain ⟨h1, h2⟩ := step_SrcOk cfgs past w op hc h
    have := ih _ _ _ h1 h2
    have e1 : cfgs ++ (cfgOfOp op).toList ++ ops.filterMap cfgOfOp = cfgs ++ (op :: ops).filterMap cfgOfOp := by
      cases hh : cfgOfOp op <;> simp [hh]
    have e2 : past ++ [op] ++ ops = past ++ op :: ops := by simp
    rw [e1, e2] at this
    exact this


/-! ## at most one refresh in flight per entry object -/

/-- the entry whose lookup asked the caller to start a background refresh -/
def refreshId : LRes → Option Nat
  | .hit sv => if sv.refresh then some sv.eid else none
  | .miss => none

/-- Ghost: the entries with a refresh in flight.  A lookup that returns `needRefresh` adds the entry
object it answered from; the clean-up that ends a refresh of `key` releases the entry object stored
under `key` at that moment. -/
def latchStep (w : World) (op : Op) (latched : List Nat) : List Nat :=
  match op with
  | .refreshDone _ key =>
    match find w.st.entries key with
    | some e => latched.erase e.id
    | none => latched
  | _ => latched ++ (refreshId (step w op).2).toList

def latchedAfter (w : World) (latched : List Nat) : List Op → List Nat
  | [] => latched
  | op :: ops => latchedAfter (step w op).1 (latchStep w op latched) ops

structure IdInv (latched : List Nat) (s : State) : Prop where
  lt : ∀ p ∈ s.entries, p.2.id < s.nextId
  tlt : ∀ i ∈ latched, i < s.nextId
  nd : latched.Nodup
  fresh : ∀ p ∈ s.entries, p.2.refreshing = false → p.2.id ∉ latched
  inj : ∀ p ∈ s.entries, ∀ q ∈ s.entries, p.2.id = q.2.id → p.1 = q.1

theorem IdInv.sub {latched latched' : List Nat} {s : State} {es' : List (Key × Entry)} (h : IdInv latched s)
    (hl : latched'.Sublist latched) (hsub : ∀ p ∈ es', p ∈ s.entries) : IdInv latched' ⟨es', s.nextId⟩ :=
  { lt := fun p hp => h.lt p (hsub p hp)
    tlt := fun i hi => h.tlt i (hl.subset hi)
    nd := h.nd.sublist hl
    fresh := fun p hp hr hi => h.fresh p (hsub p hp) hr (hl.subset hi)
    inj := fun p hp q hq => h.inj p (hsub p hp) q (hsub q hq) }

theorem IdInv.update {latched latched' : List Nat} {s : State} {k : Key} {e0 e' : Entry}
    (h : IdInv latched s) (hm : (k, e0) ∈ s.entries) (hid : e'.id = e0.id)
    (htrig : (latched' = latched ∧ (e'.refreshing = false → e0.refreshing = false)) ∨
             (latched' = latched ++ [e0.id] ∧ e0.refreshing = false ∧ e'.refreshing = true) ∨
             (latched' = latched.erase e0.id)) :
    IdInv latched' ⟨store s.entries k e', s.nextId⟩ := by
  have hother : ∀ p ∈ s.entries, p.1 ≠ k → p.2.id ≠ e0.id := by
    intro p hp hk hi
    exact hk (h.inj p hp (k, e0) hm hi)
  refine ⟨?_, ?_, ?_, ?_, ?_⟩
  · intro p hp
    rcases mem_store.mp hp with rfl | ⟨hp, _⟩
    · simp only [hid]; exact h.lt _ hm
    · exact h.lt p hp
  · intro i hi
    rcases htrig with ⟨rfl, _⟩ | ⟨rfl, _, _⟩ | rfl
    · exact h.tlt i hi
    · rcases List.mem_append.mp hi with hi | hi
      · exact h.tlt i hi
      · simp only [List.mem_singleton] at hi; subst hi; exact h.lt _ hm
    · exact h.tlt i (List.mem_of_mem_erase hi)
  · rcases htrig with ⟨rfl, _⟩ | ⟨rfl, hf, _⟩ | rfl
    · exact h.nd
    · have := h.fresh _ hm hf
      rw [List.nodup_append]
      refine ⟨h.nd, by simp, ?_⟩
      intro a ha b hb
      simp only [List.mem_singleton] at hb; subst hb
      intro hab; subst hab; exact this ha
    · exact h.nd.erase _
  · intro p hp hr
    rcases mem_store.mp hp with rfl | ⟨hp', hk⟩
    · rcases htrig with ⟨rfl, hf⟩ | ⟨rfl, _, ht⟩ | rfl
      · simp only [hid]; exact h.fresh _ hm (hf hr)
      · simp only at hr; rw [ht] at hr; cases hr
      · simp only [hid]; exact List.Nodup.not_mem_erase h.nd
    · rcases htrig with ⟨rfl, _⟩ | ⟨rfl, _, _⟩ | rfl
      · exact h.fresh p hp' hr
      · intro hi
        rcases List.mem_append.mp hi with hi | hi
        · exact h.fresh p hp' hr hi
        · simp only [List.mem_singleton] at hi; exact hother p hp' hk hi
      · intro hi; exact h.fresh p hp' hr (List.mem_of_mem_erase hi)
  · intro p hp q hq hpq
    rcases mem_store.mp hp with rfl | ⟨hp', hk⟩ <;> rcases mem_store.mp hq with rfl | ⟨hq', hk'⟩
    · rfl
    · simp only [hid] at hpq; exact absurd hpq.symm (hother q hq' hk')
    · simp only [hid] at hpq; exact absurd hpq (hother p hp' hk)
    · exact h.inj p hp' q hq' hpq

theorem cloneAll_inj (es : List (Key × Entry)) (id0 : Nat) :
    ∀ p ∈ cloneAll es id0, ∀ q ∈ cloneAll es id0, p.2.id = q.2.id → p.1 = q.1 := by
  induction es generalizing id0 with
  | nil => intro p hp; simp [cloneAll] at hp
  | cons x rest ih =>
    obtain ⟨k0, e0⟩ := x
    intro p hp q hq hpq
    simp only [cloneAll, List.mem_cons] at hp hq
    rcases hp with rfl | hp <;> rcases hq with rfl | hq
    · rfl
    · obtain ⟨k, e, i, _, h1, _, rfl⟩ := mem_cloneAll hq
      simp [cloneForReload] at hpq; omega
    · obtain ⟨k, e, i, _, h1, _, rfl⟩ := mem_cloneAll hp
      simp [cloneForReload] at hpq; omega
    · exact ih _ p hp q hq hpq

theorem latchStep_of_not_refreshDone {w : World} {op : Op} {latched : List Nat}
    (h : ∀ now key, op ≠ .refreshDone now key) :
    latchStep w op latched = latched ++ (refreshId (step w op).2).toList := by
  cases op <;> first | rfl | exact absurd rfl (h _ _)

theorem step_IdInv (latched : List Nat) (w : World) (op : Op) (h : IdInv latched w.st) :
    IdInv (latchStep w op latched) (step w op).1.st := by
  cases op with
  | insert now key host qtype ttl ans nAns ns isIp =>
    rw [latchStep_of_not_refreshDone (by intro _ _ hh; cases hh)]
    simp only [step, refreshId, Option.toList, List.append_nil]
    cases isIp with
    | true => exact h.sub (List.Sublist.refl _) (fun p hp => by simpa [State.insert] using hp)
    | false =>
      simp only [State.insert, Bool.false_eq_true, if_false]
      refine ⟨?_, ?_, h.nd, ?_, ?_⟩
      · intro p hp
        rcases mem_store.mp hp with rfl | ⟨hp, _⟩
        · simp [insEntry]
        · have := h.lt p hp; simp only; omega
      · intro i hi; have := h.tlt i hi; simp only; omega
      · intro p hp _
        rcases mem_store.mp hp with rfl | ⟨hp', _⟩
        · intro hi; have := h.tlt _ hi; simp [insEntry] at this
        · exact h.fresh p hp' ‹_›
      · intro p hp q hq hpq
        rcases mem_store.mp hp with rfl | ⟨hp', hk⟩ <;> rcases mem_store.mp hq with rfl | ⟨hq', hk'⟩
        · rfl
        · have := h.lt q hq'; simp [insEntry] at hpq; omega
        · have := h.lt p hp'; simp [insEntry] at hpq; omega
        · exact h.inj p hp' q hq' hpq
  | lookup now key ign =>
    rw [latchStep_of_not_refreshDone (by intro _ _ hh; cases hh)]
    simp only [step, State.lookup]
    cases hf : find w.st.entries key with
    | none =>
      simp only [refreshId, Option.toList, List.append_nil]
      exact h.sub (List.Sublist.refl _) (fun p hp => hp)
    | some e0 =>
      have hm := find_mem hf
      simp only
      rcases lookupEntry_cases w.cfg now ign e0 with ⟨_, hc | hc⟩ | hc | hc
      · obtain ⟨ttl, _, heq⟩ := hc
        rw [heq]
        simp only [refreshId, freshServed, Bool.false_eq_true, if_false, Option.toList, List.append_nil]
        have hp := lookupEntry_preserves heq
        refine h.update hm hp.2.2.2.2.1 (Or.inl ⟨rfl, ?_⟩)
        intro hr
        rcases packedApprox_entry (touch e0 now) now with he | ⟨he, _⟩ <;> rw [he] at hr <;>
          simpa [touch, repack] using hr
      · obtain ⟨_, heq⟩ := hc
        rw [heq]
        simp only [refreshId, freshServed, Bool.false_eq_true, if_false, Option.toList, List.append_nil]
        have hp := lookupEntry_preserves heq
        refine h.update hm hp.2.2.2.2.1 (Or.inl ⟨rfl, ?_⟩)
        intro hr
        rcases packedApprox_entry (touch e0 now) now with he | ⟨he, _⟩ <;> rw [he] at hr <;>
          simpa [touch, repack] using hr
      · obtain ⟨_, _, ttl, _, heq⟩ := hc
        rw [heq]
        cases hr : e0.refreshing with
        | true =>
          have : refreshId (LRes.hit ⟨(touch e0 now).id, (touch e0 now).src, (touch e0 now).ans, (touch e0 now).nAns,
              ttl, packedVisible (touch e0 now), true, !(touch e0 now).refreshing⟩) = none := by
            simp [refreshId, touch, hr]
          simp only [this, Option.toList, List.append_nil]
          exact h.update hm rfl (Or.inl ⟨rfl, fun hx => by cases hx⟩)
        | false =>
          have : refreshId (LRes.hit ⟨(touch e0 now).id, (touch e0 now).src, (touch e0 now).ans, (touch e0 now).nAns,
              ttl, packedVisible (touch e0 now), true, !(touch e0 now).refreshing⟩) = some e0.id := by
            simp [refreshId, touch, hr]
          simp only [this, Option.toList]
          exact h.update hm rfl (Or.inr (Or.inl ⟨rfl, hr, rfl⟩))
      · obtain ⟨_, _, heq⟩ := hc
        rw [heq]
        simp only [refreshId, Option.toList, List.append_nil]
        exact h.sub (List.Sublist.refl _) (fun p hp => (mem_erase.mp hp).1)
  | janitor now choice =>
    rw [latchStep_of_not_refreshDone (by intro _ _ hh; cases hh)]
    simp only [step, refreshId, Option.toList, List.append_nil]
    exact h.sub (List.Sublist.refl _) (janitor_subset _ _ _ _)
  | reload c =>
    rw [latchStep_of_not_refreshDone (by intro _ _ hh; cases hh)]
    simp only [step, refreshId, Option.toList, List.append_nil, State.reload]
    refine ⟨?_, ?_, h.nd, ?_, cloneAll_inj _ _⟩
    · intro p hp
      obtain ⟨k, e, i, _, _, h2, rfl⟩ := mem_cloneAll hp
      simpa [cloneForReload] using h2
    · intro i hi; have := h.tlt i hi; simp only; omega
    · intro p hp _ hi
      obtain ⟨k, e, i, _, h1, _, rfl⟩ := mem_cloneAll hp
      have := h.tlt _ hi
      simp [cloneForReload] at this; omega
  | reconf c =>
    rw [latchStep_of_not_refreshDone (by intro _ _ hh; cases hh)]
    simp only [step, refreshId, Option.toList, List.append_nil]
    exact h.sub (List.Sublist.refl _) (fun p hp => hp)
  | refreshDone now key =>
    simp only [step, latchStep, State.refreshDone]
    cases hf : find w.st.entries key with
    | none => exact h.sub (List.Sublist.refl _) (fun p hp => hp)
    | some e =>
      have hm := find_mem hf
      simp only
      split
      · exact h.update hm rfl (Or.inr (Or.inr rfl))
      · exact h.sub (List.erase_sublist) (fun p hp => hp)
  | remove key =>
    rw [latchStep_of_not_refreshDone (by intro _ _ hh; cases hh)]
    simp only [step, refreshId, Option.toList, List.append_nil, State.remove]
    exact h.sub (List.Sublist.refl _) (fun p hp => (mem_erase.mp hp).1)
  | removeFamily base =>
    rw [latchStep_of_not_refreshDone (by intro _ _ hh; cases hh)]
    simp only [step, refreshId, Option.toList, List.append_nil, State.removeFamily]
    split
    · exact h.sub (List.Sublist.refl _) (fun p hp => hp)
    · exact h.sub (List.Sublist.refl _) (fun p hp => (List.mem_filter.mp hp).1)

theorem run_IdInv (ops : List Op) (latched : List Nat) (w : World) (h : IdInv latched w.st) :
    IdInv (latchedAfter w latched ops) (run w ops).1.st := by
  induction ops generalizing latched w with
  | nil => exact h
  | cons op ops ih =>
    rw [run_cons]
    exact ih _ _ (step_IdInv latched w op h)

theorem IdInv_empty : IdInv [] State.empty :=
  { lt := fun p hp => by simp [State.empty] at hp
    tlt := fun i hi => by simp at hi
    nd := List.nodup_nil
    fresh := fun p hp => by simp [State.empty] at hp
    inj := fun p hp => by simp [State.empty] at hp }

/-! ## the clock-independent part of the entry invariant (holds even if the clock jumps back) -/

structure OkS (k : Key) (e : Entry) : Prop where
  dn : e.deadlineNano = e.deadline
  dl : e.deadline = e.src.t + e.src.eff * SEC
  og : e.orig = e.src.t + e.src.ttl * SEC
  key : e.src.key = k
  pk : e.packed = true ↔ e.ns ≠ 2

theorem step_OkS (w : World) (op : Op) (h : AllE OkS w.st.entries) : AllE OkS (step w op).1.st.entries := by
  apply step_AllE (P := OkS) (Q := OkS) w op (fun k e hk => hk) _ _ _ _ h
  · intro now key host qtype ttl ans nAns ns _
    constructor <;> simp [insEntry]
  · intro now key ign e e' r _ _ hP hl
    have hpa : ∀ x : Entry, x = touch e now ∨ (x = repack (touch e now) now ∧ e.ns ≠ 2) ∨
        x = { touch e now with refreshing := true } → OkS key x := by
      intro x hx
      rcases hx with rfl | ⟨rfl, hns⟩ | rfl
      · exact ⟨hP.dn, hP.dl, hP.og, hP.key, hP.pk⟩
      · exact ⟨hP.dn, hP.dl, hP.og, hP.key, by simp [repack, touch, hns]⟩
      · exact ⟨hP.dn, hP.dl, hP.og, hP.key, hP.pk⟩
    have hpe : (packedApprox (touch e now) now).2 = touch e now ∨
        ((packedApprox (touch e now) now).2 = repack (touch e now) now ∧ e.ns ≠ 2) := by
      rcases packedApprox_entry (touch e now) now with he | ⟨he, hns, _⟩
      · exact Or.inl he
      · exact Or.inr ⟨he, hns⟩
    rcases lookupEntry_cases w.cfg now ign e with ⟨_, hc | hc⟩ | hc | hc
    · obtain ⟨ttl, _, heq⟩ := hc
      rw [heq] at hl; cases hl
      exact hpa _ (hpe.elim Or.inl (fun h => Or.inr (Or.inl h)))
    · obtain ⟨_, heq⟩ := hc
      rw [heq] at hl; cases hl
      exact hpa _ (hpe.elim Or.inl (fun h => Or.inr (Or.inl h)))
    · obtain ⟨_, _, ttl, _, heq⟩ := hc
      rw [heq] at hl; cases hl
      exact hpa _ (Or.inr (Or.inr rfl))
    · obtain ⟨_, _, heq⟩ := hc
      rw [heq] at hl; cases hl
  · intro c k e id _ hP _ _
    constructor <;> simp only [cloneForReload]
    · rw [hP.dn]; simp
    · exact hP.dl
    · exact hP.og
    · exact hP.key
    · exact hP.pk
  · intro now key e _ _ hP _
    exact ⟨hP.dn, hP.dl, hP.og, hP.key, hP.pk⟩

theorem run_OkS (ops : List Op) (w : World) (h : AllE OkS w.st.entries) : AllE OkS (run w ops).1.st.entries := by
  induction ops generalizing w with
  | nil => exact h
  | cons op ops ih => rw [run_cons]; exact ih _ (step_OkS w op h)

/-- fresh / stale facts from the clock-independent invariant alone -/
theorem served_bounds {k : Key} {e0 : Entry} {cfg : Cfg} {now : Int} {ign : Bool} {sv : Served}
    (hok : OkS k e0) (h : (lookupEntry cfg now ign e0).2 = .hit sv) :
    sv.src = e0.src ∧ sv.eid = e0.id ∧ sv.ans = e0.ans ∧ sv.nAns = e0.nAns ∧
    (sv.stale = false → now < sv.src.t + (if ign then sv.src.ttl else sv.src.eff) * SEC ∧ sv.refresh = false) ∧
    (sv.stale = true → cfg.optimistic = true ∧ sv.src.t + sv.src.eff * SEC ≤ now ∧
      (cfg.staleTtl > 0 → now ≤ sv.src.t + sv.src.eff * SEC + cfg.staleTtl * SEC) ∧
      sv.refresh = !e0.refreshing) := by
  have hdl : lookupDeadline ign e0 = e0.src.t + (if ign then e0.src.ttl else e0.src.eff) * SEC := by
    unfold lookupDeadline; cases ign <;> simp [hok.dl, hok.og]
  rcases lookupEntry_cases cfg now ign e0 with ⟨hd, hc | hc⟩ | hc | hc
  · obtain ⟨ttl, hp, heq⟩ := hc
    rw [heq] at h; cases h
    refine ⟨rfl, rfl, rfl, rfl, ?_, ?_⟩
    · intro _; rw [hdl] at hd; exact ⟨hd, rfl⟩
    · intro hs; cases hs
  · obtain ⟨_, heq⟩ := hc
    rw [heq] at h; cases h
    refine ⟨rfl, rfl, rfl, rfl, ?_, ?_⟩
    · intro _; rw [hdl] at hd; exact ⟨hd, rfl⟩
    · intro hs; cases hs
  · obtain ⟨_, hopt, ttl, hst, heq⟩ := hc
    rw [heq] at h; cases h
    obtain ⟨h1, h2, _, _⟩ := staleResp_some hst
    rw [touch_deadlineNano, hok.dn, hok.dl] at h1 h2
    refine ⟨rfl, rfl, rfl, rfl, ?_, ?_⟩
    · intro hs; cases hs
    · intro _; exact ⟨hopt, h1, h2, rfl⟩
  · obtain ⟨_, _, heq⟩ := hc
    rw [heq] at h; cases h

theorem run_take_output (w : World) (ops : List Op) (i : Nat) (op : Op) (h : ops[i]? = some op) :
    (run w ops).2[i]? = some (step (run w (ops.take i)).1 op).2 := by
  induction ops generalizing w i with
  | nil => simp at h
  | cons o ops ih =>
    cases i with
    | zero => simp at h; subst h; simp [run_cons, run_nil]
    | succ i =>
      simp only [List.getElem?_cons_succ] at h
      simp only [run_cons, List.getElem?_cons_succ, List.take_succ_cons]
      exact ih _ _ h




/-! ## keys -/

theorem lowerAscii_eq_iff_of_fixed (x : Char) (hx : lowerAscii x = x) (hnot : ∀ c, lowerAscii c = x → c = x) (c : Char) :
    lowerAscii c = x ↔ c = x := ⟨hnot c, fun h => by rw [h, hx]⟩

theorem lowerAscii_dot (c : Char) : lowerAscii c = '.' ↔ c = '.' := by
  constructor
  · intro h; unfold lowerAscii at h; split at h <;> first | exact h | (revert h; decide)
  · intro h; subst h; rfl

theorem lowerAscii_bslash (c : Char) : lowerAscii c = '\\' ↔ c = '\\' := by
  constructor
  · intro h; unfold lowerAscii at h; split at h <;> first | exact h | (revert h; decide)
  · intro h; subst h; rfl

theorem lowerAscii_bar (c : Char) : lowerAscii c = '|' ↔ c = '|' := by
  constructor
  · intro h; unfold lowerAscii at h; split at h <;> first | exact h | (revert h; decide)
  · intro h; subst h; rfl

theorem takeWhile_bslash_map (l : List Char) :
    ((l.map lowerAscii).takeWhile (· == '\\')).length = (l.takeWhile (· == '\\')).length := by
  induction l with
  | nil => rfl
  | cons c rest ih =>
    simp only [List.map_cons, List.takeWhile_cons]
    by_cases hc : c = '\\'
    · subst hc
      have h0 : lowerAscii '\\' = '\\' := rfl
      simp [h0, ih]
    · have : ¬ lowerAscii c = '\\' := fun h => hc ((lowerAscii_bslash c).mp h)
      simp [hc, this]

theorem isFqdn_map_lower (s : List Char) : isFqdn (s.map lowerAscii) = isFqdn s := by
  unfold isFqdn
  rw [← List.map_reverse]
  cases hr : s.reverse with
  | nil => rfl
  | cons c rest =>
    simp only [List.map_cons]
    by_cases hc : c = '.'
    · subst hc
      show (match '.' :: rest.map lowerAscii with | '.' :: rest => _ | _ => false) = _
      simp only [takeWhile_bslash_map]
    · have h1 : ¬ lowerAscii c = '.' := fun h => hc ((lowerAscii_dot c).mp h)
      split
      · rename_i heq; simp only [List.cons.injEq] at heq; exact absurd heq.1 h1
      · split
        · rename_i heq; simp only [List.cons.injEq] at heq; exact absurd heq.1 hc
        · rfl

/-- **Case-insensitive names.**  Two spellings of a name that differ only in ASCII letter case give
the same canonical name, hence the same cache key for every type and route. -/
theorem canon_case_insensitive (n1 n2 : List Char) (h : n1.map lowerAscii = n2.map lowerAscii) :
    canon n1 = canon n2 := by
  unfold canon fqdn
  have hf : isFqdn n1 = isFqdn n2 := by rw [← isFqdn_map_lower n1, ← isFqdn_map_lower n2, h]
  rw [hf]
  split <;> simp [h]


theorem split_first {α : Type} (x : α) (a1 a2 b1 b2 : List α) (h1 : x ∉ a1) (h2 : x ∉ a2)
    (h : a1 ++ x :: b1 = a2 ++ x :: b2) : a1 = a2 ∧ b1 = b2 := by
  induction a1 generalizing a2 with
  | nil =>
    cases a2 with
    | nil => simpa using h
    | cons y ys =>
      simp only [List.nil_append, List.cons_append, List.cons.injEq] at h
      exact absurd (h.1 ▸ List.mem_cons_self) h2
  | cons z zs ih =>
    cases a2 with
    | nil =>
      simp only [List.nil_append, List.cons_append, List.cons.injEq] at h
      exact absurd (h.1 ▸ List.mem_cons_self) h1
    | cons y ys =>
      simp only [List.cons_append, List.cons.injEq] at h
      obtain ⟨r1, r2⟩ := ih ys (fun hm => h1 (List.mem_cons_of_mem _ hm)) (fun hm => h2 (List.mem_cons_of_mem _ hm)) h.2
      exact ⟨by rw [h.1, r1], r2⟩

theorem split_last {α : Type} (x : α) (a1 a2 b1 b2 : List α) (h1 : x ∉ b1) (h2 : x ∉ b2)
    (h : a1 ++ x :: b1 = a2 ++ x :: b2) : a1 = a2 ∧ b1 = b2 := by
  have h' := congrArg List.reverse h
  simp only [List.reverse_append, List.reverse_cons, List.append_assoc, List.singleton_append] at h'
  obtain ⟨r1, r2⟩ := split_first x b1.reverse b2.reverse a1.reverse a2.reverse (by simpa using h1) (by simpa using h2) h'
  exact ⟨List.reverse_inj.mp r2, List.reverse_inj.mp r1⟩

theorem digit_ne {c : Char} (h : c ∈ Nat.toDigits 10 n) : c ≠ '|' ∧ c ≠ '.' := by
  have hd := Nat.isDigit_of_mem_toDigits (by decide) (by decide) h
  constructor <;> (intro hc; subst hc; revert hd; decide)

theorem toDigits_inj {a b : Nat} (h : Nat.toDigits 10 a = Nat.toDigits 10 b) : a = b := by
  have := congrArg (fun l => Nat.ofDigitChars 10 l 0) h
  simpa [Nat.ofDigitChars_ten_toDigits] using this

theorem isFqdn_ends {s : List Char} (h : isFqdn s = true) : ∃ l, s = l ++ ['.'] := by
  unfold isFqdn at h
  split at h
  · rename_i rest heq
    exact ⟨rest.reverse, by rw [← List.reverse_reverse s, heq]; simp⟩
  · cases h

theorem canon_ends (n : List Char) : ∃ l, canon n = l ++ ['.'] := by
  unfold canon fqdn
  by_cases h : isFqdn n = true
  · obtain ⟨l, hl⟩ := isFqdn_ends h
    rw [if_pos h, hl]
    exact ⟨l.map lowerAscii, by simp; rfl⟩
  · rw [if_neg h]
    exact ⟨n.map lowerAscii, by simp; rfl⟩

theorem bar_notin_canon {n : List Char} (h : '|' ∉ n) : '|' ∉ canon n := by
  unfold canon fqdn
  intro hm
  rw [List.mem_map] at hm
  obtain ⟨c, hc, hl⟩ := hm
  have : c = '|' := (lowerAscii_bar c).mp hl
  subst this
  split at hc
  · exact h hc
  · rcases List.mem_append.mp hc with hc | hc
    · exact h hc
    · simp at hc

theorem bar_notin_escBar (l : List Char) : '|' ∉ escBar l := by
  unfold escBar
  intro hm
  obtain ⟨c, _, hc⟩ := List.mem_flatMap.mp hm
  by_cases h : c = '|'
  · rw [if_pos h] at hc; revert hc; decide
  · rw [if_neg h] at hc; simp only [List.mem_singleton] at hc; exact h hc.symm

theorem bar_notin_kname (n : List Char) : '|' ∉ kname n := bar_notin_escBar _

theorem kname_ends (n : List Char) : ∃ l, kname n = l ++ ['.'] := by
  obtain ⟨l, hl⟩ := canon_ends n
  refine ⟨escBar l, ?_⟩
  unfold kname; rw [hl]; simp [escBar]

theorem bar_notin_cacheKey {n : List Char} (q : Nat) : '|' ∉ cacheKey n q := by
  unfold cacheKey qtypeStr
  intro hm
  rcases List.mem_append.mp hm with hm | hm
  · exact bar_notin_kname n hm
  · exact (digit_ne hm).1 rfl

theorem cacheKey_inj {n1 n2 : List Char} {q1 q2 : Nat} (h : cacheKey n1 q1 = cacheKey n2 q2) :
    kname n1 = kname n2 ∧ q1 = q2 := by
  unfold cacheKey qtypeStr at h
  obtain ⟨l1, h1⟩ := kname_ends n1
  obtain ⟨l2, h2⟩ := kname_ends n2
  rw [h1, h2] at h ⊢
  simp only [List.append_assoc, List.singleton_append] at h
  obtain ⟨r1, r2⟩ := split_last '.' l1 l2 _ _ (fun hm => (digit_ne hm).2 rfl) (fun hm => (digit_ne hm).2 rfl) h
  exact ⟨by rw [r1], toDigits_inj r2⟩

/-- **Scoped keys.**  For names without a `|` character, equal response-cache keys mean: the same name
up to ASCII case and trailing dot, the same query type and the same scope string. -/
theorem scopedKey_inj {n1 n2 : List Char} {q1 q2 : Nat} {s1 s2 : List Char}
    (h : scopedKey (cacheKey n1 q1) s1 = scopedKey (cacheKey n2 q2) s2) :
    kname n1 = kname n2 ∧ q1 = q2 ∧ s1 = s2 := by
  have b1 := bar_notin_cacheKey (n := n1) q1
  have b2 := bar_notin_cacheKey (n := n2) q2
  unfold scopedKey at h
  by_cases e1 : s1 = [] <;> by_cases e2 : s2 = []
  · rw [if_pos e1, if_pos e2] at h
    obtain ⟨r1, r2⟩ := cacheKey_inj h
    exact ⟨r1, r2, by rw [e1, e2]⟩
  · rw [if_pos e1, if_neg e2] at h
    exact absurd (h ▸ (by simp : '|' ∈ cacheKey n2 q2 ++ '|' :: s2)) b1
  · rw [if_neg e1, if_pos e2] at h
    exact absurd (h ▸ (by simp : '|' ∈ cacheKey n1 q1 ++ '|' :: s1)) b2
  · rw [if_neg e1, if_neg e2] at h
    obtain ⟨r1, r2⟩ := split_first '|' _ _ _ _ b1 b2 h
    obtain ⟨r3, r4⟩ := cacheKey_inj r1
    exact ⟨r3, r4, r2⟩

theorem scopeOf_inj {r1 r2 : Route} (h : scopeOf r1 = scopeOf r2) : r1 = r2 := by
  cases r1 with
  | asIs d1 =>
    cases d1 <;> cases r2 with
    | asIs d2 => cases d2 <;> simp_all [scopeOf]
    | _ => simp [scopeOf] at h
  | reject => cases r2 with
    | asIs d2 => cases d2 <;> simp [scopeOf] at h
    | _ => first | rfl | simp [scopeOf] at h
  | upstream s => cases r2 with
    | asIs d2 => cases d2 <;> simp [scopeOf] at h
    | upstream s2 => simp [scopeOf] at h; rw [h]
    | _ => simp [scopeOf] at h
  | index i => cases r2 with
    | asIs d2 => cases d2 <;> simp [scopeOf] at h
    | index j => simp [scopeOf] at h; rw [toDigits_inj h]
    | _ => simp [scopeOf] at h
  | none => cases r2 with
    | asIs d2 => cases d2 <;> simp [scopeOf] at h
    | none => rfl
    | _ => simp [scopeOf] at h

theorem baseKey_scopedKey {n : List Char} (q : Nat) (s : List Char) :
    baseKey (scopedKey (cacheKey n q) s) = cacheKey n q := by
  have b := bar_notin_cacheKey (n := n) q
  unfold baseKey scopedKey
  have tw : ∀ (l r : List Char), '|' ∉ l → (l ++ '|' :: r).takeWhile (· != '|') = l := by
    intro l r hl
    induction l with
    | nil => simp
    | cons c cs ih =>
      have hc : c ≠ '|' := fun h => hl (h ▸ List.mem_cons_self)
      simp [hc, ih (fun hm => hl (List.mem_cons_of_mem _ hm))]
  have tw0 : ∀ (l : List Char), '|' ∉ l → l.takeWhile (· != '|') = l := by
    intro l hl
    induction l with
    | nil => simp
    | cons c cs ih =>
      have hc : c ≠ '|' := fun h => hl (h ▸ List.mem_cons_self)
      simp [hc, ih (fun hm => hl (List.mem_cons_of_mem _ hm))]
  split
  · exact tw0 _ b
  · exact tw _ _ b



/-! ## unique keys -/

def KN (es : List (Key × Entry)) : Prop := (es.map Prod.fst).Nodup

theorem KN.of_filter {es : List (Key × Entry)} (f : Key × Entry → Bool) (h : KN es) : KN (es.filter f) :=
  List.Nodup.sublist (List.Sublist.map _ List.filter_sublist) h

theorem KN.of_store {es : List (Key × Entry)} (k : Key) (e : Entry) (h : KN es) : KN (store es k e) := by
  unfold KN store
  simp only [List.map_cons, List.nodup_cons]
  refine ⟨?_, KN.of_filter _ h⟩
  intro hm
  obtain ⟨p, hp, hk⟩ := List.mem_map.mp hm
  exact (mem_erase.mp hp).2 hk

theorem map_fst_cloneAll (es : List (Key × Entry)) (id0 : Nat) : (cloneAll es id0).map Prod.fst = es.map Prod.fst := by
  induction es generalizing id0 with
  | nil => rfl
  | cons p rest ih => obtain ⟨k, e⟩ := p; simp [cloneAll, ih]

theorem step_KN (w : World) (op : Op) (h : KN w.st.entries) : KN (step w op).1.st.entries := by
  cases op with
  | insert now key host qtype ttl ans nAns ns isIp =>
    simp only [step, State.insert]
    cases isIp
    · exact h.of_store _ _
    · exact h
  | lookup now key ign =>
    simp only [step, State.lookup]
    cases hf : find w.st.entries key with
    | none => exact h
    | some e0 =>
      cases hl : lookupEntry w.cfg now ign e0 with
      | mk oe r =>
        cases oe with
        | none => simp only [hl]; exact h.of_filter _
        | some e' => simp only [hl]; exact h.of_store _ _
  | janitor now choice =>
    simp only [step, State.janitor, lruEvict, timeEvict]
    split <;> split <;> first | exact (h.of_filter _).of_filter _ | exact h.of_filter _ | exact h
  | reload c =>
    simp only [step, State.reload]
    unfold KN; rw [map_fst_cloneAll]; exact h
  | reconf c => exact h
  | refreshDone now key =>
    simp only [step, State.refreshDone]
    cases hf : find w.st.entries key with
    | none => exact h
    | some e =>
      simp only []
      split
      · exact h.of_store _ _
      · exact h
  | remove key => exact h.of_filter _
  | removeFamily base =>
    simp only [step, State.removeFamily]
    split
    · exact h
    · exact h.of_filter _

theorem run_KN (ops : List Op) (w : World) (h : KN w.st.entries) : KN (run w ops).1.st.entries := by
  induction ops generalizing w with
  | nil => exact h
  | cons op ops ih => rw [run_cons]; exact ih _ (step_KN w op h)

theorem find_of_mem {es : List (Key × Entry)} (h : KN es) {k : Key} {e : Entry} (hm : (k, e) ∈ es) :
    find es k = some e := by
  induction es with
  | nil => simp at hm
  | cons p rest ih =>
    obtain ⟨k0, e0⟩ := p
    unfold KN at h
    simp only [List.map_cons, List.nodup_cons] at h
    simp only [List.mem_cons, Prod.mk.injEq] at hm
    simp only [find]
    rcases hm with ⟨rfl, rfl⟩ | hm
    · simp
    · have : k0 ≠ k := fun hk => h.1 (hk ▸ List.mem_map.mpr ⟨(k, e), hm, rfl⟩)
      simp [this, ih h.2 hm]

/-- removing `ch` (distinct keys, all present) from a list with unique keys removes exactly `|ch|` entries -/
theorem length_filter_not_contains (es : List (Key × Entry)) (ch : List Key) (hkn : KN es) (hnd : ch.Nodup)
    (hall : ∀ c ∈ ch, c ∈ es.map Prod.fst) :
    (es.filter (fun p => !ch.contains p.1)).length + ch.length = es.length := by
  induction es generalizing ch with
  | nil =>
    cases ch with
    | nil => rfl
    | cons c cs => simpa using hall c List.mem_cons_self
  | cons p rest ih =>
    obtain ⟨k, e⟩ := p
    unfold KN at hkn
    simp only [List.map_cons, List.nodup_cons] at hkn
    by_cases hk : k ∈ ch
    · -- k is removed; continue with ch.erase k
      have hnd' : (ch.erase k).Nodup := hnd.erase k
      have hall' : ∀ c ∈ ch.erase k, c ∈ rest.map Prod.fst := by
        intro c hc
        have hc' : c ∈ ch := List.mem_of_mem_erase hc
        have hne : c ≠ k := by
          intro h; subst h
          exact (List.Nodup.not_mem_erase hnd) hc
        have := hall c hc'
        simp only [List.map_cons, List.mem_cons] at this
        rcases this with h | h
        · exact absurd h hne
        · exact h
      have hfe : rest.filter (fun p => !ch.contains p.1) = rest.filter (fun p => !(ch.erase k).contains p.1) := by
        apply List.filter_congr
        intro p hp
        have hpk : p.1 ≠ k := fun h => hkn.1 (h ▸ List.mem_map.mpr ⟨p, hp, rfl⟩)
        by_cases hpc : p.1 ∈ ch
        · simp [hpc, (List.mem_erase_of_ne hpk).mpr hpc]
        · have : p.1 ∉ ch.erase k := fun h => hpc (List.mem_of_mem_erase h)
          simp [hpc, this]
      have := ih (ch.erase k) hkn.2 hnd' hall'
      have hlen : (ch.erase k).length + 1 = ch.length := by
        rw [List.length_erase_of_mem hk]
        have : 0 < ch.length := List.length_pos_of_mem hk
        omega
      have hck : ch.contains k = true := by simpa using hk
      simp only [List.filter_cons, hck, Bool.not_true, Bool.false_eq_true, if_false, List.length_cons]
      rw [hfe]; omega
    · have hall' : ∀ c ∈ ch, c ∈ rest.map Prod.fst := by
        intro c hc
        have := hall c hc
        simp only [List.map_cons, List.mem_cons] at this
        rcases this with h | h
        · exact absurd (h ▸ hc) hk
        · exact h
      have := ih ch hkn.2 hnd hall'
      have hck : ch.contains k = false := by simpa using hk
      simp only [List.filter_cons, hck, Bool.not_false, if_true, List.length_cons]
      omega



/-! ## LRU eviction -/

theorem validChoice_spec {es : List (Key × Entry)} {k : Nat} {ch : List Key} (h : validChoice es k ch = true) :
    ch.length = k ∧ ch.Nodup ∧ (∀ c ∈ ch, (find es c).isSome = true) ∧
    ∀ c ∈ ch, ∀ p ∈ es, p.1 ∉ ch → ((find es c).map (·.lastAccess)).getD 0 ≤ p.2.lastAccess := by
  unfold validChoice at h
  simp only [Bool.and_eq_true, beq_iff_eq, decide_eq_true_eq, List.all_eq_true, Bool.or_eq_true,
    List.contains_iff_mem] at h
  obtain ⟨⟨⟨h1, h2⟩, h3⟩, h4⟩ := h
  refine ⟨h1, h2, h3, ?_⟩
  intro c hc p hp hnp
  rcases h4 c hc p hp with h | h
  · exact absurd h hnp
  · exact h

/-- what `evictLRUIfFull` achieves when the choice it follows is a legal one -/
theorem lruEvict_spec (cfg : Cfg) (es : List (Key × Entry)) (choice : List Key) (hkn : KN es)
    (hmax : cfg.maxSize > 0) (hover : (es.length : Int) > cfg.maxSize)
    (hv : validChoice es (es.length - cfg.maxSize.toNat) choice = true) :
    (lruEvict cfg es choice).length = cfg.maxSize.toNat ∧
    (∀ p ∈ lruEvict cfg es choice, p ∈ es) ∧
    ∀ p ∈ es, p ∉ lruEvict cfg es choice → ∀ q ∈ lruEvict cfg es choice, p.2.lastAccess ≤ q.2.lastAccess := by
  obtain ⟨h1, h2, h3, h4⟩ := validChoice_spec hv
  have heq : lruEvict cfg es choice = es.filter (fun p => !choice.contains p.1) := by
    unfold lruEvict
    rw [if_pos ⟨hmax, hover⟩]
    simp only [hv, if_true]
  rw [heq]
  refine ⟨?_, fun p hp => (List.mem_filter.mp hp).1, ?_⟩
  · have hall : ∀ c ∈ choice, c ∈ es.map Prod.fst := by
      intro c hc
      have := h3 c hc
      cases hf : find es c with
      | none => rw [hf] at this; cases this
      | some e => exact List.mem_map.mpr ⟨(c, e), find_mem hf, rfl⟩
    have := length_filter_not_contains es choice hkn h2 hall
    omega
  · intro p hp hnp q hq
    obtain ⟨hq1, hq2⟩ := List.mem_filter.mp hq
    have hpc : p.1 ∈ choice := by
      by_cases hc : p.1 ∈ choice
      · exact hc
      · exact absurd (List.mem_filter.mpr ⟨hp, by simpa using hc⟩) hnp
    have hqc : q.1 ∉ choice := by simpa using hq2
    have := h4 p.1 hpc q hq1 hqc
    rw [find_of_mem hkn (k := p.1) (e := p.2) hp] at this
    simpa using this

theorem lruEvict_noop (cfg : Cfg) (es : List (Key × Entry)) (choice : List Key)
    (h : ¬ (cfg.maxSize > 0 ∧ (es.length : Int) > cfg.maxSize)) : lruEvict cfg es choice = es := by
  unfold lruEvict; rw [if_neg h]

theorem timeEvict_spec (cfg : Cfg) (now : Int) (es : List (Key × Entry)) (p : Key × Entry) :
    p ∈ timeEvict cfg now es ↔ p ∈ es ∧ (useTimeEviction cfg = true → effDeadline cfg p.2 > now) := by
  unfold timeEvict
  by_cases h : useTimeEviction cfg = true
  · rw [if_pos h]; simp [List.mem_filter, h]
  · rw [if_neg h]; simp [h]



/-! ## the heap selection of `evictLRUIfFull` -/

theorem swapL_length (l : List HItem) (i j : Nat) : (swapL l i j).length = l.length := by
  unfold swapL
  cases l[i]? <;> cases l[j]? <;> simp

theorem swapL_getElem? (l : List HItem) (i j x : Nat) (hi : i < l.length) (hj : j < l.length) :
    (swapL l i j)[x]? = if x = j then l[i]? else if x = i then l[j]? else l[x]? := by
  unfold swapL
  rw [List.getElem?_eq_getElem hi, List.getElem?_eq_getElem hj]
  simp only [List.getElem?_set]
  by_cases h1 : x = j
  · subst h1; simp [hj]
  · by_cases h2 : x = i
    · subst h2; simp [Ne.symm h1, hi, h1]
    · simp [Ne.symm h1, Ne.symm h2, h1, h2]

theorem la_swapL (l : List HItem) (i j x : Nat) (hi : i < l.length) (hj : j < l.length) :
    la (swapL l i j) x = if x = j then la l i else if x = i then la l j else la l x := by
  unfold la
  rw [swapL_getElem? l i j x hi hj]
  split
  · rfl
  · split <;> rfl

theorem swapL_perm (l : List HItem) (i j : Nat) : (swapL l i j).Perm l := by
  unfold swapL
  by_cases hi : i < l.length
  · by_cases hj : j < l.length
    · rw [List.getElem?_eq_getElem hi, List.getElem?_eq_getElem hj]
      exact List.set_set_perm hi hj
    · have : l[j]? = none := List.getElem?_eq_none (by omega)
      rw [this]
      cases l[i]? <;> exact List.Perm.refl _
  · have : l[i]? = none := List.getElem?_eq_none (by omega)
    rw [this]



/-! ## the `fixed_domain_ttl` table -/

def pfStep (m : List (List Char × Int)) (p : List Char × Int) : List (List Char × Int) :=
  (fixedName p.1, p.2) :: m.filter (fun q => q.1 ≠ fixedName p.1)

theorem parseFixed_eq (raw : List (List Char × Int)) : parseFixed raw = raw.foldl pfStep [] := rfl

theorem lookupFixed_filter_ne (m : List (List Char × Int)) (k' k : List Char) (h : k' ≠ k) :
    lookupFixed (m.filter (fun q => q.1 ≠ k')) k = lookupFixed m k := by
  induction m with
  | nil => rfl
  | cons q rest ih =>
    obtain ⟨a, v⟩ := q
    by_cases ha : a = k'
    · subst ha
      simp only [List.filter_cons, ne_eq, not_true_eq_false, decide_false, Bool.false_eq_true, if_false, lookupFixed,
        if_neg h]
      exact ih
    · simp only [List.filter_cons, ne_eq, ha, not_false_eq_true, decide_true, if_true, lookupFixed]
      rw [ih]

theorem lookupFixed_pfStep (m : List (List Char × Int)) (p : List Char × Int) (k : List Char) :
    lookupFixed (pfStep m p) k = if fixedName p.1 = k then some p.2 else lookupFixed m k := by
  unfold pfStep
  simp only [lookupFixed]
  by_cases h : fixedName p.1 = k
  · simp [h]
  · simp only [h, if_false]
    exact lookupFixed_filter_ne m _ k h

theorem lookupFixed_foldl_other (post : List (List Char × Int)) (m : List (List Char × Int)) (k : List Char)
    (h : ∀ q ∈ post, fixedName q.1 ≠ k) : lookupFixed (post.foldl pfStep m) k = lookupFixed m k := by
  induction post generalizing m with
  | nil => rfl
  | cons q rest ih =>
    simp only [List.foldl_cons]
    rw [ih _ (fun q' hq' => h q' (List.mem_cons_of_mem _ hq')), lookupFixed_pfStep,
      if_neg (h q List.mem_cons_self)]

/-- the last `fixed_domain_ttl` line for a name (in any spelling) is the one that counts -/
theorem lookupFixed_parseFixed (pre post : List (List Char × Int)) (name : List Char) (f : Int)
    (hpost : ∀ q ∈ post, fixedName q.1 ≠ fixedName name) :
    lookupFixed (parseFixed (pre ++ (name, f) :: post)) (fixedName name) = some f := by
  rw [parseFixed_eq, List.foldl_append, List.foldl_cons, lookupFixed_foldl_other _ _ _ hpost, lookupFixed_pfStep]
  simp

theorem lookupFixed_parseFixed_none (raw : List (List Char × Int)) (k : List Char)
    (h : ∀ q ∈ raw, fixedName q.1 ≠ k) : lookupFixed (parseFixed raw) k = none := by
  rw [parseFixed_eq, lookupFixed_foldl_other _ _ _ h]; rfl



/-- node `j` of the implicit binary tree over the first `m` items is no younger than… i.e. its
`lastAccess` is ≤ that of its children -/
def NodeOk (l : List HItem) (m j : Nat) : Prop :=
  (2 * j + 1 < m → la l j ≤ la l (2 * j + 1)) ∧ (2 * j + 2 < m → la l j ≤ la l (2 * j + 2))

/-- the child selection of `heapifyMin` -/
def pickS1 (l : List HItem) (m i : Nat) : Nat := if 2 * i + 1 < m ∧ la l (2 * i + 1) < la l i then 2 * i + 1 else i
def pickS2 (l : List HItem) (m i : Nat) : Nat :=
  if 2 * i + 2 < m ∧ la l (2 * i + 2) < la l (pickS1 l m i) then 2 * i + 2 else pickS1 l m i

theorem heapifyMin_succ (l : List HItem) (i m fuel : Nat) :
    heapifyMin l i m (fuel + 1) =
      if pickS2 l m i = i then l else heapifyMin (swapL l i (pickS2 l m i)) (pickS2 l m i) m fuel := rfl

theorem pick_spec (l : List HItem) (m i : Nat) :
    (pickS2 l m i = i ∧ (2 * i + 1 < m → la l i ≤ la l (2 * i + 1)) ∧ (2 * i + 2 < m → la l i ≤ la l (2 * i + 2))) ∨
    ((pickS2 l m i = 2 * i + 1 ∨ pickS2 l m i = 2 * i + 2) ∧ pickS2 l m i < m ∧ la l (pickS2 l m i) < la l i ∧
      (2 * i + 1 < m → la l (pickS2 l m i) ≤ la l (2 * i + 1)) ∧
      (2 * i + 2 < m → la l (pickS2 l m i) ≤ la l (2 * i + 2))) := by
  unfold pickS2 pickS1
  by_cases h1 : 2 * i + 1 < m ∧ la l (2 * i + 1) < la l i
  · rw [if_pos h1]
    by_cases h2 : 2 * i + 2 < m ∧ la l (2 * i + 2) < la l (2 * i + 1)
    · rw [if_pos h2]
      right
      exact ⟨Or.inr rfl, h2.1, by omega, fun _ => by omega, fun _ => Int.le_refl _⟩
    · rw [if_neg h2]
      right
      refine ⟨Or.inl rfl, h1.1, h1.2, fun _ => Int.le_refl _, fun h => ?_⟩
      by_cases h3 : la l (2 * i + 2) < la l (2 * i + 1)
      · exact absurd ⟨h, h3⟩ h2
      · omega
  · rw [if_neg h1]
    by_cases h2 : 2 * i + 2 < m ∧ la l (2 * i + 2) < la l i
    · rw [if_pos h2]
      right
      refine ⟨Or.inr rfl, h2.1, h2.2, fun h => ?_, fun _ => Int.le_refl _⟩
      by_cases h3 : la l (2 * i + 1) < la l i
      · exact absurd ⟨h, h3⟩ h1
      · omega
    · rw [if_neg h2]
      left
      refine ⟨rfl, fun h => ?_, fun h => ?_⟩
      · by_cases h3 : la l (2 * i + 1) < la l i
        · exact absurd ⟨h, h3⟩ h1
        · omega
      · by_cases h3 : la l (2 * i + 2) < la l i
        · exact absurd ⟨h, h3⟩ h2
        · omega


/-- sift-down: if every node from `s` on except `i` is fine, and the parent of `i` (when it is ≥ `s`)
is no younger than `i`'s children, then after `heapifyMin l i m` every node from `s` on is fine.
Items outside `[i, m)` are untouched, values inside `[0, m)` stay inside, and the list is permuted. -/
theorem heapifyMin_spec : ∀ (fuel : Nat) (l : List HItem) (i m s : Nat),
    m ≤ l.length → s ≤ i → m - i ≤ fuel →
    (∀ j, s ≤ j → j ≠ i → NodeOk l m j) →
    (∀ p, s ≤ p → (i = 2 * p + 1 ∨ i = 2 * p + 2) →
      (2 * i + 1 < m → la l p ≤ la l (2 * i + 1)) ∧ (2 * i + 2 < m → la l p ≤ la l (2 * i + 2))) →
    (∀ j, s ≤ j → NodeOk (heapifyMin l i m fuel) m j) ∧ (heapifyMin l i m fuel).length = l.length ∧
    (∀ x, (x < i ∨ m ≤ x) → (heapifyMin l i m fuel)[x]? = l[x]?) ∧
    (∀ a, a < m → ∃ a', a' < m ∧ la (heapifyMin l i m fuel) a = la l a') ∧
    (heapifyMin l i m fuel).Perm l := by
  intro fuel
  induction fuel with
  | zero =>
    intro l i m s hm hs hf hok _
    refine ⟨?_, rfl, fun _ _ => rfl, fun a ha => ⟨a, ha, rfl⟩, List.Perm.refl _⟩
    intro j hj
    by_cases hji : j = i
    · subst hji; exact ⟨fun h => by omega, fun h => by omega⟩
    · exact hok j hj hji
  | succ fuel ih =>
    intro l i m s hm hs hf hok hpar
    rw [heapifyMin_succ]
    rcases pick_spec l m i with ⟨he, h1, h2⟩ | ⟨hc, hcm, hlt, hc1, hc2⟩
    · rw [if_pos he]
      refine ⟨?_, rfl, fun _ _ => rfl, fun a ha => ⟨a, ha, rfl⟩, List.Perm.refl _⟩
      intro j hj
      by_cases hji : j = i
      · subst hji; exact ⟨h1, h2⟩
      · exact hok j hj hji
    · have hci : pickS2 l m i ≠ i := by omega
      rw [if_neg hci]
      generalize pickS2 l m i = c at hc hcm hlt hc1 hc2 hci
      have hil : i < l.length := by omega
      have hcl : c < l.length := by omega
      have hlen : (swapL l i c).length = l.length := swapL_length l i c
      have hla : ∀ x, la (swapL l i c) x = if x = c then la l i else if x = i then la l c else la l x :=
        fun x => la_swapL l i c x hil hcl
      have hstep := ih (swapL l i c) c m s (by omega) (by omega) (by omega) ?_ ?_
      · obtain ⟨r1, r2, r3, r4, r5⟩ := hstep
        refine ⟨r1, by omega, ?_, ?_, r5.trans (swapL_perm l i c)⟩
        · intro x hx
          rw [r3 x (by omega), swapL_getElem? l i c x hil hcl]
          rw [if_neg (by omega), if_neg (by omega)]
        · intro a ha
          obtain ⟨a', ha', heq⟩ := r4 a ha
          rw [heq, hla a']
          by_cases h1 : a' = c
          · rw [if_pos h1]; exact ⟨i, by omega, rfl⟩
          · rw [if_neg h1]
            by_cases h2 : a' = i
            · rw [if_pos h2]; exact ⟨c, hcm, rfl⟩
            · rw [if_neg h2]; exact ⟨a', ha', rfl⟩
      · -- every node ≥ s except c is fine after the swap
        intro j hj hjc
        unfold NodeOk
        rw [hla j, hla (2 * j + 1), hla (2 * j + 2)]
        rw [if_neg hjc]
        by_cases hji : j = i
        · subst hji
          rw [if_pos rfl]
          rcases hc with hc | hc
          · subst hc
            rw [if_pos rfl, if_neg (by omega), if_neg (by omega)]
            exact ⟨fun _ => by omega, hc2⟩
          · subst hc
            rw [if_neg (by omega), if_neg (by omega), if_pos rfl]
            exact ⟨hc1, fun _ => by omega⟩
        · rw [if_neg hji]
          have hcj1 : 2 * j + 1 ≠ c := by omega
          have hcj2 : 2 * j + 2 ≠ c := by omega
          rw [if_neg hcj1, if_neg hcj2]
          have hnj := hok j hj hji
          constructor
          · intro hlt1
            by_cases hi1 : 2 * j + 1 = i
            · rw [if_pos hi1]
              have := hpar j hj (Or.inl hi1.symm)
              rcases hc with hc | hc <;> subst hc
              · exact this.1 hcm
              · exact this.2 hcm
            · rw [if_neg hi1]; exact hnj.1 hlt1
          · intro hlt2
            by_cases hi2 : 2 * j + 2 = i
            · rw [if_pos hi2]
              have := hpar j hj (Or.inr hi2.symm)
              rcases hc with hc | hc <;> subst hc
              · exact this.1 hcm
              · exact this.2 hcm
            · rw [if_neg hi2]; exact hnj.2 hlt2
      · -- the parent of c is i, which now holds the old item of c: no younger than c's children
        intro p hp hpc
        have hpi : p = i := by omega
        subst hpi
        rw [hla p, hla (2 * c + 1), hla (2 * c + 2)]
        rw [if_neg (by omega), if_pos rfl, if_neg (by omega), if_neg (by omega), if_neg (by omega), if_neg (by omega)]
        exact hok c (by omega) hci



theorem buildFrom_spec (n : Nat) : ∀ (cnt : Nat) (l : List HItem), l.length = n →
    (∀ j, cnt ≤ j → NodeOk l n j) →
    (∀ j, NodeOk (buildFrom l n cnt) n j) ∧ (buildFrom l n cnt).length = n ∧ (buildFrom l n cnt).Perm l := by
  intro cnt
  induction cnt with
  | zero =>
    intro l hl h
    exact ⟨fun j => h j (Nat.zero_le _), hl, List.Perm.refl _⟩
  | succ i ih =>
    intro l hl h
    simp only [buildFrom]
    obtain ⟨r1, r2, _, _, r5⟩ := heapifyMin_spec n l i n i (by omega) (Nat.le_refl _) (by omega)
      (fun j hj hji => h j (by omega)) (fun p hp hpi => by omega)
    obtain ⟨q1, q2, q3⟩ := ih (heapifyMin l i n n) (by omega) r1
    exact ⟨q1, q2, q3.trans r5⟩

theorem buildMinHeap_spec (l : List HItem) :
    (∀ j, NodeOk (buildMinHeap l) l.length j) ∧ (buildMinHeap l).length = l.length ∧ (buildMinHeap l).Perm l := by
  unfold buildMinHeap
  exact buildFrom_spec l.length (l.length / 2) l rfl
    (fun j hj => ⟨fun h => by omega, fun h => by omega⟩)

theorem root_min (l : List HItem) (m : Nat) (h : ∀ j, NodeOk l m j) : ∀ a, a < m → la l 0 ≤ la l a := by
  intro a
  induction a using Nat.strongRecOn with
  | _ a ih =>
    intro ha
    cases a with
    | zero => exact Int.le_refl _
    | succ a =>
      have hp : a / 2 < a + 1 := by omega
      have h0 := ih (a / 2) hp (by omega)
      have hn := h (a / 2)
      rcases Nat.mod_two_eq_zero_or_one a with he | he
      · have : a + 1 = 2 * (a / 2) + 1 := by omega
        rw [this] at ha ⊢
        exact Int.le_trans h0 (hn.1 ha)
      · have : a + 1 = 2 * (a / 2) + 2 := by omega
        rw [this] at ha ⊢
        exact Int.le_trans h0 (hn.2 ha)

theorem la_congr {l l' : List HItem} {x : Nat} (h : l'[x]? = l[x]?) : la l' x = la l x := by
  unfold la; rw [h]

/-- the extraction loop: after `j` rounds the last `j` items are the `j` oldest -/
theorem extractLoop_spec : ∀ (todo : Nat) (l : List HItem) (j : Nat), j + todo < l.length →
    (∀ x, NodeOk l (l.length - j) x) →
    (∀ a b, a < l.length - j → l.length - j ≤ b → b < l.length → la l b ≤ la l a) →
    (extractLoop l j todo).length = l.length ∧ (extractLoop l j todo).Perm l ∧
    (∀ a b, a < l.length - (j + todo) → l.length - (j + todo) ≤ b → b < l.length →
      la (extractLoop l j todo) b ≤ la (extractLoop l j todo) a) := by
  intro todo
  induction todo with
  | zero =>
    intro l j _ _ hord
    exact ⟨rfl, List.Perm.refl _, hord⟩
  | succ todo ih =>
    intro l j hj hheap hord
    simp only [extractLoop]
    generalize hn : l.length = n at *
    have hlast : n - 1 - j < n := by omega
    have hl1len : (swapL l 0 (n - 1 - j)).length = n := by rw [swapL_length, hn]
    have hla : ∀ x, la (swapL l 0 (n - 1 - j)) x =
        if x = n - 1 - j then la l 0 else if x = 0 then la l (n - 1 - j) else la l x :=
      fun x => la_swapL l 0 (n - 1 - j) x (by omega) (by omega)
    have hside : ∀ x, 0 ≤ x → x ≠ 0 → NodeOk (swapL l 0 (n - 1 - j)) (n - 1 - j) x := by
      intro x _ hx0
      unfold NodeOk
      rw [hla x, hla (2 * x + 1), hla (2 * x + 2)]
      have hnx := hheap x
      constructor
      · intro h
        have e1 : ¬ x = n - 1 - j := by omega
        have e2 : ¬ 2 * x + 1 = n - 1 - j := by omega
        have e3 : ¬ 2 * x + 1 = 0 := by omega
        simp only [if_neg e1, if_neg hx0, if_neg e2, if_neg e3]
        exact hnx.1 (by omega)
      · intro h
        have e1 : ¬ x = n - 1 - j := by omega
        have e2 : ¬ 2 * x + 2 = n - 1 - j := by omega
        have e3 : ¬ 2 * x + 2 = 0 := by omega
        simp only [if_neg e1, if_neg hx0, if_neg e2, if_neg e3]
        exact hnx.2 (by omega)
    obtain ⟨r1, r2, r3, r4, r5⟩ := heapifyMin_spec (n - 1 - j) (swapL l 0 (n - 1 - j)) 0 (n - 1 - j) 0
      (by omega) (Nat.le_refl _) (by omega) hside (fun p _ hp => by omega)
    have hlen2 : (heapifyMin (swapL l 0 (n - 1 - j)) 0 (n - 1 - j) (n - 1 - j)).length = n := by omega
    have hm' : n - (j + 1) = n - 1 - j := by omega
    have hroot := root_min l (n - j) hheap
    have hord2 : ∀ a b, a < n - 1 - j → n - 1 - j ≤ b → b < n →
        la (heapifyMin (swapL l 0 (n - 1 - j)) 0 (n - 1 - j) (n - 1 - j)) b ≤
        la (heapifyMin (swapL l 0 (n - 1 - j)) 0 (n - 1 - j) (n - 1 - j)) a := by
      intro a b ha hb hbn
      obtain ⟨a', ha', heq⟩ := r4 a ha
      rw [heq, la_congr (r3 b (Or.inr hb)), hla a', hla b]
      have ea : ¬ a' = n - 1 - j := by omega
      have eb0 : ¬ b = 0 := by omega
      simp only [if_neg ea, if_neg eb0]
      by_cases hb1 : b = n - 1 - j
      · simp only [if_pos hb1]
        by_cases ha0 : a' = 0
        · simp only [if_pos ha0]; exact hroot _ (by omega)
        · simp only [if_neg ha0]; exact hroot _ (by omega)
      · simp only [if_neg hb1]
        by_cases ha0 : a' = 0
        · simp only [if_pos ha0]; exact hord _ b (by omega) (by omega) hbn
        · simp only [if_neg ha0]; exact hord _ b (by omega) (by omega) hbn
    obtain ⟨q1, q2, q3⟩ := ih (heapifyMin (swapL l 0 (n - 1 - j)) 0 (n - 1 - j) (n - 1 - j)) (j + 1)
      (by omega) (by rw [hlen2, hm']; exact fun x => r1 x (Nat.zero_le _)) (by rw [hlen2, hm']; exact hord2)
    refine ⟨by omega, q2.trans (r5.trans (swapL_perm _ _ _)), ?_⟩
    intro a b ha hb hbn
    rw [hlen2] at q3
    exact q3 a b (by omega) (by omega) hbn



theorem la_of_getElem (l : List HItem) (x : Nat) (hx : x < l.length) : la l x = (l[x]).2 := by
  unfold la; rw [List.getElem?_eq_getElem hx]; rfl

/-- the heap selection of `evictLRUIfFull` is a legal LRU choice, whatever order `sync.Map.Range`
produced the entries in -/
theorem heapChoice_valid (es : List (Key × Entry)) (hkn : KN es) (k : Nat) (hk : k < es.length) :
    validChoice es k (heapChoice (lruItems es) k) = true := by
  have hlen : (lruItems es).length = es.length := by simp [lruItems]
  obtain ⟨b1, b2, b3⟩ := buildMinHeap_spec (lruItems es)
  obtain ⟨r1, r2, r3⟩ := extractLoop_spec k (buildMinHeap (lruItems es)) 0 (by omega)
    (by rw [b2]; simpa using b1) (fun a b ha hb hbn => by omega)
  have hperm : (extractLoop (buildMinHeap (lruItems es)) 0 k).Perm (lruItems es) := r2.trans b3
  generalize hr : extractLoop (buildMinHeap (lruItems es)) 0 k = r at *
  have hrlen : r.length = es.length := by omega
  have hch : heapChoice (lruItems es) k = (r.drop (es.length - k)).map (·.1) := by
    unfold heapChoice; rw [if_pos (by omega), hr, hlen]
  rw [hch]
  have hitems : ∀ x ∈ r, ∃ e, (x.1, e) ∈ es ∧ x.2 = e.lastAccess := by
    intro x hx
    have := hperm.mem_iff.mp hx
    simp only [lruItems, List.mem_map] at this
    obtain ⟨p, hp, rfl⟩ := this
    exact ⟨p.2, hp, rfl⟩
  have hkeys : (r.map (·.1)).Perm (es.map Prod.fst) := by
    have := hperm.map (·.1)
    simpa [lruItems, List.map_map, Function.comp_def] using this
  have hnd : ((r.drop (es.length - k)).map (·.1)).Nodup := by
    rw [List.map_drop]
    exact List.Nodup.sublist (List.drop_sublist _ _) (hkeys.nodup_iff.mpr hkn)
  unfold validChoice
  simp only [Bool.and_eq_true, beq_iff_eq, decide_eq_true_eq, List.all_eq_true, Bool.or_eq_true,
    List.contains_iff_mem]
  refine ⟨⟨⟨?_, hnd⟩, ?_⟩, ?_⟩
  · simp only [List.length_map, List.length_drop]; omega
  · intro c hc
    obtain ⟨x, hx, rfl⟩ := List.mem_map.mp hc
    obtain ⟨e, he, _⟩ := hitems x (List.mem_of_mem_drop hx)
    rw [find_of_mem hkn he]; rfl
  · intro c hc p hp
    obtain ⟨x, hx, rfl⟩ := List.mem_map.mp hc
    obtain ⟨ib, hib, hxe⟩ := List.mem_iff_getElem.mp hx
    simp only [List.length_drop] at hib
    rw [List.getElem_drop] at hxe
    obtain ⟨e, he, hxla⟩ := hitems x (List.mem_of_mem_drop hx)
    rw [find_of_mem hkn he]
    simp only [Option.map_some, Option.getD_some]
    -- where is p in r ?
    have hpr : (p.1, p.2.lastAccess) ∈ r := hperm.mem_iff.mpr (by
      simp only [lruItems, List.mem_map]; exact ⟨p, hp, rfl⟩)
    obtain ⟨ia, hia, hpa⟩ := List.mem_iff_getElem.mp hpr
    by_cases hside : es.length - k ≤ ia
    · left
      refine List.mem_map.mpr ⟨(p.1, p.2.lastAccess), ?_, rfl⟩
      rw [← hpa]
      have : r[ia] = (r.drop (es.length - k))[ia - (es.length - k)]'(by simp only [List.length_drop]; omega) := by
        rw [List.getElem_drop]; congr 1; omega
      rw [this]; exact List.getElem_mem _
    · right
      have := r3 ia (es.length - k + ib) (by omega) (by omega) (by omega)
      rw [la_of_getElem r _ (by omega), la_of_getElem r ia hia, hxe, hpa, hxla] at this
      exact this

/-- what `evictLRUIfFull` achieves, for ANY iteration order / tie-breaking of the implementation:
exactly the surplus is evicted and no evicted entry was used more recently than a survivor -/
theorem lruEvict_full (cfg : Cfg) (es : List (Key × Entry)) (choice : List Key) (hkn : KN es)
    (hmax : cfg.maxSize > 0) (hover : (es.length : Int) > cfg.maxSize) :
    (lruEvict cfg es choice).length = cfg.maxSize.toNat ∧
    (∀ p ∈ lruEvict cfg es choice, p ∈ es) ∧
    ∀ p ∈ es, p ∉ lruEvict cfg es choice → ∀ q ∈ lruEvict cfg es choice, p.2.lastAccess ≤ q.2.lastAccess := by
  by_cases hv : validChoice es (es.length - cfg.maxSize.toNat) choice = true
  · exact lruEvict_spec cfg es choice hkn hmax hover hv
  · have hk : es.length - cfg.maxSize.toNat < es.length := by omega
    have hv' := heapChoice_valid es hkn _ hk
    have heq : lruEvict cfg es choice = lruEvict cfg es (heapChoice (lruItems es) (es.length - cfg.maxSize.toNat)) := by
      unfold lruEvict
      rw [if_pos ⟨hmax, hover⟩, if_pos ⟨hmax, hover⟩]
      simp only [hv, hv', if_true]
      rfl
    rw [heq]
    exact lruEvict_spec cfg es _ hkn hmax hover hv'


/-! ## the latest insert wins; removed means gone; configuration at the insert -/


/-- `kills op k`: the operation unconditionally replaces or removes whatever is stored under `k` -/
def kills : Op → Key → Bool
  | .insert _ key host qtype _ _ _ _ false, k => insKey key host qtype == k
  | .remove key, k => key == k
  | .removeFamily base, k => base != [] && baseKey k == base
  | _, _ => false

/-- like `step_AllE`, but the old fact about `k` only has to carry over when the step does not
replace/remove `k` -/
theorem step_AllE_kills {P Q : Key → Entry → Prop} (w : World) (op : Op)
    (mono : ∀ k e, P k e → kills op k = false → Q k e)
    (hins : ∀ now key host qtype ttl ans nAns ns, op = .insert now key host qtype ttl ans nAns ns false →
      Q (insKey key host qtype) (insEntry w.cfg w.st.nextId now key host qtype ttl ans nAns ns))
    (hlook : ∀ now key ign e e' r, op = .lookup now key ign → (key, e) ∈ w.st.entries → P key e →
      lookupEntry w.cfg now ign e = (some e', r) → Q key e')
    (hclone : ∀ c k e id, op = .reload c → P k e → w.st.nextId ≤ id → id < w.st.nextId + w.st.entries.length →
      Q k (cloneForReload e id))
    (hrd : ∀ now key e, op = .refreshDone now key → (key, e) ∈ w.st.entries → P key e →
      e.refreshing = true → Q key { e with refreshing := false })
    (h : AllE P w.st.entries) : AllE Q (step w op).1.st.entries := by
  cases op with
  | insert now key host qtype ttl ans nAns ns isIp =>
    simp only [step, State.insert]
    cases isIp with
    | true => exact fun p hp => mono _ _ (h p hp) rfl
    | false =>
      simp only [Bool.false_eq_true, if_false]
      intro p hp
      rcases mem_store.mp hp with rfl | ⟨hp', hne⟩
      · exact hins now key host qtype ttl ans nAns ns rfl
      · exact mono _ _ (h p hp') (by simp only [kills, beq_eq_false_iff_ne, ne_eq]; exact fun hh => hne hh.symm)
  | lookup now key ign =>
    have hk : ∀ k, kills (.lookup now key ign) k = false := fun _ => rfl
    simp only [step, State.lookup]
    cases hf : find w.st.entries key with
    | none => exact fun p hp => mono _ _ (h p hp) (hk _)
    | some e0 =>
      have hm := find_mem hf
      cases hl : lookupEntry w.cfg now ign e0 with
      | mk oe r =>
        cases oe with
        | none => simp only [hl]; exact fun p hp => mono _ _ (h p (mem_erase.mp hp).1) (hk _)
        | some e' =>
          simp only [hl]
          intro p hp
          rcases mem_store.mp hp with rfl | ⟨hp', _⟩
          · exact hlook now key ign e0 e' r rfl hm (h _ hm) hl
          · exact mono _ _ (h p hp') (hk _)
  | janitor now choice =>
    simp only [step]
    intro p hp
    exact mono _ _ (h p (janitor_subset _ _ _ _ p hp)) rfl
  | reload c =>
    simp only [step, State.reload]
    intro p hp
    obtain ⟨k, e, i, hm, h1, h2, rfl⟩ := mem_cloneAll hp
    exact hclone c k e i rfl (h _ hm) h1 h2
  | reconf c => exact fun p hp => mono _ _ (h p hp) rfl
  | refreshDone now key =>
    have hk : ∀ k, kills (.refreshDone now key) k = false := fun _ => rfl
    simp only [step, State.refreshDone]
    cases hf : find w.st.entries key with
    | none => exact fun p hp => mono _ _ (h p hp) (hk _)
    | some e =>
      have hm := find_mem hf
      simp only []
      split
      · rename_i hr
        intro p hp
        rcases mem_store.mp hp with rfl | ⟨hp', _⟩
        · exact hrd now key e rfl hm (h _ hm) hr
        · exact mono _ _ (h p hp') (hk _)
      · exact fun p hp => mono _ _ (h p hp) (hk _)
  | remove key =>
    intro p hp
    obtain ⟨hp', hne⟩ := mem_erase.mp hp
    exact mono _ _ (h p hp') (by simp only [kills, beq_eq_false_iff_ne, ne_eq]; exact fun hh => hne hh.symm)
  | removeFamily base =>
    simp only [step, State.removeFamily]
    split
    · rename_i hb
      exact fun p hp => mono _ _ (h p hp) (by simp [kills, hb])
    · intro p hp
      obtain ⟨hp', hne⟩ := List.mem_filter.mp hp
      exact mono _ _ (h p hp') (by simp only [kills, Bool.and_eq_false_iff]; right; simpa using hne)


/-- the configuration in force after a history that started under `c0` -/
def cfgAfter (c0 : Cfg) : List Op → Cfg
  | [] => c0
  | .reload c :: ops => cfgAfter c ops
  | .reconf c :: ops => cfgAfter c ops
  | _ :: ops => cfgAfter c0 ops

theorem cfgAfter_append (c0 : Cfg) (a b : List Op) : cfgAfter c0 (a ++ b) = cfgAfter (cfgAfter c0 a) b := by
  induction a generalizing c0 with
  | nil => rfl
  | cons op a ih => cases op <;> simp [cfgAfter, ih]

theorem run_cfg (ops : List Op) (w : World) : (run w ops).1.cfg = cfgAfter w.cfg ops := by
  induction ops generalizing w with
  | nil => rfl
  | cons op ops ih =>
    rw [run_cons, ih]
    cases op <;> simp [cfgAfter, step]

/-- the entry stored under `k` after the history `past` is the one written by the LAST insert of
`past` that stores under `k`; no later operation of `past` replaced or removed `k`; its deadline TTL
was computed with the configuration in force at that insert -/
def LastIns (c0 : Cfg) (past : List Op) (k : Key) (e : Entry) : Prop :=
  ∃ pre post key0 host0 ns,
    past = pre ++ Op.insert e.src.t key0 host0 e.src.qtype e.src.ttl e.ans e.nAns ns false :: post ∧
    (∀ o ∈ post, kills o k = false) ∧
    k = insKey key0 host0 e.src.qtype ∧ e.src.host = (splitHost host0).2 ∧
    e.src.eff = effTtl (cfgAfter c0 pre) e.src.host e.src.ttl

theorem LastIns.congr {c0 : Cfg} {past : List Op} {k : Key} {e e' : Entry}
    (hs : e'.src = e.src) (ha : e'.ans = e.ans) (hn : e'.nAns = e.nAns) (h : LastIns c0 past k e) :
    LastIns c0 past k e' := by
  unfold LastIns at *
  rw [hs, ha, hn]; exact h

theorem LastIns.snoc {c0 : Cfg} {past : List Op} {k : Key} {e : Entry} {op : Op}
    (h : LastIns c0 past k e) (hk : kills op k = false) : LastIns c0 (past ++ [op]) k e := by
  obtain ⟨pre, post, key0, host0, ns, h1, h2, h3⟩ := h
  refine ⟨pre, post ++ [op], key0, host0, ns, by rw [h1]; simp, ?_, h3⟩
  intro o ho
  rcases List.mem_append.mp ho with ho | ho
  · exact h2 o ho
  · simp only [List.mem_singleton] at ho; subst ho; exact hk

theorem step_LastIns (c0 : Cfg) (past : List Op) (w : World) (op : Op) (hc : w.cfg = cfgAfter c0 past)
    (h : AllE (LastIns c0 past) w.st.entries) : AllE (LastIns c0 (past ++ [op])) (step w op).1.st.entries := by
  apply step_AllE_kills (P := LastIns c0 past) w op (fun k e hk hkill => hk.snoc hkill) _ _ _ _ h
  · intro now key host qtype ttl ans nAns ns hop
    subst hop
    exact ⟨past, [], key, host, ns, rfl, fun o ho => by simp at ho, rfl, rfl, by rw [← hc]; rfl⟩
  · intro now key ign e e' r hop _ hP hl
    subst hop
    obtain ⟨h1, h2, h3, _⟩ := lookupEntry_preserves hl
    exact (hP.snoc rfl).congr h1 h2 h3
  · intro c k e id hop hP _ _
    subst hop
    exact (hP.snoc rfl).congr rfl rfl rfl
  · intro now key e hop _ hP _
    subst hop
    exact (hP.snoc rfl).congr rfl rfl rfl

theorem run_LastIns (ops : List Op) (c0 : Cfg) (past : List Op) (w : World) (hc : w.cfg = cfgAfter c0 past)
    (h : AllE (LastIns c0 past) w.st.entries) : AllE (LastIns c0 (past ++ ops)) (run w ops).1.st.entries := by
  induction ops generalizing past w with
  | nil => simpa [run_nil] using h
  | cons op ops ih =>
    rw [run_cons]
    have hc' : (step w op).1.cfg = cfgAfter c0 (past ++ [op]) := by
      rw [cfgAfter_append, ← hc]
      cases op <;> simp [cfgAfter, step]
    have := ih (past ++ [op]) (step w op).1 hc' (step_LastIns c0 past w op hc h)
    simpa using this



/-! ## the smallest answer TTL -/

theorem foldl_min_le (rest : List Nat) (t : Nat) :
    rest.foldl min t ≤ t ∧ ∀ x ∈ rest, rest.foldl min t ≤ x := by
  induction rest generalizing t with
  | nil => exact ⟨Nat.le_refl _, fun x hx => by simp at hx⟩
  | cons y rest ih =>
    simp only [List.foldl_cons]
    obtain ⟨h1, h2⟩ := ih (min t y)
    refine ⟨by omega, ?_⟩
    intro x hx
    rcases List.mem_cons.mp hx with rfl | hx
    · omega
    · exact h2 x hx

theorem foldl_min_mem (rest : List Nat) (t : Nat) : rest.foldl min t ∈ t :: rest := by
  induction rest generalizing t with
  | nil => simp
  | cons y rest ih =>
    simp only [List.foldl_cons]
    have := ih (min t y)
    rcases List.mem_cons.mp this with h | h
    · rw [h]
      by_cases hty : t ≤ y
      · rw [Nat.min_eq_left hty]; simp
      · rw [Nat.min_eq_right (by omega)]; simp
    · simp [h]

/-! ## question class -/

theorem digit_ne_hash {c : Char} {n : Nat} (h : c ∈ Nat.toDigits 10 n) : c ≠ '#' := by
  have hd := Nat.isDigit_of_mem_toDigits (by decide) (by decide) h
  intro hc; subst hc; revert hd; decide

/-- the class suffix of `questionKey` -/
def classSuffix (qclass : Nat) : List Char := if qclass = classIN then [] else '#' :: Nat.toDigits 10 qclass

theorem questionKey_eq (n : List Char) (q c : Nat) : questionKey n q c = kname n ++ (qtypeStr q ++ classSuffix c) := by
  simp [questionKey, cacheKey, classSuffix]

theorem dot_notin_tail (q c : Nat) : '.' ∉ qtypeStr q ++ classSuffix c := by
  intro hm
  rcases List.mem_append.mp hm with hm | hm
  · exact (digit_ne hm).2 rfl
  · unfold classSuffix at hm
    split at hm
    · simp at hm
    · rcases List.mem_cons.mp hm with hm | hm
      · cases hm
      · exact (digit_ne hm).2 rfl

theorem bar_notin_tail (q c : Nat) : '|' ∉ qtypeStr q ++ classSuffix c := by
  intro hm
  rcases List.mem_append.mp hm with hm | hm
  · exact (digit_ne hm).1 rfl
  · unfold classSuffix at hm
    split at hm
    · simp at hm
    · rcases List.mem_cons.mp hm with hm | hm
      · cases hm
      · exact (digit_ne hm).1 rfl

theorem tail_inj {q1 q2 c1 c2 : Nat} (h : qtypeStr q1 ++ classSuffix c1 = qtypeStr q2 ++ classSuffix c2) :
    q1 = q2 ∧ ((c1 = classIN ∧ c2 = classIN) ∨ c1 = c2) := by
  unfold classSuffix qtypeStr at h
  by_cases h1 : c1 = classIN <;> by_cases h2 : c2 = classIN
  · rw [if_pos h1, if_pos h2] at h
    simp only [List.append_nil] at h
    exact ⟨toDigits_inj h, Or.inl ⟨h1, h2⟩⟩
  · rw [if_pos h1, if_neg h2] at h
    simp only [List.append_nil] at h
    have : '#' ∈ Nat.toDigits 10 q1 := by rw [h]; simp
    exact absurd rfl (digit_ne_hash this)
  · rw [if_neg h1, if_pos h2] at h
    simp only [List.append_nil] at h
    have : '#' ∈ Nat.toDigits 10 q2 := by rw [← h]; simp
    exact absurd rfl (digit_ne_hash this)
  · rw [if_neg h1, if_neg h2] at h
    obtain ⟨r1, r2⟩ := split_first '#' _ _ _ _ (fun hm => digit_ne_hash hm rfl) (fun hm => digit_ne_hash hm rfl) h
    exact ⟨toDigits_inj r1, Or.inr (toDigits_inj r2)⟩

theorem questionKey_inj {n1 n2 : List Char} {q1 q2 c1 c2 : Nat} (h : questionKey n1 q1 c1 = questionKey n2 q2 c2) :
    kname n1 = kname n2 ∧ q1 = q2 ∧ c1 = c2 := by
  rw [questionKey_eq, questionKey_eq] at h
  obtain ⟨l1, h1⟩ := kname_ends n1
  obtain ⟨l2, h2⟩ := kname_ends n2
  rw [h1, h2] at h ⊢
  simp only [List.append_assoc, List.singleton_append] at h
  obtain ⟨r1, r2⟩ := split_last '.' l1 l2 _ _ (dot_notin_tail q1 c1) (dot_notin_tail q2 c2) h
  obtain ⟨r3, r4⟩ := tail_inj r2
  refine ⟨by rw [r1], r3, ?_⟩
  rcases r4 with ⟨a, b⟩ | a
  · rw [a, b]
  · exact a

theorem bar_notin_questionKey {n : List Char} (q c : Nat) : '|' ∉ questionKey n q c := by
  rw [questionKey_eq]
  intro hm
  rcases List.mem_append.mp hm with hm | hm
  · exact bar_notin_kname n hm
  · exact bar_notin_tail q c hm

theorem requestKey_inj {n1 n2 : List Char} {q1 q2 c1 c2 : Nat} {r1 r2 : Route}
    (h : requestKey n1 q1 c1 r1 = requestKey n2 q2 c2 r2) : kname n1 = kname n2 ∧ q1 = q2 ∧ c1 = c2 ∧ r1 = r2 := by
  have b1 := bar_notin_questionKey (n := n1) q1 c1
  have b2 := bar_notin_questionKey (n := n2) q2 c2
  unfold requestKey scopedKey at h
  by_cases e1 : scopeOf r1 = [] <;> by_cases e2 : scopeOf r2 = []
  · rw [if_pos e1, if_pos e2] at h
    obtain ⟨a, b, c⟩ := questionKey_inj h
    exact ⟨a, b, c, scopeOf_inj (by rw [e1, e2])⟩
  · rw [if_pos e1, if_neg e2] at h
    exact absurd (h ▸ (by simp : '|' ∈ questionKey n2 q2 c2 ++ '|' :: scopeOf r2)) b1
  · rw [if_neg e1, if_pos e2] at h
    exact absurd (h ▸ (by simp : '|' ∈ questionKey n1 q1 c1 ++ '|' :: scopeOf r1)) b2
  · rw [if_neg e1, if_neg e2] at h
    obtain ⟨x, y⟩ := split_first '|' _ _ _ _ b1 b2 h
    obtain ⟨a, b, c⟩ := questionKey_inj x
    exact ⟨a, b, c, scopeOf_inj y⟩

theorem requestKey_IN (n : List Char) (q : Nat) (r : Route) : requestKey n q classIN r = responseKey n q r := by
  simp [requestKey, responseKey, questionKey]



/-- TTL shown on the fresh path — needs only `deadlineNano = deadline`, no assumption on the clock -/
theorem fresh_ttl_bound_any_clock {now : Int} {e0 : Entry} {cfg : Cfg} {ign : Bool} {sv : Served}
    (hdn : e0.deadlineNano = e0.deadline) (h : (lookupEntry cfg now ign e0).2 = .hit sv) (hs : sv.stale = false) :
    sv.ttl ≤ max 1 ((e0.deadline - now) / SEC).toNat + SLACK ∧ sv.src = e0.src := by
  rcases lookupEntry_cases cfg now ign e0 with ⟨hd, hc | hc⟩ | hc | hc
  · obtain ⟨ttl, hp, heq⟩ := hc
    rw [heq] at h; cases h
    refine ⟨?_, rfl⟩
    simp only [freshServed]
    obtain ⟨_, hcases⟩ := packedApprox_ttl _ _ _ hp
    have hcur : curTtl (touch e0 now) now = max 1 ((e0.deadline - now) / SEC).toNat := by
      simp only [curTtl, touch_deadlineNano]; rw [hdn]
    rcases hcases with ⟨_, hw, rfl⟩ | rfl | ⟨_, rfl, hg⟩
    · rw [hcur] at hw; exact withinSlack_le hw
    · rw [hcur]; omega
    · rw [hcur] at hg; exact hg
  · obtain ⟨_, heq⟩ := hc
    rw [heq] at h; cases h
    refine ⟨?_, rfl⟩
    simp only [freshServed, touch_deadline]
    have := ttlFromDeadline_le e0.deadline now
    omega
  · obtain ⟨_, _, ttl, _, heq⟩ := hc
    rw [heq] at h; cases h; cases hs
  · obtain ⟨_, _, heq⟩ := hc
    rw [heq] at h; cases h


end DaeVerif.C08
