import DaeVerif.C08.Conc
import DaeVerif.C08.Proofs
/-!
Invariants of the transition system of `Conc.lean`, preserved by every action of every thread, hence
true after every schedule.
-/
namespace DaeVerif.C08.Conc
open DaeVerif.C08

/-- the object a thread holds in a local variable -/
def Thread.loc : Thread → Option Obj
  | .lookupLoaded _ _ o => some o
  | .lookupSawUnlatched _ _ o => some o
  | .lookupDone (some (o, _, _)) => some o
  | .rdoneLoaded o => some o
  | .rdoneSawTrue o => some o
  | .janitorLoaded _ o => some o
  | _ => none

/-- a thread that has not started yet -/
def Thread.isStart : Thread → Bool
  | .lookup .. => true
  | .insert _ => true
  | .rdone => true
  | .janitor _ => true
  | _ => false

/-- the eviction was decided on the object that was removed, and the decision was "expired beyond
what may still be served" at the evicting thread's clock reading -/
def Eviction.justified (cfg : Cfg) (ev : Eviction) : Prop :=
  ev.removed = ev.examined ∧
  (ev.byJanitor = false → verdict cfg ev.now ev.ign ev.examined.2 = .evict) ∧
  (ev.byJanitor = true → useTimeEviction cfg = true ∧ effDeadline cfg ev.examined.2 ≤ ev.now)

theorem count_cons (x : Nat) (l : List Nat) (y : Nat) : count (x :: l) y = count l y + (if x = y then 1 else 0) := by
  unfold count
  by_cases h : x = y
  · simp [List.filter_cons, h]
  · simp [List.filter_cons, h]

structure MInv (cfg : Cfg) (m : Mem) : Prop where
  ids_lt : ∀ o ∈ m.created, o.1 < m.nextId
  func : ∀ o ∈ m.created, ∀ o' ∈ m.created, o.1 = o'.1 → o = o'
  slot_mem : ∀ o, m.slot = some o → o ∈ m.created
  ev_ok : ∀ ev ∈ m.evictions, ev.justified cfg
  latch : ∀ o, count m.grants o ≤ count m.releases o + 1 ∧ (o ∉ m.flag → count m.grants o ≤ count m.releases o)

/-- the intermediate state of the non-atomic latch (`Load`, then `Store`) — never entered with CAS -/
def Thread.racy : Thread → Bool
  | .lookupSawUnlatched .. => true
  | _ => false

def TOk (m : Mem) (th : Thread) : Prop := (∀ o, th.loc = some o → o ∈ m.created) ∧ th.racy = false

theorem MInv.empty (cfg : Cfg) : MInv cfg Mem.empty :=
  { ids_lt := fun o ho => by simp [Mem.empty] at ho
    func := fun o ho => by simp [Mem.empty] at ho
    slot_mem := fun o ho => by simp [Mem.empty] at ho
    ev_ok := fun ev hev => by simp [Mem.empty] at hev
    latch := fun o => by simp [Mem.empty, count] }

/-- `evictSlot` with `CompareAndDelete` -/
theorem evictSlot_real {cfg : Cfg} {m : Mem} (h : MInv cfg m) (o : Obj) (ho : o ∈ m.created) (now : Int) (ign byJ : Bool)
    (hj : (byJ = false → verdict cfg now ign o.2 = .evict) ∧
          (byJ = true → useTimeEviction cfg = true ∧ effDeadline cfg o.2 ≤ now)) :
    MInv cfg (evictSlot Variant.real m o now ign byJ) := by
  unfold evictSlot
  cases hs : m.slot with
  | none => exact h
  | some cur =>
    simp only [Variant.real, Bool.true_eq_false, false_or]
    by_cases hc : cur.1 = o.1
    · rw [if_pos hc]
      have hcur : cur = o := h.func cur (h.slot_mem cur hs) o ho hc
      refine ⟨h.ids_lt, h.func, fun o' ho' => by simp at ho', ?_, h.latch⟩
      intro ev hev
      rcases List.mem_cons.mp hev with rfl | hev
      · exact ⟨hcur, hj.1, hj.2⟩
      · exact h.ev_ok ev hev
    · rw [if_neg hc]; exact h

theorem evictSlot_created (v : Variant) (m : Mem) (o : Obj) (now : Int) (ign byJ : Bool) :
    (evictSlot v m o now ign byJ).created = m.created := by
  unfold evictSlot
  cases m.slot with
  | none => rfl
  | some cur => simp only; split <;> rfl

/-- one action of one thread keeps the memory invariant, keeps the thread's local object known, and
forgets no object -/
theorem stepThread_inv {cfg : Cfg} {m : Mem} {th : Thread} (h : MInv cfg m) (ht : TOk m th) :
    MInv cfg (stepThread Variant.real cfg m th).1 ∧ TOk (stepThread Variant.real cfg m th).1 (stepThread Variant.real cfg m th).2 ∧
    (∀ o ∈ m.created, o ∈ (stepThread Variant.real cfg m th).1.created) := by
  have keep : ∀ (o : Obj), o ∈ m.created → ∀ th' : Thread, th'.loc = some o → th'.racy = false → TOk m th' := by
    intro o ho th' hl hr
    refine ⟨fun o' ho' => ?_, hr⟩
    rw [hl] at ho'; cases ho'; exact ho
  have none_ok : ∀ (m' : Mem) (th' : Thread), th'.loc = none → th'.racy = false → TOk m' th' :=
    fun m' th' hl hr => ⟨fun o ho => (by rw [hl] at ho; cases ho), hr⟩
  cases th with
  | lookup now ign =>
    simp only [stepThread]
    cases hs : m.slot with
    | none => exact ⟨h, none_ok _ _ rfl rfl, fun o ho => ho⟩
    | some o => exact ⟨h, keep o (h.slot_mem _ hs) _ rfl rfl, fun o ho => ho⟩
  | lookupLoaded now ign o =>
    have ho : o ∈ m.created := ht.1 o rfl
    simp only [stepThread]
    cases hv : verdict cfg now ign o.2 with
    | fresh => exact ⟨h, keep o ho _ rfl rfl, fun o ho => ho⟩
    | stale =>
      simp only [Variant.real, if_true]
      by_cases hf : o.1 ∈ m.flag
      · rw [if_pos hf]
        exact ⟨h, keep o ho _ rfl rfl, fun o ho => ho⟩
      · rw [if_neg hf]
        refine ⟨⟨h.ids_lt, h.func, h.slot_mem, h.ev_ok, ?_⟩, ⟨?_, rfl⟩, fun o ho => ho⟩
        · intro x
          simp only [count_cons]
          obtain ⟨h1, h2⟩ := h.latch x
          by_cases hx : o.1 = x
          · subst hx
            have := h2 hf
            simp only [if_true]
            exact ⟨by omega, fun hn => absurd (List.mem_cons_self) hn⟩
          · simp only [if_neg hx, Nat.add_zero]
            refine ⟨h1, fun hn => h2 (fun hm => hn (List.mem_cons_of_mem _ hm))⟩
        · intro o' ho'
          simp only [Thread.loc, Option.some.injEq] at ho'
          subst ho'; exact ho
    | evict =>
      refine ⟨evictSlot_real h o ho now ign false ⟨fun _ => hv, fun hh => (by cases hh)⟩, none_ok _ _ rfl rfl, ?_⟩
      intro o' ho'; rw [evictSlot_created]; exact ho'
  | lookupSawUnlatched now ign o => exact absurd ht.2 (by simp [Thread.racy])
  | lookupDone r => exact ⟨h, ht, fun o ho => ho⟩
  | insert e =>
    simp only [stepThread]
    refine ⟨⟨?_, ?_, ?_, h.ev_ok, h.latch⟩, none_ok _ _ rfl rfl, fun o ho => List.mem_cons_of_mem _ ho⟩
    · intro o ho
      rcases List.mem_cons.mp ho with rfl | ho
      · simp
      · have := h.ids_lt o ho; simp only; omega
    · intro o ho o' ho' hid
      rcases List.mem_cons.mp ho with rfl | ho <;> rcases List.mem_cons.mp ho' with rfl | ho'
      · rfl
      · have := h.ids_lt o' ho'; simp only at hid; omega
      · have := h.ids_lt o ho; simp only at hid; omega
      · exact h.func o ho o' ho' hid
    · intro o ho
      simp only [Option.some.injEq] at ho
      subst ho; exact List.mem_cons_self
  | insertDone => exact ⟨h, ht, fun o ho => ho⟩
  | rdone =>
    simp only [stepThread]
    cases hs : m.slot with
    | none => exact ⟨h, none_ok _ _ rfl rfl, fun o ho => ho⟩
    | some o => exact ⟨h, keep o (h.slot_mem _ hs) _ rfl rfl, fun o ho => ho⟩
  | rdoneLoaded o =>
    simp only [stepThread]
    split
    · exact ⟨h, keep o (ht.1 o rfl) _ rfl rfl, fun o ho => ho⟩
    · exact ⟨h, none_ok _ _ rfl rfl, fun o ho => ho⟩
  | rdoneSawTrue o =>
    simp only [stepThread]
    refine ⟨⟨h.ids_lt, h.func, h.slot_mem, h.ev_ok, ?_⟩, none_ok _ _ rfl rfl, fun o ho => ho⟩
    intro x
    simp only [count_cons]
    obtain ⟨h1, h2⟩ := h.latch x
    by_cases hx : o.1 = x
    · subst hx
      simp only [if_true]
      exact ⟨by omega, fun _ => by omega⟩
    · simp only [if_neg hx, Nat.add_zero]
      refine ⟨h1, fun hn => h2 (fun hm => hn ?_)⟩
      simp only [List.mem_filter, decide_eq_true_eq]
      exact ⟨hm, fun hxx => hx hxx.symm⟩
  | rdoneDone => exact ⟨h, ht, fun o ho => ho⟩
  | janitor now =>
    simp only [stepThread]
    split
    · cases hs : m.slot with
      | none => exact ⟨h, none_ok _ _ rfl rfl, fun o ho => ho⟩
      | some o => exact ⟨h, keep o (h.slot_mem _ hs) _ rfl rfl, fun o ho => ho⟩
    · exact ⟨h, none_ok _ _ rfl rfl, fun o ho => ho⟩
  | janitorLoaded now o =>
    have ho : o ∈ m.created := ht.1 o rfl
    simp only [stepThread]
    split
    · rename_i hc
      refine ⟨evictSlot_real h o ho now false true ⟨fun hh => (by cases hh), fun _ => ⟨hc.1, (by have := hc.2; omega)⟩⟩,
        none_ok _ _ rfl rfl, ?_⟩
      intro o' ho'; rw [evictSlot_created]; exact ho'
    · exact ⟨h, none_ok _ _ rfl rfl, fun o ho => ho⟩
  | janitorDone => exact ⟨h, ht, fun o ho => ho⟩

/-! ## whole systems, whole schedules -/

structure SInv (cfg : Cfg) (s : Sys) : Prop where
  mem : MInv cfg s.mem
  thr : ∀ th ∈ s.threads, TOk s.mem th

theorem sysStep_inv {cfg : Cfg} {s : Sys} (h : SInv cfg s) (i : Nat) : SInv cfg (sysStep Variant.real cfg s i) := by
  unfold sysStep
  cases hi : s.threads[i]? with
  | none => exact h
  | some th =>
    have hth : th ∈ s.threads := List.mem_of_getElem? hi
    obtain ⟨h1, h2, h3⟩ := stepThread_inv h.mem (h.thr th hth)
    refine ⟨h1, ?_⟩
    intro th' hth'
    rcases List.mem_or_eq_of_mem_set hth' with hm | rfl
    · obtain ⟨ha, hb⟩ := h.thr th' hm
      exact ⟨fun o ho => h3 o (ha o ho), hb⟩
    · exact h2

theorem exec_inv {cfg : Cfg} (sched : List Nat) {s : Sys} (h : SInv cfg s) : SInv cfg (exec Variant.real cfg s sched) := by
  induction sched generalizing s with
  | nil => exact h
  | cons i rest ih => exact ih (sysStep_inv h i)

/-- threads that have not started, an empty cache -/
theorem SInv.start (cfg : Cfg) (threads : List Thread) (hst : ∀ th ∈ threads, th.isStart = true) :
    SInv cfg ⟨Mem.empty, threads⟩ := by
  refine ⟨MInv.empty cfg, ?_⟩
  intro th hth
  have := hst th hth
  cases th <;> simp [Thread.isStart] at this <;> exact ⟨fun o ho => by simp [Thread.loc] at ho, rfl⟩


/-! ## the transition system refines the one-step lookup of `Model.lean` -/

theorem staleResp_touch (e : Entry) (now t : Int) (st : Int) : staleResp (touch e t) now st = staleResp e now st := rfl

/-- the three things `lookupEntry` can do are the three verdicts -/
theorem lookupEntry_verdict (cfg : Cfg) (now : Int) (ign : Bool) (e : Entry) :
    (verdict cfg now ign e = .fresh → ∃ e1 sv, lookupEntry cfg now ign e = (some e1, .hit sv) ∧
        sv.stale = false ∧ sv.refresh = false ∧ sv.eid = e.id ∧ e1.refreshing = e.refreshing) ∧
    (verdict cfg now ign e = .stale → ∃ e1 sv, lookupEntry cfg now ign e = (some e1, .hit sv) ∧
        sv.stale = true ∧ sv.refresh = (!e.refreshing) ∧ sv.eid = e.id ∧ e1.refreshing = true) ∧
    (verdict cfg now ign e = .evict → lookupEntry cfg now ign e = (none, .miss)) := by
  have hld : lookupDeadline ign (touch e now) = lookupDeadline ign e := by cases ign <;> rfl
  refine ⟨?_, ?_, ?_⟩
  · intro hv
    unfold verdict at hv
    by_cases hd : lookupDeadline ign e > now
    · unfold lookupEntry
      simp only [hld, if_pos hd]
      have hr : (packedApprox (touch e now) now).2.refreshing = e.refreshing := by
        rcases packedApprox_entry (touch e now) now with he | ⟨he, _⟩ <;> rw [he] <;> rfl
      cases hp : (packedApprox (touch e now) now).1 with
      | some ttl => exact ⟨_, _, rfl, rfl, rfl, rfl, hr⟩
      | none => exact ⟨_, _, rfl, rfl, rfl, rfl, hr⟩
    · rw [if_neg hd] at hv; split at hv <;> cases hv
  · intro hv
    unfold verdict at hv
    by_cases hd : lookupDeadline ign e > now
    · rw [if_pos hd] at hv; cases hv
    · rw [if_neg hd] at hv
      by_cases hs : cfg.optimistic ∧ (staleResp e now cfg.staleTtl).isSome
      · unfold lookupEntry
        simp only [hld, if_neg hd, hs.1, if_true, staleResp_touch]
        cases hst : staleResp e now cfg.staleTtl with
        | none => rw [hst] at hs; simp at hs
        | some ttl => exact ⟨_, _, rfl, rfl, rfl, rfl, rfl⟩
      · rw [if_neg hs] at hv; cases hv
  · intro hv
    unfold verdict at hv
    by_cases hd : lookupDeadline ign e > now
    · rw [if_pos hd] at hv; cases hv
    · rw [if_neg hd] at hv
      by_cases hs : cfg.optimistic ∧ (staleResp e now cfg.staleTtl).isSome
      · rw [if_pos hs] at hv; cases hv
      · unfold lookupEntry
        simp only [hld, if_neg hd, staleResp_touch]
        by_cases ho : cfg.optimistic = true
        · simp only [ho, if_true]
          cases hst : staleResp e now cfg.staleTtl with
          | none => rfl
          | some ttl => rw [hst] at hs; simp [ho] at hs
        · simp [ho]

end DaeVerif.C08.Conc
