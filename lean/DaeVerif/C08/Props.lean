import DaeVerif.C08.Proofs
import DaeVerif.C08.ConcProofs
/-!
# C08 — property theorems

Only statements a reader should audit live here (namespace `DaeVerif.C08.Props`); helper lemmas are
in `Proofs.lean`.  A *history* is any list of operations (`Op`: insert, lookup, janitor run, reload
clone, configuration swap, end of a background refresh, removals), each carrying the instant at
which it runs; `run (start c0) ops` executes it from an empty cache under configuration `c0`.
Every theorem below is about an arbitrary history, so "a lookup after the history `ops`" is every
lookup of every history (`lookup_in_history` makes that link explicit).
-/
namespace DaeVerif.C08.Props
open DaeVerif.C08

/-- an empty cache under configuration `c0` -/
def start (c0 : Cfg) : World := ⟨c0, State.empty⟩

/-- The `i`-th answer of a history is the answer of that operation executed after the first `i`
operations — so the theorems about "a lookup after `ops`" speak about every lookup of a history. -/
theorem lookup_in_history (c0 : Cfg) (ops : List Op) (i : Nat) (op : Op) (h : ops[i]? = some op) :
    (run (start c0) ops).2[i]? = some (step (run (start c0) (ops.take i)).1 op).2 :=
  run_take_output _ _ _ _ h

/-- the configuration of the world after a history is the one installed by its last reload /
configuration swap (`cfgAfter`) -/
theorem cfg_in_force (c0 : Cfg) (ops : List Op) : (run (start c0) ops).1.cfg = cfgAfter c0 ops :=
  run_cfg ops (start c0)

/-- **Scoped, live answers.**  Whatever the history (the clock may even jump backwards), if a lookup
under `key` is answered, then the history splits as `pre ++ insert :: post` where
* that insert stored exactly this answer under exactly this key (`insKey` is the key the insert used:
  the caller's `responseCacheKey`, or the derived one) — see `key_injective` for what equal keys mean;
* it is the **latest** word on the key: no operation of `post` stores under the key again, removes it
  or removes its family (`kills`);
* its deadline TTL `eff` is the TTL given to the insert, or the `fixed_domain_ttl` of its host **in the
  configuration in force when the insert ran** (`cfgAfter c0 pre`);
* a fresh answer is served strictly before `t + eff` seconds (`t + ttl` when the caller ignores the
  fixed TTL);
* a stale answer is served only when optimistic caching is on in the configuration in force now, at
  or after the deadline, and — when a stale window is configured — not after
  `deadline + optimistic_cache_ttl`. -/
theorem served_only_live_and_scoped (c0 : Cfg) (ops : List Op) (now : Int) (key : Key) (ign : Bool) (sv : Served)
    (h : (step (run (start c0) ops).1 (.lookup now key ign)).2 = .hit sv) :
    ∃ pre post key0 host0 ns,
      ops = pre ++ Op.insert sv.src.t key0 host0 sv.src.qtype sv.src.ttl sv.ans sv.nAns ns false :: post ∧
      (∀ o ∈ post, kills o key = false) ∧
      key = insKey key0 host0 sv.src.qtype ∧
      sv.src.eff = effTtl (cfgAfter c0 pre) (splitHost host0).2 sv.src.ttl ∧
      (sv.stale = false → now < sv.src.t + (if ign then sv.src.ttl else sv.src.eff) * SEC) ∧
      (sv.stale = true →
        (cfgAfter c0 ops).optimistic = true ∧ sv.src.t + sv.src.eff * SEC ≤ now ∧
        ((cfgAfter c0 ops).staleTtl > 0 →
          now ≤ sv.src.t + sv.src.eff * SEC + (cfgAfter c0 ops).staleTtl * SEC)) := by
  obtain ⟨e0, hf, hl⟩ := step_lookup_hit h
  have hm := find_mem hf
  have hS := run_OkS ops (start c0) (AllE_empty _) _ hm
  have hL : LastIns c0 ops key e0 := by
    have := run_LastIns ops c0 [] (start c0) rfl (AllE_empty _) _ hm
    simpa using this
  obtain ⟨hsrc, _, hans, hn, hfresh, hstale⟩ := served_bounds hS hl
  obtain ⟨pre, post, key0, host0, ns, h1, h2, h3, h4, h5⟩ := hL
  refine ⟨pre, post, key0, host0, ns, ?_, h2, ?_, ?_, fun hs => (hfresh hs).1, fun hs => ?_⟩
  · rw [hsrc, hans, hn]; exact h1
  · rw [hsrc]; exact h3
  · rw [hsrc, h5, h4]
  · obtain ⟨a, b, c, _⟩ := hstale hs
    rw [cfg_in_force] at a c
    exact ⟨a, b, c⟩

/-- **Fresh answers are served.**  A stored entry whose deadline has not passed is answered from the
cache (never a miss), as a fresh answer, with its own answer set and without a refresh request. -/
theorem fresh_served (c0 : Cfg) (ops : List Op) (now : Int) (key : Key) (e : Entry)
    (hf : find (run (start c0) ops).1.st.entries key = some e) (hd : e.deadline > now) :
    ∃ sv, (step (run (start c0) ops).1 (.lookup now key false)).2 = .hit sv ∧ sv.stale = false ∧
      sv.ans = e.ans ∧ sv.nAns = e.nAns ∧ sv.refresh = false := by
  rcases lookupEntry_cases (run (start c0) ops).1.cfg now false e with ⟨_, hc | hc⟩ | hc | hc
  · obtain ⟨ttl, _, heq⟩ := hc
    have hstep : (step (run (start c0) ops).1 (.lookup now key false)).2 =
        LRes.hit (freshServed (touch e now) ttl (packedVisible (touch e now))) := by
      simp only [step, State.lookup, hf, heq]
    exact ⟨_, hstep, rfl, rfl, rfl, rfl⟩
  · obtain ⟨_, heq⟩ := hc
    have hstep : (step (run (start c0) ops).1 (.lookup now key false)).2 =
        LRes.hit (freshServed (touch e now) (ttlFromDeadline (touch e now).deadline now)
          (decide ((touch e now).nAns > 0))) := by
      simp only [step, State.lookup, hf, heq]
    exact ⟨_, hstep, rfl, rfl, rfl, rfl⟩
  · have : e.deadline ≤ now := by simpa [lookupDeadline] using hc.1
    omega
  · have : e.deadline ≤ now := by simpa [lookupDeadline] using hc.1
    omega

/-- **The latest insert wins.**  Right after an insert the key holds exactly the entry built from that
insert (answer, TTL, the configuration in force) — whatever was stored there before. -/
theorem latest_insert_wins (c0 : Cfg) (ops : List Op) (t : Int) (key : Key) (host : List Char) (q : Nat)
    (ttl : Int) (a n ns : Nat) :
    let w := (run (start c0) ops).1
    find (run (start c0) (ops ++ [Op.insert t key host q ttl a n ns false])).1.st.entries (insKey key host q) =
      some (insEntry (cfgAfter c0 ops) w.st.nextId t key host q ttl a n ns) := by
  intro w
  rw [run_append, ← cfg_in_force]
  simp only [run_cons, run_nil, step, State.insert, Bool.false_eq_true, if_false, find_store, if_true]
  rfl

/-- **Removed means gone.**  After `RemoveDnsRespCache`, after `RemoveDnsRespCacheFamily` of its base
key, and after a janitor run that evicted it, a key is a miss. -/
theorem removed_is_gone (c0 : Cfg) (ops : List Op) (now : Int) (key : Key) (ign : Bool) :
    let w := (run (start c0) ops).1
    (step (step w (.remove key)).1 (.lookup now key ign)).2 = .miss ∧
    (baseKey key ≠ [] → (step (step w (.removeFamily (baseKey key))).1 (.lookup now key ign)).2 = .miss) ∧
    (∀ (t : Int) (choice : List Key) (e : Entry), (key, e) ∈ w.st.entries →
      (key, e) ∉ (w.st.janitor w.cfg t choice).entries →
      (step (step w (.janitor t choice)).1 (.lookup now key ign)).2 = .miss) := by
  intro w
  have hmiss : ∀ (w' : World), find w'.st.entries key = none → (step w' (.lookup now key ign)).2 = .miss := by
    intro w' h; simp only [step, State.lookup, h]
  refine ⟨hmiss _ ?_, fun hb => hmiss _ ?_, fun t choice e hin hout => hmiss _ ?_⟩
  · simp only [step, State.remove, find_erase, if_true]
  · simp only [step, State.removeFamily, if_neg hb]
    cases hf : find (w.st.entries.filter fun p => baseKey p.1 ≠ baseKey key) key with
    | none => rfl
    | some e' =>
      have := (List.mem_filter.mp (find_mem hf)).2
      simp at this
  · simp only [step]
    cases hf : find (w.st.janitor w.cfg t choice).entries key with
    | none => rfl
    | some e' =>
      have hm := find_mem hf
      have hkn : KN w.st.entries := run_KN ops (start c0) (by simp [KN, start, State.empty])
      have h1 := find_of_mem hkn hin
      have h2 := find_of_mem hkn (janitor_subset _ _ _ _ _ hm)
      rw [h1] at h2; cases h2
      exact absurd hm hout

-- non-vacuity: an insert under a scoped key (here `a.1|u`), then: fresh hit 2 s later (3 s left, the packed TTL 5 is shown: within the slack),
-- stale hit with refresh request after expiry, miss beyond the 60 s window, miss under another type.
example :
    let k := ['a', '.', '1', '|', 'u']
    let ops := [Op.insert 1000 k ['A', '.'] 1 5 7 1 0 false]
    let w := (run (start (Cfg.normalize true 60 0 [])) ops).1
    (step w (.lookup (1000 + 2 * SEC) k false)).2.view = some (false, 5, 7, false) ∧
    (step w (.lookup (1000 + 9 * SEC) k false)).2.view = some (true, 5, 7, true) ∧
    (step w (.lookup (1000 + 66 * SEC) k false)).2.view = none ∧
    (step w (.lookup (1000 + 2 * SEC) ['a', '.', '2', '8', '|', 'u'] false)).2.view = none := by
  decide

/-- **Truthful TTL.**  Whatever the history and whatever the clock does, the TTL written into a fresh
answer exceeds the whole seconds still left on its deadline (at least 1: a live answer is never shown
with TTL 0 through rounding) by at most `ttlRefreshThresholdSeconds = 15`.  (Pre-packed bytes are
handed out only when their TTL passes this test at the moment of the lookup; otherwise the answer is
re-packed or built with the exact TTL.) -/
theorem fresh_ttl_within_slack (c0 : Cfg) (ops : List Op) (now : Int) (key : Key) (ign : Bool) (sv : Served)
    (h : (step (run (start c0) ops).1 (.lookup now key ign)).2 = .hit sv) (hs : sv.stale = false) :
    sv.ttl ≤ max 1 ((sv.src.t + sv.src.eff * SEC - now) / SEC).toNat + SLACK := by
  obtain ⟨e0, hf, hl⟩ := step_lookup_hit h
  have hS : OkS key e0 := run_OkS ops (start c0) (AllE_empty _) _ (find_mem hf)
  obtain ⟨hb, hsrc⟩ := fresh_ttl_bound_any_clock hS.dn hl hs
  rw [hsrc, ← hS.dl]; exact hb

/-- the same in nanoseconds: shown TTL ≤ remaining lifetime (rounded up to 1 s when shorter) + 15 s -/
theorem fresh_ttl_within_slack_nanos (c0 : Cfg) (ops : List Op) (now : Int) (key : Key) (sv : Served)
    (h : (step (run (start c0) ops).1 (.lookup now key false)).2 = .hit sv) (hs : sv.stale = false) :
    (sv.ttl : Int) * SEC ≤ max (sv.src.t + sv.src.eff * SEC - now) SEC + (SLACK : Int) * SEC := by
  have := fresh_ttl_within_slack c0 ops now key false sv h hs
  simp only [SEC, SLACK] at *
  omega

-- non-vacuity: TTL 100 packed at insert; at +15 s the packed 100 is still shown (85 left, slack
-- exactly 15); at +16 s the response is re-packed and shows 84.
example :
    let ops := [Op.insert 0 ['k'] ['a'] 1 100 7 1 0 false, Op.lookup (1 * SEC) ['k'] false]
    let w := (run (start (Cfg.normalize true 60 0 [])) ops).1
    (step w (.lookup (15 * SEC) ['k'] false)).2.view = some (false, 100, 7, false) ∧
    (step w (.lookup (16 * SEC) ['k'] false)).2.view = some (false, 84, 7, false) ∧
    Mono 0 ops := by
  refine ⟨by decide, by decide, by simp [Mono, Op.time, SEC]⟩

/-- **Stale answers are served at once.**  With optimistic caching on, an expired entry that is inside
the stale window (or any expired entry when `optimistic_cache_ttl = 0`) is answered immediately from
the cache; the caller is told to start a refresh exactly when none is marked in flight. -/
theorem stale_served_at_once (c0 : Cfg) (ops : List Op) (now : Int) (key : Key) (e : Entry)
    (hf : find (run (start c0) ops).1.st.entries key = some e) (hns : e.ns ≠ 2)
    (hopt : (run (start c0) ops).1.cfg.optimistic = true) (hexp : e.deadline ≤ now)
    (hwin : (run (start c0) ops).1.cfg.staleTtl > 0 → now ≤ e.deadline + (run (start c0) ops).1.cfg.staleTtl * SEC) :
    ∃ sv, (step (run (start c0) ops).1 (.lookup now key false)).2 = .hit sv ∧ sv.stale = true ∧
      sv.ans = e.ans ∧ sv.nAns = e.nAns ∧ sv.refresh = !e.refreshing := by
  have hS : OkS key e := run_OkS ops (start c0) (AllE_empty _) _ (find_mem hf)
  have hst : staleResp (touch e now) now (run (start c0) ops).1.cfg.staleTtl = some e.packedTTL := by
    unfold staleResp
    rw [touch_deadlineNano, hS.dn, if_neg (by omega)]
    have hp : (touch e now).packed = true := hS.pk.mpr hns
    by_cases hw : (run (start c0) ops).1.cfg.staleTtl > 0
    · rw [if_neg (by have := hwin hw; omega), if_pos hp]; rfl
    · rw [if_neg (by omega), if_pos hp]; rfl
  have hle : lookupDeadline false e ≤ now := by simpa [lookupDeadline] using hexp
  rcases lookupEntry_cases (run (start c0) ops).1.cfg now false e with ⟨hd, _⟩ | hc | hc
  · omega
  · obtain ⟨_, _, ttl, hs, heq⟩ := hc
    have hstep : (step (run (start c0) ops).1 (.lookup now key false)).2 =
        LRes.hit ⟨(touch e now).id, (touch e now).src, (touch e now).ans, (touch e now).nAns, ttl,
          packedVisible (touch e now), true, !(touch e now).refreshing⟩ := by
      simp only [step, State.lookup, hf, heq]
    exact ⟨_, hstep, rfl, rfl, rfl, rfl⟩
  · obtain ⟨_, hor, _⟩ := hc
    rcases hor with hor | hor
    · rw [hopt] at hor; cases hor
    · rw [hst] at hor; cases hor

/-- **At most one refresh in flight per cached answer.**  `latchedAfter (start c0) [] ops` is the
list of entry objects with a refresh in flight after the history `ops`: a lookup that returns
`needRefresh = true` adds the entry it answered from, the clean-up that ends a refresh of a key
releases the entry stored under that key (`latchStep`).  Whatever the history, a lookup asks for a
refresh of an entry only if that entry has none in flight — every other stale hit of it is still
answered at once, with `needRefresh = false` (`stale_served_at_once`). -/
theorem refresh_only_when_none_in_flight (c0 : Cfg) (ops : List Op) (now : Int) (key : Key) (ign : Bool) (sv : Served)
    (h : (step (run (start c0) ops).1 (.lookup now key ign)).2 = .hit sv) (hr : sv.refresh = true) :
    sv.stale = true ∧ sv.eid ∉ latchedAfter (start c0) [] ops := by
  obtain ⟨e0, hf, hl⟩ := step_lookup_hit h
  have hm := find_mem hf
  have hS : OkS key e0 := run_OkS ops (start c0) (AllE_empty _) _ hm
  have hI := run_IdInv ops [] (start c0) IdInv_empty
  obtain ⟨_, hid, _, _, hfresh, hstale⟩ := served_bounds hS hl
  cases hst : sv.stale with
  | false => have := (hfresh hst).2; rw [hr] at this; cases this
  | true =>
    refine ⟨rfl, ?_⟩
    have h4 := (hstale hst).2.2.2
    rw [hr] at h4
    have hflag : e0.refreshing = false := by cases hb : e0.refreshing <;> simp [hb] at h4 ⊢
    rw [hid]
    exact hI.fresh _ hm hflag

/-- consequence: the list of refreshes in flight never holds an entry twice -/
theorem in_flight_refreshes_distinct (c0 : Cfg) (ops : List Op) : (latchedAfter (start c0) [] ops).Nodup :=
  (run_IdInv ops [] (start c0) IdInv_empty).nd

-- non-vacuity: three stale lookups of one entry: one refresh request; its clean-up releases the
-- latch without evicting, the next stale lookup may start the next refresh.
example :
    let c := Cfg.normalize true 60 0 []
    let ops := [Op.insert 0 ['k'] ['a'] 1 1 7 1 0 false,
      Op.lookup (2 * SEC) ['k'] false, Op.lookup (2 * SEC) ['k'] false, Op.lookup (3 * SEC) ['k'] false]
    (run (start c) ops).2.map LRes.view =
      [none, some (true, 1, 7, true), some (true, 1, 7, false), some (true, 1, 7, false)] ∧
    latchedAfter (start c) [] ops = [0] ∧
    latchedAfter (start c) [] (ops ++ [Op.refreshDone (4 * SEC) ['k']]) = [] ∧
    (step (run (start c) (ops ++ [Op.refreshDone (4 * SEC) ['k']])).1 (.lookup (5 * SEC) ['k'] false)).2.view =
      some (true, 1, 7, true) := by
  decide

/-- **Limits of the latch, stated honestly.**  The latch belongs to the entry *object*, and its release
to the *key*:
1. a reload clone (new generation, or the self-restore of `RebuildReloadDatapath`) is a new object
   with a released latch — the same cached answer gets a second refresh request although the one
   requested from the old object has not ended;
2. the clean-up of an older refresh of a key releases the latch of whatever entry is stored under the
   key by then — insert / expire / re-insert while the first refresh is still running yields a third
   request while the second is in flight.
Both are how `CloneForReload` and `backgroundRefresh` are written; `refresh_only_when_none_in_flight`
is exact for histories without these two patterns. -/
theorem latch_is_per_object_and_released_per_key :
    (let c := Cfg.normalize true 60 0 []
     let ops := [Op.insert 0 ['k'] ['a'] 1 1 7 1 0 false, Op.lookup (2 * SEC) ['k'] false, Op.reload c,
       Op.lookup (3 * SEC) ['k'] false]
     (run (start c) ops).2.map LRes.view = [none, some (true, 1, 7, true), none, some (true, 1, 7, true)]) ∧
    (let c := Cfg.normalize true 60 0 []
     let ops := [Op.insert 0 ['k'] ['a'] 1 1 7 1 0 false, Op.lookup (2 * SEC) ['k'] false,
       Op.insert (3 * SEC) ['k'] ['a'] 1 0 8 1 0 false, Op.lookup (3 * SEC) ['k'] false,
       Op.refreshDone (4 * SEC) ['k'], Op.lookup (4 * SEC) ['k'] false]
     (run (start c) ops).2.map LRes.view =
       [none, some (true, 1, 7, true), none, some (true, 0, 8, true), none, some (true, 0, 8, true)]) := by
  refine ⟨by decide, by decide⟩

/-- **The entry's TTL is the shortest answer TTL.**  The TTL handed to the cache for a reply is at
most the TTL of **every** record of its answer section (any number of records, the smallest anywhere
in the section), at most one year, and 120 s for an empty answer: no record is served past its own
TTL because another record of the same reply lives longer.  And it is not shorter than necessary: when
no record exceeds a year it is the TTL of one of the records. -/
theorem entry_ttl_is_minimum_over_answers (ttls : List Nat) :
    normTtl ttls ≤ 31536000 ∧ (∀ t ∈ ttls, normTtl ttls ≤ t) ∧ (ttls = [] → normTtl ttls = 120) ∧
    (ttls ≠ [] → (∀ t ∈ ttls, t ≤ 31536000) → normTtl ttls ∈ ttls) := by
  unfold normTtl
  refine ⟨by omega, ?_, ?_, ?_⟩
  · intro t ht
    cases ttls with
    | nil => simp at ht
    | cons a rest =>
      simp only
      obtain ⟨h1, h2⟩ := foldl_min_le rest a
      rcases List.mem_cons.mp ht with rfl | ht
      · omega
      · have := h2 t ht; omega
  · intro h; subst h; rfl
  · intro hne hall
    cases ttls with
    | nil => exact absurd rfl hne
    | cons a rest =>
      simp only
      have hm := foldl_min_mem rest a
      have := hall _ hm
      rw [Nat.min_eq_left this]; exact hm

example : normTtl [3600, 30] = 30 ∧ normTtl [30, 3600] = 30 ∧ normTtl [3600] = 3600 ∧ normTtl [] = 120 ∧
    normTtl [300, 300, 7, 300] = 7 ∧ normTtl [300, 200, 100] = 100 ∧ normTtl [40000000, 50000000] = 31536000 := by decide

/-! ### fixed TTL -/

/-- **Fixed TTL, case-insensitively.**  If the last `fixed_domain_ttl` line for a name (compared
without regard to ASCII case) says `f`, then every insert whose question name is that name in any
spelling gets `f` as its deadline TTL, whatever TTL the upstream reply carried. -/
theorem fixed_ttl_applies (opt : Bool) (stale mx : Int) (pre post : List (List Char × Int)) (name : List Char)
    (f : Int) (hpost : ∀ q ∈ post, fixedName q.1 ≠ fixedName name)
    (host : List Char) (hhost : host.map lowerAscii = fixedName name) (ttl : Int) :
    effTtl (Cfg.normalize opt stale mx (pre ++ (name, f) :: post)) host ttl = f := by
  simp only [effTtl, Cfg.normalize, hhost, lookupFixed_parseFixed pre post name f hpost]

/-- … and a name without a line keeps the TTL of the reply. -/
theorem fixed_ttl_absent (opt : Bool) (stale mx : Int) (raw : List (List Char × Int)) (host : List Char)
    (h : ∀ q ∈ raw, fixedName q.1 ≠ host.map lowerAscii) (ttl : Int) :
    effTtl (Cfg.normalize opt stale mx raw) host ttl = ttl := by
  simp only [effTtl, Cfg.normalize, lookupFixed_parseFixed_none raw _ h]

-- non-vacuity: `Ddns.org: 10` in the configuration, question asked as `DDNS.ORG.`, reply TTL 3600:
-- served before +10 s, gone after (optimistic caching off).
example :
    let c := Cfg.normalize false 60 0 [(['D', 'd', 'n', 's', '.', 'o', 'r', 'g'], 10)]
    let ops := [Op.insert 0 ['k'] ['D', 'D', 'N', 'S', '.', 'O', 'R', 'G', '.'] 1 3600 7 1 0 false]
    (step (run (start c) ops).1 (.lookup (9 * SEC) ['k'] false)).2.view = some (false, 10, 7, false) ∧
    (step (run (start c) ops).1 (.lookup (11 * SEC) ['k'] false)).2.view = none := by
  decide

/-! ### keys -/

/-- **Names are case-insensitive.**  Two spellings that differ only in ASCII case give the same key
for every query type and route. -/
theorem key_case_insensitive (n1 n2 : List Char) (h : n1.map lowerAscii = n2.map lowerAscii) (q : Nat) (r : Route) :
    responseKey n1 q r = responseKey n2 q r := by
  unfold responseKey cacheKey kname
  rw [canon_case_insensitive n1 n2 h]

/-- **Keys separate names, types and upstream scopes.**  For question names without a `|` character,
two requests share a response-cache key only if their names are equal up to ASCII case and the
trailing dot, their query types are equal and they were routed the same way. -/
theorem key_injective (n1 n2 : List Char) (q1 q2 : Nat) (r1 r2 : Route)
    (h : responseKey n1 q1 r1 = responseKey n2 q2 r2) : kname n1 = kname n2 ∧ q1 = q2 ∧ r1 = r2 := by
  unfold responseKey at h
  obtain ⟨h1, h2, h3⟩ := scopedKey_inj h
  exact ⟨h1, h2, scopeOf_inj h3⟩

/-- **Question class.**  The key of a request separates name, type, **class** and route: two requests
(names without `|`) share a response-cache key only if all four agree (names up to ASCII case and
trailing dot).  For class IN the key is the plain `responseKey`. -/
theorem request_key_injective (n1 n2 : List Char) (q1 q2 c1 c2 : Nat) (r1 r2 : Route)
    (h : requestKey n1 q1 c1 r1 = requestKey n2 q2 c2 r2) : kname n1 = kname n2 ∧ q1 = q2 ∧ c1 = c2 ∧ r1 = r2 :=
  requestKey_inj h

theorem request_key_class_IN (n : List Char) (q : Nat) (r : Route) : requestKey n q classIN r = responseKey n q r :=
  requestKey_IN n q r

/-- **A request is a piece of history.**  `World.ask` (the model of `HandleWithResponseWriter_`, tied by
the request-path stream on as-is, upstream and reject routes) is `run` on the operations `askOps`
lists, so every theorem of this file about histories speaks about requests too.  A rejected request
purges the family of its question and touches nothing else.  Every other request only uses the key
derived from its own question and route; it stores only if the upstream exchange succeeded, the
question is of class IN and the reply has rcode 0 — and then exactly that reply, under that key, with the
smallest answer TTL, at the moment the (last) exchange ended. -/
theorem request_touches_only_its_key (w : World) (t : Int) (name : List Char) (qtype qclass : Nat) (r : Route)
    (rep : Reply) (g : Nat) :
    (w.ask t name qtype qclass r rep g) = run w (askOps w t name qtype qclass r rep g) ∧
    (r = .reject → askOps w t name qtype qclass r rep g = [.removeFamily (questionKey name qtype qclass)]) ∧
    (r ≠ .reject → ∀ op ∈ askOps w t name qtype qclass r rep g,
      (∃ now ign, op = .lookup now (requestKey name qtype qclass r) ign) ∨
      (∃ now, op = .refreshDone now (requestKey name qtype qclass r)) ∨
      (op = .insert (t + rep.hops * SEC) (requestKey name qtype qclass r) (fqdn name) qtype (normTtl rep.ttls)
              rep.ans rep.ttls.length rep.ns false ∧ qclass = classIN ∧ rep.rcode = 0 ∧ rep.fail = false)) := by
  refine ⟨rfl, ?_, ?_⟩
  · intro hr; simp [askOps, hr]
  intro hr op hop
  have hstore : ∀ o ∈ (if (!rep.fail && cacheable true 1 rep.rcode qclass) = true then
      [Op.insert (t + rep.hops * SEC) (requestKey name qtype qclass r) (fqdn name) qtype (normTtl rep.ttls)
        rep.ans rep.ttls.length rep.ns false] else []),
      o = .insert (t + rep.hops * SEC) (requestKey name qtype qclass r) (fqdn name) qtype (normTtl rep.ttls)
              rep.ans rep.ttls.length rep.ns false ∧ qclass = classIN ∧ rep.rcode = 0 ∧ rep.fail = false := by
    intro o ho
    split at ho
    · rename_i hc
      simp only [List.mem_singleton] at ho
      simp only [cacheable, Bool.and_eq_true, beq_iff_eq, Bool.true_and, Bool.not_eq_eq_eq_not, Bool.not_true] at hc
      exact ⟨ho, hc.2.2, hc.2.1.2, hc.1⟩
    · simp at ho
  have hrep : ∀ (now : Int) o, o ∈ List.replicate g (Op.lookup now (requestKey name qtype qclass r) false) →
      ∃ now ign, o = .lookup now (requestKey name qtype qclass r) ign :=
    fun now o ho => ⟨now, false, (List.mem_replicate.mp ho).2⟩
  unfold askOps at hop
  rw [if_neg hr] at hop
  simp only at hop
  split at hop
  · split at hop
    · rcases List.mem_append.mp hop with hop | hop
      · exact Or.inl (hrep _ _ hop)
      · rcases List.mem_append.mp hop with hop | hop
        · exact Or.inr (Or.inr (hstore _ hop))
        · simp only [List.mem_singleton] at hop; exact Or.inr (Or.inl ⟨_, hop⟩)
    · exact Or.inl (hrep _ _ hop)
  · rcases List.mem_append.mp hop with hop | hop
    · exact Or.inl (hrep _ _ hop)
    · rcases List.mem_append.mp hop with hop | hop
      · exact Or.inr (Or.inr (hstore _ hop))
      · split at hop
        · simp at hop
        · exact Or.inl (hrep _ _ hop)

-- non-vacuity: a CH-class request is forwarded and not cached; the IN request after it is forwarded too;
-- a failing upstream leaves nothing behind; a rejected request purges the other scopes' entries
example :
    let c := Cfg.normalize true 60 0 []
    let a1 := (start c).ask 0 ['v'] 16 3 (.asIs none) ⟨[300], 7, 0, 0, false, 1⟩
    let a2 := a1.1.ask (5 * SEC) ['v'] 16 1 (.asIs none) ⟨[300, 200], 8, 0, 0, false, 1⟩
    let a3 := a2.1.ask (9 * SEC) ['v'] 16 1 (.asIs none) ⟨[300], 9, 0, 0, false, 1⟩
    let a4 := a3.1.ask (9 * SEC) ['v'] 16 1 (.upstream ['u']) ⟨[300], 10, 0, 0, true, 1⟩
    let a5 := a4.1.ask (12 * SEC) ['V', '.'] 16 1 .reject ⟨[], 0, 0, 0, false, 1⟩
    a1.2.map LRes.view = [none, none] ∧ a1.1.st.entries.length = 0 ∧
    a2.2.map LRes.view = [none, none, some (false, 200, 8, false)] ∧
    a3.2.map LRes.view = [some (false, 200, 8, false)] ∧
    a4.2.map LRes.view = [none] ∧ a4.1.st.entries.length = 1 ∧
    a5.1.st.entries.length = 0 := by
  intro c a1 a2 a3 a4 a5
  refine ⟨by decide, by decide, by decide, by decide, by decide, by decide, by decide⟩

/-- **A rejected question is purged in every scope.**  Whatever the history, after a request for
(`name`, `qtype`, class IN) that request routing rejects, a lookup of that name and type under any
route's scope — in any spelling of the name — is a miss: nothing cached earlier for that question
survives a reject. -/
theorem reject_purges_every_scope (c0 : Cfg) (ops : List Op) (t : Int) (name name' : List Char)
    (hn : name'.map lowerAscii = name.map lowerAscii) (qtype : Nat) (rep : Reply) (g : Nat)
    (r' : Route) (now : Int) (ign : Bool) :
    let w := ((run (start c0) ops).1.ask t name qtype classIN .reject rep g).1
    (step w (.lookup now (responseKey name' qtype r') ign)).2 = .miss := by
  intro w
  have hk : baseKey (responseKey name' qtype r') = questionKey name qtype classIN := by
    rw [show baseKey (responseKey name' qtype r') = cacheKey name' qtype from baseKey_scopedKey qtype _]
    simp only [questionKey, if_true, List.append_nil, cacheKey, kname]
    rw [canon_case_insensitive name' name hn]
  have hne : questionKey name qtype classIN ≠ [] := by
    obtain ⟨l, hl⟩ := kname_ends name
    simp [questionKey, cacheKey, hl]
  have hw : w = (step (run (start c0) ops).1 (.removeFamily (questionKey name qtype classIN))).1 := by
    simp [w, World.ask, askOps, run_cons, run_nil]
  rw [hw]
  simp only [step, State.removeFamily, if_neg hne, State.lookup]
  cases hf : find ((run (start c0) ops).1.st.entries.filter fun p => baseKey p.1 ≠ questionKey name qtype classIN)
      (responseKey name' qtype r') with
  | none => rfl
  | some e' =>
    have := (List.mem_filter.mp (find_mem hf)).2
    simp [hk] at this

/-- the family key used by reject-routing (`RemoveDnsRespCacheFamily`) is the unscoped key -/
theorem base_of_response_key (n : List Char) (q : Nat) (r : Route) :
    baseKey (responseKey n q r) = cacheKey n q :=
  baseKey_scopedKey q _

example : responseKey ['A', '.', 'b'] 28 (.upstream ['u']) = "a.b.28|upstream@u".toList ∧
    responseKey ['a', '.', 'B', '.'] 28 (.upstream ['u']) = "a.b.28|upstream@u".toList ∧
    responseKey ['a', '.', 'b'] 1 .none = "a.b.1".toList := by
  refine ⟨by decide, by decide, by decide⟩

/-! ### janitor and LRU -/

/-- **Janitor, time step.**  Whatever the history, after a janitor run at `now` nothing new is in the
cache, and when time-based eviction applies (a stale window is configured, or neither a window nor a
size limit) every surviving entry is still inside its deadline (+ stale window when optimistic). -/
theorem janitor_time_step (c0 : Cfg) (ops : List Op) (now : Int) (choice : List Key) :
    let w := (run (start c0) ops).1
    ∀ p ∈ (w.st.janitor w.cfg now choice).entries,
      p ∈ w.st.entries ∧ (useTimeEviction w.cfg = true → effDeadline w.cfg p.2 > now) := by
  intro w p hp
  refine ⟨janitor_subset _ _ _ _ p hp, ?_⟩
  have : p ∈ timeEvict w.cfg now w.st.entries := by
    simp only [State.janitor] at hp
    unfold lruEvict at hp
    split at hp
    · exact (List.mem_filter.mp hp).1
    · exact hp
  exact ((timeEvict_spec _ _ _ _).mp this).2

/-- **Janitor keeps what it may keep.**  An entry that the time step keeps is evicted only when a size
limit is set and exceeded. -/
theorem janitor_keeps (c0 : Cfg) (ops : List Op) (now : Int) (choice : List Key) :
    let w := (run (start c0) ops).1
    ¬ (w.cfg.maxSize > 0 ∧ ((timeEvict w.cfg now w.st.entries).length : Int) > w.cfg.maxSize) →
    (w.st.janitor w.cfg now choice).entries = timeEvict w.cfg now w.st.entries := by
  intro w h
  simp only [State.janitor]
  exact lruEvict_noop _ _ _ h

/-- **The least recently used entries are the ones evicted.**  Whatever the history, the order in
which `sync.Map.Range` hands the entries to the heap, and the way ties are broken: when the entries
left by the time step exceed `max_cache_size`, a janitor run leaves exactly `max_cache_size` entries,
and no evicted entry was used (looked up, or stored: `lastAccess`) more recently than a surviving one. -/
theorem janitor_evicts_least_recently_used (c0 : Cfg) (ops : List Op) (now : Int) (choice : List Key) :
    let w := (run (start c0) ops).1
    let kept := timeEvict w.cfg now w.st.entries
    let after := (w.st.janitor w.cfg now choice).entries
    w.cfg.maxSize > 0 → (kept.length : Int) > w.cfg.maxSize →
    after.length = w.cfg.maxSize.toNat ∧
    ∀ p ∈ kept, p ∉ after → ∀ q ∈ after, p.2.lastAccess ≤ q.2.lastAccess := by
  intro w kept after hmax hover
  have hkn : KN kept := by
    have h0 : KN w.st.entries := run_KN ops (start c0) (by simp [KN, start, State.empty])
    simp only [kept, timeEvict]; split
    · exact h0.of_filter _
    · exact h0
  obtain ⟨h1, _, h3⟩ := lruEvict_full w.cfg kept (choice.filter fun c => (find kept c).isSome) hkn hmax hover
  exact ⟨h1, h3⟩

/-- the heap selection itself (`buildMinHeap`, `heapifyMin`, the extraction loop), on any list of
entries with distinct keys and any number `k` of victims below the list length, returns `k` distinct
stored keys none of which was used more recently than an entry it leaves -/
theorem heap_selects_oldest (es : List (Key × Entry)) (hkn : KN es) (k : Nat) (hk : k < es.length) :
    validChoice es k (heapChoice (lruItems es) k) = true :=
  heapChoice_valid es hkn k hk

/-- what counts as "use": a lookup that finds the entry stamps it with the instant of the lookup,
an insert stamps the new entry with the instant of the insert -/
theorem lookup_and_insert_stamp_last_access :
    (∀ (cfg : Cfg) (now : Int) (ign : Bool) (e e' : Entry) (r : LRes),
      lookupEntry cfg now ign e = (some e', r) → e'.lastAccess = now) ∧
    (∀ (cfg : Cfg) (id : Nat) (now : Int) (key : Key) (host : List Char) (q : Nat) (ttl : Int) (a n ns : Nat),
      (insEntry cfg id now key host q ttl a n ns).lastAccess = now) :=
  ⟨fun _ _ _ _ _ _ h => (lookupEntry_preserves h).2.2.2.2.2.2.2.1, fun _ _ _ _ _ _ _ _ _ _ => rfl⟩

-- non-vacuity: limit 1; `a` stored at 0 and looked up at 5 s, `b` stored at 1 s: `b` goes.
-- (items handed to the heap in either order)
example :
    let c := Cfg.normalize true 0 1 []
    let ops := [Op.insert 0 ['a'] ['a'] 1 100 1 1 0 false, Op.insert (1 * SEC) ['b'] ['b'] 1 100 2 1 0 false,
      Op.lookup (5 * SEC) ['a'] false]
    let w := (run (start c) ops).1
    (w.st.janitor w.cfg (6 * SEC) []).entries.map (·.1) = [['a']] ∧
    heapChoice [(['a'], 5), (['b'], 1)] 1 = [['b']] ∧ heapChoice [(['b'], 1), (['a'], 5)] 1 = [['b']] ∧
    heapChoice [(['x'], 3), (['y'], 1), (['z'], 2), (['u'], 7), (['v'], 0)] 2 = [['y'], ['v']] := by
  decide


/-! ### the concurrent part: every interleaving of the shared-memory actions (`Conc.lean`) -/

section Concurrent
open DaeVerif.C08.Conc

/-- a cache with nothing in it and threads that have not started: any number of lookups (each with
its own clock reading and `ignoreFixedTtl`), inserts, refresh clean-ups and janitor passes -/
def cstart (threads : List Thread) : Sys := ⟨Mem.empty, threads⟩

/-- **Eviction never removes anything but the expired object it looked at.**  For every set of
threads and every schedule (any interleaving of their `Load` / `CompareAndSwap` / `CompareAndDelete` /
`Store` actions on the key): whenever an object leaves the map slot by eviction, it is the very object
the evicting thread had loaded and judged (`removed = examined`: an entry stored in between — a
background refresh's new answer — is never deleted in its place), and the judgement was "expired and
not servable as stale" at that thread's clock reading (a lookup), resp. "past deadline + stale window,
time-based eviction on" (the janitor). -/
theorem eviction_removes_only_the_expired_object_it_examined (cfg : Cfg) (threads : List Thread)
    (hst : ∀ th ∈ threads, th.isStart = true) (sched : List Nat) :
    ∀ ev ∈ (exec Variant.real cfg (cstart threads) sched).mem.evictions,
      ev.removed = ev.examined ∧
      (ev.byJanitor = false → verdict cfg ev.now ev.ign ev.examined.2 = .evict) ∧
      (ev.byJanitor = true → useTimeEviction cfg = true ∧ effDeadline cfg ev.examined.2 ≤ ev.now) :=
  fun ev hev => (exec_inv sched (SInv.start cfg threads hst)).mem.ev_ok ev hev

/-- … and nothing else empties the slot: an action either leaves the slot alone, or is an insert's
`Store`, or is an eviction that is logged with the object it removed.  (Any variant.) -/
theorem slot_changes_only_by_store_or_logged_eviction (v : Variant) (cfg : Cfg) (s : Sys) (i : Nat) :
    (sysStep v cfg s i).mem.slot = s.mem.slot ∨
    (∃ e, s.threads[i]? = some (.insert e) ∧ (sysStep v cfg s i).mem.slot = some (s.mem.nextId, e)) ∨
    ((sysStep v cfg s i).mem.slot = none ∧
      ∃ ev, (sysStep v cfg s i).mem.evictions = ev :: s.mem.evictions ∧ s.mem.slot = some ev.removed) := by
  have hev : ∀ (o : Obj) (now : Int) (ign byJ : Bool),
      (evictSlot v s.mem o now ign byJ).slot = s.mem.slot ∨
      ((evictSlot v s.mem o now ign byJ).slot = none ∧
        ∃ ev, (evictSlot v s.mem o now ign byJ).evictions = ev :: s.mem.evictions ∧ s.mem.slot = some ev.removed) := by
    intro o now ign byJ
    unfold evictSlot
    split
    · exact Or.inl rfl
    · rename_i cur hs
      split
      · exact Or.inr ⟨rfl, _, rfl, hs⟩
      · exact Or.inl rfl
  unfold sysStep
  cases hi : s.threads[i]? with
  | none => exact Or.inl rfl
  | some th =>
    cases th with
    | lookup now ign => simp only [stepThread]; split <;> exact Or.inl rfl
    | lookupLoaded now ign o =>
      simp only [stepThread]
      cases verdict cfg now ign o.2 with
      | fresh => exact Or.inl rfl
      | stale => simp only; split <;> split <;> exact Or.inl rfl
      | evict => rcases hev o now ign false with h | h
                 · exact Or.inl h
                 · exact Or.inr (Or.inr h)
    | lookupSawUnlatched now ign o => exact Or.inl rfl
    | lookupDone r => exact Or.inl rfl
    | insert e => exact Or.inr (Or.inl ⟨e, rfl, rfl⟩)
    | insertDone => exact Or.inl rfl
    | rdone => simp only [stepThread]; split <;> exact Or.inl rfl
    | rdoneLoaded o => simp only [stepThread]; split <;> exact Or.inl rfl
    | rdoneSawTrue o => exact Or.inl rfl
    | rdoneDone => exact Or.inl rfl
    | janitor now => simp only [stepThread]; split <;> (try split) <;> exact Or.inl rfl
    | janitorLoaded now o =>
      simp only [stepThread]
      split
      · rcases hev o now false true with h | h
        · exact Or.inl h
        · exact Or.inr (Or.inr h)
      · exact Or.inl rfl
    | janitorDone => exact Or.inl rfl

/-- **At most one refresh request per entry between two clean-ups, under every interleaving.**  However
many goroutines look a stale entry up at the same time, and wherever the clean-ups of finished
refreshes fall between their actions: the number of lookups that were told `needRefresh = true` for an
entry object exceeds the number of `MarkRefreshed` executed on it by at most one — and not at all
while its flag is down. -/
theorem one_refresh_request_per_release_under_every_interleaving (cfg : Cfg) (threads : List Thread)
    (hst : ∀ th ∈ threads, th.isStart = true) (sched : List Nat) (o : Nat) :
    let m := (exec Variant.real cfg (cstart threads) sched).mem
    count m.grants o ≤ count m.releases o + 1 ∧ (o ∉ m.flag → count m.grants o ≤ count m.releases o) :=
  (exec_inv sched (SInv.start cfg threads hst)).mem.latch o

/-- **The one-step lookup of `Model.lean` is what a lookup thread does when nobody interferes.**  A
lookup thread whose two actions run back to back on a slot holding `o` answers exactly as
`lookupEntry` does on `o` with its current `refreshing` flag: same hit/miss, same stale bit, same
`needRefresh`, the entry stays / leaves the map in the same cases, and the flag ends up set in the
same cases. -/
theorem lookup_thread_alone_is_the_atomic_lookup (cfg : Cfg) (now : Int) (ign : Bool) (m : Mem) (o : Obj)
    (hs : m.slot = some o) :
    let e : Entry := { o.2 with refreshing := decide (o.1 ∈ m.flag) }
    let s2 := exec Variant.real cfg ⟨m, [.lookup now ign]⟩ [0, 0]
    (∀ e1 sv, lookupEntry cfg now ign e = (some e1, .hit sv) →
      s2.threads = [.lookupDone (some (o, sv.stale, sv.refresh))] ∧ s2.mem.slot = some o ∧
      (e1.refreshing = true ↔ o.1 ∈ s2.mem.flag)) ∧
    (lookupEntry cfg now ign e = (none, .miss) → s2.threads = [.lookupDone none] ∧ s2.mem.slot = none) := by
  intro e s2
  have hvd : verdict cfg now ign e = verdict cfg now ign o.2 := rfl
  have hstep1 : sysStep Variant.real cfg ⟨m, [.lookup now ign]⟩ 0 = ⟨m, [.lookupLoaded now ign o]⟩ := by
    simp [sysStep, stepThread, hs]
  have hs2 : s2 = sysStep Variant.real cfg ⟨m, [.lookupLoaded now ign o]⟩ 0 := by
    simp only [s2, exec, hstep1]
  obtain ⟨hF, hS, hE⟩ := lookupEntry_verdict cfg now ign e
  have her : e.refreshing = decide (o.1 ∈ m.flag) := rfl
  cases hv : verdict cfg now ign o.2 with
  | fresh =>
    obtain ⟨e1, sv, heq, h1, h2, _, hp⟩ := hF (hvd.trans hv)
    have hst : s2 = ⟨m, [.lookupDone (some (o, false, false))]⟩ := by
      rw [hs2]; simp [sysStep, stepThread, hv]
    refine ⟨?_, fun h => by rw [heq] at h; cases h⟩
    intro e1' sv' h'
    have hh : e1' = e1 ∧ sv' = sv := by rw [heq] at h'; cases h'; exact ⟨rfl, rfl⟩
    rw [hh.1, hh.2, hst, h1, h2]
    refine ⟨rfl, hs, ?_⟩
    -- a fresh hit leaves the flag as it was
    rw [hp, her]; simp
  | stale =>
    obtain ⟨e1, sv, heq, h1, h2, _, h4⟩ := hS (hvd.trans hv)
    refine ⟨?_, fun h => by rw [heq] at h; cases h⟩
    intro e1' sv' h'
    have hh : e1' = e1 ∧ sv' = sv := by rw [heq] at h'; cases h'; exact ⟨rfl, rfl⟩
    rw [hh.1, hh.2]
    by_cases hf : o.1 ∈ m.flag
    · have hst : s2 = ⟨m, [.lookupDone (some (o, true, false))]⟩ := by
        rw [hs2]; simp [sysStep, stepThread, hv, Variant.real, hf]
      have h2' : sv.refresh = false := by rw [h2, her]; simp [hf]
      rw [hst, h1, h2']
      exact ⟨rfl, hs, ⟨fun _ => hf, fun _ => h4⟩⟩
    · have hst : s2 = ⟨{ m with flag := o.1 :: m.flag, grants := o.1 :: m.grants }, [.lookupDone (some (o, true, true))]⟩ := by
        rw [hs2]; simp [sysStep, stepThread, hv, Variant.real, hf]
      have h2' : sv.refresh = true := by rw [h2, her]; simp [hf]
      rw [hst, h1, h2']
      exact ⟨rfl, hs, ⟨fun _ => List.mem_cons_self, fun _ => h4⟩⟩
  | evict =>
    have heq := hE (hvd.trans hv)
    refine ⟨fun e1 sv h => (by rw [heq] at h; cases h), ?_⟩
    intro _
    have hst : s2 = ⟨evictSlot Variant.real m o now ign false, [.lookupDone none]⟩ := by
      rw [hs2]; simp [sysStep, stepThread, hv]
    rw [hst]
    refine ⟨rfl, ?_⟩
    simp [evictSlot, hs, Variant.real]

-- non-vacuity 1: a lookup loads the expired entry, a refresh stores the new answer, the lookup's
-- eviction comes last: with CompareAndDelete the new answer stays; with a plain Delete it is gone
-- (and the eviction log shows a removed object that is not the examined one).
example :
    let cfg := Cfg.normalize false 60 0 []
    let old := insEntry cfg 0 0 ['k'] ['a'] 1 5 7 1 0
    let new := insEntry cfg 1 (100 * SEC) ['k'] ['a'] 1 300 8 1 0
    let threads := [Thread.insert old, .lookup (100 * SEC) false, .insert new, .lookup (101 * SEC) false]
    let sched := [0, 1, 2, 1, 3, 3]
    (exec Variant.real cfg (cstart threads) sched).results = [none, some ((1, new), false, false)] ∧
    (exec Variant.real cfg (cstart threads) sched).mem.evictions.length = 0 ∧
    (exec ⟨false, true⟩ cfg (cstart threads) sched).results = [none, none] ∧
    ((exec ⟨false, true⟩ cfg (cstart threads) sched).mem.evictions.map fun ev => (ev.removed.1, ev.examined.1)) = [(1, 0)] := by
  refine ⟨by decide, by decide, by decide, by decide⟩

-- non-vacuity 2: three lookups of one stale entry interleaved action by action: one refresh request
-- with the CAS, three with Load-then-Store.
example :
    let cfg := Cfg.normalize true 60 0 []
    let e := insEntry cfg 0 0 ['k'] ['a'] 1 1 7 1 0
    let threads := [Thread.insert e, .lookup (2 * SEC) false, .lookup (2 * SEC) false, .lookup (2 * SEC) false]
    let sched := [0, 1, 2, 3, 1, 2, 3, 1, 2, 3]
    (exec Variant.real cfg (cstart threads) sched).mem.grants = [0] ∧
    (exec ⟨true, false⟩ cfg (cstart threads) sched).mem.grants = [0, 0, 0] := by
  refine ⟨by decide, by decide⟩

end Concurrent

end DaeVerif.C08.Props
