import DaeVerif.C08.Proofs
/-!
# C08 — property theorems

Only statements a reader should audit live here (namespace `DaeVerif.C08.Props`); helper lemmas are
in `Proofs.lean`.  A *history* is any list of operations (`Op`: insert, lookup, janitor run, reload
clone, configuration swap, end of a background refresh, removals), each carrying the instant at
which it runs; `run (start c0) ops` executes it from an empty cache under configuration `c0`.
Every theorem below is about an arbitrary history, so "a lookup after the history `ops`" is every
lookup of every history (`lookup_in_history` makes that link explicit).
-/
namespace DaeVerif.C08.Props
open DaeVerif.C08

/-- an empty cache under configuration `c0` -/
def start (c0 : Cfg) : World := ⟨c0, State.empty⟩

/-- The `i`-th answer of a history is the answer of that operation executed after the first `i`
operations — so the theorems about "a lookup after `ops`" speak about every lookup of a history. -/
theorem lookup_in_history (c0 : Cfg) (ops : List Op) (i : Nat) (op : Op) (h : ops[i]? = some op) :
    (run (start c0) ops).2[i]? = some (step (run (start c0) (ops.take i)).1 op).2 :=
  run_take_output _ _ _ _ h

/-- **Scoped, live answers.**  Whatever the history (the clock may even jump backwards), if a lookup
under `key` is answered, then
* the answer is the one an *insert of the history* stored under exactly that key (`insKey` is the
  key the insert used: the caller's `responseCacheKey`, or the derived one) — see `key_injective`
  for what equal keys mean;
* its deadline TTL `eff` is the TTL given to that insert or the `fixed_domain_ttl` of its host in a
  configuration that was in force;
* a fresh answer is served strictly before `t + eff` seconds (`t + ttl` when the caller ignores the
  fixed TTL);
* a stale answer is served only when optimistic caching is on, at or after the deadline, and — when
  a stale window is configured — not after `deadline + optimistic_cache_ttl`. -/
theorem served_only_live_and_scoped (c0 : Cfg) (ops : List Op) (now : Int) (key : Key) (ign : Bool) (sv : Served)
    (h : (step (run (start c0) ops).1 (.lookup now key ign)).2 = .hit sv) :
    ∃ key0 host0 ns c,
      Op.insert sv.src.t key0 host0 sv.src.qtype sv.src.ttl sv.ans sv.nAns ns false ∈ ops ∧
      key = insKey key0 host0 sv.src.qtype ∧
      c ∈ cfgsOf c0 ops ∧ sv.src.eff = effTtl c (splitHost host0).2 sv.src.ttl ∧
      (sv.stale = false → now < sv.src.t + (if ign then sv.src.ttl else sv.src.eff) * SEC) ∧
      (sv.stale = true →
        (run (start c0) ops).1.cfg.optimistic = true ∧ sv.src.t + sv.src.eff * SEC ≤ now ∧
        ((run (start c0) ops).1.cfg.staleTtl > 0 →
          now ≤ sv.src.t + sv.src.eff * SEC + (run (start c0) ops).1.cfg.staleTtl * SEC)) := by
  obtain ⟨e0, hf, hl⟩ := step_lookup_hit h
  have hm := find_mem hf
  have hS := run_OkS ops (start c0) (AllE_empty _) _ hm
  have hH := (run_SrcOk ops [c0] [] (start c0) (by simp [start]) (AllE_empty _)).2 _ hm
  obtain ⟨hsrc, _, hans, hn, hfresh, hstale⟩ := served_bounds hS hl
  obtain ⟨key0, host0, ns, c, h1, h2, h3, h4, h5⟩ := hH
  refine ⟨key0, host0, ns, c, ?_, ?_, ?_, ?_, fun hs => (hfresh hs).1, fun hs => ?_⟩
  · rw [hsrc, hans, hn]; simpa using h1
  · rw [hsrc]; exact h4
  · simpa [cfgsOf] using h2
  · rw [hsrc, h5, h3]
  · obtain ⟨a, b, c, _⟩ := hstale hs
    exact ⟨a, b, c⟩

-- non-vacuity: an insert under a scoped key (here `a.1|u`), then: fresh hit 2 s later (3 s left, the packed TTL 5 is shown: within the slack),
-- stale hit with refresh request after expiry, miss beyond the 60 s window, miss under another type.
example :
    let k := ['a', '.', '1', '|', 'u']
    let ops := [Op.insert 1000 k ['A', '.'] 1 5 7 1 0 false]
    let w := (run (start (Cfg.normalize true 60 0 [])) ops).1
    (step w (.lookup (1000 + 2 * SEC) k false)).2.view = some (false, 5, 7, false) ∧
    (step w (.lookup (1000 + 9 * SEC) k false)).2.view = some (true, 5, 7, true) ∧
    (step w (.lookup (1000 + 66 * SEC) k false)).2.view = none ∧
    (step w (.lookup (1000 + 2 * SEC) ['a', '.', '2', '8', '|', 'u'] false)).2.view = none := by
  decide

/-- **Truthful TTL.**  Along any history whose clock never goes backwards, the TTL written into a
fresh answer exceeds the whole seconds still left on its deadline (at least 1: a live answer is
never shown with TTL 0 through rounding) by at most `ttlRefreshThresholdSeconds = 15`. -/
theorem fresh_ttl_within_slack (c0 : Cfg) (t0 : Int) (ops : List Op) (hm : Mono t0 ops) (now : Int)
    (hnow : lastTime t0 ops ≤ now) (key : Key) (ign : Bool) (sv : Served)
    (h : (step (run (start c0) ops).1 (.lookup now key ign)).2 = .hit sv) (hs : sv.stale = false) :
    sv.ttl ≤ max 1 ((sv.src.t + sv.src.eff * SEC - now) / SEC).toNat + SLACK := by
  obtain ⟨e0, hf, hl⟩ := step_lookup_hit h
  have hm' := find_mem hf
  have hok := run_Ok ops t0 (start c0) hm (AllE_empty _) _ hm'
  obtain ⟨hb, hsrc, _⟩ := fresh_ttl_bound hok hnow hl hs
  rw [hsrc, ← hok.dl]; exact hb

/-- the same in nanoseconds: shown TTL ≤ remaining lifetime (rounded up to 1 s when shorter) + 15 s -/
theorem fresh_ttl_within_slack_nanos (c0 : Cfg) (t0 : Int) (ops : List Op) (hm : Mono t0 ops) (now : Int)
    (hnow : lastTime t0 ops ≤ now) (key : Key) (sv : Served)
    (h : (step (run (start c0) ops).1 (.lookup now key false)).2 = .hit sv) (hs : sv.stale = false) :
    (sv.ttl : Int) * SEC ≤ max (sv.src.t + sv.src.eff * SEC - now) SEC + (SLACK : Int) * SEC := by
  have := fresh_ttl_within_slack c0 t0 ops hm now hnow key false sv h hs
  simp only [SEC, SLACK] at *
  omega

-- non-vacuity: TTL 100 packed at insert; at +15 s the packed 100 is still shown (85 left, slack
-- exactly 15); at +16 s the response is re-packed and shows 84.
example :
    let ops := [Op.insert 0 ['k'] ['a'] 1 100 7 1 0 false, Op.lookup (1 * SEC) ['k'] false]
    let w := (run (start (Cfg.normalize true 60 0 [])) ops).1
    (step w (.lookup (15 * SEC) ['k'] false)).2.view = some (false, 100, 7, false) ∧
    (step w (.lookup (16 * SEC) ['k'] false)).2.view = some (false, 84, 7, false) ∧
    Mono 0 ops := by
  refine ⟨by decide, by decide, by simp [Mono, Op.time, SEC]⟩

/-- **Stale answers are served at once.**  With optimistic caching on, an expired entry that is inside
the stale window (or any expired entry when `optimistic_cache_ttl = 0`) is answered immediately from
the cache; the caller is told to start a refresh exactly when none is marked in flight. -/
theorem stale_served_at_once (c0 : Cfg) (ops : List Op) (now : Int) (key : Key) (e : Entry)
    (hf : find (run (start c0) ops).1.st.entries key = some e) (hns : e.ns ≠ 2)
    (hopt : (run (start c0) ops).1.cfg.optimistic = true) (hexp : e.deadline ≤ now)
    (hwin : (run (start c0) ops).1.cfg.staleTtl > 0 → now ≤ e.deadline + (run (start c0) ops).1.cfg.staleTtl * SEC) :
    ∃ sv, (step (run (start c0) ops).1 (.lookup now key false)).2 = .hit sv ∧ sv.stale = true ∧
      sv.ans = e.ans ∧ sv.nAns = e.nAns ∧ sv.refresh = !e.refreshing := by
  have hS : OkS key e := run_OkS ops (start c0) (AllE_empty _) _ (find_mem hf)
  have hst : staleResp (touch e now) now (run (start c0) ops).1.cfg.staleTtl = some e.packedTTL := by
    unfold staleResp
    rw [touch_deadlineNano, hS.dn, if_neg (by omega)]
    have hp : (touch e now).packed = true := hS.pk.mpr hns
    by_cases hw : (run (start c0) ops).1.cfg.staleTtl > 0
    · rw [if_neg (by have := hwin hw; omega), if_pos hp]; rfl
    · rw [if_neg (by omega), if_pos hp]; rfl
  have hle : lookupDeadline false e ≤ now := by simpa [lookupDeadline] using hexp
  rcases lookupEntry_cases (run (start c0) ops).1.cfg now false e with ⟨hd, _⟩ | hc | hc
  · omega
  · obtain ⟨_, _, ttl, hs, heq⟩ := hc
    have hstep : (step (run (start c0) ops).1 (.lookup now key false)).2 =
        LRes.hit ⟨(touch e now).id, (touch e now).src, (touch e now).ans, (touch e now).nAns, ttl,
          decide ((touch e now).nAns > 0) || (touch e now).ns == 1, true, !(touch e now).refreshing⟩ := by
      simp only [step, State.lookup, hf, heq]
    exact ⟨_, hstep, rfl, rfl, rfl, rfl⟩
  · obtain ⟨_, hor, _⟩ := hc
    rcases hor with hor | hor
    · rw [hopt] at hor; cases hor
    · rw [hst] at hor; cases hor

/-- **At most one refresh per cached answer.**  Along any history whose clock never goes backwards,
no entry object (`eid`) ever makes two lookups return `needRefresh = true`: after the first, every
further stale hit of that entry is served with `needRefresh = false` (`stale_served_at_once`) until
the refresh replaces the entry (a new insert = a new object) or its end-of-refresh clean-up evicts it. -/
theorem single_refresh_per_entry (c0 : Cfg) (t0 : Int) (ops : List Op) (hm : Mono t0 ops) :
    (refreshIds (run (start c0) ops).2).Nodup := by
  have := (run_IdInv ops t0 [] (start c0) hm (IdInv_empty t0)).nd
  simpa using this

-- non-vacuity: three stale lookups of one entry, exactly one refresh request (entry object 0)
example :
    let ops := [Op.insert 0 ['k'] ['a'] 1 1 7 1 0 false,
      Op.lookup (2 * SEC) ['k'] false, Op.lookup (2 * SEC) ['k'] false, Op.lookup (3 * SEC) ['k'] false]
    refreshIds (run (start (Cfg.normalize true 60 0 [])) ops).2 = [0] ∧
    (run (start (Cfg.normalize true 60 0 [])) ops).2.map LRes.view =
      [none, some (true, 1, 7, true), some (true, 1, 7, false), some (true, 1, 7, false)] ∧ Mono 0 ops := by
  refine ⟨by decide, by decide, by simp [Mono, Op.time, SEC]⟩

end DaeVerif.C08.Props
