import DaeVerif.C08.Proofs
namespace DaeVerif.C08.Props
open DaeVerif.C08
theorem normTtl_le (n t : Nat) : normTtl n t ≤ 31536000 := by
  unfold normTtl; dsimp only; split <;> omega
end DaeVerif.C08.Props
