/-!
# C08 — the DNS response cache of `control.DnsController`

Executable model (core Lean only) of

* the cache key: `cacheKey` (= `dns.CanonicalName(qname) ++ itoa(qtype)`), `responseCacheScope`,
  `responseCacheKey`, `dnsCacheBaseKey`;
* the production insert path `NormalizeAndCacheDnsResp_ → UpdateDnsCacheTtlWithKey →
  __updateDnsCacheDeadline → newCache → prepackResponseBeforeStore`;
* `LookupDnsRespCache_` with its three ways of answering (pre-packed response with approximate TTL,
  in-place fallback with exact TTL, stale response with the single-refresh CAS) and its eviction;
* the janitor `evictExpiredDnsCache` (time based step, then `evictLRUIfFull` with
  `buildMinHeap / heapifyMin`);
* `CloneCacheForReload + RestoreReloadCache` (reload clone), `TryUpdateRuntime` (config swap on the
  shared store), the deferred clean-up of `backgroundRefresh`, `RemoveDnsRespCache(Family)`.

Time is `time.Now().UnixNano()` as an `Int`; every operation carries the instant at which it runs.
-/
namespace DaeVerif.C08

abbrev Key := List Char

/-- one second in nanoseconds -/
def SEC : Int := 1000000000

/-- `ttlRefreshThresholdSeconds` -/
def SLACK : Nat := 15

/-! ## Keys -/

/-- ASCII lower-casing as in `dns.CanonicalName` (only `A`–`Z` are affected). -/
def lowerAscii : Char → Char
  | 'A' => 'a'
  | 'B' => 'b'
  | 'C' => 'c'
  | 'D' => 'd'
  | 'E' => 'e'
  | 'F' => 'f'
  | 'G' => 'g'
  | 'H' => 'h'
  | 'I' => 'i'
  | 'J' => 'j'
  | 'K' => 'k'
  | 'L' => 'l'
  | 'M' => 'm'
  | 'N' => 'n'
  | 'O' => 'o'
  | 'P' => 'p'
  | 'Q' => 'q'
  | 'R' => 'r'
  | 'S' => 's'
  | 'T' => 't'
  | 'U' => 'u'
  | 'V' => 'v'
  | 'W' => 'w'
  | 'X' => 'x'
  | 'Y' => 'y'
  | 'Z' => 'z'
  | c => c

/-- `dns.IsFqdn`: ends with a dot that is not escaped (an even number of backslashes before it). -/
def isFqdn (s : List Char) : Bool :=
  match s.reverse with
  | '.' :: rest => (rest.takeWhile (· == '\\')).length % 2 == 0
  | _ => false

/-- `dns.Fqdn` -/
def fqdn (s : List Char) : List Char := if isFqdn s then s else s ++ ['.']

/-- `dns.CanonicalName` -/
def canon (s : List Char) : List Char := (fqdn s).map lowerAscii

/-- `strconv.Itoa(int(qtype))` (the `qtypeStrCache` table holds the same strings). -/
def qtypeStr (q : Nat) : List Char := Nat.toDigits 10 q

/-- a `|` inside the name is spelled `\124` (presentation-format escape), so that the question part of
a key never contains the separator of `responseCacheKey` / `dnsCacheBaseKey` -/
def escBar (l : List Char) : List Char := l.flatMap fun c => if c = '|' then ['\\', '1', '2', '4'] else [c]

/-- the name part of a key: canonical name with `|` escaped -/
def kname (qname : List Char) : List Char := escBar (canon qname)

/-- `DnsController.cacheKey` -/
def cacheKey (qname : List Char) (qtype : Nat) : Key := kname qname ++ qtypeStr qtype

/-- Which upstream a request was routed to, as `responseCacheScope` sees it. -/
inductive Route where
  | asIs (dst : Option (List Char))       -- `AsIs`; `some d` when `req.realDst` is valid, `d = realDst.String()`
  | reject
  | upstream (s : List Char)              -- `upstream != nil`, `s = upstream.String()`
  | index (i : Nat)                       -- `upstream == nil`, user defined index `i ≠ 0`
  | none                                  -- `upstream == nil`, index 0
deriving DecidableEq, Repr

/-- `responseCacheScope` -/
def scopeOf : Route → List Char
  | .asIs (some d) => ['a', 's', 'i', 's', '@'] ++ d
  | .asIs Option.none => ['a', 's', 'i', 's']
  | .reject => ['r', 'e', 'j', 'e', 'c', 't']
  | .upstream s => ['u', 'p', 's', 't', 'r', 'e', 'a', 'm', '@'] ++ s
  | .index i => ['u', 'p', 's', 't', 'r', 'e', 'a', 'm', '-', 'i', 'n', 'd', 'e', 'x', '@'] ++ Nat.toDigits 10 i
  | .none => []

/-- `responseCacheKey` -/
def scopedKey (base scope : List Char) : Key := if scope = [] then base else base ++ '|' :: scope

def responseKey (qname : List Char) (qtype : Nat) (r : Route) : Key :=
  scopedKey (cacheKey qname qtype) (scopeOf r)

/-- DNS class IN -/
def classIN : Nat := 1

/-- `questionCacheKey`: the key of a client's question.  The response cache is about class IN; a
question of another class gets `#class` appended, a key of its own. -/
def questionKey (qname : List Char) (qtype qclass : Nat) : Key :=
  cacheKey qname qtype ++ (if qclass = classIN then [] else '#' :: Nat.toDigits 10 qclass)

/-- the response-cache key of a request: question key + scope of the route it was given -/
def requestKey (qname : List Char) (qtype qclass : Nat) (r : Route) : Key :=
  scopedKey (questionKey qname qtype qclass) (scopeOf r)

/-- `dnsCacheBaseKey`: everything before the first `|`. -/
def baseKey (k : Key) : Key := k.takeWhile (· != '|')

/-! ## Configuration -/

structure Cfg where
  optimistic : Bool
  staleTtl : Int                       -- `optimisticCacheTtl`, seconds
  maxSize : Int                        -- `maxCacheSize`
  fixed : List (List Char × Int)       -- `fixedDomainTtl`
deriving Repr

/-- a configured `fixed_domain_ttl` name as the table stores it: trailing dot removed, lower-cased
(the table is asked with the dot-less, lower-cased question name) -/
def fixedName (s : List Char) : List Char :=
  (if s.getLast? = some '.' then s.dropLast else s).map lowerAscii

/-- `ParseFixedDomainTtl`: names normalised (`fixedName`), a later line for the same name overwrites
an earlier one (a Go map).  The result is an association list with unique keys. -/
def parseFixed (raw : List (List Char × Int)) : List (List Char × Int) :=
  raw.foldl (fun m p => (fixedName p.1, p.2) :: m.filter (fun q => q.1 ≠ fixedName p.1)) []

/-- `normalizeDnsRuntimeBehavior` (+ `ParseFixedDomainTtl` for the `fixed_domain_ttl` lines) -/
def Cfg.normalize (opt : Bool) (stale maxSize : Int) (rawFixed : List (List Char × Int)) : Cfg :=
  ⟨opt, if stale = 0 ∧ maxSize = 0 then 60 else stale, maxSize, parseFixed rawFixed⟩

/-- `normalizeDnsRuntimeBehavior` refuses a negative stale window (0 = stale answers never expire) -/
def Cfg.accepted (stale : Int) : Bool := decide (0 ≤ stale)

/-- Go map lookup in the `fixedDomainTtl` table -/
def lookupFixed : List (List Char × Int) → List Char → Option Int
  | [], _ => none
  | (k, v) :: rest, h => if k = h then some v else lookupFixed rest h

/-- The TTL that decides `Deadline`: the fixed TTL of the host when one is configured; the table is
asked with the lower-cased host (`rt.fixedDomainTtl[strings.ToLower(host)]`). -/
def effTtl (cfg : Cfg) (host : List Char) (ttl : Int) : Int :=
  match lookupFixed cfg.fixed (host.map lowerAscii) with
  | some f => f
  | none => ttl

/-! ## Entries -/

/-- Ghost record: the insert operation an entry was created by. -/
structure Src where
  t : Int                -- instant of the insert
  key : Key              -- key it was stored under
  host : List Char       -- host string after the trailing dot was removed (what `fixedDomainTtl` is asked)
  qtype : Nat
  ttl : Int              -- TTL given by the caller
  eff : Int              -- TTL used for `Deadline`
deriving DecidableEq, Repr

structure Entry where
  ans : Nat              -- identity of the answer set
  nAns : Nat             -- number of answer records
  ns : Nat               -- other sections: 0 none, 1 an authority record, 2 an authority record whose `Pack` fails,
                         -- 3 an additional (glue) record, 4 authority + additional
  deadline : Int         -- `Deadline`
  orig : Int             -- `OriginalDeadline`
  deadlineNano : Int
  packed : Bool          -- `packedResponse != nil`
  packedTTL : Nat
  packedAt : Int         -- `packedResponseCreatedAt`
  refreshing : Bool
  lastAccess : Int       -- `lastAccessNano`
  id : Nat               -- ghost: identity of this `*DnsCache` object
  src : Src              -- ghost
deriving DecidableEq, Repr

/-- `ttlFromDeadline` -/
def ttlFromDeadline (deadline now : Int) : Nat :=
  if deadline ≤ now then 0 else max 1 ((deadline - now) / SEC).toNat

structure State where
  entries : List (Key × Entry)     -- `dnsCache` (keys are unique)
  nextId : Nat
deriving Repr

def State.empty : State := ⟨[], 0⟩

def find (es : List (Key × Entry)) (k : Key) : Option Entry :=
  match es with
  | [] => none
  | (k', e) :: rest => if k' = k then some e else find rest k

def erase (es : List (Key × Entry)) (k : Key) : List (Key × Entry) := es.filter (fun p => p.1 ≠ k)

/-- `sync.Map.Store` -/
def store (es : List (Key × Entry)) (k : Key) (e : Entry) : List (Key × Entry) := (k, e) :: erase es k

/-! ## Insert (production path) -/

/-- The head of `__updateDnsCacheDeadline`: `(fqdn, host without the trailing dot)`.
`strings.ToLower` is modelled by ASCII lower-casing (names are assumed ASCII). -/
def splitHost (host : List Char) : List Char × List Char :=
  if host.getLast? = some '.' then (host.map lowerAscii, host.dropLast) else (canon host, host)

/-- `NormalizeAndCacheDnsResp_`: the TTL handed to `updateDnsCache`, from the TTLs of the answer
records in the order of the reply: the smallest of them (the loop over `msg.Answer[1:]`), 120 for an
empty answer section, at most one year. -/
def normTtl (ttls : List Nat) : Nat :=
  min (match ttls with
       | [] => 120
       | t :: rest => rest.foldl min t) 31536000

/-- the guard at the top of `NormalizeAndCacheDnsResp_` -/
def cacheable (isResponse : Bool) (nQuestions rcode : Nat) (qclass : Nat := classIN) : Bool :=
  isResponse && nQuestions != 0 && rcode == 0 && qclass == classIN

/-- the key `__updateDnsCacheDeadline` stores under: the caller's, or (`cacheKey == ""`, written `[]`)
the one derived from the lower-cased fqdn -/
def insKey (key : Key) (host : List Char) (qtype : Nat) : Key :=
  if key = [] then cacheKey (splitHost host).1 qtype else key

/-- the entry built by `newCache` + `prepackResponseBeforeStore` with the deadline function of
`UpdateDnsCacheTtl(WithKey)`; `ns = 2` makes `Pack` fail, the entry is then stored unpacked -/
def insEntry (cfg : Cfg) (id : Nat) (now : Int) (key : Key) (host : List Char) (qtype : Nat)
    (ttl : Int) (ans nAns ns : Nat) : Entry :=
  let h := (splitHost host).2
  let eff := effTtl cfg h ttl
  let deadline := now + eff * SEC
  let ok := ns != 2
  { ans := ans, nAns := nAns, ns := ns, deadline := deadline, orig := now + ttl * SEC,
    deadlineNano := deadline,
    packed := ok, packedTTL := if ok then ttlFromDeadline deadline now else 0,
    packedAt := if ok then now else 0,
    refreshing := false, lastAccess := now, id := id,
    src := ⟨now, insKey key host qtype, h, qtype, ttl, eff⟩ }

/-- `__updateDnsCacheDeadline`.  `isIp` is `netip.ParseAddr(host) == nil` (not modelled): such a
host is not cached. -/
def State.insert (cfg : Cfg) (s : State) (now : Int) (key : Key) (host : List Char) (qtype : Nat)
    (ttl : Int) (ans nAns ns : Nat) (isIp : Bool) : State :=
  if isIp then s else
  ⟨store s.entries (insKey key host qtype) (insEntry cfg s.nextId now key host qtype ttl ans nAns ns),
   s.nextId + 1⟩

/-! ## Lookup -/

/-- What a client is handed. -/
structure Served where
  eid : Nat              -- ghost: which entry object answered
  src : Src              -- ghost: the insert it came from
  ans : Nat
  nAns : Nat
  ttl : Nat              -- TTL written into every record of the reply
  visible : Bool         -- the reply has at least one record carrying that TTL
  stale : Bool           -- answered through `GetStaleResponse`
  refresh : Bool         -- `needRefresh`
deriving DecidableEq, Repr

inductive LRes where
  | miss
  | hit (s : Served)
deriving DecidableEq, Repr

/-- the comparison `cachedTTL` vs `currentTTL` of `GetPackedResponseWithApproximateTTL` -/
def withinSlack (cached cur : Nat) : Bool :=
  if cached ≥ cur then cached - cur ≤ SLACK else cur - cached ≤ SLACK

/-- `currentTTL`: whole seconds left on `deadlineNano`, at least 1 -/
def curTtl (e : Entry) (now : Int) : Nat := max 1 ((e.deadlineNano - now) / SEC).toNat

/-- `prepackResponseWithTTL(currentTTL)` after the CAS on `packedResponseCreatedAt` -/
def repack (e : Entry) (now : Int) : Entry :=
  { e with packed := true, packedTTL := curTtl e now, packedAt := now }

/-- what a hit looked like, for examples and reports: (stale, TTL shown, answer id, needRefresh) -/
def LRes.view : LRes → Option (Bool × Nat × Nat × Bool)
  | .miss => none
  | .hit s => some (s.stale, s.ttl, s.ans, s.refresh)

/-- `GetPackedResponseWithApproximateTTL`: the TTL inside the bytes returned (or `none` for `nil`)
and the entry after a possible re-pack.  The re-pack fails iff the authority record cannot be packed
(`ns = 2`); the timestamp is then put back and the bytes stay as they were.  When no re-pack happens
(another goroutine holds it, or it failed) the bytes at hand are returned only if their TTL does not
exceed the current one by more than the slack; otherwise `nil`, and the caller answers with the
exact TTL. -/
def packedApprox (e : Entry) (now : Int) : Option Nat × Entry :=
  if e.deadlineNano ≤ now then (none, e)
  else if e.packed ∧ withinSlack e.packedTTL (curTtl e now) then (some e.packedTTL, e)
  else if now - e.packedAt > SEC ∧ e.ns ≠ 2 then (some (curTtl e now), repack e now)
  else (if e.packed ∧ ¬ (e.packedTTL > curTtl e now ∧ e.packedTTL - curTtl e now > SLACK) then some e.packedTTL
        else none, e)

/-- `GetStaleResponse` -/
def staleResp (e : Entry) (now : Int) (staleTtl : Int) : Option Nat :=
  if e.deadlineNano > now then none
  else if staleTtl > 0 ∧ now > e.deadlineNano + staleTtl * SEC then none
  else if e.packed then some e.packedTTL else none

/-- `cache.lastAccessNano.Store(now.UnixNano())` -/
def touch (e : Entry) (now : Int) : Entry := { e with lastAccess := now }

/-- the deadline `LookupDnsRespCache_` tests: `OriginalDeadline` when `ignoreFixedTtl` -/
def lookupDeadline (ign : Bool) (e : Entry) : Int := if ign then e.orig else e.deadline

/-- the pre-packed bytes hold at least one record that carries the TTL (answer, authority or
additional section) -/
def packedVisible (e : Entry) : Bool := e.nAns > 0 || (e.ns != 0 && e.ns != 2)

def freshServed (e : Entry) (ttl : Nat) (visible : Bool) : Served :=
  ⟨e.id, e.src, e.ans, e.nAns, ttl, visible, false, false⟩

/-- `LookupDnsRespCache_` on the entry found under the key: `none` as first component = evicted. -/
def lookupEntry (cfg : Cfg) (now : Int) (ign : Bool) (e0 : Entry) : Option Entry × LRes :=
  let e := touch e0 now
  if lookupDeadline ign e > now then
    match (packedApprox e now).1 with
    | some ttl => (some (packedApprox e now).2, .hit (freshServed e ttl (packedVisible e)))
    | none =>
      -- fillIntoWithTTLInPlace: answers only, exact remaining TTL of `Deadline`
      (some (packedApprox e now).2, .hit (freshServed e (ttlFromDeadline e.deadline now) (e.nAns > 0)))
  else if cfg.optimistic then
    match staleResp e now cfg.staleTtl with
    | some ttl =>
      (some { e with refreshing := true },
        .hit ⟨e.id, e.src, e.ans, e.nAns, ttl, packedVisible e, true, !e.refreshing⟩)
    | none => (none, .miss)
  else (none, .miss)

def State.lookup (cfg : Cfg) (s : State) (now : Int) (key : Key) (ign : Bool) : State × LRes :=
  match find s.entries key with
  | none => (s, .miss)
  | some e0 =>
    match lookupEntry cfg now ign e0 with
    | (some e', r) => (⟨store s.entries key e', s.nextId⟩, r)
    | (none, r) => (⟨erase s.entries key, s.nextId⟩, r)

/-! ## Janitor -/

/-- the instant up to which the janitor keeps an entry -/
def effDeadline (cfg : Cfg) (e : Entry) : Int :=
  if cfg.optimistic ∧ cfg.staleTtl > 0 then e.deadline + cfg.staleTtl * SEC else e.deadline

def useTimeEviction (cfg : Cfg) : Bool := cfg.staleTtl > 0 ∨ (cfg.staleTtl = 0 ∧ cfg.maxSize = 0)

/-- step 1 of `evictExpiredDnsCache` -/
def timeEvict (cfg : Cfg) (now : Int) (es : List (Key × Entry)) : List (Key × Entry) :=
  if useTimeEviction cfg then es.filter (fun p => effDeadline cfg p.2 > now) else es

/-! ### the heap selection of `evictLRUIfFull` -/

abbrev HItem := Key × Int      -- `cacheEntry{key, lastAccess}`

def swapL (l : List HItem) (i j : Nat) : List HItem :=
  match l[i]?, l[j]? with
  | some a, some b => (l.set i b).set j a
  | _, _ => l

def la (l : List HItem) (i : Nat) : Int := (l[i]?.map (·.2)).getD 0

/-- `heapifyMin(entries, i, n)`; `fuel` bounds the loop (`n` is always enough). -/
def heapifyMin (l : List HItem) (i n : Nat) : Nat → List HItem
  | 0 => l
  | fuel + 1 =>
    let left := 2 * i + 1
    let right := 2 * i + 2
    let s1 := if left < n ∧ la l left < la l i then left else i
    let s2 := if right < n ∧ la l right < la l s1 then right else s1
    if s2 = i then l else heapifyMin (swapL l i s2) s2 n fuel

/-- the loop `for i := n/2 - 1; i >= 0; i--` of `buildMinHeap`, counting `i + 1` down to 0 -/
def buildFrom (l : List HItem) (n : Nat) : Nat → List HItem
  | 0 => l
  | i + 1 => buildFrom (heapifyMin l i n n) n i

def buildMinHeap (l : List HItem) : List HItem := buildFrom l l.length (l.length / 2)

/-- the extraction loop: `j` counts the iterations already done -/
def extractLoop (l : List HItem) (j : Nat) : Nat → List HItem
  | 0 => l
  | todo + 1 =>
    let last := l.length - 1 - j
    let l1 := swapL l 0 last
    extractLoop (heapifyMin l1 0 last last) (j + 1) todo

/-- the keys `evictLRUIfFull` evicts when it collected `items` and must evict `k` of them -/
def heapChoice (items : List HItem) (k : Nat) : List Key :=
  if k < items.length then
    ((extractLoop (buildMinHeap items) 0 k).drop (items.length - k)).map (·.1)
  else items.map (·.1)

/-- A legal outcome of `evictLRUIfFull`: `k` distinct stored keys, none of them used more recently
than any survivor.  (Which of several equally old entries goes depends on the iteration order of
`sync.Map`.) -/
def validChoice (es : List (Key × Entry)) (k : Nat) (ch : List Key) : Bool :=
  ch.length == k && ch.Nodup && ch.all (fun c => (find es c).isSome) &&
  ch.all (fun c => es.all (fun p => ch.contains p.1 || decide (((find es c).map (·.lastAccess)).getD 0 ≤ p.2.lastAccess)))

def lruItems (es : List (Key × Entry)) : List HItem := es.map (fun p => (p.1, p.2.lastAccess))

/-- `evictLRUIfFull`, following the implementation's `choice` when it is a legal one. -/
def lruEvict (cfg : Cfg) (es : List (Key × Entry)) (choice : List Key) : List (Key × Entry) :=
  if cfg.maxSize > 0 ∧ (es.length : Int) > cfg.maxSize then
    let k := es.length - cfg.maxSize.toNat
    let ch := if validChoice es k choice then choice else heapChoice (lruItems es) k
    es.filter (fun p => !ch.contains p.1)
  else es

/-- `evictExpiredDnsCache(now)`.  `choice` = the keys the implementation removed (any list). -/
def State.janitor (cfg : Cfg) (s : State) (now : Int) (choice : List Key) : State :=
  let es1 := timeEvict cfg now s.entries
  let ch := choice.filter (fun c => (find es1 c).isSome)
  ⟨lruEvict cfg es1 ch, s.nextId⟩

/-! ## Reload, refresh clean-up, removal -/

/-- `DnsCache.CloneForReload` (the zero `time.Time` does not occur) -/
def cloneForReload (e : Entry) (id : Nat) : Entry :=
  { e with
    packedTTL := if e.packed then e.packedTTL else 0
    packedAt := if e.packed then e.packedAt else 0
    deadlineNano := if e.deadlineNano = 0 then e.deadline else e.deadlineNano
    refreshing := false
    id := id }

def cloneAll : List (Key × Entry) → Nat → List (Key × Entry)
  | [], _ => []
  | (k, e) :: rest, id => (k, cloneForReload e id) :: cloneAll rest (id + 1)

/-- `CloneCacheForReload` on the old controller + `RestoreReloadCache` on a new, empty one. -/
def State.reload (s : State) : State := ⟨cloneAll s.entries s.nextId, s.nextId + s.entries.length⟩

/-- the deferred clean-up of `backgroundRefresh` (a refresh of `key` ended, with or without a new
answer): the entry stored under the key is loaded as it is and `MarkRefreshed` releases its latch.
Nothing is evicted. -/
def State.refreshDone (s : State) (key : Key) : State :=
  match find s.entries key with
  | none => s
  | some e => if e.refreshing then ⟨store s.entries key { e with refreshing := false }, s.nextId⟩ else s

/-- `RemoveDnsRespCache` -/
def State.remove (s : State) (key : Key) : State := ⟨erase s.entries key, s.nextId⟩

/-- `RemoveDnsRespCacheFamily` -/
def State.removeFamily (s : State) (base : Key) : State :=
  if base = [] then s else ⟨s.entries.filter (fun p => baseKey p.1 ≠ base), s.nextId⟩

/-! ## Histories -/

inductive Op where
  | insert (now : Int) (key : Key) (host : List Char) (qtype : Nat) (ttl : Int) (ans nAns ns : Nat) (isIp : Bool)
  | lookup (now : Int) (key : Key) (ign : Bool)
  | janitor (now : Int) (choice : List Key)
  | reload (cfg : Cfg)            -- new generation with its own configuration, cache cloned
  | reconf (cfg : Cfg)            -- `ReuseForReload`: same store, new configuration
  | refreshDone (now : Int) (key : Key)
  | remove (key : Key)
  | removeFamily (base : Key)
deriving Repr

/-- the instant of an operation (`none` for the untimed ones) -/
def Op.time : Op → Option Int
  | .insert now .. => some now
  | .lookup now .. => some now
  | .janitor now .. => some now
  | .refreshDone now .. => some now
  | _ => none

structure World where
  cfg : Cfg
  st : State

def step (w : World) : Op → World × LRes
  | .insert now key host qtype ttl ans nAns ns isIp =>
    (⟨w.cfg, w.st.insert w.cfg now key host qtype ttl ans nAns ns isIp⟩, .miss)
  | .lookup now key ign =>
    let (s, r) := w.st.lookup w.cfg now key ign
    (⟨w.cfg, s⟩, r)
  | .janitor now choice => (⟨w.cfg, w.st.janitor w.cfg now choice⟩, .miss)
  | .reload cfg => (⟨cfg, w.st.reload⟩, .miss)
  | .reconf cfg => (⟨cfg, w.st⟩, .miss)
  | .refreshDone _ key => (⟨w.cfg, w.st.refreshDone key⟩, .miss)
  | .remove key => (⟨w.cfg, w.st.remove key⟩, .miss)
  | .removeFamily base => (⟨w.cfg, w.st.removeFamily base⟩, .miss)

/-- Run a history; returns the final world and what every operation answered. -/
def run (w : World) : List Op → World × List LRes
  | [] => (w, [])
  | op :: ops =>
    let (w1, r) := step w op
    let (w2, rs) := run w1 ops
    (w2, r :: rs)

/-! ## A whole request (`HandleWithResponseWriter_`) as a piece of history -/

/-- what the upstream side does with a forwarded question.  Every exchange with an upstream takes one
second; `hops` of them happen (response routing may send the question on to another upstream:
`dialSend` calls itself), the last one yields the reply — or fails (`fail`: the dial / the exchange
returns an error). -/
structure Reply where
  ttls : List Nat        -- TTLs of the answer records, in the order of the reply
  ans : Nat
  ns : Nat
  rcode : Nat
  fail : Bool := false
  hops : Nat := 1
deriving Repr

/-- The operations one request expands to, given the world it arrives in: derive the key from the
question (name, type, class) and the route.
* Route `reject`: the whole family of the question (every scope) is purged, nothing is looked up.
* Otherwise look the key up.  Fresh or latched-stale hit: nothing else.
  Stale hit with `needRefresh`: `go backgroundRefresh` — after the upstream exchange(s) the reply is
  stored under the same key (if there is one and it is cacheable) and the clean-up runs, reply or not.
  Miss: the request is forwarded; if the exchange fails the caller gets the error and nothing else
  happens; otherwise the reply is stored (if cacheable) and the key is looked up once more (the caller
  drops that lookup's `needRefresh`). -/
def askOps (w : World) (t : Int) (name : List Char) (qtype qclass : Nat) (r : Route) (rep : Reply)
    (g : Nat := 1) : List Op :=
  if r = .reject then [.removeFamily (questionKey name qtype qclass)] else
  let key := requestKey name qtype qclass r
  let t1 := t + rep.hops * SEC
  let store : List Op :=
    if !rep.fail && cacheable true 1 rep.rcode qclass then
      [.insert t1 key (fqdn name) qtype (normTtl rep.ttls) rep.ans rep.ttls.length rep.ns false]
    else []
  let first : List Op := List.replicate g (.lookup t key false)
  match (step w (.lookup t key false)).2 with
  | .hit s => if s.refresh then first ++ (store ++ [.refreshDone t1 key]) else first
  | .miss => first ++ (store ++ (if rep.fail then [] else List.replicate g (.lookup t1 key false)))

/-- the request(s), executed: final world and the answers of the operations they consisted of.
`g` identical requests arriving at the same instant are coalesced by the singleflight group: one
upstream exchange, one store, and every one of them looks the key up again afterwards. -/
def World.ask (w : World) (t : Int) (name : List Char) (qtype qclass : Nat) (r : Route) (rep : Reply)
    (g : Nat := 1) : World × List LRes :=
  run w (askOps w t name qtype qclass r rep g)

/-- times never go backwards along a history that starts at `t0` -/
def Mono (t0 : Int) : List Op → Prop
  | [] => True
  | op :: ops =>
    match op.time with
    | some t => t0 ≤ t ∧ Mono t ops
    | none => Mono t0 ops

end DaeVerif.C08
