import DaeVerif.C08.Model
import DaeVerif.C08.Conc
import DaeVerif.Common.Proto
/-!
Line-protocol driver for C08 (see harness/overlay/control/c08_test.go for the op grammar).
Every line is `verb k=v k=v …`; strings are hex encoded.  The driver keeps one `World`
(configuration + cache state) and answers each line with what the model does.
-/
open DaeVerif DaeVerif.C08 DaeVerif.Proto

def kv (toks : List String) (k : String) : Option String :=
  toks.findSome? fun t =>
    match t.splitOn "=" with
    | [a, b] => if a = k then some b else none
    | _ => none

def intOf (s : String) : Option Int := s.toInt?
def natOf (s : String) : Option Nat := s.toNat?

def unhex (s : String) : Option (List Char) :=
  if s = "-" then some [] else (hexToBytes? s).map fun bs => bs.map Char.ofNat

def hexOf (cs : List Char) : String := if cs.isEmpty then "-" else bytesToHex (cs.map Char.toNat)

def unhexList (s : String) : Option (List (List Char)) :=
  if s = "-" then some [] else (s.splitOn ",").mapM unhex

def natList (s : String) : Option (List Nat) :=
  if s = "-" then some [] else (s.splitOn ",").mapM natOf

def parseFixed (s : String) : Option (List (List Char × Int)) :=
  if s = "-" then some [] else
  (s.splitOn ",").mapM fun item =>
    match item.splitOn ":" with
    | [h, v] => do let hh ← unhex h; let vv ← intOf v; pure (hh, vv)
    | _ => none

def parseCfg (toks : List String) : Option Cfg := do
  let opt ← kv toks "opt"
  let stale ← (kv toks "stale").bind intOf
  let mx ← (kv toks "max").bind intOf
  let fixed ← (kv toks "fixed").bind parseFixed
  pure (Cfg.normalize (opt = "1") stale mx fixed)

def cfgStr (c : Cfg) : String := s!"opt={boolStr c.optimistic} stale={c.staleTtl} max={c.maxSize}"

def sortStrs (l : List String) : List String := l.mergeSort (fun a b => !(b < a))

def keysStr (ks : List Key) : String :=
  let l := sortStrs (ks.map hexOf)
  if l.isEmpty then "-" else ",".intercalate l

def resStr : LRes → String
  | .miss => "miss"
  | .hit s =>
    let a := if s.nAns > 0 then toString s.ans else "-"
    let t := if s.visible then toString s.ttl else "-"
    s!"hit ans={a} n={s.nAns} ttl={t} rf={boolStr s.refresh}"

def parseRoute (kind detail : String) : Option Route :=
  match kind with
  | "asis" => some (.asIs none)
  | "asisdst" => (unhex detail).map fun d => .asIs (some d)
  | "reject" => some .reject
  | "up" => (unhex detail).map .upstream
  | "idx" => (natOf detail).map .index
  | "none" => some .none
  | _ => none

def itemsStr (l : List HItem) : String :=
  " ".intercalate (l.map fun p => s!"{String.ofList p.1}:{p.2}")

def parseItems (toks : List String) : Option (List HItem) :=
  toks.mapM fun t =>
    match t.splitOn ":" with
    | [k, v] => (intOf v).map fun x => (k.toList, x)
    | _ => none

def initWorld : World := ⟨Cfg.normalize false 0 0 [], State.empty⟩

/-- which branch of `LookupDnsRespCache_` / `GetPackedResponseWithApproximateTTL` / `GetStaleResponse`
a lookup takes (coverage report only) -/
def lookupBranch (cfg : Cfg) (now : Int) (ign : Bool) (e : Entry) : String :=
  let deadline := if ign then e.orig else e.deadline
  if deadline > now then
    if e.deadlineNano ≤ now then "fresh.fallback_packed_path_expired"
    else
      let cur : Nat := curTtl e now
      if e.packed ∧ withinSlack e.packedTTL cur then
        (if e.packedTTL = cur then "fresh.packed_exact" else
          if e.packedTTL - cur = SLACK then "fresh.packed_slack_exactly_15" else "fresh.packed_within_slack")
      else if now - e.packedAt > SEC ∧ e.ns ≠ 2 then "fresh.repacked"
      else if e.packed then "fresh.packed_repack_guard_1s" else "fresh.fallback_unpackable"
  else if cfg.optimistic then
    match staleResp e now cfg.staleTtl with
    | some _ => if e.refreshing then "stale.refresh_already_in_flight" else "stale.first_triggers_refresh"
    | none =>
      if e.deadlineNano > now then "expired.evict_origdeadline_only"
      else if e.packed then "expired.evict_beyond_window" else "expired.evict_unpackable"
  else "expired.evict_not_optimistic"

abbrev Cov := List (String × Nat)

def Cov.inc (c : Cov) (k : String) (n : Nat := 1) : Cov :=
  if c.any (·.1 = k) then c.map fun p => if p.1 = k then (p.1, p.2 + n) else p else c ++ [(k, n)]

def covOf (w : World) (line : String) : Cov → Cov := fun c =>
  match words line with
  | "look" :: toks =>
    match (kv toks "t").bind intOf, (kv toks "key").bind unhex, kv toks "ign" with
    | some t, some k, some ign =>
      match find w.st.entries k with
      | some e => c.inc (lookupBranch w.cfg t (ign = "1") e)
      | none => c.inc "miss.absent"
    | _, _, _ => c
  | "jan" :: toks =>
    match (kv toks "t").bind intOf, (kv toks "ev").bind unhexList with
    | some t, some ev =>
      let es1 := timeEvict w.cfg t w.st.entries
      let c := c.inc "jan.time_evicted" (w.st.entries.length - es1.length)
      let ch := ev.filter fun k => (find es1 k).isSome
      if w.cfg.maxSize > 0 ∧ (es1.length : Int) > w.cfg.maxSize then
        let k := es1.length - w.cfg.maxSize.toNat
        let c := c.inc "jan.lru_evicted" k
        let c := c.inc (if validChoice es1 k ch then "jan.lru_choice_legal" else "jan.lru_choice_ILLEGAL")
        if ch.toArray.qsort (· < ·) == ((heapChoice (lruItems es1) k).toArray.qsort (· < ·)) then c.inc "jan.lru_choice_same_as_model_order" else c.inc "jan.lru_choice_tie_broken_differently"
      else c.inc "jan.no_lru"
    | _, _ => c
  | _ => c

def handle (w : World) (line : String) : World × String :=
  match words line with
  | "cfg" :: toks =>
    match parseCfg toks with
    | some c => (⟨c, State.empty⟩, "cfg " ++ cfgStr c)
    | none => (w, "bad-op")
  | "cfgtry" :: toks =>
    -- would NewDnsController take this configuration?  (the world is not touched)
    match (kv toks "stale").bind intOf, parseCfg toks with
    | some stale, some c => (w, if Cfg.accepted stale then "cfg " ++ cfgStr c else "cfg rejected")
    | _, _ => (w, "bad-op")
  | "reload" :: toks =>
    match parseCfg toks with
    | some c => let (w', _) := step w (.reload c); (w', s!"reload {cfgStr c} n={w'.st.entries.length}")
    | none => (w, "bad-op")
  | "reconf" :: toks =>
    match parseCfg toks with
    | some c => let (w', _) := step w (.reconf c); (w', "reconf " ++ cfgStr c)
    | none => (w, "bad-op")
  | "key" :: toks =>
    match (kv toks "name").bind unhex, (kv toks "qtype").bind natOf, kv toks "route", kv toks "detail" with
    | some n, some q, some kind, some d =>
      match parseRoute kind d with
      | some r =>
        let cls := ((kv toks "class").bind natOf).getD 1
        let k := requestKey n q cls r; (w, s!"key={hexOf k} base={hexOf (baseKey k)}")
      | none => (w, "bad-op")
    | _, _, _, _ => (w, "bad-op")
  | "ins" :: toks =>
    match (kv toks "t").bind intOf, (kv toks "key").bind unhex, (kv toks "host").bind unhex,
          (kv toks "qtype").bind natOf, (kv toks "ttl").bind intOf, (kv toks "ans").bind natOf,
          (kv toks "n").bind natOf, (kv toks "ns").bind natOf, kv toks "ip" with
    | some t, some k, some h, some q, some ttl, some a, some n, some ns, some ip =>
      -- cb=1: the CacheAccessCallback fails after the entry was published: the caller gets the error,
      -- the cache has the entry
      let (w', _) := step w (.insert t k h q ttl a n ns (ip = "1"))
      (w', if (kv toks "cb") = some "1" && ip != "1" then "err" else "ok")
    | _, _, _, _, _, _, _, _, _ => (w, "bad-op")
  | "insn" :: toks =>
    -- NormalizeAndCacheDnsResp_: resp/rcode/class guard, smallest answer TTL (120 when empty), clamp
    match (kv toks "t").bind intOf, (kv toks "key").bind unhex, (kv toks "host").bind unhex,
          (kv toks "qtype").bind natOf, (kv toks "ttls").bind natList, (kv toks "ans").bind natOf,
          (kv toks "ns").bind natOf, (kv toks "rcode").bind natOf, kv toks "ip" with
    | some t, some k, some h, some q, some ttls, some a, some ns, some rc, some ip =>
      let resp := (kv toks "resp").getD "1" = "1"
      let nq := ((kv toks "nq").bind natOf).getD 1
      let cls := ((kv toks "class").bind natOf).getD 1
      if cacheable resp nq rc cls then
        let (w', _) := step w (.insert t k h q (normTtl ttls) a ttls.length ns (ip = "1")); (w', "ok")
      else (w, "ok")
    | _, _, _, _, _, _, _, _, _ => (w, "bad-op")
  | "ask" :: toks =>
    -- a whole request through HandleWithResponseWriter_: `World.ask`
    match (kv toks "t").bind intOf, (kv toks "name").bind unhex, (kv toks "qtype").bind natOf,
          kv toks "route", kv toks "detail", (kv toks "ttls").bind natList, (kv toks "ans").bind natOf,
          (kv toks "ns").bind natOf, (kv toks "rcode").bind natOf with
    | some t, some name, some q, some kind, some detail, some ttls, some a, some ns, some rc =>
      match parseRoute kind detail with
      | none => (w, "bad-op")
      | some route =>
      let cls := ((kv toks "class").bind natOf).getD 1
      let g := ((kv toks "g").bind natOf).getD 1
      let fail := (kv toks "fail").getD "0" = "1"
      let hops := ((kv toks "hops").bind natOf).getD 1
      let (w', outs) := w.ask t name q cls route ⟨ttls, a, ns, rc, fail, hops⟩ g
      let showHit (s : Served) : String :=
        let an := if s.nAns > 0 then toString s.ans else "-"
        let tt := if s.visible then toString s.ttl else "-"
        s!"rcode=0 ans={an} n={s.nAns} ttl={tt}"
      -- wfail: the reply cannot be written to the client (everything else happens all the same)
      let wfail := (kv toks "wfail").getD "0" = "1"
      let reply (r : String) : String := if wfail then "err=1" else r
      if route = .reject then (w', "ask lat=0 fw=0 " ++ reply "rcode=0 ans=- n=0 ttl=-") else
      match outs.head?, outs.getLast? with
      | some (.hit s), _ =>
        -- g simultaneous hits: the same bytes for all; at most the first is told to refresh
        (w', s!"ask lat=0 fw={if s.refresh then hops else 0} {reply (showHit s)}")
      | some .miss, some (.hit s) =>
        if fail then (w', s!"ask lat={hops * SEC} fw={hops} err=1") else (w', s!"ask lat={hops * SEC} fw={hops} {reply (showHit s)}")
      | _, _ =>
        if fail then (w', s!"ask lat={hops * SEC} fw={hops} err=1") else
        -- the upstream's own message goes out
        let an := if ttls.length > 0 then toString a else "-"
        (w', s!"ask lat={hops * SEC} fw={hops} {reply s!"rcode={rc} ans={an} n={ttls.length} ttl=up"}")
    | _, _, _, _, _, _, _, _, _ => (w, "bad-op")
  | "look" :: toks =>
    match (kv toks "t").bind intOf, (kv toks "key").bind unhex, kv toks "ign" with
    | some t, some k, some ign => let (w', r) := step w (.lookup t k (ign = "1")); (w', resStr r)
    | _, _, _ => (w, "bad-op")
  | "clookttl" :: toks =>
    match (kv toks "t").bind intOf, (kv toks "key").bind unhex, (kv toks "g").bind natOf with
    | some t, some k, some g =>
      let (w', rs) := run w (List.replicate g (.lookup t k false))
      let ttlOf (r : LRes) : Int :=
        match r with
        | .hit s => if s.nAns > 0 then Int.ofNat s.ttl else -1
        | .miss => -1
      let ttls : List Int := rs.map ttlOf
      (w', s!"minttl={ttls.foldl min (ttls.headD 0)} maxttl={ttls.foldl max (ttls.headD 0)}")
    | _, _, _ => (w, "bad-op")
  | "clook" :: toks =>
    -- g concurrent lookups at the same instant = g lookups in some order
    match (kv toks "t").bind intOf, (kv toks "key").bind unhex, (kv toks "g").bind natOf with
    | some t, some k, some g =>
      let (w', rs) := run w (List.replicate g (.lookup t k false))
      let hits := rs.filterMap fun r => match r with | .hit s => some s | .miss => none
      let rf := (hits.filter (·.refresh)).length
      (w', s!"hits={hits.length} rf={rf}")
    | _, _, _ => (w, "bad-op")
  | "jan" :: toks =>
    match (kv toks "t").bind intOf, (kv toks "ev").bind unhexList with
    | some t, some ev =>
      let (w', _) := step w (.janitor t ev)
      let gone := (w.st.entries.map (·.1)).filter fun k => (find w'.st.entries k).isNone
      (w', "ev=" ++ keysStr gone)
    | _, _ => (w, "bad-op")
  | "rdone" :: toks =>
    match (kv toks "t").bind intOf, (kv toks "key").bind unhex with
    | some t, some k => let (w', _) := step w (.refreshDone t k); (w', "ok")
    | _, _ => (w, "bad-op")
  | "rm" :: toks =>
    match (kv toks "key").bind unhex with
    | some k => let (w', _) := step w (.remove k); (w', "ok")
    | none => (w, "bad-op")
  | "rmfam" :: toks =>
    match (kv toks "base").bind unhex with
    | some b => let (w', _) := step w (.removeFamily b); (w', "ok")
    | none => (w, "bad-op")
  | "hammer" :: _ =>
    -- self-contained: an entry that expired before it was stored, unbounded stale window; first lookup
    -- latches it; then 50 times: release the latch (`refreshDone`), three lookups — by
    -- `refresh_only_when_none_in_flight` exactly one of them asks for a refresh.  The world is unchanged.
    let c := Cfg.normalize true 0 1 []
    let k : Key := ['h']
    let (w0, _) := run ⟨c, State.empty⟩ [.insert 1000 k ['h'] 1 (-1000) 77 1 0 false, .lookup 1000 k false]
    let round (acc : World × Nat) : World × Nat :=
      let (w1, _) := step acc.1 (.refreshDone 1000 k)
      let (w2, rs) := run w1 (List.replicate 3 (.lookup 1000 k false))
      let n := (rs.filter fun r => match r with | .hit s => s.refresh | .miss => false).length
      (w2, if n = 1 then acc.2 else acc.2 + 1)
    let (_, bad) := (List.range 50).foldl (fun acc _ => round acc) (w0, 0)
    (w, s!"hammer extra_refresh_requests={bad}")
  | "evicthammer" :: _ =>
    -- by `eviction_removes_only_the_expired_object_it_examined`: an eviction removes the object it judged
    -- expired, never the fresh answer stored in the meantime
    (w, "evicthammer lost_fresh_answers=0")
  | "biglru" :: toks =>
    -- n entries used at n distinct instants, limit `max`: by `janitor_evicts_least_recently_used`
    -- exactly `max` remain and they are the `max` most recently used ones
    match (kv toks "max").bind natOf with
    | some mx => (w, s!"biglru left={mx} wrongly_kept_or_evicted=0")
    | none => (w, "bad-op")
  | "note" :: _ => (w, "note")
  | ["keys"] => (w, "keys=" ++ keysStr (w.st.entries.map (·.1)))
  | "heap" :: toks =>
    match parseItems toks with
    | some l => (w, "h=" ++ itemsStr (buildMinHeap l))
    | none => (w, "bad-op")
  | "sift" :: i :: n :: toks =>
    match natOf i, natOf n, parseItems toks with
    | some i, some n, some l => (w, "h=" ++ itemsStr (heapifyMin l i n n))
    | _, _, _ => (w, "bad-op")
  | "select" :: k :: toks =>
    match natOf k, parseItems toks with
    | some k, some l => (w, "sel=" ++ " ".intercalate ((heapChoice l k).map String.ofList))
    | _, _ => (w, "bad-op")
  | _ => (w, "bad-op")

/-! ### schedule replay of the transition system of `Conc.lean` (stream `c08sched`) -/

open DaeVerif.C08.Conc in
def threadStr : Thread → String
  | .lookup .. => "start"
  | .lookupLoaded .. => "loaded"
  | .lookupSawUnlatched .. => "sawunlatched"
  | .lookupDone none => "done:miss"
  | .lookupDone (some (o, _, rf)) => s!"done:hit:{o.2.ans}:{boolStr rf}"
  | .insert _ => "start"
  | .insertDone => "done"
  | .rdone => "start"
  | .rdoneLoaded _ => "loaded"
  | .rdoneSawTrue _ => "sawtrue"
  | .rdoneDone => "done"
  | .janitor _ => "start"
  | .janitorLoaded .. => "loaded"
  | .janitorDone => "done"

open DaeVerif.C08.Conc in
/-- `L` lookup, `I:<ttl>:<ans>` insert, `R` refresh clean-up, `J` janitor pass; every clock reads 0 -/
def parseThread (cfg : Cfg) (spec : String) : Option Thread :=
  match spec.splitOn ":" with
  | ["L"] => some (.lookup 0 false)
  | ["R"] => some .rdone
  | ["J"] => some (.janitor 0)
  | ["I", ttl, ans] => do
    let t ← intOf ttl
    let a ← natOf ans
    pure (.insert (insEntry cfg 0 0 ['k'] ['k'] 1 t a 1 0))
  | _ => none

open DaeVerif.C08.Conc in
def memStr (m : Mem) : String :=
  match m.slot with
  | none => "slot=- flag=-"
  | some o => s!"slot={o.2.ans} flag={boolStr (m.flag.contains o.1)}"

open DaeVerif.C08.Conc in
def handleConc (st : Option (Cfg × Sys)) (line : String) : Option (Cfg × Sys) × String :=
  match words line with
  | "cinit" :: toks =>
    match parseCfg toks, kv toks "th" with
    | some cfg, some th =>
      match (th.splitOn ",").mapM (parseThread cfg) with
      | some ths => (some (cfg, ⟨Mem.empty, ths⟩), s!"cinit n={ths.length}")
      | none => (st, "bad-op")
    | _, _ => (st, "bad-op")
  | ["cstep", i] =>
    match st, natOf i with
    | some (cfg, sys), some i =>
      let sys' := sysStep Variant.real cfg sys i
      let ts := match sys'.threads[i]? with | some th => threadStr th | none => "no-such-thread"
      (some (cfg, sys'), s!"t={i} at={ts} {memStr sys'.mem}")
    | _, _ => (st, "bad-op")
  | _ => (st, "bad-op")

structure DrvState where
  w : World
  cov : Cov
  conc : Option (Cfg × DaeVerif.C08.Conc.Sys)

def handleAll (s : DrvState) (line : String) : DrvState × String :=
  if line.startsWith "cinit" || line.startsWith "cstep" then
    let (c, out) := handleConc s.conc line
    ({ s with conc := c }, out)
  else if line = "cov" then
    (s, "cov " ++ " ".intercalate (s.cov.map fun p => s!"{p.1}={p.2}"))
  else
    let c := covOf s.w line s.cov
    let (w, out) := handle s.w line
    ({ s with w := w, cov := c }, out)

def main : IO Unit := lineLoopS (⟨initWorld, [], none⟩ : DrvState) handleAll
