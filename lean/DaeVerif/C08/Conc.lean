import DaeVerif.C08.Model
/-!
# C08 — the concurrent part, as a transition system over shared memory

`Model.lean` treats one `LookupDnsRespCache_` call as one atomic step.  The real function touches the
shared store in two separate atomic actions — `sync.Map.Load` of the entry, then **one** of
`refreshing.CompareAndSwap(false, true)` (stale hit) / `CompareAndDelete(key, entry)` (eviction) — and
other goroutines (inserts, the clean-up of a background refresh, the janitor, other lookups) run in
between.  This file models exactly those shared-memory actions for one cache key, every thread with
its own clock reading, and lets a *schedule* (any list of thread indices) interleave them.

What is shared: the map slot of the key (`slot`: the object stored, `none` when absent) and the
`refreshing` flag of every entry object (`flag`).  Everything else `LookupDnsRespCache_` reads to decide
(deadlines, `deadlineNano`, whether packed bytes exist) is immutable once the object is published, so
the decision is a pure function of the loaded object: `verdict`.

`Variant` switches the two read-modify-write operations to their non-atomic look-alikes
(`Delete` instead of `CompareAndDelete`; `Load`+`Store` instead of `CompareAndSwap`): the theorems are
about `Variant.real`, the examples show that they fail for the look-alikes.
-/
namespace DaeVerif.C08.Conc
open DaeVerif.C08

/-- what `LookupDnsRespCache_` does with the entry it loaded -/
inductive Verdict where
  | fresh      -- answered from the entry, no refresh
  | stale      -- answered from the entry (`GetStaleResponse`), refresh requested iff the CAS succeeds
  | evict      -- `evictDnsRespCacheIfSame`, miss
deriving DecidableEq, Repr

def verdict (cfg : Cfg) (now : Int) (ign : Bool) (e : Entry) : Verdict :=
  if lookupDeadline ign e > now then .fresh
  else if cfg.optimistic ∧ (staleResp e now cfg.staleTtl).isSome then .stale
  else .evict

/-- an entry object: its identity and its immutable content -/
abbrev Obj := Nat × Entry

structure Variant where
  cad : Bool      -- eviction is `CompareAndDelete(key, loaded)` (false: `Delete(key)`)
  cas : Bool      -- the latch is taken by `CompareAndSwap(false, true)` (false: `Load`, then `Store(true)`)

def Variant.real : Variant := ⟨true, true⟩

/-- why an object left the slot -/
structure Eviction where
  removed : Obj         -- the object that was in the slot and is gone
  examined : Obj        -- the object the evicting thread had loaded and judged
  now : Int             -- that thread's clock reading
  ign : Bool
  byJanitor : Bool
deriving Repr

structure Mem where
  slot : Option Obj
  flag : List Nat               -- ids of the objects whose `refreshing` is true
  nextId : Nat
  -- ghost
  created : List Obj            -- every object ever stored
  grants : List Nat             -- one occurrence per lookup that returned `needRefresh = true`
  releases : List Nat           -- one occurrence per executed `MarkRefreshed`
  evictions : List Eviction
deriving Repr

def Mem.empty : Mem := ⟨none, [], 0, [], [], [], []⟩

/-- result of a lookup thread: the object it answered from, stale?, needRefresh? -/
abbrev LookupResult := Option (Obj × Bool × Bool)

inductive Thread where
  /-- `LookupDnsRespCache_` -/
  | lookup (now : Int) (ign : Bool)
  | lookupLoaded (now : Int) (ign : Bool) (o : Obj)
  | lookupSawUnlatched (now : Int) (ign : Bool) (o : Obj)   -- only without CAS: flag read as false, store pending
  | lookupDone (r : LookupResult)
  /-- `__updateDnsCacheDeadline`: `dnsCache.Store(key, newCache)` -/
  | insert (e : Entry)
  | insertDone
  /-- the deferred clean-up of `backgroundRefresh` -/
  | rdone
  | rdoneLoaded (o : Obj)
  | rdoneSawTrue (o : Obj)
  | rdoneDone
  /-- the time step of `evictExpiredDnsCache` on this key -/
  | janitor (now : Int)
  | janitorLoaded (now : Int) (o : Obj)
  | janitorDone
deriving Repr

/-- remove whatever is in the slot if (`cad`) it is the object `o` / unconditionally -/
def evictSlot (v : Variant) (m : Mem) (o : Obj) (now : Int) (ign byJ : Bool) : Mem :=
  match m.slot with
  | none => m
  | some cur =>
    if v.cad = false ∨ cur.1 = o.1 then
      { m with slot := none, evictions := ⟨cur, o, now, ign, byJ⟩ :: m.evictions }
    else m

/-- one shared-memory action of a thread -/
def stepThread (v : Variant) (cfg : Cfg) (m : Mem) : Thread → Mem × Thread
  | .lookup now ign =>
    match m.slot with
    | none => (m, .lookupDone none)
    | some o => (m, .lookupLoaded now ign o)
  | .lookupLoaded now ign o =>
    match verdict cfg now ign o.2 with
    | .fresh => (m, .lookupDone (some (o, false, false)))
    | .stale =>
      if v.cas then
        if o.1 ∈ m.flag then (m, .lookupDone (some (o, true, false)))
        else ({ m with flag := o.1 :: m.flag, grants := o.1 :: m.grants }, .lookupDone (some (o, true, true)))
      else
        if o.1 ∈ m.flag then (m, .lookupDone (some (o, true, false)))
        else (m, .lookupSawUnlatched now ign o)
    | .evict => (evictSlot v m o now ign false, .lookupDone none)
  | .lookupSawUnlatched _ _ o =>
    ({ m with flag := if o.1 ∈ m.flag then m.flag else o.1 :: m.flag, grants := o.1 :: m.grants },
      .lookupDone (some (o, true, true)))
  | .lookupDone r => (m, .lookupDone r)
  | .insert e =>
    let o : Obj := (m.nextId, e)
    ({ m with slot := some o, nextId := m.nextId + 1, created := o :: m.created }, .insertDone)
  | .insertDone => (m, .insertDone)
  | .rdone =>
    match m.slot with
    | none => (m, .rdoneDone)
    | some o => (m, .rdoneLoaded o)
  | .rdoneLoaded o => if o.1 ∈ m.flag then (m, .rdoneSawTrue o) else (m, .rdoneDone)
  | .rdoneSawTrue o => ({ m with flag := m.flag.filter (· ≠ o.1), releases := o.1 :: m.releases }, .rdoneDone)
  | .rdoneDone => (m, .rdoneDone)
  | .janitor now =>
    -- without time-based eviction the map is not ranged over at all
    if useTimeEviction cfg then
      match m.slot with
      | none => (m, .janitorDone)
      | some o => (m, .janitorLoaded now o)
    else (m, .janitorDone)
  | .janitorLoaded now o =>
    if useTimeEviction cfg ∧ ¬ effDeadline cfg o.2 > now then (evictSlot v m o now false true, .janitorDone)
    else (m, .janitorDone)
  | .janitorDone => (m, .janitorDone)

structure Sys where
  mem : Mem
  threads : List Thread
deriving Repr

/-- thread `i` performs its next action (nothing happens if there is no such thread) -/
def sysStep (v : Variant) (cfg : Cfg) (s : Sys) (i : Nat) : Sys :=
  match s.threads[i]? with
  | none => s
  | some th =>
    let (m, th') := stepThread v cfg s.mem th
    ⟨m, s.threads.set i th'⟩

/-- run a schedule: any interleaving of the threads' actions -/
def exec (v : Variant) (cfg : Cfg) (s : Sys) : List Nat → Sys
  | [] => s
  | i :: rest => exec v cfg (sysStep v cfg s i) rest

def count (l : List Nat) (x : Nat) : Nat := (l.filter (· = x)).length

/-- the results the lookup threads have delivered so far -/
def Sys.results (s : Sys) : List LookupResult :=
  s.threads.filterMap fun th => match th with | .lookupDone r => some r | _ => none

end DaeVerif.C08.Conc
