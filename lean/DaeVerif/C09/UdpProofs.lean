import DaeVerif.C09.UdpModel
/-! The UDP receive loop (C09 `Udp`). -/
namespace DaeVerif.C09

namespace Udp

theorem loop_spec (orig : Nat) (dot : Bool) : ∀ (evs : List Ev) (st rd : Nat),
    (∀ id b, (loop orig dot evs st rd).out = .ok id b →
      id = orig ∧ Ev.dgram orig (some b) ∈ evs ∧ b.tc = false ∧ (loop orig dot evs st rd).kept = true) ∧
    (∀ id b, (loop orig dot evs st rd).out = .truncated id b →
      id = orig ∧ Ev.dgram orig (some b) ∈ evs ∧ b.tc = true ∧ (loop orig dot evs st rd).kept = true) ∧
    (((loop orig dot evs st rd).out = .staleFlood ∨ (loop orig dot evs st rd).out = .shortFlood ∨
      (loop orig dot evs st rd).out = .unpackErr ∨ (loop orig dot evs st rd).out = .ioerr) →
      (loop orig dot evs st rd).kept = false) ∧
    (st ≤ maxStale → (loop orig dot evs st rd).reads ≤ rd + (maxStale - st) + 1) := by
  intro evs
  induction evs with
  | nil => intro st rd; simp [loop]
  | cons e evs ih =>
    intro st rd
    cases e with
    | timeout => simp [loop]
    | ioerr => simp [loop]
    | short =>
      simp only [loop]
      split
      · simp <;> omega
      · next hst =>
        obtain ⟨h1, h2, h3, h4⟩ := ih (st + 1) (rd + 1)
        refine ⟨?_, ?_, h3, ?_⟩
        · intro id b h
          obtain ⟨a, b', c, d⟩ := h1 id b h
          exact ⟨a, List.mem_cons_of_mem _ b', c, d⟩
        · intro id b h
          obtain ⟨a, b', c, d⟩ := h2 id b h
          exact ⟨a, List.mem_cons_of_mem _ b', c, d⟩
        · intro hle
          have := h4 (by omega)
          omega
    | dgram i body =>
      simp only [loop]
      split
      · split
        · simp <;> omega
        · next hst =>
          obtain ⟨h1, h2, h3, h4⟩ := ih (st + 1) (rd + 1)
          refine ⟨?_, ?_, h3, ?_⟩
          · intro id b h
            obtain ⟨a, b', c, d⟩ := h1 id b h
            exact ⟨a, List.mem_cons_of_mem _ b', c, d⟩
          · intro id b h
            obtain ⟨a, b', c, d⟩ := h2 id b h
            exact ⟨a, List.mem_cons_of_mem _ b', c, d⟩
          · intro hle
            have := h4 (by omega)
            omega
      · next hid =>
        have hid' : i = orig := by simpa using hid
        subst hid'
        cases body with
        | none => simp <;> omega
        | some b' =>
          simp only
          split
          · next htc =>
            refine ⟨(by intro id b h; cases h), ?_, (by simp), (by intro h; simp only; omega)⟩
            intro id b h
            simp only [Out.truncated.injEq] at h
            obtain ⟨rfl, rfl⟩ := h
            exact ⟨rfl, List.mem_cons_self, htc, rfl⟩
          · next htc =>
            refine ⟨?_, (by intro id b h; cases h), (by simp), (by intro h; simp only; omega)⟩
            intro id b h
            simp only [Out.ok.injEq] at h
            obtain ⟨rfl, rfl⟩ := h
            exact ⟨rfl, List.mem_cons_self, by simpa using htc, rfl⟩

theorem forward_spec (orig : Nat) (dot w : Bool) (q : List Ev) :
    (∀ id b, (forward orig dot w q).out = .ok id b → id = orig ∧ Ev.dgram orig (some b) ∈ q) ∧
    (∀ id b, (forward orig dot w q).out = .truncated id b → id = orig ∧ Ev.dgram orig (some b) ∈ q) ∧
    ((forward orig dot w q).reads ≤ maxStale + 1) := by
  unfold forward
  cases w
  · simp
  · simp only [if_true]
    obtain ⟨h1, h2, _, h4⟩ := loop_spec orig dot q 0 0
    refine ⟨fun id b h => ⟨(h1 id b h).1, (h1 id b h).2.1⟩, fun id b h => ⟨(h2 id b h).1, (h2 id b h).2.1⟩, ?_⟩
    have := h4 (by simp [maxStale])
    simpa using this

theorem results_spec : ∀ (ops : List Op) (s : Sock) (orig : Nat) (r : Res),
    (orig, r) ∈ results s ops →
    (∀ id b, r.out = .ok id b → id = orig) ∧ (∀ id b, r.out = .truncated id b → id = orig) := by
  intro ops
  induction ops with
  | nil => intro s orig r h; simp [results] at h
  | cons op ops ih =>
    intro s orig r h
    cases op with
    | push e =>
      simp only [results] at h
      exact ih _ _ _ h
    | fwd o dot w =>
      simp only [results, List.mem_cons, Prod.mk.injEq] at h
      rcases h with ⟨rfl, rfl⟩ | h
      · obtain ⟨h1, h2, _⟩ := forward_spec orig dot w s.pendingEvs
        exact ⟨fun id b h => (h1 id b h).1, fun id b h => (h2 id b h).1⟩
      · exact ih _ _ _ h

end Udp


end DaeVerif.C09
