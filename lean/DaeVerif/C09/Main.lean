import DaeVerif.C09.Model
import DaeVerif.Common.Proto
/-!
Line-protocol driver for C09.  One operation per line, first token selects the model:

```
F reset <n> <endUse: split|recheck|atomic> <evictRetires 0|1>
F call <begin|end|retire|retirec|evict> <t>      the goroutine enters the call (no operation yet)
F start <kind> <t>                               enter the call and run to the first yield point / return
F step <t>                                       run goroutine t to its next yield point / return
F finish <t>                                     run goroutine t's call to completion
F fwd <t>                                        goroutine t issues ForwardDNS
    -> pc=<pc of t> if=<inFlight> ret=<0|1> cl=<closes> ic=<0|1> bad=<badUses> busy=<goroutines in use>

U reset
U push <ev>                     ev = short | to | io | d:<id>:bad | d:<id>:<q>:<tc>:<tag>
U fwd <orig> <dot 0|1> <writeOk 0|1>
    -> out=<...> kept=<0|1> reads=<n> gen=<n> left=<n>

P reset <always|released>
P start <w> <c> <id> <slot> | P recv <c> <id> <tag> | P closeswap <c> <id> | P set <slot> | P take <w>
P cancel <w> | P writefail <w> | P close <c> | P leave <w> | P alloc <next> <used ids>
    -> see handleP

C reset <check 0|1> <client>*                    client = id:name:spell:qtype:scope:route(f|r)[:class]
C arrive <i> | C join <i> | C refuse <i> | C wake <i> | C evict <name> <qtype> <scope>
C respell <name> <qtype> <scope> <spell>         the packed entry is re-packed with another spelling of its name
C refresh <i> <scheme> <att> <att> <ev 0|1>     background refresh (optimistic cache) for client i's question
C resolve <f> <udp|tcp|tcpudp> <att> <att>       att = fail | m:<id>:<q>:<resp>:<rcode>:<tc>:<ans>[:<ttl0>], q = - | name.spell.qtype[.class]
    -> pc=<pc of the client concerned> out=<outcome emitted by this step or -> calls=<n> cache=<entries>
```
-/
open DaeVerif DaeVerif.C09 DaeVerif.Proto

structure DSt where
  fcfg : Fwd.Cfg := Fwd.codeCfg
  f : Fwd.St := Fwd.init 0
  u : Udp.Sock := ⟨[], 0, false⟩
  ccfg : Ctl.Cfg := Ctl.codeCfg
  c : Ctl.St := Ctl.init []
  ppol : Pipe.Recycle := Pipe.codePolicy
  p : Pipe.St := Pipe.init

def b01 (b : Bool) : String := if b then "1" else "0"
def p01 (s : String) : Bool := s == "1"

/-! ### Fwd -/
def fpcStr : Fwd.Pc → String
  | .idle => "idle" | .b1 => "b1" | .b2 => "b2" | .b3 => "b3" | .b4 => "b4" | .b5 => "b5"
  | .busy => "busy" | .e1 => "e1" | .e2 => "e2" | .e2r => "e2r" | .e3 => "e3"
  | .r1 => "r1" | .r2 => "r2" | .r3 => "r3" | .v1 => "v1" | .v2 => "v2" | .v3 => "v3" | .c1 => "c1"

def fOut (s : Fwd.St) (t : Nat) : String :=
  let pc := match s.pcs[t]? with | some p => fpcStr p | none => "none"
  let busy := s.pcs.countP (fun p => p == .busy)
  s!"pc={pc} if={s.inFlight} ret={b01 s.retired} cl={s.closes} ic={b01 s.inCache} bad={s.badUses} busy={busy}"

def parseEndUse : String → Option Fwd.EndUse
  | "split" => some .split | "recheck" => some .recheck | "atomic" => some .atomic | _ => none

def handleF (d : DSt) : List String → DSt × String
  | ["reset", n, eu, er] =>
    match n.toNat?, parseEndUse eu with
    | some n, some eu =>
      let d := { d with fcfg := ⟨eu, p01 er⟩, f := Fwd.init n }
      (d, fOut d.f 0)
    | _, _ => (d, "bad-op")
  | ["call", kind, t] =>
    match t.toNat? with
    | some t =>
      let act : Option Fwd.Act := match kind with
        | "begin" => some (.callBegin t) | "end" => some (.callEnd t) | "retire" => some (.callRetire t)
        | "retirec" => some (.callRetireCached t) | "evict" => some (.callEvict t) | _ => none
      match act with
      | some a => let f := Fwd.step d.fcfg d.f a; ({ d with f := f }, fOut f t)
      | none => (d, "bad-op")
    | none => (d, "bad-op")
  | ["start", kind, t] =>
    match t.toNat? with
    | some t =>
      let act : Option Fwd.Act := match kind with
        | "begin" => some (.callBegin t) | "end" => some (.callEnd t) | "retire" => some (.callRetire t)
        | "retirec" => some (.callRetireCached t) | "evict" => some (.callEvict t) | _ => none
      match act with
      | some a => let f := Fwd.stepToYield d.fcfg (Fwd.step d.fcfg d.f a) t; ({ d with f := f }, fOut f t)
      | none => (d, "bad-op")
    | none => (d, "bad-op")
  | ["step", t] =>
    match t.toNat? with
    | some t => let f := Fwd.stepToYield d.fcfg d.f t; ({ d with f := f }, fOut f t)
    | none => (d, "bad-op")
  | ["finish", t] =>
    match t.toNat? with
    | some t => let f := Fwd.finishCall d.fcfg d.f t; ({ d with f := f }, fOut f t)
    | none => (d, "bad-op")
  | ["fwd", t] =>
    match t.toNat? with
    | some t => let f := Fwd.step d.fcfg d.f (.forward t); ({ d with f := f }, fOut f t)
    | none => (d, "bad-op")
  | _ => (d, "bad-op")

/-! ### Udp -/
def parseEv (tok : String) : Option Udp.Ev :=
  match tok.splitOn ":" with
  | ["short"] => some .short
  | ["to"] => some .timeout
  | ["io"] => some .ioerr
  | ["d", id, "bad"] => do let id ← id.toNat?; pure (.dgram id none)
  | ["d", id, q, tc, tag] => do
    let id ← id.toNat?; let q ← q.toNat?; let tag ← tag.toNat?
    pure (.dgram id (some ⟨q, p01 tc, tag⟩))
  | _ => none

def uOutStr : Udp.Out → String
  | .ok id b => s!"ok:{id}:{b.q}:{b.tag}"
  | .truncated id b => s!"trunc:{id}:{b.q}:{b.tag}"
  -- which of the three "this socket is unusable" errors it was is wording, not behaviour the property fixes
  | .timeout => "timeout" | .ioerr => "ioerr" | .staleFlood => "gave-up" | .shortFlood => "gave-up"
  | .unpackErr => "gave-up" | .writeErr => "write-err"

def handleU (d : DSt) : List String → DSt × String
  | ["reset"] => ({ d with u := ⟨[], 0, false⟩ }, "ok")
  | ["push", ev] =>
    match parseEv ev with
    | some e => let (u, _) := Udp.apply d.u (.push e); ({ d with u := u }, s!"queued={u.pendingEvs.length}")
    | none => (d, "bad-op")
  | ["fwd", orig, dot, w] =>
    match orig.toNat? with
    | some o =>
      match Udp.apply d.u (.fwd o (p01 dot) (p01 w)) with
      | (u, some r) =>
        ({ d with u := u }, s!"out={uOutStr r.out} kept={b01 r.kept} reads={r.reads} gen={u.gen} left={u.pendingEvs.length}")
      | (u, none) => ({ d with u := u }, "bad-op")
    | none => (d, "bad-op")
  | _ => (d, "bad-op")

/-! ### Ctl -/
def parseQ (tok : String) : Option (Option Ctl.Question) :=
  if tok == "-" then some none else
  match tok.splitOn "." with
  | [n, s, t] => do let n ← n.toNat?; let s ← s.toNat?; let t ← t.toNat?; pure (some ⟨n, s, t, 1⟩)
  | [n, s, t, c] => do
    let n ← n.toNat?; let s ← s.toNat?; let t ← t.toNat?; let c ← c.toNat?; pure (some ⟨n, s, t, c⟩)
  | _ => none

def parseClient (tok : String) : Option Ctl.Client :=
  match tok.splitOn ":" with
  | [id, n, sp, t, sc, r] => do
    let id ← id.toNat?; let n ← n.toNat?; let sp ← sp.toNat?; let t ← t.toNat?; let sc ← sc.toNat?
    pure ⟨id, ⟨n, sp, t, 1⟩, sc, if r == "r" then .reject else .forward⟩
  | [id, n, sp, t, sc, r, cl] => do
    let id ← id.toNat?; let n ← n.toNat?; let sp ← sp.toNat?; let t ← t.toNat?; let sc ← sc.toNat?; let cl ← cl.toNat?
    pure ⟨id, ⟨n, sp, t, cl⟩, sc, if r == "r" then .reject else .forward⟩
  | _ => none

def parseAtt (tok : String) : Option Ctl.Att :=
  match tok.splitOn ":" with
  | ["fail"] => some .fail
  | ["m", id, q, resp, rcode, tc, ans] => do
    let id ← id.toNat?; let q ← parseQ q; let rcode ← rcode.toNat?; let ans ← ans.toNat?
    pure (.msg ⟨id, q, p01 resp, rcode, p01 tc, ans, false⟩)
  | ["m", id, q, resp, rcode, tc, ans, ttl0] => do
    let id ← id.toNat?; let q ← parseQ q; let rcode ← rcode.toNat?; let ans ← ans.toNat?
    pure (.msg ⟨id, q, p01 resp, rcode, p01 tc, ans, p01 ttl0⟩)
  | _ => none

def parseScheme : String → Option Ctl.Scheme
  | "udp" => some .udp | "tcp" => some .tcp | "tcpudp" => some .tcpudp | _ => none

def qStr : Option Ctl.Question → String
  | none => "-"
  | some q => if q.qclass == 1 then s!"{q.name}.{q.spell}.{q.qtype}" else s!"{q.name}.{q.spell}.{q.qtype}.{q.qclass}"

def srcStr : Ctl.Src → String
  | .own => "own" | .cache => "cache" | .upstream => "up"

def errStr : Ctl.ErrKind → String
  | .upstream => "upstream" | .truncated => "truncated" | .mismatch => "mismatch" | .notResponse => "upstream"

def outcomeStr : Ctl.Outcome → String
  | .wrote r => s!"wrote:id={r.id},q={qStr r.q},rc={r.rcode},tc={b01 r.tc},ans={r.ans}"
  | .error e => s!"error:{errStr e}"

def cpcStr : Ctl.Pc → String
  | .init => "init" | .missed => "missed" | .leading f => s!"leading:{f}" | .waiting _ => "waiting" | .done => "done"

/-- insertion sort on strings (cache entries are printed in a canonical order) -/
def sortStrs (l : List String) : List String :=
  l.foldl (fun acc x =>
    let (a, b) := acc.span (fun y => y < x)
    a ++ [x] ++ b) []

def cacheStr (c : List (Ctl.Key × Ctl.Entry)) : String :=
  if c.isEmpty then "-" else
  ",".intercalate (sortStrs (c.map fun (k, e) => s!"{k.name}.{k.qtype}.{k.scope}>{e.q.name}.{e.q.spell}.{e.q.qtype}/{e.ans}"))

def cOut (before after : Ctl.St) (i : Nat) : String :=
  let pc := match after.pcs[i]? with | some p => cpcStr p | none => "none"
  let out := if after.outs.length > before.outs.length then
      (match after.outs.getLast? with | some (_, o) => outcomeStr o | none => "-") else "-"
  s!"pc={pc} out={out} calls={after.calls.length} cache={cacheStr after.cache}"

def handleC (d : DSt) : List String → DSt × String
  | "reset" :: chk :: clients =>
    match clients.mapM parseClient with
    | some cs => ({ d with ccfg := ⟨p01 chk⟩, c := Ctl.init cs }, s!"clients={cs.length}")
    | none => (d, "bad-op")
  | ["arrive", i] =>
    match i.toNat? with
    | some i => let c := Ctl.step d.ccfg d.c (.arrive i); ({ d with c := c }, cOut d.c c i)
    | none => (d, "bad-op")
  | ["refuse", i] =>
    match i.toNat? with
    | some i => let c := Ctl.step d.ccfg d.c (.refuse i); ({ d with c := c }, cOut d.c c i)
    | none => (d, "bad-op")
  | ["join", i] =>
    match i.toNat? with
    | some i => let c := Ctl.step d.ccfg d.c (.join i); ({ d with c := c }, cOut d.c c i)
    | none => (d, "bad-op")
  | ["refresh", i, sch, a1, a2, ev] =>
    -- ev = 1: the harness saw the (still stale) entry dropped by backgroundRefresh's deferred clean-up,
    -- which is an `evict` of that key in the model
    match i.toNat?, parseScheme sch, parseAtt a1, parseAtt a2 with
    | some i, some sch, some a1, some a2 =>
      let c := Ctl.step d.ccfg d.c (.refresh i sch a1 a2)
      let c := match ev == "1", c.clients[i]? with
        | true, some cl => Ctl.step d.ccfg c (.evict cl.key)
        | _, _ => c
      ({ d with c := c }, cOut d.c c 1000000)
    | _, _, _, _ => (d, "bad-op")
  | ["wake", i] =>
    match i.toNat? with
    | some i => let c := Ctl.step d.ccfg d.c (.wake i); ({ d with c := c }, cOut d.c c i)
    | none => (d, "bad-op")
  | ["evict", n, t, sc] =>
    match n.toNat?, t.toNat?, sc.toNat? with
    | some n, some t, some sc =>
      let c := Ctl.step d.ccfg d.c (.evict ⟨n, t, 1, sc⟩); ({ d with c := c }, cOut d.c c 1000000)
    | _, _, _ => (d, "bad-op")
  | ["respell", n, t, sc, sp] =>
    match n.toNat?, t.toNat?, sc.toNat?, sp.toNat? with
    | some n, some t, some sc, some sp =>
      let c := Ctl.step d.ccfg d.c (.respell ⟨n, t, 1, sc⟩ sp); ({ d with c := c }, cOut d.c c 1000000)
    | _, _, _, _ => (d, "bad-op")
  | ["resolve", f, sch, a1, a2] =>
    match f.toNat?, parseScheme sch, parseAtt a1, parseAtt a2 with
    | some f, some sch, some a1, some a2 =>
      let c := Ctl.step d.ccfg d.c (.resolve f sch a1 a2)
      let leader := match d.c.flights[f]? with | some fl => fl.leader | none => 0
      let res := match c.flights[f]? with
        | some fl => (match fl.result with
          | some (.ok m) => s!"ok:id={m.id}"
          | some (.err e) => s!"err:{errStr e}"
          | none => "running")
        | none => "none"
      ({ d with c := c }, s!"res={res} " ++ cOut d.c c leader)
    | _, _, _, _ => (d, "bad-op")
  | _ => (d, "bad-op")

/-! ### Pipe -/
def pMsgStr (m : Pipe.Msg) : String := s!"msg:{m.id}.{m.tag}.{m.conn}"
def pValStr : Option Pipe.Msg → String
  | some m => pMsgStr m
  | none => "nil"
def pResStr : Pipe.Res → String
  | .msg m => pMsgStr m | .eof => "eof" | .ctxErr => "ctx" | .writeErr => "write-err"
def pPcStr : Pipe.WPc → String
  | .idle => "idle" | .waiting c id s => s!"waiting:{c}.{id}.{s}"
  | .leaving c id s r res => s!"leaving:{c}.{id}.{s}.{b01 r}.{pResStr res}" | .done r => s!"done:{pResStr r}"

def handleP (d : DSt) : List String → DSt × String
  | ["reset", pol] =>
    ({ d with ppol := if pol == "always" then .always else .whenReleased, p := Pipe.init }, "ok")
  | ["start", w, c, id, sl] =>
    match w.toNat?, c.toNat?, id.toNat?, sl.toNat? with
    | some w, some c, some id, some sl =>
      let p := Pipe.step d.ppol d.p (.start w c id sl)
      ({ d with p := p }, if p.pc w == .waiting c id sl && d.p.pc w == .idle then "ok" else
        s!"disabled:free={b01 (d.p.free sl)},alloc={b01 (d.p.alloc c id)},pc={pPcStr (d.p.pc w)}")
    | _, _, _, _ => (d, "bad-op")
  | ["recv", c, id, tag] =>
    match c.toNat?, id.toNat?, tag.toNat? with
    | some c, some id, some tag =>
      let held := d.p.pending c id
      let p := Pipe.step d.ppol d.p (.recvSwap c id tag)
      ({ d with p := p }, match held with | some sl => s!"held={sl}" | none => "held=-")
    | _, _, _ => (d, "bad-op")
  | ["closeswap", c, id] =>
    match c.toNat?, id.toNat? with
    | some c, some id =>
      let held := if d.p.closed c then d.p.pending c id else none
      let p := Pipe.step d.ppol d.p (.closeSwap c id)
      ({ d with p := p }, match held with | some sl => s!"held={sl}" | none => "held=-")
    | _, _ => (d, "bad-op")
  | ["set", sl] =>
    match sl.toNat? with
    | some sl =>
      let p := Pipe.step d.ppol d.p (.set sl)
      ({ d with p := p }, match p.box sl with | some v => s!"box={pValStr v}" | none => "box=none")
    | none => (d, "bad-op")
  | ["take", w] =>
    match w.toNat? with
    | some w =>
      let p := Pipe.step d.ppol d.p (.take w)
      let got := if p.log.length > d.p.log.length then
          (match p.log.getLast? with | some (_, _, _, v) => pValStr v | none => "-") else "-"
      ({ d with p := p }, s!"got={got}")
    | none => (d, "bad-op")
  | ["cancel", w] =>
    match w.toNat? with
    | some w =>
      let p := Pipe.step d.ppol d.p (.cancel w)
      let closed := match p.pc w with | .leaving c _ _ _ _ => b01 (p.closed c) | _ => "-"
      ({ d with p := p }, s!"pc={pPcStr (p.pc w)} closed={closed}")
    | none => (d, "bad-op")
  | ["writefail", w] =>
    match w.toNat? with
    | some w => let p := Pipe.step d.ppol d.p (.writeFail w); ({ d with p := p }, s!"pc={pPcStr (p.pc w)}")
    | none => (d, "bad-op")
  | ["abort", w] =>
    match w.toNat? with
    | some w => let p := Pipe.step d.ppol d.p (.abort w); ({ d with p := p }, s!"pc={pPcStr (p.pc w)}")
    | none => (d, "bad-op")
  | ["close", c] =>
    match c.toNat? with
    | some c => let p := Pipe.step d.ppol d.p (.connClose c); ({ d with p := p }, s!"closed={b01 (p.closed c)}")
    | none => (d, "bad-op")
  | ["leave", w] =>
    match w.toNat? with
    | some w => let p := Pipe.step d.ppol d.p (.leave w); ({ d with p := p }, s!"pc={pPcStr (p.pc w)}")
    | none => (d, "bad-op")
  | ["alloc", next, used] =>
    -- used = comma separated allocated ids (or -)
    match next.toNat? with
    | some next =>
      let ids := if used == "-" then [] else (used.splitOn ",").filterMap String.toNat?
      (d, match Pipe.allocate (fun i => ids.contains i) next with | some id => s!"id={id}" | none => "id=none")
    | none => (d, "bad-op")
  | _ => (d, "bad-op")

def handle (d : DSt) (line : String) : DSt × String :=
  match words line with
  | "F" :: rest => handleF d rest
  | "U" :: rest => handleU d rest
  | "C" :: rest => handleC d rest
  | "P" :: rest => handleP d rest
  | "X" :: _ => (d, "inconclusive")
  | "H" :: _ => (d, "no-such-behaviour: every enabled step of the model can be taken")  -- a hang of the real code  -- a history the harness abandoned (its goroutines were not scheduled in time)
  | _ => (d, "bad-op")

def main : IO Unit := lineLoopS ({} : DSt) handle
