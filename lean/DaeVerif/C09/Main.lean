import DaeVerif.C09.Model
import DaeVerif.Common.Proto
/-!
Line-protocol driver for C09.  One operation per line, first token selects the model:

```
F reset <n> <endUse: split|recheck|atomic> <evictRetires 0|1>
F call <begin|end|retire|retirec|evict> <t>      the goroutine enters the call (no operation yet)
F start <kind> <t>                               enter the call and run to the first yield point / return
F step <t>                                       run goroutine t to its next yield point / return
F finish <t>                                     run goroutine t's call to completion
F fwd <t>                                        goroutine t issues ForwardDNS
    -> pc=<pc of t> if=<inFlight> ret=<0|1> cl=<closes> ic=<0|1> bad=<badUses> busy=<goroutines in use>

L reset <n>                                      n goroutines, empty forwarder cache
L call <t> <ok|trunc|fail|cancel>                goroutine t calls forwardWithDialArg (the transport will answer so) and runs to its first park point
L reset-fwd <t> | L evict <t>                    goroutine t runs retireAllDnsForwarders / evictIdleDnsForwarders, to its first park point
L step <t>                                       goroutine t runs to its next park point (factory, a yield of the entry's methods, ForwardDNS) or returns
    -> at=<idle|factory|busy|b2..r3> e=<forwarder it is on|-> cached=<forwarder in the cache|-> ret=<value returned in this step|-> fw=<inFlight/retired/closes/busy per forwarder>

U reset
U push <ev>                     ev = short | to | io | d:<id>:bad | d:<id>:<q>:<tc>:<tag>
U fwd <orig> <dot 0|1> <writeOk 0|1>
    -> out=<...> kept=<0|1> reads=<n> gen=<n> left=<n>

P reset <always|released>
P start <w> <c> <id> <slot> | P recv <c> <id> <tag> | P closeswap <c> <id> | P set <slot> | P take <w>
P cancel <w> | P writefail <w> | P close <c> | P leave <w> | P alloc <next> <used ids>
    -> see handleP

C reset <check 0|1> <client>*                    client = id:name:spell:qtype:scope:route(f|r)[:class[:nq]]   (nq = number of questions, default 1)
C arrive <i> | C join <i> | C refuse <i> | C wake <i> | C malformed <i> | C gone <i> (client i's request context is cancelled) | C evict <name> <qtype> <scope>
C respell <name> <qtype> <scope> <spell>         the packed entry is re-packed with another spelling of its name
C refresh <i> <scheme> <rr 0|1> <ev 0|1> <att>*  background refresh (optimistic cache) for client i's question
C resolve <f> <udp|tcp|tcpudp> <rr 0|1> <att>*   att = fail | m:<id>:<q>:<resp>:<rcode>:<tc>:<ans>[:<ttl0>], q = - | name.spell.qtype[.class]
                                                 the attempts come in pairs, one pair per level of dialSend (primary, tcp+udp fallback);
                                                 rr = 1: the harness's response-routing rules are in force (`routeOf`), 0: `fallback: accept` only
    -> [res=<..> xch=<upstream exchanges issued>] pc=<pc of the client concerned> out=<outcome emitted by this step or -> calls=<n> cache=<entries>
```
-/
open DaeVerif DaeVerif.C09 DaeVerif.Proto

structure DSt where
  fcfg : Fwd.Cfg := Fwd.codeCfg
  f : Fwd.St := Fwd.init 0
  u : Udp.Sock := ⟨[], 0, false⟩
  ccfg : Ctl.Cfg := Ctl.codeCfg
  c : Ctl.St := Ctl.init []
  ppol : Pipe.Recycle := Pipe.codePolicy
  p : Pipe.St := Pipe.init
  l : Loop.St := Loop.init 0

def b01 (b : Bool) : String := if b then "1" else "0"
def p01 (s : String) : Bool := s == "1"

/-! ### Fwd -/
def fpcStr : Fwd.Pc → String
  | .idle => "idle" | .b1 => "b1" | .b2 => "b2" | .b3 => "b3" | .b4 => "b4" | .b5 => "b5"
  | .busy => "busy" | .e1 => "e1" | .e2 => "e2" | .e2r => "e2r" | .e3 => "e3"
  | .r1 => "r1" | .r2 => "r2" | .r3 => "r3" | .v1 => "v1" | .v2 => "v2" | .v3 => "v3" | .c1 => "c1"

def fOut (s : Fwd.St) (t : Nat) : String :=
  let pc := match s.pcs[t]? with | some p => fpcStr p | none => "none"
  let busy := s.pcs.countP (fun p => p == .busy)
  s!"pc={pc} if={s.inFlight} ret={b01 s.retired} cl={s.closes} ic={b01 s.inCache} bad={s.badUses} busy={busy}"

def parseEndUse : String → Option Fwd.EndUse
  | "split" => some .split | "recheck" => some .recheck | "atomic" => some .atomic | _ => none

def handleF (d : DSt) : List String → DSt × String
  | ["reset", n, eu, er] =>
    match n.toNat?, parseEndUse eu with
    | some n, some eu =>
      let d := { d with fcfg := ⟨eu, p01 er⟩, f := Fwd.init n }
      (d, fOut d.f 0)
    | _, _ => (d, "bad-op")
  | ["call", kind, t] =>
    match t.toNat? with
    | some t =>
      let act : Option Fwd.Act := match kind with
        | "begin" => some (.callBegin t) | "end" => some (.callEnd t) | "retire" => some (.callRetire t)
        | "retirec" => some (.callRetireCached t) | "evict" => some (.callEvict t) | _ => none
      match act with
      | some a => let f := Fwd.step d.fcfg d.f a; ({ d with f := f }, fOut f t)
      | none => (d, "bad-op")
    | none => (d, "bad-op")
  | ["start", kind, t] =>
    match t.toNat? with
    | some t =>
      let act : Option Fwd.Act := match kind with
        | "begin" => some (.callBegin t) | "end" => some (.callEnd t) | "retire" => some (.callRetire t)
        | "retirec" => some (.callRetireCached t) | "evict" => some (.callEvict t) | _ => none
      match act with
      | some a => let f := Fwd.stepToYield d.fcfg (Fwd.step d.fcfg d.f a) t; ({ d with f := f }, fOut f t)
      | none => (d, "bad-op")
    | none => (d, "bad-op")
  | ["step", t] =>
    match t.toNat? with
    | some t => let f := Fwd.stepToYield d.fcfg d.f t; ({ d with f := f }, fOut f t)
    | none => (d, "bad-op")
  | ["finish", t] =>
    match t.toNat? with
    | some t => let f := Fwd.finishCall d.fcfg d.f t; ({ d with f := f }, fOut f t)
    | none => (d, "bad-op")
  | ["fwd", t] =>
    match t.toNat? with
    | some t => let f := Fwd.step d.fcfg d.f (.forward t); ({ d with f := f }, fOut f t)
    | none => (d, "bad-op")
  | _ => (d, "bad-op")

/-! ### Loop -/
def lRetStr : Loop.Ret → String
  | .ok => "ok" | .truncated => "trunc" | .err => "err" | .canceled => "cancel" | .retiredTwice => "retired-twice"

def lOut (before s : Loop.St) (t : Nat) : String :=
  let (at_, e) : String × String := match s.opc t with
    | .idle => ("idle", "-")
    | .loading .. => ("loading", "-")
    | .creating e _ _ => ("factory", toString e)
    | .storing e _ _ => ("storing", toString e)
    | .closingLoser e _ _ _ => ("closing-loser", toString e)
    | .busy e _ => ("busy", toString e)
    | .beginning e _ _ | .ending e _ | .retiring e _ =>
      ((match Loop.inner s e t with | some p => fpcStr p | none => "none"), toString e)
  let cached := match Loop.cachedIdx s with | some e => toString e | none => "-"
  let ret := if s.rets.length > before.rets.length then
      (match s.rets.getLast? with | some (_, r) => lRetStr r | none => "-") else "-"
  let fw := (List.range s.nents).map fun e =>
    match s.ent e with
    | some x => s!"{x.f.inFlight}/{b01 x.f.retired}/{x.f.closes + x.rawCloses}/{x.f.pcs.countP (fun p => p == .busy)}/{x.f.badUses}"
    | none => "?"
  s!"at={at_} e={e} cached={cached} ret={ret} fw={",".intercalate fw}"

def parseRes : String → Option Loop.Res
  | "ok" => some .ok | "trunc" => some .truncated | "fail" => some .fail | "cancel" => some .canceled | _ => none

def handleL (d : DSt) : List String → DSt × String
  | ["reset", n] =>
    match n.toNat? with
    | some n => let l := Loop.init n; ({ d with l := l }, lOut l l 0)
    | none => (d, "bad-op")
  | ["call", t, r] =>
    match t.toNat?, parseRes r with
    | some t, some r =>
      let l := Loop.stepToPark (Loop.step d.l (.call t r)) t; ({ d with l := l }, lOut d.l l t)
    | _, _ => (d, "bad-op")
  | ["reset-fwd", t] =>
    match t.toNat? with
    | some t =>
      let l0 := Loop.step d.l (.reset t)
      let l := if Loop.atPark l0 t then l0 else Loop.stepToPark l0 t
      ({ d with l := l }, lOut d.l l t)
    | none => (d, "bad-op")
  | ["evict", t] =>
    match t.toNat? with
    | some t =>
      let l0 := Loop.step d.l (.evict t)
      let l := if Loop.atPark l0 t then l0 else Loop.stepToPark l0 t
      ({ d with l := l }, lOut d.l l t)
    | none => (d, "bad-op")
  | ["step", t] =>
    match t.toNat? with
    | some t => let l := Loop.stepToPark d.l t; ({ d with l := l }, lOut d.l l t)
    | none => (d, "bad-op")
  | "life" :: _ => (d, "ok")  -- emitted by the harness only when its lifecycle oracle on the implementation fails
  | _ => (d, "bad-op")

/-! ### Udp -/
def parseEv (tok : String) : Option Udp.Ev :=
  match tok.splitOn ":" with
  | ["short"] => some .short
  | ["to"] => some .timeout
  | ["io"] => some .ioerr
  | ["d", id, "bad"] => do let id ← id.toNat?; pure (.dgram id none)
  | ["d", id, q, tc, tag] => do
    let id ← id.toNat?; let q ← q.toNat?; let tag ← tag.toNat?
    pure (.dgram id (some ⟨q, p01 tc, tag⟩))
  | _ => none

def uOutStr : Udp.Out → String
  | .ok id b => s!"ok:{id}:{b.q}:{b.tag}"
  | .truncated id b => s!"trunc:{id}:{b.q}:{b.tag}"
  -- which of the three "this socket is unusable" errors it was is wording, not behaviour the property fixes
  | .timeout => "timeout" | .ioerr => "ioerr" | .staleFlood => "gave-up" | .shortFlood => "gave-up"
  | .unpackErr => "gave-up" | .writeErr => "write-err"

def handleU (d : DSt) : List String → DSt × String
  | ["reset"] => ({ d with u := ⟨[], 0, false⟩ }, "ok")
  | ["push", ev] =>
    match parseEv ev with
    | some e => let (u, _) := Udp.apply d.u (.push e); ({ d with u := u }, s!"queued={u.pendingEvs.length}")
    | none => (d, "bad-op")
  | ["fwd", orig, dot, w] =>
    match orig.toNat? with
    | some o =>
      match Udp.apply d.u (.fwd o (p01 dot) (p01 w)) with
      | (u, some r) =>
        ({ d with u := u }, s!"out={uOutStr r.out} kept={b01 r.kept} reads={r.reads} gen={u.gen} left={u.pendingEvs.length}")
      | (u, none) => ({ d with u := u }, "bad-op")
    | none => (d, "bad-op")
  | _ => (d, "bad-op")

/-! ### Ctl -/
def parseQ (tok : String) : Option (Option Ctl.Question) :=
  if tok == "-" then some none else
  match tok.splitOn "." with
  | [n, s, t] => do let n ← n.toNat?; let s ← s.toNat?; let t ← t.toNat?; pure (some ⟨n, s, t, 1⟩)
  | [n, s, t, c] => do
    let n ← n.toNat?; let s ← s.toNat?; let t ← t.toNat?; let c ← c.toNat?; pure (some ⟨n, s, t, c⟩)
  | _ => none

def parseClient (tok : String) : Option Ctl.Client :=
  match tok.splitOn ":" with
  | [id, n, sp, t, sc, r] => do
    let id ← id.toNat?; let n ← n.toNat?; let sp ← sp.toNat?; let t ← t.toNat?; let sc ← sc.toNat?
    pure ⟨id, ⟨n, sp, t, 1⟩, sc, if r == "r" then .reject else .forward, 1⟩
  | [id, n, sp, t, sc, r, cl] => do
    let id ← id.toNat?; let n ← n.toNat?; let sp ← sp.toNat?; let t ← t.toNat?; let sc ← sc.toNat?; let cl ← cl.toNat?
    pure ⟨id, ⟨n, sp, t, cl⟩, sc, if r == "r" then .reject else .forward, 1⟩
  | [id, n, sp, t, sc, r, cl, nq] => do
    let id ← id.toNat?; let n ← n.toNat?; let sp ← sp.toNat?; let t ← t.toNat?; let sc ← sc.toNat?; let cl ← cl.toNat?
    let nq ← nq.toNat?
    pure ⟨id, ⟨n, sp, t, cl⟩, sc, if r == "r" then .reject else .forward, nq⟩
  | _ => none

def parseAtt (tok : String) : Option Ctl.Att :=
  match tok.splitOn ":" with
  | ["fail"] => some .fail
  | ["m", id, q, resp, rcode, tc, ans] => do
    let id ← id.toNat?; let q ← parseQ q; let rcode ← rcode.toNat?; let ans ← ans.toNat?
    pure (.msg ⟨id, q, p01 resp, rcode, p01 tc, ans, false⟩)
  | ["m", id, q, resp, rcode, tc, ans, ttl0] => do
    let id ← id.toNat?; let q ← parseQ q; let rcode ← rcode.toNat?; let ans ← ans.toNat?
    pure (.msg ⟨id, q, p01 resp, rcode, p01 tc, ans, p01 ttl0⟩)
  | _ => none

/-- The response-routing rules of the harness's second DNS configuration (`c09DnsConfigRR`), as a function of
the message `ResponseSelect` looks at - the instance of the universally quantified `Round.route` that the tie
executes.  The rules match on the addresses of the A / AAAA records only; the harness encodes the answer token
in the last two bytes of the address:
`ip(10.9.3.0/24, 2001:db8::300/120) -> reject`, `ip(10.9.2.0/24, 2001:db8::200/120) -> ut` (tcp),
`ip(10.9.1.128/25, 2001:db8::180/121) -> ub` (tcp+udp), `fallback: accept`. -/
def routeOf (rr : Bool) (m : Ctl.UpMsg) : Ctl.RespRoute :=
  if !rr then .accept else
  match m.q with
  | none => .accept
  | some q =>
    if (q.qtype == 1 || q.qtype == 28) && m.ans != 0 then
      (if m.ans / 256 == 3 then .reject
       else if m.ans / 256 == 2 then .next .tcp
       else if 384 ≤ m.ans && m.ans < 512 then .next .tcpudp
       else .accept)
    else .accept

def mkRounds (rr : Bool) : Ctl.Scheme → List Ctl.Att → List Ctl.Round
  | sch, a1 :: a2 :: rest =>
    let route := match Ctl.forwardWithFallback sch a1 a2 with
      | .ok m => routeOf rr m
      | .err _ => .accept
    ⟨a1, a2, route⟩ :: mkRounds rr (match route with | .next s => s | _ => sch) rest
  | _, _ => []

def parseScheme : String → Option Ctl.Scheme
  | "udp" => some .udp | "tcp" => some .tcp | "tcpudp" => some .tcpudp | _ => none

def qStr : Option Ctl.Question → String
  | none => "-"
  | some q => if q.qclass == 1 then s!"{q.name}.{q.spell}.{q.qtype}" else s!"{q.name}.{q.spell}.{q.qtype}.{q.qclass}"

def srcStr : Ctl.Src → String
  | .own => "own" | .cache => "cache" | .upstream => "up"

def errStr : Ctl.ErrKind → String
  | .upstream => "upstream" | .truncated => "truncated" | .mismatch => "mismatch" | .notResponse => "upstream"
  | .tooDeep => "upstream"

def outcomeStr : Ctl.Outcome → String
  | .wrote r => s!"wrote:id={r.id},q={qStr r.q},rc={r.rcode},tc={b01 r.tc},ans={r.ans}"
  | .error e => s!"error:{errStr e}"

def cpcStr : Ctl.Pc → String
  | .init => "init" | .missed => "missed" | .leading f => s!"leading:{f}" | .waiting _ => "waiting" | .done => "done"

/-- insertion sort on strings (cache entries are printed in a canonical order) -/
def sortStrs (l : List String) : List String :=
  l.foldl (fun acc x =>
    let (a, b) := acc.span (fun y => y < x)
    a ++ [x] ++ b) []

def cacheStr (c : List (Ctl.Key × Ctl.Entry)) : String :=
  if c.isEmpty then "-" else
  ",".intercalate (sortStrs (c.map fun (k, e) => s!"{k.name}.{k.qtype}.{k.scope}>{e.q.name}.{e.q.spell}.{e.q.qtype}/{e.ans}"))

def cOut (before after : Ctl.St) (i : Nat) : String :=
  let pc := match after.pcs[i]? with | some p => cpcStr p | none => "none"
  let out := if after.outs.length > before.outs.length then
      (match after.outs.getLast? with | some (_, o) => outcomeStr o | none => "-") else "-"
  s!"pc={pc} out={out} calls={after.calls.length} cache={cacheStr after.cache}"

def handleC (d : DSt) : List String → DSt × String
  | "reset" :: chk :: clients =>
    match clients.mapM parseClient with
    | some cs => ({ d with ccfg := ⟨p01 chk⟩, c := Ctl.init cs }, s!"clients={cs.length}")
    | none => (d, "bad-op")
  | ["arrive", i] =>
    match i.toNat? with
    | some i => let c := Ctl.step d.ccfg d.c (.arrive i); ({ d with c := c }, cOut d.c c i)
    | none => (d, "bad-op")
  | ["refuse", i] =>
    match i.toNat? with
    | some i => let c := Ctl.step d.ccfg d.c (.refuse i); ({ d with c := c }, cOut d.c c i)
    | none => (d, "bad-op")
  | ["join", i] =>
    match i.toNat? with
    | some i => let c := Ctl.step d.ccfg d.c (.join i); ({ d with c := c }, cOut d.c c i)
    | none => (d, "bad-op")
  | "refresh" :: i :: sch :: rr :: ev :: atts =>
    -- ev = 1: the harness saw the (still stale) entry dropped by backgroundRefresh's deferred clean-up,
    -- which is an `evict` of that key in the model
    match i.toNat?, parseScheme sch, atts.mapM parseAtt with
    | some i, some sch, some atts =>
      let rounds := mkRounds (p01 rr) sch atts
      let c := Ctl.step d.ccfg d.c (.refresh i sch rounds)
      let xch := match d.c.clients[i]? with
        | some cl => Ctl.exchanges d.ccfg cl 0 sch rounds
        | none => 0
      let c := match ev == "1", c.clients[i]? with
        | true, some cl => Ctl.step d.ccfg c (.evict cl.key)
        | _, _ => c
      ({ d with c := c }, s!"xch={xch} " ++ cOut d.c c 1000000)
    | _, _, _ => (d, "bad-op")
  | ["wake", i] =>
    match i.toNat? with
    | some i => let c := Ctl.step d.ccfg d.c (.wake i); ({ d with c := c }, cOut d.c c i)
    | none => (d, "bad-op")
  | ["gone", i] =>
    -- client i's own request context ends; nothing but the ghost list changes
    match i.toNat? with
    | some i => let c := Ctl.step d.ccfg d.c (.gone i); ({ d with c := c }, "others-finished=- " ++ cOut d.c c i)
    | none => (d, "bad-op")
  | ["malformed", i] =>
    -- the harness reports what became of a query without exactly one question that the real code did NOT refuse
    -- at once; in the model it was refused (FORMERR) by `arrive`: nothing happens here
    match i.toNat? with
    | some i => (d, cOut d.c d.c i)
    | none => (d, "bad-op")
  | ["evict", n, t, sc] =>
    match n.toNat?, t.toNat?, sc.toNat? with
    | some n, some t, some sc =>
      let c := Ctl.step d.ccfg d.c (.evict ⟨n, t, 1, sc⟩); ({ d with c := c }, cOut d.c c 1000000)
    | _, _, _ => (d, "bad-op")
  | ["respell", n, t, sc, sp] =>
    match n.toNat?, t.toNat?, sc.toNat?, sp.toNat? with
    | some n, some t, some sc, some sp =>
      let c := Ctl.step d.ccfg d.c (.respell ⟨n, t, 1, sc⟩ sp); ({ d with c := c }, cOut d.c c 1000000)
    | _, _, _, _ => (d, "bad-op")
  | "resolve" :: f :: sch :: rr :: atts =>
    match f.toNat?, parseScheme sch, atts.mapM parseAtt with
    | some f, some sch, some atts =>
      let rounds := mkRounds (p01 rr) sch atts
      let c := Ctl.step d.ccfg d.c (.resolve f sch rounds)
      let leader := match d.c.flights[f]? with | some fl => fl.leader | none => 0
      let xch := match d.c.clients[leader]? with
        | some cl => Ctl.exchanges d.ccfg cl 0 sch rounds
        | none => 0
      let res := match c.flights[f]? with
        | some fl => (match fl.result with
          | some (.ok m) => s!"ok:id={m.id}"
          | some (.err e) => s!"err:{errStr e}"
          | none => "running")
        | none => "none"
      ({ d with c := c }, s!"res={res} xch={xch} " ++ cOut d.c c leader)
    | _, _, _ => (d, "bad-op")
  | _ => (d, "bad-op")

/-! ### Pipe -/
def pMsgStr (m : Pipe.Msg) : String := s!"msg:{m.id}.{m.tag}.{m.conn}"
def pValStr : Option Pipe.Msg → String
  | some m => pMsgStr m
  | none => "nil"
def pResStr : Pipe.Res → String
  | .msg m => pMsgStr m | .eof => "eof" | .ctxErr => "ctx" | .writeErr => "write-err"
def pPcStr : Pipe.WPc → String
  | .idle => "idle" | .waiting c id s => s!"waiting:{c}.{id}.{s}"
  | .leaving c id s r res => s!"leaving:{c}.{id}.{s}.{b01 r}.{pResStr res}" | .done r => s!"done:{pResStr r}"

def handleP (d : DSt) : List String → DSt × String
  | ["reset", pol] =>
    ({ d with ppol := if pol == "always" then .always else .whenReleased, p := Pipe.init }, "ok")
  | ["start", w, c, id, sl] =>
    match w.toNat?, c.toNat?, id.toNat?, sl.toNat? with
    | some w, some c, some id, some sl =>
      let p := Pipe.step d.ppol d.p (.start w c id sl)
      ({ d with p := p }, if p.pc w == .waiting c id sl && d.p.pc w == .idle then "ok" else
        s!"disabled:free={b01 (d.p.free sl)},alloc={b01 (d.p.alloc c id)},pc={pPcStr (d.p.pc w)}")
    | _, _, _, _ => (d, "bad-op")
  | ["recv", c, id, tag] =>
    match c.toNat?, id.toNat?, tag.toNat? with
    | some c, some id, some tag =>
      let held := d.p.pending c id
      let p := Pipe.step d.ppol d.p (.recvSwap c id tag)
      ({ d with p := p }, match held with | some sl => s!"held={sl}" | none => "held=-")
    | _, _, _ => (d, "bad-op")
  | ["closeswap", c, id] =>
    match c.toNat?, id.toNat? with
    | some c, some id =>
      let held := if d.p.closed c then d.p.pending c id else none
      let p := Pipe.step d.ppol d.p (.closeSwap c id)
      ({ d with p := p }, match held with | some sl => s!"held={sl}" | none => "held=-")
    | _, _ => (d, "bad-op")
  | ["set", sl] =>
    match sl.toNat? with
    | some sl =>
      let p := Pipe.step d.ppol d.p (.set sl)
      ({ d with p := p }, match p.box sl with | some v => s!"box={pValStr v}" | none => "box=none")
    | none => (d, "bad-op")
  | ["take", w] =>
    match w.toNat? with
    | some w =>
      let p := Pipe.step d.ppol d.p (.take w)
      let got := if p.log.length > d.p.log.length then
          (match p.log.getLast? with | some (_, _, _, v) => pValStr v | none => "-") else "-"
      ({ d with p := p }, s!"got={got}")
    | none => (d, "bad-op")
  | ["cancel", w] =>
    match w.toNat? with
    | some w =>
      let p := Pipe.step d.ppol d.p (.cancel w)
      let closed := match p.pc w with | .leaving c _ _ _ _ => b01 (p.closed c) | _ => "-"
      ({ d with p := p }, s!"pc={pPcStr (p.pc w)} closed={closed}")
    | none => (d, "bad-op")
  | ["writefail", w] =>
    match w.toNat? with
    | some w => let p := Pipe.step d.ppol d.p (.writeFail w); ({ d with p := p }, s!"pc={pPcStr (p.pc w)}")
    | none => (d, "bad-op")
  | ["abort", w] =>
    match w.toNat? with
    | some w => let p := Pipe.step d.ppol d.p (.abort w); ({ d with p := p }, s!"pc={pPcStr (p.pc w)}")
    | none => (d, "bad-op")
  | ["close", c] =>
    match c.toNat? with
    | some c => let p := Pipe.step d.ppol d.p (.connClose c); ({ d with p := p }, s!"closed={b01 (p.closed c)}")
    | none => (d, "bad-op")
  | ["leave", w] =>
    match w.toNat? with
    | some w => let p := Pipe.step d.ppol d.p (.leave w); ({ d with p := p }, s!"pc={pPcStr (p.pc w)}")
    | none => (d, "bad-op")
  | ["alloc", next, used] =>
    -- used = comma separated allocated ids (or -)
    match next.toNat? with
    | some next =>
      let ids := if used == "-" then [] else (used.splitOn ",").filterMap String.toNat?
      (d, match Pipe.allocate (fun i => ids.contains i) next with | some id => s!"id={id}" | none => "id=none")
    | none => (d, "bad-op")
  | _ => (d, "bad-op")

def handle (d : DSt) (line : String) : DSt × String :=
  match words line with
  | "F" :: rest => handleF d rest
  | "U" :: rest => handleU d rest
  | "C" :: rest => handleC d rest
  | "P" :: rest => handleP d rest
  | "L" :: rest => handleL d rest
  | "X" :: _ => (d, "inconclusive")
  | "H" :: _ => (d, "no-such-behaviour: every enabled step of the model can be taken")  -- a hang of the real code  -- a history the harness abandoned (its goroutines were not scheduled in time)
  | _ => (d, "bad-op")

def main : IO Unit := lineLoopS ({} : DSt) handle
