import DaeVerif.C09.FwdModel
/-! Invariant of the cached-forwarder protocol (C09 `Fwd`). -/
namespace DaeVerif.C09

namespace Fwd

def holds : Pc → Bool
  | .b3 | .b4 | .busy | .e1 => true
  | _ => false
def isUsing : Pc → Bool
  | .busy => true
  | _ => false
def knows : Pc → Bool
  | .b4 | .b5 | .e2r | .e3 | .r2 | .r3 => true
  | _ => false
def closing : Pc → Bool
  | .b5 | .e3 | .r3 => true
  | _ => false
def closer : Pc → Bool
  | .r2 | .r3 | .b5 | .e3 | .e2 | .e2r => true
  | _ => false
def rawCloser : Pc → Bool
  | .v3 => true
  | _ => false

def isE2 : Pc → Bool
  | .e2 => true
  | _ => false

def Cfg.Good (cfg : Cfg) : Prop := cfg.evictRetires = true ∧ cfg.endUse ≠ .split

structure Inv (cfg : Cfg) (s : St) : Prop where
  cnt : s.inFlight = (s.pcs.countP holds : Nat)
  closes1 : s.once = true → s.closes = 1
  closes0 : s.once = false → s.closes = 0
  knowsRet : 0 < s.pcs.countP knows → s.retired = true
  onceRet : s.once = true → s.retired = true
  noUse : (s.once = true ∨ 0 < s.pcs.countP closing) → s.pcs.countP isUsing = 0
  live : s.retired = true → s.once = false → 0 < s.pcs.countP closer ∨ 0 < s.inFlight
  noRaw : s.pcs.countP rawCloser = 0
  noE2 : cfg.endUse = .atomic → s.pcs.countP isE2 = 0
  bad : s.badUses = 0

theorem countP_replicate_idle (f : Pc → Bool) (h : f .idle = false) (n : Nat) :
    (List.replicate n Pc.idle).countP f = 0 := by
  induction n with
  | zero => simp
  | succ n ih => simp [List.replicate_succ, h, ih]

theorem inv_init (cfg : Cfg) (n : Nat) : Inv cfg (init n) := by
  constructor <;>
    simp [init, countP_replicate_idle holds rfl, countP_replicate_idle knows rfl,
      countP_replicate_idle closing rfl, countP_replicate_idle isUsing rfl,
      countP_replicate_idle closer rfl, countP_replicate_idle rawCloser rfl,
      countP_replicate_idle isE2 rfl]

/-- moving goroutine `t` from `p` to `q`, all class counts at once -/
theorem move_counts (pcs : List Pc) (t : Nat) (p q : Pc) (h : pcs[t]? = some p) :
    ((pcs.set t q).countP holds + (if holds p then 1 else 0) = pcs.countP holds + (if holds q then 1 else 0)) ∧
    ((pcs.set t q).countP isUsing + (if isUsing p then 1 else 0) = pcs.countP isUsing + (if isUsing q then 1 else 0)) ∧
    ((pcs.set t q).countP knows + (if knows p then 1 else 0) = pcs.countP knows + (if knows q then 1 else 0)) ∧
    ((pcs.set t q).countP closing + (if closing p then 1 else 0) = pcs.countP closing + (if closing q then 1 else 0)) ∧
    ((pcs.set t q).countP closer + (if closer p then 1 else 0) = pcs.countP closer + (if closer q then 1 else 0)) ∧
    ((pcs.set t q).countP rawCloser + (if rawCloser p then 1 else 0) = pcs.countP rawCloser + (if rawCloser q then 1 else 0)) ∧
    ((pcs.set t q).countP isE2 + (if isE2 p then 1 else 0) = pcs.countP isE2 + (if isE2 q then 1 else 0)) :=
  ⟨countP_set_add _ _ _ _ _ h, countP_set_add _ _ _ _ _ h, countP_set_add _ _ _ _ _ h,
   countP_set_add _ _ _ _ _ h, countP_set_add _ _ _ _ _ h, countP_set_add _ _ _ _ _ h,
   countP_set_add _ _ _ _ _ h⟩

macro "mv" h:ident p:term "," q:term : tactic =>
  `(tactic| (
    have hm := move_counts _ _ $p $q $h
    simp only [holds, isUsing, knows, closing, closer, rawCloser, isE2, if_true, if_false,
      Bool.false_eq_true, Nat.add_zero] at hm
    obtain ⟨h1, h2, h3, h4, h5, h6, h7⟩ := hm))

theorem sub_counts (l : List Pc) :
    l.countP isUsing ≤ l.countP holds ∧ l.countP closing ≤ l.countP knows ∧
    l.countP closing ≤ l.countP closer := by
  refine ⟨List.countP_mono_left ?_, List.countP_mono_left ?_, List.countP_mono_left ?_⟩ <;>
    intro x _ <;> cases x <;> simp [isUsing, holds, closing, knows, closer]

macro "gen" s:ident t:ident q:term : tactic =>
  `(tactic| (
    have m1 := sub_counts (St.pcs $s)
    have m2 := sub_counts (List.set (St.pcs $s) $t $q)
    generalize List.countP holds (List.set (St.pcs $s) $t $q) = H' at *
    generalize List.countP isUsing (List.set (St.pcs $s) $t $q) = U' at *
    generalize List.countP knows (List.set (St.pcs $s) $t $q) = K' at *
    generalize List.countP closing (List.set (St.pcs $s) $t $q) = C' at *
    generalize List.countP closer (List.set (St.pcs $s) $t $q) = L' at *
    generalize List.countP rawCloser (List.set (St.pcs $s) $t $q) = R' at *
    generalize List.countP isE2 (List.set (St.pcs $s) $t $q) = E' at *
    generalize List.countP holds (St.pcs $s) = H at *
    generalize List.countP isUsing (St.pcs $s) = U at *
    generalize List.countP knows (St.pcs $s) = K at *
    generalize List.countP closing (St.pcs $s) = C at *
    generalize List.countP closer (St.pcs $s) = L at *
    generalize List.countP rawCloser (St.pcs $s) = R at *
    generalize List.countP isE2 (St.pcs $s) = E at *))

macro "fin" cfg:ident s:ident : tactic =>
  `(tactic| (intros; cases he : Cfg.endUse $cfg <;> cases hr : St.retired $s <;> cases ho : St.once $s <;>
      simp only [he, hr, ho, Bool.false_eq_true, Bool.true_eq_false, reduceCtorEq, true_implies, false_implies,
        forall_const, true_or, false_or, or_true, or_false, not_true_eq_false, ne_eq,
        not_false_eq_true, implies_true, imp_self, imp_false, true_and, and_true, false_and, and_false] at * <;> omega))

macro "fwd" cfg:ident s:ident t:ident h:ident p:term "," q:term : tactic =>
  `(tactic| (mv $h $p, $q; constructor <;> dsimp only [St.setPc] <;> gen $s $t $q <;> fin $cfg $s))

theorem inv_step_b1 (cfg : Cfg) (hg : cfg.Good) (s : St) (t : Nat) (h : s.pcs[t]? = some Pc.b1)
    (hi : Inv cfg s) : Inv cfg (stepPc cfg s t) := by
  obtain ⟨c1, c2a, c2b, c3, c4, c5, c6, c7, c9, c8⟩ := hi
  obtain ⟨hg1, hg2⟩ := hg
  simp only [stepPc, h]
  split
  · fwd cfg s t h Pc.b1, Pc.idle
  · fwd cfg s t h Pc.b1, Pc.b2

theorem inv_step_b2 (cfg : Cfg) (hg : cfg.Good) (s : St) (t : Nat) (h : s.pcs[t]? = some Pc.b2)
    (hi : Inv cfg s) : Inv cfg (stepPc cfg s t) := by
  obtain ⟨c1, c2a, c2b, c3, c4, c5, c6, c7, c9, c8⟩ := hi
  obtain ⟨hg1, hg2⟩ := hg
  simp only [stepPc, h]
  fwd cfg s t h Pc.b2, Pc.b3

theorem inv_step_b3 (cfg : Cfg) (hg : cfg.Good) (s : St) (t : Nat) (h : s.pcs[t]? = some Pc.b3)
    (hi : Inv cfg s) : Inv cfg (stepPc cfg s t) := by
  obtain ⟨c1, c2a, c2b, c3, c4, c5, c6, c7, c9, c8⟩ := hi
  obtain ⟨hg1, hg2⟩ := hg
  simp only [stepPc, h]
  split
  · fwd cfg s t h Pc.b3, Pc.b4
  · fwd cfg s t h Pc.b3, Pc.busy

theorem inv_step_b4 (cfg : Cfg) (hg : cfg.Good) (s : St) (t : Nat) (h : s.pcs[t]? = some Pc.b4)
    (hi : Inv cfg s) : Inv cfg (stepPc cfg s t) := by
  obtain ⟨c1, c2a, c2b, c3, c4, c5, c6, c7, c9, c8⟩ := hi
  obtain ⟨hg1, hg2⟩ := hg
  simp only [stepPc, h]
  split
  · fwd cfg s t h Pc.b4, Pc.b5
  · fwd cfg s t h Pc.b4, Pc.idle

theorem inv_step_b5 (cfg : Cfg) (hg : cfg.Good) (s : St) (t : Nat) (h : s.pcs[t]? = some Pc.b5)
    (hi : Inv cfg s) : Inv cfg (stepPc cfg s t) := by
  obtain ⟨c1, c2a, c2b, c3, c4, c5, c6, c7, c9, c8⟩ := hi
  obtain ⟨hg1, hg2⟩ := hg
  simp only [stepPc, h]
  simp only [St.closeNow]
  split
  · fwd cfg s t h Pc.b5, Pc.idle
  · fwd cfg s t h Pc.b5, Pc.idle

theorem inv_step_e1 (cfg : Cfg) (hg : cfg.Good) (s : St) (t : Nat) (h : s.pcs[t]? = some Pc.e1)
    (hi : Inv cfg s) : Inv cfg (stepPc cfg s t) := by
  obtain ⟨c1, c2a, c2b, c3, c4, c5, c6, c7, c9, c8⟩ := hi
  obtain ⟨hg1, hg2⟩ := hg
  simp only [stepPc, h]
  split
  · split
    · split
      · fwd cfg s t h Pc.e1, Pc.e3
      · fwd cfg s t h Pc.e1, Pc.idle
    · fwd cfg s t h Pc.e1, Pc.e2
  · fwd cfg s t h Pc.e1, Pc.idle

theorem inv_step_e2 (cfg : Cfg) (hg : cfg.Good) (s : St) (t : Nat) (h : s.pcs[t]? = some Pc.e2)
    (hi : Inv cfg s) : Inv cfg (stepPc cfg s t) := by
  obtain ⟨c1, c2a, c2b, c3, c4, c5, c6, c7, c9, c8⟩ := hi
  obtain ⟨hg1, hg2⟩ := hg
  simp only [stepPc, h]
  split
  · split
    · fwd cfg s t h Pc.e2, Pc.e2r
    · fwd cfg s t h Pc.e2, Pc.e3
  · fwd cfg s t h Pc.e2, Pc.idle

theorem inv_step_e2r (cfg : Cfg) (hg : cfg.Good) (s : St) (t : Nat) (h : s.pcs[t]? = some Pc.e2r)
    (hi : Inv cfg s) : Inv cfg (stepPc cfg s t) := by
  obtain ⟨c1, c2a, c2b, c3, c4, c5, c6, c7, c9, c8⟩ := hi
  obtain ⟨hg1, hg2⟩ := hg
  simp only [stepPc, h]
  split
  · fwd cfg s t h Pc.e2r, Pc.e3
  · fwd cfg s t h Pc.e2r, Pc.idle

theorem inv_step_e3 (cfg : Cfg) (hg : cfg.Good) (s : St) (t : Nat) (h : s.pcs[t]? = some Pc.e3)
    (hi : Inv cfg s) : Inv cfg (stepPc cfg s t) := by
  obtain ⟨c1, c2a, c2b, c3, c4, c5, c6, c7, c9, c8⟩ := hi
  obtain ⟨hg1, hg2⟩ := hg
  simp only [stepPc, h]
  simp only [St.closeNow]
  split
  · fwd cfg s t h Pc.e3, Pc.idle
  · fwd cfg s t h Pc.e3, Pc.idle

theorem inv_step_r1 (cfg : Cfg) (hg : cfg.Good) (s : St) (t : Nat) (h : s.pcs[t]? = some Pc.r1)
    (hi : Inv cfg s) : Inv cfg (stepPc cfg s t) := by
  obtain ⟨c1, c2a, c2b, c3, c4, c5, c6, c7, c9, c8⟩ := hi
  obtain ⟨hg1, hg2⟩ := hg
  simp only [stepPc, h]
  fwd cfg s t h Pc.r1, Pc.r2

theorem inv_step_r2 (cfg : Cfg) (hg : cfg.Good) (s : St) (t : Nat) (h : s.pcs[t]? = some Pc.r2)
    (hi : Inv cfg s) : Inv cfg (stepPc cfg s t) := by
  obtain ⟨c1, c2a, c2b, c3, c4, c5, c6, c7, c9, c8⟩ := hi
  obtain ⟨hg1, hg2⟩ := hg
  simp only [stepPc, h]
  split
  · fwd cfg s t h Pc.r2, Pc.r3
  · fwd cfg s t h Pc.r2, Pc.idle

theorem inv_step_r3 (cfg : Cfg) (hg : cfg.Good) (s : St) (t : Nat) (h : s.pcs[t]? = some Pc.r3)
    (hi : Inv cfg s) : Inv cfg (stepPc cfg s t) := by
  obtain ⟨c1, c2a, c2b, c3, c4, c5, c6, c7, c9, c8⟩ := hi
  obtain ⟨hg1, hg2⟩ := hg
  simp only [stepPc, h]
  simp only [St.closeNow]
  split
  · fwd cfg s t h Pc.r3, Pc.idle
  · fwd cfg s t h Pc.r3, Pc.idle

theorem inv_step_v1 (cfg : Cfg) (hg : cfg.Good) (s : St) (t : Nat) (h : s.pcs[t]? = some Pc.v1)
    (hi : Inv cfg s) : Inv cfg (stepPc cfg s t) := by
  obtain ⟨c1, c2a, c2b, c3, c4, c5, c6, c7, c9, c8⟩ := hi
  obtain ⟨hg1, hg2⟩ := hg
  simp only [stepPc, h]
  split
  · fwd cfg s t h Pc.v1, Pc.idle
  · fwd cfg s t h Pc.v1, Pc.v2

theorem inv_step_v2 (cfg : Cfg) (hg : cfg.Good) (s : St) (t : Nat) (h : s.pcs[t]? = some Pc.v2)
    (hi : Inv cfg s) : Inv cfg (stepPc cfg s t) := by
  obtain ⟨c1, c2a, c2b, c3, c4, c5, c6, c7, c9, c8⟩ := hi
  obtain ⟨hg1, hg2⟩ := hg
  simp only [stepPc, h]
  simp only [hg1, if_true]
  split
  · fwd cfg s t h Pc.v2, Pc.r1
  · fwd cfg s t h Pc.v2, Pc.idle

theorem inv_step_v3 (cfg : Cfg) (hg : cfg.Good) (s : St) (t : Nat) (h : s.pcs[t]? = some Pc.v3)
    (hi : Inv cfg s) : Inv cfg (stepPc cfg s t) := by
  obtain ⟨c1, c2a, c2b, c3, c4, c5, c6, c7, c9, c8⟩ := hi
  obtain ⟨hg1, hg2⟩ := hg
  simp only [stepPc, h]
  fwd cfg s t h Pc.v3, Pc.idle

theorem inv_step_c1 (cfg : Cfg) (hg : cfg.Good) (s : St) (t : Nat) (h : s.pcs[t]? = some Pc.c1)
    (hi : Inv cfg s) : Inv cfg (stepPc cfg s t) := by
  obtain ⟨c1, c2a, c2b, c3, c4, c5, c6, c7, c9, c8⟩ := hi
  obtain ⟨hg1, hg2⟩ := hg
  simp only [stepPc, h]
  split
  · fwd cfg s t h Pc.c1, Pc.r1
  · fwd cfg s t h Pc.c1, Pc.idle

theorem inv_stepPc (cfg : Cfg) (hg : cfg.Good) (s : St) (t : Nat) (hi : Inv cfg s) :
    Inv cfg (stepPc cfg s t) := by
  cases h : s.pcs[t]? with
  | none => simpa [stepPc, h] using hi
  | some p =>
    cases p
    case idle => simpa [stepPc, h] using hi
    case busy => simpa [stepPc, h] using hi
    case b1 => exact inv_step_b1 cfg hg s t h hi
    case b2 => exact inv_step_b2 cfg hg s t h hi
    case b3 => exact inv_step_b3 cfg hg s t h hi
    case b4 => exact inv_step_b4 cfg hg s t h hi
    case b5 => exact inv_step_b5 cfg hg s t h hi
    case e1 => exact inv_step_e1 cfg hg s t h hi
    case e2 => exact inv_step_e2 cfg hg s t h hi
    case e2r => exact inv_step_e2r cfg hg s t h hi
    case e3 => exact inv_step_e3 cfg hg s t h hi
    case r1 => exact inv_step_r1 cfg hg s t h hi
    case r2 => exact inv_step_r2 cfg hg s t h hi
    case r3 => exact inv_step_r3 cfg hg s t h hi
    case v1 => exact inv_step_v1 cfg hg s t h hi
    case v2 => exact inv_step_v2 cfg hg s t h hi
    case v3 => exact inv_step_v3 cfg hg s t h hi
    case c1 => exact inv_step_c1 cfg hg s t h hi


theorem inv_setPc_call (cfg : Cfg) (s : St) (t : Nat) (p q : Pc) (h : s.pcs[t]? = some p)
    (hp : p = .idle ∨ p = .busy)
    (hq : (p = .idle ∧ (q = .b1 ∨ q = .r1 ∨ q = .c1 ∨ q = .v1)) ∨ (p = .busy ∧ q = .e1))
    (hi : Inv cfg s) : Inv cfg (s.setPc t q) := by
  obtain ⟨c1, c2a, c2b, c3, c4, c5, c6, c7, c9, c8⟩ := hi
  rcases hq with ⟨rfl, rfl | rfl | rfl | rfl⟩ | ⟨rfl, rfl⟩
  · fwd cfg s t h Pc.idle, Pc.b1
  · fwd cfg s t h Pc.idle, Pc.r1
  · fwd cfg s t h Pc.idle, Pc.c1
  · fwd cfg s t h Pc.idle, Pc.v1
  · fwd cfg s t h Pc.busy, Pc.e1

theorem inv_step (cfg : Cfg) (hg : cfg.Good) (s : St) (a : Act) (hi : Inv cfg s) :
    Inv cfg (step cfg s a) := by
  cases a with
  | callBegin t =>
    simp only [step]; split
    · next h => exact inv_setPc_call cfg s t _ _ h (.inl rfl) (.inl ⟨rfl, .inl rfl⟩) hi
    · exact hi
  | callEnd t =>
    simp only [step]; split
    · next h => exact inv_setPc_call cfg s t _ _ h (.inr rfl) (.inr ⟨rfl, rfl⟩) hi
    · exact hi
  | callRetire t =>
    simp only [step]; split
    · next h => exact inv_setPc_call cfg s t _ _ h (.inl rfl) (.inl ⟨rfl, .inr (.inl rfl)⟩) hi
    · exact hi
  | callRetireCached t =>
    simp only [step]; split
    · next h => exact inv_setPc_call cfg s t _ _ h (.inl rfl) (.inl ⟨rfl, .inr (.inr (.inl rfl))⟩) hi
    · exact hi
  | callEvict t =>
    simp only [step]; split
    · next h => exact inv_setPc_call cfg s t _ _ h (.inl rfl) (.inl ⟨rfl, .inr (.inr (.inr rfl))⟩) hi
    · exact hi
  | forward t =>
    simp only [step]; split
    · next h =>
      split
      · next hc =>
        -- a goroutine is in `busy`, so the forwarder cannot have been closed
        exfalso
        obtain ⟨c1, c2a, c2b, c3, c4, c5, c6, c7, c9, c8⟩ := hi
        have hpos : 0 < s.pcs.countP isUsing := by
          apply List.countP_pos_iff.mpr
          exact ⟨Pc.busy, List.mem_of_getElem? h, rfl⟩
        cases ho : s.once
        · have := c2b ho; omega
        · have := c5 (.inl ho); omega
      · exact hi
    · exact hi
  | step t => exact inv_stepPc cfg hg s t hi

theorem inv_run (cfg : Cfg) (hg : cfg.Good) (as : List Act) : ∀ s, Inv cfg s → Inv cfg (run cfg s as) := by
  induction as with
  | nil => intro s h; exact h
  | cons a as ih => intro s h; exact ih _ (inv_step cfg hg s a h)

theorem countP_zero_of_all_idle (f : Pc → Bool) (hf : f .idle = false) (l : List Pc)
    (h : ∀ p ∈ l, p = Pc.idle) : l.countP f = 0 := by
  apply List.countP_eq_zero.mpr
  intro p hp; rw [h p hp, hf]; simp

end Fwd


end DaeVerif.C09
