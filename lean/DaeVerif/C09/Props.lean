import DaeVerif.C09.Proofs
/-!
# C09 — property theorems

"Every DNS client gets an answer to its own question under its own ID": the statements a reader
should audit.  Helper lemmas and the inductive invariants are in `Proofs.lean`; the models (the same
definitions the driver `c09drv` executes against the real code) are in `Model.lean`.

Each clause of the property is one section:

* §1 `Ctl`  — every reply carries the client's ID and question; nothing is cached or served under a
              name/type it is not an answer to; singleflight: one resolution, every waiter served.
* §2 `Udp`  — `DoUDP.ForwardDNS` only returns a datagram carrying the request's ID.
* §3 `Pipe` — pipelined TCP: a delivered message carries the ID its waiter allocated and was read
              from that waiter's connection; a timeout closes.
* §4 `Fwd`  — a retired forwarder is closed exactly once, after its last in-flight query.
* §5 `Loop` — … and `forwardWithDialArg` / `getOrCreateDnsForwarder` / the retire paths use the entries by that
              protocol: every forwarder ever created is closed at most once, never under an exchange, and none is
              leaked.
-/
namespace DaeVerif.C09.Props
open DaeVerif.C09

/-! ## §1 controller glue -/
section Ctl
open Ctl

/-- **ID and question.** Whatever the interleaving of clients (equal or different questions,
colliding IDs), whatever the upstream sends at every attempt (any ID, any question, any rcode, TC,
failure → TCP fallback), and whenever cache entries are evicted: every message written to a client
carries that client's transaction ID and that client's question (up to the case of the name). -/
theorem reply_carries_client_id_and_question (cs : List Client) (as : List Act) (i : Nat) (r : Reply)
    (h : (i, Outcome.wrote r) ∈ (run codeCfg (init cs) as).outs) :
    ∃ c, cs[i]? = some c ∧ r.id = c.id ∧
      (c.nq ≠ 0 → ∃ rq, r.q = some rq ∧ rq.name = c.q.name ∧ rq.qtype = c.q.qtype ∧ rq.qclass = c.q.qclass) ∧
      (c.nq ≠ 1 → r = ownReply c rcodeFormErr false) ∧ (c.nq = 0 → r.q = none) := by
  have hinv := inv_run codeCfg rfl as _ (inv_init cs)
  have hform := formInv_run codeCfg as _ (formInv_init cs)
  obtain ⟨c, hc, hg⟩ := hinv.outsGood i _ h
  obtain ⟨hid, hq⟩ := hg r rfl
  have hcl : (run codeCfg (init cs) as).clients = cs := by
    have : ∀ (as : List Act) (s : St), (run codeCfg s as).clients = s.clients := by
      intro as
      induction as with
      | nil => intro s; rfl
      | cons a as ih =>
        intro s
        simp only [run, List.foldl_cons] at ih ⊢
        rw [ih]
        cases a <;> simp only [step] <;> (repeat' split) <;> rfl
    exact this as _
  have hf : c.nq ≠ 1 → r = ownReply c rcodeFormErr false := by
    intro hn
    have := hform.2 i _ c h hc hn
    cases this; rfl
  rw [hcl] at hc
  refine ⟨c, hc, hid, ?_, hf, ?_⟩
  · intro hn
    obtain ⟨rq, hrq, hs⟩ := hq hn
    have hi := same_iff.mp hs
    simp only [Question.ident, Prod.mk.injEq] at hi
    exact ⟨rq, hrq, hi.1, hi.2.1, hi.2.2⟩
  · intro h0
    rw [hf (by omega)]
    simp [ownReply, h0]

/-- the hypothesis is satisfiable: two clients with the SAME transaction ID and differently-cased
spellings of one name, the second coalesced onto the first's resolution; both get a reply. -/
example :
    let cs : List Client := [⟨7, ⟨1, 0, 1, 1⟩, 0, .forward, 1⟩, ⟨7, ⟨1, 3, 1, 1⟩, 0, .forward, 1⟩]
    let s := run codeCfg (init cs)
      [.arrive 0, .join 0, .arrive 1, .join 1, .resolve 0 .udp [⟨(.msg ⟨99, some ⟨1, 0, 1, 1⟩, true, 0, false, 5, false⟩), .fail, .accept⟩], .wake 1, .wake 0]
    s.outs.length = 2 ∧ s.calls.length = 1 := by decide

/-- non-vacuity of the two new conjuncts: a query without a question (id 9) and one with two questions (id 10)
are answered FORMERR from the client's own message - in front of the limiter (`refuse`), routing, the cache and
the singleflight: no resolution is started and nothing is cached. -/
example :
    let cs : List Client := [⟨9, ⟨0, 0, 0, 0⟩, 0, .forward, 0⟩, ⟨10, ⟨1, 0, 1, 1⟩, 0, .forward, 2⟩]
    let s := run codeCfg (init cs) [.arrive 0, .join 0, .refuse 1, .join 1]
    s.outs = [(0, .wrote ⟨9, none, 1, false, 0, .own⟩), (1, .wrote ⟨10, some ⟨1, 0, 1, 1⟩, 1, false, 0, .own⟩)] ∧
      s.calls = [] ∧ s.cache = [] ∧ s.pcs = [.done, .done] := by decide

/-- the unrepaired guard (`len(Question) > 1` only), on the real code: a query WITHOUT a question goes on to the
upstream, `dnsResponseAnswersRequest` has nothing to compare, and the answer to `n5.a.test. A` is stored under the
key of the root name and type 0 and served to the next question-less client (finding
`c09-questionless-query-cached-under-root-key`; reproduced in `design_notes/C09.md`).  In this model such a
client never reaches `dialSend`; the statement below is what the repaired guard buys. -/
theorem malformed_query_touches_nothing (s : St) (i : Nat) (c : Client) (hc : s.clients[i]? = some c)
    (hp : s.pcs[i]? = some Pc.init) (hn : c.nq ≠ 1) :
    let s' := step codeCfg s (.arrive i)
    s'.cache = s.cache ∧ s'.calls = s.calls ∧ s'.flights = s.flights ∧ s'.active = s.active ∧
      s'.outs = s.outs ++ [(i, .wrote (ownReply c rcodeFormErr false))] := by
  simp [step, hc, hp, hn, St.setPc, St.emit]

/-! The replies the four callers of `Handle_` build on an error (SERVFAIL, TC=1) are not part of any theorem:
`errorReply` in the model is only the harness's reference for 60 direct calls of `sendDnsErrorResponse_` /
`sendDnsTruncatedResponse_`; the callers themselves (udp.go, tcp.go, dns_listener.go, control_plane.go) are
not executed by the tie. -/

/-- **No foreign answer is cached.** Every cache entry is stored under the key of the question its
packed bytes answer (name and type), in every reachable state. -/
theorem no_foreign_answer_cached (cs : List Client) (as : List Act) (k : Key) (e : Entry)
    (h : (k, e) ∈ (run codeCfg (init cs) as).cache) :
    e.q.name = k.name ∧ e.q.qtype = k.qtype ∧ e.q.qclass = k.qclass ∧ k.qclass = classIN := by
  have := (inv_run codeCfg rfl as _ (inv_init cs)).cacheSound k e h
  simp only [Question.ident, Key.ident, Prod.mk.injEq] at this
  exact ⟨this.1.1, this.1.2.1, this.1.2.2, this.2⟩

/-- … and this is what the question check of fix b94e062 buys: without it a reachable state caches,
and serves to a second client, the answer to another question (DESIGN §7 item 7). -/
theorem question_unchecked_witness :
    let cs : List Client := [⟨100, ⟨1, 0, 1, 1⟩, 0, .forward, 1⟩, ⟨101, ⟨1, 0, 1, 1⟩, 0, .forward, 1⟩]
    let s := run { checkQuestion := false } (init cs)
      [.arrive 0, .join 0, .resolve 0 .udp [⟨(.msg ⟨100, some ⟨2, 0, 1, 1⟩, true, 0, false, 6, false⟩), .fail, .accept⟩], .wake 0, .arrive 1]
    (∃ e, (Key.mk 1 1 1 0, e) ∈ s.cache ∧ e.q.name = 2) ∧
    (∃ r, (1, Outcome.wrote r) ∈ s.outs ∧ r.q = some ⟨2, 0, 1, 1⟩) := by
  refine ⟨⟨⟨⟨2, 0, 1, 1⟩, 6⟩, by decide, rfl⟩, ⟨⟨101, some ⟨2, 0, 1, 1⟩, 0, false, 6, .cache⟩, by decide, rfl⟩⟩

/-- **Singleflight: one resolution.** In every reachable state (a) every flight has at most one upstream
resolution (the log of resolutions names each flight at most once; a leader whose own re-check finds the
cache filled in the meantime starts none), (b) at most one flight runs per cache key — two clients attached
to running flights for the same key are attached to the same flight, (c) a client attached to a
flight asks the question the flight resolves. -/
theorem singleflight_one_resolution (cs : List Client) (as : List Act) :
    let s := run codeCfg (init cs) as
    ((s.calls.map (·.1)).Nodup ∧ ∀ f ∈ s.calls.map (·.1), f < s.flights.length) ∧
    (∀ (i j f g : Nat) (fi fj : Flight), (s.pcs[i]? = some (Pc.waiting f) ∨ s.pcs[i]? = some (Pc.leading f)) →
        (s.pcs[j]? = some (Pc.waiting g) ∨ s.pcs[j]? = some (Pc.leading g)) →
        s.flights[f]? = some fi → s.flights[g]? = some fj → fi.result = none → fj.result = none →
        fi.key = fj.key → f = g) ∧
    (∀ (i f : Nat), (s.pcs[i]? = some (Pc.waiting f) ∨ s.pcs[i]? = some (Pc.leading f)) →
        ∃ (c : Client) (fl : Flight), s.clients[i]? = some c ∧ s.flights[f]? = some fl ∧ fl.key = c.key) := by
  intro s
  have hinv : Inv s := inv_run codeCfg rfl as _ (inv_init cs)
  have hcalls := callsInv_run codeCfg as _ (callsInv_init cs)
  refine ⟨⟨hcalls.nodup, hcalls.bound⟩, ?_, hinv.attached⟩
  intro i j f g fi fj _ _ hf hg hri hrj hk
  have h1 := (hinv.runningActive f fi hf hri).1
  have h2 := (hinv.runningActive g fj hg hrj).1
  rw [hk] at h1
  exact hinv.activeUnique _ _ _ h1 h2

/-- … and a client that enters `sf.Do` while a flight for its key is running starts no resolution: it
waits on that flight. -/
theorem join_while_flight_runs_starts_no_resolution (s : St) (i f : Nat) (c : Client)
    (hc : s.clients[i]? = some c) (hp : s.pcs[i]? = some Pc.missed) (hf : lookup s.active c.key = some f) :
    (step codeCfg s (Act.join i)).calls = s.calls ∧ (step codeCfg s (Act.join i)).pcs[i]? = some (Pc.waiting f) :=
  join_running_no_call codeCfg s i f c hc hp hf

/-- **Response routing cannot make `dialSend` ask for ever**: whatever the upstreams send and whatever response
routing decides at every level, one `dialSend` issues at most `2 * MaxDnsLookupDepth` upstream exchanges (one per
level, two with the `tcp+udp` fallback), and every level is subject to the question check again - the theorems of
this section quantify over all scripts of rounds. -/
theorem reask_is_bounded (c : Client) (rounds : List Round) :
    ∀ (depth : Nat) (sch : Scheme), exchanges codeCfg c depth sch rounds ≤ 2 * (maxDepth - depth) := by
  induction rounds with
  | nil => intro depth sch; simp [exchanges]
  | cons r rest ih =>
    intro depth sch
    unfold exchanges
    split
    · omega
    · next hd =>
      have hn : legs sch r.a1 ≤ 2 := by
        unfold legs
        split
        · omega
        · split <;> omega
        · omega
      generalize legs sch r.a1 = n at hn
      simp only
      split
      · omega
      · split
        · omega
        · split
          · omega
          · split
            · next sch' _ => have := ih (depth + 1) sch'; omega
            · omega

/-- non-vacuity / the limits: response routing re-asks `ut` (tcp) for every answer; the third level is the
last one asked (`MaxDnsLookupDepth = 3`), then the resolution fails and nothing is cached; with an `accept` at the
third level the answer is cached under the FIRST upstream's key and written under the client's id; a `reject`
caches and writes the message with an empty answer section; an answer to another question at the second level
is refused there. -/
example :
    let c : Client := ⟨7, ⟨1, 0, 1, 1⟩, 10, .forward, 1⟩
    let ok (ans : Nat) : Att := .msg ⟨99, some ⟨1, 2, 1, 1⟩, true, 0, false, ans, false⟩
    let nx : Round := ⟨ok 600, .fail, .next .tcp⟩
    (dialSend codeCfg c 0 .udp [nx, nx, nx, ⟨ok 5, .fail, .accept⟩] []).1 = .err .tooDeep ∧
    exchanges codeCfg c 0 .udp [nx, nx, nx, ⟨ok 5, .fail, .accept⟩] = 3 ∧
    dialSend codeCfg c 0 .udp [nx, nx, ⟨ok 5, .fail, .accept⟩] [] =
      (.ok ⟨7, some ⟨1, 2, 1, 1⟩, true, 0, false, 5, false⟩, [(⟨1, 1, 1, 10⟩, ⟨⟨1, 0, 1, 1⟩, 5⟩)]) ∧
    dialSend codeCfg c 0 .udp [nx, ⟨ok 800, .fail, .reject⟩] [] =
      (.ok ⟨7, some ⟨1, 2, 1, 1⟩, true, 0, false, 0, false⟩, [(⟨1, 1, 1, 10⟩, ⟨⟨1, 0, 1, 1⟩, 0⟩)]) ∧
    (dialSend codeCfg c 0 .udp [nx, ⟨.msg ⟨7, some ⟨2, 0, 1, 1⟩, true, 0, false, 6, false⟩, .fail, .accept⟩] []).1
      = .err .mismatch := by decide

/-- **Where answers come from.** Every cached answer, and the answer of every reply that is not built from
the client's own message, is the answer section of an upstream message that `dialSend` accepted for that
very key (i.e. after the question check: its question has the key's name, type and class). -/
theorem answers_come_from_accepted_upstream_messages (cs : List Client) (as : List Act) :
    let s := run codeCfg (init cs) as
    (∀ (k : Key) (e : Entry), (k, e) ∈ s.cache → ∃ m : UpMsg, (k, m) ∈ s.accepted ∧ m.ans = e.ans) ∧
    (∀ (i : Nat) (r : Reply), (i, Outcome.wrote r) ∈ s.outs → r.src = Src.own ∨
      ∃ (c : Client) (m : UpMsg), s.clients[i]? = some c ∧ (c.key, m) ∈ s.accepted ∧ m.ans = r.ans) ∧
    (∀ (k : Key) (m : UpMsg), (k, m) ∈ s.accepted →
      ∃ mq : Question, m.q = some mq ∧ mq.name = k.name ∧ mq.qtype = k.qtype ∧ mq.qclass = k.qclass) := by
  intro s
  have hp := prov_run codeCfg rfl as _ (inv_init cs) (prov_init cs)
  have ha := acc_run codeCfg rfl as _ (by intro k m h; simp [init] at h : AccSound (init cs))
  refine ⟨hp.cacheProv, hp.outsProv, ?_⟩
  intro k m hm
  obtain ⟨mq, hq, hi⟩ := ha k m hm
  simp only [Question.ident, Key.ident, Prod.mk.injEq] at hi
  exact ⟨mq, hq, hi.1, hi.2.1, hi.2.2⟩

/-- k concurrent identical questions: one upstream resolution (non-vacuity of the above, with k=3
clients of which two collide on the ID). -/
example :
    let cs : List Client := [⟨7, ⟨1, 0, 1, 1⟩, 0, .forward, 1⟩, ⟨7, ⟨1, 1, 1, 1⟩, 0, .forward, 1⟩, ⟨9, ⟨1, 2, 1, 1⟩, 0, .forward, 1⟩]
    let s := run codeCfg (init cs) [.arrive 0, .arrive 1, .join 0, .arrive 2, .join 2, .join 1]
    s.calls.length = 1 ∧ s.pcs = [.leading 0, .waiting 0, .waiting 0] := by decide

/-- class is part of the question (fix 4150de7): a `CH` and an `IN` client for the same name and type are
not coalesced, the `CH` answer is not cached, the `IN` client is not served from it. -/
example :
    let cs : List Client := [⟨7, ⟨1, 0, 16, 3⟩, 0, .forward, 1⟩, ⟨8, ⟨1, 0, 16, 1⟩, 0, .forward, 1⟩]
    let s := run codeCfg (init cs)
      [.arrive 0, .join 0, .arrive 1, .join 1,
       .resolve 0 .udp [⟨(.msg ⟨7, some ⟨1, 0, 16, 3⟩, true, 0, false, 5, false⟩), .fail, .accept⟩], .wake 0]
    s.calls.length = 2 ∧ s.cache = [] ∧ s.pcs = [.done, .leading 1] := by decide

/-- the leader's re-check: the cache is filled between a client's first lookup and its `sf.Do`; it
becomes the leader of a flight that needs no upstream exchange. -/
example :
    let cs : List Client := [⟨7, ⟨1, 0, 1, 1⟩, 0, .forward, 1⟩, ⟨8, ⟨1, 2, 1, 1⟩, 0, .forward, 1⟩]
    let s := run codeCfg (init cs)
      [.arrive 0, .arrive 1, .join 0, .resolve 0 .udp [⟨(.msg ⟨7, some ⟨1, 0, 1, 1⟩, true, 0, false, 5, false⟩), .fail, .accept⟩], .join 1, .wake 1, .wake 0]
    s.calls.length = 1 ∧ s.flights.length = 2 ∧ s.outs.length = 2 := by decide

/-- **The leader's departure does not fail the followers** (nor anybody's departure anybody else): a client whose
own request context ends - as the leader of a running resolution, as a follower blocked in `sf.Do`, at any point of
any interleaving - changes nothing but the ghost list of who is gone.  Every history yields exactly the outcomes,
flights, cache and program counters of the same history with all departures erased; so, with
`singleflight_result_reaches_every_waiter` (which holds for every history, departures included), every waiter
receives the result of the one resolution whether or not the client that started it is still there. -/
theorem leader_departure_does_not_fail_followers (cs : List Client) (as : List Act) :
    let s := run codeCfg (init cs) as
    let s' := run codeCfg (init cs) (as.filter fun a => !a.isGone)
    s.outs = s'.outs ∧ s.flights = s'.flights ∧ s.cache = s'.cache ∧ s.pcs = s'.pcs ∧ s.calls = s'.calls := by
  intro s s'
  have h := strip_run codeCfg as (init cs)
  have hs' : s' = (run codeCfg (init cs) as).strip := by rw [h]; rfl
  rw [hs']
  exact ⟨rfl, rfl, rfl, rfl, rfl⟩

/-- … and the variant that binds the shared resolution to the LEADER's request context
(`context.WithTimeout(ctx, 5s)` inside `sf.Do`) fails it: the leader (id 7) goes away while the upstream is working;
the upstream then answers correctly, but the exchange was cancelled with the leader's context and the follower
(id 8, still there) gets an error - whereas the code as it is serves it the answer (non-vacuity of the theorem:
a history with a departure and a live follower). -/
theorem leader_bound_context_fails_followers :
    let cs : List Client := [⟨7, ⟨1, 0, 1, 1⟩, 0, .forward, 1⟩, ⟨8, ⟨1, 2, 1, 1⟩, 0, .forward, 1⟩]
    let as : List Act := [.arrive 0, .join 0, .arrive 1, .join 1, .gone 0,
      .resolve 0 .udp [⟨.msg ⟨7, some ⟨1, 0, 1, 1⟩, true, 0, false, 5, false⟩, .fail, .accept⟩], .wake 1]
    ((as.foldl (stepLeaderBound codeCfg) (init cs)).outs = [(1, .error .upstream)]) ∧
    ((run codeCfg (init cs) as).outs = [(1, .wrote ⟨8, some ⟨1, 0, 1, 1⟩, 0, false, 5, .cache⟩)]) ∧
    (run codeCfg (init cs) as).gone = [0] := by decide

/-- **… whose result reaches every waiter, once.** A client blocked in `sf.Do` on a finished flight
can return; when it does it is done and has exactly one outcome, which is an error only if the
flight's resolution failed; and no client ever has two outcomes. -/
theorem singleflight_result_reaches_every_waiter (cs : List Client) (as : List Act) :
    let s := run codeCfg (init cs) as
    (∀ (i f : Nat) (fl : Flight) (r : DRes), s.pcs[i]? = some (Pc.waiting f) → s.flights[f]? = some fl →
        fl.result = some r →
        let s' := step codeCfg s (Act.wake i)
        s'.pcs[i]? = some Pc.done ∧
          (∃ o : Outcome, (i, o) ∈ s'.outs ∧ ((∃ e, o = Outcome.error e) → ∃ e, r = DRes.err e))) ∧
    (s.outs.map (·.1)).Nodup ∧
    (∀ i : Nat, s.pcs[i]? = some Pc.done ↔ ∃ o : Outcome, (i, o) ∈ s.outs) := by
  intro s
  have hinv : Inv s := inv_run codeCfg rfl as _ (inv_init cs)
  refine ⟨?_, hinv.outsNodup, fun i => ⟨hinv.doneOuts i, fun ⟨o, ho⟩ => hinv.outsDone i o ho⟩⟩
  intro i f fl r hp hf hr
  obtain ⟨c, fl', hc, hf', _⟩ := hinv.attached i f (.inl hp)
  rw [hf] at hf'; cases hf'
  have hlt : i < s.pcs.length := by
    rcases List.getElem?_eq_some_iff.mp hp with ⟨h, _⟩; exact h
  simp only [step, hc, hp, hf, hr]
  cases r with
  | err e =>
    simp only [St.setPc, St.emit]
    exact ⟨List.getElem?_set_self hlt, _, List.mem_append_right _ (List.mem_singleton.mpr rfl), fun _ => ⟨e, rfl⟩⟩
  | ok m =>
    simp only
    split <;> simp only [St.setPc, St.emit] <;>
      exact ⟨List.getElem?_set_self hlt, _, List.mem_append_right _ (List.mem_singleton.mpr rfl),
        fun ⟨e, he⟩ => by cases he⟩

end Ctl

/-! ## §2 UDP -/
section Udp
open Udp

/-- **`DoUDP.ForwardDNS` never returns a datagram whose ID differs from the request's**, whatever
sits in the pooled socket (late answers of earlier borrowers, duplicates, short or malformed
datagrams) and however the socket was used before; the message it returns is one of the datagrams
that arrived, and it gives up after `maxStale` skipped ones. -/
theorem udp_id_match (ops : List Op) (orig : Nat) (r : Res) (h : (orig, r) ∈ results ⟨[], 0, false⟩ ops) :
    (∀ id b, r.out = .ok id b → id = orig) ∧ (∀ id b, r.out = .truncated id b → id = orig) :=
  results_spec ops _ orig r h

theorem udp_single_call (orig : Nat) (dot w : Bool) (q : List Ev) :
    (∀ id b, (forward orig dot w q).out = .ok id b → id = orig ∧ Ev.dgram orig (some b) ∈ q) ∧
    (∀ id b, (forward orig dot w q).out = .truncated id b → id = orig ∧ Ev.dgram orig (some b) ∈ q) ∧
    (forward orig dot w q).reads ≤ maxStale + 1 :=
  forward_spec orig dot w q

/-- a socket poisoned by a burst of foreign datagrams is discarded, never pooled again -/
theorem udp_flood_discards_socket (orig : Nat) (dot : Bool) (q : List Ev)
    (h : (forward orig dot true q).out = .staleFlood ∨ (forward orig dot true q).out = .shortFlood ∨
      (forward orig dot true q).out = .unpackErr ∨ (forward orig dot true q).out = .ioerr) :
    (forward orig dot true q).kept = false := by
  simp only [forward, if_true] at h ⊢
  exact (loop_spec orig dot q 0 0).2.2.1 h

/-- non-vacuity: a late answer of the previous borrower (same socket, other ID) is skipped and the
right one returned; with a colliding ID the late answer IS returned (its question is then refused by
the controller, §1). -/
example :
    (results ⟨[], 0, false⟩ [.fwd 7 false true, .push (.dgram 7 (some ⟨1, false, 10⟩)), .fwd 8 false true,
        .push (.dgram 8 (some ⟨2, false, 20⟩)), .fwd 8 false true]).map (fun p => p.2.out)
      = [.timeout, .timeout, .ok 8 ⟨2, false, 20⟩] ∧
    (results ⟨[], 0, false⟩ [.fwd 7 false true, .push (.dgram 7 (some ⟨1, false, 10⟩)), .fwd 7 false true]).map
        (fun p => p.2.out) = [.timeout, .ok 7 ⟨1, false, 10⟩] := by decide

end Udp

/-! ## §3 pipelined TCP/TLS connections -/
section Pipe
open Pipe

/-- **A delivered message carries the ID its waiter allocated and was read from that waiter's own
connection** — for any number of connections sharing the global slot pool, any interleaving of
`RoundTrip` calls, `readLoop`s and `closeWithErr`s (including a holder standing between
`pending[id].Swap(nil)` and `slot.set`), and any upstream (late, duplicate, unknown or foreign IDs).  In
particular no message crosses from one connection to another, or to a call registered under another ID.
It does NOT say the message answers this call's request: a duplicate or late frame for an earlier holder of
the same ID on the same connection is delivered to the current holder (example below); telling those
apart is the controller's question check (§1). -/
theorem delivered_matches_waiter (as : List Act) (w c id : Nat) (m : Msg)
    (h : (w, c, id, some m) ∈ (run codePolicy init as).log) : m.id = id ∧ m.conn = c :=
  (inv_run as _ inv_init).LG w c id m h

/-- IDs in flight on one connection are pairwise distinct, and marked in the bitmap. -/
theorem ids_in_flight_unique (as : List Act) (w1 w2 c id s1 s2 : Nat) :
    let s := run codePolicy init as
    (s.pc w1).reg = some (c, id, s1) → (s.pc w2).reg = some (c, id, s2) → w1 = w2 ∧ s.alloc c id = true := by
  intro s h1 h2
  have hinv := inv_run as _ inv_init
  exact ⟨hinv.UQ w1 w2 c id s1 s2 h1 h2, hinv.AL w1 c id s1 h1⟩

/-- `idBitmap.Allocate` hands out an ID that is free and below 4096. -/
theorem allocate_returns_free_id (used : Nat → Bool) (next id : Nat) (h : allocate used next = some id) :
    used id = false ∧ id < 4096 :=
  allocate_spec used next id h

/-- **A timeout closes the connection**: cancelling a waiting `RoundTrip` marks its connection closed, and
`closed` never reverts.  (What `readLoop` had already read when the connection was closed may still be
delivered - to the waiter registered under that ID on that connection, by `delivered_matches_waiter`; the
code has no check of `pc.closed` there and the model has none either.) -/
theorem timeout_closes_connection (pol : Recycle) (s : St) (w c id sl : Nat) (h : s.pc w = .waiting c id sl) :
    (step pol s (.cancel w)).closed c = true ∧
    (∀ a c', s.closed c' = true → (step pol s a).closed c' = true) := by
  refine ⟨by simp [step, h], ?_⟩
  intro a c' hc
  cases a <;> simp only [step] <;> (repeat' split) <;> simp_all [upd] <;> (try split) <;> simp_all

/-- non-vacuity: a duplicate answer for an ID that has meanwhile been reused is delivered to the NEW
holder of the ID (which is why the controller compares questions, §1) — the theorem above constrains
ID and connection, not payload. -/
example :
    let s := run codePolicy init
      [.start 0 0 5 0, .recvSwap 0 5 100, .set 0, .take 0, .leave 0,   -- W0 asked with id 5, answered (tag 100)
       .start 1 0 5 0, .recvSwap 0 5 100, .set 0, .take 1]             -- id 5 and slot 0 reused by W1; duplicate arrives
    s.log = [(0, 0, 5, some ⟨5, 100, 0⟩), (1, 0, 5, some ⟨5, 100, 0⟩)] := by
  simp [run, step, init, upd, upd2, codePolicy]

/-- The schedule reproduced on the code BEFORE fix c5a497d (slot returned to the pool
unconditionally): `readLoop` of connection 0 holds W0's slot; W0's context ends and its slot goes back
to the pool; W1 takes the same slot on connection 1; `readLoop` then delivers W0's answer to W1. -/
theorem slot_reuse_cross_delivery_before_fix :
    let s := run .always init
      [.start 0 0 7 3, .recvSwap 0 7 100, .cancel 0, .leave 0, .start 1 1 9 3, .set 3, .take 1]
    (1, 1, 9, some ⟨7, 100, 0⟩) ∈ s.log := by
  simp [run, step, init, upd, upd2]

end Pipe

/-! ## §4 cached forwarder entry -/
section Fwd
open Fwd

/-- **Closed exactly once, after the last in-flight query.** For any number of goroutines and every
interleaving of the atomic operations of `beginUse`, `endUse`, `retire`, `retireCachedDnsForwarder`
and the idle evictor, in every reachable state:
* `Close()` has run at most once;
* if it has run, the entry was retired and no goroutine is between a successful `beginUse` and its
  `endUse` (so it ran after the last in-flight query, and none can start afterwards);
* no `ForwardDNS` was ever issued on a closed forwarder;
* `inFlight` is exactly the number of goroutines holding a unit. -/
theorem close_once_after_last_use (n : Nat) (as : List Act) :
    let s := run codeCfg (init n) as
    s.closes ≤ 1 ∧
    (s.closes = 1 → s.retired = true ∧ ∀ p ∈ s.pcs, p ≠ Pc.busy) ∧
    s.badUses = 0 ∧
    s.inFlight = (s.pcs.countP holds : Nat) := by
  intro s
  have hg : codeCfg.Good := ⟨rfl, by decide⟩
  have hinv : Inv codeCfg s := inv_run codeCfg hg as _ (inv_init codeCfg n)
  refine ⟨?_, ?_, hinv.bad, hinv.cnt⟩
  · cases ho : s.once
    · have := hinv.closes0 ho; omega
    · have := hinv.closes1 ho; omega
  · intro hc
    have ho : s.once = true := by
      cases ho : s.once
      · have := hinv.closes0 ho; omega
      · rfl
    refine ⟨hinv.onceRet ho, ?_⟩
    have hz := hinv.noUse (.inl ho)
    intro p hp hb
    subst hb
    have : 0 < s.pcs.countP isUsing := List.countP_pos_iff.mpr ⟨Pc.busy, hp, rfl⟩
    omega

/-- **… and not leaked.** Once the entry is retired and every goroutine has returned, `Close()` has
run (exactly once). -/
theorem retired_forwarder_closed_when_quiescent (n : Nat) (as : List Act) :
    let s := run codeCfg (init n) as
    s.retired = true → (∀ p ∈ s.pcs, p = Pc.idle) → s.closes = 1 := by
  intro s hr hq
  have hg : codeCfg.Good := ⟨rfl, by decide⟩
  have hinv : Inv codeCfg s := inv_run codeCfg hg as _ (inv_init codeCfg n)
  cases ho : s.once
  · exfalso
    have h1 := hinv.live hr ho
    have h2 := countP_zero_of_all_idle closer rfl s.pcs hq
    have h3 := countP_zero_of_all_idle holds rfl s.pcs hq
    have h4 := hinv.cnt
    omega
  · exact hinv.closes1 ho

/-- non-vacuity: three goroutines, a retire racing two users; the last `endUse` closes. -/
example :
    let s := run codeCfg (init 3)
      [.callBegin 0, .step 0, .step 0, .step 0, .callBegin 1, .step 1, .callRetire 2, .step 2, .step 1,
       .step 2, .step 1, .step 1, .forward 0, .callEnd 0, .step 0, .step 0, .step 0, .step 0]
    s.closes = 1 ∧ s.retired = true ∧ s.pcs = [.idle, .idle, .idle] ∧ s.badUses = 0 := by decide

/-- The schedule found while proving the invariant, on the code BEFORE fix 635b60a (`endUse` =
decrement, then separately load `retired`): T's `endUse` decrements to 0; U begins use; R retires
(sees `inFlight = 1`, leaves the close to U); T now reads `retired` and closes under U. -/
theorem enduse_split_closes_under_new_user :
    let s := run { endUse := .split, evictRetires := true } (init 3)
      [.callBegin 0, .step 0, .step 0, .step 0, .callEnd 0, .step 0,   -- T: in use, endUse: Add(-1)==0
       .callBegin 1, .step 1, .step 1, .step 1,                        -- U: beginUse() == true
       .callRetire 2, .step 2, .step 2,                                -- R: retire(), inFlight = 1
       .step 0, .step 0,                                               -- T: retired.Load(), closeNow()
       .forward 1]                                                     -- U: ForwardDNS on a closed forwarder
    s.closes = 1 ∧ s.pcs[1]? = some Pc.busy ∧ s.badUses = 1 := by decide

/-- … and the schedule of DESIGN §7 item 9 on the code BEFORE fix f004946 (idle evictor calls
`forwarder.Close()` itself). -/
theorem idle_evict_direct_close_under_user :
    let s := run { endUse := .recheck, evictRetires := false } (init 2)
      [.callEvict 1, .step 1, .step 1, .step 1,                       -- janitor: inFlight = 0, CAD, Close()
       .callBegin 0, .step 0, .step 0, .step 0, .forward 0]           -- A: beginUse() == true on a closed one
    s.closes = 1 ∧ s.retired = false ∧ s.pcs[0]? = some Pc.busy ∧ s.badUses = 1 := by decide

end Fwd

/-! ## §5 the users of the entries: `forwardWithDialArg`, `getOrCreateDnsForwarder`, reset, idle eviction -/
section Loop
open Loop

/-- **Every forwarder the controller ever creates for a cache key is closed at most once, and never while one
of its exchanges runs.**  For any number of goroutines and every interleaving of the atomic operations of
`forwardWithDialArg` (two rounds of get-or-create / `beginUse` / `ForwardDNS` / `endUse`, retire on failure),
`getOrCreateDnsForwarder` (`Load`, factory, `LoadOrStore`, the loser of a creation race closing its own
forwarder), `retireAllDnsForwarders` and `evictIdleDnsForwarders`, and for every transport outcome, in every
reachable state and for every forwarder `e` (counting the closes through the entry's `closeOnce` and the direct
`Close()` of a race loser together):
* `Close()` ran at most once;
* if it ran, no goroutine is inside `ForwardDNS` on that forwarder (and none can enter: `badUses = 0` says no
  exchange was ever started on a closed forwarder);
* a close through the entry happened only after the entry was retired;
* a forwarder that lost the creation race was never used by anybody. -/
theorem every_forwarder_closed_at_most_once_never_under_an_exchange (n : Nat) (as : List Act) (e : Nat) (x : Ent)
    (h : (run (init n) as).ent e = some x) :
    x.f.closes + x.rawCloses ≤ 1 ∧
    (0 < x.f.closes + x.rawCloses → ∀ p ∈ x.f.pcs, p ≠ Fwd.Pc.busy) ∧
    x.f.badUses = 0 ∧
    (x.f.closes = 1 → x.f.retired = true) ∧
    (x.status ≠ .published → x.f = pristine n) := by
  have hinv := linv_run as _ (linv_init n)
  have hn : (run (init n) as).n = n := by
    have : ∀ (as : List Act) (s : St), (run s as).n = s.n := by
      intro as
      induction as with
      | nil => intro s; rfl
      | cons a as ih =>
        intro s
        simp only [run, List.foldl_cons] at ih ⊢
        rw [ih]
        cases a <;> simp only [step, stepT] <;> (repeat' split) <;>
          simp only [St.setO, St.ret, applyF_n, St.updEnt] <;> (repeat' split) <;> rfl
    exact this as _
  have hraw := hinv.raw e x h
  by_cases hp : x.status = .published
  · have hfi := hinv.fwdInv e x h
    have hr0 : x.rawCloses = 0 := hraw.2 (by rw [hp]; simp)
    have hle : x.f.closes ≤ 1 := by
      cases ho : x.f.once
      · have := hfi.closes0 ho; omega
      · have := hfi.closes1 ho; omega
    refine ⟨by omega, ?_, hfi.bad, ?_, fun hne => absurd hp hne⟩
    · intro hc
      have ho : x.f.once = true := by
        cases ho : x.f.once
        · have := hfi.closes0 ho; omega
        · rfl
      have hz := hfi.noUse (.inl ho)
      intro p hp' hb
      subst hb
      have : 0 < x.f.pcs.countP Fwd.isUsing := List.countP_pos_iff.mpr ⟨Fwd.Pc.busy, hp', rfl⟩
      omega
    · intro hc
      have ho : x.f.once = true := by
        cases ho : x.f.once
        · have := hfi.closes0 ho; omega
        · rfl
      exact hfi.onceRet ho
  · have hpr := hinv.prist e x h hp
    rw [hn] at hpr
    have hrc : x.rawCloses ≤ 1 := by
      by_cases hl : x.status = .lost
      · have := hraw.1 hl; omega
      · have := hraw.2 hl; omega
    refine ⟨?_, ?_, ?_, ?_, fun _ => hpr⟩
    · rw [hpr]; simp only [pristine, Fwd.init]; omega
    · intro _ p hp' hb
      rw [hpr] at hp'
      simp only [pristine, Fwd.init] at hp'
      have := (List.mem_replicate.mp hp').2
      rw [hb] at this; cases this
    · rw [hpr]; rfl
    · intro hc; rw [hpr] at hc; simp [pristine, Fwd.init] at hc

/-- **… and none is leaked.**  Once every goroutine has returned, every forwarder ever created is either the one
entry still in the cache (there is at most one) or has been closed - exactly once by the first part: a published
entry through its own `closeOnce` after it was retired, the loser of a creation race by its creator. -/
theorem no_forwarder_leaked_when_quiescent (n : Nat) (as : List Act) :
    let s := run (init n) as
    (∀ t, s.opc t = .idle) →
    (∀ e x, s.ent e = some x →
      (x.status = .published ∧ x.rawCloses = 0 ∧ (x.f.inCache = true ∨ x.f.closes = 1)) ∨
      (x.status = .lost ∧ x.rawCloses = 1 ∧ x.f.closes = 0)) ∧
    (∀ e1 e2 x1 x2, s.ent e1 = some x1 → s.ent e2 = some x2 → x1.f.inCache = true → x2.f.inCache = true → e1 = e2) := by
  intro s hq
  have hinv : LInv s := linv_run as _ (linv_init n)
  refine ⟨?_, hinv.uniq⟩
  intro e x hx
  have hraw := hinv.raw e x hx
  have hidle : ∀ p ∈ x.f.pcs, p = Fwd.Pc.idle := by
    intro p hp
    obtain ⟨t, ht⟩ := List.mem_iff_getElem?.mp hp
    by_cases hpi : p = .idle
    · exact hpi
    · have := hinv.inn e x t p hx ht hpi
      rw [hq t] at this
      exact absurd this (by simp [uses])
  cases hs : x.status with
  | fresh =>
    obtain ⟨t, ht⟩ := hinv.owner e x hx hs
    rw [hq t] at ht
    exact absurd ht (by simp [owns])
  | lost =>
    right
    have hpr := hinv.prist e x hx (by rw [hs]; simp)
    exact ⟨rfl, hraw.1 hs, by rw [hpr]; rfl⟩
  | published =>
    left
    refine ⟨rfl, hraw.2 (by rw [hs]; simp), ?_⟩
    cases hc : x.f.inCache
    · right
      have hl := hinv.leak e x hx hs hc
      have hcnt : x.f.pcs.countP Fwd.isR1 = 0 := Fwd.countP_zero_of_all_idle Fwd.isR1 rfl _ hidle
      rcases hl with hr | hr
      · exact Fwd.closed_of_retired_quiescent fcfg x.f (hinv.fwdInv e x hx) hr hidle
      · omega
    · exact .inl rfl

/-- non-vacuity: a creation race (both goroutines miss the cache and create a forwarder; goroutine 0 wins
`LoadOrStore`, goroutine 1 closes its own forwarder and goes on with the winner's entry), goroutine 1's exchange
fails and retires the entry while goroutine 0's exchange runs; the last `endUse` closes it. -/
example :
    let s := run (init 2) ([.call 0 .ok, .call 1 .fail, .step 0, .step 1, .step 0, .step 1, .step 0, .step 1, .step 1] ++
      (List.replicate 14 [Act.step 0, Act.step 1]).flatten)
    s.rets = [(0, .ok), (1, .err)] ∧ s.nents = 2 ∧ cachedIdx s = none ∧ s.opc 0 = .idle ∧ s.opc 1 = .idle ∧
    (s.ent 0).map (fun x => (x.status, x.rawCloses, x.f.closes, x.f.retired)) = some (.published, 0, 1, true) ∧
    (s.ent 1).map (fun x => (x.status, x.rawCloses, x.f.closes, x.f.retired)) = some (.lost, 1, 0, false) := by
  decide

end Loop

end DaeVerif.C09.Props
