/-!
# C09 — DNS concurrency: executable models (core-only)

Four models, each mirroring one mechanism of `/repo/control`:

* `Fwd`  — `cachedDnsForwarder.beginUse / endUse / retire / closeNow` and the idle evictor
           (`dns_control.go`), as an interleaving transition system whose steps are the code's
           individual atomic operations.
* `Udp`  — the receive loop of `DoUDP.ForwardDNS` (`dns.go`): discard datagrams whose ID differs
           from the request's, at most 8 of them.
* `Pipe` — `pipelinedConn` (`dns.go`): bitmap ID allocation, `pending` slots, `readLoop`,
           `RoundTrip`, close on timeout.
* `Ctl`  — the glue of `HandleWithResponseWriter_` / `dialSend` (`dns_control.go`): cache lookup,
           singleflight leader/follower, upstream attempt with UDP→TCP fallback, the question check,
           cache insert, ID patching on every write path.

Nothing here imports Mathlib: the line-protocol driver (`Main.lean`) executes these definitions.
-/
namespace DaeVerif.C09

/-! ## Shared list helper -/

/-- `l.set t q` changes the number of elements satisfying `f` by exactly the old and new element. -/
theorem countP_set_add {α} (f : α → Bool) : ∀ (l : List α) (t : Nat) (p q : α), l[t]? = some p →
    (l.set t q).countP f + (if f p then 1 else 0) = l.countP f + (if f q then 1 else 0)
  | [], t, p, q, h => by simp at h
  | a :: l, 0, p, q, h => by
    simp only [List.getElem?_cons_zero, Option.some.injEq] at h
    subst h
    simp only [List.set_cons_zero, List.countP_cons]
    omega
  | a :: l, t + 1, p, q, h => by
    simp only [List.getElem?_cons_succ] at h
    have ih := countP_set_add f l t p q h
    simp only [List.set_cons_succ, List.countP_cons]
    omega

namespace Fwd

/-! ## `Fwd` — the cached forwarder entry

One `Pc` per goroutine that holds a reference to the entry.  Every constructor between two calls is
one atomic operation of the Go code (an `atomic` load/store/add, or `closeOnce.Do`). -/

inductive Pc where
  | idle
  /-- `beginUse`: about to `retired.Load()` (first check). -/
  | b1
  /-- `beginUse`: about to `inFlight.Add(1)`. -/
  | b2
  /-- `beginUse`: about to `retired.Load()` (second check). -/
  | b3
  /-- `beginUse`: saw `retired`, about to `inFlight.Add(-1)`. -/
  | b4
  /-- `beginUse`: decremented to 0, about to `closeNow()`. -/
  | b5
  /-- `beginUse` returned `true`; `ForwardDNS` runs; `endUse` not yet called. -/
  | busy
  /-- `endUse`: about to `inFlight.Add(-1)`. -/
  | e1
  /-- `endUse`: decremented to 0, about to `retired.Load()`. -/
  | e2
  /-- `endUse` (repaired code only): saw `retired`, about to re-read `inFlight.Load()`. -/
  | e2r
  /-- `endUse`: about to `closeNow()`. -/
  | e3
  /-- `retire`: about to `retired.Store(true)`. -/
  | r1
  /-- `retire`: about to `inFlight.Load()`. -/
  | r2
  /-- `retire`: about to `closeNow()`. -/
  | r3
  /-- `evictIdleDnsForwarders`: about to `inFlight.Load()` (skip when > 0). -/
  | v1
  /-- evictor: idle test passed, about to `CompareAndDelete` the entry from the cache. -/
  | v2
  /-- evictor (unrepaired code only): about to call `entry.forwarder.Close()` directly. -/
  | v3
  /-- `retireCachedDnsForwarder` / `retireAllDnsForwarders`: about to `CompareAndDelete`. -/
  | c1
  deriving DecidableEq, Repr, Inhabited

/-- How `endUse` is modelled. -/
inductive EndUse where
  /-- the code as written: `inFlight.Add(-1) == 0`, then (separately) `retired.Load()`, then close -/
  | split
  /-- a repaired `endUse` that re-reads `inFlight` after it has seen `retired` -/
  | recheck
  /-- abstraction: the decrement and the `retired` load are one indivisible step -/
  | atomic
  deriving DecidableEq, Repr

/-- Which variant of the code is modelled (the tie decides which one `/repo` is). -/
structure Cfg where
  endUse : EndUse
  /-- the idle evictor closes through `retire()` (fix f004946) instead of calling
  `forwarder.Close()` itself (the code before that fix). -/
  evictRetires : Bool
  deriving DecidableEq, Repr

structure St where
  /-- `cachedDnsForwarder.inFlight` -/
  inFlight : Int
  /-- `cachedDnsForwarder.retired` -/
  retired : Bool
  /-- `closeOnce` has fired -/
  once : Bool
  /-- number of times `forwarder.Close()` actually ran -/
  closes : Nat
  /-- the entry is still stored in `dnsForwarderCache` -/
  inCache : Bool
  /-- `ForwardDNS` calls issued on a forwarder whose `Close()` had already run -/
  badUses : Nat
  pcs : List Pc
  deriving DecidableEq, Repr

def init (n : Nat) : St :=
  { inFlight := 0, retired := false, once := false, closes := 0, inCache := true, badUses := 0,
    pcs := List.replicate n .idle }

def St.setPc (s : St) (t : Nat) (p : Pc) : St := { s with pcs := s.pcs.set t p }

/-- `closeNow`: `closeOnce.Do(forwarder.Close)`. -/
def St.closeNow (s : St) : St :=
  if s.once then s else { s with once := true, closes := s.closes + 1 }

inductive Act where
  /-- an idle goroutine calls `beginUse()` -/
  | callBegin (t : Nat)
  /-- a goroutine whose `beginUse` returned true has finished `ForwardDNS` and calls `endUse()` -/
  | callEnd (t : Nat)
  /-- an idle goroutine calls `retire()` directly (`retireAll…`, tests) -/
  | callRetire (t : Nat)
  /-- an idle goroutine calls `retireCachedDnsForwarder` (CompareAndDelete, then `retire()`) -/
  | callRetireCached (t : Nat)
  /-- the janitor goroutine examines this entry in `evictIdleDnsForwarders` -/
  | callEvict (t : Nat)
  /-- a goroutine in `busy` issues `entry.forwarder.ForwardDNS` -/
  | forward (t : Nat)
  /-- goroutine `t` performs its next atomic operation -/
  | step (t : Nat)
  deriving DecidableEq, Repr

/-- The next atomic operation of goroutine `t`. -/
def stepPc (cfg : Cfg) (s : St) (t : Nat) : St :=
  match s.pcs[t]? with
  | none => s
  | some p =>
    match p with
    | .idle => s
    | .busy => s
    | .b1 => if s.retired then s.setPc t .idle else s.setPc t .b2
    | .b2 => { s with inFlight := s.inFlight + 1 }.setPc t .b3
    | .b3 => if s.retired then s.setPc t .b4 else s.setPc t .busy
    | .b4 =>
      if s.inFlight - 1 = 0 then { s with inFlight := s.inFlight - 1 }.setPc t .b5
      else { s with inFlight := s.inFlight - 1 }.setPc t .idle
    | .b5 => s.closeNow.setPc t .idle
    | .e1 =>
      if s.inFlight - 1 = 0 then
        if cfg.endUse = .atomic then
          (if s.retired then { s with inFlight := s.inFlight - 1 }.setPc t .e3
           else { s with inFlight := s.inFlight - 1 }.setPc t .idle)
        else { s with inFlight := s.inFlight - 1 }.setPc t .e2
      else { s with inFlight := s.inFlight - 1 }.setPc t .idle
    | .e2 =>
      if s.retired then (if cfg.endUse = .recheck then s.setPc t .e2r else s.setPc t .e3)
      else s.setPc t .idle
    | .e2r => if s.inFlight = 0 then s.setPc t .e3 else s.setPc t .idle
    | .e3 => s.closeNow.setPc t .idle
    | .r1 => { s with retired := true }.setPc t .r2
    | .r2 => if s.inFlight = 0 then s.setPc t .r3 else s.setPc t .idle
    | .r3 => s.closeNow.setPc t .idle
    | .v1 => if s.inFlight > 0 then s.setPc t .idle else s.setPc t .v2
    | .v2 =>
      if s.inCache then
        (if cfg.evictRetires then { s with inCache := false }.setPc t .r1
         else { s with inCache := false }.setPc t .v3)
      else s.setPc t .idle
    | .v3 => { s with closes := s.closes + 1 }.setPc t .idle
    | .c1 => if s.inCache then { s with inCache := false }.setPc t .r1 else s.setPc t .idle

def step (cfg : Cfg) (s : St) : Act → St
  | .callBegin t => if s.pcs[t]? = some .idle then s.setPc t .b1 else s
  | .callEnd t => if s.pcs[t]? = some .busy then s.setPc t .e1 else s
  | .callRetire t => if s.pcs[t]? = some .idle then s.setPc t .r1 else s
  | .callRetireCached t => if s.pcs[t]? = some .idle then s.setPc t .c1 else s
  | .callEvict t => if s.pcs[t]? = some .idle then s.setPc t .v1 else s
  | .forward t =>
    if s.pcs[t]? = some .busy then
      (if s.closes > 0 then { s with badUses := s.badUses + 1 } else s)
    else s
  | .step t => stepPc cfg s t

def run (cfg : Cfg) (s : St) (as : List Act) : St := as.foldl (step cfg) s

/-- A goroutine runs a whole call to completion without interleaving (what a harness that calls the
Go methods one after the other observes).  Bounded by the longest call (6 operations). -/
def finishCall (cfg : Cfg) (s : St) (t : Nat) : St :=
  (List.range 8).foldl (fun s _ => stepPc cfg s t) s

/-- Program points at which the Go code has a `verifYield` (or returns): goroutine `t` is run up to
the next one.  `c1`, `r1`, `v1`, `v2`, `e1`, `b1` are followed by no yield, so they are passed. -/
def atYield : Pc → Bool
  | .idle | .busy | .b2 | .b3 | .b4 | .b5 | .e2 | .e2r | .e3 | .r2 | .r3 | .v3 => true
  | _ => false

/-- Run goroutine `t` until it stands at a yield point or has returned (at least one operation). -/
def stepToYield (cfg : Cfg) (s : St) (t : Nat) : St :=
  let rec go : Nat → St → St
    | 0, s => s
    | fuel + 1, s =>
      let s' := stepPc cfg s t
      match s'.pcs[t]? with
      | some p => if atYield p then s' else go fuel s'
      | none => s'
  go 6 s

/-- The code as it is in `/repo` today. -/
def codeCfg : Cfg := { endUse := .recheck, evictRetires := true }

end Fwd

/-! ## `Udp` — the receive loop of `DoUDP.ForwardDNS`

A pooled socket is a queue of pending read events.  `forward` mirrors one call: write the request,
then read until a datagram carries the request's ID; shorter-than-2-byte datagrams and datagrams
with another ID are skipped, at most `maxStale` of them. -/
namespace Udp

/-- what `Msg.Unpack` yields besides the ID -/
structure Body where
  /-- question token (name and type as sent by the upstream) -/
  q : Nat
  tc : Bool
  /-- answer payload token -/
  tag : Nat
  deriving DecidableEq, Repr

inductive Ev where
  /-- a datagram shorter than two bytes -/
  | short
  /-- a datagram whose first two bytes are `id`; `body = none` when `Unpack` rejects it -/
  | dgram (id : Nat) (body : Option Body)
  /-- the read deadline passes -/
  | timeout
  /-- any other read error -/
  | ioerr
  deriving DecidableEq, Repr

inductive Out where
  | ok (id : Nat) (b : Body)
  | truncated (id : Nat) (b : Body)
  | timeout
  | ioerr
  | staleFlood
  | shortFlood
  | unpackErr
  | writeErr
  deriving DecidableEq, Repr

structure Res where
  out : Out
  /-- the socket goes back to the idle pool (otherwise it was discarded = closed) -/
  kept : Bool
  /-- number of read events consumed -/
  reads : Nat
  deriving DecidableEq, Repr

def maxStale : Nat := 8

/-- `dot` = `profile.DiscardPooledConnOnTimeout`.  An exhausted queue reads as a timeout. -/
def loop (orig : Nat) (dot : Bool) : List Ev → Nat → Nat → Res
  | [], _, reads => ⟨.timeout, !dot, reads + 1⟩
  | .timeout :: _, _, reads => ⟨.timeout, !dot, reads + 1⟩
  | .ioerr :: _, _, reads => ⟨.ioerr, false, reads + 1⟩
  | .short :: rest, stale, reads =>
    if stale + 1 > maxStale then ⟨.shortFlood, false, reads + 1⟩ else loop orig dot rest (stale + 1) (reads + 1)
  | .dgram id body :: rest, stale, reads =>
    if id ≠ orig then
      (if stale + 1 > maxStale then ⟨.staleFlood, false, reads + 1⟩ else loop orig dot rest (stale + 1) (reads + 1))
    else
      match body with
      | none => ⟨.unpackErr, false, reads + 1⟩
      | some b => if b.tc then ⟨.truncated id b, true, reads + 1⟩ else ⟨.ok id b, true, reads + 1⟩

def forward (orig : Nat) (dot writeOk : Bool) (q : List Ev) : Res :=
  if writeOk then loop orig dot q 0 0 else ⟨.writeErr, false, 0⟩

/-- A pooled socket across several calls: what is still queued when the socket is reused. -/
structure Sock where
  queue : List Ev
  /-- number of sockets dialled so far (a discarded socket is replaced by a fresh, empty one) -/
  gen : Nat
  deriving DecidableEq, Repr

inductive Op where
  /-- the network delivers an event to the socket currently pooled -/
  | push (e : Ev)
  /-- one `ForwardDNS(orig)` on the pooled socket -/
  | fwd (orig : Nat) (dot writeOk : Bool)
  deriving DecidableEq, Repr

def apply (s : Sock) : Op → Sock × Option Res
  | .push e => ({ s with queue := s.queue ++ [e] }, none)
  | .fwd orig dot w =>
    let r := forward orig dot w s.queue
    if r.kept then ({ s with queue := s.queue.drop r.reads }, some r)
    else ({ queue := [], gen := s.gen + 1 }, some r)

/-- results of all calls of a history -/
def results : Sock → List Op → List (Nat × Res)
  | _, [] => []
  | s, .push e :: ops => results (apply s (.push e)).1 ops
  | s, .fwd orig dot w :: ops =>
    (orig, forward orig dot w s.queue) :: results (apply s (.fwd orig dot w)).1 ops

end Udp

/-! ## `Ctl` — the controller glue: cache, singleflight, upstream attempt(s), question check, ID patch

Mirrors `HandleWithResponseWriter_`, `resolveForSingleflight`, `handleWithResponseWriter_`,
`dialSend`, `forwardWithFallback`, `NormalizeAndCacheDnsResp_`, `writeCachedResponse`
(`dns_control.go`).  Goroutine interleaving is at the granularity of the three blocking points of a
client: arrival (route, cache lookup, `sf.Do` entry), the leader's upstream exchange, and the wake-up
after `sf.Do` returns. -/
namespace Ctl

structure Question where
  /-- canonical (lower-cased, fully qualified) name, as a token -/
  name : Nat
  /-- spelling variant of the name (0 = the canonical lower-case spelling) -/
  spell : Nat
  qtype : Nat
  deriving DecidableEq, Repr, Inhabited

/-- the same question up to the case of the name (what `cacheKey` and fix b94e062 compare) -/
def Question.same (a b : Question) : Bool := a.name == b.name && a.qtype == b.qtype

/-- the spelling the cache stores and serves (`prepackResponseBeforeStore(fqdn lower-cased, …)`) -/
def Question.canon (a : Question) : Question := { a with spell := 0 }

/-- `responseCacheKey`: canonical name, type, routing scope -/
structure Key where
  name : Nat
  qtype : Nat
  scope : Nat
  deriving DecidableEq, Repr, Inhabited

inductive Route where
  | forward
  /-- request routing says `reject` -/
  | reject
  deriving DecidableEq, Repr

inductive Scheme where
  | udp | tcp | tcpudp
  deriving DecidableEq, Repr

structure Client where
  id : Nat
  q : Question
  scope : Nat
  route : Route
  deriving DecidableEq, Repr

def Client.key (c : Client) : Key := ⟨c.q.name, c.q.qtype, c.scope⟩

/-- a message as an upstream may send it (anything at all) -/
structure UpMsg where
  id : Nat
  q : Option Question
  resp : Bool
  rcode : Nat
  tc : Bool
  /-- answer payload token (0 = empty answer section) -/
  ans : Nat
  deriving DecidableEq, Repr, Inhabited

/-- outcome of one `ForwardDNS` call as the transport reports it -/
inductive Att where
  | fail
  | msg (m : UpMsg)
  deriving DecidableEq, Repr, Inhabited

inductive Src where
  /-- built from the client's own message (reject, refused, error replies) -/
  | own
  /-- pre-packed cache entry with the ID patched -/
  | cache
  /-- the (shared) upstream message, copied or re-packed, with the ID patched -/
  | upstream
  deriving DecidableEq, Repr

structure Reply where
  id : Nat
  q : Option Question
  rcode : Nat
  tc : Bool
  ans : Nat
  src : Src
  deriving DecidableEq, Repr

inductive ErrKind where
  /-- transport failure (after fallback, if any) -/
  | upstream
  /-- `ErrDNSTruncated` (UDP answer had TC=1 and no TCP fallback succeeded) -/
  | truncated
  /-- `ErrDNSResponseQuestionMismatch` (fix b94e062) -/
  | mismatch
  /-- `ResponseSelect`: "DNS response expected but DNS request received" (QR bit clear) -/
  | notResponse
  deriving DecidableEq, Repr

/-- what `HandleWithResponseWriter_` did for one client -/
inductive Outcome where
  | wrote (r : Reply)
  | error (e : ErrKind)
  deriving DecidableEq, Repr

structure Entry where
  /-- question section of the packed bytes (canonical spelling of the upstream's question) -/
  q : Question
  ans : Nat
  deriving DecidableEq, Repr

inductive DRes where
  | err (e : ErrKind)
  | ok (m : UpMsg)
  deriving DecidableEq, Repr

structure Flight where
  key : Key
  leader : Nat
  result : Option DRes
  deriving DecidableEq, Repr

inductive Pc where
  | init
  | leading (f : Nat)
  | waiting (f : Nat)
  | done
  deriving DecidableEq, Repr

structure Cfg where
  /-- `dialSend` refuses an answer whose question differs from the request's (fix b94e062) -/
  checkQuestion : Bool
  deriving DecidableEq, Repr

def codeCfg : Cfg := { checkQuestion := true }

structure St where
  clients : List Client
  pcs : List Pc
  cache : List (Key × Entry)
  /-- the singleflight map: key ↦ running flight -/
  active : List (Key × Nat)
  flights : List Flight
  /-- everything written to / returned for clients, oldest first -/
  outs : List (Nat × Outcome)
  /-- upstream resolutions started: (flight, question sent) -/
  calls : List (Nat × Question)
  deriving Repr

def lookup {β} (l : List (Key × β)) (k : Key) : Option β := (l.find? (fun p => p.1 == k)).map (·.2)
def erase {β} (l : List (Key × β)) (k : Key) : List (Key × β) := l.filter (fun p => !(p.1 == k))
def insert {β} (l : List (Key × β)) (k : Key) (v : β) : List (Key × β) := (k, v) :: erase l k

def init (clients : List Client) : St :=
  { clients := clients, pcs := clients.map fun _ => Pc.init, cache := [], active := [], flights := [],
    outs := [], calls := [] }

/-- `forwardWithFallback`: primary attempt, and for `tcp+udp` a TCP attempt when UDP failed or
answered with TC=1 (`DoUDP.ForwardDNS` returns `ErrDNSTruncated`). -/
def forwardWithFallback (sch : Scheme) (a1 a2 : Att) : DRes :=
  match sch with
  | .tcp =>
    match a1 with
    | .fail => .err .upstream
    | .msg m => .ok m
  | .udp =>
    match a1 with
    | .fail => .err .upstream
    | .msg m => if m.tc then .err .truncated else .ok m
  | .tcpudp =>
    match a1 with
    | .msg m =>
      if m.tc then
        (match a2 with
         | .fail => .err .truncated
         | .msg m2 => .ok m2)
      else .ok m
    | .fail =>
      match a2 with
      | .fail => .err .upstream
      | .msg m2 => .ok m2

/-- `dnsResponseAnswersRequest` -/
def answersRequest (q : Question) (m : UpMsg) : Bool :=
  match m.q with
  | none => false
  | some mq => q.same mq

/-- `dialSend` for the singleflight leader (`needResp`, capturing writer): upstream exchange,
question check, `respMsg.Id = id`, synchronous cache insert.  Returns the shared result and the
new cache. -/
def dialSend (cfg : Cfg) (c : Client) (sch : Scheme) (a1 a2 : Att) (cache : List (Key × Entry)) :
    DRes × List (Key × Entry) :=
  match forwardWithFallback sch a1 a2 with
  | .err e => (.err e, cache)
  | .ok m =>
    if cfg.checkQuestion && !answersRequest c.q m then (.err .mismatch, cache)
    else if !m.resp then (.err .notResponse, cache)
    else
      let m' := { m with id := c.id }
      -- NormalizeAndCacheDnsResp_: only healthy responses with a question are cached, under the
      -- REQUEST's key, with the RESPONSE's question
      let cache' :=
        match m.q with
        | some mq => if m.resp && m.rcode == 0 then insert cache c.key (Entry.mk mq.canon m.ans) else cache
        | none => cache
      (.ok m', cache')

def ownReply (c : Client) (rcode : Nat) (tc : Bool) : Reply :=
  { id := c.id, q := some c.q, rcode := rcode, tc := tc, ans := 0, src := .own }

/-- `writeCachedResponse`: packed bytes with the first two bytes overwritten -/
def cachedReply (c : Client) (e : Entry) : Reply :=
  { id := c.id, q := some e.q, rcode := 0, tc := false, ans := e.ans, src := .cache }

/-- `respMsg.Copy(); Id = dnsMessage.Id` / `Pack(); PutUint16(data[:2], dnsMessage.Id)` -/
def sharedReply (c : Client) (m : UpMsg) : Reply :=
  { id := c.id, q := m.q, rcode := m.rcode, tc := m.tc, ans := m.ans, src := .upstream }

def St.setPc (s : St) (i : Nat) (p : Pc) : St := { s with pcs := s.pcs.set i p }
def St.emit (s : St) (i : Nat) (o : Outcome) : St := { s with outs := s.outs ++ [(i, o)] }

inductive Act where
  /-- client `i` enters `HandleWithResponseWriter_` and runs up to the cache answer or `sf.Do` -/
  | arrive (i : Nat)
  /-- the concurrency limiter is full when client `i` enters -/
  | refuse (i : Nat)
  /-- the leader of flight `f` finishes its upstream exchange with the given transport outcomes -/
  | resolve (f : Nat) (sch : Scheme) (a1 a2 : Att)
  /-- client `i` returns from `sf.Do` and writes its response -/
  | wake (i : Nat)
  /-- janitor / LRU / reject-route family removal drops a cache entry -/
  | evict (k : Key)
  deriving DecidableEq, Repr

def step (cfg : Cfg) (s : St) : Act → St
  | .refuse i =>
    match s.clients[i]?, s.pcs[i]? with
    | some c, some .init => (s.emit i (.wrote (ownReply c 5 false))).setPc i .done
    | _, _ => s
  | .arrive i =>
    match s.clients[i]?, s.pcs[i]? with
    | some c, some .init =>
      match c.route with
      | .reject =>
        -- RemoveDnsRespCacheFamily(baseKey) + sendRejectWithResponseWriter_
        let s := { s with cache := s.cache.filter fun p => !(p.1.name == c.q.name && p.1.qtype == c.q.qtype) }
        (s.emit i (.wrote (ownReply c 0 false))).setPc i .done
      | .forward =>
        match lookup s.cache c.key with
        | some e => (s.emit i (.wrote (cachedReply c e))).setPc i .done
        | none =>
          match lookup s.active c.key with
          | some f => s.setPc i (.waiting f)
          | none =>
            let f := s.flights.length
            { s with flights := s.flights ++ [Flight.mk c.key i none], active := insert s.active c.key f,
                     calls := s.calls ++ [(f, c.q)] }.setPc i (.leading f)
    | _, _ => s
  | .resolve f sch a1 a2 =>
    match s.flights[f]? with
    | some fl =>
      match fl.result, s.clients[fl.leader]?, s.pcs[fl.leader]? with
      | none, some c, some (.leading f') =>
        if f' = f then
          let (r, cache') := dialSend cfg c sch a1 a2 s.cache
          { s with cache := cache', flights := s.flights.set f { fl with result := some r },
                   active := erase s.active fl.key }.setPc fl.leader (.waiting f)
        else s
      | _, _, _ => s
    | none => s
  | .wake i =>
    match s.clients[i]?, s.pcs[i]? with
    | some c, some (.waiting f) =>
      match s.flights[f]? with
      | some fl =>
        match fl.result with
        | none => s
        | some (.err e) => (s.emit i (.error e)).setPc i .done
        | some (.ok m) =>
          match lookup s.cache c.key with
          | some e => (s.emit i (.wrote (cachedReply c e))).setPc i .done
          | none => (s.emit i (.wrote (sharedReply c m))).setPc i .done
      | none => s
    | _, _ => s
  | .evict k => { s with cache := erase s.cache k }

def run (cfg : Cfg) (s : St) (as : List Act) : St := as.foldl (step cfg) s

/-- the reply a caller of `Handle_` sends when it returns an error (`sendDnsErrorResponse_` with
SERVFAIL, or `sendDnsTruncatedResponse_`): built from the client's own message -/
def errorReply (c : Client) : ErrKind → Reply
  | .truncated => ownReply c 0 true
  | _ => ownReply c 2 false

end Ctl

end DaeVerif.C09
