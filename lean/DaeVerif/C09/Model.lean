import DaeVerif.C09.FwdModel
import DaeVerif.C09.UdpModel
import DaeVerif.C09.CtlModel
import DaeVerif.C09.PipeModel
import DaeVerif.C09.LoopModel
/-!
# C09 — DNS concurrency: executable models (core-only)

Four models, each mirroring one mechanism of `/repo/control`:

* `Fwd`  — `cachedDnsForwarder.beginUse / endUse / retire / closeNow` and the idle evictor
           (`dns_control.go`), as an interleaving transition system whose steps are the code's
           individual atomic operations.
* `Udp`  — the receive loop of `DoUDP.ForwardDNS` (`dns.go`): discard datagrams whose ID differs
           from the request's, at most 8 of them.
* `Pipe` — `pipelinedConn` (`dns.go`): bitmap ID allocation, `pending` slots, `readLoop`,
           `RoundTrip`, close on timeout.
* `Ctl`  — the glue of `HandleWithResponseWriter_` / `dialSend` (`dns_control.go`): cache lookup,
           singleflight leader/follower, upstream attempt with UDP→TCP fallback, the question check,
           cache insert, ID patching on every write path.

* `Loop` — `forwardWithDialArg` / `getOrCreateDnsForwarder` / `retireAllDnsForwarders` / the idle evictor
           (`dns_control.go`) over all the forwarders ever created for one cache key; every entry is a `Fwd.St`.

The models live in `FwdModel.lean`, `UdpModel.lean`, `PipeModel.lean`, `CtlModel.lean` (one file each so
that a change to one does not re-check the proofs of the others).  Nothing here imports Mathlib: the line-protocol driver (`Main.lean`) executes these definitions.
-/
