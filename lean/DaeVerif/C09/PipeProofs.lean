import DaeVerif.C09.PipeModel
/-! Invariant of the pipelined connections sharing one slot pool (C09 `Pipe`). -/
namespace DaeVerif.C09

namespace Pipe

theorem reg_slot {p : WPc} {c id sl : Nat} (h : p.reg = some (c, id, sl)) : p.slot = some sl := by
  cases p <;> simp_all [WPc.reg, WPc.slot]

theorem slot_reg {p : WPc} {sl : Nat} (h : p.slot = some sl) : ∃ c id, p.reg = some (c, id, sl) := by
  cases p <;> simp_all [WPc.reg, WPc.slot]

structure Inv (s : St) : Prop where
  F1 : ∀ sl, s.free sl = true → s.held sl = none ∧ s.box sl = none ∧ (∀ c id, s.pending c id ≠ some sl) ∧
    (∀ w, (s.pc w).slot ≠ some sl)
  SU : ∀ w1 w2 sl, (s.pc w1).slot = some sl → (s.pc w2).slot = some sl → w1 = w2
  PO : ∀ c id sl, s.pending c id = some sl → ∃ w, (s.pc w).reg = some (c, id, sl)
  P1 : ∀ sl, s.held sl ≠ none → ∀ c id, s.pending c id ≠ some sl
  B1 : ∀ sl, s.box sl ≠ none → s.held sl = none ∧ ∀ c id, s.pending c id ≠ some sl
  R1 : ∀ w c id sl r, s.pc w = .leaving c id sl true r → s.held sl = none ∧ ∀ c' id', s.pending c' id' ≠ some sl
  HM : ∀ sl c' m, s.held sl = some (c', some m) → m.conn = c' ∧
    ∀ w c id, (s.pc w).reg = some (c, id, sl) → c' = c ∧ m.id = id
  BM : ∀ sl m, s.box sl = some (some m) → ∀ w c id, (s.pc w).reg = some (c, id, sl) → m.conn = c ∧ m.id = id
  LG : ∀ w c id m, (w, c, id, some m) ∈ s.log → m.id = id ∧ m.conn = c
  AL : ∀ w c id sl, (s.pc w).reg = some (c, id, sl) → s.alloc c id = true
  UQ : ∀ w1 w2 c id s1 s2, (s.pc w1).reg = some (c, id, s1) → (s.pc w2).reg = some (c, id, s2) → w1 = w2

theorem inv_init : Inv init := by
  constructor <;> simp [init, WPc.slot, WPc.reg]

theorem inv_start (pol : Recycle) (s : St) (w c id sl : Nat) (hi : Inv s) : Inv (step pol s (.start w c id sl)) := by
  simp only [step]
  split
  · next hc =>
    obtain ⟨hidle, hfree, halloc, hpend⟩ := hc
    obtain ⟨h1, h2, h3, h4, h5, h6, h7, h8, h9, h10, h11⟩ := hi
    have hf := h1 sl hfree
    constructor
    · grind [upd, upd2, WPc.slot, WPc.reg]
    · grind [upd, upd2, WPc.slot, WPc.reg]
    · intro c2 id2 sl2 hp
      simp only [upd2] at hp
      split at hp
      · next h => obtain ⟨rfl, rfl⟩ := h; cases hp; exact ⟨w, by simp [WPc.reg]⟩
      · obtain ⟨w0, hw0⟩ := h3 c2 id2 sl2 hp
        refine ⟨w0, ?_⟩
        have : w0 ≠ w := by intro e; subst e; rw [hidle] at hw0; simp [WPc.reg] at hw0
        simp only [upd_other _ _ _ _ this]; exact hw0
    · grind [upd, upd2, WPc.slot, WPc.reg]
    · grind [upd, upd2, WPc.slot, WPc.reg]
    · grind [upd, upd2, WPc.slot, WPc.reg]
    · grind [upd, upd2, WPc.slot, WPc.reg]
    · grind [upd, upd2, WPc.slot, WPc.reg]
    · grind [upd, upd2, WPc.slot, WPc.reg]
    · grind [upd, upd2, WPc.slot, WPc.reg]
    · grind [upd, upd2, WPc.slot, WPc.reg]
  · exact hi


macro "pg" : tactic => `(tactic| grind [upd, upd2, WPc.slot, WPc.reg])

/-- a waiter that keeps its registration (c, id, slot) -/
theorem po_keep (s : St) (w : Nat) (p' : WPc) (hreg : p'.reg = (s.pc w).reg)
    (h3 : ∀ c id sl, s.pending c id = some sl → ∃ w, (s.pc w).reg = some (c, id, sl)) :
    ∀ c id sl, s.pending c id = some sl → ∃ w', (upd s.pc w p' w').reg = some (c, id, sl) := by
  intro c id sl hp
  obtain ⟨w0, hw0⟩ := h3 c id sl hp
  refine ⟨w0, ?_⟩
  by_cases e : w0 = w
  · subst e; simp only [upd_same]; rw [hreg]; exact hw0
  · simp only [upd_other _ _ _ _ e]; exact hw0

theorem inv_recvSwap (pol : Recycle) (s : St) (c id tag : Nat) (hi : Inv s) :
    Inv (step pol s (.recvSwap c id tag)) := by
  simp only [step]
  · split
    · next sl hp =>
      obtain ⟨h1, h2, h3, h4, h5, h6, h7, h8, h9, h10, h11⟩ := hi
      obtain ⟨w0, hw0⟩ := h3 c id sl hp
      have hs0 := reg_slot hw0
      have hw : ∀ w c2 id2, (s.pc w).reg = some (c2, id2, sl) → c2 = c ∧ id2 = id := by
        intro w c2 id2 hr
        have := h2 w0 w sl hs0 (reg_slot hr)
        subst this
        rw [hw0] at hr
        simp only [Option.some.injEq, Prod.mk.injEq] at hr
        exact ⟨hr.1.symm, hr.2.1.symm⟩
      have hu : ∀ c2 id2, s.pending c2 id2 = some sl → c2 = c ∧ id2 = id := by
        intro c2 id2 hp2
        obtain ⟨w2, hw2⟩ := h3 c2 id2 sl hp2
        exact hw w2 c2 id2 hw2
      constructor
      · pg
      · pg
      · intro c2 id2 sl2 hp2
        simp only [upd2] at hp2
        split at hp2
        · cases hp2
        · exact h3 c2 id2 sl2 hp2
      · pg
      · pg
      · pg
      · pg
      · pg
      · pg
      · pg
      · pg
    · exact hi

theorem inv_closeSwap (pol : Recycle) (s : St) (c id : Nat) (hi : Inv s) :
    Inv (step pol s (.closeSwap c id)) := by
  simp only [step]
  split
  · split
    · next sl hp =>
      obtain ⟨h1, h2, h3, h4, h5, h6, h7, h8, h9, h10, h11⟩ := hi
      obtain ⟨w0, hw0⟩ := h3 c id sl hp
      have hs0 := reg_slot hw0
      have hw : ∀ w c2 id2, (s.pc w).reg = some (c2, id2, sl) → c2 = c ∧ id2 = id := by
        intro w c2 id2 hr
        have := h2 w0 w sl hs0 (reg_slot hr)
        subst this
        rw [hw0] at hr
        simp only [Option.some.injEq, Prod.mk.injEq] at hr
        exact ⟨hr.1.symm, hr.2.1.symm⟩
      have hu : ∀ c2 id2, s.pending c2 id2 = some sl → c2 = c ∧ id2 = id := by
        intro c2 id2 hp2
        obtain ⟨w2, hw2⟩ := h3 c2 id2 sl hp2
        exact hw w2 c2 id2 hw2
      constructor
      · pg
      · pg
      · intro c2 id2 sl2 hp2
        simp only [upd2] at hp2
        split at hp2
        · cases hp2
        · exact h3 c2 id2 sl2 hp2
      · pg
      · pg
      · pg
      · pg
      · pg
      · pg
      · pg
      · pg
    · exact hi
  · exact hi

theorem inv_set (pol : Recycle) (s : St) (sl : Nat) (hi : Inv s) : Inv (step pol s (.set sl)) := by
  simp only [step]
  split
  · next c' v hh =>
    obtain ⟨h1, h2, h3, h4, h5, h6, h7, h8, h9, h10, h11⟩ := hi
    constructor
    · pg
    · pg
    · exact h3
    · pg
    · pg
    · pg
    · pg
    · pg
    · pg
    · pg
    · pg
  · exact hi

theorem inv_take (pol : Recycle) (s : St) (w : Nat) (hi : Inv s) : Inv (step pol s (.take w)) := by
  simp only [step]
  split
  · next c id sl hpc =>
    split
    · next v hb =>
      obtain ⟨h1, h2, h3, h4, h5, h6, h7, h8, h9, h10, h11⟩ := hi
      constructor
      · pg
      · pg
      · exact po_keep s w _ (by rw [hpc]; rfl) h3
      · pg
      · pg
      · pg
      · pg
      · pg
      · intro w2 c2 id2 m hm
        simp only [List.mem_append, List.mem_singleton, Prod.mk.injEq] at hm
        rcases hm with hm | ⟨rfl, rfl, rfl, rfl⟩
        · exact h9 _ _ _ _ hm
        · have := h8 sl m hb w2 c2 id2 (by rw [hpc]; rfl)
          exact ⟨this.2, this.1⟩
      · pg
      · pg
    · exact hi
  · exact hi

theorem inv_cancel (pol : Recycle) (s : St) (w : Nat) (hi : Inv s) : Inv (step pol s (.cancel w)) := by
  simp only [step]
  split
  · next c id sl hpc =>
    obtain ⟨h1, h2, h3, h4, h5, h6, h7, h8, h9, h10, h11⟩ := hi
    constructor
    · pg
    · pg
    · exact po_keep s w _ (by rw [hpc]; rfl) h3
    · pg
    · pg
    · pg
    · pg
    · pg
    · exact h9
    · pg
    · pg
  · exact hi

theorem inv_writeFail (pol : Recycle) (s : St) (w : Nat) (hi : Inv s) : Inv (step pol s (.writeFail w)) := by
  simp only [step]
  split
  · next c id sl hpc =>
    obtain ⟨h1, h2, h3, h4, h5, h6, h7, h8, h9, h10, h11⟩ := hi
    constructor
    · pg
    · pg
    · exact po_keep s w _ (by rw [hpc]; rfl) h3
    · pg
    · pg
    · pg
    · pg
    · pg
    · exact h9
    · pg
    · pg
  · exact hi

theorem inv_abort (pol : Recycle) (s : St) (w : Nat) (hi : Inv s) : Inv (step pol s (.abort w)) := by
  simp only [step]
  split
  · next c id sl hpc =>
    obtain ⟨h1, h2, h3, h4, h5, h6, h7, h8, h9, h10, h11⟩ := hi
    constructor
    · pg
    · pg
    · exact po_keep s w _ (by rw [hpc]; rfl) h3
    · pg
    · pg
    · pg
    · pg
    · pg
    · exact h9
    · pg
    · pg
  · exact hi

theorem inv_connClose (pol : Recycle) (s : St) (c : Nat) (hi : Inv s) : Inv (step pol s (.connClose c)) := by
  simp only [step]
  obtain ⟨h1, h2, h3, h4, h5, h6, h7, h8, h9, h10, h11⟩ := hi
  exact ⟨h1, h2, h3, h4, h5, h6, h7, h8, h9, h10, h11⟩

theorem inv_leave (s : St) (w : Nat) (hi : Inv s) : Inv (step .whenReleased s (.leave w)) := by
  simp only [step]
  split
  · next c id sl rcv r hpc =>
    obtain ⟨h1, h2, h3, h4, h5, h6, h7, h8, h9, h10, h11⟩ := hi
    have hreg : (s.pc w).reg = some (c, id, sl) := by rw [hpc]; rfl
    have hslot : (s.pc w).slot = some sl := by rw [hpc]; rfl
    -- anybody registered with this slot is `w`
    have hw : ∀ w2 c2 id2, (s.pc w2).reg = some (c2, id2, sl) → w2 = w := by
      intro w2 c2 id2 hr; exact h2 w2 w sl (reg_slot hr) hslot
    have hu : ∀ c2 id2, s.pending c2 id2 = some sl → c2 = c ∧ id2 = id := by
      intro c2 id2 hp2
      obtain ⟨w2, hw2⟩ := h3 c2 id2 sl hp2
      have := hw w2 c2 id2 hw2
      subst this
      rw [hreg] at hw2
      simp only [Option.some.injEq, Prod.mk.injEq] at hw2
      exact ⟨hw2.1.symm, hw2.2.1.symm⟩
    have hr1 : rcv = true → s.held sl = none ∧ ∀ c' id', s.pending c' id' ≠ some sl := by
      intro e; subst e; exact h6 w c id sl r hpc
    by_cases hcas : s.pending c id = some sl
    · -- this call removes the slot from pending itself
      have hheld : s.held sl = none := by
        cases hh : s.held sl with
        | none => rfl
        | some v => exact absurd hcas (h4 sl (by rw [hh]; simp) c id)
      have hbox : s.box sl = none := by
        cases hb : s.box sl with
        | none => rfl
        | some v => exact absurd hcas ((h5 sl (by rw [hb]; simp)).2 c id)
      simp only [hcas, decide_true, Bool.true_or, if_true]
      constructor
      · pg
      · pg
      · intro c2 id2 sl2 hp2
        simp only [upd2] at hp2
        split at hp2
        · cases hp2
        · next hne =>
          obtain ⟨w0, hw0⟩ := h3 c2 id2 sl2 hp2
          refine ⟨w0, ?_⟩
          have : w0 ≠ w := by
            intro e; subst e; rw [hreg] at hw0
            simp only [Option.some.injEq, Prod.mk.injEq] at hw0
            exact hne ⟨hw0.1.symm, hw0.2.1.symm⟩
          simp only [upd_other _ _ _ _ this]; exact hw0
      · pg
      · pg
      · pg
      · pg
      · pg
      · exact h9
      · pg
      · pg
    · have hdec : decide (s.pending c id = some sl) = false := by simpa using hcas
      simp only [hdec, Bool.false_or, Bool.false_eq_true, if_false]
      have hpo : ∀ c2 id2 sl2, s.pending c2 id2 = some sl2 → ∃ w', (upd s.pc w (WPc.done r) w').reg = some (c2, id2, sl2) := by
        intro c2 id2 sl2 hp2
        obtain ⟨w0, hw0⟩ := h3 c2 id2 sl2 hp2
        refine ⟨w0, ?_⟩
        have : w0 ≠ w := by
          intro e; subst e; rw [hreg] at hw0
          simp only [Option.some.injEq, Prod.mk.injEq] at hw0
          obtain ⟨rfl, rfl, rfl⟩ := hw0
          exact hcas hp2
        simp only [upd_other _ _ _ _ this]; exact hw0
      cases rcv
      · simp only [Bool.false_eq_true, if_false]
        constructor
        · pg
        · pg
        · exact hpo
        · pg
        · pg
        · pg
        · pg
        · pg
        · exact h9
        · pg
        · pg
      · have ⟨hheld, hnp⟩ := hr1 rfl
        simp only [if_true]
        constructor
        · pg
        · pg
        · exact hpo
        · pg
        · pg
        · pg
        · pg
        · pg
        · exact h9
        · pg
        · pg
  · exact hi

theorem inv_step (s : St) (a : Act) (hi : Inv s) : Inv (step .whenReleased s a) := by
  cases a with
  | start w c id sl => exact inv_start _ s w c id sl hi
  | recvSwap c id tag => exact inv_recvSwap _ s c id tag hi
  | closeSwap c id => exact inv_closeSwap _ s c id hi
  | set sl => exact inv_set _ s sl hi
  | take w => exact inv_take _ s w hi
  | cancel w => exact inv_cancel _ s w hi
  | writeFail w => exact inv_writeFail _ s w hi
  | abort w => exact inv_abort _ s w hi
  | connClose c => exact inv_connClose _ s c hi
  | leave w => exact inv_leave s w hi

theorem inv_run (as : List Act) : ∀ s, Inv s → Inv (run .whenReleased s as) := by
  induction as with
  | nil => intro s h; exact h
  | cons a as ih => intro s h; exact ih _ (inv_step s a h)

/-! ### `Allocate` returns a free ID below 4096 -/

theorem lowestClear_spec (used : Nat → Bool) (w : Nat) : ∀ (n b id : Nat), lowestClear used w n b = some id →
    used id = false ∧ 64 * w + b ≤ id ∧ id < 64 * w + b + n := by
  intro n
  induction n with
  | zero => intro b id h; simp [lowestClear] at h
  | succ n ih =>
    intro b id h
    simp only [lowestClear] at h
    split at h
    · obtain ⟨h1, h2, h3⟩ := ih (b + 1) id h
      exact ⟨h1, by omega, by omega⟩
    · next hu =>
      simp only [Option.some.injEq] at h
      subst h
      exact ⟨by simpa using hu, by omega, by omega⟩

theorem scanWords_spec (used : Nat → Bool) (sw : Nat) : ∀ (n i id : Nat), scanWords used sw n i = some id →
    used id = false ∧ id < 4096 := by
  intro n
  induction n with
  | zero => intro i id h; simp [scanWords] at h
  | succ n ih =>
    intro i id h
    simp only [scanWords] at h
    split at h
    · next id' hl =>
      simp only [Option.some.injEq] at h
      subst h
      obtain ⟨h1, h2, h3⟩ := lowestClear_spec used _ 64 0 _ hl
      have : (sw + i) % 64 < 64 := Nat.mod_lt _ (by decide)
      exact ⟨h1, by omega⟩
    · exact ih (i + 1) id h

theorem allocate_spec (used : Nat → Bool) (next id : Nat) (h : allocate used next = some id) :
    used id = false ∧ id < 4096 :=
  scanWords_spec used _ 64 0 id h

end Pipe

end DaeVerif.C09
