import DaeVerif.C09.LoopModel
import DaeVerif.C09.FwdProofs
/-! Invariant of `forwardWithDialArg` / `getOrCreateDnsForwarder` / the retire paths (C09 `Loop`). -/
namespace DaeVerif.C09

namespace Fwd

/-! ### facts about the entry protocol that the composite needs -/

/-- the goroutine an action belongs to -/
def Act.thr : Act → Nat
  | .callBegin t | .callEnd t | .callRetire t | .callRetireCached t | .callEvict t | .forward t | .step t => t

theorem setPc_pcs_ne (s : St) (t t' : Nat) (p : Pc) (h : t' ≠ t) : (s.setPc t p).pcs[t']? = s.pcs[t']? := by
  simp only [St.setPc]
  exact List.getElem?_set_ne (Ne.symm h)

theorem closeNow_pcs (s : St) : s.closeNow.pcs = s.pcs := by
  unfold St.closeNow; split <;> rfl

/-- an operation of goroutine `t` leaves every other goroutine's program counter alone -/
theorem stepPc_frame (cfg : Cfg) (s : St) (t t' : Nat) (h : t' ≠ t) : (stepPc cfg s t).pcs[t']? = s.pcs[t']? := by
  unfold stepPc
  split
  · rfl
  · next p _ =>
    cases p <;> simp only <;> (repeat' split) <;>
      first
        | rfl
        | (rw [setPc_pcs_ne _ _ _ _ h, closeNow_pcs])
        | (rw [setPc_pcs_ne _ _ _ _ h])

theorem step_frame (cfg : Cfg) (s : St) (a : Act) (t' : Nat) (h : t' ≠ a.thr) : (step cfg s a).pcs[t']? = s.pcs[t']? := by
  cases a <;> simp only [step, Act.thr] at h ⊢
  case step t => exact stepPc_frame cfg s t t' h
  all_goals (repeat' split) <;> first | rfl | exact setPc_pcs_ne _ _ _ _ h

theorem closeNow_inCache (s : St) : s.closeNow.inCache = s.inCache := by
  unfold St.closeNow; split <;> rfl

/-- no operation of the entry puts it (back) into the cache -/
theorem stepPc_inCache (cfg : Cfg) (s : St) (t : Nat) (h : (stepPc cfg s t).inCache = true) : s.inCache = true := by
  unfold stepPc at h
  split at h
  · exact h
  · next p _ =>
    cases p <;> simp only at h <;> (repeat' split at h) <;>
      first
        | exact h
        | (simp only [St.setPc] at h; first | exact h | (rw [closeNow_inCache] at h; exact h) | cases h)
        | assumption

theorem step_inCache (cfg : Cfg) (s : St) (a : Act) (h : (step cfg s a).inCache = true) : s.inCache = true := by
  cases a <;> simp only [step] at h
  case step t => exact stepPc_inCache cfg s t h
  all_goals (repeat' split at h) <;> first | exact h | (simp only [St.setPc] at h; exact h)


/-! #### an entry that has left the cache is retired, or somebody is about to retire it -/

def isR1 : Pc → Bool
  | .r1 => true
  | _ => false

/-- the entry cannot be forgotten: once it is out of the cache it is retired, or a goroutine stands between its
`CompareAndDelete` and `retired.Store(true)` -/
def Leak (s : St) : Prop := s.inCache = false → s.retired = true ∨ 0 < s.pcs.countP isR1

theorem leak_move (s s' : St) (t : Nat) (p q : Pc) (hp : s.pcs[t]? = some p) (hpcs : s'.pcs = s.pcs.set t q)
    (hret : s.retired = true → s'.retired = true)
    (hcache : s'.inCache = false → s.inCache = false ∨ q = .r1)
    (hr1 : p = .r1 → s'.retired = true) (hl : Leak s) : Leak s' := by
  intro hic
  have hcnt := countP_set_add isR1 s.pcs t p q hp
  rw [← hpcs] at hcnt
  by_cases hpr : p = .r1
  · exact .inl (hr1 hpr)
  · have hp0 : isR1 p = false := by cases p <;> first | rfl | exact absurd rfl hpr
    rw [hp0] at hcnt
    simp only [Bool.false_eq_true, if_false, Nat.add_zero] at hcnt
    rcases hcache hic with h | h
    · rcases hl h with h' | h'
      · exact .inl (hret h')
      · right; rw [hcnt]; omega
    · subst h
      right; rw [hcnt]; simp [isR1]

theorem closeNow_retired (s : St) : s.closeNow.retired = s.retired := by
  unfold St.closeNow; split <;> rfl

theorem leak_stepPc (cfg : Cfg) (hg : cfg.evictRetires = true) (s : St) (t : Nat) (hl : Leak s) :
    Leak (stepPc cfg s t) := by
  unfold stepPc
  rw [hg]
  split
  · exact hl
  · next p hp =>
    cases p <;> simp only <;> (repeat' split) <;>
      first
        | exact hl
        | (rename_i hF; exact absurd trivial hF)
        | (refine leak_move s _ t _ _ hp (by first | rfl | (simp only [St.setPc, closeNow_pcs]; rfl)) ?_ ?_ ?_ hl <;>
            simp [St.setPc, closeNow_retired, closeNow_inCache] <;> (try (intro h; exact .inl h)))

theorem leak_step (cfg : Cfg) (hg : cfg.evictRetires = true) (s : St) (a : Act) (hl : Leak s) :
    Leak (step cfg s a) := by
  cases a <;> simp only [step]
  case step t => exact leak_stepPc cfg hg s t hl
  all_goals (repeat' split) <;>
    first
      | exact hl
      | (rename_i hp
         refine leak_move s _ _ _ _ hp (by rfl) ?_ ?_ ?_ hl <;>
           simp [St.setPc] <;> (try (intro h; exact .inl h)))
      | (intro hic; exact hl hic)

theorem pristine_leak_after_publish (n : Nat) : Leak { init n with inCache := true } := by
  intro h; cases h


theorem inv_inCache_irrel (cfg : Cfg) (s : St) (b : Bool) (h : Inv cfg s) : Inv cfg { s with inCache := b } :=
  ⟨h.cnt, h.closes1, h.closes0, h.knowsRet, h.onceRet, h.noUse, h.live, h.noRaw, h.noE2, h.bad⟩

/-- the no-leak argument of `retired_forwarder_closed_when_quiescent`, for any state satisfying the invariant -/
theorem closed_of_retired_quiescent (cfg : Cfg) (s : St) (hinv : Inv cfg s) (hr : s.retired = true)
    (hq : ∀ p ∈ s.pcs, p = Pc.idle) : s.closes = 1 := by
  cases ho : s.once
  · exfalso
    have h1 := hinv.live hr ho
    have h2 := countP_zero_of_all_idle closer rfl s.pcs hq
    have h3 := countP_zero_of_all_idle holds rfl s.pcs hq
    have h4 := hinv.cnt
    omega
  · exact hinv.closes1 ho

end Fwd

namespace Loop
open Fwd (Pc)

/-- the goroutine holds forwarder `e`, which it has created and nobody else can see -/
def owns : OPc → Nat → Prop
  | .creating e' _ _, e => e' = e
  | .storing e' _ _, e => e' = e
  | .closingLoser e' _ _ _, e => e' = e
  | _, _ => False

/-- the goroutine is inside the methods of entry `e` -/
def uses : OPc → Nat → Prop
  | .beginning e' _ _, e => e' = e
  | .busy e' _, e => e' = e
  | .ending e' _, e => e' = e
  | .retiring e' _, e => e' = e
  | _, _ => False

/-- … or holds a reference to it that it is going to use -/
def refs : OPc → Nat → Prop
  | .closingLoser _ w _ _, e => w = e
  | p, e => uses p e

structure LInv (s : St) : Prop where
  fwdInv : ∀ e x, s.ent e = some x → Fwd.Inv fcfg x.f
  prist : ∀ e x, s.ent e = some x → x.status ≠ .published → x.f = pristine s.n
  raw : ∀ e x, s.ent e = some x → (x.status = .lost → x.rawCloses = 1) ∧ (x.status ≠ .lost → x.rawCloses = 0)
  owner : ∀ e x, s.ent e = some x → x.status = .fresh → ∃ t, owns (s.opc t) e
  inn : ∀ e x t p, s.ent e = some x → x.f.pcs[t]? = some p → p ≠ .idle → uses (s.opc t) e
  leak : ∀ e x, s.ent e = some x → x.status = .published → Fwd.Leak x.f
  uniq : ∀ e1 e2 x1 x2, s.ent e1 = some x1 → s.ent e2 = some x2 → x1.f.inCache = true → x2.f.inCache = true → e1 = e2
  dom : ∀ e, s.ent e = none ↔ s.nents ≤ e
  refsPub : ∀ t e, refs (s.opc t) e → ∃ x, s.ent e = some x ∧ x.status = .published
  ownsFresh : ∀ t e, owns (s.opc t) e → ∃ x, s.ent e = some x ∧ x.status = .fresh
  ownsUniq : ∀ t t' e, owns (s.opc t) e → owns (s.opc t') e → t = t'

theorem linv_init (n : Nat) : LInv (init n) := by
  constructor <;> simp [init, owns, uses, refs]

@[simp] theorem upd_same {β} (f : Nat → β) (i : Nat) (v : β) : upd f i v i = v := by simp [upd]
theorem upd_ne {β} (f : Nat → β) (i j : Nat) (v : β) (h : j ≠ i) : upd f i v j = f j := by simp [upd, h]

theorem pristine_pcs_idle (n t : Nat) (p : Pc) (h : (pristine n).pcs[t]? = some p) : p = .idle := by
  simp only [pristine, Fwd.init] at h
  have := List.mem_of_getElem? h
  exact (List.mem_replicate.mp this).2

theorem cachedIdx_some {s : St} {e : Nat} (h : cachedIdx s = some e) :
    ∃ x, s.ent e = some x ∧ x.f.inCache = true := by
  unfold cachedIdx at h
  have := List.find?_some h
  unfold isCached at this
  split at this
  · next x hx => exact ⟨x, hx, this⟩
  · cases this

theorem cachedIdx_none {s : St} (hd : ∀ e, s.ent e = none ↔ s.nents ≤ e) (h : cachedIdx s = none) :
    ∀ e x, s.ent e = some x → x.f.inCache = false := by
  intro e x hx
  unfold cachedIdx at h
  rw [List.find?_eq_none] at h
  have hlt : e < s.nents := by
    by_cases hl : e < s.nents
    · exact hl
    · have := (hd e).mpr (by omega); rw [hx] at this; cases this
  have := h e (List.mem_range.mpr hlt)
  simp only [isCached, hx] at this
  cases hc : x.f.inCache
  · rfl
  · rw [hc] at this; exact absurd rfl this

/-- not published ⇒ not in the cache -/
theorem published_of_inCache {s : St} (hi : LInv s) {e : Nat} {x : Ent} (hx : s.ent e = some x)
    (hc : x.f.inCache = true) : x.status = .published := by
  by_cases hp : x.status = .published
  · exact hp
  · have := hi.prist e x hx hp
    rw [this] at hc
    simp [pristine] at hc

/-! #### the generic moves -/

/-- goroutine `t` performs an operation `g` of the entry protocol on the published entry `e` and is (still, or
from now on) inside `e`'s methods -/
theorem linv_entry_op (s : St) (hi : LInv s) (t e : Nat) (x : Ent) (g : Fwd.St → Fwd.St) (p' : OPc)
    (hx : s.ent e = some x) (hpub : x.status = .published)
    (hgInv : Fwd.Inv fcfg x.f → Fwd.Inv fcfg (g x.f))
    (hgFrame : ∀ t', t' ≠ t → (g x.f).pcs[t']? = x.f.pcs[t']?)
    (hgCache : (g x.f).inCache = true → x.f.inCache = true)
    (hgLeak : Fwd.Leak x.f → Fwd.Leak (g x.f))
    (hp' : uses p' e) (hold : ∀ e', ¬ owns (s.opc t) e')
    (holdUses : ∀ e', uses (s.opc t) e' → e' = e) :
    LInv { s with ent := upd s.ent e (some { x with f := g x.f }), opc := upd s.opc t p' } := by
  have hp'owns : ∀ e', ¬ owns p' e' := by
    intro e' h; cases p' <;> simp [owns, uses] at h hp'
  have hp'refs : ∀ e', refs p' e' → e' = e := by
    intro e' h; cases p' <;> simp [refs, uses] at h hp' <;> omega
  have hp'uses : ∀ e', uses p' e' → e' = e := by
    intro e' h; cases p' <;> simp [uses] at h hp' <;> omega
  constructor
  · intro e' x' hx'
    simp only [upd] at hx'
    split at hx'
    · cases hx'; exact hgInv (hi.fwdInv e x hx)
    · exact hi.fwdInv e' x' hx'
  · intro e' x' hx' hs
    simp only [upd] at hx'
    split at hx'
    · cases hx'; exact absurd hpub hs
    · exact hi.prist e' x' hx' hs
  · intro e' x' hx'
    simp only [upd] at hx'
    split at hx'
    · cases hx'; exact hi.raw e x hx
    · exact hi.raw e' x' hx'
  · intro e' x' hx' hs
    simp only [upd] at hx'
    split at hx'
    · cases hx'; rw [hpub] at hs; cases hs
    · obtain ⟨t0, ht0⟩ := hi.owner e' x' hx' hs
      refine ⟨t0, ?_⟩
      have : t0 ≠ t := by intro h; subst h; exact hold _ ht0
      simp only [upd, this, if_false]; exact ht0
  · intro e' x' t' p hx' hp hne
    simp only [upd] at hx' ⊢
    by_cases htt : t' = t
    · subst htt
      simp only [if_true]
      split at hx'
      · next he => subst he; exact hp'
      · next he =>
        exfalso
        have := hi.inn e' x' t' p hx' hp hne
        exact he (holdUses _ this)
    · simp only [htt, if_false]
      split at hx'
      · next he =>
        subst he; cases hx'
        simp only at hp
        rw [hgFrame t' htt] at hp
        exact hi.inn e' x t' p hx hp hne
      · exact hi.inn e' x' t' p hx' hp hne
  · intro e' x' hx' hs
    simp only [upd] at hx'
    split at hx'
    · cases hx'; exact hgLeak (hi.leak e x hx hpub)
    · exact hi.leak e' x' hx' hs
  · intro e1 e2 x1 x2 h1 h2 c1 c2
    simp only [upd] at h1 h2
    split at h1 <;> split at h2
    · omega
    · next he1 he2 =>
      cases h1; exact hi.uniq e1 e2 x x2 (he1 ▸ hx) h2 (hgCache c1) c2
    · next he1 he2 =>
      cases h2; exact hi.uniq e1 e2 x1 x h1 (he2 ▸ hx) c1 (hgCache c2)
    · exact hi.uniq e1 e2 x1 x2 h1 h2 c1 c2
  · intro e'
    simp only [upd]
    split
    · next he =>
      subst he
      simp only [reduceCtorEq, false_iff]
      intro hle
      have := (hi.dom e').mpr hle
      rw [hx] at this; cases this
    · exact hi.dom e'
  · intro t' e' hr
    simp only [upd] at hr ⊢
    have key : ∀ e'', (∃ x', s.ent e'' = some x' ∧ x'.status = .published) →
        ∃ x', (if e'' = e then some { x with f := g x.f } else s.ent e'') = some x' ∧ x'.status = .published := by
      intro e'' ⟨x', hx', hs'⟩
      split
      · exact ⟨_, rfl, hpub⟩
      · exact ⟨x', hx', hs'⟩
    split at hr
    · have := hp'refs e' hr; subst this; exact key _ ⟨x, hx, hpub⟩
    · exact key _ (hi.refsPub t' e' hr)
  · intro t' e' ho
    simp only [upd] at ho ⊢
    split at ho
    · exact absurd ho (hp'owns e')
    · obtain ⟨x', hx', hs'⟩ := hi.ownsFresh t' e' ho
      have : e' ≠ e := by intro h; subst h; rw [hx] at hx'; cases hx'; rw [hpub] at hs'; cases hs'
      simp only [this, if_false]; exact ⟨x', hx', hs'⟩
  · intro t1 t2 e' h1 h2
    simp only [upd] at h1 h2
    split at h1
    · exact absurd h1 (hp'owns e')
    · split at h2
      · exact absurd h2 (hp'owns e')
      · exact hi.ownsUniq t1 t2 e' h1 h2

theorem linv_rets (s : St) (r : List (Nat × Ret)) (h : LInv s) : LInv { s with rets := r } :=
  ⟨h.fwdInv, h.prist, h.raw, h.owner, h.inn, h.leak, h.uniq, h.dom, h.refsPub, h.ownsFresh, h.ownsUniq⟩

/-- goroutine `t` moves on in its own code (nothing shared is touched) -/
theorem linv_setO (s : St) (hi : LInv s) (t : Nat) (p' : OPc)
    (hinn : ∀ e x p, s.ent e = some x → x.f.pcs[t]? = some p → p ≠ .idle → uses p' e)
    (hr : ∀ e', refs p' e' → ∃ x, s.ent e' = some x ∧ x.status = .published)
    (ho1 : ∀ e', owns p' e' → owns (s.opc t) e')
    (ho2 : ∀ e', owns (s.opc t) e' → owns p' e') :
    LInv { s with opc := upd s.opc t p' } := by
  refine ⟨hi.fwdInv, hi.prist, hi.raw, ?_, ?_, hi.leak, hi.uniq, hi.dom, ?_, ?_, ?_⟩
  · intro e x hx hs
    obtain ⟨t0, ht0⟩ := hi.owner e x hx hs
    refine ⟨t0, ?_⟩
    simp only [upd]
    split
    · next h => subst h; exact ho2 e ht0
    · exact ht0
  · intro e x t' p hx hp hne
    simp only [upd]
    split
    · next h => subst h; exact hinn e x p hx hp hne
    · exact hi.inn e x t' p hx hp hne
  · intro t' e' h
    simp only [upd] at h
    split at h
    · exact hr e' h
    · exact hi.refsPub t' e' h
  · intro t' e' h
    simp only [upd] at h
    split at h
    · next htt => subst htt; exact hi.ownsFresh t' e' (ho1 e' h)
    · exact hi.ownsFresh t' e' h
  · intro t1 t2 e' h1 h2
    simp only [upd] at h1 h2
    split at h1 <;> split at h2
    · omega
    · next a b => subst a; exact hi.ownsUniq t1 t2 e' (ho1 e' h1) h2
    · next a b => subst b; exact hi.ownsUniq t1 t2 e' h1 (ho1 e' h2)
    · exact hi.ownsUniq t1 t2 e' h1 h2

/-- a goroutine that is not inside any entry's methods has no program counter there -/
theorem inner_idle_of_not_uses (s : St) (hi : LInv s) (t : Nat) (hnu : ∀ e, ¬ uses (s.opc t) e) :
    ∀ e x p, s.ent e = some x → x.f.pcs[t]? = some p → p = .idle := by
  intro e x p hx hp
  by_cases h : p = .idle
  · exact h
  · exact absurd (hi.inn e x t p hx hp h) (hnu e)

/-- `getOrCreateDnsForwarder` misses and calls the factory: forwarder number `nents` comes into being -/
theorem linv_create (s : St) (hi : LInv s) (t a : Nat) (r : Res) (hnu : ∀ e, ¬ uses (s.opc t) e)
    (hno : ∀ e, ¬ owns (s.opc t) e) :
    LInv { s with nents := s.nents + 1, ent := upd s.ent s.nents (some ⟨pristine s.n, .fresh, 0⟩),
                  opc := upd s.opc t (.creating s.nents a r) } := by
  have hnone : s.ent s.nents = none := (hi.dom s.nents).mpr (Nat.le_refl _)
  have hidle := inner_idle_of_not_uses s hi t hnu
  constructor
  · intro e x hx
    simp only [upd] at hx
    split at hx
    · cases hx; exact Fwd.inv_inCache_irrel _ _ _ (Fwd.inv_init _ _)
    · exact hi.fwdInv e x hx
  · intro e x hx hs
    simp only [upd] at hx
    split at hx
    · cases hx; rfl
    · exact hi.prist e x hx hs
  · intro e x hx
    simp only [upd] at hx
    split at hx
    · cases hx; simp
    · exact hi.raw e x hx
  · intro e x hx hs
    simp only [upd] at hx
    split at hx
    · next he => subst he; exact ⟨t, by simp [upd, owns]⟩
    · next he =>
      obtain ⟨t0, ht0⟩ := hi.owner e x hx hs
      refine ⟨t0, ?_⟩
      have : t0 ≠ t := by intro h; subst h; exact hno _ ht0
      simp only [upd, this, if_false]; exact ht0
  · intro e x t' p hx hp hne
    simp only [upd] at hx ⊢
    split at hx
    · cases hx; exact absurd (pristine_pcs_idle _ _ _ hp) hne
    · split
      · next htt => subst htt; exact absurd (hidle e x p hx hp) hne
      · exact hi.inn e x t' p hx hp hne
  · intro e x hx hs
    simp only [upd] at hx
    split at hx
    · cases hx; cases hs
    · exact hi.leak e x hx hs
  · intro e1 e2 x1 x2 h1 h2 c1 c2
    simp only [upd] at h1 h2
    split at h1
    · cases h1; simp [pristine] at c1
    · split at h2
      · cases h2; simp [pristine] at c2
      · exact hi.uniq e1 e2 x1 x2 h1 h2 c1 c2
  · intro e
    simp only [upd]
    split
    · next he => subst he; simp
    · next he =>
      rw [hi.dom e]
      constructor <;> intro h <;> omega
  · intro t' e' h
    simp only [upd] at h ⊢
    split at h
    · simp [refs, uses] at h
    · obtain ⟨x, hx, hs⟩ := hi.refsPub t' e' h
      have : e' ≠ s.nents := by intro he; subst he; rw [hnone] at hx; cases hx
      simp only [this, if_false]; exact ⟨x, hx, hs⟩
  · intro t' e' h
    simp only [upd] at h ⊢
    split at h
    · simp only [owns] at h; subst h; simp
    · obtain ⟨x, hx, hs⟩ := hi.ownsFresh t' e' h
      have : e' ≠ s.nents := by intro he; subst he; rw [hnone] at hx; cases hx
      simp only [this, if_false]; exact ⟨x, hx, hs⟩
  · intro t1 t2 e' h1 h2
    simp only [upd] at h1 h2
    have fresh_ne : ∀ t', owns (s.opc t') e' → e' ≠ s.nents := by
      intro t' h he
      obtain ⟨x, hx, _⟩ := hi.ownsFresh t' e' h
      subst he; rw [hnone] at hx; cases hx
    split at h1 <;> split at h2
    · omega
    · simp only [owns] at h1; exact absurd h1.symm (fresh_ne t2 h2)
    · simp only [owns] at h2; exact absurd h2.symm (fresh_ne t1 h1)
    · exact hi.ownsUniq t1 t2 e' h1 h2

/-- `LoadOrStore` wins: the goroutine's own fresh forwarder becomes the cached entry (the goroutine is parked
on a neutral program point `p0` for the sake of the composition with `linv_entry_op`) -/
theorem linv_publish (s : St) (hi : LInv s) (t e : Nat) (x : Ent) (p0 : OPc)
    (hx : s.ent e = some x) (hown : owns (s.opc t) e) (hnu : ∀ e', ¬ uses (s.opc t) e')
    (hownOnly : ∀ e', owns (s.opc t) e' → e' = e)
    (hnone : cachedIdx s = none)
    (hp0 : ∀ e', ¬ owns p0 e' ∧ ¬ refs p0 e') :
    LInv { s with ent := upd s.ent e (some { x with status := .published, f := { x.f with inCache := true } }),
                  opc := upd s.opc t p0 } := by
  obtain ⟨x0, hx0, hfresh⟩ := hi.ownsFresh t e hown
  rw [hx] at hx0; cases hx0
  have hprist : x.f = pristine s.n := hi.prist e x hx (by rw [hfresh]; simp)
  have hidle := inner_idle_of_not_uses s hi t hnu
  have hnotc := cachedIdx_none hi.dom hnone
  have hp0u : ∀ e', ¬ uses p0 e' := by
    intro e' h; exact (hp0 e').2 (by cases p0 <;> simp_all [refs, uses])
  constructor
  · intro e' x' hx'
    simp only [upd] at hx'
    split at hx'
    · cases hx'; exact Fwd.inv_inCache_irrel _ _ _ (hi.fwdInv e x hx)
    · exact hi.fwdInv e' x' hx'
  · intro e' x' hx' hs
    simp only [upd] at hx'
    split at hx'
    · cases hx'; exact absurd rfl hs
    · exact hi.prist e' x' hx' hs
  · intro e' x' hx'
    simp only [upd] at hx'
    split at hx'
    · cases hx'
      have := (hi.raw e x hx).2 (by rw [hfresh]; simp)
      simp [this]
    · exact hi.raw e' x' hx'
  · intro e' x' hx' hs
    simp only [upd] at hx'
    split at hx'
    · cases hx'; cases hs
    · next he =>
      obtain ⟨t0, ht0⟩ := hi.owner e' x' hx' hs
      refine ⟨t0, ?_⟩
      have : t0 ≠ t := by intro h; subst h; exact he (hownOnly _ ht0)
      simp only [upd, this, if_false]; exact ht0
  · intro e' x' t' p hx' hp hne
    simp only [upd] at hx' ⊢
    split at hx'
    · cases hx'
      simp only at hp
      rw [hprist] at hp
      exact absurd (pristine_pcs_idle _ _ _ hp) hne
    · split
      · next htt => subst htt; exact absurd (hidle e' x' p hx' hp) hne
      · exact hi.inn e' x' t' p hx' hp hne
  · intro e' x' hx' hs
    simp only [upd] at hx'
    split at hx'
    · cases hx'; intro h; cases h
    · exact hi.leak e' x' hx' hs
  · intro e1 e2 x1 x2 h1 h2 c1 c2
    simp only [upd] at h1 h2
    split at h1 <;> split at h2
    · omega
    · have := hnotc e2 x2 h2; rw [this] at c2; cases c2
    · have := hnotc e1 x1 h1; rw [this] at c1; cases c1
    · exact hi.uniq e1 e2 x1 x2 h1 h2 c1 c2
  · intro e'
    simp only [upd]
    split
    · next he =>
      subst he
      simp only [reduceCtorEq, false_iff]
      intro hle
      have := (hi.dom e').mpr hle
      rw [hx] at this; cases this
    · exact hi.dom e'
  · intro t' e' h
    simp only [upd] at h ⊢
    split at h
    · exact absurd h (hp0 e').2
    · obtain ⟨x', hx', hs'⟩ := hi.refsPub t' e' h
      split
      · exact ⟨_, rfl, rfl⟩
      · exact ⟨x', hx', hs'⟩
  · intro t' e' h
    simp only [upd] at h ⊢
    split at h
    · exact absurd h (hp0 e').1
    · next htt =>
      obtain ⟨x', hx', hs'⟩ := hi.ownsFresh t' e' h
      have : e' ≠ e := by
        intro he; subst he
        exact htt (hi.ownsUniq t' t e' h hown)
      simp only [this, if_false]; exact ⟨x', hx', hs'⟩
  · intro t1 t2 e' h1 h2
    simp only [upd] at h1 h2
    split at h1
    · exact absurd h1 (hp0 e').1
    · split at h2
      · exact absurd h2 (hp0 e').1
      · exact hi.ownsUniq t1 t2 e' h1 h2

/-- `LoadOrStore` lost: the goroutine closes its own redundant forwarder -/
theorem linv_lose (s : St) (hi : LInv s) (t e : Nat) (x : Ent) (p0 : OPc)
    (hx : s.ent e = some x) (hown : owns (s.opc t) e) (hnu : ∀ e', ¬ uses (s.opc t) e')
    (hownOnly : ∀ e', owns (s.opc t) e' → e' = e)
    (hp0 : ∀ e', ¬ owns p0 e' ∧ ¬ refs p0 e') :
    LInv { s with ent := upd s.ent e (some { x with status := .lost, rawCloses := x.rawCloses + 1 }),
                  opc := upd s.opc t p0 } := by
  obtain ⟨x0, hx0, hfresh⟩ := hi.ownsFresh t e hown
  rw [hx] at hx0; cases hx0
  have hprist : x.f = pristine s.n := hi.prist e x hx (by rw [hfresh]; simp)
  have hidle := inner_idle_of_not_uses s hi t hnu
  constructor
  · intro e' x' hx'
    simp only [upd] at hx'
    split at hx'
    · cases hx'; exact hi.fwdInv e x hx
    · exact hi.fwdInv e' x' hx'
  · intro e' x' hx' hs
    simp only [upd] at hx'
    split at hx'
    · cases hx'; exact hprist
    · exact hi.prist e' x' hx' hs
  · intro e' x' hx'
    simp only [upd] at hx'
    split at hx'
    · cases hx'
      have := (hi.raw e x hx).2 (by rw [hfresh]; simp)
      simp [this]
    · exact hi.raw e' x' hx'
  · intro e' x' hx' hs
    simp only [upd] at hx'
    split at hx'
    · cases hx'; cases hs
    · next he =>
      obtain ⟨t0, ht0⟩ := hi.owner e' x' hx' hs
      refine ⟨t0, ?_⟩
      have : t0 ≠ t := by intro h; subst h; exact he (hownOnly _ ht0)
      simp only [upd, this, if_false]; exact ht0
  · intro e' x' t' p hx' hp hne
    simp only [upd] at hx' ⊢
    split at hx'
    · cases hx'
      simp only at hp
      rw [hprist] at hp
      exact absurd (pristine_pcs_idle _ _ _ hp) hne
    · split
      · next htt => subst htt; exact absurd (hidle e' x' p hx' hp) hne
      · exact hi.inn e' x' t' p hx' hp hne
  · intro e' x' hx' hs
    simp only [upd] at hx'
    split at hx'
    · cases hx'; cases hs
    · exact hi.leak e' x' hx' hs
  · intro e1 e2 x1 x2 h1 h2 c1 c2
    simp only [upd] at h1 h2
    split at h1 <;> split at h2
    · omega
    · cases h1; simp only at c1; rw [hprist] at c1; simp [pristine] at c1
    · cases h2; simp only at c2; rw [hprist] at c2; simp [pristine] at c2
    · exact hi.uniq e1 e2 x1 x2 h1 h2 c1 c2
  · intro e'
    simp only [upd]
    split
    · next he =>
      subst he
      simp only [reduceCtorEq, false_iff]
      intro hle
      have := (hi.dom e').mpr hle
      rw [hx] at this; cases this
    · exact hi.dom e'
  · intro t' e' h
    simp only [upd] at h ⊢
    split at h
    · exact absurd h (hp0 e').2
    · obtain ⟨x', hx', hs'⟩ := hi.refsPub t' e' h
      have : e' ≠ e := by intro he; subst he; rw [hx] at hx'; cases hx'; rw [hfresh] at hs'; cases hs'
      simp only [this, if_false]; exact ⟨x', hx', hs'⟩
  · intro t' e' h
    simp only [upd] at h ⊢
    split at h
    · exact absurd h (hp0 e').1
    · next htt =>
      obtain ⟨x', hx', hs'⟩ := hi.ownsFresh t' e' h
      have : e' ≠ e := by
        intro he; subst he
        exact htt (hi.ownsUniq t' t e' h hown)
      simp only [this, if_false]; exact ⟨x', hx', hs'⟩
  · intro t1 t2 e' h1 h2
    simp only [upd] at h1 h2
    split at h1
    · exact absurd h1 (hp0 e').1
    · split at h2
      · exact absurd h2 (hp0 e').1
      · exact hi.ownsUniq t1 t2 e' h1 h2

/-- what the composite needs to know about an operation `g` of goroutine `t` on an entry -/
structure FOp (t : Nat) (g : Fwd.St → Fwd.St) : Prop where
  inv : ∀ f, Fwd.Inv fcfg f → Fwd.Inv fcfg (g f)
  frame : ∀ f t', t' ≠ t → (g f).pcs[t']? = f.pcs[t']?
  cache : ∀ f, (g f).inCache = true → f.inCache = true
  leak : ∀ f, Fwd.Leak f → Fwd.Leak (g f)

theorem fcfg_good : fcfg.Good := ⟨rfl, by decide⟩

theorem fop_step (t : Nat) (a : Fwd.Act) (h : a.thr = t) : FOp t (fun f => Fwd.step fcfg f a) :=
  ⟨fun f hf => Fwd.inv_step fcfg fcfg_good f a hf,
   fun f t' ht => Fwd.step_frame fcfg f a t' (by rw [h]; exact ht),
   fun f hc => Fwd.step_inCache fcfg f a hc,
   fun f hl => Fwd.leak_step fcfg rfl f a hl⟩

theorem fop_stepPc (t : Nat) : FOp t (fun f => Fwd.stepPc fcfg f t) :=
  ⟨fun f hf => Fwd.inv_stepPc fcfg fcfg_good f t hf,
   fun f t' ht => Fwd.stepPc_frame fcfg f t t' ht,
   fun f hc => Fwd.stepPc_inCache fcfg f t hc,
   fun f hl => Fwd.leak_stepPc fcfg rfl f t hl⟩

theorem applyF_eq (s : St) (e : Nat) (x : Ent) (g : Fwd.St → Fwd.St) (hx : s.ent e = some x) :
    s.applyF e g = { s with ent := upd s.ent e (some { x with f := g x.f }) } := by
  simp [St.applyF, hx]

theorem updEnt_eq (s : St) (e : Nat) (x : Ent) (g : Ent → Ent) (hx : s.ent e = some x) :
    s.updEnt e g = { s with ent := upd s.ent e (some (g x)) } := by
  simp [St.updEnt, hx]

theorem upd_upd {β} (f : Nat → β) (i : Nat) (a b : β) : upd (upd f i a) i b = upd f i b := by
  funext j; simp only [upd]; split <;> rfl

theorem upd_self {β} (f : Nat → β) (i : Nat) : upd f i (f i) = f := by
  funext j; simp only [upd]; split
  · next h => rw [h]
  · rfl

/-- `linv_entry_op` in the shape the step function produces -/
theorem linv_op (s : St) (hi : LInv s) (t e : Nat) (g : Fwd.St → Fwd.St) (p' : OPc) (hg : FOp t g)
    (hpub : ∃ x, s.ent e = some x ∧ x.status = .published)
    (hp' : uses p' e) (hold : ∀ e', ¬ owns (s.opc t) e') (holdUses : ∀ e', uses (s.opc t) e' → e' = e) :
    LInv ((s.applyF e g).setO t p') := by
  obtain ⟨x, hx, hs⟩ := hpub
  rw [applyF_eq s e x g hx]
  exact linv_entry_op s hi t e x g p' hx hs (hg.inv _) (hg.frame _) (hg.cache _) (hg.leak _) hp' hold holdUses

/-- the same when the goroutine stays where it is in its own code -/
theorem linv_op_stay (s : St) (hi : LInv s) (t e : Nat) (g : Fwd.St → Fwd.St) (hg : FOp t g)
    (hpub : ∃ x, s.ent e = some x ∧ x.status = .published)
    (hu : uses (s.opc t) e) (hold : ∀ e', ¬ owns (s.opc t) e') (holdUses : ∀ e', uses (s.opc t) e' → e' = e) :
    LInv (s.applyF e g) := by
  have := linv_op s hi t e g (s.opc t) hg hpub hu hold holdUses
  have heq : (s.applyF e g).setO t (s.opc t) = s.applyF e g := by
    obtain ⟨x, hx, _⟩ := hpub
    rw [applyF_eq s e x g hx]
    simp only [St.setO, upd_self]
  rw [heq] at this
  exact this

theorem applyF_opc (s : St) (e : Nat) (g : Fwd.St → Fwd.St) : (s.applyF e g).opc = s.opc := by
  unfold St.applyF; split <;> rfl

theorem applyF_n (s : St) (e : Nat) (g : Fwd.St → Fwd.St) : (s.applyF e g).n = s.n := by
  unfold St.applyF; split <;> rfl

theorem applyF_pub (s : St) (e e' : Nat) (g : Fwd.St → Fwd.St)
    (h : ∃ x, s.ent e' = some x ∧ x.status = .published) :
    ∃ x, (s.applyF e g).ent e' = some x ∧ x.status = .published := by
  obtain ⟨x, hx, hs⟩ := h
  unfold St.applyF
  split
  · next y hy =>
    simp only [upd]
    split
    · next he => subst he; rw [hx] at hy; cases hy; exact ⟨_, rfl, hs⟩
    · exact ⟨x, hx, hs⟩
  · exact ⟨x, hx, hs⟩

/-- goroutine `t` leaves entry `e`'s methods (its program counter there is `idle`) for a program point that
refers to nothing -/
theorem linv_leave (s : St) (hi : LInv s) (t e : Nat) (p' : OPc)
    (hu : ∀ e', uses (s.opc t) e' → e' = e) (hno : ∀ e', ¬ owns (s.opc t) e')
    (hidle : inner s e t = some .idle ∨ inner s e t = none)
    (hp' : ∀ e', ¬ owns p' e' ∧ ¬ refs p' e') : LInv (s.setO t p') := by
  refine linv_setO s hi t p' ?_ (fun e' h => absurd h (hp' e').2) (fun e' h => absurd h (hp' e').1)
    (fun e' h => absurd h (hno e'))
  intro e' x p hx hp hne
  exfalso
  have h1 := hu e' (hi.inn e' x t p hx hp hne)
  subst h1
  simp only [inner, hx] at hidle
  rcases hidle with h | h
  · rw [hp] at h; cases h; exact hne rfl
  · rw [hp] at h; cases h

theorem applyF_setO_opc (s1 : St) (t e : Nat) (p0 p' : OPc) (g : Fwd.St → Fwd.St) :
    (St.applyF { s1 with opc := upd s1.opc t p0 } e g).setO t p' = (s1.applyF e g).setO t p' := by
  cases h : s1.ent e with
  | none => simp [St.applyF, h, St.setO, upd_upd]
  | some x => simp [St.applyF, h, St.setO, upd_upd]

theorem linv_drop_mid (s1 : St) (t e : Nat) (p0 p' : OPc) (g : Fwd.St → Fwd.St)
    (h : LInv (((s1.setO t p0).applyF e g).setO t p')) : LInv ((s1.applyF e g).setO t p') := by
  have := applyF_setO_opc s1 t e p0 p' g
  simp only [St.setO] at this h ⊢
  rw [this] at h
  exact h

theorem uses_refs {p : OPc} {e : Nat} (h : uses p e) : refs p e := by
  cases p <;> simp_all [refs, uses]

theorem linv_stepT (s : St) (t : Nat) (hi : LInv s) : LInv (stepT s t) := by
  unfold stepT
  split
  · exact hi
  · -- loading
    next a r hpc =>
    have hno : ∀ e', ¬ owns (s.opc t) e' := by intro e' h; rw [hpc] at h; exact h
    have hnu : ∀ e', ¬ uses (s.opc t) e' := by intro e' h; rw [hpc] at h; exact h
    split
    · next e hc =>
      obtain ⟨x, hx, hcx⟩ := cachedIdx_some hc
      exact linv_op s hi t e _ _ (fop_step t _ rfl) ⟨x, hx, published_of_inCache hi hx hcx⟩ rfl hno
        (fun e' h => absurd h (hnu e'))
    · exact linv_create s hi t a r hnu hno
  · -- creating
    next e a r hpc =>
    have hnu : ∀ e', ¬ uses (s.opc t) e' := by intro e' h; rw [hpc] at h; exact h
    refine linv_setO s hi t _ ?_ (fun e' h => by simp [refs, uses] at h) ?_ ?_
    · intro e' x p hx hp hne
      exact absurd (inner_idle_of_not_uses s hi t hnu e' x p hx hp) hne
    · intro e' h; rw [hpc]; exact h
    · intro e' h; rw [hpc] at h; exact h
  · -- storing
    next e a r hpc =>
    have hnu : ∀ e', ¬ uses (s.opc t) e' := by intro e' h; rw [hpc] at h; exact h
    have hown : owns (s.opc t) e := by rw [hpc]; rfl
    have hownOnly : ∀ e', owns (s.opc t) e' → e' = e := by intro e' h; rw [hpc] at h; exact h.symm
    split
    · next hc =>
      obtain ⟨x, hx, hfresh⟩ := hi.ownsFresh t e hown
      have h1 := linv_publish s hi t e x .idle hx hown hnu hownOnly hc (by intro e'; simp [owns, refs, uses])
      rw [updEnt_eq s e x _ hx]
      have h2 := linv_op _ h1 t e (fun f => Fwd.step fcfg f (.callBegin t)) (.beginning e a r) (fop_step t _ rfl)
        ⟨{ x with status := .published, f := { x.f with inCache := true } }, by simp [upd], rfl⟩ rfl
        (by intro e' h; simp [upd, owns] at h) (by intro e' h; simp [upd, uses] at h)
      exact linv_drop_mid _ t e .idle _ _ h2
    · next w hc =>
      obtain ⟨xw, hxw, hcw⟩ := cachedIdx_some hc
      refine linv_setO s hi t _ ?_ ?_ ?_ ?_
      · intro e' x p hx hp hne
        exact absurd (inner_idle_of_not_uses s hi t hnu e' x p hx hp) hne
      · intro e' h
        simp only [refs] at h; subst h
        exact ⟨xw, hxw, published_of_inCache hi hxw hcw⟩
      · intro e' h; rw [hpc]; exact h
      · intro e' h; rw [hpc] at h; exact h
  · -- closingLoser
    next e w a r hpc =>
    have hnu : ∀ e', ¬ uses (s.opc t) e' := by intro e' h; rw [hpc] at h; exact h
    have hown : owns (s.opc t) e := by rw [hpc]; rfl
    have hownOnly : ∀ e', owns (s.opc t) e' → e' = e := by intro e' h; rw [hpc] at h; exact h.symm
    obtain ⟨x, hx, hfresh⟩ := hi.ownsFresh t e hown
    obtain ⟨xw, hxw, hpw⟩ := hi.refsPub t w (by rw [hpc]; rfl)
    have hne : w ≠ e := by intro h; subst h; rw [hx] at hxw; cases hxw; rw [hfresh] at hpw; cases hpw
    have h1 := linv_lose s hi t e x .idle hx hown hnu hownOnly (by intro e'; simp [owns, refs, uses])
    rw [updEnt_eq s e x _ hx]
    have h2 := linv_op _ h1 t w (fun f => Fwd.step fcfg f (.callBegin t)) (.beginning w a r) (fop_step t _ rfl)
      ⟨xw, by simp [upd, hne, hxw], hpw⟩ rfl (by intro e' h; simp [upd, owns] at h)
      (by intro e' h; simp [upd, uses] at h)
    exact linv_drop_mid _ t w .idle _ _ h2
  · -- beginning
    next e a r hpc =>
    have hno : ∀ e', ¬ owns (s.opc t) e' := by intro e' h; rw [hpc] at h; exact h
    have hu : uses (s.opc t) e := by rw [hpc]; rfl
    have huOnly : ∀ e', uses (s.opc t) e' → e' = e := by intro e' h; rw [hpc] at h; exact h.symm
    have hpub := hi.refsPub t e (uses_refs hu)
    have hi' := linv_op_stay s hi t e _ (fop_stepPc t) hpub hu hno huOnly
    have hopc := applyF_opc s e (fun f => Fwd.stepPc fcfg f t)
    simp only
    split
    · refine linv_op _ hi' t e _ _ (fop_step t _ rfl) (applyF_pub s e e _ hpub) rfl ?_ ?_
      · rw [hopc]; exact hno
      · rw [hopc]; exact huOnly
    · next hidle =>
      split
      · exact linv_leave _ hi' t e _ (by rw [hopc]; exact huOnly) (by rw [hopc]; exact hno) (.inl hidle)
          (by intro e'; simp [owns, refs, uses])
      · exact linv_leave _ (linv_rets _ _ hi') t e _ (by rw [hopc]; exact huOnly) (by rw [hopc]; exact hno)
          (.inl hidle) (by intro e'; simp [owns, refs, uses])
    · exact hi'
  · -- busy
    next e r hpc =>
    have hno : ∀ e', ¬ owns (s.opc t) e' := by intro e' h; rw [hpc] at h; exact h
    have hu : uses (s.opc t) e := by rw [hpc]; rfl
    have huOnly : ∀ e', uses (s.opc t) e' → e' = e := by intro e' h; rw [hpc] at h; exact h.symm
    exact linv_op s hi t e _ _ (fop_step t _ rfl) (hi.refsPub t e (uses_refs hu)) rfl hno huOnly
  · -- ending
    next e r hpc =>
    have hno : ∀ e', ¬ owns (s.opc t) e' := by intro e' h; rw [hpc] at h; exact h
    have hu : uses (s.opc t) e := by rw [hpc]; rfl
    have huOnly : ∀ e', uses (s.opc t) e' → e' = e := by intro e' h; rw [hpc] at h; exact h.symm
    have hpub := hi.refsPub t e (uses_refs hu)
    have hi' := linv_op_stay s hi t e _ (fop_stepPc t) hpub hu hno huOnly
    have hopc := applyF_opc s e (fun f => Fwd.stepPc fcfg f t)
    simp only
    split
    · next hidle =>
      split
      · refine linv_op _ hi' t e _ _ (fop_step t _ rfl) (applyF_pub s e e _ hpub) rfl ?_ ?_
        · rw [hopc]; exact hno
        · rw [hopc]; exact huOnly
      · exact linv_leave _ (linv_rets _ _ hi') t e _ (by rw [hopc]; exact huOnly) (by rw [hopc]; exact hno)
          (.inl hidle) (by intro e'; simp [owns, refs, uses])
    · exact hi'
  · -- retiring
    next e ret hpc =>
    have hno : ∀ e', ¬ owns (s.opc t) e' := by intro e' h; rw [hpc] at h; exact h
    have hu : uses (s.opc t) e := by rw [hpc]; rfl
    have huOnly : ∀ e', uses (s.opc t) e' → e' = e := by intro e' h; rw [hpc] at h; exact h.symm
    have hpub := hi.refsPub t e (uses_refs hu)
    have hi' := linv_op_stay s hi t e _ (fop_stepPc t) hpub hu hno huOnly
    have hopc := applyF_opc s e (fun f => Fwd.stepPc fcfg f t)
    simp only
    split
    · next hidle =>
      split
      · exact linv_leave _ (linv_rets _ _ hi') t e _ (by rw [hopc]; exact huOnly) (by rw [hopc]; exact hno)
          (.inl hidle) (by intro e'; simp [owns, refs, uses])
      · exact linv_leave _ hi' t e _ (by rw [hopc]; exact huOnly) (by rw [hopc]; exact hno) (.inl hidle)
          (by intro e'; simp [owns, refs, uses])
    · exact hi'

theorem linv_step (s : St) (a : Act) (hi : LInv s) : LInv (step s a) := by
  cases a with
  | step t => exact linv_stepT s t hi
  | call t r =>
    simp only [step]; split
    · next h =>
      have hnu : ∀ e', ¬ uses (s.opc t) e' := by intro e' hu; rw [h.2] at hu; exact hu
      refine linv_setO s hi t _ ?_ (fun e' h' => by simp [refs, uses] at h') (fun e' h' => by simp [owns] at h')
        (fun e' h' => by rw [h.2] at h'; exact h')
      intro e' x p hx hp hne
      exact absurd (inner_idle_of_not_uses s hi t hnu e' x p hx hp) hne
    · exact hi
  | reset t =>
    simp only [step]; split
    · next h =>
      split
      · next e hc =>
        obtain ⟨x, hx, hcx⟩ := cachedIdx_some hc
        exact linv_op s hi t e _ _ (fop_step t _ rfl) ⟨x, hx, published_of_inCache hi hx hcx⟩ rfl
          (by intro e' ho; rw [h.2] at ho; exact ho) (by intro e' hu; rw [h.2] at hu; exact absurd hu (by simp [uses]))
      · exact hi
    · exact hi
  | evict t =>
    simp only [step]; split
    · next h =>
      split
      · next e hc =>
        obtain ⟨x, hx, hcx⟩ := cachedIdx_some hc
        exact linv_op s hi t e _ _ (fop_step t _ rfl) ⟨x, hx, published_of_inCache hi hx hcx⟩ rfl
          (by intro e' ho; rw [h.2] at ho; exact ho) (by intro e' hu; rw [h.2] at hu; exact absurd hu (by simp [uses]))
      · exact hi
    · exact hi

theorem linv_run (as : List Act) : ∀ s, LInv s → LInv (run s as) := by
  induction as with
  | nil => intro s h; exact h
  | cons a as ih => intro s h; exact ih _ (linv_step s a h)

end Loop
end DaeVerif.C09
