/-! C09 shared list helper (core-only). -/
namespace DaeVerif.C09

/-! ## Shared list helper -/

/-- `l.set t q` changes the number of elements satisfying `f` by exactly the old and new element. -/
theorem countP_set_add {α} (f : α → Bool) : ∀ (l : List α) (t : Nat) (p q : α), l[t]? = some p →
    (l.set t q).countP f + (if f p then 1 else 0) = l.countP f + (if f q then 1 else 0)
  | [], t, p, q, h => by simp at h
  | a :: l, 0, p, q, h => by
    simp only [List.getElem?_cons_zero, Option.some.injEq] at h
    subst h
    simp only [List.set_cons_zero, List.countP_cons]
    omega
  | a :: l, t + 1, p, q, h => by
    simp only [List.getElem?_cons_succ] at h
    have ih := countP_set_add f l t p q h
    simp only [List.set_cons_succ, List.countP_cons]
    omega


end DaeVerif.C09
