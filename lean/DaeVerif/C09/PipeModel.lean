/-! C09 `Pipe` model: see `Model.lean` for the overview.

`pipelinedConn` (`control/dns.go`): several connections share the process-wide `responseSlotPool`.
State components are total functions (connection → …, slot → …, waiter → …) so that an unbounded number
of connections, slots and `RoundTrip` calls is covered. -/
namespace DaeVerif.C09

namespace Pipe

/-- pointwise update -/
def upd {β} (f : Nat → β) (k : Nat) (v : β) : Nat → β := fun x => if x = k then v else f x

/-- pointwise update of a two-argument function -/
def upd2 {β} (f : Nat → Nat → β) (a b : Nat) (v : β) : Nat → Nat → β :=
  fun x y => if x = a ∧ y = b then v else f x y

@[simp] theorem upd_same {β} (f : Nat → β) (k : Nat) (v : β) : upd f k v k = v := by simp [upd]
theorem upd_other {β} (f : Nat → β) (k x : Nat) (v : β) (h : x ≠ k) : upd f k v x = f x := by simp [upd, h]

structure Msg where
  id : Nat
  /-- payload token (question and answer) -/
  tag : Nat
  /-- ghost field: the connection `readLoop` read it from -/
  conn : Nat
  deriving DecidableEq, Repr

/-- what `RoundTrip` returns -/
inductive Res where
  | msg (m : Msg)
  /-- `io.ErrUnexpectedEOF`: the slot received `nil` from `closeWithErr` -/
  | eof
  | ctxErr
  | writeErr
  deriving DecidableEq, Repr

inductive WPc where
  | idle
  /-- ID allocated, slot registered in `pending[id]`, request written; blocked in `slot.get(ctx)` -/
  | waiting (c id s : Nat)
  /-- about to run the deferred clean-up; `received` = a value was taken from the slot's channel -/
  | leaving (c id s : Nat) (received : Bool) (r : Res)
  | done (r : Res)
  deriving DecidableEq, Repr

def WPc.slot : WPc → Option Nat
  | .waiting _ _ s => some s
  | .leaving _ _ s _ _ => some s
  | _ => none

/-- the (connection, id, slot) a `RoundTrip` in progress is registered under -/
def WPc.reg : WPc → Option (Nat × Nat × Nat)
  | .waiting c id s => some (c, id, s)
  | .leaving c id s _ _ => some (c, id, s)
  | _ => none

inductive Recycle where
  /-- before fix c5a497d: `defer putResponseSlot(slot)` unconditionally -/
  | always
  /-- the repaired code: only when this call removed the slot from `pending` itself or has received
  what the holder sent -/
  | whenReleased
  deriving DecidableEq, Repr

structure St where
  /-- `pc.pending[id]` per connection: the registered slot -/
  pending : Nat → Nat → Option Nat
  /-- `pc.idAlloc` per connection: bit set -/
  alloc : Nat → Nat → Bool
  /-- `pc.closed` is closed -/
  closed : Nat → Bool
  /-- a `readLoop` / `closeWithErr` of connection `c` has swapped the slot out of `pending` and is about
  to `slot.set(v)` -/
  held : Nat → Option (Nat × Option Msg)
  /-- content of the slot's one-element channel -/
  box : Nat → Option (Option Msg)
  /-- the slot sits in `responseSlotPool` (a never-used slot counts as pooled: `Pool.New`) -/
  free : Nat → Bool
  pc : Nat → WPc
  /-- values received by `RoundTrip` calls: (waiter, connection, id, value) -/
  log : List (Nat × Nat × Nat × Option Msg)

def init : St :=
  { pending := fun _ _ => none, alloc := fun _ _ => false, closed := fun _ => false, held := fun _ => none,
    box := fun _ => none, free := fun _ => true, pc := fun _ => .idle, log := [] }

inductive Act where
  /-- `RoundTrip` of waiter `w` on connection `c`: `Allocate` gave `id`, the pool gave slot `s`,
  `pending[id].CompareAndSwap(nil, slot)`, request written -/
  | start (w c id s : Nat)
  /-- `readLoop` of `c` has read a message with this ID: `pending[id].Swap(nil)` -/
  | recvSwap (c id tag : Nat)
  /-- `closeWithErr` of `c`: `pending[id].Swap(nil)` -/
  | closeSwap (c id : Nat)
  /-- the holder of slot `s` performs `slot.set(v)` (non-blocking send) -/
  | set (s : Nat)
  /-- waiter `w` receives from its slot -/
  | take (w : Nat)
  /-- waiter `w`'s context ends: `pc.Close()` -/
  | cancel (w : Nat)
  /-- waiter `w`'s write failed -/
  | writeFail (w : Nat)
  /-- waiter `w`'s context ended after it registered and before it wrote (`ctx.Err()` check in front of the
  write): `RoundTrip` leaves without writing and WITHOUT closing the connection -/
  | abort (w : Nat)
  /-- read error / EOF / `Close()` from the pool -/
  | connClose (c : Nat)
  /-- waiter `w` runs its deferred clean-up and returns -/
  | leave (w : Nat)
  deriving DecidableEq, Repr

def step (pol : Recycle) (s : St) : Act → St
  | .start w c id sl =>
    if s.pc w = .idle ∧ s.free sl = true ∧ s.alloc c id = false ∧ s.pending c id = none then
      { s with alloc := upd2 s.alloc c id true,
               pending := upd2 s.pending c id (some sl),
               free := upd s.free sl false,
               pc := upd s.pc w (.waiting c id sl) }
    else s
  | .recvSwap c id tag =>
    -- `readLoop` does not look at `pc.closed`: a frame read just before `conn.Close()` is still swapped
    match s.pending c id with
    | some sl =>
      { s with pending := upd2 s.pending c id none,
               held := upd s.held sl (some (c, some ⟨id, tag, c⟩)) }
    | none => s
  | .closeSwap c id =>
    if s.closed c = true then
      match s.pending c id with
      | some sl =>
        { s with pending := upd2 s.pending c id none,
                 held := upd s.held sl (some (c, none)) }
      | none => s
    else s
  | .set sl =>
    match s.held sl with
    | some (_, v) =>
      { s with held := upd s.held sl none,
               box := if s.box sl = none then upd s.box sl (some v) else s.box }
    | none => s
  | .take w =>
    match s.pc w with
    | .waiting c id sl =>
      match s.box sl with
      | some v =>
        { s with box := upd s.box sl none,
                 pc := upd s.pc w (.leaving c id sl true (match v with | some m => .msg m | none => .eof)),
                 log := s.log ++ [(w, c, id, v)] }
      | none => s
    | _ => s
  | .cancel w =>
    match s.pc w with
    | .waiting c id sl =>
      { s with closed := upd s.closed c true, pc := upd s.pc w (.leaving c id sl false .ctxErr) }
    | _ => s
  | .writeFail w =>
    match s.pc w with
    | .waiting c id sl => { s with pc := upd s.pc w (.leaving c id sl false .writeErr) }
    | _ => s
  | .abort w =>
    match s.pc w with
    | .waiting c id sl => { s with pc := upd s.pc w (.leaving c id sl false .ctxErr) }
    | _ => s
  | .connClose c => { s with closed := upd s.closed c true }
  | .leave w =>
    match s.pc w with
    | .leaving c id sl rcv r =>
      let casOk := decide (s.pending c id = some sl)
      let recycle := match pol with | .always => true | .whenReleased => casOk || rcv
      { s with pending := if casOk then upd2 s.pending c id none else s.pending,
               alloc := upd2 s.alloc c id false,
               box := if recycle then upd s.box sl none else s.box,
               free := if recycle then upd s.free sl true else s.free,
               pc := upd s.pc w (.done r) }
    | _ => s

def run (pol : Recycle) (s : St) (as : List Act) : St := as.foldl (step pol) s

/-- the code as it is in `/repo` (after c5a497d) -/
def codePolicy : Recycle := .whenReleased

/-! ### `idBitmap.Allocate`

`start := next++; startWord := (start >> 6) & 63`; scan the 64 words from `startWord`; in the first
word that is not full take the lowest clear bit. -/

/-- lowest clear bit of word `w` (bits `64*w … 64*w+63`), scanning `n` bits from `b` -/
def lowestClear (used : Nat → Bool) (w : Nat) : Nat → Nat → Option Nat
  | 0, _ => none
  | n + 1, b => if used (64 * w + b) then lowestClear used w n (b + 1) else some (64 * w + b)

def scanWords (used : Nat → Bool) (startWord : Nat) : Nat → Nat → Option Nat
  | 0, _ => none
  | n + 1, i =>
    match lowestClear used ((startWord + i) % 64) 64 0 with
    | some id => some id
    | none => scanWords used startWord n (i + 1)

def allocate (used : Nat → Bool) (next : Nat) : Option Nat :=
  scanWords used ((next / 64) % 64) 64 0

end Pipe

end DaeVerif.C09
