import DaeVerif.C09.FwdModel
/-! C09 `Loop` model: `forwardWithDialArg` + `getOrCreateDnsForwarder` + the retire paths, over every forwarder the
controller ever creates for ONE forwarder-cache key (keys are independent `sync.Map` slots). -/
namespace DaeVerif.C09

namespace Loop

/-! ## `Loop` — the users of the cached forwarder entries

`Fwd` is the protocol of ONE `cachedDnsForwarder`.  `Loop` is the code that creates such entries, publishes them in
`dnsForwarderCache`, uses them and retires them (`dns_control.go`):

* `forwardWithDialArg`: up to two rounds of `getOrCreateDnsForwarder` → `beginUse` → `ForwardDNS` → `endUse`, and on a
  failure that is not a truncation or a cancellation `retireCachedDnsForwarder` (CompareAndDelete, `retire`);
* `getOrCreateDnsForwarder`: `Load`; on a miss `dnsForwarderFactory`, `LoadOrStore`, and the loser of a creation race
  closes its redundant forwarder itself and goes on with the winner's entry;
* `retireAllDnsForwarders` (`ResetDnsForwarders`, reload) and `evictIdleDnsForwarders` (janitor) on whatever entry they
  find in the cache.

Every forwarder ever created has an `Ent`: its `cachedDnsForwarder` as a `Fwd.St` (the program counters of all
goroutines *inside that entry's methods* live there, and only `Fwd.step` / `Fwd.stepPc` ever change it), whether it
was published, and the number of times `Close()` was called on it outside the entry (the loser's close).  A goroutine's
own position in `forwardWithDialArg` / the janitor is its `OPc`. -/

inductive Status where
  /-- created by `dnsForwarderFactory`, not yet offered to the cache -/
  | fresh
  /-- stored in `dnsForwarderCache` by `LoadOrStore` (it may have left the cache since) -/
  | published
  /-- lost the `LoadOrStore` race: closed by its creator, never visible to anybody else -/
  | lost
  deriving DecidableEq, Repr

structure Ent where
  f : Fwd.St
  status : Status
  /-- `createdForwarder.Close()` calls that bypass the entry (`getOrCreateDnsForwarder`, "another goroutine won") -/
  rawCloses : Nat
  deriving DecidableEq, Repr

/-- what the transport's `ForwardDNS` returns -/
inductive Res where
  | ok
  /-- `ErrDNSTruncated`: not a transport failure, the forwarder is kept -/
  | truncated
  /-- any other error on a UDP dial argument: the cached forwarder is retired -/
  | fail
  /-- context cancelled / connection closed by the caller: the forwarder is kept -/
  | canceled
  deriving DecidableEq, Repr

/-- what `forwardWithDialArg` returns -/
inductive Ret where
  | ok | truncated | err | canceled
  /-- "dns forwarder retired before request could start" -/
  | retiredTwice
  deriving DecidableEq, Repr

inductive OPc where
  | idle
  /-- `getOrCreateDnsForwarder`, about to `Load(key)`; `a` = number of completed rounds of `forwardWithDialArg` -/
  | loading (a : Nat) (r : Res)
  /-- inside `dnsForwarderFactory` for the new forwarder `e` -/
  | creating (e a : Nat) (r : Res)
  /-- about to `LoadOrStore(key, created)` -/
  | storing (e a : Nat) (r : Res)
  /-- lost the race to entry `w`: about to `createdForwarder.Close()`, then goes on with `w` -/
  | closingLoser (e w a : Nat) (r : Res)
  /-- inside `entry.beginUse()` of entry `e` -/
  | beginning (e a : Nat) (r : Res)
  /-- `entry.forwarder.ForwardDNS` runs -/
  | busy (e : Nat) (r : Res)
  /-- inside `entry.endUse()` -/
  | ending (e : Nat) (r : Res)
  /-- inside `retireCachedDnsForwarder` / `retireAllDnsForwarders` / the idle evictor for entry `e`; `ret` is what
  `forwardWithDialArg` returns afterwards (`none`: a janitor call) -/
  | retiring (e : Nat) (ret : Option Ret)
  deriving DecidableEq, Repr

structure St where
  /-- number of goroutines -/
  n : Nat
  /-- number of forwarders created so far -/
  nents : Nat
  ent : Nat → Option Ent
  opc : Nat → OPc
  /-- returns of `forwardWithDialArg`, oldest first -/
  rets : List (Nat × Ret)

/-- a forwarder as `newCachedDnsForwarder` wraps it, before it is offered to the cache -/
def pristine (n : Nat) : Fwd.St := { Fwd.init n with inCache := false }

def init (n : Nat) : St :=
  { n := n, nents := 0, ent := fun _ => none, opc := fun _ => .idle, rets := [] }

def upd {β} (f : Nat → β) (i : Nat) (v : β) : Nat → β := fun j => if j = i then v else f j

def St.setO (s : St) (t : Nat) (p : OPc) : St := { s with opc := upd s.opc t p }

/-- apply an operation of the entry protocol to entry `e` -/
def St.applyF (s : St) (e : Nat) (g : Fwd.St → Fwd.St) : St :=
  match s.ent e with
  | some x => { s with ent := upd s.ent e (some { x with f := g x.f }) }
  | none => s

def St.updEnt (s : St) (e : Nat) (g : Ent → Ent) : St :=
  match s.ent e with
  | some x => { s with ent := upd s.ent e (some (g x)) }
  | none => s

def isCached (s : St) (e : Nat) : Bool :=
  match s.ent e with
  | some x => x.f.inCache
  | none => false

/-- `dnsForwarderCache.Load(key)`: the entry stored under the key, if any -/
def cachedIdx (s : St) : Option Nat := (List.range s.nents).find? (isCached s)

/-- the program counter of goroutine `t` inside the methods of entry `e` -/
def inner (s : St) (e t : Nat) : Option Fwd.Pc :=
  match s.ent e with
  | some x => x.f.pcs[t]?
  | none => none

def fcfg : Fwd.Cfg := Fwd.codeCfg

inductive Act where
  /-- an idle goroutine calls `forwardWithDialArg`; the transport will answer `r` -/
  | call (t : Nat) (r : Res)
  /-- an idle goroutine runs `retireAllDnsForwarders` and finds the cached entry (if any) -/
  | reset (t : Nat)
  /-- the janitor runs `evictIdleDnsForwarders` and examines the cached entry (if any) -/
  | evict (t : Nat)
  /-- goroutine `t` performs its next atomic operation -/
  | step (t : Nat)
  deriving DecidableEq, Repr

def St.ret (s : St) (t : Nat) (r : Ret) : St := { s with rets := s.rets ++ [(t, r)] }

def retOf : Res → Ret
  | .ok => .ok | .truncated => .truncated | .fail => .err | .canceled => .canceled

def stepT (s : St) (t : Nat) : St :=
  match s.opc t with
  | .idle => s
  | .loading a r =>
    match cachedIdx s with
    | some e => (s.applyF e (fun f => Fwd.step fcfg f (.callBegin t))).setO t (.beginning e a r)
    | none =>
      { s with nents := s.nents + 1, ent := upd s.ent s.nents (some ⟨pristine s.n, .fresh, 0⟩) }.setO t
        (.creating s.nents a r)
  | .creating e a r => s.setO t (.storing e a r)
  | .storing e a r =>
    match cachedIdx s with
    | none =>
      ((s.updEnt e (fun x => { x with status := .published, f := { x.f with inCache := true } })).applyF e
        (fun f => Fwd.step fcfg f (.callBegin t))).setO t (.beginning e a r)
    | some w => s.setO t (.closingLoser e w a r)
  | .closingLoser e w a r =>
    ((s.updEnt e (fun x => { x with status := .lost, rawCloses := x.rawCloses + 1 })).applyF w
      (fun f => Fwd.step fcfg f (.callBegin t))).setO t (.beginning w a r)
  | .beginning e a r =>
    let s' := s.applyF e (fun f => Fwd.stepPc fcfg f t)
    match inner s' e t with
    | some .busy => (s'.applyF e (fun f => Fwd.step fcfg f (.forward t))).setO t (.busy e r)
    | some .idle => if a = 0 then s'.setO t (.loading 1 r) else (s'.ret t .retiredTwice).setO t .idle
    | _ => s'
  | .busy e r => (s.applyF e (fun f => Fwd.step fcfg f (.callEnd t))).setO t (.ending e r)
  | .ending e r =>
    let s' := s.applyF e (fun f => Fwd.stepPc fcfg f t)
    match inner s' e t with
    | some .idle =>
      (match r with
       | .fail => (s'.applyF e (fun f => Fwd.step fcfg f (.callRetireCached t))).setO t (.retiring e (some .err))
       | r => (s'.ret t (retOf r)).setO t .idle)
    | _ => s'
  | .retiring e ret =>
    let s' := s.applyF e (fun f => Fwd.stepPc fcfg f t)
    match inner s' e t with
    | some .idle =>
      (match ret with
       | some x => (s'.ret t x).setO t .idle
       | none => s'.setO t .idle)
    | _ => s'

def step (s : St) : Act → St
  | .call t r => if t < s.n ∧ s.opc t = .idle then s.setO t (.loading 0 r) else s
  | .reset t =>
    if t < s.n ∧ s.opc t = .idle then
      (match cachedIdx s with
       | some e => (s.applyF e (fun f => Fwd.step fcfg f (.callRetireCached t))).setO t (.retiring e none)
       | none => s)
    else s
  | .evict t =>
    if t < s.n ∧ s.opc t = .idle then
      (match cachedIdx s with
       | some e => (s.applyF e (fun f => Fwd.step fcfg f (.callEvict t))).setO t (.retiring e none)
       | none => s)
    else s
  | .step t => stepT s t

def run (s : St) (as : List Act) : St := as.foldl step s

/-- where the real goroutine is parked (a `verifYield` of the entry's methods, the factory, `ForwardDNS`) or has
returned: the schedule replay runs goroutine `t` from one such point to the next -/
def atPark (s : St) (t : Nat) : Bool :=
  match s.opc t with
  | .idle | .creating .. | .busy .. => true
  | .loading .. | .storing .. | .closingLoser .. => false
  | .beginning e _ _ | .ending e _ | .retiring e _ =>
    match inner s e t with
    | some p => Fwd.atYield p && p != .idle && p != .busy
    | none => true

def stepToPark (s : St) (t : Nat) : St :=
  let rec go : Nat → St → St
    | 0, s => s
    | fuel + 1, s =>
      let s' := stepT s t
      if atPark s' t then s' else go fuel s'
  go 16 s

end Loop

end DaeVerif.C09
