/-! C09 `Ctl` model: see `Model.lean` for the overview. -/
namespace DaeVerif.C09

/-! ## `Ctl` — the controller glue: cache, singleflight, upstream attempt(s), question check, ID patch

Mirrors `HandleWithResponseWriter_`, `resolveForSingleflight`, `handleWithResponseWriter_`,
`dialSend`, `forwardWithFallback`, `NormalizeAndCacheDnsResp_`, `writeCachedResponse`
(`dns_control.go`).  Goroutine interleaving is at the granularity of the three blocking points of a
client: arrival (route, cache lookup, `sf.Do` entry), the leader's upstream exchange, and the wake-up
after `sf.Do` returns. -/
namespace Ctl

structure Question where
  /-- canonical (lower-cased, fully qualified) name, as a token -/
  name : Nat
  /-- spelling variant of the name (0 = the canonical lower-case spelling) -/
  spell : Nat
  qtype : Nat
  /-- DNS class (1 = IN, 3 = CH, 255 = ANY, …) -/
  qclass : Nat
  deriving DecidableEq, Repr, Inhabited

/-- what makes two questions the same question: name (case-insensitively), type and class -/
def Question.ident (a : Question) : Nat × Nat × Nat := (a.name, a.qtype, a.qclass)

/-- the same question up to the case of the name (what `dnsResponseAnswersRequest`, fix b94e062, and -
since fix 4150de7 - the cache and singleflight keys compare) -/
def Question.same (a b : Question) : Bool := a.ident == b.ident

/-- the spelling the cache stores and serves (`prepackResponseBeforeStore(fqdn lower-cased, …)`) -/
def Question.canon (a : Question) : Question := { a with spell := 0 }

/-- `responseCacheKey` over `questionCacheKey`: canonical name, type, class (a non-IN class is spelt
`#<class>` in the key, fix 4150de7), routing scope -/
structure Key where
  name : Nat
  qtype : Nat
  qclass : Nat
  scope : Nat
  deriving DecidableEq, Repr, Inhabited

def Key.ident (k : Key) : Nat × Nat × Nat := (k.name, k.qtype, k.qclass)

/-- class IN -/
def classIN : Nat := 1

inductive Route where
  | forward
  /-- request routing says `reject` -/
  | reject
  deriving DecidableEq, Repr

inductive Scheme where
  | udp | tcp | tcpudp
  deriving DecidableEq, Repr

structure Client where
  id : Nat
  q : Question
  scope : Nat
  route : Route
  /-- number of entries in the question section of the query (`q` is the first one; it is meaningless when
  `nq = 0`).  A query carries exactly one question: anything else is refused with FORMERR before the limiter,
  routing, the cache and the singleflight are reached (fix 59279ab for `nq > 1`; `nq = 0` is finding
  `c09-questionless-query-cached-under-root-key`, modelled here as repaired). -/
  nq : Nat
  deriving DecidableEq, Repr

def Client.key (c : Client) : Key := ⟨c.q.name, c.q.qtype, c.q.qclass, c.scope⟩

/-- a message as an upstream may send it (anything at all) -/
structure UpMsg where
  id : Nat
  q : Option Question
  resp : Bool
  rcode : Nat
  tc : Bool
  /-- answer payload token (0 = empty answer section) -/
  ans : Nat
  /-- the answer's TTL is 0: the entry stored for it is already expired at the next lookup (which
  drops it), i.e. the answer is never served from the cache -/
  ttl0 : Bool
  deriving DecidableEq, Repr, Inhabited

/-- outcome of one `ForwardDNS` call as the transport reports it -/
inductive Att where
  | fail
  | msg (m : UpMsg)
  deriving DecidableEq, Repr, Inhabited

/-- what response routing (`ResponseSelect`) says about an upstream message -/
inductive RespRoute where
  | accept
  /-- `reject`: the answer section is emptied, the message is still cached and written -/
  | reject
  /-- another upstream: `dialSend` calls itself with `invokingDepth + 1` and that upstream -/
  | next (sch : Scheme)
  deriving DecidableEq, Repr

/-- one level of `dialSend`: the transport outcome(s) of `forwardWithFallback` (the second one is consulted
only on the `tcp+udp` fallback) and what response routing decides about the message, if it gets that far -/
structure Round where
  a1 : Att
  a2 : Att
  route : RespRoute
  deriving DecidableEq, Repr

/-- `MaxDnsLookupDepth` -/
def maxDepth : Nat := 3

inductive Src where
  /-- built from the client's own message (reject, refused, error replies) -/
  | own
  /-- pre-packed cache entry with the ID patched -/
  | cache
  /-- the (shared) upstream message, copied or re-packed, with the ID patched -/
  | upstream
  deriving DecidableEq, Repr

structure Reply where
  id : Nat
  q : Option Question
  rcode : Nat
  tc : Bool
  ans : Nat
  src : Src
  deriving DecidableEq, Repr

inductive ErrKind where
  /-- transport failure (after fallback, if any) -/
  | upstream
  /-- `ErrDNSTruncated` (UDP answer had TC=1 and no TCP fallback succeeded) -/
  | truncated
  /-- `ErrDNSResponseQuestionMismatch` (fix b94e062) -/
  | mismatch
  /-- `ResponseSelect`: "DNS response expected but DNS request received" (QR bit clear) -/
  | notResponse
  /-- `dialSend`: "too deep DNS lookup invoking" (response routing re-asked `MaxDnsLookupDepth` times) -/
  | tooDeep
  deriving DecidableEq, Repr

/-- what `HandleWithResponseWriter_` did for one client -/
inductive Outcome where
  | wrote (r : Reply)
  | error (e : ErrKind)
  deriving DecidableEq, Repr

structure Entry where
  /-- question section of the packed bytes (canonical spelling of the upstream's question) -/
  q : Question
  ans : Nat
  deriving DecidableEq, Repr

inductive DRes where
  | err (e : ErrKind)
  | ok (m : UpMsg)
  deriving DecidableEq, Repr

structure Flight where
  key : Key
  leader : Nat
  result : Option DRes
  deriving DecidableEq, Repr

inductive Pc where
  | init
  /-- cache miss on arrival; about to enter `sf.Do` -/
  | missed
  | leading (f : Nat)
  | waiting (f : Nat)
  | done
  deriving DecidableEq, Repr

structure Cfg where
  /-- `dialSend` refuses an answer whose question differs from the request's (fix b94e062) -/
  checkQuestion : Bool
  deriving DecidableEq, Repr

def codeCfg : Cfg := { checkQuestion := true }

structure St where
  clients : List Client
  pcs : List Pc
  cache : List (Key × Entry)
  /-- the singleflight map: key ↦ running flight -/
  active : List (Key × Nat)
  flights : List Flight
  /-- everything written to / returned for clients, oldest first -/
  outs : List (Nat × Outcome)
  /-- upstream resolutions started: (flight, question sent) -/
  calls : List (Nat × Question)
  /-- number of flights that went to the upstream (the others were answered from the cache by the
  leader's own re-check inside the flight) -/
  activated : Nat
  /-- ghost: every upstream message `dialSend` accepted (question check passed), with the key of the
  request it was accepted for - used only to state where answers come from -/
  accepted : List (Key × UpMsg)
  /-- ghost: clients whose own request context has ended (the client went away) while they were being served -/
  gone : List Nat
  deriving Repr

def lookup {β} (l : List (Key × β)) (k : Key) : Option β := (l.find? (fun p => p.1 == k)).map (·.2)
def erase {β} (l : List (Key × β)) (k : Key) : List (Key × β) := l.filter (fun p => !(p.1 == k))
def insert {β} (l : List (Key × β)) (k : Key) (v : β) : List (Key × β) := (k, v) :: erase l k

def init (clients : List Client) : St :=
  { clients := clients, pcs := clients.map fun _ => Pc.init, cache := [], active := [], flights := [],
    outs := [], calls := [], activated := 0, accepted := [], gone := [] }

/-- `forwardWithFallback`: primary attempt, and for `tcp+udp` a TCP attempt when UDP failed or
answered with TC=1 (`DoUDP.ForwardDNS` returns `ErrDNSTruncated`). -/
def forwardWithFallback (sch : Scheme) (a1 a2 : Att) : DRes :=
  match sch with
  | .tcp =>
    match a1 with
    | .fail => .err .upstream
    | .msg m => .ok m
  | .udp =>
    match a1 with
    | .fail => .err .upstream
    | .msg m => if m.tc then .err .truncated else .ok m
  | .tcpudp =>
    match a1 with
    | .msg m =>
      if m.tc then
        (match a2 with
         | .fail => .err .truncated
         | .msg m2 => .ok m2)
      else .ok m
    | .fail =>
      match a2 with
      | .fail => .err .upstream
      | .msg m2 => .ok m2

/-- `dnsResponseAnswersRequest` -/
def answersRequest (q : Question) (m : UpMsg) : Bool :=
  match m.q with
  | none => false
  | some mq => q.same mq

/-- the tail of `dialSend` once response routing has accepted (or emptied) the message: `respMsg.Id = id`,
synchronous cache insert.  `NormalizeAndCacheDnsResp_`: only healthy responses with a question are cached,
under the REQUEST's key, with the RESPONSE's question; only class-IN answers are kept (fix 4150de7). -/
def acceptResp (c : Client) (m : UpMsg) (cache : List (Key × Entry)) : DRes × List (Key × Entry) :=
  let m' := { m with id := c.id }
  let cache' :=
    match m.q with
    | some mq =>
      if m.resp && m.rcode == 0 && !m.ttl0 && mq.qclass == classIN then insert cache c.key (Entry.mk mq.canon m.ans) else cache
    | none => cache
  (.ok m', cache')

/-- `dialSend` for the singleflight leader (`needResp`, capturing writer) at `invokingDepth = depth` towards an
upstream of scheme `sch`: depth limit, upstream exchange (`forwardWithFallback`), question check,
`ResponseSelect` (QR test, then accept / reject = empty the answer section / re-ask another upstream = recursive
call with `depth + 1`), `respMsg.Id = id`, synchronous cache insert.  `rounds` scripts one `Round` per level; a
script that ends early is a failing exchange.  Returns the shared result and the new cache. -/
def dialSend (cfg : Cfg) (c : Client) : Nat → Scheme → List Round → List (Key × Entry) → DRes × List (Key × Entry)
  | depth, _, [], cache => (.err (if depth ≥ maxDepth then .tooDeep else .upstream), cache)
  | depth, sch, r :: rest, cache =>
    if depth ≥ maxDepth then (.err .tooDeep, cache) else
    match forwardWithFallback sch r.a1 r.a2 with
    | .err e => (.err e, cache)
    | .ok m =>
      if cfg.checkQuestion && !answersRequest c.q m then (.err .mismatch, cache)
      else if !m.resp then (.err .notResponse, cache)
      else
        match r.route with
        | .next sch' => dialSend cfg c (depth + 1) sch' rest cache
        | .accept => acceptResp c m cache
        -- "We also cache response reject": an empty answer section lives `minFirefoxCacheTtl`
        | .reject => acceptResp c { m with ans := 0, ttl0 := false } cache

/-- number of `ForwardDNS` calls of one `forwardWithFallback`: two when the `tcp+udp` fallback is taken -/
def legs (sch : Scheme) (a1 : Att) : Nat :=
  match sch, a1 with
  | .tcpudp, .fail => 2
  | .tcpudp, .msg m => if m.tc then 2 else 1
  | _, _ => 1

/-- number of `ForwardDNS` exchanges `dialSend` issues (what the harness counts on the fake upstreams) -/
def exchanges (cfg : Cfg) (c : Client) : Nat → Scheme → List Round → Nat
  | _, _, [] => 0
  | depth, sch, r :: rest =>
    if depth ≥ maxDepth then 0 else
    let n := legs sch r.a1
    match forwardWithFallback sch r.a1 r.a2 with
    | .err _ => n
    | .ok m =>
      if cfg.checkQuestion && !answersRequest c.q m then n
      else if !m.resp then n
      else match r.route with
        | .next sch' => n + exchanges cfg c (depth + 1) sch' rest
        | _ => n

def ownReply (c : Client) (rcode : Nat) (tc : Bool) : Reply :=
  { id := c.id, q := if c.nq = 0 then none else some c.q, rcode := rcode, tc := tc, ans := 0, src := .own }

/-- `dnsmessage.RcodeFormatError` -/
def rcodeFormErr : Nat := 1

/-- `writeCachedResponse`: packed bytes with the first two bytes overwritten -/
def cachedReply (c : Client) (e : Entry) : Reply :=
  { id := c.id, q := some e.q, rcode := 0, tc := false, ans := e.ans, src := .cache }

/-- `respMsg.Copy(); Id = dnsMessage.Id` / `Pack(); PutUint16(data[:2], dnsMessage.Id)` -/
def sharedReply (c : Client) (m : UpMsg) : Reply :=
  { id := c.id, q := m.q, rcode := m.rcode, tc := m.tc, ans := m.ans, src := .upstream }

def St.setPc (s : St) (i : Nat) (p : Pc) : St := { s with pcs := s.pcs.set i p }
def St.emit (s : St) (i : Nat) (o : Outcome) : St := { s with outs := s.outs ++ [(i, o)] }

inductive Act where
  /-- client `i` enters `HandleWithResponseWriter_`: limiter, routing, first cache lookup -/
  | arrive (i : Nat)
  /-- client `i` (cache miss) enters `sf.Do`: follower of the running flight for its key, or leader of a
  new one — and the leader's `handleWithResponseWriter_` looks into the cache once more before it
  goes to the upstream -/
  | join (i : Nat)
  /-- the concurrency limiter is full when client `i` enters -/
  | refuse (i : Nat)
  /-- the leader of flight `f` finishes its upstream exchange with the given transport outcomes -/
  | resolve (f : Nat) (sch : Scheme) (rounds : List Round)
  /-- client `i` returns from `sf.Do` and writes its response -/
  | wake (i : Nat)
  /-- janitor / LRU / reject-route family removal drops a cache entry -/
  | evict (k : Key)
  /-- `GetPackedResponseWithApproximateTTL` re-packs an entry whose TTL has drifted by more than the
  refresh threshold, with the qname of the request at hand: same name and type, another spelling -/
  | respell (k : Key) (sp : Nat)
  /-- optimistic cache: `backgroundRefresh` started for a stale entry served to client `i` finishes its
  upstream exchange (`dialSend` with `needResp = false`): only the cache can change -/
  | refresh (i : Nat) (sch : Scheme) (rounds : List Round)
  /-- client `i`'s own request context ends (it went away, timed out, closed its connection) at any moment -
  as a leader whose resolution is running, as a follower blocked in `sf.Do`, before or after.  The shared
  resolution runs under the CONTROLLER's context (`c.newWorkContext`), `sf.Do` does not look at any context:
  nothing but the ghost list changes. -/
  | gone (i : Nat)
  deriving DecidableEq, Repr

def step (cfg : Cfg) (s : St) : Act → St
  | .refuse i =>
    match s.clients[i]?, s.pcs[i]? with
    | some c, some .init =>
      -- the FORMERR guard stands in front of the limiter
      (s.emit i (.wrote (ownReply c (if c.nq = 1 then 5 else rcodeFormErr) false))).setPc i .done
    | _, _ => s
  | .arrive i =>
    match s.clients[i]?, s.pcs[i]? with
    | some c, some .init =>
      if c.nq ≠ 1 then (s.emit i (.wrote (ownReply c rcodeFormErr false))).setPc i .done else
      match c.route with
      | .reject =>
        -- RemoveDnsRespCacheFamily(baseKey) + sendRejectWithResponseWriter_
        let s := { s with cache := s.cache.filter fun p => !(p.1.ident == c.q.ident) }
        (s.emit i (.wrote (ownReply c 0 false))).setPc i .done
      | .forward =>
        match lookup s.cache c.key with
        | some e => (s.emit i (.wrote (cachedReply c e))).setPc i .done
        | none => s.setPc i .missed
    | _, _ => s
  | .join i =>
    match s.clients[i]?, s.pcs[i]? with
    | some c, some .missed =>
      match lookup s.active c.key with
      | some f => s.setPc i (.waiting f)
      | none =>
        let f := s.flights.length
        match lookup s.cache c.key with
        | some e =>
          -- the cache was filled between the first lookup and `sf.Do`: `writeCachedResponse` into the
          -- capturing writer, no upstream exchange; the flight is over before anybody can join it
          { s with flights := s.flights ++ [Flight.mk c.key i (some (.ok ⟨c.id, some e.q, true, 0, false, e.ans, false⟩))] }.setPc i (.waiting f)
        | none =>
          { s with flights := s.flights ++ [Flight.mk c.key i none], active := insert s.active c.key f,
                   calls := s.calls ++ [(f, c.q)], activated := s.activated + 1 }.setPc i (.leading f)
    | _, _ => s
  | .resolve f sch rounds =>
    match s.flights[f]? with
    | some fl =>
      match fl.result, s.clients[fl.leader]?, s.pcs[fl.leader]? with
      | none, some c, some (.leading f') =>
        if f' = f then
          let (r, cache') := dialSend cfg c 0 sch rounds s.cache
          { s with cache := cache', flights := s.flights.set f { fl with result := some r },
                   active := erase s.active fl.key,
                   accepted := match r with | .ok m => s.accepted ++ [(c.key, m)] | .err _ => s.accepted
                   }.setPc fl.leader (.waiting f)
        else s
      | _, _, _ => s
    | none => s
  | .wake i =>
    match s.clients[i]?, s.pcs[i]? with
    | some c, some (.waiting f) =>
      match s.flights[f]? with
      | some fl =>
        match fl.result with
        | none => s
        | some (.err e) => (s.emit i (.error e)).setPc i .done
        | some (.ok m) =>
          match lookup s.cache c.key with
          | some e => (s.emit i (.wrote (cachedReply c e))).setPc i .done
          | none => (s.emit i (.wrote (sharedReply c m))).setPc i .done
      | none => s
    | _, _ => s
  | .evict k => { s with cache := erase s.cache k }
  | .respell k sp =>
    { s with cache := s.cache.map fun p => if p.1 == k then (p.1, { p.2 with q := { p.2.q with spell := sp } }) else p }
  | .refresh i sch rounds =>
    match s.clients[i]? with
    | some c =>
      { s with cache := (dialSend cfg c 0 sch rounds s.cache).2,
               accepted := match (dialSend cfg c 0 sch rounds s.cache).1 with
                 | .ok m => s.accepted ++ [(c.key, m)] | .err _ => s.accepted }
    | none => s

  | .gone i => { s with gone := s.gone ++ [i] }

def run (cfg : Cfg) (s : St) (as : List Act) : St := as.foldl (step cfg) s

/-- the variant in which the function inside `sf.Do` derives its context from the LEADER's request context
(`context.WithTimeout(ctx, 5s)` instead of `c.newWorkContext(5s)`): once the leader's client is gone the exchange
is cancelled, i.e. the script of the upstream's answers is cut off -/
def stepLeaderBound (cfg : Cfg) (s : St) : Act → St
  | .resolve f sch rounds =>
    match s.flights[f]? with
    | some fl => if s.gone.contains fl.leader then step cfg s (.resolve f sch []) else step cfg s (.resolve f sch rounds)
    | none => s
  | a => step cfg s a

def Act.isGone : Act → Bool
  | .gone _ => true
  | _ => false

/-- forget who went away -/
def St.strip (s : St) : St := { s with gone := [] }

/-- the reply a caller of `Handle_` sends when it returns an error (`sendDnsErrorResponse_` with
SERVFAIL, or `sendDnsTruncatedResponse_`): built from the client's own message -/
def errorReply (c : Client) : ErrKind → Reply
  | .truncated => ownReply c 0 true
  | _ => ownReply c 2 false

end Ctl


end DaeVerif.C09
