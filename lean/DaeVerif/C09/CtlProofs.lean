import DaeVerif.C09.CtlModel
/-! Invariant of the controller glue (C09 `Ctl`). -/
namespace DaeVerif.C09

namespace Ctl

theorem mem_erase {β} {l : List (Key × β)} {k : Key} {p : Key × β} (h : p ∈ erase l k) : p ∈ l ∧ p.1 ≠ k := by
  simp only [erase, List.mem_filter, Bool.not_eq_eq_eq_not, Bool.not_true, beq_eq_false_iff_ne, ne_eq] at h
  exact h

theorem mem_insert {β} {l : List (Key × β)} {k : Key} {v : β} {p : Key × β} (h : p ∈ insert l k v) :
    p = (k, v) ∨ (p ∈ l ∧ p.1 ≠ k) := by
  simp only [insert, List.mem_cons] at h
  rcases h with h | h
  · exact .inl h
  · exact .inr (mem_erase h)

theorem lookup_some {β} {l : List (Key × β)} {k : Key} {v : β} (h : lookup l k = some v) : (k, v) ∈ l := by
  simp only [lookup, Option.map_eq_some_iff] at h
  obtain ⟨p, hp, rfl⟩ := h
  have h1 := List.find?_some hp
  have h2 := List.mem_of_find?_eq_some hp
  simp only [beq_iff_eq] at h1
  rw [← h1]; exact h2

theorem lookup_none {β} {l : List (Key × β)} {k : Key} (h : lookup l k = none) : ∀ v, (k, v) ∉ l := by
  intro v hv
  simp only [lookup, Option.map_eq_none_iff, List.find?_eq_none] at h
  have := h _ hv
  simp at this

/-- what a reply must satisfy for client `c` -/
def Reply.good (c : Client) (r : Reply) : Prop :=
  r.id = c.id ∧ (c.nq ≠ 0 → ∃ rq, r.q = some rq ∧ rq.same c.q = true)

theorem same_of_key {a b : Question} (h : a.ident = b.ident) : a.same b = true := by
  simp [Question.same, h]

structure Inv (s : St) : Prop where
  cacheSound : ∀ (k : Key) (e : Entry), (k, e) ∈ s.cache → e.q.ident = k.ident ∧ k.qclass = classIN
  leaderKey : ∀ (f : Nat) (fl : Flight), s.flights[f]? = some fl →
    ∃ c : Client, s.clients[fl.leader]? = some c ∧ c.key = fl.key
  flightSound : ∀ (f : Nat) (fl : Flight) (m : UpMsg), s.flights[f]? = some fl → fl.result = some (DRes.ok m) →
    ∃ mq : Question, m.q = some mq ∧ mq.ident = fl.key.ident
  attached : ∀ (i f : Nat), (s.pcs[i]? = some (Pc.waiting f) ∨ s.pcs[i]? = some (Pc.leading f)) →
    ∃ (c : Client) (fl : Flight), s.clients[i]? = some c ∧ s.flights[f]? = some fl ∧ fl.key = c.key
  outsGood : ∀ (i : Nat) (o : Outcome), (i, o) ∈ s.outs → ∃ c : Client, s.clients[i]? = some c ∧
    (∀ r : Reply, o = Outcome.wrote r → r.good c)
  activeFlight : ∀ (k : Key) (f : Nat), (k, f) ∈ s.active →
    ∃ fl : Flight, s.flights[f]? = some fl ∧ fl.key = k ∧ fl.result = none
  activeUnique : ∀ (k : Key) (f g : Nat), (k, f) ∈ s.active → (k, g) ∈ s.active → f = g
  runningActive : ∀ (f : Nat) (fl : Flight), s.flights[f]? = some fl → fl.result = none →
    (fl.key, f) ∈ s.active ∧ s.pcs[fl.leader]? = some (Pc.leading f)
  leadingRunning : ∀ (i f : Nat), s.pcs[i]? = some (Pc.leading f) →
    ∃ fl : Flight, s.flights[f]? = some fl ∧ fl.leader = i ∧ fl.result = none
  callsLen : s.calls.length = s.activated ∧ s.activated ≤ s.flights.length
  outsDone : ∀ (i : Nat) (o : Outcome), (i, o) ∈ s.outs → s.pcs[i]? = some Pc.done
  doneOuts : ∀ (i : Nat), s.pcs[i]? = some Pc.done → ∃ o : Outcome, (i, o) ∈ s.outs
  outsNodup : (s.outs.map (·.1)).Nodup

theorem inv_init (cs : List Client) : Inv (init cs) := by
  constructor <;> simp [init]

theorem ownReply_good (c : Client) (rc : Nat) (tc : Bool) : (ownReply c rc tc).good c := by
  refine ⟨rfl, fun h => ⟨c.q, ?_, ?_⟩⟩
  · simp [ownReply, h]
  · simp [Question.same]

theorem getElem?_set_some {α} {l : List α} {i j : Nat} {a x : α} (h : (l.set i a)[j]? = some x) :
    (i = j ∧ x = a) ∨ (i ≠ j ∧ l[j]? = some x) := by
  rw [List.getElem?_set] at h
  split at h
  · split at h
    · simp only [Option.some.injEq] at h; exact .inl ⟨‹_›, h.symm⟩
    · simp at h
  · exact .inr ⟨‹_›, h⟩

theorem getElem?_snoc_some {α} {l : List α} {j : Nat} {a x : α} (h : (l ++ [a])[j]? = some x) :
    l[j]? = some x ∨ (j = l.length ∧ x = a) := by
  rw [List.getElem?_append] at h
  split at h
  · exact .inl h
  · next hlt =>
    have : j - l.length = 0 := by
      cases hj : j - l.length with
      | zero => rfl
      | succ n => rw [hj] at h; simp at h
    rw [this] at h
    simp only [List.getElem?_cons_zero, Option.some.injEq] at h
    exact .inr ⟨by omega, h.symm⟩

/-- client `i` (not a leader) writes its outcome and is done -/
theorem inv_finish (s : St) (i : Nat) (c : Client) (o : Outcome) (p : Pc) (hc : s.clients[i]? = some c)
    (hp : s.pcs[i]? = some p) (hpk : p = .init ∨ ∃ f, p = .waiting f)
    (ho : ∀ r, o = .wrote r → r.good c) (hi : Inv s) : Inv ((s.emit i o).setPc i .done) := by
  obtain ⟨h1, h2, h3, h4, h5, h6, h7, h8, h9, h10, h11, h12, h13⟩ := hi
  have hlt : i < s.pcs.length := by
    rcases List.getElem?_eq_some_iff.mp hp with ⟨h, _⟩; exact h
  have hnotdone : p ≠ Pc.done := by rcases hpk with rfl | ⟨f, rfl⟩ <;> simp
  have hnotlead : ∀ f, p ≠ Pc.leading f := by intro f; rcases hpk with rfl | ⟨g, rfl⟩ <;> simp
  refine ⟨h1, h2, h3, ?_, ?_, h6, h7, ?_, ?_, h10, ?_, ?_, ?_⟩
  · intro j f hj
    simp only [St.setPc, St.emit] at hj ⊢
    have hne : i ≠ j := by
      intro e; subst e
      rw [List.getElem?_set_self hlt] at hj
      simp at hj
    rw [List.getElem?_set_ne hne] at hj
    exact h4 j f hj
  · intro j o' hj
    simp only [St.setPc, St.emit, List.mem_append, List.mem_singleton, Prod.mk.injEq] at hj ⊢
    rcases hj with hj | ⟨rfl, rfl⟩
    · exact h5 j o' hj
    · exact ⟨c, hc, ho⟩
  · intro f fl hf hr
    obtain ⟨ha, hl⟩ := h8 f fl hf hr
    refine ⟨ha, ?_⟩
    simp only [St.setPc, St.emit]
    have hne : i ≠ fl.leader := by
      intro e; subst e; rw [hp] at hl; simp only [Option.some.injEq] at hl; exact hnotlead f hl
    rw [List.getElem?_set_ne hne]; exact hl
  · intro j f hj
    simp only [St.setPc, St.emit] at hj ⊢
    have hne : i ≠ j := by
      intro e; subst e
      rw [List.getElem?_set_self hlt] at hj
      simp at hj
    rw [List.getElem?_set_ne hne] at hj
    exact h9 j f hj
  · intro j o' hj
    simp only [St.setPc, St.emit, List.mem_append, List.mem_singleton, Prod.mk.injEq] at hj ⊢
    rcases hj with hj | ⟨rfl, rfl⟩
    · by_cases hne : i = j
      · subst hne; exact List.getElem?_set_self hlt
      · rw [List.getElem?_set_ne hne]; exact h11 j o' hj
    · exact List.getElem?_set_self hlt
  · intro j hj
    simp only [St.setPc, St.emit, List.mem_append, List.mem_singleton, Prod.mk.injEq] at hj ⊢
    by_cases hne : i = j
    · subst hne; exact ⟨o, .inr ⟨rfl, rfl⟩⟩
    · rw [List.getElem?_set_ne hne] at hj
      obtain ⟨o', ho'⟩ := h12 j hj
      exact ⟨o', .inl ho'⟩
  · simp only [St.setPc, St.emit, List.map_append, List.map_cons, List.map_nil]
    rw [List.nodup_append]
    refine ⟨h13, by simp, ?_⟩
    intro a ha b hb
    simp only [List.mem_singleton] at hb
    subst hb
    intro e; subst e
    simp only [List.mem_map] at ha
    obtain ⟨⟨j, o'⟩, hm, rfl⟩ := ha
    have := h11 j o' hm
    rw [hp] at this
    simp only [Option.some.injEq] at this
    exact hnotdone this

theorem inv_cache_subset (s : St) (c' : List (Key × Entry)) (h : ∀ p, p ∈ c' → p ∈ s.cache) (hi : Inv s) :
    Inv { s with cache := c' } := by
  obtain ⟨h1, h2, h3, h4, h5, h6, h7, h8, h9, h10, h11, h12, h13⟩ := hi
  exact ⟨fun k e hm => h1 k e (h _ hm), h2, h3, h4, h5, h6, h7, h8, h9, h10, h11, h12, h13⟩

theorem cachedReply_good (s : St) (hi : Inv s) (c : Client) (e : Entry) (h : lookup s.cache c.key = some e) :
    (cachedReply c e).good c := by
  have := hi.cacheSound _ _ (lookup_some h)
  refine ⟨rfl, fun _ => ⟨e.q, rfl, ?_⟩⟩
  exact same_of_key this.1

theorem inv_step_refuse (cfg : Cfg) (s : St) (i : Nat) (hi : Inv s) : Inv (step cfg s (.refuse i)) := by
  simp only [step]
  split
  · next c hc hp =>
    exact inv_finish s i c _ .init hc hp (.inl rfl) (by intro r h; cases h; exact ownReply_good ..) hi
  · exact hi

theorem inv_step_evict (cfg : Cfg) (s : St) (k : Key) (hi : Inv s) : Inv (step cfg s (.evict k)) := by
  simp only [step]
  exact inv_cache_subset s _ (fun p hp => (mem_erase hp).1) hi

theorem inv_step_wake (cfg : Cfg) (s : St) (i : Nat) (hi : Inv s) : Inv (step cfg s (.wake i)) := by
  simp only [step]
  split
  · next c f hc hp =>
    split
    · next fl hf =>
      split
      · exact hi
      · next e hr =>
        exact inv_finish s i c _ (.waiting f) hc hp (.inr ⟨f, rfl⟩) (by intro r h; cases h) hi
      · next m hr =>
        split
        · next e he =>
          exact inv_finish s i c _ (.waiting f) hc hp (.inr ⟨f, rfl⟩)
            (by intro r h; cases h; exact cachedReply_good s hi c e he) hi
        · refine inv_finish s i c _ (.waiting f) hc hp (.inr ⟨f, rfl⟩) ?_ hi
          intro r h; cases h
          obtain ⟨c', fl', hc', hf', hk⟩ := hi.attached i f (.inl hp)
          rw [hc] at hc'; cases hc'
          rw [hf] at hf'; cases hf'
          obtain ⟨mq, hmq, hn⟩ := hi.flightSound f fl m hf hr
          refine ⟨rfl, fun _ => ⟨mq, hmq, ?_⟩⟩
          rw [hk] at hn
          exact same_of_key hn
    · exact hi
  · exact hi

/-- a client that has not entered `sf.Do` yet moves between `init` and `missed` -/
theorem inv_setPc_missed (s : St) (i : Nat) (hp : s.pcs[i]? = some Pc.init) (hi : Inv s) :
    Inv (s.setPc i .missed) := by
  obtain ⟨h1, h2, h3, h4, h5, h6, h7, h8, h9, h10, h11, h12, h13⟩ := hi
  have hlt : i < s.pcs.length := by
    rcases List.getElem?_eq_some_iff.mp hp with ⟨h, _⟩; exact h
  refine ⟨h1, h2, h3, ?_, h5, h6, h7, ?_, ?_, h10, ?_, ?_, h13⟩
  · intro j g hj
    simp only [St.setPc] at hj ⊢
    by_cases hne : i = j
    · subst hne
      rw [List.getElem?_set_self hlt] at hj
      rcases hj with hj | hj <;> cases hj
    · rw [List.getElem?_set_ne hne] at hj; exact h4 j g hj
  · intro g gl hg hgr
    obtain ⟨ha, hl⟩ := h8 g gl hg hgr
    refine ⟨ha, ?_⟩
    simp only [St.setPc]
    have hne : i ≠ gl.leader := by
      intro e; subst e; rw [hp] at hl; cases hl
    rw [List.getElem?_set_ne hne]; exact hl
  · intro j g hj
    simp only [St.setPc] at hj ⊢
    by_cases hne : i = j
    · subst hne; rw [List.getElem?_set_self hlt] at hj; cases hj
    · rw [List.getElem?_set_ne hne] at hj; exact h9 j g hj
  · intro j o hj
    simp only [St.setPc] at hj ⊢
    have hne : i ≠ j := by
      intro e; subst e; have := h11 _ o hj; rw [hp] at this; cases this
    rw [List.getElem?_set_ne hne]; exact h11 j o hj
  · intro j hj
    simp only [St.setPc] at hj ⊢
    by_cases hne : i = j
    · subst hne; rw [List.getElem?_set_self hlt] at hj; cases hj
    · rw [List.getElem?_set_ne hne] at hj; exact h12 j hj

theorem inv_step_arrive (cfg : Cfg) (s : St) (i : Nat) (hi : Inv s) : Inv (step cfg s (.arrive i)) := by
  simp only [step]
  split
  · next c hc hp =>
    split
    · -- not exactly one question: FORMERR
      exact inv_finish s i c _ .init hc hp (.inl rfl) (by intro r h; cases h; exact ownReply_good ..) hi
    split
    · -- reject route
      refine inv_finish _ i c _ .init hc hp (.inl rfl) (by intro r h; cases h; exact ownReply_good ..) ?_
      exact inv_cache_subset s _ (fun p hp => (List.mem_filter.mp hp).1) hi
    · split
      · next e he =>
        exact inv_finish s i c _ .init hc hp (.inl rfl)
          (by intro r h; cases h; exact cachedReply_good s hi c e he) hi
      · exact inv_setPc_missed s i hp hi
  · exact hi

theorem inv_step_join (cfg : Cfg) (s : St) (i : Nat) (hi : Inv s) : Inv (step cfg s (.join i)) := by
  simp only [step]
  split
  · next c hc hp =>
    split
    · next f hf =>
      -- follower: joins the running flight
      obtain ⟨h1, h2, h3, h4, h5, h6, h7, h8, h9, h10, h11, h12, h13⟩ := hi
      have hlt : i < s.pcs.length := by
        rcases List.getElem?_eq_some_iff.mp hp with ⟨h, _⟩; exact h
      obtain ⟨fl, hfl, hk, hr⟩ := h6 _ _ (lookup_some hf)
      refine ⟨h1, h2, h3, ?_, h5, h6, h7, ?_, ?_, h10, ?_, ?_, h13⟩
      · intro j g hj
        simp only [St.setPc] at hj ⊢
        by_cases hne : i = j
        · subst hne
          rw [List.getElem?_set_self hlt] at hj
          rcases hj with hj | hj
          · cases hj; exact ⟨c, fl, hc, hfl, hk⟩
          · cases hj
        · rw [List.getElem?_set_ne hne] at hj; exact h4 j g hj
      · intro g gl hg hgr
        obtain ⟨ha, hl⟩ := h8 g gl hg hgr
        refine ⟨ha, ?_⟩
        simp only [St.setPc]
        have hne : i ≠ gl.leader := by
          intro e; subst e; rw [hp] at hl; cases hl
        rw [List.getElem?_set_ne hne]; exact hl
      · intro j g hj
        simp only [St.setPc] at hj ⊢
        by_cases hne : i = j
        · subst hne; rw [List.getElem?_set_self hlt] at hj; cases hj
        · rw [List.getElem?_set_ne hne] at hj; exact h9 j g hj
      · intro j o hj
        simp only [St.setPc] at hj ⊢
        have hne : i ≠ j := by
          intro e; subst e; have := h11 _ o hj; rw [hp] at this; cases this
        rw [List.getElem?_set_ne hne]; exact h11 j o hj
      · intro j hj
        simp only [St.setPc] at hj ⊢
        by_cases hne : i = j
        · subst hne; rw [List.getElem?_set_self hlt] at hj; cases hj
        · rw [List.getElem?_set_ne hne] at hj; exact h12 j hj
    · next hnone =>
      split
      · next e he =>
        -- leader whose re-check hits the cache: the flight is born finished
        have hcs := hi.cacheSound _ _ (lookup_some he)
        obtain ⟨h1, h2, h3, h4, h5, h6, h7, h8, h9, h10, h11, h12, h13⟩ := hi
        have hlt : i < s.pcs.length := by
          rcases List.getElem?_eq_some_iff.mp hp with ⟨h, _⟩; exact h
        refine ⟨h1, ?_, ?_, ?_, h5, ?_, h7, ?_, ?_, ?_, ?_, ?_, h13⟩
        · intro g gl hg
          simp only [St.setPc] at hg ⊢
          rcases getElem?_snoc_some hg with hg | ⟨_, rfl⟩
          · exact h2 g gl hg
          · exact ⟨c, hc, rfl⟩
        · intro g gl m hg hgr
          simp only [St.setPc] at hg ⊢
          rcases getElem?_snoc_some hg with hg | ⟨_, rfl⟩
          · exact h3 g gl m hg hgr
          · simp only [Option.some.injEq, DRes.ok.injEq] at hgr
            subst hgr
            exact ⟨e.q, rfl, hcs.1⟩
        · intro j g hj
          simp only [St.setPc] at hj ⊢
          by_cases hne : i = j
          · subst hne
            rw [List.getElem?_set_self hlt] at hj
            rcases hj with hj | hj
            · cases hj
              exact ⟨c, _, hc, List.getElem?_concat_length, rfl⟩
            · cases hj
          · rw [List.getElem?_set_ne hne] at hj
            obtain ⟨c', fl', hc', hf', hk'⟩ := h4 j g hj
            refine ⟨c', fl', hc', ?_, hk'⟩
            have hglt : g < s.flights.length := by
              rcases List.getElem?_eq_some_iff.mp hf' with ⟨h, _⟩; exact h
            rw [List.getElem?_append_left hglt]; exact hf'
        · intro k g hkg
          simp only [St.setPc] at hkg ⊢
          obtain ⟨fl, hfl, hk, hr⟩ := h6 k g hkg
          have hglt : g < s.flights.length := by
            rcases List.getElem?_eq_some_iff.mp hfl with ⟨h, _⟩; exact h
          exact ⟨fl, by rw [List.getElem?_append_left hglt]; exact hfl, hk, hr⟩
        · intro g gl hg hgr
          simp only [St.setPc] at hg ⊢
          rcases getElem?_snoc_some hg with hg | ⟨rfl, rfl⟩
          · obtain ⟨ha, hl⟩ := h8 g gl hg hgr
            refine ⟨ha, ?_⟩
            have hne : i ≠ gl.leader := by
              intro e; subst e; rw [hp] at hl; cases hl
            rw [List.getElem?_set_ne hne]; exact hl
          · cases hgr
        · intro j g hj
          simp only [St.setPc] at hj ⊢
          by_cases hne : i = j
          · subst hne; rw [List.getElem?_set_self hlt] at hj; cases hj
          · rw [List.getElem?_set_ne hne] at hj
            obtain ⟨fl, hfl, hl, hr⟩ := h9 j g hj
            have hglt : g < s.flights.length := by
              rcases List.getElem?_eq_some_iff.mp hfl with ⟨h, _⟩; exact h
            exact ⟨fl, by rw [List.getElem?_append_left hglt]; exact hfl, hl, hr⟩
        · simp only [St.setPc, List.length_append, List.length_cons, List.length_nil]
          exact ⟨h10.1, by have := h10.2; omega⟩
        · intro j o hj
          simp only [St.setPc] at hj ⊢
          have hne : i ≠ j := by
            intro e; subst e; have := h11 _ o hj; rw [hp] at this; cases this
          rw [List.getElem?_set_ne hne]; exact h11 j o hj
        · intro j hj
          simp only [St.setPc] at hj ⊢
          by_cases hne : i = j
          · subst hne; rw [List.getElem?_set_self hlt] at hj; cases hj
          · rw [List.getElem?_set_ne hne] at hj; exact h12 j hj
      · next hcmiss =>
        obtain ⟨h1, h2, h3, h4, h5, h6, h7, h8, h9, h10, h11, h12, h13⟩ := hi
        have hlt : i < s.pcs.length := by
          rcases List.getElem?_eq_some_iff.mp hp with ⟨h, _⟩; exact h
        have hnoact := lookup_none hnone
        refine ⟨h1, ?_, ?_, ?_, h5, ?_, ?_, ?_, ?_, ?_, ?_, ?_, h13⟩
        · intro g gl hg
          simp only [St.setPc] at hg ⊢
          rcases getElem?_snoc_some hg with hg | ⟨_, rfl⟩
          · exact h2 g gl hg
          · exact ⟨c, hc, rfl⟩
        · intro g gl m hg hgr
          simp only [St.setPc] at hg ⊢
          rcases getElem?_snoc_some hg with hg | ⟨_, rfl⟩
          · exact h3 g gl m hg hgr
          · cases hgr
        · intro j g hj
          simp only [St.setPc] at hj ⊢
          by_cases hne : i = j
          · subst hne
            rw [List.getElem?_set_self hlt] at hj
            rcases hj with hj | hj
            · cases hj
            · cases hj
              exact ⟨c, _, hc, List.getElem?_concat_length, rfl⟩
          · rw [List.getElem?_set_ne hne] at hj
            obtain ⟨c', fl', hc', hf', hk'⟩ := h4 j g hj
            refine ⟨c', fl', hc', ?_, hk'⟩
            have hglt : g < s.flights.length := by
              rcases List.getElem?_eq_some_iff.mp hf' with ⟨h, _⟩; exact h
            rw [List.getElem?_append_left hglt]; exact hf'
        · intro k g hkg
          simp only [St.setPc] at hkg ⊢
          rcases mem_insert hkg with hkg | ⟨hkg, _⟩
          · cases hkg
            exact ⟨_, List.getElem?_concat_length, rfl, rfl⟩
          · obtain ⟨fl, hfl, hk, hr⟩ := h6 k g hkg
            have hglt : g < s.flights.length := by
              rcases List.getElem?_eq_some_iff.mp hfl with ⟨h, _⟩; exact h
            exact ⟨fl, by rw [List.getElem?_append_left hglt]; exact hfl, hk, hr⟩
        · intro k g g' hg hg'
          simp only [St.setPc] at hg hg'
          rcases mem_insert hg with hg | ⟨hg, hgk⟩ <;> rcases mem_insert hg' with hg' | ⟨hg', hgk'⟩
          · cases hg; cases hg'; rfl
          · cases hg; exact absurd rfl hgk'
          · cases hg'; exact absurd rfl hgk
          · exact h7 k g g' hg hg'
        · intro g gl hg hgr
          simp only [St.setPc] at hg ⊢
          rcases getElem?_snoc_some hg with hg | ⟨rfl, rfl⟩
          · obtain ⟨ha, hl⟩ := h8 g gl hg hgr
            refine ⟨?_, ?_⟩
            · simp only [insert, List.mem_cons]
              right
              simp only [erase, List.mem_filter, Bool.not_eq_eq_eq_not, Bool.not_true, beq_eq_false_iff_ne, ne_eq]
              refine ⟨ha, ?_⟩
              intro e
              exact hnoact g (e ▸ ha)
            · have hne : i ≠ gl.leader := by
                intro e; subst e; rw [hp] at hl; cases hl
              rw [List.getElem?_set_ne hne]; exact hl
          · refine ⟨?_, ?_⟩
            · simp [insert]
            · exact List.getElem?_set_self hlt
        · intro j g hj
          simp only [St.setPc] at hj ⊢
          by_cases hne : i = j
          · subst hne
            rw [List.getElem?_set_self hlt] at hj
            cases hj
            exact ⟨_, List.getElem?_concat_length, rfl, rfl⟩
          · rw [List.getElem?_set_ne hne] at hj
            obtain ⟨fl, hfl, hl, hr⟩ := h9 j g hj
            have hglt : g < s.flights.length := by
              rcases List.getElem?_eq_some_iff.mp hfl with ⟨h, _⟩; exact h
            exact ⟨fl, by rw [List.getElem?_append_left hglt]; exact hfl, hl, hr⟩
        · simp only [St.setPc, List.length_append, List.length_cons, List.length_nil]
          omega
        · intro j o hj
          simp only [St.setPc] at hj ⊢
          have hne : i ≠ j := by
            intro e; subst e; have := h11 _ o hj; rw [hp] at this; cases this
          rw [List.getElem?_set_ne hne]; exact h11 j o hj
        · intro j hj
          simp only [St.setPc] at hj ⊢
          by_cases hne : i = j
          · subst hne; rw [List.getElem?_set_self hlt] at hj; cases hj
          · rw [List.getElem?_set_ne hne] at hj; exact h12 j hj
  · exact hi

theorem same_iff {a b : Question} : a.same b = true ↔ a.ident = b.ident := by
  simp [Question.same]

theorem acceptResp_spec (c : Client) (m : UpMsg) (cache : List (Key × Entry)) (mq : Question)
    (hmq : m.q = some mq) (hs : mq.ident = c.q.ident) :
    (∀ m', (acceptResp c m cache).1 = .ok m' →
      m'.id = c.id ∧ ∃ mq : Question, m'.q = some mq ∧ mq.ident = c.q.ident) ∧
    (∀ p, p ∈ (acceptResp c m cache).2 →
      p ∈ cache ∨ (p.1 = c.key ∧ p.2.q.ident = c.q.ident ∧ c.q.qclass = classIN)) := by
  unfold acceptResp
  refine ⟨?_, ?_⟩
  · intro m' h
    cases h
    exact ⟨rfl, mq, hmq, hs⟩
  · intro p hp
    simp only [hmq] at hp
    split at hp
    · next hcond =>
      rcases mem_insert hp with rfl | ⟨hp, _⟩
      · have hcl : mq.qclass = classIN := by
          simp only [Bool.and_eq_true, beq_iff_eq] at hcond
          exact hcond.2
        have hcl' : c.q.qclass = classIN := by
          have := congrArg (fun t => t.2.2) hs
          simp only [Question.ident] at this
          rw [← this]; exact hcl
        exact .inr ⟨rfl, hs, hcl'⟩
      · exact .inl hp
    · exact .inl hp

theorem dialSend_spec (cfg : Cfg) (hcfg : cfg.checkQuestion = true) (c : Client) (rounds : List Round) :
    ∀ (depth : Nat) (sch : Scheme) (cache : List (Key × Entry)),
    (∀ m, (dialSend cfg c depth sch rounds cache).1 = .ok m →
      m.id = c.id ∧ ∃ mq : Question, m.q = some mq ∧ mq.ident = c.q.ident) ∧
    (∀ p, p ∈ (dialSend cfg c depth sch rounds cache).2 →
      p ∈ cache ∨ (p.1 = c.key ∧ p.2.q.ident = c.q.ident ∧ c.q.qclass = classIN)) := by
  induction rounds with
  | nil =>
    intro depth sch cache
    unfold dialSend
    exact ⟨(by intro m h; cases h), fun p hp => .inl hp⟩
  | cons r rest ih =>
    intro depth sch cache
    unfold dialSend
    split
    · exact ⟨(by intro m h; cases h), fun p hp => .inl hp⟩
    split
    · exact ⟨(by intro m h; cases h), fun p hp => .inl hp⟩
    · next m hm =>
      rw [hcfg]
      simp only [Bool.true_and]
      cases hq : answersRequest c.q m
      · simp only [Bool.not_false, if_true]
        exact ⟨(by intro m h; cases h), fun p hp => .inl hp⟩
      · simp only [Bool.not_true, Bool.false_eq_true, if_false]
        split
        · exact ⟨(by intro m h; cases h), fun p hp => .inl hp⟩
        unfold answersRequest at hq
        cases hmq : m.q with
        | none => rw [hmq] at hq; cases hq
        | some mq =>
          rw [hmq] at hq
          simp only at hq
          have hs := (same_iff.mp hq).symm
          split
          · exact ih (depth + 1) _ cache
          · exact acceptResp_spec c m cache mq hmq hs
          · exact acceptResp_spec c _ cache mq rfl hs

theorem inv_step_resolve (cfg : Cfg) (hcfg : cfg.checkQuestion = true) (s : St) (f : Nat) (sch : Scheme)
    (rounds : List Round) (hi : Inv s) : Inv (step cfg s (.resolve f sch rounds)) := by
  simp only [step]
  split
  · next fl hf =>
    split
    · next f' hres hc hp =>
      split
      · next hff =>
        subst hff
        obtain ⟨hd1, hd2⟩ := dialSend_spec cfg hcfg ‹Client› rounds 0 sch s.cache
        generalize dialSend cfg ‹Client› 0 sch rounds s.cache = d at hd1 hd2 ⊢
        obtain ⟨r, cache'⟩ := d
        simp only at hd1 hd2 ⊢
        rename_i c
        obtain ⟨h1, h2, h3, h4, h5, h6, h7, h8, h9, h10, h11, h12, h13⟩ := hi
        have hlt : fl.leader < s.pcs.length := by
          rcases List.getElem?_eq_some_iff.mp hp with ⟨h, _⟩; exact h
        have hflt : f' < s.flights.length := by
          rcases List.getElem?_eq_some_iff.mp hf with ⟨h, _⟩; exact h
        obtain ⟨c0, hc0, hck⟩ := h2 f' fl hf
        rw [hc] at hc0; cases hc0
        refine ⟨?_, ?_, ?_, ?_, h5, ?_, ?_, ?_, ?_, ?_, ?_, ?_, h13⟩
        · intro k e hm
          rcases hd2 _ hm with hm | ⟨hk, hn, ht⟩
          · exact h1 k e hm
          · simp only at hk hn ht
            subst hk
            exact ⟨hn, ht⟩
        · intro g gl hg
          simp only [St.setPc] at hg ⊢
          rcases getElem?_set_some hg with ⟨rfl, rfl⟩ | ⟨_, hg⟩
          · exact ⟨c, hc, hck⟩
          · exact h2 g gl hg
        · intro g gl m hg hgr
          simp only [St.setPc] at hg
          rcases getElem?_set_some hg with ⟨rfl, rfl⟩ | ⟨_, hg⟩
          · simp only [Option.some.injEq] at hgr
            subst hgr
            obtain ⟨_, mq, hmq, hn⟩ := hd1 m rfl
            refine ⟨mq, hmq, ?_⟩
            simp only; rw [← hck]; exact hn
          · exact h3 g gl m hg hgr
        · intro j g hj
          simp only [St.setPc] at hj ⊢
          have key : ∀ (c' : Client) (gl : Flight), s.clients[j]? = some c' → s.flights[g]? = some gl → gl.key = c'.key →
              ∃ (c'' : Client) (gl' : Flight), s.clients[j]? = some c'' ∧
                (s.flights.set f' { fl with result := some r })[g]? = some gl' ∧ gl'.key = c''.key := by
            intro c' gl hc' hgl hk
            by_cases hfg : f' = g
            · subst hfg
              rw [hf] at hgl; cases hgl
              exact ⟨c', _, hc', List.getElem?_set_self hflt, hk⟩
            · exact ⟨c', gl, hc', by rw [List.getElem?_set_ne hfg]; exact hgl, hk⟩
          by_cases hne : fl.leader = j
          · subst hne
            rw [List.getElem?_set_self hlt] at hj
            rcases hj with hj | hj
            · cases hj
              exact key c fl hc hf hck.symm
            · cases hj
          · rw [List.getElem?_set_ne hne] at hj
            obtain ⟨c', gl, hc', hgl, hk⟩ := h4 j g hj
            exact key c' gl hc' hgl hk
        · intro k g hkg
          simp only [St.setPc] at hkg ⊢
          obtain ⟨hkg, hkne⟩ := mem_erase hkg
          obtain ⟨gl, hgl, hk, hr⟩ := h6 k g hkg
          have hfg : f' ≠ g := by
            intro e; subst e; rw [hf] at hgl; cases hgl; exact hkne hk.symm
          exact ⟨gl, by rw [List.getElem?_set_ne hfg]; exact hgl, hk, hr⟩
        · intro k g g' hg hg'
          exact h7 k g g' (mem_erase hg).1 (mem_erase hg').1
        · intro g gl hg hgr
          simp only [St.setPc] at hg ⊢
          rcases getElem?_set_some hg with ⟨rfl, rfl⟩ | ⟨hne, hg⟩
          · cases hgr
          · obtain ⟨ha, hl⟩ := h8 g gl hg hgr
            have hkne : gl.key ≠ fl.key := by
              intro e
              have h1' := (h8 f' fl hf hres).1
              rw [← e] at h1'
              exact hne (h7 _ _ _ h1' ha)
            refine ⟨?_, ?_⟩
            · simp only [erase, List.mem_filter, Bool.not_eq_eq_eq_not, Bool.not_true, beq_eq_false_iff_ne, ne_eq]
              exact ⟨ha, hkne⟩
            · have hne2 : fl.leader ≠ gl.leader := by
                intro e
                rw [← e, hp] at hl
                simp only [Option.some.injEq, Pc.leading.injEq] at hl
                exact hne hl
              rw [List.getElem?_set_ne hne2]; exact hl
        · intro j g hj
          simp only [St.setPc] at hj ⊢
          by_cases hne : fl.leader = j
          · subst hne; rw [List.getElem?_set_self hlt] at hj; cases hj
          · rw [List.getElem?_set_ne hne] at hj
            obtain ⟨gl, hgl, hl, hr⟩ := h9 j g hj
            have hfg : f' ≠ g := by
              intro e; subst e; rw [hf] at hgl; cases hgl; exact hne hl
            exact ⟨gl, by rw [List.getElem?_set_ne hfg]; exact hgl, hl, hr⟩
        · simp only [St.setPc, List.length_set]; exact h10
        · intro j o hj
          simp only [St.setPc] at hj ⊢
          have hne : fl.leader ≠ j := by
            intro e; subst e; have := h11 _ o hj; rw [hp] at this; cases this
          rw [List.getElem?_set_ne hne]; exact h11 j o hj
        · intro j hj
          simp only [St.setPc] at hj ⊢
          by_cases hne : fl.leader = j
          · subst hne; rw [List.getElem?_set_self hlt] at hj; cases hj
          · rw [List.getElem?_set_ne hne] at hj; exact h12 j hj
      · exact hi
    · exact hi
  · exact hi

theorem inv_step_refresh (cfg : Cfg) (hcfg : cfg.checkQuestion = true) (s : St) (i : Nat) (sch : Scheme)
    (rounds : List Round) (hi : Inv s) : Inv (step cfg s (.refresh i sch rounds)) := by
  simp only [step]
  split
  · next c hc =>
    obtain ⟨_, hd2⟩ := dialSend_spec cfg hcfg c rounds 0 sch s.cache
    obtain ⟨h1, h2, h3, h4, h5, h6, h7, h8, h9, h10, h11, h12, h13⟩ := hi
    refine ⟨?_, h2, h3, h4, h5, h6, h7, h8, h9, h10, h11, h12, h13⟩
    intro k e hm
    rcases hd2 _ hm with hm | ⟨hk, hn, ht⟩
    · exact h1 k e hm
    · simp only at hk hn ht
      subst hk
      exact ⟨hn, ht⟩
  · exact hi

theorem inv_step_respell (cfg : Cfg) (s : St) (k : Key) (sp : Nat) (hi : Inv s) :
    Inv (step cfg s (.respell k sp)) := by
  simp only [step]
  obtain ⟨h1, h2, h3, h4, h5, h6, h7, h8, h9, h10, h11, h12, h13⟩ := hi
  refine ⟨?_, h2, h3, h4, h5, h6, h7, h8, h9, h10, h11, h12, h13⟩
  intro k' e hm
  simp only [List.mem_map] at hm
  obtain ⟨⟨k0, e0⟩, hm0, heq⟩ := hm
  have := h1 k0 e0 hm0
  split at heq
  · simp only [Prod.mk.injEq] at heq
    obtain ⟨rfl, rfl⟩ := heq
    exact this
  · simp only [Prod.mk.injEq] at heq
    obtain ⟨rfl, rfl⟩ := heq
    exact this

theorem inv_step (cfg : Cfg) (hcfg : cfg.checkQuestion = true) (s : St) (a : Act) (hi : Inv s) :
    Inv (step cfg s a) := by
  cases a with
  | arrive i => exact inv_step_arrive cfg s i hi
  | join i => exact inv_step_join cfg s i hi
  | refuse i => exact inv_step_refuse cfg s i hi
  | resolve f sch rounds => exact inv_step_resolve cfg hcfg s f sch rounds hi
  | wake i => exact inv_step_wake cfg s i hi
  | evict k => exact inv_step_evict cfg s k hi
  | respell k sp => exact inv_step_respell cfg s k sp hi
  | refresh i sch rounds => exact inv_step_refresh cfg hcfg s i sch rounds hi
  | gone i =>
    obtain ⟨h1, h2, h3, h4, h5, h6, h7, h8, h9, h10, h11, h12, h13⟩ := hi
    exact ⟨h1, h2, h3, h4, h5, h6, h7, h8, h9, h10, h11, h12, h13⟩

theorem inv_run (cfg : Cfg) (hcfg : cfg.checkQuestion = true) (as : List Act) :
    ∀ s, Inv s → Inv (run cfg s as) := by
  induction as with
  | nil => intro s h; exact h
  | cons a as ih => intro s h; exact ih _ (inv_step cfg hcfg s a h)

end Ctl


end DaeVerif.C09
