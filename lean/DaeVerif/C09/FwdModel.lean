import DaeVerif.C09.Base
/-! C09 `Fwd` model: see `Model.lean` for the overview. -/
namespace DaeVerif.C09

namespace Fwd

/-! ## `Fwd` — the cached forwarder entry

One `Pc` per goroutine that holds a reference to the entry.  Every constructor between two calls is
one atomic operation of the Go code (an `atomic` load/store/add, or `closeOnce.Do`). -/

inductive Pc where
  | idle
  /-- `beginUse`: about to `retired.Load()` (first check). -/
  | b1
  /-- `beginUse`: about to `inFlight.Add(1)`. -/
  | b2
  /-- `beginUse`: about to `retired.Load()` (second check). -/
  | b3
  /-- `beginUse`: saw `retired`, about to `inFlight.Add(-1)`. -/
  | b4
  /-- `beginUse`: decremented to 0, about to `closeNow()`. -/
  | b5
  /-- `beginUse` returned `true`; `ForwardDNS` runs; `endUse` not yet called. -/
  | busy
  /-- `endUse`: about to `inFlight.Add(-1)`. -/
  | e1
  /-- `endUse`: decremented to 0, about to `retired.Load()`. -/
  | e2
  /-- `endUse` (repaired code only): saw `retired`, about to re-read `inFlight.Load()`. -/
  | e2r
  /-- `endUse`: about to `closeNow()`. -/
  | e3
  /-- `retire`: about to `retired.Store(true)`. -/
  | r1
  /-- `retire`: about to `inFlight.Load()`. -/
  | r2
  /-- `retire`: about to `closeNow()`. -/
  | r3
  /-- `evictIdleDnsForwarders`: about to `inFlight.Load()` (skip when > 0). -/
  | v1
  /-- evictor: idle test passed, about to `CompareAndDelete` the entry from the cache. -/
  | v2
  /-- evictor (unrepaired code only): about to call `entry.forwarder.Close()` directly. -/
  | v3
  /-- `retireCachedDnsForwarder` / `retireAllDnsForwarders`: about to `CompareAndDelete`. -/
  | c1
  deriving DecidableEq, Repr, Inhabited

/-- How `endUse` is modelled. -/
inductive EndUse where
  /-- the code as written: `inFlight.Add(-1) == 0`, then (separately) `retired.Load()`, then close -/
  | split
  /-- a repaired `endUse` that re-reads `inFlight` after it has seen `retired` -/
  | recheck
  /-- abstraction: the decrement and the `retired` load are one indivisible step -/
  | atomic
  deriving DecidableEq, Repr

/-- Which variant of the code is modelled (the tie decides which one `/repo` is). -/
structure Cfg where
  endUse : EndUse
  /-- the idle evictor closes through `retire()` (fix f004946) instead of calling
  `forwarder.Close()` itself (the code before that fix). -/
  evictRetires : Bool
  deriving DecidableEq, Repr

structure St where
  /-- `cachedDnsForwarder.inFlight` -/
  inFlight : Int
  /-- `cachedDnsForwarder.retired` -/
  retired : Bool
  /-- `closeOnce` has fired -/
  once : Bool
  /-- number of times `forwarder.Close()` actually ran -/
  closes : Nat
  /-- the entry is still stored in `dnsForwarderCache` -/
  inCache : Bool
  /-- `ForwardDNS` calls issued on a forwarder whose `Close()` had already run -/
  badUses : Nat
  pcs : List Pc
  deriving DecidableEq, Repr

def init (n : Nat) : St :=
  { inFlight := 0, retired := false, once := false, closes := 0, inCache := true, badUses := 0,
    pcs := List.replicate n .idle }

def St.setPc (s : St) (t : Nat) (p : Pc) : St := { s with pcs := s.pcs.set t p }

/-- `closeNow`: `closeOnce.Do(forwarder.Close)`. -/
def St.closeNow (s : St) : St :=
  if s.once then s else { s with once := true, closes := s.closes + 1 }

inductive Act where
  /-- an idle goroutine calls `beginUse()` -/
  | callBegin (t : Nat)
  /-- a goroutine whose `beginUse` returned true has finished `ForwardDNS` and calls `endUse()` -/
  | callEnd (t : Nat)
  /-- an idle goroutine calls `retire()` directly (`retireAll…`, tests) -/
  | callRetire (t : Nat)
  /-- an idle goroutine calls `retireCachedDnsForwarder` (CompareAndDelete, then `retire()`) -/
  | callRetireCached (t : Nat)
  /-- the janitor goroutine examines this entry in `evictIdleDnsForwarders` -/
  | callEvict (t : Nat)
  /-- a goroutine in `busy` issues `entry.forwarder.ForwardDNS` -/
  | forward (t : Nat)
  /-- goroutine `t` performs its next atomic operation -/
  | step (t : Nat)
  deriving DecidableEq, Repr

/-- The next atomic operation of goroutine `t`. -/
def stepPc (cfg : Cfg) (s : St) (t : Nat) : St :=
  match s.pcs[t]? with
  | none => s
  | some p =>
    match p with
    | .idle => s
    | .busy => s
    | .b1 => if s.retired then s.setPc t .idle else s.setPc t .b2
    | .b2 => { s with inFlight := s.inFlight + 1 }.setPc t .b3
    | .b3 => if s.retired then s.setPc t .b4 else s.setPc t .busy
    | .b4 =>
      if s.inFlight - 1 = 0 then { s with inFlight := s.inFlight - 1 }.setPc t .b5
      else { s with inFlight := s.inFlight - 1 }.setPc t .idle
    | .b5 => s.closeNow.setPc t .idle
    | .e1 =>
      if s.inFlight - 1 = 0 then
        if cfg.endUse = .atomic then
          (if s.retired then { s with inFlight := s.inFlight - 1 }.setPc t .e3
           else { s with inFlight := s.inFlight - 1 }.setPc t .idle)
        else { s with inFlight := s.inFlight - 1 }.setPc t .e2
      else { s with inFlight := s.inFlight - 1 }.setPc t .idle
    | .e2 =>
      if s.retired then (if cfg.endUse = .recheck then s.setPc t .e2r else s.setPc t .e3)
      else s.setPc t .idle
    | .e2r => if s.inFlight = 0 then s.setPc t .e3 else s.setPc t .idle
    | .e3 => s.closeNow.setPc t .idle
    | .r1 => { s with retired := true }.setPc t .r2
    | .r2 => if s.inFlight = 0 then s.setPc t .r3 else s.setPc t .idle
    | .r3 => s.closeNow.setPc t .idle
    | .v1 => if s.inFlight > 0 then s.setPc t .idle else s.setPc t .v2
    | .v2 =>
      if s.inCache then
        (if cfg.evictRetires then { s with inCache := false }.setPc t .r1
         else { s with inCache := false }.setPc t .v3)
      else s.setPc t .idle
    | .v3 => { s with closes := s.closes + 1 }.setPc t .idle
    | .c1 => if s.inCache then { s with inCache := false }.setPc t .r1 else s.setPc t .idle

def step (cfg : Cfg) (s : St) : Act → St
  | .callBegin t => if s.pcs[t]? = some .idle then s.setPc t .b1 else s
  | .callEnd t => if s.pcs[t]? = some .busy then s.setPc t .e1 else s
  | .callRetire t => if s.pcs[t]? = some .idle then s.setPc t .r1 else s
  | .callRetireCached t => if s.pcs[t]? = some .idle then s.setPc t .c1 else s
  | .callEvict t => if s.pcs[t]? = some .idle then s.setPc t .v1 else s
  | .forward t =>
    if s.pcs[t]? = some .busy then
      (if s.closes > 0 then { s with badUses := s.badUses + 1 } else s)
    else s
  | .step t => stepPc cfg s t

def run (cfg : Cfg) (s : St) (as : List Act) : St := as.foldl (step cfg) s

/-- A goroutine runs a whole call to completion without interleaving (what a harness that calls the
Go methods one after the other observes).  Bounded by the longest call (6 operations). -/
def finishCall (cfg : Cfg) (s : St) (t : Nat) : St :=
  (List.range 8).foldl (fun s _ => stepPc cfg s t) s

/-- Program points at which the Go code has a `verifYield` (or returns): goroutine `t` is run up to
the next one.  `c1`, `r1`, `v1`, `v2`, `e1`, `b1` are followed by no yield, so they are passed. -/
def atYield : Pc → Bool
  | .idle | .busy | .b2 | .b3 | .b4 | .b5 | .e2 | .e2r | .e3 | .r2 | .r3 | .v3 => true
  | _ => false

/-- Run goroutine `t` until it stands at a yield point or has returned (at least one operation). -/
def stepToYield (cfg : Cfg) (s : St) (t : Nat) : St :=
  let rec go : Nat → St → St
    | 0, s => s
    | fuel + 1, s =>
      let s' := stepPc cfg s t
      match s'.pcs[t]? with
      | some p => if atYield p then s' else go fuel s'
      | none => s'
  go 6 s

/-- The code as it is in `/repo` today. -/
def codeCfg : Cfg := { endUse := .recheck, evictRetires := true }

end Fwd


end DaeVerif.C09
