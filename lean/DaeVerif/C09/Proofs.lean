import DaeVerif.C09.Model
import DaeVerif.C09.FwdProofs
import DaeVerif.C09.CtlProofs
import DaeVerif.C09.CtlProv
import DaeVerif.C09.UdpProofs
import DaeVerif.C09.PipeProofs
import DaeVerif.C09.LoopProofs
/-! Helper lemmas and invariants for C09 (the property theorems are in `Props.lean`); one file per model. -/
