import DaeVerif.C09.Model
/-! Helper lemmas and invariants for C09 (the property theorems are in `Props.lean`). -/
namespace DaeVerif.C09

namespace Fwd

def holds : Pc → Bool
  | .b3 | .b4 | .busy | .e1 => true
  | _ => false
def isUsing : Pc → Bool
  | .busy => true
  | _ => false
def knows : Pc → Bool
  | .b4 | .b5 | .e2r | .e3 | .r2 | .r3 => true
  | _ => false
def closing : Pc → Bool
  | .b5 | .e3 | .r3 => true
  | _ => false
def closer : Pc → Bool
  | .r2 | .r3 | .b5 | .e3 | .e2 | .e2r => true
  | _ => false
def rawCloser : Pc → Bool
  | .v3 => true
  | _ => false

def isE2 : Pc → Bool
  | .e2 => true
  | _ => false

def Cfg.Good (cfg : Cfg) : Prop := cfg.evictRetires = true ∧ cfg.endUse ≠ .split

structure Inv (cfg : Cfg) (s : St) : Prop where
  cnt : s.inFlight = (s.pcs.countP holds : Nat)
  closes1 : s.once = true → s.closes = 1
  closes0 : s.once = false → s.closes = 0
  knowsRet : 0 < s.pcs.countP knows → s.retired = true
  onceRet : s.once = true → s.retired = true
  noUse : (s.once = true ∨ 0 < s.pcs.countP closing) → s.pcs.countP isUsing = 0
  live : s.retired = true → s.once = false → 0 < s.pcs.countP closer ∨ 0 < s.inFlight
  noRaw : s.pcs.countP rawCloser = 0
  noE2 : cfg.endUse = .atomic → s.pcs.countP isE2 = 0
  bad : s.badUses = 0

theorem countP_replicate_idle (f : Pc → Bool) (h : f .idle = false) (n : Nat) :
    (List.replicate n Pc.idle).countP f = 0 := by
  induction n with
  | zero => simp
  | succ n ih => simp [List.replicate_succ, h, ih]

theorem inv_init (cfg : Cfg) (n : Nat) : Inv cfg (init n) := by
  constructor <;>
    simp [init, countP_replicate_idle holds rfl, countP_replicate_idle knows rfl,
      countP_replicate_idle closing rfl, countP_replicate_idle isUsing rfl,
      countP_replicate_idle closer rfl, countP_replicate_idle rawCloser rfl,
      countP_replicate_idle isE2 rfl]

/-- moving goroutine `t` from `p` to `q`, all class counts at once -/
theorem move_counts (pcs : List Pc) (t : Nat) (p q : Pc) (h : pcs[t]? = some p) :
    ((pcs.set t q).countP holds + (if holds p then 1 else 0) = pcs.countP holds + (if holds q then 1 else 0)) ∧
    ((pcs.set t q).countP isUsing + (if isUsing p then 1 else 0) = pcs.countP isUsing + (if isUsing q then 1 else 0)) ∧
    ((pcs.set t q).countP knows + (if knows p then 1 else 0) = pcs.countP knows + (if knows q then 1 else 0)) ∧
    ((pcs.set t q).countP closing + (if closing p then 1 else 0) = pcs.countP closing + (if closing q then 1 else 0)) ∧
    ((pcs.set t q).countP closer + (if closer p then 1 else 0) = pcs.countP closer + (if closer q then 1 else 0)) ∧
    ((pcs.set t q).countP rawCloser + (if rawCloser p then 1 else 0) = pcs.countP rawCloser + (if rawCloser q then 1 else 0)) ∧
    ((pcs.set t q).countP isE2 + (if isE2 p then 1 else 0) = pcs.countP isE2 + (if isE2 q then 1 else 0)) :=
  ⟨countP_set_add _ _ _ _ _ h, countP_set_add _ _ _ _ _ h, countP_set_add _ _ _ _ _ h,
   countP_set_add _ _ _ _ _ h, countP_set_add _ _ _ _ _ h, countP_set_add _ _ _ _ _ h,
   countP_set_add _ _ _ _ _ h⟩

macro "mv" h:ident p:term "," q:term : tactic =>
  `(tactic| (
    have hm := move_counts _ _ $p $q $h
    simp only [holds, isUsing, knows, closing, closer, rawCloser, isE2, if_true, if_false,
      Bool.false_eq_true, Nat.add_zero] at hm
    obtain ⟨h1, h2, h3, h4, h5, h6, h7⟩ := hm))

theorem sub_counts (l : List Pc) :
    l.countP isUsing ≤ l.countP holds ∧ l.countP closing ≤ l.countP knows ∧
    l.countP closing ≤ l.countP closer := by
  refine ⟨List.countP_mono_left ?_, List.countP_mono_left ?_, List.countP_mono_left ?_⟩ <;>
    intro x _ <;> cases x <;> simp [isUsing, holds, closing, knows, closer]

macro "gen" s:ident t:ident q:term : tactic =>
  `(tactic| (
    have m1 := sub_counts (St.pcs $s)
    have m2 := sub_counts (List.set (St.pcs $s) $t $q)
    generalize List.countP holds (List.set (St.pcs $s) $t $q) = H' at *
    generalize List.countP isUsing (List.set (St.pcs $s) $t $q) = U' at *
    generalize List.countP knows (List.set (St.pcs $s) $t $q) = K' at *
    generalize List.countP closing (List.set (St.pcs $s) $t $q) = C' at *
    generalize List.countP closer (List.set (St.pcs $s) $t $q) = L' at *
    generalize List.countP rawCloser (List.set (St.pcs $s) $t $q) = R' at *
    generalize List.countP isE2 (List.set (St.pcs $s) $t $q) = E' at *
    generalize List.countP holds (St.pcs $s) = H at *
    generalize List.countP isUsing (St.pcs $s) = U at *
    generalize List.countP knows (St.pcs $s) = K at *
    generalize List.countP closing (St.pcs $s) = C at *
    generalize List.countP closer (St.pcs $s) = L at *
    generalize List.countP rawCloser (St.pcs $s) = R at *
    generalize List.countP isE2 (St.pcs $s) = E at *))

macro "fin" cfg:ident s:ident : tactic =>
  `(tactic| (intros; cases he : Cfg.endUse $cfg <;> cases hr : St.retired $s <;> cases ho : St.once $s <;>
      simp only [he, hr, ho, Bool.false_eq_true, Bool.true_eq_false, reduceCtorEq, true_implies, false_implies,
        forall_const, true_or, false_or, or_true, or_false, not_true_eq_false, ne_eq,
        not_false_eq_true, implies_true, imp_self, imp_false, true_and, and_true, false_and, and_false] at * <;> omega))

macro "fwd" cfg:ident s:ident t:ident h:ident p:term "," q:term : tactic =>
  `(tactic| (mv $h $p, $q; constructor <;> dsimp only [St.setPc] <;> gen $s $t $q <;> fin $cfg $s))

theorem inv_step_b1 (cfg : Cfg) (hg : cfg.Good) (s : St) (t : Nat) (h : s.pcs[t]? = some Pc.b1)
    (hi : Inv cfg s) : Inv cfg (stepPc cfg s t) := by
  obtain ⟨c1, c2a, c2b, c3, c4, c5, c6, c7, c9, c8⟩ := hi
  obtain ⟨hg1, hg2⟩ := hg
  simp only [stepPc, h]
  split
  · fwd cfg s t h Pc.b1, Pc.idle
  · fwd cfg s t h Pc.b1, Pc.b2

theorem inv_step_b2 (cfg : Cfg) (hg : cfg.Good) (s : St) (t : Nat) (h : s.pcs[t]? = some Pc.b2)
    (hi : Inv cfg s) : Inv cfg (stepPc cfg s t) := by
  obtain ⟨c1, c2a, c2b, c3, c4, c5, c6, c7, c9, c8⟩ := hi
  obtain ⟨hg1, hg2⟩ := hg
  simp only [stepPc, h]
  fwd cfg s t h Pc.b2, Pc.b3

theorem inv_step_b3 (cfg : Cfg) (hg : cfg.Good) (s : St) (t : Nat) (h : s.pcs[t]? = some Pc.b3)
    (hi : Inv cfg s) : Inv cfg (stepPc cfg s t) := by
  obtain ⟨c1, c2a, c2b, c3, c4, c5, c6, c7, c9, c8⟩ := hi
  obtain ⟨hg1, hg2⟩ := hg
  simp only [stepPc, h]
  split
  · fwd cfg s t h Pc.b3, Pc.b4
  · fwd cfg s t h Pc.b3, Pc.busy

theorem inv_step_b4 (cfg : Cfg) (hg : cfg.Good) (s : St) (t : Nat) (h : s.pcs[t]? = some Pc.b4)
    (hi : Inv cfg s) : Inv cfg (stepPc cfg s t) := by
  obtain ⟨c1, c2a, c2b, c3, c4, c5, c6, c7, c9, c8⟩ := hi
  obtain ⟨hg1, hg2⟩ := hg
  simp only [stepPc, h]
  split
  · fwd cfg s t h Pc.b4, Pc.b5
  · fwd cfg s t h Pc.b4, Pc.idle

theorem inv_step_b5 (cfg : Cfg) (hg : cfg.Good) (s : St) (t : Nat) (h : s.pcs[t]? = some Pc.b5)
    (hi : Inv cfg s) : Inv cfg (stepPc cfg s t) := by
  obtain ⟨c1, c2a, c2b, c3, c4, c5, c6, c7, c9, c8⟩ := hi
  obtain ⟨hg1, hg2⟩ := hg
  simp only [stepPc, h]
  simp only [St.closeNow]
  split
  · fwd cfg s t h Pc.b5, Pc.idle
  · fwd cfg s t h Pc.b5, Pc.idle

theorem inv_step_e1 (cfg : Cfg) (hg : cfg.Good) (s : St) (t : Nat) (h : s.pcs[t]? = some Pc.e1)
    (hi : Inv cfg s) : Inv cfg (stepPc cfg s t) := by
  obtain ⟨c1, c2a, c2b, c3, c4, c5, c6, c7, c9, c8⟩ := hi
  obtain ⟨hg1, hg2⟩ := hg
  simp only [stepPc, h]
  split
  · split
    · split
      · fwd cfg s t h Pc.e1, Pc.e3
      · fwd cfg s t h Pc.e1, Pc.idle
    · fwd cfg s t h Pc.e1, Pc.e2
  · fwd cfg s t h Pc.e1, Pc.idle

theorem inv_step_e2 (cfg : Cfg) (hg : cfg.Good) (s : St) (t : Nat) (h : s.pcs[t]? = some Pc.e2)
    (hi : Inv cfg s) : Inv cfg (stepPc cfg s t) := by
  obtain ⟨c1, c2a, c2b, c3, c4, c5, c6, c7, c9, c8⟩ := hi
  obtain ⟨hg1, hg2⟩ := hg
  simp only [stepPc, h]
  split
  · split
    · fwd cfg s t h Pc.e2, Pc.e2r
    · fwd cfg s t h Pc.e2, Pc.e3
  · fwd cfg s t h Pc.e2, Pc.idle

theorem inv_step_e2r (cfg : Cfg) (hg : cfg.Good) (s : St) (t : Nat) (h : s.pcs[t]? = some Pc.e2r)
    (hi : Inv cfg s) : Inv cfg (stepPc cfg s t) := by
  obtain ⟨c1, c2a, c2b, c3, c4, c5, c6, c7, c9, c8⟩ := hi
  obtain ⟨hg1, hg2⟩ := hg
  simp only [stepPc, h]
  split
  · fwd cfg s t h Pc.e2r, Pc.e3
  · fwd cfg s t h Pc.e2r, Pc.idle

theorem inv_step_e3 (cfg : Cfg) (hg : cfg.Good) (s : St) (t : Nat) (h : s.pcs[t]? = some Pc.e3)
    (hi : Inv cfg s) : Inv cfg (stepPc cfg s t) := by
  obtain ⟨c1, c2a, c2b, c3, c4, c5, c6, c7, c9, c8⟩ := hi
  obtain ⟨hg1, hg2⟩ := hg
  simp only [stepPc, h]
  simp only [St.closeNow]
  split
  · fwd cfg s t h Pc.e3, Pc.idle
  · fwd cfg s t h Pc.e3, Pc.idle

theorem inv_step_r1 (cfg : Cfg) (hg : cfg.Good) (s : St) (t : Nat) (h : s.pcs[t]? = some Pc.r1)
    (hi : Inv cfg s) : Inv cfg (stepPc cfg s t) := by
  obtain ⟨c1, c2a, c2b, c3, c4, c5, c6, c7, c9, c8⟩ := hi
  obtain ⟨hg1, hg2⟩ := hg
  simp only [stepPc, h]
  fwd cfg s t h Pc.r1, Pc.r2

theorem inv_step_r2 (cfg : Cfg) (hg : cfg.Good) (s : St) (t : Nat) (h : s.pcs[t]? = some Pc.r2)
    (hi : Inv cfg s) : Inv cfg (stepPc cfg s t) := by
  obtain ⟨c1, c2a, c2b, c3, c4, c5, c6, c7, c9, c8⟩ := hi
  obtain ⟨hg1, hg2⟩ := hg
  simp only [stepPc, h]
  split
  · fwd cfg s t h Pc.r2, Pc.r3
  · fwd cfg s t h Pc.r2, Pc.idle

theorem inv_step_r3 (cfg : Cfg) (hg : cfg.Good) (s : St) (t : Nat) (h : s.pcs[t]? = some Pc.r3)
    (hi : Inv cfg s) : Inv cfg (stepPc cfg s t) := by
  obtain ⟨c1, c2a, c2b, c3, c4, c5, c6, c7, c9, c8⟩ := hi
  obtain ⟨hg1, hg2⟩ := hg
  simp only [stepPc, h]
  simp only [St.closeNow]
  split
  · fwd cfg s t h Pc.r3, Pc.idle
  · fwd cfg s t h Pc.r3, Pc.idle

theorem inv_step_v1 (cfg : Cfg) (hg : cfg.Good) (s : St) (t : Nat) (h : s.pcs[t]? = some Pc.v1)
    (hi : Inv cfg s) : Inv cfg (stepPc cfg s t) := by
  obtain ⟨c1, c2a, c2b, c3, c4, c5, c6, c7, c9, c8⟩ := hi
  obtain ⟨hg1, hg2⟩ := hg
  simp only [stepPc, h]
  split
  · fwd cfg s t h Pc.v1, Pc.idle
  · fwd cfg s t h Pc.v1, Pc.v2

theorem inv_step_v2 (cfg : Cfg) (hg : cfg.Good) (s : St) (t : Nat) (h : s.pcs[t]? = some Pc.v2)
    (hi : Inv cfg s) : Inv cfg (stepPc cfg s t) := by
  obtain ⟨c1, c2a, c2b, c3, c4, c5, c6, c7, c9, c8⟩ := hi
  obtain ⟨hg1, hg2⟩ := hg
  simp only [stepPc, h]
  simp only [hg1, if_true]
  split
  · fwd cfg s t h Pc.v2, Pc.r1
  · fwd cfg s t h Pc.v2, Pc.idle

theorem inv_step_v3 (cfg : Cfg) (hg : cfg.Good) (s : St) (t : Nat) (h : s.pcs[t]? = some Pc.v3)
    (hi : Inv cfg s) : Inv cfg (stepPc cfg s t) := by
  obtain ⟨c1, c2a, c2b, c3, c4, c5, c6, c7, c9, c8⟩ := hi
  obtain ⟨hg1, hg2⟩ := hg
  simp only [stepPc, h]
  fwd cfg s t h Pc.v3, Pc.idle

theorem inv_step_c1 (cfg : Cfg) (hg : cfg.Good) (s : St) (t : Nat) (h : s.pcs[t]? = some Pc.c1)
    (hi : Inv cfg s) : Inv cfg (stepPc cfg s t) := by
  obtain ⟨c1, c2a, c2b, c3, c4, c5, c6, c7, c9, c8⟩ := hi
  obtain ⟨hg1, hg2⟩ := hg
  simp only [stepPc, h]
  split
  · fwd cfg s t h Pc.c1, Pc.r1
  · fwd cfg s t h Pc.c1, Pc.idle

theorem inv_stepPc (cfg : Cfg) (hg : cfg.Good) (s : St) (t : Nat) (hi : Inv cfg s) :
    Inv cfg (stepPc cfg s t) := by
  cases h : s.pcs[t]? with
  | none => simpa [stepPc, h] using hi
  | some p =>
    cases p
    case idle => simpa [stepPc, h] using hi
    case busy => simpa [stepPc, h] using hi
    case b1 => exact inv_step_b1 cfg hg s t h hi
    case b2 => exact inv_step_b2 cfg hg s t h hi
    case b3 => exact inv_step_b3 cfg hg s t h hi
    case b4 => exact inv_step_b4 cfg hg s t h hi
    case b5 => exact inv_step_b5 cfg hg s t h hi
    case e1 => exact inv_step_e1 cfg hg s t h hi
    case e2 => exact inv_step_e2 cfg hg s t h hi
    case e2r => exact inv_step_e2r cfg hg s t h hi
    case e3 => exact inv_step_e3 cfg hg s t h hi
    case r1 => exact inv_step_r1 cfg hg s t h hi
    case r2 => exact inv_step_r2 cfg hg s t h hi
    case r3 => exact inv_step_r3 cfg hg s t h hi
    case v1 => exact inv_step_v1 cfg hg s t h hi
    case v2 => exact inv_step_v2 cfg hg s t h hi
    case v3 => exact inv_step_v3 cfg hg s t h hi
    case c1 => exact inv_step_c1 cfg hg s t h hi


theorem inv_setPc_call (cfg : Cfg) (s : St) (t : Nat) (p q : Pc) (h : s.pcs[t]? = some p)
    (hp : p = .idle ∨ p = .busy)
    (hq : (p = .idle ∧ (q = .b1 ∨ q = .r1 ∨ q = .c1 ∨ q = .v1)) ∨ (p = .busy ∧ q = .e1))
    (hi : Inv cfg s) : Inv cfg (s.setPc t q) := by
  obtain ⟨c1, c2a, c2b, c3, c4, c5, c6, c7, c9, c8⟩ := hi
  rcases hq with ⟨rfl, rfl | rfl | rfl | rfl⟩ | ⟨rfl, rfl⟩
  · fwd cfg s t h Pc.idle, Pc.b1
  · fwd cfg s t h Pc.idle, Pc.r1
  · fwd cfg s t h Pc.idle, Pc.c1
  · fwd cfg s t h Pc.idle, Pc.v1
  · fwd cfg s t h Pc.busy, Pc.e1

theorem inv_step (cfg : Cfg) (hg : cfg.Good) (s : St) (a : Act) (hi : Inv cfg s) :
    Inv cfg (step cfg s a) := by
  cases a with
  | callBegin t =>
    simp only [step]; split
    · next h => exact inv_setPc_call cfg s t _ _ h (.inl rfl) (.inl ⟨rfl, .inl rfl⟩) hi
    · exact hi
  | callEnd t =>
    simp only [step]; split
    · next h => exact inv_setPc_call cfg s t _ _ h (.inr rfl) (.inr ⟨rfl, rfl⟩) hi
    · exact hi
  | callRetire t =>
    simp only [step]; split
    · next h => exact inv_setPc_call cfg s t _ _ h (.inl rfl) (.inl ⟨rfl, .inr (.inl rfl)⟩) hi
    · exact hi
  | callRetireCached t =>
    simp only [step]; split
    · next h => exact inv_setPc_call cfg s t _ _ h (.inl rfl) (.inl ⟨rfl, .inr (.inr (.inl rfl))⟩) hi
    · exact hi
  | callEvict t =>
    simp only [step]; split
    · next h => exact inv_setPc_call cfg s t _ _ h (.inl rfl) (.inl ⟨rfl, .inr (.inr (.inr rfl))⟩) hi
    · exact hi
  | forward t =>
    simp only [step]; split
    · next h =>
      split
      · next hc =>
        -- a goroutine is in `busy`, so the forwarder cannot have been closed
        exfalso
        obtain ⟨c1, c2a, c2b, c3, c4, c5, c6, c7, c9, c8⟩ := hi
        have hpos : 0 < s.pcs.countP isUsing := by
          apply List.countP_pos_iff.mpr
          exact ⟨Pc.busy, List.mem_of_getElem? h, rfl⟩
        cases ho : s.once
        · have := c2b ho; omega
        · have := c5 (.inl ho); omega
      · exact hi
    · exact hi
  | step t => exact inv_stepPc cfg hg s t hi

theorem inv_run (cfg : Cfg) (hg : cfg.Good) (as : List Act) : ∀ s, Inv cfg s → Inv cfg (run cfg s as) := by
  induction as with
  | nil => intro s h; exact h
  | cons a as ih => intro s h; exact ih _ (inv_step cfg hg s a h)

theorem countP_zero_of_all_idle (f : Pc → Bool) (hf : f .idle = false) (l : List Pc)
    (h : ∀ p ∈ l, p = Pc.idle) : l.countP f = 0 := by
  apply List.countP_eq_zero.mpr
  intro p hp; rw [h p hp, hf]; simp

end Fwd

namespace Ctl

theorem mem_erase {β} {l : List (Key × β)} {k : Key} {p : Key × β} (h : p ∈ erase l k) : p ∈ l ∧ p.1 ≠ k := by
  simp only [erase, List.mem_filter, Bool.not_eq_eq_eq_not, Bool.not_true, beq_eq_false_iff_ne, ne_eq] at h
  exact h

theorem mem_insert {β} {l : List (Key × β)} {k : Key} {v : β} {p : Key × β} (h : p ∈ insert l k v) :
    p = (k, v) ∨ (p ∈ l ∧ p.1 ≠ k) := by
  simp only [insert, List.mem_cons] at h
  rcases h with h | h
  · exact .inl h
  · exact .inr (mem_erase h)

theorem lookup_some {β} {l : List (Key × β)} {k : Key} {v : β} (h : lookup l k = some v) : (k, v) ∈ l := by
  simp only [lookup, Option.map_eq_some_iff] at h
  obtain ⟨p, hp, rfl⟩ := h
  have h1 := List.find?_some hp
  have h2 := List.mem_of_find?_eq_some hp
  simp only [beq_iff_eq] at h1
  rw [← h1]; exact h2

theorem lookup_none {β} {l : List (Key × β)} {k : Key} (h : lookup l k = none) : ∀ v, (k, v) ∉ l := by
  intro v hv
  simp only [lookup, Option.map_eq_none_iff, List.find?_eq_none] at h
  have := h _ hv
  simp at this

/-- what a reply must satisfy for client `c` -/
def Reply.good (c : Client) (r : Reply) : Prop := r.id = c.id ∧ ∃ rq, r.q = some rq ∧ rq.same c.q = true

theorem same_of_key {a b : Question} (hn : a.name = b.name) (ht : a.qtype = b.qtype) : a.same b = true := by
  simp [Question.same, hn, ht]

structure Inv (s : St) : Prop where
  cacheSound : ∀ (k : Key) (e : Entry), (k, e) ∈ s.cache → e.q.name = k.name ∧ e.q.qtype = k.qtype
  leaderKey : ∀ (f : Nat) (fl : Flight), s.flights[f]? = some fl →
    ∃ c : Client, s.clients[fl.leader]? = some c ∧ c.key = fl.key
  flightSound : ∀ (f : Nat) (fl : Flight) (m : UpMsg), s.flights[f]? = some fl → fl.result = some (DRes.ok m) →
    ∃ mq : Question, m.q = some mq ∧ mq.name = fl.key.name ∧ mq.qtype = fl.key.qtype
  attached : ∀ (i f : Nat), (s.pcs[i]? = some (Pc.waiting f) ∨ s.pcs[i]? = some (Pc.leading f)) →
    ∃ (c : Client) (fl : Flight), s.clients[i]? = some c ∧ s.flights[f]? = some fl ∧ fl.key = c.key
  outsGood : ∀ (i : Nat) (o : Outcome), (i, o) ∈ s.outs → ∃ c : Client, s.clients[i]? = some c ∧
    (∀ r : Reply, o = Outcome.wrote r → r.good c)
  activeFlight : ∀ (k : Key) (f : Nat), (k, f) ∈ s.active →
    ∃ fl : Flight, s.flights[f]? = some fl ∧ fl.key = k ∧ fl.result = none
  activeUnique : ∀ (k : Key) (f g : Nat), (k, f) ∈ s.active → (k, g) ∈ s.active → f = g
  runningActive : ∀ (f : Nat) (fl : Flight), s.flights[f]? = some fl → fl.result = none →
    (fl.key, f) ∈ s.active ∧ s.pcs[fl.leader]? = some (Pc.leading f)
  leadingRunning : ∀ (i f : Nat), s.pcs[i]? = some (Pc.leading f) →
    ∃ fl : Flight, s.flights[f]? = some fl ∧ fl.leader = i ∧ fl.result = none
  callsLen : s.calls.length = s.flights.length
  outsDone : ∀ (i : Nat) (o : Outcome), (i, o) ∈ s.outs → s.pcs[i]? = some Pc.done
  doneOuts : ∀ (i : Nat), s.pcs[i]? = some Pc.done → ∃ o : Outcome, (i, o) ∈ s.outs
  outsNodup : (s.outs.map (·.1)).Nodup

theorem inv_init (cs : List Client) : Inv (init cs) := by
  constructor <;> simp [init]

theorem ownReply_good (c : Client) (rc : Nat) (tc : Bool) : (ownReply c rc tc).good c := by
  refine ⟨rfl, c.q, rfl, ?_⟩; simp [Question.same]

theorem getElem?_set_some {α} {l : List α} {i j : Nat} {a x : α} (h : (l.set i a)[j]? = some x) :
    (i = j ∧ x = a) ∨ (i ≠ j ∧ l[j]? = some x) := by
  rw [List.getElem?_set] at h
  split at h
  · split at h
    · simp only [Option.some.injEq] at h; exact .inl ⟨‹_›, h.symm⟩
    · simp at h
  · exact .inr ⟨‹_›, h⟩

theorem getElem?_snoc_some {α} {l : List α} {j : Nat} {a x : α} (h : (l ++ [a])[j]? = some x) :
    l[j]? = some x ∨ (j = l.length ∧ x = a) := by
  rw [List.getElem?_append] at h
  split at h
  · exact .inl h
  · next hlt =>
    have : j - l.length = 0 := by
      cases hj : j - l.length with
      | zero => rfl
      | succ n => rw [hj] at h; simp at h
    rw [this] at h
    simp only [List.getElem?_cons_zero, Option.some.injEq] at h
    exact .inr ⟨by omega, h.symm⟩

/-- client `i` (not a leader) writes its outcome and is done -/
theorem inv_finish (s : St) (i : Nat) (c : Client) (o : Outcome) (p : Pc) (hc : s.clients[i]? = some c)
    (hp : s.pcs[i]? = some p) (hpk : p = .init ∨ ∃ f, p = .waiting f)
    (ho : ∀ r, o = .wrote r → r.good c) (hi : Inv s) : Inv ((s.emit i o).setPc i .done) := by
  obtain ⟨h1, h2, h3, h4, h5, h6, h7, h8, h9, h10, h11, h12, h13⟩ := hi
  have hlt : i < s.pcs.length := by
    rcases List.getElem?_eq_some_iff.mp hp with ⟨h, _⟩; exact h
  have hnotdone : p ≠ Pc.done := by rcases hpk with rfl | ⟨f, rfl⟩ <;> simp
  have hnotlead : ∀ f, p ≠ Pc.leading f := by intro f; rcases hpk with rfl | ⟨g, rfl⟩ <;> simp
  refine ⟨h1, h2, h3, ?_, ?_, h6, h7, ?_, ?_, h10, ?_, ?_, ?_⟩
  · intro j f hj
    simp only [St.setPc, St.emit] at hj ⊢
    have hne : i ≠ j := by
      intro e; subst e
      rw [List.getElem?_set_self hlt] at hj
      simp at hj
    rw [List.getElem?_set_ne hne] at hj
    exact h4 j f hj
  · intro j o' hj
    simp only [St.setPc, St.emit, List.mem_append, List.mem_singleton, Prod.mk.injEq] at hj ⊢
    rcases hj with hj | ⟨rfl, rfl⟩
    · exact h5 j o' hj
    · exact ⟨c, hc, ho⟩
  · intro f fl hf hr
    obtain ⟨ha, hl⟩ := h8 f fl hf hr
    refine ⟨ha, ?_⟩
    simp only [St.setPc, St.emit]
    have hne : i ≠ fl.leader := by
      intro e; subst e; rw [hp] at hl; simp only [Option.some.injEq] at hl; exact hnotlead f hl
    rw [List.getElem?_set_ne hne]; exact hl
  · intro j f hj
    simp only [St.setPc, St.emit] at hj ⊢
    have hne : i ≠ j := by
      intro e; subst e
      rw [List.getElem?_set_self hlt] at hj
      simp at hj
    rw [List.getElem?_set_ne hne] at hj
    exact h9 j f hj
  · intro j o' hj
    simp only [St.setPc, St.emit, List.mem_append, List.mem_singleton, Prod.mk.injEq] at hj ⊢
    rcases hj with hj | ⟨rfl, rfl⟩
    · by_cases hne : i = j
      · subst hne; exact List.getElem?_set_self hlt
      · rw [List.getElem?_set_ne hne]; exact h11 j o' hj
    · exact List.getElem?_set_self hlt
  · intro j hj
    simp only [St.setPc, St.emit, List.mem_append, List.mem_singleton, Prod.mk.injEq] at hj ⊢
    by_cases hne : i = j
    · subst hne; exact ⟨o, .inr ⟨rfl, rfl⟩⟩
    · rw [List.getElem?_set_ne hne] at hj
      obtain ⟨o', ho'⟩ := h12 j hj
      exact ⟨o', .inl ho'⟩
  · simp only [St.setPc, St.emit, List.map_append, List.map_cons, List.map_nil]
    rw [List.nodup_append]
    refine ⟨h13, by simp, ?_⟩
    intro a ha b hb
    simp only [List.mem_singleton] at hb
    subst hb
    intro e; subst e
    simp only [List.mem_map] at ha
    obtain ⟨⟨j, o'⟩, hm, rfl⟩ := ha
    have := h11 j o' hm
    rw [hp] at this
    simp only [Option.some.injEq] at this
    exact hnotdone this

theorem inv_cache_subset (s : St) (c' : List (Key × Entry)) (h : ∀ p, p ∈ c' → p ∈ s.cache) (hi : Inv s) :
    Inv { s with cache := c' } := by
  obtain ⟨h1, h2, h3, h4, h5, h6, h7, h8, h9, h10, h11, h12, h13⟩ := hi
  exact ⟨fun k e hm => h1 k e (h _ hm), h2, h3, h4, h5, h6, h7, h8, h9, h10, h11, h12, h13⟩

theorem cachedReply_good (s : St) (hi : Inv s) (c : Client) (e : Entry) (h : lookup s.cache c.key = some e) :
    (cachedReply c e).good c := by
  have := hi.cacheSound _ _ (lookup_some h)
  refine ⟨rfl, e.q, rfl, ?_⟩
  simp only [Client.key] at this
  exact same_of_key this.1 this.2

theorem inv_step_refuse (cfg : Cfg) (s : St) (i : Nat) (hi : Inv s) : Inv (step cfg s (.refuse i)) := by
  simp only [step]
  split
  · next c hc hp =>
    exact inv_finish s i c _ .init hc hp (.inl rfl) (by intro r h; cases h; exact ownReply_good ..) hi
  · exact hi

theorem inv_step_evict (cfg : Cfg) (s : St) (k : Key) (hi : Inv s) : Inv (step cfg s (.evict k)) := by
  simp only [step]
  exact inv_cache_subset s _ (fun p hp => (mem_erase hp).1) hi

theorem inv_step_wake (cfg : Cfg) (s : St) (i : Nat) (hi : Inv s) : Inv (step cfg s (.wake i)) := by
  simp only [step]
  split
  · next c f hc hp =>
    split
    · next fl hf =>
      split
      · exact hi
      · next e hr =>
        exact inv_finish s i c _ (.waiting f) hc hp (.inr ⟨f, rfl⟩) (by intro r h; cases h) hi
      · next m hr =>
        split
        · next e he =>
          exact inv_finish s i c _ (.waiting f) hc hp (.inr ⟨f, rfl⟩)
            (by intro r h; cases h; exact cachedReply_good s hi c e he) hi
        · refine inv_finish s i c _ (.waiting f) hc hp (.inr ⟨f, rfl⟩) ?_ hi
          intro r h; cases h
          obtain ⟨c', fl', hc', hf', hk⟩ := hi.attached i f (.inl hp)
          rw [hc] at hc'; cases hc'
          rw [hf] at hf'; cases hf'
          obtain ⟨mq, hmq, hn, ht⟩ := hi.flightSound f fl m hf hr
          refine ⟨rfl, mq, hmq, ?_⟩
          rw [hk] at hn ht
          exact same_of_key hn ht
    · exact hi
  · exact hi

theorem inv_step_arrive (cfg : Cfg) (s : St) (i : Nat) (hi : Inv s) : Inv (step cfg s (.arrive i)) := by
  simp only [step]
  split
  · next c hc hp =>
    split
    · -- reject route
      refine inv_finish _ i c _ .init hc hp (.inl rfl) (by intro r h; cases h; exact ownReply_good ..) ?_
      exact inv_cache_subset s _ (fun p hp => (List.mem_filter.mp hp).1) hi
    · split
      · next e he =>
        exact inv_finish s i c _ .init hc hp (.inl rfl)
          (by intro r h; cases h; exact cachedReply_good s hi c e he) hi
      · split
        · next f hf =>
          -- follower: joins the running flight
          obtain ⟨h1, h2, h3, h4, h5, h6, h7, h8, h9, h10, h11, h12, h13⟩ := hi
          have hlt : i < s.pcs.length := by
            rcases List.getElem?_eq_some_iff.mp hp with ⟨h, _⟩; exact h
          obtain ⟨fl, hfl, hk, hr⟩ := h6 _ _ (lookup_some hf)
          refine ⟨h1, h2, h3, ?_, h5, h6, h7, ?_, ?_, h10, ?_, ?_, h13⟩
          · intro j g hj
            simp only [St.setPc] at hj ⊢
            by_cases hne : i = j
            · subst hne
              rw [List.getElem?_set_self hlt] at hj
              rcases hj with hj | hj
              · cases hj; exact ⟨c, fl, hc, hfl, hk⟩
              · cases hj
            · rw [List.getElem?_set_ne hne] at hj; exact h4 j g hj
          · intro g gl hg hgr
            obtain ⟨ha, hl⟩ := h8 g gl hg hgr
            refine ⟨ha, ?_⟩
            simp only [St.setPc]
            have hne : i ≠ gl.leader := by
              intro e; subst e; rw [hp] at hl; cases hl
            rw [List.getElem?_set_ne hne]; exact hl
          · intro j g hj
            simp only [St.setPc] at hj ⊢
            by_cases hne : i = j
            · subst hne; rw [List.getElem?_set_self hlt] at hj; cases hj
            · rw [List.getElem?_set_ne hne] at hj; exact h9 j g hj
          · intro j o hj
            simp only [St.setPc] at hj ⊢
            have hne : i ≠ j := by
              intro e; subst e; have := h11 _ o hj; rw [hp] at this; cases this
            rw [List.getElem?_set_ne hne]; exact h11 j o hj
          · intro j hj
            simp only [St.setPc] at hj ⊢
            by_cases hne : i = j
            · subst hne; rw [List.getElem?_set_self hlt] at hj; cases hj
            · rw [List.getElem?_set_ne hne] at hj; exact h12 j hj
        · next hnone =>
          -- leader: creates a flight
          obtain ⟨h1, h2, h3, h4, h5, h6, h7, h8, h9, h10, h11, h12, h13⟩ := hi
          have hlt : i < s.pcs.length := by
            rcases List.getElem?_eq_some_iff.mp hp with ⟨h, _⟩; exact h
          have hnoact := lookup_none hnone
          refine ⟨h1, ?_, ?_, ?_, h5, ?_, ?_, ?_, ?_, ?_, ?_, ?_, h13⟩
          · intro g gl hg
            simp only [St.setPc] at hg ⊢
            rcases getElem?_snoc_some hg with hg | ⟨_, rfl⟩
            · exact h2 g gl hg
            · exact ⟨c, hc, rfl⟩
          · intro g gl m hg hgr
            simp only [St.setPc] at hg ⊢
            rcases getElem?_snoc_some hg with hg | ⟨_, rfl⟩
            · exact h3 g gl m hg hgr
            · cases hgr
          · intro j g hj
            simp only [St.setPc] at hj ⊢
            by_cases hne : i = j
            · subst hne
              rw [List.getElem?_set_self hlt] at hj
              rcases hj with hj | hj
              · cases hj
              · cases hj
                exact ⟨c, _, hc, List.getElem?_concat_length, rfl⟩
            · rw [List.getElem?_set_ne hne] at hj
              obtain ⟨c', fl', hc', hf', hk'⟩ := h4 j g hj
              refine ⟨c', fl', hc', ?_, hk'⟩
              have hglt : g < s.flights.length := by
                rcases List.getElem?_eq_some_iff.mp hf' with ⟨h, _⟩; exact h
              rw [List.getElem?_append_left hglt]; exact hf'
          · intro k g hkg
            simp only [St.setPc] at hkg ⊢
            rcases mem_insert hkg with hkg | ⟨hkg, _⟩
            · cases hkg
              exact ⟨_, List.getElem?_concat_length, rfl, rfl⟩
            · obtain ⟨fl, hfl, hk, hr⟩ := h6 k g hkg
              have hglt : g < s.flights.length := by
                rcases List.getElem?_eq_some_iff.mp hfl with ⟨h, _⟩; exact h
              exact ⟨fl, by rw [List.getElem?_append_left hglt]; exact hfl, hk, hr⟩
          · intro k g g' hg hg'
            simp only [St.setPc] at hg hg'
            rcases mem_insert hg with hg | ⟨hg, hgk⟩ <;> rcases mem_insert hg' with hg' | ⟨hg', hgk'⟩
            · cases hg; cases hg'; rfl
            · cases hg; exact absurd rfl hgk'
            · cases hg'; exact absurd rfl hgk
            · exact h7 k g g' hg hg'
          · intro g gl hg hgr
            simp only [St.setPc] at hg ⊢
            rcases getElem?_snoc_some hg with hg | ⟨rfl, rfl⟩
            · obtain ⟨ha, hl⟩ := h8 g gl hg hgr
              refine ⟨?_, ?_⟩
              · simp only [insert, List.mem_cons]
                right
                simp only [erase, List.mem_filter, Bool.not_eq_eq_eq_not, Bool.not_true, beq_eq_false_iff_ne, ne_eq]
                refine ⟨ha, ?_⟩
                intro e
                exact hnoact g (e ▸ ha)
              · have hne : i ≠ gl.leader := by
                  intro e; subst e; rw [hp] at hl; cases hl
                rw [List.getElem?_set_ne hne]; exact hl
            · refine ⟨?_, ?_⟩
              · simp [insert]
              · exact List.getElem?_set_self hlt
          · intro j g hj
            simp only [St.setPc] at hj ⊢
            by_cases hne : i = j
            · subst hne
              rw [List.getElem?_set_self hlt] at hj
              cases hj
              exact ⟨_, List.getElem?_concat_length, rfl, rfl⟩
            · rw [List.getElem?_set_ne hne] at hj
              obtain ⟨fl, hfl, hl, hr⟩ := h9 j g hj
              have hglt : g < s.flights.length := by
                rcases List.getElem?_eq_some_iff.mp hfl with ⟨h, _⟩; exact h
              exact ⟨fl, by rw [List.getElem?_append_left hglt]; exact hfl, hl, hr⟩
          · simp only [St.setPc, List.length_append, List.length_cons, List.length_nil]
            omega
          · intro j o hj
            simp only [St.setPc] at hj ⊢
            have hne : i ≠ j := by
              intro e; subst e; have := h11 _ o hj; rw [hp] at this; cases this
            rw [List.getElem?_set_ne hne]; exact h11 j o hj
          · intro j hj
            simp only [St.setPc] at hj ⊢
            by_cases hne : i = j
            · subst hne; rw [List.getElem?_set_self hlt] at hj; cases hj
            · rw [List.getElem?_set_ne hne] at hj; exact h12 j hj
  · exact hi

theorem same_iff {a b : Question} : a.same b = true ↔ a.name = b.name ∧ a.qtype = b.qtype := by
  simp [Question.same]

theorem dialSend_spec (cfg : Cfg) (hcfg : cfg.checkQuestion = true) (c : Client) (sch : Scheme) (a1 a2 : Att)
    (cache : List (Key × Entry)) :
    (∀ m, (dialSend cfg c sch a1 a2 cache).1 = .ok m →
      m.id = c.id ∧ ∃ mq : Question, m.q = some mq ∧ mq.name = c.q.name ∧ mq.qtype = c.q.qtype) ∧
    (∀ p, p ∈ (dialSend cfg c sch a1 a2 cache).2 →
      p ∈ cache ∨ (p.1 = c.key ∧ p.2.q.name = c.q.name ∧ p.2.q.qtype = c.q.qtype)) := by
  unfold dialSend
  split
  · exact ⟨(by intro m h; cases h), fun p hp => .inl hp⟩
  · next m hm =>
    rw [hcfg]
    simp only [Bool.true_and]
    cases hq : answersRequest c.q m
    · simp only [Bool.not_false, if_true]
      exact ⟨(by intro m h; cases h), fun p hp => .inl hp⟩
    · simp only [Bool.not_true, Bool.false_eq_true, if_false]
      split
      · exact ⟨(by intro m h; cases h), fun p hp => .inl hp⟩
      unfold answersRequest at hq
      cases hmq : m.q with
      | none => rw [hmq] at hq; cases hq
      | some mq =>
        rw [hmq] at hq
        simp only at hq
        have hs := same_iff.mp hq
        refine ⟨?_, ?_⟩
        · intro m' h
          cases h
          exact ⟨rfl, mq, rfl, hs.1.symm, hs.2.symm⟩
        · intro p hp
          simp only at hp
          split at hp
          · rcases mem_insert hp with rfl | ⟨hp, _⟩
            · exact .inr ⟨rfl, hs.1.symm, hs.2.symm⟩
            · exact .inl hp
          · exact .inl hp

theorem inv_step_resolve (cfg : Cfg) (hcfg : cfg.checkQuestion = true) (s : St) (f : Nat) (sch : Scheme)
    (a1 a2 : Att) (hi : Inv s) : Inv (step cfg s (.resolve f sch a1 a2)) := by
  simp only [step]
  split
  · next fl hf =>
    split
    · next f' hres hc hp =>
      split
      · next hff =>
        subst hff
        obtain ⟨hd1, hd2⟩ := dialSend_spec cfg hcfg ‹Client› sch a1 a2 s.cache
        generalize dialSend cfg ‹Client› sch a1 a2 s.cache = d at hd1 hd2 ⊢
        obtain ⟨r, cache'⟩ := d
        simp only at hd1 hd2 ⊢
        rename_i c
        obtain ⟨h1, h2, h3, h4, h5, h6, h7, h8, h9, h10, h11, h12, h13⟩ := hi
        have hlt : fl.leader < s.pcs.length := by
          rcases List.getElem?_eq_some_iff.mp hp with ⟨h, _⟩; exact h
        have hflt : f' < s.flights.length := by
          rcases List.getElem?_eq_some_iff.mp hf with ⟨h, _⟩; exact h
        obtain ⟨c0, hc0, hck⟩ := h2 f' fl hf
        rw [hc] at hc0; cases hc0
        refine ⟨?_, ?_, ?_, ?_, h5, ?_, ?_, ?_, ?_, ?_, ?_, ?_, h13⟩
        · intro k e hm
          rcases hd2 _ hm with hm | ⟨hk, hn, ht⟩
          · exact h1 k e hm
          · simp only at hk hn ht
            subst hk
            exact ⟨hn, ht⟩
        · intro g gl hg
          simp only [St.setPc] at hg ⊢
          rcases getElem?_set_some hg with ⟨rfl, rfl⟩ | ⟨_, hg⟩
          · exact ⟨c, hc, hck⟩
          · exact h2 g gl hg
        · intro g gl m hg hgr
          simp only [St.setPc] at hg
          rcases getElem?_set_some hg with ⟨rfl, rfl⟩ | ⟨_, hg⟩
          · simp only [Option.some.injEq] at hgr
            subst hgr
            obtain ⟨_, mq, hmq, hn, ht⟩ := hd1 m rfl
            refine ⟨mq, hmq, ?_, ?_⟩
            · simp only; rw [← hck]; exact hn
            · simp only; rw [← hck]; exact ht
          · exact h3 g gl m hg hgr
        · intro j g hj
          simp only [St.setPc] at hj ⊢
          have key : ∀ (c' : Client) (gl : Flight), s.clients[j]? = some c' → s.flights[g]? = some gl → gl.key = c'.key →
              ∃ (c'' : Client) (gl' : Flight), s.clients[j]? = some c'' ∧
                (s.flights.set f' { fl with result := some r })[g]? = some gl' ∧ gl'.key = c''.key := by
            intro c' gl hc' hgl hk
            by_cases hfg : f' = g
            · subst hfg
              rw [hf] at hgl; cases hgl
              exact ⟨c', _, hc', List.getElem?_set_self hflt, hk⟩
            · exact ⟨c', gl, hc', by rw [List.getElem?_set_ne hfg]; exact hgl, hk⟩
          by_cases hne : fl.leader = j
          · subst hne
            rw [List.getElem?_set_self hlt] at hj
            rcases hj with hj | hj
            · cases hj
              exact key c fl hc hf hck.symm
            · cases hj
          · rw [List.getElem?_set_ne hne] at hj
            obtain ⟨c', gl, hc', hgl, hk⟩ := h4 j g hj
            exact key c' gl hc' hgl hk
        · intro k g hkg
          simp only [St.setPc] at hkg ⊢
          obtain ⟨hkg, hkne⟩ := mem_erase hkg
          obtain ⟨gl, hgl, hk, hr⟩ := h6 k g hkg
          have hfg : f' ≠ g := by
            intro e; subst e; rw [hf] at hgl; cases hgl; exact hkne hk.symm
          exact ⟨gl, by rw [List.getElem?_set_ne hfg]; exact hgl, hk, hr⟩
        · intro k g g' hg hg'
          exact h7 k g g' (mem_erase hg).1 (mem_erase hg').1
        · intro g gl hg hgr
          simp only [St.setPc] at hg ⊢
          rcases getElem?_set_some hg with ⟨rfl, rfl⟩ | ⟨hne, hg⟩
          · cases hgr
          · obtain ⟨ha, hl⟩ := h8 g gl hg hgr
            have hkne : gl.key ≠ fl.key := by
              intro e
              have h1' := (h8 f' fl hf hres).1
              rw [← e] at h1'
              exact hne (h7 _ _ _ h1' ha)
            refine ⟨?_, ?_⟩
            · simp only [erase, List.mem_filter, Bool.not_eq_eq_eq_not, Bool.not_true, beq_eq_false_iff_ne, ne_eq]
              exact ⟨ha, hkne⟩
            · have hne2 : fl.leader ≠ gl.leader := by
                intro e
                rw [← e, hp] at hl
                simp only [Option.some.injEq, Pc.leading.injEq] at hl
                exact hne hl
              rw [List.getElem?_set_ne hne2]; exact hl
        · intro j g hj
          simp only [St.setPc] at hj ⊢
          by_cases hne : fl.leader = j
          · subst hne; rw [List.getElem?_set_self hlt] at hj; cases hj
          · rw [List.getElem?_set_ne hne] at hj
            obtain ⟨gl, hgl, hl, hr⟩ := h9 j g hj
            have hfg : f' ≠ g := by
              intro e; subst e; rw [hf] at hgl; cases hgl; exact hne hl
            exact ⟨gl, by rw [List.getElem?_set_ne hfg]; exact hgl, hl, hr⟩
        · simp only [St.setPc, List.length_set]; exact h10
        · intro j o hj
          simp only [St.setPc] at hj ⊢
          have hne : fl.leader ≠ j := by
            intro e; subst e; have := h11 _ o hj; rw [hp] at this; cases this
          rw [List.getElem?_set_ne hne]; exact h11 j o hj
        · intro j hj
          simp only [St.setPc] at hj ⊢
          by_cases hne : fl.leader = j
          · subst hne; rw [List.getElem?_set_self hlt] at hj; cases hj
          · rw [List.getElem?_set_ne hne] at hj; exact h12 j hj
      · exact hi
    · exact hi
  · exact hi

theorem inv_step (cfg : Cfg) (hcfg : cfg.checkQuestion = true) (s : St) (a : Act) (hi : Inv s) :
    Inv (step cfg s a) := by
  cases a with
  | arrive i => exact inv_step_arrive cfg s i hi
  | refuse i => exact inv_step_refuse cfg s i hi
  | resolve f sch a1 a2 => exact inv_step_resolve cfg hcfg s f sch a1 a2 hi
  | wake i => exact inv_step_wake cfg s i hi
  | evict k => exact inv_step_evict cfg s k hi

theorem inv_run (cfg : Cfg) (hcfg : cfg.checkQuestion = true) (as : List Act) :
    ∀ s, Inv s → Inv (run cfg s as) := by
  induction as with
  | nil => intro s h; exact h
  | cons a as ih => intro s h; exact ih _ (inv_step cfg hcfg s a h)

end Ctl

namespace Udp

theorem loop_spec (orig : Nat) (dot : Bool) : ∀ (evs : List Ev) (st rd : Nat),
    (∀ id b, (loop orig dot evs st rd).out = .ok id b →
      id = orig ∧ Ev.dgram orig (some b) ∈ evs ∧ b.tc = false ∧ (loop orig dot evs st rd).kept = true) ∧
    (∀ id b, (loop orig dot evs st rd).out = .truncated id b →
      id = orig ∧ Ev.dgram orig (some b) ∈ evs ∧ b.tc = true ∧ (loop orig dot evs st rd).kept = true) ∧
    (((loop orig dot evs st rd).out = .staleFlood ∨ (loop orig dot evs st rd).out = .shortFlood ∨
      (loop orig dot evs st rd).out = .unpackErr ∨ (loop orig dot evs st rd).out = .ioerr) →
      (loop orig dot evs st rd).kept = false) ∧
    (st ≤ maxStale → (loop orig dot evs st rd).reads ≤ rd + (maxStale - st) + 1) := by
  intro evs
  induction evs with
  | nil => intro st rd; simp [loop]
  | cons e evs ih =>
    intro st rd
    cases e with
    | timeout => simp [loop]
    | ioerr => simp [loop]
    | short =>
      simp only [loop]
      split
      · simp <;> omega
      · next hst =>
        obtain ⟨h1, h2, h3, h4⟩ := ih (st + 1) (rd + 1)
        refine ⟨?_, ?_, h3, ?_⟩
        · intro id b h
          obtain ⟨a, b', c, d⟩ := h1 id b h
          exact ⟨a, List.mem_cons_of_mem _ b', c, d⟩
        · intro id b h
          obtain ⟨a, b', c, d⟩ := h2 id b h
          exact ⟨a, List.mem_cons_of_mem _ b', c, d⟩
        · intro hle
          have := h4 (by omega)
          omega
    | dgram i body =>
      simp only [loop]
      split
      · split
        · simp <;> omega
        · next hst =>
          obtain ⟨h1, h2, h3, h4⟩ := ih (st + 1) (rd + 1)
          refine ⟨?_, ?_, h3, ?_⟩
          · intro id b h
            obtain ⟨a, b', c, d⟩ := h1 id b h
            exact ⟨a, List.mem_cons_of_mem _ b', c, d⟩
          · intro id b h
            obtain ⟨a, b', c, d⟩ := h2 id b h
            exact ⟨a, List.mem_cons_of_mem _ b', c, d⟩
          · intro hle
            have := h4 (by omega)
            omega
      · next hid =>
        have hid' : i = orig := by simpa using hid
        subst hid'
        cases body with
        | none => simp <;> omega
        | some b' =>
          simp only
          split
          · next htc =>
            refine ⟨(by intro id b h; cases h), ?_, (by simp), (by intro h; simp only; omega)⟩
            intro id b h
            simp only [Out.truncated.injEq] at h
            obtain ⟨rfl, rfl⟩ := h
            exact ⟨rfl, List.mem_cons_self, htc, rfl⟩
          · next htc =>
            refine ⟨?_, (by intro id b h; cases h), (by simp), (by intro h; simp only; omega)⟩
            intro id b h
            simp only [Out.ok.injEq] at h
            obtain ⟨rfl, rfl⟩ := h
            exact ⟨rfl, List.mem_cons_self, by simpa using htc, rfl⟩

theorem forward_spec (orig : Nat) (dot w : Bool) (q : List Ev) :
    (∀ id b, (forward orig dot w q).out = .ok id b → id = orig ∧ Ev.dgram orig (some b) ∈ q) ∧
    (∀ id b, (forward orig dot w q).out = .truncated id b → id = orig ∧ Ev.dgram orig (some b) ∈ q) ∧
    ((forward orig dot w q).reads ≤ maxStale + 1) := by
  unfold forward
  cases w
  · simp
  · simp only [if_true]
    obtain ⟨h1, h2, _, h4⟩ := loop_spec orig dot q 0 0
    refine ⟨fun id b h => ⟨(h1 id b h).1, (h1 id b h).2.1⟩, fun id b h => ⟨(h2 id b h).1, (h2 id b h).2.1⟩, ?_⟩
    have := h4 (by simp [maxStale])
    simpa using this

theorem results_spec : ∀ (ops : List Op) (s : Sock) (orig : Nat) (r : Res),
    (orig, r) ∈ results s ops →
    (∀ id b, r.out = .ok id b → id = orig) ∧ (∀ id b, r.out = .truncated id b → id = orig) := by
  intro ops
  induction ops with
  | nil => intro s orig r h; simp [results] at h
  | cons op ops ih =>
    intro s orig r h
    cases op with
    | push e =>
      simp only [results] at h
      exact ih _ _ _ h
    | fwd o dot w =>
      simp only [results, List.mem_cons, Prod.mk.injEq] at h
      rcases h with ⟨rfl, rfl⟩ | h
      · obtain ⟨h1, h2, _⟩ := forward_spec orig dot w s.queue
        exact ⟨fun id b h => (h1 id b h).1, fun id b h => (h2 id b h).1⟩
      · exact ih _ _ _ h

end Udp

end DaeVerif.C09
