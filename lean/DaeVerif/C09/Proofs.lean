import DaeVerif.C09.Model
/-! Helper lemmas and invariants for C09 (the property theorems are in `Props.lean`). -/
namespace DaeVerif.C09

namespace Fwd

/-- goroutines that currently hold one unit of `inFlight` -/
def holds : Pc → Bool
  | .b3 | .b4 | .using | .e1 => true
  | _ => false

def isUsing : Pc → Bool
  | .using => true
  | _ => false

/-- goroutines that have read `retired = true` (or are past the store) in their current call -/
def knows : Pc → Bool
  | .b4 | .b5 | .e2r | .e3 | .r2 | .r3 => true
  | _ => false

/-- goroutines about to run `closeNow` -/
def closing : Pc → Bool
  | .b5 | .e3 | .r3 => true
  | _ => false

/-- goroutines that will either close or hand the duty on (used for "not leaked") -/
def closer : Pc → Bool
  | .r2 | .r3 | .b5 | .e3 | .e2 | .e2r => true
  | _ => false

/-- evictor goroutines about to close the forwarder behind `closeOnce`'s back -/
def rawCloser : Pc → Bool
  | .v3 => true
  | _ => false

/-- The repaired protocol: evictor goes through `retire`, and `endUse` either re-reads `inFlight`
or is indivisible. -/
def Cfg.Good (cfg : Cfg) : Prop :=
  cfg.evictRetires = true ∧ (cfg.endUseRecheck = true ∨ cfg.endUseAtomic = true)

structure Inv (s : St) : Prop where
  cnt : s.inFlight = (s.pcs.countP holds : Nat)
  closes : s.closes = if s.once then 1 else 0
  knowsRet : 0 < s.pcs.countP knows → s.retired = true
  onceRet : s.once = true → s.retired = true
  noUse : (s.once = true ∨ 0 < s.pcs.countP closing) → s.pcs.countP isUsing = 0
  live : s.retired = true → s.once = false → 0 < s.pcs.countP closer ∨ 0 < s.inFlight
  noRaw : s.pcs.countP rawCloser = 0
  bad : s.badUses = 0

theorem countP_replicate_idle (f : Pc → Bool) (h : f .idle = false) (n : Nat) :
    (List.replicate n Pc.idle).countP f = 0 := by
  induction n with
  | zero => simp
  | succ n ih => simp [List.replicate_succ, List.countP_cons, h, ih]

theorem inv_init (n : Nat) : Inv (init n) := by
  constructor <;> simp [init, countP_replicate_idle, holds, knows, closing, isUsing, closer, rawCloser]

/-- all six class counts after one goroutine moves from `p` to `q` -/
theorem counts_set (s : St) (t : Nat) (p q : Pc) (h : s.pcs[t]? = some p) (f : Pc → Bool) :
    (s.pcs.set t q).countP f + (if f p then 1 else 0) = s.pcs.countP f + (if f q then 1 else 0) :=
  countP_set_add f s.pcs t p q h

end Fwd

end DaeVerif.C09
