/-! C09 `Udp` model: see `Model.lean` for the overview. -/
namespace DaeVerif.C09

/-! ## `Udp` — the receive loop of `DoUDP.ForwardDNS`

A pooled socket is a queue of pending read events.  `forward` mirrors one call: write the request,
then read until a datagram carries the request's ID; shorter-than-2-byte datagrams and datagrams
with another ID are skipped, at most `maxStale` of them. -/
namespace Udp

/-- what `Msg.Unpack` yields besides the ID -/
structure Body where
  /-- question token (name and type as sent by the upstream) -/
  q : Nat
  tc : Bool
  /-- answer payload token -/
  tag : Nat
  deriving DecidableEq, Repr

inductive Ev where
  /-- a datagram shorter than two bytes -/
  | short
  /-- a datagram whose first two bytes are `id`; `body = none` when `Unpack` rejects it -/
  | dgram (id : Nat) (body : Option Body)
  /-- the read deadline passes -/
  | timeout
  /-- any other read error -/
  | ioerr
  deriving DecidableEq, Repr

inductive Out where
  | ok (id : Nat) (b : Body)
  | truncated (id : Nat) (b : Body)
  | timeout
  | ioerr
  | staleFlood
  | shortFlood
  | unpackErr
  | writeErr
  deriving DecidableEq, Repr

structure Res where
  out : Out
  /-- the socket goes back to the idle pool (otherwise it was discarded = closed) -/
  kept : Bool
  /-- number of read events consumed -/
  reads : Nat
  deriving DecidableEq, Repr

def maxStale : Nat := 8

/-- `dot` = `profile.DiscardPooledConnOnTimeout`.  An exhausted queue reads as a timeout. -/
def loop (orig : Nat) (dot : Bool) : List Ev → Nat → Nat → Res
  | [], _, reads => ⟨.timeout, !dot, reads + 1⟩
  | .timeout :: _, _, reads => ⟨.timeout, !dot, reads + 1⟩
  | .ioerr :: _, _, reads => ⟨.ioerr, false, reads + 1⟩
  | .short :: rest, stale, reads =>
    if stale + 1 > maxStale then ⟨.shortFlood, false, reads + 1⟩ else loop orig dot rest (stale + 1) (reads + 1)
  | .dgram id body :: rest, stale, reads =>
    if id ≠ orig then
      (if stale + 1 > maxStale then ⟨.staleFlood, false, reads + 1⟩ else loop orig dot rest (stale + 1) (reads + 1))
    else
      match body with
      | none => ⟨.unpackErr, false, reads + 1⟩
      | some b => if b.tc then ⟨.truncated id b, true, reads + 1⟩ else ⟨.ok id b, true, reads + 1⟩

def forward (orig : Nat) (dot writeOk : Bool) (q : List Ev) : Res :=
  if writeOk then loop orig dot q 0 0 else ⟨.writeErr, false, 0⟩

/-- The pooled socket of one forwarder across several calls (requests are sequential here; the
concurrent case uses one socket per in-flight request, which is the same model per socket). -/
structure Sock where
  /-- read events waiting in the socket -/
  queue : List Ev
  /-- number of sockets dialled so far -/
  gen : Nat
  /-- a socket exists (idle in the pool); otherwise the next call dials a fresh one -/
  live : Bool
  deriving DecidableEq, Repr

inductive Op where
  /-- the network delivers an event to the pooled socket (lost when there is none) -/
  | push (e : Ev)
  /-- one `ForwardDNS(orig)` -/
  | fwd (orig : Nat) (dot writeOk : Bool)
  deriving DecidableEq, Repr

/-- what the next borrower finds in its socket -/
def Sock.pendingEvs (s : Sock) : List Ev := if s.live then s.queue else []

def apply (s : Sock) : Op → Sock × Option Res
  | .push e => (if s.live then { s with queue := s.queue ++ [e] } else s, none)
  | .fwd orig dot w =>
    let r := forward orig dot w s.pendingEvs
    let gen := if s.live then s.gen else s.gen + 1
    if r.kept then ({ queue := s.pendingEvs.drop r.reads, gen := gen, live := true }, some r)
    else ({ queue := [], gen := gen, live := false }, some r)

/-- results of all calls of a history -/
def results : Sock → List Op → List (Nat × Res)
  | _, [] => []
  | s, .push e :: ops => results (apply s (.push e)).1 ops
  | s, .fwd orig dot w :: ops =>
    (orig, forward orig dot w s.pendingEvs) :: results (apply s (.fwd orig dot w)).1 ops

end Udp


end DaeVerif.C09
