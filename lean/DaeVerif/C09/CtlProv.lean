import DaeVerif.C09.CtlProofs
/-! C09 `Ctl`: the log of upstream resolutions, and where cached and written answers come from. -/
namespace DaeVerif.C09
namespace Ctl

/-- what one step does to the log of upstream resolutions -/
theorem step_calls (cfg : Cfg) (s : St) (a : Act) :
    ((step cfg s a).calls = s.calls ∧ s.flights.length ≤ (step cfg s a).flights.length) ∨
    (∃ q, (step cfg s a).calls = s.calls ++ [(s.flights.length, q)] ∧
      (step cfg s a).flights.length = s.flights.length + 1) := by
  cases a <;> simp only [step]
  all_goals (repeat' split)
  all_goals first
    | (left; simp [St.setPc, St.emit]; done)
    | (right; refine ⟨_, rfl, ?_⟩; simp [St.setPc]; done)
    | (left; simp [St.setPc, St.emit, List.length_set])

structure CallsInv (s : St) : Prop where
  nodup : (s.calls.map (·.1)).Nodup
  bound : ∀ f ∈ s.calls.map (·.1), f < s.flights.length

theorem callsInv_init (cs : List Client) : CallsInv (init cs) := by
  constructor <;> simp [init]

theorem callsInv_step (cfg : Cfg) (s : St) (a : Act) (h : CallsInv s) : CallsInv (step cfg s a) := by
  rcases step_calls cfg s a with ⟨hc, hl⟩ | ⟨q, hc, hl⟩
  · constructor
    · rw [hc]; exact h.nodup
    · intro f hf; rw [hc] at hf; have := h.bound f hf; omega
  · constructor
    · rw [hc, List.map_append, List.nodup_append]
      refine ⟨h.nodup, by simp, ?_⟩
      intro a ha b hb
      simp only [List.map_cons, List.map_nil, List.mem_singleton] at hb
      subst hb
      have := h.bound a ha
      omega
    · intro f hf
      rw [hc, List.map_append, List.mem_append] at hf
      rcases hf with hf | hf
      · have := h.bound f hf; omega
      · simp only [List.map_cons, List.map_nil, List.mem_singleton] at hf; omega

theorem callsInv_run (cfg : Cfg) (as : List Act) : ∀ s, CallsInv s → CallsInv (run cfg s as) := by
  induction as with
  | nil => intro s h; exact h
  | cons a as ih => intro s h; exact ih _ (callsInv_step cfg s a h)

/-- a client that enters `sf.Do` while a flight for its key is running starts no resolution -/
theorem join_running_no_call (cfg : Cfg) (s : St) (i f : Nat) (c : Client) (hc : s.clients[i]? = some c)
    (hp : s.pcs[i]? = some .missed) (hf : lookup s.active c.key = some f) :
    (step cfg s (.join i)).calls = s.calls ∧ (step cfg s (.join i)).pcs[i]? = some (.waiting f) := by
  have hlt : i < s.pcs.length := by
    rcases List.getElem?_eq_some_iff.mp hp with ⟨h, _⟩; exact h
  simp [step, hc, hp, hf, St.setPc, List.getElem?_set_self hlt]

/-! ### where answers come from -/

theorem dialSend_prov (cfg : Cfg) (c : Client) (sch : Scheme) (a1 a2 : Att) (cache : List (Key × Entry)) :
    ∀ p, p ∈ (dialSend cfg c sch a1 a2 cache).2 →
      p ∈ cache ∨ ∃ m, (dialSend cfg c sch a1 a2 cache).1 = .ok m ∧ p.1 = c.key ∧ p.2.ans = m.ans := by
  intro p hp
  generalize hd : dialSend cfg c sch a1 a2 cache = d at hp ⊢
  unfold dialSend at hd
  split at hd
  · subst hd; exact .inl hp
  · split at hd
    · subst hd; exact .inl hp
    · split at hd
      · subst hd; exact .inl hp
      · subst hd
        simp only at hp ⊢
        split at hp
        · split at hp
          · rcases mem_insert hp with rfl | ⟨hp, _⟩
            · exact .inr ⟨_, rfl, rfl, rfl⟩
            · exact .inl hp
          · exact .inl hp
        · exact .inl hp

structure Prov (s : St) : Prop where
  cacheProv : ∀ (k : Key) (e : Entry), (k, e) ∈ s.cache → ∃ m : UpMsg, (k, m) ∈ s.accepted ∧ m.ans = e.ans
  flightProv : ∀ (f : Nat) (fl : Flight) (m : UpMsg), s.flights[f]? = some fl → fl.result = some (DRes.ok m) →
    ∃ m0 : UpMsg, (fl.key, m0) ∈ s.accepted ∧ m0.ans = m.ans
  outsProv : ∀ (i : Nat) (r : Reply), (i, Outcome.wrote r) ∈ s.outs → r.src = Src.own ∨
    ∃ (c : Client) (m0 : UpMsg), s.clients[i]? = some c ∧ (c.key, m0) ∈ s.accepted ∧ m0.ans = r.ans

theorem prov_init (cs : List Client) : Prov (init cs) := by
  constructor <;> simp [init]

theorem prov_setPc (s : St) (i : Nat) (p : Pc) (h : Prov s) : Prov (s.setPc i p) := ⟨h.1, h.2, h.3⟩

theorem prov_emit (s : St) (i : Nat) (o : Outcome) (h : Prov s)
    (ho : ∀ r, o = .wrote r → r.src = Src.own ∨
      ∃ (c : Client) (m0 : UpMsg), s.clients[i]? = some c ∧ (c.key, m0) ∈ s.accepted ∧ m0.ans = r.ans) :
    Prov (s.emit i o) := by
  refine ⟨h.1, h.2, ?_⟩
  intro j r hj
  simp only [St.emit, List.mem_append, List.mem_singleton, Prod.mk.injEq] at hj
  rcases hj with hj | ⟨rfl, rfl⟩
  · exact h.3 j r hj
  · exact ho r rfl

theorem prov_cache_subset (s : St) (c' : List (Key × Entry)) (hsub : ∀ p, p ∈ c' → p ∈ s.cache) (h : Prov s) :
    Prov { s with cache := c' } :=
  ⟨fun k e hm => h.1 k e (hsub _ hm), h.2, h.3⟩

theorem prov_step (cfg : Cfg) (s : St) (a : Act) (hi : Inv s) (h : Prov s) : Prov (step cfg s a) := by
  cases a with
  | refuse i =>
    simp only [step]; split
    · exact prov_setPc _ _ _ (prov_emit _ _ _ h (by intro r hr; cases hr; exact .inl rfl))
    · exact h
  | arrive i =>
    simp only [step]; split
    · next c hc hp =>
      split
      · refine prov_setPc _ _ _ (prov_emit _ _ _ ?_ (by intro r hr; cases hr; exact .inl rfl))
        exact prov_cache_subset s _ (fun p hp => (List.mem_filter.mp hp).1) h
      · split
        · next e he =>
          refine prov_setPc _ _ _ (prov_emit _ _ _ h ?_)
          intro r hr; cases hr
          obtain ⟨m, hm, ha⟩ := h.1 _ _ (lookup_some he)
          exact .inr ⟨c, m, hc, hm, ha⟩
        · exact prov_setPc _ _ _ h
    · exact h
  | join i =>
    simp only [step]; split
    · next c hc hp =>
      split
      · exact prov_setPc _ _ _ h
      · split
        · next e he =>
          refine prov_setPc _ _ _ ⟨h.1, ?_, h.3⟩
          intro g gl m hg hgr
          rcases getElem?_snoc_some hg with hg | ⟨_, rfl⟩
          · exact h.2 g gl m hg hgr
          · simp only [Option.some.injEq, DRes.ok.injEq] at hgr
            subst hgr
            exact h.1 _ _ (lookup_some he)
        · refine prov_setPc _ _ _ ⟨h.1, ?_, h.3⟩
          intro g gl m hg hgr
          rcases getElem?_snoc_some hg with hg | ⟨_, rfl⟩
          · exact h.2 g gl m hg hgr
          · cases hgr
    · exact h
  | evict k => simp only [step]; exact prov_cache_subset s _ (fun p hp => (mem_erase hp).1) h
  | respell k sp =>
    simp only [step]
    refine ⟨?_, h.2, h.3⟩
    intro k' e hm
    simp only [List.mem_map] at hm
    obtain ⟨⟨k0, e0⟩, hm0, heq⟩ := hm
    obtain ⟨m, hmm, ha⟩ := h.1 k0 e0 hm0
    split at heq <;> (simp only [Prod.mk.injEq] at heq; obtain ⟨rfl, rfl⟩ := heq; exact ⟨m, hmm, ha⟩)
  | wake i =>
    simp only [step]; split
    · next c f hc hp =>
      split
      · next fl hf =>
        split
        · exact h
        · exact prov_setPc _ _ _ (prov_emit _ _ _ h (by intro r hr; cases hr))
        · next m hr =>
          split
          · next e he =>
            refine prov_setPc _ _ _ (prov_emit _ _ _ h ?_)
            intro r hr'; cases hr'
            obtain ⟨m0, hm, ha⟩ := h.1 _ _ (lookup_some he)
            exact .inr ⟨c, m0, hc, hm, ha⟩
          · refine prov_setPc _ _ _ (prov_emit _ _ _ h ?_)
            intro r hr'; cases hr'
            obtain ⟨c', fl', hc', hf', hk⟩ := hi.attached i f (.inl hp)
            rw [hc] at hc'; cases hc'
            rw [hf] at hf'; cases hf'
            obtain ⟨m0, hm, ha⟩ := h.2 f fl m hf hr
            rw [hk] at hm
            exact .inr ⟨c, m0, hc, hm, ha⟩
      · exact h
    · exact h
  | refresh i sch a1 a2 =>
    simp only [step]; split
    · next c hc =>
      have hp := dialSend_prov cfg c sch a1 a2 s.cache
      generalize dialSend cfg c sch a1 a2 s.cache = d at hp ⊢
      obtain ⟨r, cache'⟩ := d
      simp only at hp ⊢
      have mono : ∀ x, x ∈ s.accepted → x ∈ (match r with | .ok m => s.accepted ++ [(c.key, m)] | .err _ => s.accepted) := by
        intro x hx; split
        · exact List.mem_append_left _ hx
        · exact hx
      refine ⟨?_, ?_, ?_⟩
      · intro k e hm
        rcases hp _ hm with hm | ⟨m, hr, hk, ha⟩
        · obtain ⟨m0, h1, h2⟩ := h.1 k e hm; exact ⟨m0, mono _ h1, h2⟩
        · simp only at hk ha; subst hr; subst hk
          exact ⟨m, by simp, ha.symm⟩
      · intro g gl m hg hgr
        obtain ⟨m0, h1, h2⟩ := h.2 g gl m hg hgr; exact ⟨m0, mono _ h1, h2⟩
      · intro j r' hj
        rcases h.3 j r' hj with ho | ⟨c', m0, h1, h2, h3⟩
        · exact .inl ho
        · exact .inr ⟨c', m0, h1, mono _ h2, h3⟩
    · exact h
  | resolve f sch a1 a2 =>
    simp only [step]; split
    · next fl hf =>
      split
      · next f' hres hc hp =>
        split
        · next hff =>
          subst hff
          rename_i c
          obtain ⟨c0, hc0, hck⟩ := hi.leaderKey f' fl hf
          rw [hc] at hc0; cases hc0
          have hpv := dialSend_prov cfg c sch a1 a2 s.cache
          generalize dialSend cfg c sch a1 a2 s.cache = d at hpv ⊢
          obtain ⟨r, cache'⟩ := d
          simp only at hpv ⊢
          have mono : ∀ x, x ∈ s.accepted → x ∈ (match r with | .ok m => s.accepted ++ [(c.key, m)] | .err _ => s.accepted) := by
            intro x hx; split
            · exact List.mem_append_left _ hx
            · exact hx
          refine prov_setPc _ _ _ ⟨?_, ?_, ?_⟩
          · intro k e hm
            rcases hpv _ hm with hm | ⟨m, hr, hk, ha⟩
            · obtain ⟨m0, h1, h2⟩ := h.1 k e hm; exact ⟨m0, mono _ h1, h2⟩
            · simp only at hk ha; subst hr; subst hk
              exact ⟨m, by simp, ha.symm⟩
          · intro g gl m hg hgr
            rcases getElem?_set_some hg with ⟨rfl, rfl⟩ | ⟨_, hg⟩
            · simp only [Option.some.injEq] at hgr
              subst hgr
              refine ⟨m, ?_, rfl⟩
              simp only [← hck]; simp
            · obtain ⟨m0, h1, h2⟩ := h.2 g gl m hg hgr; exact ⟨m0, mono _ h1, h2⟩
          · intro j r' hj
            rcases h.3 j r' hj with ho | ⟨c', m0, h1, h2, h3⟩
            · exact .inl ho
            · exact .inr ⟨c', m0, h1, mono _ h2, h3⟩
        · exact h
      · exact h
    · exact h

/-- every accepted message carries the question of the key it was accepted for -/
def AccSound (s : St) : Prop :=
  ∀ (k : Key) (m : UpMsg), (k, m) ∈ s.accepted → ∃ mq : Question, m.q = some mq ∧ mq.ident = k.ident

theorem acc_step (cfg : Cfg) (hcfg : cfg.checkQuestion = true) (s : St) (a : Act) (h : AccSound s) :
    AccSound (step cfg s a) := by
  have key : ∀ (c : Client) (sch : Scheme) (a1 a2 : Att),
      AccSound { s with accepted := match (dialSend cfg c sch a1 a2 s.cache).1 with
        | .ok m => s.accepted ++ [(c.key, m)] | .err _ => s.accepted } := by
    intro c sch a1 a2 k m hm
    have hs := (dialSend_spec cfg hcfg c sch a1 a2 s.cache).1
    simp only at hm
    split at hm
    · rename_i m' hr
      rcases List.mem_append.mp hm with hm | hm
      · exact h k m hm
      · simp only [List.mem_singleton, Prod.mk.injEq] at hm
        obtain ⟨rfl, rfl⟩ := hm
        obtain ⟨_, mq, hq, hi⟩ := hs _ hr
        exact ⟨mq, hq, hi⟩
    · exact h k m hm
  cases a with
  | refresh i sch a1 a2 =>
    simp only [step]; split
    · next c hc => exact key c sch a1 a2
    · exact h
  | resolve f sch a1 a2 =>
    simp only [step]; split
    · split
      · next c _ _ =>
        split
        · have := key ‹Client› sch a1 a2
          generalize hd : dialSend cfg ‹Client› sch a1 a2 s.cache = d at this ⊢
          obtain ⟨r, cache'⟩ := d
          exact this
        · exact h
      · exact h
    · exact h
  | arrive i => simp only [step]; (repeat' split) <;> exact h
  | refuse i => simp only [step]; (repeat' split) <;> exact h
  | join i => simp only [step]; (repeat' split) <;> exact h
  | wake i => simp only [step]; (repeat' split) <;> exact h
  | evict k => exact h
  | respell k sp => exact h

theorem acc_run (cfg : Cfg) (hcfg : cfg.checkQuestion = true) (as : List Act) :
    ∀ s, AccSound s → AccSound (run cfg s as) := by
  induction as with
  | nil => intro s h; exact h
  | cons a as ih => intro s h; exact ih _ (acc_step cfg hcfg s a h)

theorem prov_run (cfg : Cfg) (hcfg : cfg.checkQuestion = true) (as : List Act) :
    ∀ s, Inv s → Prov s → Prov (run cfg s as) := by
  induction as with
  | nil => intro s _ h; exact h
  | cons a as ih => intro s hi h; exact ih _ (inv_step cfg hcfg s a hi) (prov_step cfg s a hi h)

end Ctl
end DaeVerif.C09
