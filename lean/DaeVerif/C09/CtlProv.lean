import DaeVerif.C09.CtlProofs
/-! C09 `Ctl`: the log of upstream resolutions, and where cached and written answers come from. -/
namespace DaeVerif.C09
namespace Ctl

/-- what one step does to the log of upstream resolutions -/
theorem step_calls (cfg : Cfg) (s : St) (a : Act) :
    ((step cfg s a).calls = s.calls ∧ s.flights.length ≤ (step cfg s a).flights.length) ∨
    (∃ q, (step cfg s a).calls = s.calls ++ [(s.flights.length, q)] ∧
      (step cfg s a).flights.length = s.flights.length + 1) := by
  cases a <;> simp only [step]
  all_goals (repeat' split)
  all_goals first
    | (left; simp [St.setPc, St.emit]; done)
    | (right; refine ⟨_, rfl, ?_⟩; simp [St.setPc]; done)
    | (left; simp [St.setPc, St.emit, List.length_set])

structure CallsInv (s : St) : Prop where
  nodup : (s.calls.map (·.1)).Nodup
  bound : ∀ f ∈ s.calls.map (·.1), f < s.flights.length

theorem callsInv_init (cs : List Client) : CallsInv (init cs) := by
  constructor <;> simp [init]

theorem callsInv_step (cfg : Cfg) (s : St) (a : Act) (h : CallsInv s) : CallsInv (step cfg s a) := by
  rcases step_calls cfg s a with ⟨hc, hl⟩ | ⟨q, hc, hl⟩
  · constructor
    · rw [hc]; exact h.nodup
    · intro f hf; rw [hc] at hf; have := h.bound f hf; omega
  · constructor
    · rw [hc, List.map_append, List.nodup_append]
      refine ⟨h.nodup, by simp, ?_⟩
      intro a ha b hb
      simp only [List.map_cons, List.map_nil, List.mem_singleton] at hb
      subst hb
      have := h.bound a ha
      omega
    · intro f hf
      rw [hc, List.map_append, List.mem_append] at hf
      rcases hf with hf | hf
      · have := h.bound f hf; omega
      · simp only [List.map_cons, List.map_nil, List.mem_singleton] at hf; omega

theorem callsInv_run (cfg : Cfg) (as : List Act) : ∀ s, CallsInv s → CallsInv (run cfg s as) := by
  induction as with
  | nil => intro s h; exact h
  | cons a as ih => intro s h; exact ih _ (callsInv_step cfg s a h)

/-- a client that enters `sf.Do` while a flight for its key is running starts no resolution -/
theorem join_running_no_call (cfg : Cfg) (s : St) (i f : Nat) (c : Client) (hc : s.clients[i]? = some c)
    (hp : s.pcs[i]? = some .missed) (hf : lookup s.active c.key = some f) :
    (step cfg s (.join i)).calls = s.calls ∧ (step cfg s (.join i)).pcs[i]? = some (.waiting f) := by
  have hlt : i < s.pcs.length := by
    rcases List.getElem?_eq_some_iff.mp hp with ⟨h, _⟩; exact h
  simp [step, hc, hp, hf, St.setPc, List.getElem?_set_self hlt]

/-! ### where answers come from -/

theorem acceptResp_prov (c : Client) (m : UpMsg) (cache : List (Key × Entry)) :
    ∀ p, p ∈ (acceptResp c m cache).2 →
      p ∈ cache ∨ ∃ m', (acceptResp c m cache).1 = .ok m' ∧ p.1 = c.key ∧ p.2.ans = m'.ans := by
  intro p hp
  unfold acceptResp at hp ⊢
  simp only at hp ⊢
  split at hp
  · split at hp
    · rcases mem_insert hp with rfl | ⟨hp, _⟩
      · exact .inr ⟨_, rfl, rfl, rfl⟩
      · exact .inl hp
    · exact .inl hp
  · exact .inl hp

theorem dialSend_prov (cfg : Cfg) (c : Client) (rounds : List Round) :
    ∀ (depth : Nat) (sch : Scheme) (cache : List (Key × Entry)),
    ∀ p, p ∈ (dialSend cfg c depth sch rounds cache).2 →
      p ∈ cache ∨ ∃ m, (dialSend cfg c depth sch rounds cache).1 = .ok m ∧ p.1 = c.key ∧ p.2.ans = m.ans := by
  induction rounds with
  | nil =>
    intro depth sch cache p hp
    unfold dialSend at hp
    exact .inl hp
  | cons r rest ih =>
    intro depth sch cache p hp
    generalize hd : dialSend cfg c depth sch (r :: rest) cache = d at hp ⊢
    unfold dialSend at hd
    split at hd
    · subst hd; exact .inl hp
    · split at hd
      · subst hd; exact .inl hp
      · next m hm =>
        split at hd
        · subst hd; exact .inl hp
        · split at hd
          · subst hd; exact .inl hp
          · split at hd
            · subst hd; exact ih _ _ _ p hp
            · subst hd; exact acceptResp_prov c m cache p hp
            · subst hd; exact acceptResp_prov c _ cache p hp

structure Prov (s : St) : Prop where
  cacheProv : ∀ (k : Key) (e : Entry), (k, e) ∈ s.cache → ∃ m : UpMsg, (k, m) ∈ s.accepted ∧ m.ans = e.ans
  flightProv : ∀ (f : Nat) (fl : Flight) (m : UpMsg), s.flights[f]? = some fl → fl.result = some (DRes.ok m) →
    ∃ m0 : UpMsg, (fl.key, m0) ∈ s.accepted ∧ m0.ans = m.ans
  outsProv : ∀ (i : Nat) (r : Reply), (i, Outcome.wrote r) ∈ s.outs → r.src = Src.own ∨
    ∃ (c : Client) (m0 : UpMsg), s.clients[i]? = some c ∧ (c.key, m0) ∈ s.accepted ∧ m0.ans = r.ans

theorem prov_init (cs : List Client) : Prov (init cs) := by
  constructor <;> simp [init]

theorem prov_setPc (s : St) (i : Nat) (p : Pc) (h : Prov s) : Prov (s.setPc i p) := ⟨h.1, h.2, h.3⟩

theorem prov_emit (s : St) (i : Nat) (o : Outcome) (h : Prov s)
    (ho : ∀ r, o = .wrote r → r.src = Src.own ∨
      ∃ (c : Client) (m0 : UpMsg), s.clients[i]? = some c ∧ (c.key, m0) ∈ s.accepted ∧ m0.ans = r.ans) :
    Prov (s.emit i o) := by
  refine ⟨h.1, h.2, ?_⟩
  intro j r hj
  simp only [St.emit, List.mem_append, List.mem_singleton, Prod.mk.injEq] at hj
  rcases hj with hj | ⟨rfl, rfl⟩
  · exact h.3 j r hj
  · exact ho r rfl

theorem prov_cache_subset (s : St) (c' : List (Key × Entry)) (hsub : ∀ p, p ∈ c' → p ∈ s.cache) (h : Prov s) :
    Prov { s with cache := c' } :=
  ⟨fun k e hm => h.1 k e (hsub _ hm), h.2, h.3⟩

theorem prov_step (cfg : Cfg) (s : St) (a : Act) (hi : Inv s) (h : Prov s) : Prov (step cfg s a) := by
  cases a with
  | refuse i =>
    simp only [step]; split
    · exact prov_setPc _ _ _ (prov_emit _ _ _ h (by intro r hr; cases hr; exact .inl rfl))
    · exact h
  | arrive i =>
    simp only [step]; split
    · next c hc hp =>
      split
      · exact prov_setPc _ _ _ (prov_emit _ _ _ h (by intro r hr; cases hr; exact .inl rfl))
      split
      · refine prov_setPc _ _ _ (prov_emit _ _ _ ?_ (by intro r hr; cases hr; exact .inl rfl))
        exact prov_cache_subset s _ (fun p hp => (List.mem_filter.mp hp).1) h
      · split
        · next e he =>
          refine prov_setPc _ _ _ (prov_emit _ _ _ h ?_)
          intro r hr; cases hr
          obtain ⟨m, hm, ha⟩ := h.1 _ _ (lookup_some he)
          exact .inr ⟨c, m, hc, hm, ha⟩
        · exact prov_setPc _ _ _ h
    · exact h
  | join i =>
    simp only [step]; split
    · next c hc hp =>
      split
      · exact prov_setPc _ _ _ h
      · split
        · next e he =>
          refine prov_setPc _ _ _ ⟨h.1, ?_, h.3⟩
          intro g gl m hg hgr
          rcases getElem?_snoc_some hg with hg | ⟨_, rfl⟩
          · exact h.2 g gl m hg hgr
          · simp only [Option.some.injEq, DRes.ok.injEq] at hgr
            subst hgr
            exact h.1 _ _ (lookup_some he)
        · refine prov_setPc _ _ _ ⟨h.1, ?_, h.3⟩
          intro g gl m hg hgr
          rcases getElem?_snoc_some hg with hg | ⟨_, rfl⟩
          · exact h.2 g gl m hg hgr
          · cases hgr
    · exact h
  | gone i => exact ⟨h.1, h.2, h.3⟩
  | evict k => simp only [step]; exact prov_cache_subset s _ (fun p hp => (mem_erase hp).1) h
  | respell k sp =>
    simp only [step]
    refine ⟨?_, h.2, h.3⟩
    intro k' e hm
    simp only [List.mem_map] at hm
    obtain ⟨⟨k0, e0⟩, hm0, heq⟩ := hm
    obtain ⟨m, hmm, ha⟩ := h.1 k0 e0 hm0
    split at heq <;> (simp only [Prod.mk.injEq] at heq; obtain ⟨rfl, rfl⟩ := heq; exact ⟨m, hmm, ha⟩)
  | wake i =>
    simp only [step]; split
    · next c f hc hp =>
      split
      · next fl hf =>
        split
        · exact h
        · exact prov_setPc _ _ _ (prov_emit _ _ _ h (by intro r hr; cases hr))
        · next m hr =>
          split
          · next e he =>
            refine prov_setPc _ _ _ (prov_emit _ _ _ h ?_)
            intro r hr'; cases hr'
            obtain ⟨m0, hm, ha⟩ := h.1 _ _ (lookup_some he)
            exact .inr ⟨c, m0, hc, hm, ha⟩
          · refine prov_setPc _ _ _ (prov_emit _ _ _ h ?_)
            intro r hr'; cases hr'
            obtain ⟨c', fl', hc', hf', hk⟩ := hi.attached i f (.inl hp)
            rw [hc] at hc'; cases hc'
            rw [hf] at hf'; cases hf'
            obtain ⟨m0, hm, ha⟩ := h.2 f fl m hf hr
            rw [hk] at hm
            exact .inr ⟨c, m0, hc, hm, ha⟩
      · exact h
    · exact h
  | refresh i sch rounds =>
    simp only [step]; split
    · next c hc =>
      have hp := dialSend_prov cfg c rounds 0 sch s.cache
      generalize dialSend cfg c 0 sch rounds s.cache = d at hp ⊢
      obtain ⟨r, cache'⟩ := d
      simp only at hp ⊢
      have mono : ∀ x, x ∈ s.accepted → x ∈ (match r with | .ok m => s.accepted ++ [(c.key, m)] | .err _ => s.accepted) := by
        intro x hx; split
        · exact List.mem_append_left _ hx
        · exact hx
      refine ⟨?_, ?_, ?_⟩
      · intro k e hm
        rcases hp _ hm with hm | ⟨m, hr, hk, ha⟩
        · obtain ⟨m0, h1, h2⟩ := h.1 k e hm; exact ⟨m0, mono _ h1, h2⟩
        · simp only at hk ha; subst hr; subst hk
          exact ⟨m, by simp, ha.symm⟩
      · intro g gl m hg hgr
        obtain ⟨m0, h1, h2⟩ := h.2 g gl m hg hgr; exact ⟨m0, mono _ h1, h2⟩
      · intro j r' hj
        rcases h.3 j r' hj with ho | ⟨c', m0, h1, h2, h3⟩
        · exact .inl ho
        · exact .inr ⟨c', m0, h1, mono _ h2, h3⟩
    · exact h
  | resolve f sch rounds =>
    simp only [step]; split
    · next fl hf =>
      split
      · next f' hres hc hp =>
        split
        · next hff =>
          subst hff
          rename_i c
          obtain ⟨c0, hc0, hck⟩ := hi.leaderKey f' fl hf
          rw [hc] at hc0; cases hc0
          have hpv := dialSend_prov cfg c rounds 0 sch s.cache
          generalize dialSend cfg c 0 sch rounds s.cache = d at hpv ⊢
          obtain ⟨r, cache'⟩ := d
          simp only at hpv ⊢
          have mono : ∀ x, x ∈ s.accepted → x ∈ (match r with | .ok m => s.accepted ++ [(c.key, m)] | .err _ => s.accepted) := by
            intro x hx; split
            · exact List.mem_append_left _ hx
            · exact hx
          refine prov_setPc _ _ _ ⟨?_, ?_, ?_⟩
          · intro k e hm
            rcases hpv _ hm with hm | ⟨m, hr, hk, ha⟩
            · obtain ⟨m0, h1, h2⟩ := h.1 k e hm; exact ⟨m0, mono _ h1, h2⟩
            · simp only at hk ha; subst hr; subst hk
              exact ⟨m, by simp, ha.symm⟩
          · intro g gl m hg hgr
            rcases getElem?_set_some hg with ⟨rfl, rfl⟩ | ⟨_, hg⟩
            · simp only [Option.some.injEq] at hgr
              subst hgr
              refine ⟨m, ?_, rfl⟩
              simp only [← hck]; simp
            · obtain ⟨m0, h1, h2⟩ := h.2 g gl m hg hgr; exact ⟨m0, mono _ h1, h2⟩
          · intro j r' hj
            rcases h.3 j r' hj with ho | ⟨c', m0, h1, h2, h3⟩
            · exact .inl ho
            · exact .inr ⟨c', m0, h1, mono _ h2, h3⟩
        · exact h
      · exact h
    · exact h

/-- every accepted message carries the question of the key it was accepted for -/
def AccSound (s : St) : Prop :=
  ∀ (k : Key) (m : UpMsg), (k, m) ∈ s.accepted → ∃ mq : Question, m.q = some mq ∧ mq.ident = k.ident

theorem acc_step (cfg : Cfg) (hcfg : cfg.checkQuestion = true) (s : St) (a : Act) (h : AccSound s) :
    AccSound (step cfg s a) := by
  have key : ∀ (c : Client) (sch : Scheme) (rounds : List Round),
      AccSound { s with accepted := match (dialSend cfg c 0 sch rounds s.cache).1 with
        | .ok m => s.accepted ++ [(c.key, m)] | .err _ => s.accepted } := by
    intro c sch rounds k m hm
    have hs := (dialSend_spec cfg hcfg c rounds 0 sch s.cache).1
    simp only at hm
    split at hm
    · rename_i m' hr
      rcases List.mem_append.mp hm with hm | hm
      · exact h k m hm
      · simp only [List.mem_singleton, Prod.mk.injEq] at hm
        obtain ⟨rfl, rfl⟩ := hm
        obtain ⟨_, mq, hq, hi⟩ := hs _ hr
        exact ⟨mq, hq, hi⟩
    · exact h k m hm
  cases a with
  | refresh i sch rounds =>
    simp only [step]; split
    · next c hc => exact key c sch rounds
    · exact h
  | resolve f sch rounds =>
    simp only [step]; split
    · split
      · next c _ _ =>
        split
        · have := key ‹Client› sch rounds
          generalize hd : dialSend cfg ‹Client› 0 sch rounds s.cache = d at this ⊢
          obtain ⟨r, cache'⟩ := d
          exact this
        · exact h
      · exact h
    · exact h
  | arrive i => simp only [step]; (repeat' split) <;> exact h
  | refuse i => simp only [step]; (repeat' split) <;> exact h
  | join i => simp only [step]; (repeat' split) <;> exact h
  | wake i => simp only [step]; (repeat' split) <;> exact h
  | evict k => exact h
  | respell k sp => exact h
  | gone i => exact h

theorem acc_run (cfg : Cfg) (hcfg : cfg.checkQuestion = true) (as : List Act) :
    ∀ s, AccSound s → AccSound (run cfg s as) := by
  induction as with
  | nil => intro s h; exact h
  | cons a as ih => intro s h; exact ih _ (acc_step cfg hcfg s a h)

theorem prov_run (cfg : Cfg) (hcfg : cfg.checkQuestion = true) (as : List Act) :
    ∀ s, Inv s → Prov s → Prov (run cfg s as) := by
  induction as with
  | nil => intro s _ h; exact h
  | cons a as ih => intro s hi h; exact ih _ (inv_step cfg hcfg s a hi) (prov_step cfg s a hi h)

/-! ### queries that do not carry exactly one question never get past the FORMERR guard -/

/-- a client whose query does not carry exactly one question is either not yet handled or done, and what it
got is the FORMERR reply built from its own message -/
def FormP (clients : List Client) (pcs : List Pc) (outs : List (Nat × Outcome)) : Prop :=
  (∀ (i : Nat) (c : Client), clients[i]? = some c → c.nq ≠ 1 → pcs[i]? = some .init ∨ pcs[i]? = some .done) ∧
  (∀ (i : Nat) (o : Outcome) (c : Client), (i, o) ∈ outs → clients[i]? = some c → c.nq ≠ 1 →
    o = .wrote (ownReply c rcodeFormErr false))

def FormInv (s : St) : Prop := FormP s.clients s.pcs s.outs

theorem formInv_init (cs : List Client) : FormInv (init cs) := by
  refine ⟨?_, ?_⟩
  · intro i c hc _
    left
    have hc' : cs[i]? = some c := hc
    simp only [init, List.getElem?_map, hc', Option.map_some]
  · intro i o c ho; simp [init] at ho

theorem formP_set {cl : List Client} {pcs : List Pc} {outs : List (Nat × Outcome)} (h : FormP cl pcs outs)
    (i : Nat) (p' : Pc) (hlt : i < pcs.length)
    (hp' : ∀ c, cl[i]? = some c → c.nq ≠ 1 → p' = .init ∨ p' = .done) : FormP cl (pcs.set i p') outs := by
  refine ⟨?_, h.2⟩
  intro j c hc hn
  by_cases hij : i = j
  · subst hij
    rw [List.getElem?_set_self hlt]
    rcases hp' c hc hn with rfl | rfl
    · exact .inl rfl
    · exact .inr rfl
  · rw [List.getElem?_set_ne hij]; exact h.1 j c hc hn

theorem formP_emit {cl : List Client} {pcs : List Pc} {outs : List (Nat × Outcome)} (h : FormP cl pcs outs)
    (i : Nat) (o : Outcome)
    (ho : ∀ c, cl[i]? = some c → c.nq ≠ 1 → o = .wrote (ownReply c rcodeFormErr false)) :
    FormP cl pcs (outs ++ [(i, o)]) := by
  refine ⟨h.1, ?_⟩
  intro j o' c hm hc hn
  rcases List.mem_append.mp hm with hm | hm
  · exact h.2 j o' c hm hc hn
  · simp only [List.mem_singleton, Prod.mk.injEq] at hm
    obtain ⟨rfl, rfl⟩ := hm
    exact ho c hc hn

/-- a client standing anywhere but `init` / `done` asked exactly one question -/
theorem formP_nq {cl : List Client} {pcs : List Pc} {outs : List (Nat × Outcome)} (h : FormP cl pcs outs)
    {i : Nat} {c : Client} {p : Pc} (hc : cl[i]? = some c) (hp : pcs[i]? = some p) (h1 : p ≠ .init) (h2 : p ≠ .done) :
    c.nq = 1 := by
  by_cases hn : c.nq = 1
  · exact hn
  · rcases h.1 i c hc hn with h' | h' <;> (rw [hp] at h'; cases h'; contradiction)

theorem formInv_step (cfg : Cfg) (s : St) (a : Act) (h : FormInv s) : FormInv (step cfg s a) := by
  have lt_of {i : Nat} {p : Pc} (hp : s.pcs[i]? = some p) : i < s.pcs.length := by
    rcases List.getElem?_eq_some_iff.mp hp with ⟨h, _⟩; exact h
  unfold FormInv at h ⊢
  cases a with
  | refuse i =>
    simp only [step]; split
    · next c hc hp =>
      refine formP_set (formP_emit h i _ ?_) i _ (lt_of hp) (fun _ _ _ => .inr rfl)
      intro c' hc' hn
      rw [hc] at hc'; cases hc'
      simp [hn]
    · exact h
  | arrive i =>
    simp only [step]; split
    · next c hc hp =>
      split
      · refine formP_set (formP_emit h i _ ?_) i _ (lt_of hp) (fun _ _ _ => .inr rfl)
        intro c' hc' _
        rw [hc] at hc'; cases hc'; rfl
      · next hn =>
        have hn1 : c.nq = 1 := by
          by_cases hh : c.nq = 1
          · exact hh
          · exact absurd hh hn
        have hno : ∀ c', s.clients[i]? = some c' → c'.nq ≠ 1 → False := by
          intro c' hc' hn'; rw [hc] at hc'; cases hc'; exact hn' hn1
        split
        · exact formP_set (formP_emit h i _ (fun c' hc' hn' => (hno c' hc' hn').elim)) i _ (lt_of hp)
            (fun _ _ _ => .inr rfl)
        · split
          · exact formP_set (formP_emit h i _ (fun c' hc' hn' => (hno c' hc' hn').elim)) i _ (lt_of hp)
              (fun _ _ _ => .inr rfl)
          · exact formP_set h i _ (lt_of hp) (fun c' hc' hn' => (hno c' hc' hn').elim)
    · exact h
  | join i =>
    simp only [step]; split
    · next c hc hp =>
      have hn1 := formP_nq h hc hp (by simp) (by simp)
      have hno : ∀ c', s.clients[i]? = some c' → c'.nq ≠ 1 → False := by
        intro c' hc' hn'; rw [hc] at hc'; cases hc'; exact hn' hn1
      (repeat' split) <;> exact formP_set h i _ (lt_of hp) (fun c' hc' hn' => (hno c' hc' hn').elim)
    · exact h
  | wake i =>
    simp only [step]; split
    · next c f hc hp =>
      have hn1 := formP_nq h hc hp (by simp) (by simp)
      have hno : ∀ c', s.clients[i]? = some c' → c'.nq ≠ 1 → False := by
        intro c' hc' hn'; rw [hc] at hc'; cases hc'; exact hn' hn1
      (repeat' split) <;> first
        | exact h
        | exact formP_set (formP_emit h i _ (fun c' hc' hn' => (hno c' hc' hn').elim)) i _ (lt_of hp)
            (fun _ _ _ => .inr rfl)
    · exact h
  | resolve f sch rounds =>
    simp only [step]; split
    · next fl hf =>
      split
      · next f' hres hc hp =>
        rename_i c
        have hn1 := formP_nq h hc hp (by simp) (by simp)
        have hno : ∀ c', s.clients[fl.leader]? = some c' → c'.nq ≠ 1 → False := by
          intro c' hc' hn'; rw [hc] at hc'; cases hc'; exact hn' hn1
        split
        · exact formP_set h _ _ (lt_of hp) (fun c' hc' hn' => (hno c' hc' hn').elim)
        · exact h
      · exact h
    · exact h
  | refresh i sch rounds => simp only [step]; split <;> exact h
  | evict k => exact h
  | respell k sp => exact h
  | gone i => exact h

theorem formInv_run (cfg : Cfg) (as : List Act) : ∀ s, FormInv s → FormInv (run cfg s as) := by
  induction as with
  | nil => intro s h; exact h
  | cons a as ih => intro s h; exact ih _ (formInv_step cfg s a h)

/-! ### a client going away changes nothing for anybody -/

theorem strip_step_gone (cfg : Cfg) (s : St) (i : Nat) : (step cfg s (.gone i)).strip = s.strip := rfl

theorem strip_step (cfg : Cfg) (s : St) (a : Act) (h : a.isGone = false) :
    (step cfg s a).strip = step cfg s.strip a := by
  cases a <;> simp only [Act.isGone, Bool.true_eq_false] at h <;>
    simp only [step, St.strip] <;> (repeat' split) <;> simp_all [St.setPc, St.emit]

theorem strip_run (cfg : Cfg) (as : List Act) :
    ∀ s, (run cfg s as).strip = run cfg s.strip (as.filter (fun a => !a.isGone)) := by
  induction as with
  | nil => intro s; rfl
  | cons a as ih =>
    intro s
    simp only [run, List.foldl_cons] at ih ⊢
    rw [ih]
    cases hg : a.isGone
    · simp only [List.filter_cons, hg, Bool.not_false, if_true, List.foldl_cons]
      rw [strip_step cfg s a hg]
    · cases a <;> simp only [Act.isGone, Bool.false_eq_true] at hg
      simp only [List.filter_cons, Act.isGone, Bool.not_true, Bool.false_eq_true, if_false]
      rw [strip_step_gone]

end Ctl
end DaeVerif.C09
