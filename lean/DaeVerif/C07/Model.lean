import DaeVerif.Common.RuleScan
/-!
# C07 — DNS request / response routing and the bounded re-ask loop: executable model

Mirrors (code as it is at the pinned commit + `fix:` commits):

* `component/dns/request_routing.go`  `RequestMatcherBuilder` (`addQName`, `addQType`, `addFallback`)
  and `RequestMatcher.Match`;
* `component/dns/response_routing.go` `ResponseMatcherBuilder` (`addQName`, `addQType`, `addIp`,
  `addUpstream`, `addFallback`) and `ResponseMatcher.Match`;
* `component/routing/matcher_builder.go` `RulesBuilder.Apply` + `groupParamValuesByKey`
  (which match set gets `<OR>`, `<AND>` or the rule's outbound);
* `component/dns/request_rule_split.go` `SplitRequestRules` (rules made of `sub/node/subnode`
  selectors are not DNS rules);
* `component/routing/domain_matcher` `MatchDomainBitmap` at the level of its documented meaning
  (normalisation `ToLower(TrimSuffix(name, "."))`, `full` / `suffix` / `keyword`; `regex` is an oracle);
* `component/dns/dns.go` `RequestSelect` / `ResponseSelect`;
* `control/dns_control.go` `HandleWithResponseWriter_` → `handleWithResponseWriter_` → `dialSend`
  (route first, reject clears the cache family, cache lookup, recursion guarded by
  `MaxDnsLookupDepth`, accept / reject(empty) / re-ask, store under the request's cache key).

Core-only (the driver `c07drv` links this file).
-/
namespace DaeVerif.C07
open DaeVerif.RuleScan

/-! ## Names and patterns -/

/-- `domain_matcher.ValidDomainChars`. -/
def validDomainChar (c : Char) : Bool :=
  ('0' ≤ c && c ≤ '9') || ('a' ≤ c && c ≤ 'z') || c == '-' || c == '.' || c == '^' || c == '_'

/-- `ahocorasick.IsValidChar`: the domain alphabet plus `$`. -/
def validAcChar (c : Char) : Bool := validDomainChar c || c == '$'

/-- `strings.TrimSuffix(s, ".")`: at most ONE trailing dot is removed. -/
def trimDot (s : List Char) : List Char :=
  match s.getLast? with
  | some '.' => s.dropLast
  | _ => s

/-- `strings.ToLower` (ASCII; the tie only generates ASCII names). -/
def lowerStr (s : List Char) : List Char := s.map Char.toLower

/-- what `MatchDomainBitmap` matches against. -/
def normName (s : List Char) : List Char := lowerStr (trimDot s)

inductive DKey where
  | full | suffix | keyword | regex
deriving DecidableEq, Repr, Inhabited

def isInfixB (p : List Char) : List Char → Bool
  | [] => p.isEmpty
  | c :: t => p.isPrefixOf (c :: t) || isInfixB p t

/-- `ToSuffixTrieString` before the reversal: one trailing `$` is dropped. -/
def trimDollar (s : List Char) : List Char :=
  match s.getLast? with
  | some '$' => s.dropLast
  | _ => s

/-- the Aho-Corasick library reads every input byte through its table: a byte outside its alphabet
is read as `a`. -/
def acNorm (c : Char) : Char := if validAcChar c then c else 'a'

/-- One pattern against the normalised name `n`, at the level of the trie / automaton CONTRACTS
(`HasPrefix(ToSuffixTrieString("^"+n))` over the stored strings = "a stored string, reversed, is a
prefix of the reversed query" = "a stored string is a suffix of `^n`"; `Contains` = substring), so
that it is exact for EVERY name, also names with `^ $ * |` or other bytes outside the alphabet.
For names of letters, digits, `-`, `_`, `.` this is the documented meaning (C11; `Compose.lean`):
full = identical, suffix `d` = `n = d` or `n` ends with `"." ++ d` (a pattern starting with `.` only
proper sub-domains), keyword = substring.  `rx` lists the regex patterns that match `n` (oracle: Go's
`regexp`).  `full`/`suffix` patterns containing a character outside `ValidDomainChars` and `keyword`
patterns with a character outside the automaton's alphabet are skipped by `AddSet` (warning), i.e.
never match; the automaton never reports the empty keyword.  Since b65c54c the patterns are lower-cased
first (an upper-case pattern matches like its lower-case spelling). -/
def patMatch (rx : List String) (key : DKey) (pat : String) (n : List Char) : Bool :=
  -- fix b65c54c: full / suffix / keyword patterns are lower-cased by `AddSet` like the queried name
  let p := lowerStr pat.toList
  let q := trimDollar ('^' :: n)
  match key with
  | .full => p.all validDomainChar && ('^' :: p).isSuffixOf q
  | .suffix =>
    p.all validDomainChar &&
      (if p.head? == some '.' then p.isSuffixOf q else (('.' :: p).isSuffixOf q || ('^' :: p).isSuffixOf q))
  -- fix 2dcb060: a keyword containing the head / tail mark `^` / `$` is skipped like other bad patterns
  | .keyword => p.all (fun c => validAcChar c && c != '^' && c != '$') && !p.isEmpty &&
      isInfixB p (('^' :: (n ++ ['$'])).map acNorm)
  | .regex => rx.contains pat

def domSetMatch (rx : List String) (key : DKey) (pats : List String) (n : List Char) : Bool :=
  pats.any fun p => patMatch rx key p n

/-! ## Addresses -/

/-- `netip.Prefix` (`is4` = `Addr().Is4()`, `addr` = value of `As16()`, `bits` = `Bits()`). -/
structure Pfx where
  is4 : Bool
  addr : Nat
  bits : Nat
deriving DecidableEq, Repr, Inhabited

def Pfx.len128 (p : Pfx) : Nat := if p.is4 then p.bits + 96 else p.bits

/-- CIDR containment in the IPv4-mapped 128-bit space (C12 proves that the trie built by
`NewTrieFromPrefixes` + `HasPrefix(Prefix2bin128(a/128))` computes exactly this). -/
def pfxContains (p : Pfx) (a : Nat) : Bool :=
  a / 2 ^ (128 - p.len128) == p.addr / 2 ^ (128 - p.len128)

def mapped4 (a : Nat) : Nat := 0xffff * 2 ^ 32 + a

/-! ## Conditions -/

/-- One match set as a condition (`κ` of `RuleScan`). -/
inductive Atom where
  | dom (key : DKey) (pats : List String)   -- one `qname(key: …)` group = one domain set
  | qtype (v : Nat)
  | ipset (ps : List Pfx)                    -- one `ip(…)` group = one trie
  | upstream (v : Nat)                       -- `upstream(x)`: the id of x in the RESPONSE id space
  | always                                   -- `MatchType_Fallback`
deriving DecidableEq, Repr, Inhabited

/-- What a matcher sees: the question name as received, the query type, the answer addresses
(IPv4 in mapped form), the index of the answering upstream in the REQUEST id space
(`0xFD` = as-is), and the regex oracle. -/
structure Env where
  name : List Char
  qtype : Nat
  ips : List Nat
  «from» : Nat
  rx : List String
deriving Repr, Inhabited

/-- Documented meaning of one condition. `qName == ""` makes `RequestMatcher.Match` skip the
domain matcher (nil bitmap): no domain set matches. -/
def evAtom (env : Env) : Atom → Bool
  | .dom key pats => env.name != [] && domSetMatch env.rx key pats (normName env.name)
  | .qtype v => env.qtype == v
  | .ipset ps => env.ips.any fun a => ps.any fun p => pfxContains p a
  | .upstream v => env.«from» == v
  | .always => true

/-! ## Source rules (`config_parser.RoutingRule` after value parsing) -/

/-- first-appearance key order of `groupParamValuesByKey`. -/
def keyOrder {κ α : Type} [BEq κ] : List (κ × α) → List κ → List κ
  | [], acc => acc
  | p :: ps, acc => keyOrder ps (if acc.contains p.1 then acc else acc ++ [p.1])

/-- `groupParamValuesByKey`: values grouped by key, groups in first-appearance order. -/
def groupByKey {κ α : Type} [BEq κ] (ps : List (κ × α)) : List (κ × List α) :=
  (keyOrder ps []).map fun k => (k, (ps.filter fun p => p.1 == k).map Prod.snd)

/-- One `f(...)` call of a rule.  `internal` stands for `sub(...)`, `node(...)`, `subnode(...)`. -/
inductive Func where
  | qname (neg : Bool) (params : List (DKey × String))
  | qtype (neg : Bool) (params : List (String × Nat))     -- the key is ignored by `TypeParserFactory`
  | ip (neg : Bool) (params : List (String × Pfx))        -- the key is ignored by `IpParserFactory`
  | upstream (neg : Bool) (vals : List Nat)               -- only the empty key is accepted
  | internal
deriving Repr, Inhabited

def Func.neg : Func → Bool
  | .qname n _ | .qtype n _ | .ip n _ | .upstream n _ => n
  | .internal => false

/-- The match sets one call lowers to (alternatives: any of them makes the call true). -/
def Func.alts : Func → List Atom
  | .qname _ ps => (groupByKey ps).map fun g => Atom.dom g.1 g.2
  | .qtype _ ps => (groupByKey ps).flatMap fun g => g.2.map Atom.qtype
  | .ip _ ps => (groupByKey ps).map fun g => Atom.ipset g.2
  | .upstream _ vs => vs.map Atom.upstream
  | .internal => []

/-- Documented meaning of a call, before negation: some parameter matches. -/
def Func.anyParam (env : Env) : Func → Bool
  | .qname _ ps => ps.any fun p => env.name != [] && patMatch env.rx p.1 p.2 (normName env.name)
  | .qtype _ ps => ps.any fun p => env.qtype == p.2
  | .ip _ ps => env.ips.any fun a => ps.any fun p => pfxContains p.2 a
  | .upstream _ vs => vs.any fun v => env.«from» == v
  | .internal => false

def Func.holds (env : Env) (f : Func) : Bool := f.anyParam env != f.neg

structure SrcRule where
  funcs : List Func
  out : Nat            -- outbound byte: request: `0xFC` reject, `0xFD` asis, else upstream index;
                       -- response: `0xFC` accept, `0xFD` reject, else upstream index
deriving Repr, Inhabited

def SrcRule.holds (env : Env) (r : SrcRule) : Bool := r.funcs.all (Func.holds env)

def Func.isInternal : Func → Bool
  | .internal => true
  | _ => false

/-- `classifyRequestRule` on the rules the tie generates: a rule made of internal selectors is not
a DNS rule (`SplitRequestRules` keeps the relative order of the others). -/
def SrcRule.isInternal (r : SrcRule) : Bool := r.funcs.any Func.isInternal

def splitRequestRules (rs : List SrcRule) : List SrcRule := rs.filter fun r => !r.isInternal

/-- **The specification**: outbound of the first rule, top to bottom, all of whose calls hold;
the fallback otherwise. -/
def firstMatchSrc (env : Env) : List SrcRule → Nat → Nat
  | [], fb => fb
  | r :: rs, fb => if r.holds env then r.out else firstMatchSrc env rs fb

/-! ## Lowering (RulesBuilder.Apply + add*) -/

def toCond (f : Func) : Option (Cond Atom) :=
  match f.alts with
  | [] => none
  | a :: as => some ⟨f.neg, a, as⟩

def toConds : List Func → Option (List (Cond Atom))
  | [] => some []
  | f :: fs =>
    match toCond f, toConds fs with
    | some c, some cs => some (c :: cs)
    | _, _ => none

def toRule (r : SrcRule) : Option (Rule Atom Nat) :=
  match toConds r.funcs with
  | some (c :: cs) => some ⟨c, cs, .final r.out⟩
  | _ => none

def toRules : List SrcRule → Option (List (Rule Atom Nat))
  | [] => some []
  | r :: rs =>
    match toRule r, toRules rs with
    | some x, some xs => some (x :: xs)
    | _, _ => none

/-- `MatchType_*` -/
inductive MType where
  | domainSet | ipSet | qtype | upstream | fallback
deriving DecidableEq, Repr, Inhabited

/-- `requestMatchSet` / `responseMatchSet` (identical structs). -/
structure MatchSet where
  typ : MType
  value : Nat
  neg : Bool
  upstream : Nat
deriving DecidableEq, Repr, Inhabited

/-- `routing.DomainSet`: the patterns registered for match-set index `idx`. -/
structure DomEntry where
  idx : Nat
  key : DKey
  pats : List String
deriving DecidableEq, Repr, Inhabited

/-- A built matcher: `matches`, the domain sets handed to the domain matcher (`simulatedDomainSet`),
`ipSet`. -/
structure Prog where
  ms : List MatchSet
  doms : List DomEntry
  ips : List (List Pfx)
deriving DecidableEq, Repr, Inhabited

/-- the `Upstream` byte of a match set. -/
def tailByte : Tail Nat → Nat
  | .or => 0xFE
  | .and => 0xFF
  | .final o => o
  | .mustRules => 0     -- never produced for DNS rules

def isIpset : Atom → Bool
  | .ipset _ => true
  | _ => false

/-- `b.rules = append(b.rules, …)`: `Value` of an ip set is `len(b.ipSet)` at the time it is added. -/
def toMS (e : Entry Atom Nat) (n : Nat) : MatchSet :=
  match e.cond with
  | .dom _ _ => ⟨.domainSet, 0, e.neg, tailByte e.tail⟩
  | .qtype v => ⟨.qtype, v, e.neg, tailByte e.tail⟩
  | .ipset _ => ⟨.ipSet, n, e.neg, tailByte e.tail⟩
  | .upstream v => ⟨.upstream, v, e.neg, tailByte e.tail⟩
  | .always => ⟨.fallback, 0, e.neg, tailByte e.tail⟩

def linkMs : List (Entry Atom Nat) → Nat → List MatchSet
  | [], _ => []
  | e :: es, n => toMS e n :: linkMs es (if isIpset e.cond then n + 1 else n)

/-- `simulatedDomainSet`: `RuleIndex` is `len(b.rules)` at the time the set is added. -/
def linkDoms : List (Entry Atom Nat) → Nat → List DomEntry
  | [], _ => []
  | e :: es, i =>
    match e.cond with
    | .dom k ps => ⟨i, k, ps⟩ :: linkDoms es (i + 1)
    | _ => linkDoms es (i + 1)

def linkIps : List (Entry Atom Nat) → List (List Pfx)
  | [] => []
  | e :: es =>
    match e.cond with
    | .ipset ps => ps :: linkIps es
    | _ => linkIps es

def link (es : List (Entry Atom Nat)) : Prog := ⟨linkMs es 0, linkDoms es 0, linkIps es⟩

def fallbackEntry (fb : Nat) : Entry Atom Nat := ⟨.always, false, .final fb⟩

/-- all match sets of a rule list followed by the fallback. -/
def entriesOf (R : List (Rule Atom Nat)) (fb : Nat) : List (Entry Atom Nat) :=
  lower R ++ [fallbackEntry fb]

/-- `NewResponseMatcherBuilder(...)`+`Build()`; `none` = a builder error (empty call). -/
def compile (rs : List SrcRule) (fb : Nat) : Option Prog :=
  (toRules rs).map fun R => link (entriesOf R fb)

/-- the request builder only registers `qname` and `qtype` parsers ("unknown function" otherwise). -/
def Func.isReqFunc : Func → Bool
  | .qname _ _ | .qtype _ _ => true
  | _ => false

/-- `NewRequestMatcherBuilder`: internal-selector rules are split away first. -/
def compileRequest (rs : List SrcRule) (fb : Nat) : Option Prog :=
  if (splitRequestRules rs).all (fun r => r.funcs.all Func.isReqFunc) then compile (splitRequestRules rs) fb
  else none

/-! ## The matchers' loop -/

/-- `MatchDomainBitmap(name)` bit `i`: some registered set with that index matches. -/
def bitmapOf (rx : List String) (doms : List DomEntry) (name : List Char) (i : Nat) : Bool :=
  doms.any fun d => d.idx == i && domSetMatch rx d.key d.pats (normName name)

/-- the `switch match.Type` of the loop body. -/
def evalMS (P : Prog) (env : Env) (i : Nat) (m : MatchSet) : Bool :=
  match m.typ with
  | .domainSet => env.name != [] && bitmapOf env.rx P.doms env.name i
  | .ipSet => env.ips.any fun a => (P.ips.getD m.value []).any fun p => pfxContains p a
  | .qtype => env.qtype == m.value
  | .upstream => env.«from» == m.value
  | .fallback => true

/-- `upstream & LogicalMask != LogicalMask` -/
def isFinalByte (u : Nat) : Bool := (u &&& 0xFE) != 0xFE

/-- `RequestMatcher.Match` / `ResponseMatcher.Match` loop, statement by statement. `none` = the
loop fell off the end (`no match set hit`). -/
def scanGo (ev : Nat → MatchSet → Bool) : List MatchSet → Nat → Bool → Bool → Option Nat
  | [], _, _, _ => none
  | m :: ms, i, good, bad =>
    let good1 := if bad || good then good else ev i m
    -- beforeNextLoop:
    let bad2 := if m.upstream != 0xFE then bad || (good1 == m.neg) else bad
    let good2 := if m.upstream != 0xFE then false else good1
    if isFinalByte m.upstream then
      if !bad2 then some m.upstream else scanGo ev ms (i + 1) good2 false
    else scanGo ev ms (i + 1) good2 bad2

inductive MatchRes where
  | hit (u : Nat)
  | noHit          -- "no match set hit"
  | emptyName      -- "qName cannot be empty" (response matcher only)
deriving DecidableEq, Repr, Inhabited

def requestMatch (P : Prog) (env : Env) : MatchRes :=
  match scanGo (evalMS P env) P.ms 0 false false with
  | some u => .hit u
  | none => .noHit

def responseMatch (P : Prog) (env : Env) : MatchRes :=
  if env.name == [] then .emptyName
  else match scanGo (evalMS P env) P.ms 0 false false with
    | some u => .hit u
    | none => .noHit

/-! ## dns.go: RequestSelect / ResponseSelect -/

inductive UpRef where
  | asis
  | up (k : Nat)
deriving DecidableEq, Repr, Inhabited

/-- `upstream2Index` (nil / unknown upstream ↦ `DnsRequestOutboundIndex_AsIs`). -/
def UpRef.index : UpRef → Nat
  | .asis => 0xFD
  | .up k => k

inductive Err where
  | notRequest        -- "DNS request expected but DNS response received"
  | routeFail         -- a matcher returned an error
  | badUpstream       -- "bad upstream index"
  | tooDeep           -- "too deep DNS lookup invoking"
  | forwardFail       -- the upstream did not answer
  | notResponse       -- "DNS response expected but DNS request received"
  | questionMismatch  -- "dns response does not answer the question asked" (fix: b94e062)
  | upstreamInit      -- `GetUpstream` failed ("failed to init dns upstream": the host does not resolve)
deriving DecidableEq, Repr, Inhabited

inductive ReqSel where
  | reject
  | to (u : UpRef)
  | err (e : Err)
deriving DecidableEq, Repr, Inhabited

structure Question where
  name : List Char
  qtype : Nat
  rx : List String     -- regex oracle for this name
  qclass : Nat := 1    -- IN
  /-- oracle: `netip.ParseAddr` accepts the name without its trailing dot (`1.2.3.4.`, `::1.`):
  `__updateDnsCacheDeadline` never stores an answer for such a name ("Bypass pure IP"). -/
  isIp : Bool := false
deriving Repr, Inhabited

/-- what the controller uses for a message without question section: name `""`, type 0 -/
def noQuestion : Question := { name := [], qtype := 0, rx := [] }

structure Cfg where
  nUp : Nat            -- `len(s.upstream)`
  req : Prog
  resp : Prog
  maxDepth : Nat := 3  -- `MaxDnsLookupDepth` (the harness prints the constant of the code under test)
  dead : List Nat := [] -- upstreams whose `GetUpstream` fails (host name that does not resolve)
deriving Repr, Inhabited

def reqEnv (q : Question) : Env := ⟨q.name, q.qtype, [], 0, q.rx⟩

def requestSelect (cfg : Cfg) (q : Question) : ReqSel :=
  match requestMatch cfg.req (reqEnv q) with
  | .hit u =>
    if u == 0xFC then .reject
    else if u == 0xFD then .to .asis
    else if u ≥ cfg.nUp then .err .badUpstream
    else if cfg.dead.contains u then .err .upstreamInit
    else .to (.up u)
  | _ => .err .routeFail

/-- `daedns.Router.selectUpstream` (dae's own look-ups of node / subscription hosts): the request
matcher on `CanonicalName(host)`; `asis` AND `reject` both mean "hand the look-up to the base
resolver" (`errPassthroughToBaseResolver`), an index is the configured upstream. -/
inductive DaeSel where
  | pass
  | up (k : Nat)
  | err
deriving DecidableEq, Repr, Inhabited

/-- `dns.CanonicalName`: lower case, exactly one dot appended when the name is not fully qualified. -/
def canonName (s : List Char) : List Char :=
  lowerStr (if s.getLast? == some '.' then s else s ++ ['.'])

def daednsSelect (cfg : Cfg) (host : List Char) (qtype : Nat) (rx : List String) : DaeSel :=
  match requestMatch cfg.req ⟨canonName host, qtype, [], 0, rx⟩ with
  | .hit u =>
    if u == 0xFD || u == 0xFC then .pass
    else if u ≥ cfg.nUp then .err
    else .up u
  | _ => .err

inductive Rec where
  | aNil                 -- an A record without address bytes: no address for routing
  | a (addr : Nat)       -- 32-bit
  | aaaa (addr : Nat)    -- 128-bit
  | other
deriving DecidableEq, Repr, Inhabited

def Rec.ip? : Rec → Option Nat
  | .aNil => none
  | .a x => some (mapped4 x)
  | .aaaa x => some x
  | .other => none

/-- An upstream's answer message. -/
structure Resp where
  isResponse : Bool
  q : Option Question
  recs : List Rec        -- ANSWER section
  rcodeOk : Bool
  ns : List Rec := []    -- AUTHORITY section
  extra : List Rec := [] -- ADDITIONAL section
  ttl0 : Bool := false   -- the first answer record has TTL 0: stored already expired, i.e. never served
deriving Repr, Inhabited

inductive RespSel where
  | accept
  | reject
  | next (k : Nat)
  | err (e : Err)
deriving DecidableEq, Repr, Inhabited

def respEnv (r : Resp) («from» : UpRef) : Env :=
  match r.q with
  | none => ⟨[], 0, [], «from».index, []⟩
  | some q => ⟨q.name, q.qtype, r.recs.filterMap Rec.ip?, «from».index, q.rx⟩

def responseSelect (cfg : Cfg) (r : Resp) («from» : UpRef) : RespSel :=
  if !r.isResponse then .err .notResponse
  else match responseMatch cfg.resp (respEnv r «from») with
    | .hit u =>
      if u == 0xFC then .accept
      else if u == 0xFD then .reject
      else if u ≥ cfg.nUp then .err .badUpstream
      else if cfg.dead.contains u then .err .upstreamInit
      else .next u
    | _ => .err .routeFail

/-! ## control/dns_control.go -/

/-- upstream behaviour: what the upstream asked at recursion depth `d` answers (`none` = failure). -/
abbrev Upstreams := Nat → UpRef → Option Resp

/-- `dnsResponseAnswersRequest` (fix b94e062): a request without question is not compared; otherwise the
response must carry a question with the same type, the same class and the same name up to case
(`strings.EqualFold`; ASCII here). -/
def answersQuestion (q? : Option Question) (r : Resp) : Bool :=
  match q? with
  | none => true
  | some q =>
    match r.q with
    | none => false
    | some rq => rq.qtype == q.qtype && rq.qclass == q.qclass && lowerStr rq.name == lowerStr q.name

/-- `dialSend`: returns the upstreams asked, in order, and the final message or the error.
`reject` empties the ANSWER section only. -/
def dialSend (cfg : Cfg) (q? : Option Question) (ans : Upstreams) (depth : Nat) (up : UpRef) :
    List UpRef × Except Err Resp :=
  if _h : depth ≥ cfg.maxDepth then ([], .error .tooDeep)
  else
    match ans depth up with
    | none => ([up], .error .forwardFail)
    | some r =>
      if !answersQuestion q? r then ([up], .error .questionMismatch)
      else
      match responseSelect cfg r up with
      | .err e => ([up], .error e)
      | .accept => ([up], .ok r)
      | .reject => ([up], .ok { r with recs := [] })
      | .next k =>
        let rest := dialSend cfg q? ans (depth + 1) (.up k)
        (up :: rest.1, rest.2)
termination_by cfg.maxDepth - depth
decreasing_by omega

inductive Scope where
  | asis (dst : Nat)
  | up (k : Nat)
deriving DecidableEq, Repr, Inhabited

/-- the name part of a cache key (`cacheKey`, fix 4e63a53): canonical name with every `|` spelled `\124`,
so that the separator `|` never occurs inside the question part of a key. -/
def cacheName (s : List Char) : List Char :=
  (canonName s).flatMap fun c => if c == '|' then ['\\', '1', '2', '4'] else [c]

structure CacheKey where
  name : List Char    -- canonical
  qtype : Nat
  scope : Scope
  cls : Nat := 1      -- question class; only class IN (1) answers are ever stored (fix 4150de7)
deriving DecidableEq, Repr, Inhabited

/-- cache content relevant here: the answer records stored under a response cache key
(all entries fresh; expiry is C08's subject). -/
abbrev Cache := List (CacheKey × List Rec)

def Cache.lookup (c : Cache) (k : CacheKey) : Option (List Rec) :=
  (c.find? fun e => e.1 == k).map Prod.snd

/-- decimal digits of a number (`strconv.Itoa` / `qtypeStrCache`) -/
def digitsFuel : Nat → Nat → List Char
  | 0, _ => []
  | f + 1, n => if n < 10 then [Char.ofNat (48 + n)] else digitsFuel f (n / 10) ++ [Char.ofNat (48 + n % 10)]

def natDigits (n : Nat) : List Char := digitsFuel (n + 1) n

/-- `questionCacheKey`: a question of a class other than IN gets `#<class>` appended. -/
def clsSuffix (c : Nat) : List Char := if c == 1 then [] else '#' :: natDigits c

/-- `dnsCacheBaseKey(responseCacheKey)`: the response cache key is `name ++ qtype ++ "|" ++ scope` and
the base key is everything before the FIRST `|`; since 4e63a53 the name part never contains one (`cacheName`). -/
def baseKeyOf (k : CacheKey) : List Char :=
  (k.name ++ (natDigits k.qtype ++ clsSuffix k.cls)).takeWhile (· != '|')

/-- `RemoveDnsRespCacheFamily(cacheKey(name, qtype))`: every entry whose base key is the given one. -/
def Cache.removeFamily (c : Cache) (name : List Char) (qtype : Nat) (cls : Nat := 1) : Cache :=
  c.filter fun e => baseKeyOf e.1 != name ++ (natDigits qtype ++ clsSuffix cls)

def Cache.store (c : Cache) (k : CacheKey) (v : List Rec) : Cache :=
  (k, v) :: c.filter fun e => !(e.1 == k)

inductive Reply where
  | answers (recs : List Rec) (rcodeOk : Bool)
  | rejected                 -- empty answer, rcode success
  | refused                  -- FORMERR, no answer: a query with more than one question (fix C07.fix1)
  | error (e : Err)
deriving DecidableEq, Repr, Inhabited

structure Outcome where
  trace : List UpRef         -- upstream queries sent for this client question, in order
  reply : Reply
  cache : Cache

def scopeOf (dst : Nat) : UpRef → Scope
  | .asis => .asis dst
  | .up k => .up k

/-- `NormalizeAndCacheDnsResp_` stores only healthy responses, `__updateDnsCacheDeadline` nothing
for a name that is an IP literal. -/
def Resp.cacheable (r : Resp) : Bool :=
  r.isResponse && r.rcodeOk && !(r.ttl0 && !r.recs.isEmpty) &&
    (match r.q with | some rq => !rq.isIp && rq.qclass == 1 | none => false)

/-- One client message through `HandleWithResponseWriter_`.  `q = none`: a message without
question (name `""`, type 0 on the same path); `isResp`: the client message has the response bit. -/
def handle (cfg : Cfg) (cache : Cache) (dst : Nat) (isResp : Bool) (q? : Option Question)
    (ans : Upstreams) : Outcome :=
  if isResp then ⟨[], .error .notRequest, cache⟩
  else
    let q := q?.getD noQuestion
    match requestSelect cfg q with
    | .err e => ⟨[], .error e, cache⟩
    | .reject => ⟨[], .rejected, cache.removeFamily (cacheName q.name) q.qtype q.qclass⟩
    | .to u =>
      let key : CacheKey := ⟨cacheName q.name, q.qtype, scopeOf dst u, q.qclass⟩
      match cache.lookup key with
      | some recs => ⟨[], .answers recs true, cache⟩
      | none =>
        match dialSend cfg q? ans 0 u with
        | (t, .error e) => ⟨t, .error e, cache⟩
        | (t, .ok r) =>
          ⟨t, .answers r.recs r.rcodeOk, if r.cacheable then cache.store key r.recs else cache⟩

/-- `HandleWithResponseWriter_` from its first line: a query (no response bit) whose question count is NOT
EXACTLY ONE (none — fix 222c712 — or more than one — fix 59279ab) is refused with FORMERR before anything is
routed, forwarded or cached (RFC 9619; routing, cache key, singleflight key and question check all look at
`Question[0]` only; without a question there is nothing the answer could be checked against).  `nq` = QDCOUNT, `q?` = the
first question. -/
def handleMsg (cfg : Cfg) (cache : Cache) (dst : Nat) (isResp : Bool) (nq : Nat) (q? : Option Question)
    (ans : Upstreams) : Outcome :=
  if !isResp && nq != 1 then ⟨[], .refused, cache⟩ else handle cfg cache dst isResp q? ans

/-! ### optimistic cache: a stale entry is served and refreshed in the background -/

structure OutcomeO where
  trace : List UpRef
  reply : Reply
  cache : Cache
  stale : List CacheKey      -- keys whose entry is expired but inside the stale window

/-- `handle` with `optimistic_cache` on.  A hit of a STALE entry is answered from the cache and
`backgroundRefresh` asks, through `dialSend` at depth 0, the upstream the request rules selected
(the trace lists those refresh queries); a healthy result replaces the entry, anything else leaves
the stale answer in place.  A message without question is never refreshed.  Reject is decided before
any cache is consulted, stale or not. -/
def handleOpt (cfg : Cfg) (cache : Cache) (stale : List CacheKey) (dst : Nat) (isResp : Bool)
    (q? : Option Question) (ans : Upstreams) : OutcomeO :=
  if isResp then ⟨[], .error .notRequest, cache, stale⟩
  else
    let q := q?.getD noQuestion
    match requestSelect cfg q with
    | .err e => ⟨[], .error e, cache, stale⟩
    | .reject => ⟨[], .rejected, cache.removeFamily (cacheName q.name) q.qtype q.qclass, stale⟩
    | .to u =>
      let key : CacheKey := ⟨cacheName q.name, q.qtype, scopeOf dst u, q.qclass⟩
      match cache.lookup key with
      | some recs =>
        if stale.contains key && q?.isSome then
          match dialSend cfg q? ans 0 u with
          | (t, .ok r) =>
            if r.cacheable then ⟨t, .answers recs true, cache.store key r.recs, stale.erase key⟩
            else ⟨t, .answers recs true, cache, stale⟩
          | (t, .error _) => ⟨t, .answers recs true, cache, stale⟩
        else ⟨[], .answers recs true, cache, stale⟩
      | none =>
        match dialSend cfg q? ans 0 u with
        | (t, .error e) => ⟨t, .error e, cache, stale⟩
        | (t, .ok r) =>
          ⟨t, .answers r.recs r.rcodeOk, if r.cacheable then cache.store key r.recs else cache, stale⟩

def handleMsgOpt (cfg : Cfg) (cache : Cache) (stale : List CacheKey) (dst : Nat) (isResp : Bool) (nq : Nat)
    (q? : Option Question) (ans : Upstreams) : OutcomeO :=
  if !isResp && nq != 1 then ⟨[], .refused, cache, stale⟩ else handleOpt cfg cache stale dst isResp q? ans

end DaeVerif.C07
