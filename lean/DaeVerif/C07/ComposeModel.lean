import DaeVerif.C07.Model
import DaeVerif.C11.Model
import DaeVerif.C12.Model
/-!
# C07 ∘ C11 ∘ C12 — DNS routing with the real domain matcher and the real CIDR trie (definitions)

`Model.lean` evaluates a `qname(...)` match set with `patMatch` (a definition of the documented
meaning on characters, regex by oracle) and an `ip(...)` match set with numeric containment.
Here the same compiled program (`compile`, `link`) is run the way the Go code runs it:

* `Build()` hands every entry of `simulatedDomainSet` to `AhocorasickSlimtrie.AddSet(RuleIndex,
  Domains, Key)` — `addCalls` — and builds the packed succinct tries (C11's bit-exact model);
* `Match` computes `MatchDomainBitmap(qName)` through those tries (`Built.matchIndices`) and tests bit
  `i` for the domain set at position `i`; an `ip(...)` set asks the CIDR trie (`C12.trieMatch`:
  `HasPrefix` over the `Prefix2bin128` strings).

Names are byte strings (`C11.Str`), regex patterns are numbered by `rxId` and the regex oracle is the
list of numbers Go's `regexp` matches.  Core-only (linked into `c07drv`).
-/
namespace DaeVerif.C07
open DaeVerif.RuleScan

def toKind : DKey → C11.Kind
  | .full => .full
  | .suffix => .suffix
  | .keyword => .keyword
  | .regex => .regex

/-- a pattern as `AddSet` receives it; `rxId` numbers the regex patterns (any numbering) -/
def toPat (rxId : String → Nat) (s : String) : C11.Pat := ⟨C11.strOf s, true, rxId s⟩

/-- `for _, domains := range b.simulatedDomainSet { m.domainMatcher.AddSet(domains.RuleIndex, domains.Domains, domains.Key) }` -/
def addCalls (rxId : String → Nat) (P : Prog) : List C11.AddCall :=
  P.doms.map fun d => ⟨d.idx, toKind d.key, d.pats.map (toPat rxId)⟩

/-- the pattern as `AddSet` stores it: full / suffix / keyword patterns are lower-cased (fix b65c54c),
regexes are compiled as written -/
def docPat (rxId : String → Nat) (k : DKey) (s : String) : C11.Pat :=
  match k with
  | .regex => toPat rxId s
  | _ => { toPat rxId s with s := C11.lower (C11.strOf s) }

def toPrefix (p : Pfx) : C12.Prefix := ⟨p.is4, p.addr, p.bits⟩

/-- what a matcher sees, names as bytes -/
structure EnvR where
  name : C11.Str
  qtype : Nat
  ips : List Nat
  «from» : Nat
  rxHits : List Nat
deriving Repr, Inhabited

/-- the `switch match.Type` of the loop body with the real bitmap (`idxs` = indices of the set bits)
and the real CIDR tries. -/
def evalMSReal (P : Prog) (idxs : List Nat) (env : EnvR) (i : Nat) (m : MatchSet) : Bool :=
  match m.typ with
  | .domainSet => idxs.contains i
  | .ipSet => env.ips.any fun a => C12.trieMatch ((P.ips.getD m.value []).map toPrefix) a
  | .qtype => env.qtype == m.value
  | .upstream => env.«from» == m.value
  | .fallback => true

inductive MatchResR where
  | hit (u : Nat)
  | noHit
  | emptyName
  | buildError     -- `domainMatcher.Build()` failed
  | panic          -- index out of range inside `HasPrefix`
deriving DecidableEq, Repr, Inhabited

def scanReal (P : Prog) (idxs : List Nat) (env : EnvR) : MatchResR :=
  match scanGo (evalMSReal P idxs env) P.ms 0 false false with
  | some u => .hit u
  | none => .noHit

/-- `RequestMatcher.Match` against an already built domain matcher: `qName == ""` leaves the bitmap
nil (no bit set). -/
def requestMatchBuilt (b : C11.Built) (P : Prog) (env : EnvR) : MatchResR :=
  if env.name == [] then scanReal P [] env
  else match b.matchIndices env.name env.rxHits with
    | none => .panic
    | some idxs => scanReal P idxs env

def responseMatchBuilt (b : C11.Built) (P : Prog) (env : EnvR) : MatchResR :=
  if env.name == [] then .emptyName
  else match b.matchIndices env.name env.rxHits with
    | none => .panic
    | some idxs => scanReal P idxs env

/-- `Build()` + `Match` (`n` = the domain matcher's table size, `MaxMatchSetLen` in production). -/
def requestMatchReal (n : Nat) (rxId : String → Nat) (P : Prog) (env : EnvR) : MatchResR :=
  match (C11.Matcher.replay n (addCalls rxId P)).build with
  | .error _ => .buildError
  | .ok b => requestMatchBuilt b P env

def responseMatchReal (n : Nat) (rxId : String → Nat) (P : Prog) (env : EnvR) : MatchResR :=
  match (C11.Matcher.replay n (addCalls rxId P)).build with
  | .error _ => .buildError
  | .ok b => responseMatchBuilt b P env

/-! ## the specification with the documented pattern kinds (no oracle for full / suffix / keyword) -/

/-- one `qname` parameter: the name is not empty and the (lower-cased) pattern is valid for its kind and
matches the normalised name according to its kind (C11's `patMatches` / `patValid`). -/
def paramMatchesDoc (rxId : String → Nat) (env : EnvR) (k : DKey) (s : String) : Bool :=
  env.name != [] &&
    (C11.patMatches (toKind k) (docPat rxId k s) (C11.normName env.name) env.rxHits &&
      C11.patValid (toKind k) (docPat rxId k s))

def Func.anyParamDoc (rxId : String → Nat) (env : EnvR) : Func → Bool
  | .qname _ ps => ps.any fun p => paramMatchesDoc rxId env p.1 p.2
  | .qtype _ ps => ps.any fun p => env.qtype == p.2
  | .ip _ ps => env.ips.any fun a => ps.any fun p => pfxContains p.2 a
  | .upstream _ vs => vs.any fun v => env.«from» == v
  | .internal => false

def Func.holdsDoc (rxId : String → Nat) (env : EnvR) (f : Func) : Bool := f.anyParamDoc rxId env != f.neg

def SrcRule.holdsDoc (rxId : String → Nat) (env : EnvR) (r : SrcRule) : Bool :=
  r.funcs.all (Func.holdsDoc rxId env)

/-- outbound of the first rule all of whose calls hold, else the fallback -/
def firstMatchDoc (rxId : String → Nat) (env : EnvR) : List SrcRule → Nat → Nat
  | [], fb => fb
  | r :: rs, fb => if r.holdsDoc rxId env then r.out else firstMatchDoc rxId env rs fb

/-- the meaning of one match set under the documented kinds -/
def evAtomDoc (rxId : String → Nat) (env : EnvR) : Atom → Bool
  | .dom key pats => pats.any fun s => paramMatchesDoc rxId env key s
  | .qtype v => env.qtype == v
  | .ipset ps => env.ips.any fun a => ps.any fun p => pfxContains p a
  | .upstream v => env.«from» == v
  | .always => true

/-- what `netip` guarantees of the prefixes of the program's ip sets -/
def Prog.ipsWF (P : Prog) : Bool :=
  P.ips.all fun ps => ps.all fun p => decide (p.addr < 2 ^ 128) && (if p.is4 then decide (p.bits ≤ 32) else decide (p.bits ≤ 128))

end DaeVerif.C07
