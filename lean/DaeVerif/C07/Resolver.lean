import DaeVerif.C07.Model
/-!
# C07 — lazy initialisation of DNS upstreams as a transition system

Mirrors, statement by statement (code as it is):

* `component/dns/upstream.go` `UpstreamResolver.GetUpstream`
  (`state.Load()` fast path → `newUpstreamFunc` → `FinishInitCallback` → `state.Store`; every failure
  stores `&errorSentinel`, which the next caller treats like "not initialised": retry);
* `component/dns/dns.go` `New`: the `FinishInitCallback` of resolver `i`
  (`opt.UpstreamReadyCallback(upstream)` — in production `ControlPlane.dnsUpstreamReadyCallback`, which BLOCKS
  until the control plane is ready — and only then `s.upstream2Index.Store(upstream, i)`);
* `Dns.ResponseSelect`: `fromValue, ok := s.upstream2Index.Load(fromUpstream)`, not found ⇒ as-is.

Any number of callers run `GetUpstream` concurrently (the code takes no lock: "multiple goroutines may reach here
concurrently"), each statement is one atomic step, the scheduler is arbitrary.  The two blocking operations
(`newUpstreamFunc` = bootstrap resolution of the upstream's host, `UpstreamReadyCallback`) are steps whose
outcome (`ok`) is chosen by the environment; a caller may stay inside them for as long as the scheduler likes.

Core-only (linked into `c07drv`).
-/
namespace DaeVerif.C07.Res
open DaeVerif.C07

/-- the atomic `state` pointer of one `UpstreamResolver`. -/
inductive Pub where
  | unset                 -- nil: never initialised
  | failed                -- `&errorSentinel`: the last initialisation that finished failed; retry
  | ok (id : Nat)         -- `&upstreamState{upstream}`: the `*Upstream` object `id`
deriving DecidableEq, Repr, Inhabited

/-- where a caller is. -/
inductive PC where
  | idle                  -- not inside `GetUpstream` and has not obtained anything yet
  | start                 -- `GetUpstream` entered, before `u.state.Load()`
  | build                 -- slow path: inside `newUpstreamFunc` (may block, may fail)
  | callback (id : Nat)   -- the object `id` exists; inside `opt.UpstreamReadyCallback` (may block, may fail)
  | register (id : Nat)   -- the ready callback returned nil; before `s.upstream2Index.Store(upstream, i)`
  | publish (id : Nat)    -- `FinishInitCallback` returned nil; before `u.state.Store(newState)`
  | markFailed            -- before `u.state.Store(&errorSentinel)`
  | done (r : Option Nat) -- returned `(upstream id, nil)` / `(nil, err)`
deriving DecidableEq, Repr, Inhabited

/-- the state of one `Dns` object with its callers. -/
structure Sys where
  pub : Nat → Pub          -- per resolver index `k`: `s.upstream[k].state`
  reg : Nat → Option Nat   -- `s.upstream2Index` restricted to non-nil upstream objects
  next : Nat               -- objects allocated so far (a fresh `&Upstream{}` differs from every earlier one)
  pc : Nat → PC            -- per caller
  tgt : Nat → Nat          -- per caller: the resolver index of its current / last `GetUpstream` call

def upd {α : Type} (f : Nat → α) (i : Nat) (v : α) : Nat → α := fun j => if j = i then v else f j

inductive Act where
  | call (t k : Nat)            -- caller `t` enters `s.upstream[k].GetUpstream(ctx)` (only when it is not inside a call)
  | step (t : Nat) (ok : Bool)  -- caller `t` executes its next statement; `ok` = outcome of the blocking
                                -- operation it is in (`build`, `callback`), ignored elsewhere
deriving DecidableEq, Repr, Inhabited

def init : Sys := ⟨fun _ => .unset, fun _ => none, 0, fun _ => .idle, fun _ => 0⟩

/-- one atomic step. -/
def Sys.act (s : Sys) : Act → Sys
  | .call t k =>
    match s.pc t with
    | .idle | .done _ => { s with pc := upd s.pc t .start, tgt := upd s.tgt t k }
    | _ => s
  | .step t ok =>
    let k := s.tgt t
    match s.pc t with
    | .start =>
      -- `state := u.state.Load(); if state != nil && state != &errorSentinel { return state.upstream, state.err }`
      match s.pub k with
      | .ok id => { s with pc := upd s.pc t (.done (some id)) }
      | _ => { s with pc := upd s.pc t .build }
    | .build =>
      -- `upstream, err := newUpstreamFunc(...)`
      if ok then { s with pc := upd s.pc t (.callback s.next), next := s.next + 1 }
      else { s with pc := upd s.pc t .markFailed }
    | .callback id =>
      -- `if err = opt.UpstreamReadyCallback(upstream); err != nil { return err }`
      if ok then { s with pc := upd s.pc t (.register id) } else { s with pc := upd s.pc t .markFailed }
    | .register id =>
      -- `s.upstream2Index.Store(upstream, i); return nil`
      { s with reg := upd s.reg id (some k), pc := upd s.pc t (.publish id) }
    | .publish id =>
      -- `u.state.Store(&upstreamState{upstream: upstream}); return upstream, nil`
      { s with pub := upd s.pub k (.ok id), pc := upd s.pc t (.done (some id)) }
    | .markFailed =>
      -- `u.state.Store(&errorSentinel); return nil, err`
      { s with pub := upd s.pub k .failed, pc := upd s.pc t (.done none) }
    | .idle | .done _ => s

def run (s : Sys) (acts : List Act) : Sys := acts.foldl Sys.act s

/-- `ResponseSelect`: `s.upstream2Index.Load(fromUpstream)`; `nil` is stored as as-is by `New`, an object that
is not in the map reads as as-is too. -/
def Sys.fromOf (s : Sys) : Option Nat → UpRef
  | none => .asis
  | some id =>
    match s.reg id with
    | some k => .up k
    | none => .asis

/-! ## One client question on top of it (what `control.dialSend` does around the two selects)

`RequestSelect` (match, then `GetUpstream` of the selected resolver) and, with the upstream obtained,
`ResponseSelect` on that upstream's answer (match with `from` read from `upstream2Index`, then `GetUpstream` of
the re-ask upstream).  Used by the driver to follow the schedules the harness forces on the real code. -/

structure AskRes where
  req : ReqSel                      -- what `RequestSelect` returned
  from0 : Option UpRef := none      -- what `upstream2Index` says of the upstream `RequestSelect` handed out
  resp : Option RespSel := none     -- what `ResponseSelect` returned for that upstream's answer
  from1 : Option UpRef := none      -- for a re-ask: what `upstream2Index` says of the re-ask upstream handed out
deriving Repr, Inhabited

inductive Stage where
  | inReq (k : Nat)                             -- inside `RequestSelect` → `GetUpstream` of resolver `k`
  | inResp (req : ReqSel) (from0 : UpRef) (k1 : Nat) -- inside `ResponseSelect` → `GetUpstream` of resolver `k1`
  | fin (r : AskRes)
deriving Repr, Inhabited

structure AskT where
  q : Question                      -- the client's question
  answer : Resp                     -- the message the first upstream answers with
  stage : Stage
deriving Repr, Inhabited

/-- the caller's statements up to the next blocking operation or its return (at most 4). -/
def Sys.runToPark (s : Sys) (t : Nat) : Nat → Sys
  | 0 => s
  | f + 1 =>
    match s.pc t with
    | .build | .callback _ | .idle | .done _ => s
    | _ => (s.act (.step t true)).runToPark t f

def parked (s : Sys) (t : Nat) : Bool :=
  match s.pc t with
  | .build | .callback _ => true
  | _ => false

/-- the routing decisions themselves are those of `Model.lean`; `GetUpstream` is the transition system here, so
no upstream is "dead" a priori. -/
def live (cfg : Cfg) : Cfg := { cfg with dead := [] }

/-- after the caller's `GetUpstream` has returned: go on with the question until the next blocking operation. -/
def settle (cfg : Cfg) (s : Sys) (t : Nat) (a : AskT) : Nat → Sys × AskT
  | 0 => (s, a)
  | f + 1 =>
    match s.pc t with
    | .done r =>
      match a.stage with
      | .inReq k =>
        match r with
        | none => (s, { a with stage := .fin { req := .err .upstreamInit } })
        | some id =>
          let from0 := s.fromOf (some id)
          match responseSelect (live cfg) a.answer from0 with
          | .next k1 =>
            let s1 := (s.act (.call t k1)).runToPark t 8
            settle cfg s1 t { a with stage := .inResp (.to (.up k)) from0 k1 } f
          | d => (s, { a with stage := .fin { req := .to (.up k), from0 := some from0, resp := some d } })
      | .inResp rq from0 k1 =>
        match r with
        | none => (s, { a with stage := .fin { req := rq, from0 := some from0, resp := some (.err .upstreamInit) } })
        | some id =>
          (s, { a with stage := .fin { req := rq, from0 := some from0, resp := some (.next k1),
                                       from1 := some (s.fromOf (some id)) } })
      | .fin _ => (s, a)
    | _ => (s, a)

/-- a client question starts: `RequestSelect(name, qtype)`. -/
def askStart (cfg : Cfg) (s : Sys) (t : Nat) (q : Question) (answer : Resp) : Sys × AskT :=
  match requestSelect (live cfg) q with
  | .to (.up k) =>
    let s1 := (s.act (.call t k)).runToPark t 8
    settle cfg s1 t ⟨q, answer, .inReq k⟩ 4
  | .to .asis =>
    -- nil upstream: `ResponseSelect(msg, nil)`
    match responseSelect (live cfg) answer .asis with
    | .next k1 =>
      let s1 := (s.act (.call t k1)).runToPark t 8
      settle cfg s1 t ⟨q, answer, .inResp (.to .asis) .asis k1⟩ 4
    | d => (s, ⟨q, answer, .fin { req := .to .asis, from0 := some .asis, resp := some d }⟩)
  | r => (s, ⟨q, answer, .fin { req := r }⟩)

/-- the blocking operation caller `t` is in ends with outcome `ok`. -/
def askRelease (cfg : Cfg) (s : Sys) (t : Nat) (a : AskT) (ok : Bool) : Sys × AskT :=
  if parked s t then settle cfg ((s.act (.step t ok)).runToPark t 8) t a 4 else (s, a)

/-! ## All client questions of one `Dns` object (what the driver executes) -/

structure World where
  s : Sys
  asks : Nat → Option AskT          -- per caller id: its question, once started

inductive Move where
  | start (t : Nat) (q : Question) (answer : Resp)   -- a new client question (caller ids are fresh)
  | release (t : Nat) (ok : Bool)                     -- the blocking operation caller `t` is in ends with `ok`

def World.init : World := ⟨Res.init, fun _ => none⟩

def World.move (cfg : Cfg) (w : World) : Move → World
  | .start t q ans =>
    match w.asks t with
    | some _ => w
    | none => ⟨(askStart cfg w.s t q ans).1, upd w.asks t (some (askStart cfg w.s t q ans).2)⟩
  | .release t ok =>
    match w.asks t with
    | some a => ⟨(askRelease cfg w.s t a ok).1, upd w.asks t (some (askRelease cfg w.s t a ok).2)⟩
    | none => w

end DaeVerif.C07.Res
