/-! SNAPSHOT of the output of /verif/translators/c07skel for control/dns_control*.go — regenerate with
`go run main.go /repo/control`; checks/c07.py compares the tree under test with this file on every run. -/
namespace DaeVerif.C07.Gen

def controllerFacts : List String := [
  "HandleWithResponseWriter_: request routing, then the reject test, then the first cache lookup",
  "HandleWithResponseWriter_: a rejected route is answered empty before any cache lookup",
  "handleWithResponseWriter_: request routing, then the reject test, then the first cache lookup",
  "handleWithResponseWriter_: a rejected route is answered empty before any cache lookup",
  "HandleWithResponseWriter_: resolution is coalesced under the response cache key (scope included)",
  "HandleWithResponseWriter_: cache lookup before the coalesced resolution",
  "handleWithResponseWriter_: after a cache miss, dialSend at depth 0 with the routed upstream under the request's response cache key",
  "dialSend: refuses when the depth has reached MaxDnsLookupDepth (>=)",
  "dialSend: depth guard, forward, question check, response routing — in this order",
  "dialSend: a response routed to reject loses its answer section",
  "dialSend: a re-ask goes one level deeper, to the upstream the response routing selected, under the same cache key",
  "dialSend: every store is under the cache key of the original request",
  "dialSend: nothing is stored before the response is routed",
  "backgroundRefresh: nothing for a rejected route; else dialSend at depth 0 with the upstream routed for the stale entry, under that entry's key"]

end DaeVerif.C07.Gen
