import DaeVerif.C07.Model
/-! # C07 — helper lemmas (see Props.lean for the property theorems) -/
namespace DaeVerif.C07
open DaeVerif.RuleScan

/-! ## linking: indices assigned by the builder point at the right tables -/

theorem linkDoms_append (l1 l2 : List (Entry Atom Nat)) (i : Nat) :
    linkDoms (l1 ++ l2) i = linkDoms l1 i ++ linkDoms l2 (i + l1.length) := by
  induction l1 generalizing i with
  | nil => simp [linkDoms]
  | cons e es ih =>
    simp only [List.cons_append, linkDoms, List.length_cons]
    have : i + 1 + es.length = i + (es.length + 1) := by omega
    cases e.cond <;> simp [ih, this]

theorem linkDoms_idx (l : List (Entry Atom Nat)) (i : Nat) :
    ∀ d ∈ linkDoms l i, i ≤ d.idx ∧ d.idx < i + l.length := by
  induction l generalizing i with
  | nil => simp [linkDoms]
  | cons e es ih =>
    intro d hd
    simp only [linkDoms] at hd
    cases hc : e.cond <;> simp only [hc, List.mem_cons] at hd
    case dom k ps =>
      rcases hd with rfl | hd
      · simp
      · have := ih (i + 1) d hd; simp; omega
    all_goals (have := ih (i + 1) d hd; simp; omega)

theorem linkIps_append (l1 l2 : List (Entry Atom Nat)) :
    linkIps (l1 ++ l2) = linkIps l1 ++ linkIps l2 := by
  induction l1 with
  | nil => simp [linkIps]
  | cons e es ih =>
    simp only [List.cons_append, linkIps]
    cases e.cond <;> simp [ih]

theorem linkIps_snoc_length (pre : List (Entry Atom Nat)) (e : Entry Atom Nat) :
    (linkIps (pre ++ [e])).length = if isIpset e.cond then (linkIps pre).length + 1 else (linkIps pre).length := by
  rw [linkIps_append]
  cases h : e.cond <;> simp [linkIps, isIpset, h]

/-- the bitmap bit at the position of an entry is the match of that entry's own domain set -/
theorem bitmapOf_at (rx : List String) (name : List Char) (pre suf : List (Entry Atom Nat))
    (e : Entry Atom Nat) (k : DKey) (ps : List String) (he : e.cond = .dom k ps) :
    bitmapOf rx (linkDoms (pre ++ e :: suf) 0) name pre.length = domSetMatch rx k ps (normName name) := by
  rw [linkDoms_append]
  simp only [bitmapOf, linkDoms, he, List.any_append, List.any_cons, Nat.zero_add, beq_self_eq_true,
    Bool.true_and]
  have h1 : (linkDoms pre 0).any (fun d => d.idx == pre.length && domSetMatch rx d.key d.pats (normName name)) = false := by
    rw [List.any_eq_false]
    intro d hd
    have := linkDoms_idx pre 0 d hd
    have : (d.idx == pre.length) = false := by simp; omega
    simp [this]
  have h2 : (linkDoms suf (pre.length + 1)).any (fun d => d.idx == pre.length && domSetMatch rx d.key d.pats (normName name)) = false := by
    rw [List.any_eq_false]
    intro d hd
    have := linkDoms_idx suf (pre.length + 1) d hd
    have : (d.idx == pre.length) = false := by simp; omega
    simp [this]
  rw [h1, h2]; simp

theorem evalMS_at (env : Env) (pre suf : List (Entry Atom Nat)) (e : Entry Atom Nat) :
    evalMS (link (pre ++ e :: suf)) env pre.length (toMS e (linkIps pre).length) = evAtom env e.cond := by
  cases he : e.cond with
  | dom k ps =>
    simp only [evalMS, toMS, he, link, evAtom]
    rw [bitmapOf_at env.rx env.name pre suf e k ps he]
  | qtype v => simp [evalMS, toMS, he, evAtom]
  | ipset ps =>
    simp only [evalMS, toMS, he, link, evAtom]
    rw [linkIps_append]
    simp [linkIps, he]
  | upstream v => simp [evalMS, toMS, he, evAtom]
  | always => simp [evalMS, toMS, he, evAtom]

/-! ## the Go loop is `RuleScan.scanAux` -/

/-- what the builder guarantees of every match set's outbound byte -/
def TailOK (e : Entry Atom Nat) : Prop :=
  match e.tail with
  | .or | .and => True
  | .final o => o < 0xFE
  | .mustRules => False

set_option maxRecDepth 100000 in
theorem isFinalByte_lt : ∀ o, o < 0xFE → isFinalByte o = true ∧ (o != 0xFE) = true := by
  decide

theorem toMS_upstream (e : Entry Atom Nat) (n : Nat) : (toMS e n).upstream = tailByte e.tail := by
  unfold toMS; cases e.cond <;> rfl

theorem toMS_neg (e : Entry Atom Nat) (n : Nat) : (toMS e n).neg = e.neg := by
  unfold toMS; cases e.cond <;> rfl

theorem scanGo_link (env : Env) (all : List (Entry Atom Nat)) :
    ∀ (suf pre : List (Entry Atom Nat)), all = pre ++ suf → (∀ e ∈ suf, TailOK e) →
    ∀ g b, scanGo (evalMS (link all) env) (linkMs suf (linkIps pre).length) pre.length g b
      = (scanAux (evAtom env) suf g b false).map Prod.fst := by
  intro suf
  induction suf with
  | nil => intro pre _ _ g b; simp [linkMs, scanGo, scanAux]
  | cons e es ih =>
    intro pre hall hok g b
    have hev : evalMS (link all) env pre.length (toMS e (linkIps pre).length) = evAtom env e.cond := by
      rw [hall]; exact evalMS_at env pre es e
    have hall' : all = (pre ++ [e]) ++ es := by simp [hall]
    have ih' := ih (pre ++ [e]) hall' (fun x hx => hok x (List.mem_cons_of_mem _ hx))
    rw [linkIps_snoc_length] at ih'
    simp only [List.length_append, List.length_cons, List.length_nil, Nat.zero_add] at ih'
    have hoke := hok e (List.mem_cons_self)
    rw [scanAux_cons]
    simp only [linkMs, scanGo, toMS_upstream, toMS_neg, hev]
    unfold TailOK at hoke
    cases ht : e.tail with
    | or =>
      have h0 : isFinalByte 0xFE = false := by decide
      simp only [tailByte, tailStep, h0, bne_self_eq_false, Bool.false_eq_true, if_false]
      exact ih' _ _
    | and =>
      have h1 : isFinalByte 0xFF = false := by decide
      have h2 : ((0xFF : Nat) != 0xFE) = true := by decide
      simp only [tailByte, tailStep, h1, h2, if_true, Bool.false_eq_true, if_false]
      exact ih' _ _
    | final o =>
      rw [ht] at hoke
      have ⟨h1, h2⟩ := isFinalByte_lt o hoke
      simp only [tailByte, tailStep, h1, h2, if_true]
      cases hc : (b || ((if (b || g) = true then g else evAtom env e.cond) == e.neg))
      · simp
      · simp only [Bool.not_true, Bool.false_eq_true, if_false, if_true]
        exact ih' _ _
    | mustRules => rw [ht] at hoke; exact absurd hoke (by simp)

/-! ## every byte the lowering writes is `<OR>`, `<AND>` or a rule's outbound -/

def TailOKT : Tail Nat → Prop
  | .or | .and => True
  | .final o => o < 0xFE
  | .mustRules => False

theorem TailOK_iff (e : Entry Atom Nat) : TailOK e ↔ TailOKT e.tail := by
  unfold TailOK TailOKT; cases e.tail <;> simp

theorem lowerAlts_ok (neg : Bool) (last : Tail Nat) (hl : TailOKT last) (ks : List Atom) :
    ∀ k, ∀ e ∈ lowerAlts neg last k ks, TailOK e := by
  induction ks with
  | nil => intro k e he; simp [lowerAlts] at he; subst he; exact (TailOK_iff _).mpr hl
  | cons k' ks ih =>
    intro k e he
    simp only [lowerAlts, List.mem_cons] at he
    rcases he with rfl | he
    · exact (TailOK_iff _).mpr trivial
    · exact ih k' e he

theorem lowerConds_ok (out : Tail Nat) (ho : TailOKT out) (cs : List (Cond Atom)) :
    ∀ c, ∀ e ∈ lowerConds out c cs, TailOK e := by
  induction cs with
  | nil => intro c e he; exact lowerAlts_ok _ _ ho _ _ e he
  | cons c' cs ih =>
    intro c e he
    simp only [lowerConds, List.mem_append] at he
    rcases he with he | he
    · exact lowerAlts_ok _ .and (show TailOKT .and from trivial) _ _ e he
    · exact ih c' e he

theorem lower_ok (R : List (Rule Atom Nat))
    (hR : ∀ r ∈ R, ∃ o, r.out = .final o ∧ o < 0xFE) : ∀ e ∈ lower R, TailOK e := by
  intro e he
  simp only [lower, List.mem_flatMap] at he
  obtain ⟨r, hr, he⟩ := he
  obtain ⟨o, ho, hlt⟩ := hR r hr
  exact lowerConds_ok _ (by rw [ho]; exact hlt) _ _ e he

theorem entriesOf_ok (R : List (Rule Atom Nat)) (fb : Nat)
    (hR : ∀ r ∈ R, ∃ o, r.out = .final o ∧ o < 0xFE) (hfb : fb < 0xFE) :
    ∀ e ∈ entriesOf R fb, TailOK e := by
  intro e he
  simp only [entriesOf, List.mem_append, List.mem_singleton] at he
  rcases he with he | rfl
  · exact lower_ok R hR e he
  · exact hfb

/-! ## `toRules`: shape and meaning -/

theorem toRule_out (r : SrcRule) (x : Rule Atom Nat) (h : toRule r = some x) : x.out = .final r.out := by
  unfold toRule at h
  split at h
  · cases h; rfl
  · cases h

theorem toRules_out : ∀ (rs : List SrcRule) (R : List (Rule Atom Nat)), toRules rs = some R →
    (∀ r ∈ rs, r.out < 0xFE) → ∀ x ∈ R, ∃ o, x.out = .final o ∧ o < 0xFE := by
  intro rs
  induction rs with
  | nil => intro R h _ x hx; simp [toRules] at h; subst h; cases hx
  | cons r rs ih =>
    intro R h hlt x hx
    simp only [toRules] at h
    cases h1 : toRule r with
    | none => simp [h1] at h
    | some y =>
      cases h2 : toRules rs with
      | none => simp [h1, h2] at h
      | some ys =>
        simp [h1, h2] at h; subst h
        rcases List.mem_cons.mp hx with rfl | hx
        · exact ⟨r.out, toRule_out r _ h1, hlt r (List.mem_cons_self)⟩
        · exact ih ys h2 (fun r' hr' => hlt r' (List.mem_cons_of_mem _ hr')) x hx

/-! ### grouping by key does not change "some parameter matches" -/

theorem keyOrder_acc_subset {κ α : Type} [BEq κ] [LawfulBEq κ] (ps : List (κ × α)) :
    ∀ (acc : List κ) (k : κ), k ∈ acc → k ∈ keyOrder ps acc := by
  induction ps with
  | nil => intro acc k h; exact h
  | cons p ps ih =>
    intro acc k h
    simp only [keyOrder]
    apply ih
    split
    · exact h
    · exact List.mem_append_left _ h

theorem mem_keyOrder {κ α : Type} [BEq κ] [LawfulBEq κ] (ps : List (κ × α)) :
    ∀ (acc : List κ) (p : κ × α), p ∈ ps → p.1 ∈ keyOrder ps acc := by
  induction ps with
  | nil => intro acc p h; cases h
  | cons q ps ih =>
    intro acc p h
    simp only [keyOrder]
    rcases List.mem_cons.mp h with rfl | h
    · apply keyOrder_acc_subset
      split
      · rename_i hc; simpa using hc
      · simp
    · exact ih _ p h

theorem groupByKey_any {κ α : Type} [BEq κ] [LawfulBEq κ] (ps : List (κ × α)) (f : κ → α → Bool) :
    (groupByKey ps).any (fun g => g.2.any (f g.1)) = ps.any (fun p => f p.1 p.2) := by
  rw [Bool.eq_iff_iff]
  simp only [groupByKey, List.any_eq_true]
  constructor
  · rintro ⟨g, hg, v, hv, hf⟩
    obtain ⟨k, _, rfl⟩ := List.mem_map.mp hg
    obtain ⟨p, hp, rfl⟩ := List.mem_map.mp hv
    have ⟨hp1, hp2⟩ := List.mem_filter.mp hp
    have : p.1 = k := by simpa using hp2
    subst this
    exact ⟨p, hp1, hf⟩
  · rintro ⟨p, hp, hf⟩
    refine ⟨(p.1, (ps.filter fun q => q.1 == p.1).map Prod.snd), ?_, p.2, ?_, hf⟩
    · exact List.mem_map.mpr ⟨p.1, mem_keyOrder ps [] p hp, rfl⟩
    · exact List.mem_map.mpr ⟨p, List.mem_filter.mpr ⟨hp, by simp⟩, rfl⟩

theorem any_and_const {α : Type} (b : Bool) (l : List α) (f : α → Bool) :
    (b && l.any f) = l.any (fun x => b && f x) := by
  induction l with
  | nil => simp
  | cons x xs ih => simp only [List.any_cons, ← ih]; cases b <;> simp

theorem any_comm {α β : Type} (l : List α) (m : List β) (f : α → β → Bool) :
    l.any (fun a => m.any (fun b => f a b)) = m.any (fun b => l.any (fun a => f a b)) := by
  rw [Bool.eq_iff_iff]
  simp only [List.any_eq_true]
  constructor
  · rintro ⟨a, ha, b, hb, h⟩; exact ⟨b, hb, a, ha, h⟩
  · rintro ⟨b, hb, a, ha, h⟩; exact ⟨a, ha, b, hb, h⟩

/-- the match sets a call lowers to mean "some parameter matches" -/
theorem alts_any (env : Env) (f : Func) : f.alts.any (evAtom env) = f.anyParam env := by
  cases f with
  | qname neg ps =>
    simp only [Func.alts, Func.anyParam, List.any_map, Function.comp_def, evAtom, domSetMatch]
    rw [← groupByKey_any ps (fun k v => env.name != [] && patMatch env.rx k v (normName env.name))]
    congr 1; funext g
    exact any_and_const _ _ _
  | qtype neg ps =>
    simp only [Func.alts, Func.anyParam, List.any_flatMap, List.any_map, Function.comp_def, evAtom]
    exact groupByKey_any ps (fun _ v => env.qtype == v)
  | ip neg ps =>
    simp only [Func.alts, Func.anyParam, List.any_map, Function.comp_def, evAtom]
    rw [any_comm]
    congr 1; funext a
    exact groupByKey_any ps (fun _ p => pfxContains p a)
  | upstream neg vs =>
    simp only [Func.alts, Func.anyParam, List.any_map, Function.comp_def, evAtom]
  | internal => simp [Func.alts, Func.anyParam]

theorem toCond_holds (env : Env) (f : Func) (c : Cond Atom) (h : toCond f = some c) :
    condHolds (evAtom env) c = f.holds env := by
  unfold toCond at h
  split at h
  · cases h
  · rename_i a as ha
    cases h
    simp only [condHolds, Cond.alts, Func.holds, ← alts_any, ha]

theorem toConds_holds (env : Env) : ∀ (fs : List Func) (cs : List (Cond Atom)), toConds fs = some cs →
    cs.all (condHolds (evAtom env)) = fs.all (Func.holds env) := by
  intro fs
  induction fs with
  | nil => intro cs h; simp [toConds] at h; subst h; rfl
  | cons f fs ih =>
    intro cs h
    simp only [toConds] at h
    cases h1 : toCond f with
    | none => simp [h1] at h
    | some c =>
      cases h2 : toConds fs with
      | none => simp [h1, h2] at h
      | some cs' =>
        simp [h1, h2] at h; subst h
        simp only [List.all_cons, toCond_holds env f c h1, ih cs' h2]

theorem toRule_holds (env : Env) (r : SrcRule) (x : Rule Atom Nat) (h : toRule r = some x) :
    ruleHolds (evAtom env) x = r.holds env := by
  unfold toRule at h
  split at h
  · rename_i c cs hc
    cases h
    simp only [ruleHolds, Rule.conds, SrcRule.holds]
    exact toConds_holds env r.funcs (c :: cs) hc
  · cases h

theorem firstMatch_toRules (env : Env) (fb : Nat) : ∀ (rs : List SrcRule) (R : List (Rule Atom Nat)),
    toRules rs = some R → firstMatch (evAtom env) R fb false = (firstMatchSrc env rs fb, false) := by
  intro rs
  induction rs with
  | nil => intro R h; simp [toRules] at h; subst h; rfl
  | cons r rs ih =>
    intro R h
    simp only [toRules] at h
    cases h1 : toRule r with
    | none => simp [h1] at h
    | some x =>
      cases h2 : toRules rs with
      | none => simp [h1, h2] at h
      | some xs =>
        simp [h1, h2] at h; subst h
        simp only [firstMatch, firstMatchSrc, toRule_holds env r x h1, toRule_out r x h1]
        split
        · rfl
        · exact ih xs h2

/-- **Refinement**: the loop over the compiled program returns the first matching rule's outbound. -/
theorem scanGo_compile (env : Env) (rs : List SrcRule) (fb : Nat) (P : Prog)
    (hc : compile rs fb = some P) (hout : ∀ r ∈ rs, r.out < 0xFE) (hfb : fb < 0xFE) :
    scanGo (evalMS P env) P.ms 0 false false = some (firstMatchSrc env rs fb) := by
  unfold compile at hc
  cases hR : toRules rs with
  | none => simp [hR] at hc
  | some R =>
    simp [hR] at hc; subst hc
    have hok := entriesOf_ok R fb (toRules_out rs R hR hout) hfb
    have h := scanGo_link env (entriesOf R fb) (entriesOf R fb) [] (by simp) hok false false
    simp only [linkIps, List.length_nil] at h
    show scanGo (evalMS (link (entriesOf R fb)) env) (linkMs (entriesOf R fb) 0) 0 false false = _
    rw [h]
    unfold entriesOf fallbackEntry
    rw [scan_lower (evAtom env) .always (by rfl) fb R false, firstMatch_toRules env fb rs R hR]
    rfl

/-! ## the builder accepts every rule list the parser can produce -/

def Func.nonEmpty : Func → Bool
  | .qname _ ps => !ps.isEmpty
  | .qtype _ ps => !ps.isEmpty
  | .ip _ ps => !ps.isEmpty
  | .upstream _ vs => !vs.isEmpty
  | .internal => false

theorem mem_groupByKey {κ α : Type} [BEq κ] [LawfulBEq κ] (ps : List (κ × α)) (p : κ × α) (hp : p ∈ ps) :
    ∃ g ∈ groupByKey ps, g.1 = p.1 ∧ p.2 ∈ g.2 := by
  refine ⟨(p.1, (ps.filter fun q => q.1 == p.1).map Prod.snd), ?_, rfl, ?_⟩
  · exact List.mem_map.mpr ⟨p.1, mem_keyOrder ps [] p hp, rfl⟩
  · exact List.mem_map.mpr ⟨p, List.mem_filter.mpr ⟨hp, by simp⟩, rfl⟩

theorem alts_ne_nil (f : Func) (h : f.nonEmpty = true) : f.alts ≠ [] := by
  cases f with
  | qname neg ps =>
    cases ps with
    | nil => simp [Func.nonEmpty] at h
    | cons p ps =>
      obtain ⟨g, hg, _, _⟩ := mem_groupByKey (p :: ps) p (List.mem_cons_self)
      intro hnil
      have : Atom.dom g.1 g.2 ∈ (Func.qname neg (p :: ps)).alts := List.mem_map.mpr ⟨g, hg, rfl⟩
      rw [hnil] at this; cases this
  | qtype neg ps =>
    cases ps with
    | nil => simp [Func.nonEmpty] at h
    | cons p ps =>
      obtain ⟨g, hg, _, hv⟩ := mem_groupByKey (p :: ps) p (List.mem_cons_self)
      intro hnil
      have : Atom.qtype p.2 ∈ (Func.qtype neg (p :: ps)).alts :=
        List.mem_flatMap.mpr ⟨g, hg, List.mem_map.mpr ⟨p.2, hv, rfl⟩⟩
      rw [hnil] at this; cases this
  | ip neg ps =>
    cases ps with
    | nil => simp [Func.nonEmpty] at h
    | cons p ps =>
      obtain ⟨g, hg, _, _⟩ := mem_groupByKey (p :: ps) p (List.mem_cons_self)
      intro hnil
      have : Atom.ipset g.2 ∈ (Func.ip neg (p :: ps)).alts := List.mem_map.mpr ⟨g, hg, rfl⟩
      rw [hnil] at this; cases this
  | upstream neg vs =>
    cases vs with
    | nil => simp [Func.nonEmpty] at h
    | cons v vs => simp [Func.alts]
  | internal => simp [Func.nonEmpty] at h

theorem toCond_isSome (f : Func) (h : f.nonEmpty = true) : (toCond f).isSome = true := by
  unfold toCond
  have := alts_ne_nil f h
  split
  · rename_i he; exact absurd he this
  · rfl

theorem toConds_isSome : ∀ fs : List Func, (∀ f ∈ fs, f.nonEmpty = true) →
    ∃ cs, toConds fs = some cs ∧ cs.length = fs.length := by
  intro fs
  induction fs with
  | nil => intro _; exact ⟨[], rfl, rfl⟩
  | cons f fs ih =>
    intro h
    obtain ⟨cs, hcs, hl⟩ := ih (fun g hg => h g (List.mem_cons_of_mem _ hg))
    have := toCond_isSome f (h f (List.mem_cons_self))
    cases hc : toCond f with
    | none => simp [hc] at this
    | some c => exact ⟨c :: cs, by simp [toConds, hc, hcs], by simp [hl]⟩

theorem toRules_isSome : ∀ rs : List SrcRule,
    (∀ r ∈ rs, r.funcs ≠ [] ∧ ∀ f ∈ r.funcs, f.nonEmpty = true) → (toRules rs).isSome = true := by
  intro rs
  induction rs with
  | nil => intro _; rfl
  | cons r rs ih =>
    intro h
    have hr := h r (List.mem_cons_self)
    obtain ⟨cs, hcs, hl⟩ := toConds_isSome r.funcs hr.2
    have ih' := ih (fun x hx => h x (List.mem_cons_of_mem _ hx))
    cases hx : toRules rs with
    | none => simp [hx] at ih'
    | some xs =>
      cases cs with
      | nil =>
        have : r.funcs = [] := by simpa using hl.symm
        exact absurd this hr.1
      | cons c cs => simp [toRules, toRule, hcs, hx]

/-! ## first-match characterisation -/

theorem firstMatchSrc_char (env : Env) (fb : Nat) : ∀ rs : List SrcRule,
    (∃ pre r post, rs = pre ++ r :: post ∧ (∀ x ∈ pre, x.holds env = false) ∧ r.holds env = true ∧
        firstMatchSrc env rs fb = r.out) ∨
    ((∀ x ∈ rs, x.holds env = false) ∧ firstMatchSrc env rs fb = fb) := by
  intro rs
  induction rs with
  | nil => right; simp [firstMatchSrc]
  | cons r rs ih =>
    cases hr : r.holds env with
    | true => left; exact ⟨[], r, rs, rfl, by simp, hr, by simp [firstMatchSrc, hr]⟩
    | false =>
      rcases ih with ⟨pre, x, post, rfl, hpre, hx, hres⟩ | ⟨hall, hres⟩
      · left
        refine ⟨r :: pre, x, post, rfl, ?_, hx, by simp [firstMatchSrc, hr, hres]⟩
        intro y hy
        rcases List.mem_cons.mp hy with rfl | hy
        · exact hr
        · exact hpre y hy
      · right
        refine ⟨?_, by simp [firstMatchSrc, hr, hres]⟩
        intro y hy
        rcases List.mem_cons.mp hy with rfl | hy
        · exact hr
        · exact hall y hy

/-! ## the cache operations -/

theorem takeWhile_append_all {α : Type} (p : α → Bool) (l1 l2 : List α) (h : ∀ c ∈ l1, p c = true) :
    (l1 ++ l2).takeWhile p = l1 ++ l2.takeWhile p := by
  induction l1 with
  | nil => rfl
  | cons c cs ih =>
    have hc := h c List.mem_cons_self
    simp only [List.cons_append, List.takeWhile_cons, hc, if_true]
    rw [ih (fun x hx => h x (List.mem_cons_of_mem _ hx))]

theorem takeWhile_all {α : Type} (p : α → Bool) (l : List α) (h : ∀ c ∈ l, p c = true) : l.takeWhile p = l := by
  have := takeWhile_append_all p l [] h
  simpa using this

theorem takeWhile_length_lt {α : Type} (p : α → Bool) (l1 l2 : List α) (h : ∃ c ∈ l1, p c = false) :
    ((l1 ++ l2).takeWhile p).length < l1.length := by
  induction l1 with
  | nil => obtain ⟨c, hc, _⟩ := h; cases hc
  | cons c cs ih =>
    simp only [List.cons_append, List.takeWhile_cons]
    cases hp : p c with
    | false => simp
    | true =>
      obtain ⟨x, hx, hpx⟩ := h
      rcases List.mem_cons.mp hx with rfl | hx
      · rw [hp] at hpx; cases hpx
      · have := ih ⟨x, hx, hpx⟩
        simp; omega

theorem digit_ne_bar : ∀ d, d < 10 → (Char.ofNat (48 + d) != '|') = true := by decide

theorem digitsFuel_no_bar : ∀ (f n : Nat), ∀ c ∈ digitsFuel f n, (c != '|') = true := by
  intro f
  induction f with
  | zero => intro n c hc; cases hc
  | succ f ih =>
    intro n c hc
    simp only [digitsFuel] at hc
    split at hc
    · rename_i hlt
      simp only [List.mem_singleton] at hc; subst hc; exact digit_ne_bar n hlt
    · simp only [List.mem_append, List.mem_singleton] at hc
      rcases hc with hc | rfl
      · exact ih _ c hc
      · exact digit_ne_bar _ (Nat.mod_lt _ (by decide))

theorem clsSuffix_no_bar (c : Nat) : ∀ x ∈ clsSuffix c, (x != '|') = true := by
  intro x hx
  unfold clsSuffix at hx
  split at hx
  · cases hx
  · rcases List.mem_cons.mp hx with rfl | hx
    · decide
    · exact digitsFuel_no_bar _ _ x hx

/-- the base key of an entry whose name has no `|` is `name ++ qtype (++ #class)` -/
theorem baseKeyOf_plain (n : List Char) (t : Nat) (sc : Scope) (cl : Nat) (h : ∀ c ∈ n, (c != '|') = true) :
    baseKeyOf ⟨n, t, sc, cl⟩ = n ++ (natDigits t ++ clsSuffix cl) := by
  unfold baseKeyOf
  apply takeWhile_all
  intro c hc
  rcases List.mem_append.mp hc with hc | hc
  · exact h c hc
  · rcases List.mem_append.mp hc with hc | hc
    · exact digitsFuel_no_bar _ _ c hc
    · exact clsSuffix_no_bar cl c hc

/-- ... and of an entry whose name contains `|` it is a proper prefix of the name: never the question's key -/
theorem baseKeyOf_bar (n : List Char) (t : Nat) (sc : Scope) (cl : Nat) (h : ∃ c ∈ n, (c != '|') = false) :
    baseKeyOf ⟨n, t, sc, cl⟩ ≠ n ++ (natDigits t ++ clsSuffix cl) := by
  intro heq
  have h1 := takeWhile_length_lt (· != '|') n (natDigits t ++ clsSuffix cl) h
  unfold baseKeyOf at heq
  rw [heq] at h1
  simp only [List.length_append] at h1
  omega

theorem cacheName_no_bar (s : List Char) : ∀ c ∈ cacheName s, (c != '|') = true := by
  intro c hc
  simp only [cacheName, List.mem_flatMap] at hc
  obtain ⟨x, _, hx⟩ := hc
  split at hx
  · simp only [List.mem_cons, List.mem_nil_iff, or_false] at hx
    rcases hx with rfl | rfl | rfl | rfl <;> decide
  · rename_i hne
    simp only [List.mem_singleton] at hx; subst hx
    simpa using hne

theorem lookup_removeFamily_same (c : Cache) (n : List Char) (t : Nat) (sc : Scope) (cl : Nat)
    (hn : ∀ x ∈ n, (x != '|') = true) :
    (Cache.removeFamily c n t cl).lookup ⟨n, t, sc, cl⟩ = none := by
  induction c with
  | nil => rfl
  | cons e es ih =>
    simp only [Cache.removeFamily, Cache.lookup] at ih ⊢
    simp only [List.filter_cons]
    split
    · rename_i h
      simp only [List.find?_cons]
      have : (e.1 == (⟨n, t, sc, cl⟩ : CacheKey)) = false := by
        rw [beq_eq_false_iff_ne]
        intro heq
        rw [heq, baseKeyOf_plain n t sc cl hn] at h
        simp at h
      simp only [this]
      exact ih
    · exact ih

theorem lookup_removeFamily_other (c : Cache) (n : List Char) (t cl : Nat) (k : CacheKey)
    (h : baseKeyOf k ≠ n ++ (natDigits t ++ clsSuffix cl)) : (Cache.removeFamily c n t cl).lookup k = c.lookup k := by
  induction c with
  | nil => rfl
  | cons e es ih =>
    simp only [Cache.removeFamily, Cache.lookup] at ih ⊢
    simp only [List.filter_cons, List.find?_cons]
    split
    · simp only [List.find?_cons]
      split
      · rfl
      · exact ih
    · rename_i hf
      have : (e.1 == k) = false := by
        rw [beq_eq_false_iff_ne]
        intro heq
        subst heq
        simp at hf
        exact h hf
      simp only [this]
      exact ih

theorem lookup_store_same (c : Cache) (k : CacheKey) (v : List Rec) : (c.store k v).lookup k = some v := by
  simp [Cache.store, Cache.lookup]

theorem lookup_store_other (c : Cache) (k k' : CacheKey) (v : List Rec) (h : k' ≠ k) :
    (c.store k v).lookup k' = c.lookup k' := by
  have hk : (k == k') = false := by rw [beq_eq_false_iff_ne]; exact fun e => h e.symm
  simp only [Cache.store, Cache.lookup, List.find?_cons, hk]
  congr 1
  induction c with
  | nil => rfl
  | cons e es ih =>
    simp only [List.filter_cons, List.find?_cons]
    split
    · simp only [List.find?_cons]
      split
      · rfl
      · exact ih
    · rename_i hf
      have : (e.1 == k') = false := by
        rw [beq_eq_false_iff_ne]
        intro heq
        have : e.1 = k := by simpa using hf
        exact h (heq ▸ this)
      simp only [this]
      exact ih

/-! ## dialSend -/

theorem dialSend_deep (cfg : Cfg) (q? : Option Question) (ans : Upstreams) (d : Nat) (u : UpRef)
    (h : d ≥ cfg.maxDepth) : dialSend cfg q? ans d u = ([], .error .tooDeep) := by
  rw [dialSend]; simp [h]

theorem dialSend_step (cfg : Cfg) (q? : Option Question) (ans : Upstreams) (d : Nat) (u : UpRef)
    (h : d < cfg.maxDepth) :
    dialSend cfg q? ans d u =
      match ans d u with
      | none => ([u], .error .forwardFail)
      | some r =>
        if !answersQuestion q? r then ([u], .error .questionMismatch)
        else
        match responseSelect cfg r u with
        | .err e => ([u], .error e)
        | .accept => ([u], .ok r)
        | .reject => ([u], .ok { r with recs := [] })
        | .next k => (u :: (dialSend cfg q? ans (d + 1) (.up k)).1, (dialSend cfg q? ans (d + 1) (.up k)).2) := by
  rw [dialSend, dif_neg (Nat.not_le.mpr h)]
  rfl

theorem dialSend_trace_le (cfg : Cfg) (q? : Option Question) (ans : Upstreams) :
    ∀ (n d : Nat) (u : UpRef), cfg.maxDepth - d = n → (dialSend cfg q? ans d u).1.length ≤ n := by
  intro n
  induction n with
  | zero =>
    intro d u h
    rw [dialSend_deep cfg q? ans d u (by omega)]; simp
  | succ n ih =>
    intro d u h
    rw [dialSend_step cfg q? ans d u (by omega)]
    cases ans d u with
    | none => simp
    | some r =>
      cases ha : answersQuestion q? r with
      | false => simp [ha]
      | true =>
        cases hs : responseSelect cfg r u with
        | err e => simp [hs, ha]
        | accept => simp [hs, ha]
        | reject => simp [hs, ha]
        | next k =>
          have := ih (d + 1) (.up k) (by omega)
          simp only [hs, ha, Bool.not_true, Bool.false_eq_true, if_false, List.length_cons]; omega

/-- whatever `dialSend` finally returns answers the client's question (name up to case, type, class) -/
theorem dialSend_ok_answers (cfg : Cfg) (q? : Option Question) (ans : Upstreams) :
    ∀ (n d : Nat) (u : UpRef) (r : Resp), cfg.maxDepth - d = n → (dialSend cfg q? ans d u).2 = .ok r →
      answersQuestion q? r = true := by
  intro n
  induction n with
  | zero =>
    intro d u r h hr
    rw [dialSend_deep cfg q? ans d u (by omega)] at hr; cases hr
  | succ n ih =>
    intro d u r h hr
    rw [dialSend_step cfg q? ans d u (by omega)] at hr
    cases h0 : ans d u with
    | none => simp [h0] at hr
    | some r0 =>
      cases ha : answersQuestion q? r0 with
      | false => simp [h0, ha] at hr
      | true =>
        cases hs : responseSelect cfg r0 u with
        | err e => simp [h0, ha, hs] at hr
        | accept => simp [h0, ha, hs] at hr; subst hr; exact ha
        | reject =>
          simp [h0, ha, hs] at hr; subst hr
          unfold answersQuestion at ha ⊢; exact ha
        | next k =>
          simp only [h0, ha, hs, Bool.not_true, Bool.false_eq_true, if_false] at hr
          exact ih (d + 1) (.up k) r (by omega) hr

/-! ## concrete data for the non-vacuity examples of Props.lean -/
namespace Ex

/-- request rules
```
qname(suffix: example.com, keyword: goo) && !qtype(a, aaaa) -> u1
sub(tag: t1) -> u0                     # internal selector, not a DNS rule
qname(full: x.org) -> reject
qtype(aaaa) -> u0
fallback: asis
``` -/
def reqRules : List SrcRule :=
  [⟨[.qname false [(.suffix, "example.com"), (.keyword, "goo")], .qtype true [("", 1), ("", 28)]], 1⟩,
   ⟨[.internal], 0⟩,
   ⟨[.qname false [(.full, "x.org")]], 0xFC⟩,
   ⟨[.qtype false [("", 28)]], 0⟩]

def envExample : Env := ⟨"A.Example.COM.".toList, 5, [], 0, []⟩
def envXorg : Env := ⟨"x.org.".toList, 28, [], 0, []⟩
def envOther : Env := ⟨"abcexample.com".toList, 1, [], 0, []⟩

/-- response rules
```
upstream(u0) && ip(10.0.0.0/8, 2001:db8::/32) -> u1
!qname(suffix: cn) && qtype(a) -> reject
fallback: accept
``` -/
def respRules : List SrcRule :=
  [⟨[.upstream false [0], .ip false [("", ⟨true, mapped4 0x0a000000, 8⟩), ("", ⟨false, 0x20010db8 * 2 ^ 96, 32⟩)]], 1⟩,
   ⟨[.qname true [(.suffix, "cn")], .qtype false [("", 1)]], 0xFD⟩]

def qCom : Question := { name := "www.example.com.".toList, qtype := 1, rx := [] }
def respPolluted : Resp := { isResponse := true, q := some qCom, recs := [.other, .a 0x0a010203], rcodeOk := true }

def cfg2 : Cfg := { nUp := 2, req := (compileRequest reqRules 0xFD).getD default, resp := (compile respRules 0xFC).getD default }

/-- a request program that rejects everything, and a cache that knows the answer -/
def cfgRejectAll : Cfg := { nUp := 0, req := (compileRequest [] 0xFC).getD default, resp := (compile [] 0xFC).getD default }
def qCached : Question := { name := "Ads.Example.COM.".toList, qtype := 1, rx := [] }
def cacheWithAnswer : Cache :=
  [(⟨"ads.example.com.".toList, 1, .asis 1, 1⟩, [.a 0x01020304]), (⟨"ads.example.com.".toList, 1, .up 0, 1⟩, [.a 0x05060708]),
   (⟨"other.test.".toList, 1, .asis 1, 1⟩, [.a 0x09090909])]

/-- response rules `upstream(u0) -> u1; upstream(u1) -> u0; fallback: u0`: every answer is sent on -/
def bounceRules : List SrcRule := [⟨[.upstream false [0]], 1⟩, ⟨[.upstream false [1]], 0⟩]
def qLoop : Question := { name := "a.loop.".toList, qtype := 1, rx := [] }
def respLoop : Resp := { isResponse := true, q := some qLoop, recs := [.a 0x01020304], rcodeOk := true }
def bounceCfg : Cfg := { nUp := 2, req := (compileRequest [] 0).getD default, resp := (compile bounceRules 0).getD default }

end Ex

end DaeVerif.C07
