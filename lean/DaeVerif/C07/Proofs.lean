import DaeVerif.C07.Model
/-! # C07 — helper lemmas (see Props.lean for the property theorems) -/
namespace DaeVerif.C07
open DaeVerif.RuleScan

end DaeVerif.C07
