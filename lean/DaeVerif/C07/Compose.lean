import DaeVerif.C07.Props
import DaeVerif.C07.ComposeModel
import DaeVerif.C11.Props
import DaeVerif.C12.Props
/-!
# C07 ∘ C11 ∘ C12 — DNS routing decisions with the real domain matcher and the real CIDR trie

`Props.lean` proves "the `Match` loop over the compiled DNS program = first match over the rules as
written" with `qname(...)` evaluated by a definition of the documented meaning and `ip(...)` by numeric
containment.  C11 proves that the packed-trie / automaton matcher sets bit `i` of `MatchDomainBitmap`
exactly when some valid pattern registered under index `i` matches by its documented kind; C12 proves
that the CIDR trie query is containment.  They are joined here through what the DNS builders do in
between: `Build()` registers one `AddSet` call per `simulatedDomainSet` entry under
`RuleIndex` = the position of its match set (`link`), and `addIp` stores one trie per `ip(...)` key
group under `Value` = its position in `ipSet`.
-/
namespace DaeVerif.C07
open DaeVerif.RuleScan

/-! ## the loop with any positional evaluator that agrees with an atom evaluator -/

theorem scanGo_gen (ev : Nat → MatchSet → Bool) (ea : Atom → Bool) (all : List (Entry Atom Nat))
    (hev : ∀ pre e suf, all = pre ++ e :: suf → ev pre.length (toMS e (linkIps pre).length) = ea e.cond) :
    ∀ (suf pre : List (Entry Atom Nat)), all = pre ++ suf → (∀ e ∈ suf, TailOK e) →
    ∀ g b, scanGo ev (linkMs suf (linkIps pre).length) pre.length g b
      = (scanAux ea suf g b false).map Prod.fst := by
  intro suf
  induction suf with
  | nil => intro pre _ _ g b; simp [linkMs, scanGo, scanAux]
  | cons e es ih =>
    intro pre hall hok g b
    have hev' := hev pre e es hall
    have hall' : all = (pre ++ [e]) ++ es := by simp [hall]
    have ih' := ih (pre ++ [e]) hall' (fun x hx => hok x (List.mem_cons_of_mem _ hx))
    rw [linkIps_snoc_length] at ih'
    simp only [List.length_append, List.length_cons, List.length_nil, Nat.zero_add] at ih'
    have hoke := hok e (List.mem_cons_self)
    rw [scanAux_cons]
    simp only [linkMs, scanGo, toMS_upstream, toMS_neg, hev']
    unfold TailOK at hoke
    cases ht : e.tail with
    | or =>
      have h0 : isFinalByte 0xFE = false := by decide
      simp only [tailByte, tailStep, h0, bne_self_eq_false, Bool.false_eq_true, if_false]
      exact ih' _ _
    | and =>
      have h1 : isFinalByte 0xFF = false := by decide
      have h2 : ((0xFF : Nat) != 0xFE) = true := by decide
      simp only [tailByte, tailStep, h1, h2, if_true, Bool.false_eq_true, if_false]
      exact ih' _ _
    | final o =>
      rw [ht] at hoke
      have ⟨h1, h2⟩ := isFinalByte_lt o hoke
      simp only [tailByte, tailStep, h1, h2, if_true]
      cases hc : (b || ((if (b || g) = true then g else ea e.cond) == e.neg))
      · simp
      · simp only [Bool.not_true, Bool.false_eq_true, if_false, if_true]
        exact ih' _ _
    | mustRules => rw [ht] at hoke; exact absurd hoke (by simp)

/-! ## the documented-kind semantics of the lowered rules -/

theorem alts_anyDoc (rxId : String → Nat) (env : EnvR) (f : Func) :
    f.alts.any (evAtomDoc rxId env) = f.anyParamDoc rxId env := by
  cases f with
  | qname neg ps =>
    simp only [Func.alts, Func.anyParamDoc, List.any_map, Function.comp_def, evAtomDoc]
    exact groupByKey_any ps (fun k s => paramMatchesDoc rxId env k s)
  | qtype neg ps =>
    simp only [Func.alts, Func.anyParamDoc, List.any_flatMap, List.any_map, Function.comp_def, evAtomDoc]
    exact groupByKey_any ps (fun _ v => env.qtype == v)
  | ip neg ps =>
    simp only [Func.alts, Func.anyParamDoc, List.any_map, Function.comp_def, evAtomDoc]
    rw [any_comm]
    congr 1; funext a
    exact groupByKey_any ps (fun _ p => pfxContains p a)
  | upstream neg vs =>
    simp only [Func.alts, Func.anyParamDoc, List.any_map, Function.comp_def, evAtomDoc]
  | internal => simp [Func.alts, Func.anyParamDoc]

theorem toCond_holdsDoc (rxId : String → Nat) (env : EnvR) (f : Func) (c : Cond Atom) (h : toCond f = some c) :
    condHolds (evAtomDoc rxId env) c = f.holdsDoc rxId env := by
  unfold toCond at h
  split at h
  · cases h
  · rename_i a as ha
    cases h
    simp only [condHolds, Cond.alts, Func.holdsDoc, ← alts_anyDoc, ha]

theorem toConds_holdsDoc (rxId : String → Nat) (env : EnvR) : ∀ (fs : List Func) (cs : List (Cond Atom)),
    toConds fs = some cs → cs.all (condHolds (evAtomDoc rxId env)) = fs.all (Func.holdsDoc rxId env) := by
  intro fs
  induction fs with
  | nil => intro cs h; simp [toConds] at h; subst h; rfl
  | cons f fs ih =>
    intro cs h
    simp only [toConds] at h
    cases h1 : toCond f with
    | none => simp [h1] at h
    | some c =>
      cases h2 : toConds fs with
      | none => simp [h1, h2] at h
      | some cs' =>
        simp [h1, h2] at h; subst h
        simp only [List.all_cons, toCond_holdsDoc rxId env f c h1, ih cs' h2]

theorem toRule_holdsDoc (rxId : String → Nat) (env : EnvR) (r : SrcRule) (x : Rule Atom Nat)
    (h : toRule r = some x) : ruleHolds (evAtomDoc rxId env) x = r.holdsDoc rxId env := by
  unfold toRule at h
  split at h
  · rename_i c cs hc
    cases h
    simp only [ruleHolds, Rule.conds, SrcRule.holdsDoc]
    exact toConds_holdsDoc rxId env r.funcs (c :: cs) hc
  · cases h

theorem firstMatch_toRulesDoc (rxId : String → Nat) (env : EnvR) (fb : Nat) :
    ∀ (rs : List SrcRule) (R : List (Rule Atom Nat)), toRules rs = some R →
      firstMatch (evAtomDoc rxId env) R fb false = (firstMatchDoc rxId env rs fb, false) := by
  intro rs
  induction rs with
  | nil => intro R h; simp [toRules] at h; subst h; rfl
  | cons r rs ih =>
    intro R h
    simp only [toRules] at h
    cases h1 : toRule r with
    | none => simp [h1] at h
    | some x =>
      cases h2 : toRules rs with
      | none => simp [h1, h2] at h
      | some xs =>
        simp [h1, h2] at h; subst h
        simp only [firstMatch, firstMatchDoc, toRule_holdsDoc rxId env r x h1, toRule_out r x h1]
        split
        · rfl
        · exact ih xs h2

/-! ## position lemmas: the `AddSet` index of a domain set is its own match-set position -/

theorem lowerPats_toPat (rxId : String → Nat) (k : DKey) (ps : List String) :
    C11.lowerPats (toKind k) (ps.map (toPat rxId)) = ps.map (docPat rxId k) := by
  cases k <;> simp [C11.lowerPats, toKind, docPat, toPat]

theorem addCalls_lowered (rxId : String → Nat) (P : Prog) :
    (addCalls rxId P).map C11.AddCall.lowered =
      P.doms.map fun d => ⟨d.idx, toKind d.key, d.pats.map (docPat rxId d.key)⟩ := by
  simp only [addCalls, List.map_map]
  apply List.map_congr_left
  intro d _
  simp [C11.AddCall.lowered, lowerPats_toPat]

theorem docMatches_at (rxId : String → Nat) (name : C11.Str) (rxHits : List Nat)
    (pre suf : List (Entry Atom Nat)) (e : Entry Atom Nat) (k : DKey) (ps : List String)
    (he : e.cond = .dom k ps) :
    C11.docMatches (addCalls rxId (link (pre ++ e :: suf))) pre.length name rxHits =
      ps.any fun s => C11.patMatches (toKind k) (docPat rxId k s) (C11.normName name) rxHits &&
        C11.patValid (toKind k) (docPat rxId k s) := by
  unfold C11.docMatches
  rw [addCalls_lowered]
  unfold C11.docMatchesCore link
  simp only [List.any_map, Function.comp_def]
  rw [linkDoms_append]
  simp only [linkDoms, he, List.any_append, List.any_cons, Nat.zero_add, beq_self_eq_true, Bool.true_and]
  have h1 : (linkDoms pre 0).any (fun d => d.idx == pre.length &&
      (d.pats.any fun s => C11.patMatches (toKind d.key) (docPat rxId d.key s) (C11.normName name) rxHits &&
        C11.patValid (toKind d.key) (docPat rxId d.key s))) = false := by
    rw [List.any_eq_false]
    intro d hd
    have := linkDoms_idx pre 0 d hd
    have : (d.idx == pre.length) = false := by simp; omega
    simp [this]
  have h2 : (linkDoms suf (pre.length + 1)).any (fun d => d.idx == pre.length &&
      (d.pats.any fun s => C11.patMatches (toKind d.key) (docPat rxId d.key s) (C11.normName name) rxHits &&
        C11.patValid (toKind d.key) (docPat rxId d.key s))) = false := by
    rw [List.any_eq_false]
    intro d hd
    have := linkDoms_idx suf (pre.length + 1) d hd
    have : (d.idx == pre.length) = false := by simp; omega
    simp [this]
  rw [h1, h2]; simp

theorem addCalls_ok (rxId : String → Nat) (n : Nat) (P : Prog) (hdom : ∀ d ∈ P.doms, d.idx < n) :
    ∀ a ∈ addCalls rxId P, C11.callOk n a = true := by
  intro a ha
  simp only [addCalls, List.mem_map] at ha
  obtain ⟨d, hd, rfl⟩ := ha
  have hidx : d.idx < n := hdom d hd
  unfold C11.callOk
  cases d.key <;> simp [toKind, hidx, toPat]

theorem linkMs_length (es : List (Entry Atom Nat)) : ∀ n, (linkMs es n).length = es.length := by
  induction es with
  | nil => intro n; rfl
  | cons e es ih => intro n; simp [linkMs, ih]

theorem pfxContains_iff (p : Pfx) (a : Nat) : pfxContains p a = true ↔ C12.contains (toPrefix p) a := by
  unfold pfxContains C12.contains toPrefix C12.Prefix.len128 Pfx.len128
  simp

theorem trieMatch_eq (ps : List Pfx) (a : Nat)
    (hps : ∀ p ∈ ps, p.addr < 2 ^ 128 ∧ (if p.is4 then p.bits ≤ 32 else p.bits ≤ 128)) (ha : a < 2 ^ 128) :
    C12.trieMatch (ps.map toPrefix) a = ps.any fun p => pfxContains p a := by
  rw [Bool.eq_iff_iff, C12.Props.trie_matches_iff_contained (ps.map toPrefix) a _ ha]
  · simp only [List.mem_map, List.any_eq_true]
    constructor
    · rintro ⟨q, ⟨p, hp, rfl⟩, h⟩; exact ⟨p, hp, (pfxContains_iff p a).mpr h⟩
    · rintro ⟨p, hp, h⟩; exact ⟨toPrefix p, ⟨p, hp, rfl⟩, (pfxContains_iff p a).mp h⟩
  · intro q hq
    obtain ⟨p, hp, rfl⟩ := List.mem_map.mp hq
    exact hps p hp

/-- positional evaluation with the real bitmap and the real CIDR tries = documented meaning of the
entry's own atom -/
theorem evalMSReal_at (rxId : String → Nat) (n : Nat) (env : EnvR) (pre suf : List (Entry Atom Nat))
    (e : Entry Atom Nat) (hdom : ∀ d ∈ (link (pre ++ e :: suf)).doms, d.idx < n)
    (hwf : (link (pre ++ e :: suf)).ipsWF = true) (haddr : ∀ a ∈ env.ips, a < 2 ^ 128) :
    evalMSReal (link (pre ++ e :: suf))
      (if env.name == [] then []
       else (List.range n).filter fun i => C11.docMatches (addCalls rxId (link (pre ++ e :: suf))) i env.name env.rxHits)
      env pre.length (toMS e (linkIps pre).length) = evAtomDoc rxId env e.cond := by
  cases he : e.cond with
  | dom k ps =>
    simp only [evalMSReal, toMS, he, evAtomDoc, paramMatchesDoc]
    by_cases hn : env.name = []
    · simp [hn]
    · have hn' : (env.name == []) = false := by simpa using hn
      have hn'' : (env.name != []) = true := by simpa using hn
      simp only [hn', Bool.false_eq_true, if_false, hn'', Bool.true_and]
      rw [← docMatches_at rxId env.name env.rxHits pre suf e k ps he]
      have hlt : pre.length < n := by
        have hmem : (⟨pre.length, k, ps⟩ : DomEntry) ∈ (link (pre ++ e :: suf)).doms := by
          simp only [link]; rw [linkDoms_append]; simp [linkDoms, he]
        exact hdom _ hmem
      rw [Bool.eq_iff_iff, List.contains_iff_mem, List.mem_filter, List.mem_range]
      simp [hlt]
  | qtype v => simp [evalMSReal, toMS, he, evAtomDoc]
  | ipset ps =>
    simp only [evalMSReal, toMS, he, evAtomDoc, link]
    have hget : (linkIps (pre ++ e :: suf)).getD (linkIps pre).length [] = ps := by
      rw [linkIps_append]; simp [linkIps, he]
    rw [hget]
    have hps : ∀ p ∈ ps, p.addr < 2 ^ 128 ∧ (if p.is4 then p.bits ≤ 32 else p.bits ≤ 128) := by
      intro p hp
      have hmem : ps ∈ (link (pre ++ e :: suf)).ips := by
        simp only [link]; rw [linkIps_append]; simp [linkIps, he]
      have := (List.all_eq_true.mp hwf) ps hmem
      have := (List.all_eq_true.mp this) p hp
      simp only [Bool.and_eq_true, decide_eq_true_eq] at this
      refine ⟨this.1, ?_⟩
      have h2 := this.2
      split at h2 <;> simp_all
    rw [Bool.eq_iff_iff, List.any_eq_true, List.any_eq_true]
    constructor
    · rintro ⟨a, ha, h⟩; exact ⟨a, ha, by rw [← trieMatch_eq ps a hps (haddr a ha)]; exact h⟩
    · rintro ⟨a, ha, h⟩; exact ⟨a, ha, by rw [trieMatch_eq ps a hps (haddr a ha)]; exact h⟩
  | upstream v => simp [evalMSReal, toMS, he, evAtomDoc]
  | always => simp [evalMSReal, toMS, he, evAtomDoc]

/-! ## where the prefixes of the program's ip sets come from -/

theorem mem_linkIps (es : List (Entry Atom Nat)) (ps : List Pfx) (h : ps ∈ linkIps es) :
    ∃ e ∈ es, e.cond = .ipset ps := by
  induction es with
  | nil => simp [linkIps] at h
  | cons e es ih =>
    simp only [linkIps] at h
    cases hc : e.cond with
    | ipset qs =>
      simp only [hc, List.mem_cons] at h
      rcases h with rfl | h
      · exact ⟨e, List.mem_cons_self, hc⟩
      · obtain ⟨e', he', h'⟩ := ih h; exact ⟨e', List.mem_cons_of_mem _ he', h'⟩
    | _ =>
      simp only [hc] at h
      obtain ⟨e', he', h'⟩ := ih h; exact ⟨e', List.mem_cons_of_mem _ he', h'⟩

theorem mem_lowerAlts_cond (neg : Bool) (last : Tail Nat) (ks : List Atom) :
    ∀ k, ∀ e ∈ lowerAlts neg last k ks, e.cond ∈ k :: ks := by
  induction ks with
  | nil => intro k e he; simp [lowerAlts] at he; subst he; simp
  | cons k' ks ih =>
    intro k e he
    simp only [lowerAlts, List.mem_cons] at he
    rcases he with rfl | he
    · simp
    · exact List.mem_cons_of_mem _ (ih k' e he)

theorem mem_lowerConds_cond (out : Tail Nat) (cs : List (Cond Atom)) :
    ∀ c, ∀ e ∈ lowerConds out c cs, ∃ c' ∈ c :: cs, e.cond ∈ c'.alts := by
  induction cs with
  | nil => intro c e he; exact ⟨c, by simp, mem_lowerAlts_cond _ _ _ _ e he⟩
  | cons c' cs ih =>
    intro c e he
    simp only [lowerConds, List.mem_append] at he
    rcases he with he | he
    · exact ⟨c, by simp, mem_lowerAlts_cond _ _ _ _ e he⟩
    · obtain ⟨c'', hc'', h⟩ := ih c' e he
      exact ⟨c'', List.mem_cons_of_mem _ hc'', h⟩

theorem mem_lower_cond (R : List (Rule Atom Nat)) (e : Entry Atom Nat) (he : e ∈ lower R) :
    ∃ r ∈ R, ∃ c ∈ r.conds, e.cond ∈ c.alts := by
  simp only [lower, List.mem_flatMap] at he
  obtain ⟨r, hr, he⟩ := he
  obtain ⟨c, hc, h⟩ := mem_lowerConds_cond _ _ _ e he
  exact ⟨r, hr, c, hc, h⟩

theorem toConds_mem : ∀ (fs : List Func) (cs : List (Cond Atom)), toConds fs = some cs →
    ∀ c ∈ cs, ∃ f ∈ fs, c.alts = f.alts := by
  intro fs
  induction fs with
  | nil => intro cs h c hc; simp [toConds] at h; subst h; cases hc
  | cons f fs ih =>
    intro cs h c hc
    simp only [toConds] at h
    cases h1 : toCond f with
    | none => simp [h1] at h
    | some c0 =>
      cases h2 : toConds fs with
      | none => simp [h1, h2] at h
      | some cs' =>
        simp [h1, h2] at h; subst h
        rcases List.mem_cons.mp hc with rfl | hc
        · refine ⟨f, List.mem_cons_self, ?_⟩
          unfold toCond at h1
          split at h1
          · cases h1
          · rename_i a as ha; cases h1; simp [Cond.alts, ha]
        · obtain ⟨f', hf', h'⟩ := ih cs' h2 c hc
          exact ⟨f', List.mem_cons_of_mem _ hf', h'⟩

theorem toRules_mem : ∀ (rs : List SrcRule) (R : List (Rule Atom Nat)), toRules rs = some R →
    ∀ x ∈ R, ∀ c ∈ x.conds, ∃ r ∈ rs, ∃ f ∈ r.funcs, c.alts = f.alts := by
  intro rs
  induction rs with
  | nil => intro R h x hx; simp [toRules] at h; subst h; cases hx
  | cons r rs ih =>
    intro R h x hx c hc
    simp only [toRules] at h
    cases h1 : toRule r with
    | none => simp [h1] at h
    | some y =>
      cases h2 : toRules rs with
      | none => simp [h1, h2] at h
      | some ys =>
        simp [h1, h2] at h; subst h
        rcases List.mem_cons.mp hx with rfl | hx
        · unfold toRule at h1
          split at h1
          · rename_i c0 cs0 hcs
            cases h1
            obtain ⟨f, hf, h'⟩ := toConds_mem r.funcs (c0 :: cs0) hcs c hc
            exact ⟨r, List.mem_cons_self, f, hf, h'⟩
          · cases h1
        · obtain ⟨r', hr', f, hf, h'⟩ := ih ys h2 x hx c hc
          exact ⟨r', List.mem_cons_of_mem _ hr', f, hf, h'⟩

def PfxWF (p : Pfx) : Prop := p.addr < 2 ^ 128 ∧ (if p.is4 then p.bits ≤ 32 else p.bits ≤ 128)

/-- what `netip.ParsePrefix` guarantees of the parameters of an `ip(...)` call -/
def Func.ipParamsWF : Func → Prop
  | .ip _ ps => ∀ p ∈ ps, PfxWF p.2
  | _ => True

theorem ipset_in_alts (f : Func) (qs : List Pfx) (h : Atom.ipset qs ∈ f.alts) (hf : f.ipParamsWF) :
    ∀ p ∈ qs, PfxWF p := by
  cases f with
  | ip neg ps =>
    simp only [Func.alts, List.mem_map] at h
    obtain ⟨g, hg, heq⟩ := h
    cases heq
    simp only [groupByKey, List.mem_map] at hg
    obtain ⟨k, _, rfl⟩ := hg
    intro p hp
    obtain ⟨kp, hkp, rfl⟩ := List.mem_map.mp hp
    exact hf kp (List.mem_filter.mp hkp).1
  | qname neg ps => simp [Func.alts] at h
  | qtype neg ps => simp [Func.alts] at h
  | upstream neg vs => simp [Func.alts] at h
  | internal => simp [Func.alts] at h

theorem ipsWF_of_rules (rs : List SrcRule) (fb : Nat) (P : Prog) (hc : compile rs fb = some P)
    (hwf : ∀ r ∈ rs, ∀ f ∈ r.funcs, f.ipParamsWF) : P.ipsWF = true := by
  unfold compile at hc
  cases hR : toRules rs with
  | none => simp [hR] at hc
  | some R =>
    simp [hR] at hc; subst hc
    simp only [Prog.ipsWF, link, List.all_eq_true]
    intro qs hqs p hp
    obtain ⟨e, he, hcond⟩ := mem_linkIps _ qs hqs
    simp only [entriesOf, List.mem_append, List.mem_singleton] at he
    rcases he with he | rfl
    · obtain ⟨x, hx, c, hcx, hmem⟩ := mem_lower_cond R e he
      obtain ⟨r, hr, f, hf, halts⟩ := toRules_mem rs R hR x hx c hcx
      rw [hcond, halts] at hmem
      have := ipset_in_alts f qs hmem (hwf r hr f hf) p hp
      unfold PfxWF at this
      simp only [Bool.and_eq_true, decide_eq_true_eq]
      refine ⟨this.1, ?_⟩
      have h2 := this.2
      split <;> simp_all
    · simp [fallbackEntry] at hcond

/-- the real-matcher scan over a compiled rule list is first-match under the documented kinds -/
theorem scanReal_compile (rxId : String → Nat) (n : Nat) (env : EnvR) (rs : List SrcRule) (fb : Nat) (P : Prog)
    (hc : compile rs fb = some P) (hout : ∀ r ∈ rs, r.out < 0xFE) (hfb : fb < 0xFE)
    (hdom : ∀ d ∈ P.doms, d.idx < n) (hwf : P.ipsWF = true) (haddr : ∀ a ∈ env.ips, a < 2 ^ 128) :
    scanReal P (if env.name == [] then []
      else (List.range n).filter fun i => C11.docMatches (addCalls rxId P) i env.name env.rxHits) env
      = .hit (firstMatchDoc rxId env rs fb) := by
  unfold compile at hc
  cases hR : toRules rs with
  | none => simp [hR] at hc
  | some R =>
    simp [hR] at hc; subst hc
    have hok := entriesOf_ok R fb (toRules_out rs R hR hout) hfb
    have h := scanGo_gen
      (evalMSReal (link (entriesOf R fb))
        (if env.name == [] then []
         else (List.range n).filter fun i =>
           C11.docMatches (addCalls rxId (link (entriesOf R fb))) i env.name env.rxHits) env)
      (evAtomDoc rxId env) (entriesOf R fb)
      (by
        intro pre e suf hall
        have := evalMSReal_at rxId n env pre suf e (by rw [← hall]; exact hdom) (by rw [← hall]; exact hwf) haddr
        rw [← hall] at this
        exact this)
      (entriesOf R fb) [] (by simp) hok false false
    simp only [linkIps, List.length_nil] at h
    unfold scanReal
    show (match scanGo _ (linkMs (entriesOf R fb) 0) 0 false false with
      | some u => MatchResR.hit u | none => MatchResR.noHit) = _
    rw [h]
    unfold entriesOf fallbackEntry
    rw [scan_lower (evAtomDoc rxId env) .always (by rfl) fb R false, firstMatch_toRulesDoc rxId env fb rs R hR]
    rfl

end DaeVerif.C07

namespace DaeVerif.C07.Props
open DaeVerif.C07 DaeVerif.RuleScan

/-- **Request routing end to end with the real domain matcher.** For every request rule list and
fallback the builder accepts, every table size `n` above the positions of the program's domain sets (`MaxMatchSetLen` in production;
qtype / ip / upstream sets may lie beyond it, as in the code), every numbering of the regex patterns, every name of the property's alphabet (letters in
any case, digits, `-`, `_`, `.`; with or without trailing dot; also the empty name) and every qtype:
`Build()` of the real domain matcher from the builder's `AddSet` calls succeeds, no `HasPrefix`
panics, and `RequestMatcher.Match` — bitmap computed through the packed succinct tries and the
automaton, bit `i` tested for the domain set at position `i` — returns the outbound of the first DNS
rule that holds, else the fallback, where a `qname(...)` condition holds iff the name is not empty and
some pattern of one of its key groups is valid for its kind and matches the normalised name by its
documented kind (full / suffix / keyword; regex per oracle).  No oracle is left for full, suffix,
keyword. -/
theorem request_match_real_is_first_match (n : Nat) (rxId : String → Nat) (rs : List SrcRule) (fb : Nat)
    (P : Prog) (env : EnvR) (hc : compileRequest rs fb = some P) (hw : OutsOK rs fb)
    (hdom : ∀ d ∈ P.doms, d.idx < n) (hn : C11.plainName env.name = true)
    (haddr : ∀ a ∈ env.ips, a < 2 ^ 128) :
    requestMatchReal n rxId P env = .hit (firstMatchDoc rxId env (splitRequestRules rs) fb) := by
  unfold compileRequest at hc
  split at hc
  · rename_i hreq
    have hout : ∀ r ∈ splitRequestRules rs, r.out < 0xFE := fun r hr => hw.1 r (List.mem_filter.mp hr).1
    -- a request program has no ip sets and uses no addresses: instantiate with `ips := []`
    have hcalls := addCalls_ok rxId n P hdom
    obtain ⟨b, hb, hidx⟩ := C11.Props.domain_matcher_correct_any_case n (addCalls rxId P) env.name env.rxHits hcalls hn
    have hwf : P.ipsWF = true := by
      apply ipsWF_of_rules (splitRequestRules rs) fb P hc
      intro r hr f hf
      have := List.all_eq_true.mp (List.all_eq_true.mp hreq r hr) f hf
      cases f <;> simp_all [Func.isReqFunc, Func.ipParamsWF]
    have h := scanReal_compile rxId n env (splitRequestRules rs) fb P hc hout hw.2 hdom hwf haddr
    unfold requestMatchReal requestMatchBuilt
    rw [hb]
    by_cases hne : env.name = []
    · simp only [hne, beq_self_eq_true, if_true] at h ⊢; exact h
    · have : (env.name == []) = false := by simpa using hne
      simp only [this, Bool.false_eq_true, if_false, hidx] at h ⊢; exact h
  · cases hc

-- non-vacuity: the four-rule request list of `Ex` with its real patterns; the name `A.Example.COM.`
-- (upper case, trailing dot) of type CNAME is in the alphabet, the program fits a 16-entry table, and
-- the first rule decides (`suffix: example.com` through the packed trie, `!qtype(a, aaaa)`).
example : (compileRequest Ex.reqRules 0xFD).isSome = true ∧ OutsOK Ex.reqRules 0xFD ∧
    (∀ d ∈ ((compileRequest Ex.reqRules 0xFD).getD default).doms, d.idx < 16) ∧
    C11.plainName (C11.strOf "A.Example.COM.") = true := by
  refine ⟨by decide, ?_, by decide, by decide⟩; unfold OutsOK Ex.reqRules; decide
example : firstMatchDoc (fun _ => 0) ⟨C11.strOf "A.Example.COM.", 5, [], 0, []⟩ (splitRequestRules Ex.reqRules) 0xFD = 1 := by
  decide
example : firstMatchDoc (fun _ => 0) ⟨C11.strOf "abcexample.com", 1, [], 0, []⟩ (splitRequestRules Ex.reqRules) 0xFD = 0xFD := by
  decide

/-- **Response routing end to end with the real domain matcher and the real CIDR trie.** For every
response rule list and fallback the builder accepts whose `ip(...)` parameters are valid prefixes
(what `netip.ParsePrefix` returns), every answer with a non-empty name of the property's alphabet,
any type, any answering upstream and any list of 128-bit answer addresses: `Build()` succeeds,
nothing panics, and `ResponseMatcher.Match` — domain bits through the packed tries, `ip(...)` sets
through `HasPrefix` over the `Prefix2bin128` strings — returns the outbound of the first rule that
holds, else the fallback, where `qname` holds by documented kind (as above) and an `ip(...)`
condition holds iff some answer address is numerically contained in some prefix of the call (IPv4 as
IPv4-mapped). -/
theorem response_match_real_is_first_match (n : Nat) (rxId : String → Nat) (rs : List SrcRule) (fb : Nat)
    (P : Prog) (env : EnvR) (hc : compile rs fb = some P) (hw : OutsOK rs fb)
    (hdom : ∀ d ∈ P.doms, d.idx < n) (hn : C11.plainName env.name = true) (hne : env.name ≠ [])
    (hips : ∀ r ∈ rs, ∀ f ∈ r.funcs, f.ipParamsWF) (haddr : ∀ a ∈ env.ips, a < 2 ^ 128) :
    responseMatchReal n rxId P env = .hit (firstMatchDoc rxId env rs fb) := by
  have hcalls := addCalls_ok rxId n P hdom
  obtain ⟨b, hb, hidx⟩ := C11.Props.domain_matcher_correct_any_case n (addCalls rxId P) env.name env.rxHits hcalls hn
  have hwf := ipsWF_of_rules rs fb P hc hips
  have h := scanReal_compile rxId n env rs fb P hc hw.1 hw.2 hdom hwf haddr
  unfold responseMatchReal responseMatchBuilt
  rw [hb]
  have : (env.name == []) = false := by simpa using hne
  simp only [this, Bool.false_eq_true, if_false, hidx] at h ⊢
  exact h

/-- an answer without a name is refused before any matching, also on the real path -/
theorem response_match_real_empty_name (n : Nat) (rxId : String → Nat) (P : Prog) (env : EnvR)
    (b : C11.Built) (hb : (C11.Matcher.replay n (addCalls rxId P)).build = .ok b) (hn : env.name = []) :
    responseMatchReal n rxId P env = .emptyName := by
  simp [responseMatchReal, responseMatchBuilt, hb, hn]

-- non-vacuity: the two-rule response list of `Ex` (`upstream(u0) && ip(10.0.0.0/8, 2001:db8::/32) -> u1`,
-- `!qname(suffix: cn) && qtype(a) -> reject`): prefixes are valid, and the answer `10.1.2.3` from u0 is
-- re-asked at u1, from u1 it is emptied.
example : (compile Ex.respRules 0xFC).isSome = true ∧ OutsOK Ex.respRules 0xFC ∧
    (∀ d ∈ ((compile Ex.respRules 0xFC).getD default).doms, d.idx < 16) ∧
    (∀ r ∈ Ex.respRules, ∀ f ∈ r.funcs, f.ipParamsWF) := by
  refine ⟨by decide, ?_, by decide, ?_⟩
  · unfold OutsOK Ex.respRules; decide
  · intro r hr f hf
    simp only [Ex.respRules, List.mem_cons, List.mem_nil_iff, or_false] at hr
    rcases hr with rfl | rfl
    · simp only [List.mem_cons, List.mem_nil_iff, or_false] at hf
      rcases hf with rfl | rfl
      · trivial
      · intro p hp
        simp only [List.mem_cons, List.mem_nil_iff, or_false] at hp
        rcases hp with rfl | rfl <;> (unfold PfxWF; decide)
    · simp only [List.mem_cons, List.mem_nil_iff, or_false] at hf
      rcases hf with rfl | rfl <;> trivial
example : firstMatchDoc (fun _ => 0) ⟨C11.strOf "www.example.com.", 1, [mapped4 0x0a010203], 0, []⟩ Ex.respRules 0xFC = 1 := by
  decide
example : firstMatchDoc (fun _ => 0) ⟨C11.strOf "www.example.com.", 1, [mapped4 0x0a010203], 1, []⟩ Ex.respRules 0xFC = 0xFD := by
  decide

end DaeVerif.C07.Props

