import DaeVerif.C07.Model
import DaeVerif.C07.ComposeModel
import DaeVerif.C07.Resolver
import DaeVerif.Common.Proto
/-!
Line-protocol driver for C07.  Grammar (see harness/overlay/component/dns/c07_test.go and
harness/overlay/control/c07_test.go):

```
req  <nUp> <fb> <rules>            set the request program   → dump of the compiled program
resp <nUp> <fb> <rules>            set the response program  → dump of the compiled program
rq   n:<name> <qtype> rx:<ids>     RequestMatcher.Match      → hit:<byte> | nohit
rs   n:<name> <qtype> <from> ips:<addrs> rx:<ids>            → hit:<byte> | nohit | emptyname
cfg  <nUp> <reqfb> <reqrules> <respfb> <resprules> [urls:…]  → ok | builderr
dq   n:<host> <4|6|46> rx:<ids>    daedns.Router.LookupIPAddr → per asked type: <qtype>=u<k> | <qtype>=pass
recfg <nUp> <reqfb> <reqrules> <respfb> <resprules>          → ok | builderr   (reload: new rules, cache kept)
depth <N>                          MaxDnsLookupDepth of the code under test → ok
ask  <dst> <isResp> <q|q2|noq> n:<name> <qtype> rx:<ids> ip:<0|1> cl:<class> seed:<entries> ans:<table>
                                                             → trace=… reply=… | cache=… err=…
   (the part after " | " is diagnostic: the check compares it but does not call a difference a violation;
    the response cache is threaded through the asks of one `cfg` scenario)
ga   <t> n:<name> <qtype> rx:<ids> <answer>   caller <t> starts a question: RequestSelect → GetUpstream → (answer of
                                   that upstream) ResponseSelect → GetUpstream of the re-ask upstream; runs until the
                                   caller is inside a blocking operation or has finished
                                   → park:build | park:cb | done req=… from=… resp=… from1=…
                                     followed by ` ;; spec req=… resp=…`: what the question must end with under
                                     EVERY schedule (route; decision for an answer of the routed upstream)
gr   <t> <ok|fail>                 the blocking operation caller <t> is in ends with that outcome → same answers
   (resolver state lives from one `cfg` line to the next; `lean/DaeVerif/C07/Resolver.lean`)
rules := '-' | rule (';' rule)*      rule := func ('&' func)* '>' out
func  := ['!'] fname '(' key '=' val (',' key '=' val)* ')'
```
Only parsing and printing live here; every decision is computed by `Model.lean` definitions.
-/
open DaeVerif DaeVerif.C07 DaeVerif.Proto DaeVerif.RuleScan

namespace C07Drv

def dropS (s : String) (n : Nat) : String := String.ofList (s.toList.drop n)
def hasPrefix (s p : String) : Bool := p.toList.isPrefixOf s.toList

inductive Side where | req | resp
deriving DecidableEq

def parseOut (side : Side) (s : String) : Option Nat :=
  match side, s with
  | .req, "reject" => some 0xFC
  | .req, "asis" => some 0xFD
  | .resp, "accept" => some 0xFC
  | .resp, "reject" => some 0xFD
  | _, _ => if hasPrefix s "u" then (dropS s 1).toNat? else none

def parseKey (s : String) : Option DKey :=
  match s with
  | "full" => some .full
  | "suffix" => some .suffix
  | "keyword" => some .keyword
  | "regex" => some .regex
  | _ => none

/-- `4:0a000000/8` | `6:<32 hex>/64` -/
def parsePfx (tok : String) : Option Pfx := do
  match tok.splitOn "/" with
  | [l, b] =>
    let bits ← b.toNat?
    if hasPrefix l "4:" then let a ← hexToNat? (dropS l 2); pure ⟨true, mapped4 a, bits⟩
    else if hasPrefix l "6:" then let a ← hexToNat? (dropS l 2); pure ⟨false, a, bits⟩
    else none
  | _ => none

/-- `4:0a000001` | `6:<32 hex>` → 128-bit value -/
def parseAddr (tok : String) : Option Nat :=
  if hasPrefix tok "4:" then (hexToNat? (dropS tok 2)).map mapped4
  else if hasPrefix tok "6:" then hexToNat? (dropS tok 2)
  else none

def splitKV (s : String) : Option (String × String) :=
  match s.splitOn "=" with
  | [k, v] => some (k, v)
  | _ => none

def parseFunc (s : String) : Option Func := do
  let (neg, s) := if hasPrefix s "!" then (true, dropS s 1) else (false, s)
  match s.splitOn "(" with
  | [name, rest] =>
    let body := String.ofList rest.toList.dropLast   -- strip ')'
    let kvs ← (body.splitOn ",").mapM splitKV
    match name with
    | "qname" => do
      let ps ← kvs.mapM fun (k, v) => do let dk ← parseKey k; pure (dk, v)
      pure (.qname neg ps)
    | "qtype" => do
      let ps ← kvs.mapM fun (k, v) => do let n ← v.toNat?; pure (k, n)
      pure (.qtype neg ps)
    | "ip" => do
      let ps ← kvs.mapM fun (k, v) => do let p ← parsePfx v; pure (k, p)
      pure (.ip neg ps)
    | "upstream" => do
      let vs ← kvs.mapM fun (k, v) => if k == "" then parseOut .resp v else none
      pure (.upstream neg vs)
    | "sub" | "node" | "subnode" => pure .internal
    | _ => none
  | _ => none

def parseRule (side : Side) (s : String) : Option SrcRule := do
  match s.splitOn ">" with
  | [fs, out] =>
    let funcs ← (fs.splitOn "&").mapM parseFunc
    let o ← parseOut side out
    pure ⟨funcs, o⟩
  | _ => none

def parseRules (side : Side) (s : String) : Option (List SrcRule) :=
  if s == "-" then some [] else (s.splitOn ";").mapM (parseRule side)

/-! printing -/

def mtypeStr : MType → String
  | .domainSet => "dom" | .ipSet => "ip" | .qtype => "qtype" | .upstream => "up" | .fallback => "fb"

def keyStr : DKey → String
  | .full => "full" | .suffix => "suffix" | .keyword => "keyword" | .regex => "regex"

def dumpProg (P : Prog) : String :=
  "ms=" ++ ",".intercalate (P.ms.map fun m => s!"{mtypeStr m.typ}:{m.value}:{boolStr m.neg}:{m.upstream}") ++
  " doms=" ++ ",".intercalate (P.doms.map fun d => s!"{d.idx}:{keyStr d.key}:{"|".intercalate d.pats}") ++
  s!" ips={P.ips.length}"

def matchResStr : MatchRes → String
  | .hit u => s!"hit:{u}"
  | .noHit => "nohit"
  | .emptyName => "emptyname"

def parseList (pfx : String) (tok : String) : Option (List String) :=
  if hasPrefix tok pfx then
    let r := dropS tok pfx.length
    some (if r == "" then [] else r.splitOn ",")
  else none

def parseName (tok : String) : Option (List Char) :=
  if hasPrefix tok "n:" then some (tok.toList.drop 2) else none

def parseUpRef (s : String) : Option UpRef :=
  if s == "asis" || s == "a" then some .asis
  else if hasPrefix s "u" then (dropS s 1).toNat?.map .up else none

structure St where
  reqSrc : List SrcRule := []
  reqFb : Nat := 0xFD
  reqProg : Option Prog := none
  respSrc : List SrcRule := []
  respFb : Nat := 0xFC
  respProg : Option Prog := none
  nUp : Nat := 0
  maxDepth : Nat := 3
  cache : Cache := []       -- the response cache of the running scenario
  stale : List CacheKey := []
  optimistic : Bool := false
  dead : List Nat := []
  explain : Bool := false   -- coverage mode: print a classification of the op instead of the answer
  world : Res.World := Res.World.init         -- upstream resolvers, upstream2Index and the questions of the running scenario
  callers : List Nat := []                    -- caller ids seen (presentation only)
  reqBuilt : Option C11.Built := none    -- the REAL domain matcher (C11 model) built from the request program's AddSet calls
  respBuilt : Option C11.Built := none

/-! controller ops -/

def parseRec (s : String) : Option Rec :=
  if s == "O" then some .other
  else if s == "A0" then some .aNil
  else if hasPrefix s "A:" then (hexToNat? (dropS s 2)).map .a
  else if hasPrefix s "AAAA:" then (hexToNat? (dropS s 5)).map .aaaa
  else none

def parseRecs (s : String) : Option (List Rec) :=
  if s == "-" then some [] else (s.splitOn "+").mapM parseRec

def hex (w n : Nat) : String :=
  String.ofList ((List.range w).map fun i => nibble (n / 16 ^ (w - 1 - i) % 16))

def recStr : Rec → String
  | .aNil => "A0"
  | .a x => "A:" ++ hex 8 x
  | .aaaa x => "AAAA:" ++ hex 32 x
  | .other => "O"

def recsStr (l : List Rec) : String := if l.isEmpty then "-" else "+".intercalate (l.map recStr)

def scopeStr : Scope → String
  | .asis d => s!"a{d}"
  | .up k => s!"u{k}"

def parseScope (s : String) : Option Scope :=
  if hasPrefix s "a" then (dropS s 1).toNat?.map .asis
  else if hasPrefix s "u" then (dropS s 1).toNat?.map .up else none

def errStr : Err → String
  | .notRequest => "notrequest" | .routeFail => "routefail" | .badUpstream => "badupstream"
  | .tooDeep => "toodeep" | .forwardFail => "forwardfail" | .notResponse => "notresponse"
  | .questionMismatch => "questionmismatch" | .upstreamInit => "upstreaminit"

/-- the as-is resolver is the client's own destination `9.9.9.<dst>` -/
def upStr (dst : Nat) : UpRef → String
  | .asis => s!"a{dst}"
  | .up k => s!"u{k}"

def replyStr : Reply → String
  | .answers r ok => s!"ans:{if ok then "ok" else "fail"}:{recsStr r}"
  | .rejected => "ans:ok:-"      -- the client sees an empty answer with rcode success
  | .refused => "ans:fail:-"     -- FORMERR
  | .error _ => "err"            -- the error class is diagnostic (printed after " | ")

def keyLine (e : CacheKey × List Rec) : String :=
  s!"{String.ofList e.1.name}/{e.1.qtype}{if e.1.cls == 1 then "" else s!"#{e.1.cls}"}/{scopeStr e.1.scope}={recsStr e.2}"

def upperStr (s : List Char) : List Char := s.map Char.toUpper

/-- seed entry `<sel>/<scope>/<recs>[/S]`; sel: s = same name and type, o = other name, t = other type;
`S`: the entry is expired but inside the stale window.  Seeds are class-IN entries. -/
def parseSeed (q : Question) (s : String) : Option ((CacheKey × List Rec) × Bool) := do
  let (sel, sc, rs, st) ← match s.splitOn "/" with
    | [sel, sc, rs] => some (sel, sc, rs, false)
    | [sel, sc, rs, "S"] => some (sel, sc, rs, true)
    | _ => none
  let scope ← parseScope sc
  let recs ← parseRecs rs
  let (n, t) ← match sel with
    | "s" => some (cacheName q.name, q.qtype)
    | "o" => some ("other.test.".toList, q.qtype)
    | "t" => some (cacheName q.name, (q.qtype + 1) % 65536)
    | _ => none
  pure ((⟨n, t, scope, 1⟩, recs), st)

/-- answer entry `<depth>.<up>=<resp>`; resp = `F` | `<r|q><s|e>/<E|U|N|D|T|C>/<answer recs>/<authority recs>/<additional recs>` -/
def parseAns (q? : Option Question) (s : String) : Option ((Nat × UpRef) × Option Resp) := do
  match s.splitOn "=" with
  | [k, v] =>
    match k.splitOn "." with
    | [d, u] =>
      let d ← d.toNat?
      let u ← parseUpRef u
      if v == "F" then pure ((d, u), none)
      else match v.splitOn "/" with
        | [fl, qv, rs, nss, exs] =>
          let recs ← parseRecs rs
          let ns ← parseRecs nss
          let extra ← parseRecs exs
          let isR := fl.toList.contains 'r'
          let ok := fl.toList.contains 's'
          let z := fl.toList.contains 'z'
          let rq ← match qv with
            | "E" => some q?
            | "U" => some (q?.map fun q => { q with name := upperStr q.name })
            | "N" => some none
            | "D" => some (q?.map fun q => { q with name := "evil.test.".toList, isIp := false })
            | "T" => some (q?.map fun q => { q with qtype := (q.qtype + 1) % 65536 })
            | "C" => some (q?.map fun q => { q with qclass := if q.qclass == 3 then 1 else 3 })
            | _ => none
          pure ((d, u), some { isResponse := isR, q := rq, recs := recs, rcodeOk := ok, ns := ns, extra := extra, ttl0 := z })
        | _ => none
    | _ => none
  | _ => none

def ansFn (tbl : List ((Nat × UpRef) × Option Resp)) : Upstreams := fun d u =>
  match tbl.find? fun e => e.1.1 == d && e.1.2 == u with
  | some e => e.2
  | none => none

/-- regex patterns are named `R<k>` on the op lines: number k -/
def rxIdOf (s : String) : Nat := if hasPrefix s "R" then ((dropS s 1).toNat?).getD 0 else 0

/-- `Build()` of the real domain matcher for a compiled program; the table is as large as the
program (the composition theorems hold for every size ≥ that, `MaxMatchSetLen` in production). -/
def buildReal (P : Prog) : Option C11.Built :=
  match (C11.Matcher.replay P.ms.length (addCalls rxIdOf P)).build with
  | .ok b => some b
  | .error _ => none

def envROf (env : Env) : EnvR := ⟨env.name.map Char.toNat, env.qtype, env.ips, env.«from», env.rx.map rxIdOf⟩

def realStr : MatchResR → String
  | .hit u => s!"hit:{u}"
  | .noHit => "nohit"
  | .emptyName => "emptyname"
  | .buildError => "builderror"
  | .panic => "panic"

/-- coverage only: position of the first rule that holds -/
def firstIdx (env : Env) (rs : List SrcRule) : String :=
  match rs.findIdx? (fun r => r.holds env) with
  | some i =>
    let n := rs.length
    let pos := if i == 0 then "first" else if i + 1 == n then "last" else "middle"
    let r := rs.getD i default
    s!"rule:{pos} conds:{r.funcs.length} neg:{boolStr (r.funcs.any Func.neg)}"
  | none => "fallback"

def reqSelStr : ReqSel → String
  | .reject => "reject" | .to .asis => "asis" | .to (.up _) => "upstream" | .err _ => "err"

def respSelStr : RespSel → String
  | .accept => "accept" | .reject => "reject" | .next k => s!"next:u{k}" | .err e => "err:" ++ errStr e

def reqSelFull : ReqSel → String
  | .reject => "reject" | .to .asis => "asis" | .to (.up k) => s!"u{k}" | .err e => "err:" ++ errStr e

def fromStr : Option UpRef → String
  | none => "-" | some .asis => "asis" | some (.up k) => s!"u{k}"

/-- where caller `t` is after a move -/
def askStateStr (s : Res.Sys) (t : Nat) (a : Res.AskT) : String :=
  match a.stage with
  | .fin r => s!"done req={reqSelFull r.req} from={fromStr r.from0} resp={(r.resp.map respSelStr).getD "-"} from1={fromStr r.from1}"
  | _ =>
    match s.pc t with
    | .build => "park:build"
    | .callback _ => "park:cb"
    | _ => "stuck"

/-- coverage only: what the other callers of resolver `k` are doing -/
def othersAt (st : Res.Sys) (callers : List Nat) (t k : Nat) (p : Res.PC → Bool) : String :=
  if callers.any (fun c => c != t && st.tgt c == k && p (st.pc c)) then "1+" else "0"

def isCb : Res.PC → Bool | .callback _ => true | _ => false
def isBuild : Res.PC → Bool | .build => true | _ => false

def pubStr : Res.Pub → String | .unset => "unset" | .failed => "failed" | .ok _ => "ok"

def stateKind (s : String) : String := String.ofList (s.toList.takeWhile (· != ' '))

def handleLine (st : St) (line : String) : St × String :=
  match words line with
  | ["explain"] => ({ st with explain := true }, "explain")
  | ["req", n, fb, rules] =>
    match n.toNat?, parseOut .req fb, parseRules .req rules with
    | some n, some fb, some rs =>
      let P := compileRequest rs fb
      ({ st with reqSrc := rs, reqFb := fb, reqProg := P, nUp := n, reqBuilt := P.bind buildReal },
        match P with | some P => dumpProg P | none => "builderr")
    | _, _, _ => (st, "bad-op")
  | ["resp", n, fb, rules] =>
    match n.toNat?, parseOut .resp fb, parseRules .resp rules with
    | some n, some fb, some rs =>
      let P := compile rs fb
      ({ st with respSrc := rs, respFb := fb, respProg := P, nUp := n, respBuilt := P.bind buildReal },
        match P with | some P => dumpProg P | none => "builderr")
    | _, _, _ => (st, "bad-op")
  | ["rq", name, qt, rx] =>
    match parseName name, qt.toNat?, parseList "rx:" rx, st.reqProg with
    | some nm, some qt, some rx, some P =>
      let env : Env := ⟨nm, qt, [], 0, rx⟩
      let r := requestMatch P env
      let spec := firstMatchSrc env (splitRequestRules st.reqSrc) st.reqFb
      if st.explain then (st, "rq " ++ firstIdx env (splitRequestRules st.reqSrc)) else
      -- the composed path: real packed-trie / automaton domain matcher instead of the `patMatch` definition
      let real := match st.reqBuilt with
        | some b => realStr (requestMatchBuilt b P (envROf env))
        | none => "builderror"
      let specDoc := firstMatchDoc rxIdOf (envROf env) (splitRequestRules st.reqSrc) st.reqFb
      (st, if r != .hit spec then s!"MODEL-SPLIT scan={matchResStr r} spec={spec}"
           else if real != matchResStr r || (C11.plainName (envROf env).name && specDoc != spec) then
             s!"REAL-MATCHER-DIFFERS real={real} doc-spec={specDoc} oracle={matchResStr r}"
           else matchResStr r)
    | _, _, _, _ => (st, "bad-op")
  | ["rs", name, qt, fr, ips, rx] =>
    match parseName name, qt.toNat?, parseUpRef fr, parseList "ips:" ips, parseList "rx:" rx, st.respProg with
    | some nm, some qt, some fr, some ips, some rx, some P =>
      match ips.mapM parseAddr with
      | some ips =>
        let env : Env := ⟨nm, qt, ips, fr.index, rx⟩
        let r := responseMatch P env
        let spec := firstMatchSrc env st.respSrc st.respFb
        if st.explain then (st, "rs " ++ (if r == .emptyName then "emptyname" else firstIdx env st.respSrc)) else
        let real := match st.respBuilt with
          | some b => realStr (responseMatchBuilt b P (envROf env))
          | none => "builderror"
        let specDoc := firstMatchDoc rxIdOf (envROf env) st.respSrc st.respFb
        (st, if !(r == .emptyName || r == .hit spec) then s!"MODEL-SPLIT scan={matchResStr r} spec={spec}"
             else if real != matchResStr r || (r != .emptyName && C11.plainName (envROf env).name && specDoc != spec) then
               s!"REAL-MATCHER-DIFFERS real={real} doc-spec={specDoc} oracle={matchResStr r}"
             else matchResStr r)
      | none => (st, "bad-op")
    | _, _, _, _, _, _ => (st, "bad-op")
  | ["dq", name, ver, rx] =>
    match parseName name, parseList "rx:" rx, st.reqProg with
    | some host, some rx, some P =>
      if st.reqSrc.isEmpty && (st.reqFb == 0xFC || st.reqFb == 0xFD) then (st, "norouter") else
      let cfg : Cfg := { nUp := st.nUp, req := P, resp := P }
      let one (qt : Nat) : String :=
        match daednsSelect cfg host qt rx with
        | .up k => s!"{qt}=u{k}"
        | _ => s!"{qt}=pass"       -- passthrough, or an error for this type: nobody is asked
      let types := if ver == "4" then [1] else if ver == "6" then [28] else [1, 28]
      (st, " ".intercalate (types.map one))
    | _, _, _ => (st, "bad-op")
  | ["depth", n] =>
    match n.toNat? with
    | some n => ({ st with maxDepth := n }, "ok")
    | none => (st, "bad-op")
  | "cfg" :: n :: rfb :: rrules :: sfb :: srules :: _ =>   -- further tokens (upstream URLs) are for the replay reader
    match n.toNat?, parseOut .req rfb, parseRules .req rrules, parseOut .resp sfb, parseRules .resp srules with
    | some n, some rfb, some rrs, some sfb, some srs =>
      let P := compileRequest rrs rfb
      let Q := compile srs sfb
      let dead := ((words line).filterMap fun t => parseList "dead:" t).flatten.filterMap fun d => (dropS d 1).toNat?
      ({ st with reqSrc := rrs, reqFb := rfb, reqProg := P, respSrc := srs, respFb := sfb, respProg := Q, nUp := n,
                 world := Res.World.init, callers := [],
                 cache := [], stale := [], optimistic := (words line).contains "opt:1", dead := dead },
        if P.isSome && Q.isSome then "ok" else "builderr")
    | _, _, _, _, _ => (st, "bad-op")
  | "recfg" :: n :: rfb :: rrules :: sfb :: srules :: _ =>
    -- a reload: the controller adopts new rule lists (same upstreams); response cache and stale set live on
    match n.toNat?, parseOut .req rfb, parseRules .req rrules, parseOut .resp sfb, parseRules .resp srules with
    | some n, some rfb, some rrs, some sfb, some srs =>
      match compileRequest rrs rfb, compile srs sfb with
      | some P, some Q =>
        ({ st with reqSrc := rrs, reqFb := rfb, reqProg := some P, respSrc := srs, respFb := sfb, respProg := some Q, nUp := n }, "ok")
      | _, _ => (st, "builderr")   -- the new generation is refused: the old rules stay
    | _, _, _, _, _ => (st, "bad-op")
  | ["ask", dst, isResp, hasQ, name, qt, rx, ipTok, clTok, seed, ans] =>
    match dst.toNat?, parseName name, qt.toNat?, parseList "rx:" rx, parseList "seed:" seed,
        parseList "ans:" ans, st.reqProg, st.respProg, (dropS clTok 3).toNat? with
    | some dst, some nm, some qt, some rx, some seed, some ans, some P, some Q, some cl =>
      let q : Question := { name := nm, qtype := qt, rx := rx, isIp := ipTok == "ip:1", qclass := cl }
      let q? := if hasQ == "q" || hasQ == "q2" then some q else none
      let nq := if hasQ == "q2" then 2 else if hasQ == "q" then 1 else 0
      match seed.mapM (parseSeed q), ans.mapM (parseAns q?) with
      | some seed, some tbl =>
        let cfg : Cfg := { nUp := st.nUp, req := P, resp := Q, maxDepth := st.maxDepth, dead := st.dead }
        let cache0 : Cache := seed.foldl (fun c e => Cache.store c e.1.1 e.1.2) st.cache
        let stale0 : List CacheKey := seed.foldl (fun l e => if e.2 then e.1.1 :: l.erase e.1.1 else l.erase e.1.1) st.stale
        let o : OutcomeO :=
          if st.optimistic then handleMsgOpt cfg cache0 stale0 dst (isResp == "1") nq q? (ansFn tbl)
          else
            let h := handleMsg cfg cache0 dst (isResp == "1") nq q? (ansFn tbl)
            ⟨h.trace, h.reply, h.cache, stale0⟩
        let st := { st with cache := o.cache, stale := o.stale }
        let keys := (o.cache.map keyLine).mergeSort (fun a b => decide (a ≤ b))
        if st.explain then
          let q' := q?.getD noQuestion
          let sel := requestSelect cfg q'
          let fam := (cache0.filter fun e => e.1.name == cacheName q'.name && e.1.qtype == q'.qtype).length
          let key : UpRef → CacheKey := fun u => ⟨cacheName q'.name, q'.qtype, scopeOf dst u, q'.qclass⟩
          let hit := match sel with
            | .to u => (cache0.lookup (key u)).isSome
            | _ => false
          let stl := match sel with
            | .to u => stale0.contains (key u) && hit
            | _ => false
          (st, s!"ask route:{reqSelStr sel} class:{if cl == 1 then "IN" else "other"} cached-family:{if fam == 0 then "0" else "1+"} hit:{boolStr hit} stale:{boolStr stl} queries:{o.trace.length} reply:{(replyStr o.reply).takeWhile (· != ':')}")
        else
        let errc := match o.reply with | .error e => errStr e | _ => "-"
        (st, s!"trace={",".intercalate (o.trace.map (upStr dst))} reply={replyStr o.reply} | cache={";".intercalate keys} err={errc}")
      | _, _ => (st, "bad-op")
    | _, _, _, _, _, _, _, _, _ => (st, "bad-op")
  | ["ga", t, name, qt, rx, ansTok] =>
    match t.toNat?, parseName name, qt.toNat?, parseList "rx:" rx, st.reqProg, st.respProg with
    | some t, some nm, some qt, some rx, some P, some Q =>
      let q : Question := { name := nm, qtype := qt, rx := rx }
      match parseAns (some q) ("0.a=" ++ ansTok) with
      | some (_, some r) =>
        let cfg : Cfg := { nUp := st.nUp, req := P, resp := Q, maxDepth := st.maxDepth }
        let w := st.world.move cfg (.start t q r)
        let now := match w.asks t with | some a => askStateStr w.s t a | none => "stuck"
        let rq := requestSelect (Res.live cfg) q
        let cls := match rq with
          | .to (.up k) => s!"ga route:upstream earlier-caller-in-ready-callback:{othersAt st.world.s st.callers t k isCb} earlier-caller-in-bootstrap:{othersAt st.world.s st.callers t k isBuild} published:{pubStr (st.world.s.pub k)}"
          | r => s!"ga route:{reqSelStr r}"
        ({ st with world := w, callers := t :: st.callers },
          if st.explain then s!"{cls} then:{stateKind now}"
          else
            -- the schedule-independent part: the route, and the decision for an answer of THAT upstream
            let dec := match rq with
              | .to u => respSelStr (responseSelect (Res.live cfg) r u)
              | _ => "-"
            s!"{now} ;; spec req={reqSelFull rq} resp={dec}")
      | _ => (st, "bad-op")
    | _, _, _, _, _, _ => (st, "bad-op")
  | ["gr", t, oc] =>
    match t.toNat?, st.reqProg, st.respProg with
    | some t, some P, some Q =>
      match st.world.asks t with
      | some _ =>
        let cfg : Cfg := { nUp := st.nUp, req := P, resp := Q, maxDepth := st.maxDepth }
        let w := st.world.move cfg (.release t (oc == "ok"))
        let now := match w.asks t with | some a => askStateStr w.s t a | none => "stuck"
        let k := st.world.s.tgt t
        let cls := s!"gr at:{if isCb (st.world.s.pc t) then "ready-callback" else "bootstrap"} outcome:{oc} other-callers-in-ready-callback:{othersAt st.world.s st.callers t k isCb} published-meanwhile:{pubStr (st.world.s.pub k)}"
        ({ st with world := w }, if st.explain then s!"{cls} then:{stateKind now}" else now)
      | none => (st, "bad-op")
    | _, _, _ => (st, "bad-op")
  | ["pref", name, qt1, qt2, rx, recs1, recs2] =>
    -- ip_version_prefer: the non-preferred answer waits for the preferred one; both are relayed unchanged
    match parseName name, qt1.toNat?, qt2.toNat?, parseList "rx:" rx, parseRecs recs1, parseRecs recs2, st.reqProg, st.respProg with
    | some nm, some qt1, some qt2, some rx, some recs1, some recs2, some P, some Q =>
      let cfg : Cfg := { nUp := st.nUp, req := P, resp := Q, maxDepth := st.maxDepth, dead := st.dead }
      let one (qt : Nat) (recs : List Rec) (cache : Cache) : Outcome :=
        let q : Question := { name := nm, qtype := qt, rx := rx }
        handle cfg cache 1 false (some q) (fun _ _ => some { isResponse := true, q := some q, recs := recs, rcodeOk := true })
      let o1 := one qt1 recs1 st.cache
      let o2 := one qt2 recs2 o1.cache
      ({ st with cache := o2.cache }, s!"r1={replyStr o1.reply} r2={replyStr o2.reply}")
    | _, _, _, _, _, _, _, _ => (st, "bad-op")
  | ["pair", name, qt, rx, recs] =>
    -- two clients with different as-is resolvers ask the same question at the same time: each is resolved
    -- at its own resolver (the singleflight key carries the scope)
    match parseName name, qt.toNat?, parseList "rx:" rx, parseRecs recs, st.reqProg, st.respProg with
    | some nm, some qt, some rx, some recs, some P, some Q =>
      let q : Question := { name := nm, qtype := qt, rx := rx }
      let cfg : Cfg := { nUp := st.nUp, req := P, resp := Q, maxDepth := st.maxDepth, dead := st.dead }
      let ansF : Upstreams := fun _ _ => some { isResponse := true, q := some q, recs := recs, rcodeOk := true }
      let o1 := handle cfg st.cache 1 false (some q) ansF
      let o2 := handle cfg o1.cache 2 false (some q) ansF
      let asked := ((o1.trace.map (upStr 1)) ++ (o2.trace.map (upStr 2))).mergeSort (fun a b => decide (a ≤ b))
      ({ st with cache := o2.cache }, s!"asked={",".intercalate asked} r1={replyStr o1.reply} r2={replyStr o2.reply}")
    | _, _, _, _, _, _ => (st, "bad-op")
  | _ => (st, "bad-op")

end C07Drv

def main : IO Unit := lineLoopS ({} : C07Drv.St) C07Drv.handleLine
