import DaeVerif.C07.Resolver
/-!
# C07 — every upstream a caller obtains is registered (all interleavings)

The clause "every upstream answer is routed by the first matching response rule (name, type, ANSWERING UPSTREAM,
addresses)" needs `ResponseSelect` to know which configured upstream answered: it reads `upstream2Index`.  The
resolver publishes an upstream for the lock-free fast path, other callers run concurrently, initialisations fail
and are retried.  The theorems here say that, whatever the schedule, an upstream object handed out by
`GetUpstream` — on the slow path or the fast path, first initialisation or retry — is in `upstream2Index` under
the index of the resolver that was asked, so `upstream(<that name>)` conditions see it.
-/
namespace DaeVerif.C07.Res

/-- the object a caller holds between its allocation and its registration. -/
def heldId : PC → Option Nat
  | .callback id => some id
  | .register id => some id
  | _ => none

/-- the object a caller is about to publish / has obtained. -/
def gotId : PC → Option Nat
  | .publish id => some id
  | .done (some id) => some id
  | _ => none

/-- the inductive invariant. -/
structure Inv (s : Sys) : Prop where
  /-- what the fast path hands out is registered under the resolver's own index -/
  pub_reg : ∀ k id, s.pub k = .ok id → s.reg id = some k
  /-- an object still being initialised is fresh ... -/
  held_lt : ∀ t id, heldId (s.pc t) = some id → id < s.next
  /-- ... in nobody's table ... -/
  held_unreg : ∀ t id, heldId (s.pc t) = some id → s.reg id = none
  /-- ... and held by one caller only -/
  uniq : ∀ t t' id, heldId (s.pc t) = some id → heldId (s.pc t') = some id → t = t'
  /-- nothing is registered before it is allocated -/
  reg_lt : ∀ id, s.next ≤ id → s.reg id = none
  /-- what a caller is about to publish / has obtained is registered under the index it asked for -/
  got : ∀ t id, gotId (s.pc t) = some id → s.reg id = some (s.tgt t)

theorem inv_init : Inv init := by
  refine ⟨?_, ?_, ?_, ?_, ?_, ?_⟩ <;> simp [init, heldId, gotId]

theorem inv_act (s : Sys) (a : Act) (h : Inv s) : Inv (s.act a) := by
  obtain ⟨hpub, hlt', hunreg, huniq, hlt, hgot⟩ := h
  cases a with
  | call t k =>
    simp only [Sys.act]
    split <;> (try exact ⟨hpub, hlt', hunreg, huniq, hlt, hgot⟩)
    all_goals
      rename_i hpc
      refine ⟨?_, ?_, ?_, ?_, ?_, ?_⟩
      all_goals (simp only [upd]; intros; grind [heldId, gotId])
  | step t ok =>
    simp only [Sys.act]
    split <;> (try exact ⟨hpub, hlt', hunreg, huniq, hlt, hgot⟩)
    all_goals
      rename_i hpc
      (try split)
      all_goals
        refine ⟨?_, ?_, ?_, ?_, ?_, ?_⟩
        all_goals (simp only [upd]; intros; grind [heldId, gotId])

theorem inv_run (s : Sys) (acts : List Act) (h : Inv s) : Inv (run s acts) := by
  induction acts generalizing s with
  | nil => exact h
  | cons a as ih => exact ih _ (inv_act s a h)


theorem run_append (s : Sys) (a b : List Act) : run s (a ++ b) = run (run s a) b := by
  simp [run, List.foldl_append]

/-- a registration is never overwritten or removed: the only write to `upstream2Index` goes to an object that is
in nobody's table yet. -/
theorem reg_stable_act (s : Sys) (a : Act) (h : Inv s) (id k : Nat) (hr : s.reg id = some k) :
    (s.act a).reg id = some k := by
  obtain ⟨_, _, hunreg, _, _, _⟩ := h
  cases a with
  | call t k' => simp only [Sys.act]; split <;> exact hr
  | step t ok =>
    simp only [Sys.act]
    split <;> (try exact hr)
    all_goals (try split) <;> (try exact hr)
    rename_i id' hpc
    have := hunreg t id' (by simp [heldId, hpc])
    simp only [upd]
    grind

theorem reg_stable_run (s : Sys) (acts : List Act) (h : Inv s) (id k : Nat) (hr : s.reg id = some k) :
    (run s acts).reg id = some k := by
  induction acts generalizing s with
  | nil => exact hr
  | cons a as ih => exact ih _ (inv_act s a h) (reg_stable_act s a h id k hr)

/-! the driver's composite moves are schedules of the transition system -/

theorem runToPark_run (s : Sys) (t f : Nat) : ∃ acts, s.runToPark t f = run s acts := by
  induction f generalizing s with
  | zero => exact ⟨[], rfl⟩
  | succ f ih =>
    unfold Sys.runToPark
    split <;> (try exact ⟨[], rfl⟩)
    obtain ⟨acts, h⟩ := ih (s.act (.step t true))
    exact ⟨.step t true :: acts, by rw [h]; rfl⟩

theorem settle_run (cfg : Cfg) (s : Sys) (t : Nat) (a : AskT) (f : Nat) :
    ∃ acts, (settle cfg s t a f).1 = run s acts := by
  induction f generalizing s a with
  | zero => exact ⟨[], rfl⟩
  | succ f ih =>
    unfold settle
    split <;> (try exact ⟨[], rfl⟩)
    split <;> (try exact ⟨[], rfl⟩)
    · split <;> (try exact ⟨[], rfl⟩)
      dsimp only
      split <;> (try exact ⟨[], rfl⟩)
      rename_i k1 _
      obtain ⟨a1, h1⟩ := runToPark_run (s.act (.call t k1)) t 8
      obtain ⟨a2, h2⟩ := ih ((s.act (.call t k1)).runToPark t 8) _
      refine ⟨.call t k1 :: (a1 ++ a2), ?_⟩
      rw [h2, h1]; simp [run, List.foldl_append]
    · split <;> exact ⟨[], rfl⟩

theorem askStart_run (cfg : Cfg) (s : Sys) (t : Nat) (q : Question) (ans : Resp) :
    ∃ acts, (askStart cfg s t q ans).1 = run s acts := by
  unfold askStart
  split
  · rename_i k _
    obtain ⟨a1, h1⟩ := runToPark_run (s.act (.call t k)) t 8
    obtain ⟨a2, h2⟩ := settle_run cfg ((s.act (.call t k)).runToPark t 8) t ⟨q, ans, .inReq k⟩ 4
    exact ⟨.call t k :: (a1 ++ a2), by rw [h2, h1]; simp [run, List.foldl_append]⟩
  · split
    · rename_i k1 _
      obtain ⟨a1, h1⟩ := runToPark_run (s.act (.call t k1)) t 8
      obtain ⟨a2, h2⟩ := settle_run cfg ((s.act (.call t k1)).runToPark t 8) t ⟨q, ans, .inResp (.to .asis) .asis k1⟩ 4
      exact ⟨.call t k1 :: (a1 ++ a2), by rw [h2, h1]; simp [run, List.foldl_append]⟩
    · exact ⟨[], rfl⟩
  · exact ⟨[], rfl⟩

theorem askRelease_run (cfg : Cfg) (s : Sys) (t : Nat) (a : AskT) (ok : Bool) :
    ∃ acts, (askRelease cfg s t a ok).1 = run s acts := by
  unfold askRelease
  split
  · obtain ⟨a1, h1⟩ := runToPark_run (s.act (.step t ok)) t 8
    obtain ⟨a2, h2⟩ := settle_run cfg ((s.act (.step t ok)).runToPark t 8) t a 4
    exact ⟨.step t ok :: (a1 ++ a2), by rw [h2, h1]; simp [run, List.foldl_append]⟩
  · exact ⟨[], rfl⟩

/-! ## under every schedule a question ends as routed -/

/-- what a question must end with, whatever the schedule -/
def SpecOK (cfg : Cfg) (q : Question) (answer : Resp) (r : AskRes) : Prop :=
  let rq := requestSelect (live cfg) q
  (r.req = rq ∨ (r.req = .err .upstreamInit ∧ ∃ k, rq = .to (.up k))) ∧
  (∀ u, r.req = .to u →
    r.from0 = some u ∧
    (r.resp = some (responseSelect (live cfg) answer u) ∨
      (r.resp = some (.err .upstreamInit) ∧ ∃ k1, responseSelect (live cfg) answer u = .next k1))) ∧
  (∀ k1, r.resp = some (.next k1) → r.from1 = some (.up k1))

/-- a question in flight is coherent with the resolver state -/
def AskOK (cfg : Cfg) (s : Sys) (t : Nat) (a : AskT) : Prop :=
  match a.stage with
  | .inReq k => s.tgt t = k ∧ s.pc t ≠ .idle ∧ requestSelect (live cfg) a.q = .to (.up k)
  | .inResp rq from0 k1 => s.tgt t = k1 ∧ s.pc t ≠ .idle ∧ rq = requestSelect (live cfg) a.q ∧ rq = .to from0 ∧
      responseSelect (live cfg) a.answer from0 = .next k1
  | .fin r => SpecOK cfg a.q a.answer r

theorem runToPark_tgt (s : Sys) (t f : Nat) : (s.runToPark t f).tgt = s.tgt := by
  induction f generalizing s with
  | zero => rfl
  | succ f ih =>
    unfold Sys.runToPark
    split <;> (try rfl)
    all_goals
      rw [ih]
      simp only [Sys.act]
      split <;> (try rfl)
      all_goals (try split) <;> rfl

theorem runToPark_inv (s : Sys) (t f : Nat) (h : Inv s) : Inv (s.runToPark t f) := by
  obtain ⟨acts, ha⟩ := runToPark_run s t f
  rw [ha]; exact inv_run s acts h

theorem runToPark_not_idle (s : Sys) (t f : Nat) (h : s.pc t ≠ .idle) : (s.runToPark t f).pc t ≠ .idle := by
  induction f generalizing s with
  | zero => exact h
  | succ f ih =>
    unfold Sys.runToPark
    split <;> (try exact h)
    all_goals
      apply ih
      simp only [Sys.act]
      split <;> (try simp_all [upd])
      all_goals (try split) <;> simp_all [upd]


/-- a move of caller `t` leaves the other callers where they are -/
def Frame (s s' : Sys) (t : Nat) : Prop := ∀ t', t' ≠ t → s'.pc t' = s.pc t' ∧ s'.tgt t' = s.tgt t'

theorem Frame.refl (s : Sys) (t : Nat) : Frame s s t := fun _ _ => ⟨rfl, rfl⟩
theorem Frame.trans {s1 s2 s3 : Sys} {t : Nat} (h1 : Frame s1 s2 t) (h2 : Frame s2 s3 t) : Frame s1 s3 t :=
  fun t' ht => ⟨(h2 t' ht).1.trans (h1 t' ht).1, (h2 t' ht).2.trans (h1 t' ht).2⟩

theorem frame_act_step (s : Sys) (t : Nat) (ok : Bool) : Frame s (s.act (.step t ok)) t := by
  intro t' ht
  simp only [Sys.act]
  split <;> (try exact ⟨rfl, rfl⟩)
  all_goals (try split) <;> simp [upd, ht]

theorem frame_act_call (s : Sys) (t k : Nat) : Frame s (s.act (.call t k)) t := by
  intro t' ht
  simp only [Sys.act]
  split <;> simp [upd, ht]

theorem frame_runToPark (s : Sys) (t f : Nat) : Frame s (s.runToPark t f) t := by
  induction f generalizing s with
  | zero => exact Frame.refl s t
  | succ f ih =>
    unfold Sys.runToPark
    split <;> (try exact Frame.refl s t)
    all_goals exact Frame.trans (frame_act_step s t true) (ih _)

theorem call_from_done (s : Sys) (t k : Nat) (r : Option Nat) (h : s.pc t = .done r) :
    (s.act (.call t k)).pc t = .start ∧ (s.act (.call t k)).tgt t = k := by
  simp [Sys.act, h, upd]

theorem call_from_idle (s : Sys) (t k : Nat) (h : s.pc t = .idle) :
    (s.act (.call t k)).pc t = .start ∧ (s.act (.call t k)).tgt t = k := by
  simp [Sys.act, h, upd]

theorem fromOf_got (s : Sys) (h : Inv s) (t id : Nat) (hd : s.pc t = .done (some id)) :
    s.fromOf (some id) = .up (s.tgt t) := by
  have := h.got t id (by simp [gotId, hd])
  simp [Sys.fromOf, this]

theorem settle_ok (cfg : Cfg) (t : Nat) (f : Nat) : ∀ (s : Sys) (a : AskT), Inv s → AskOK cfg s t a →
    Inv (settle cfg s t a f).1 ∧ AskOK cfg (settle cfg s t a f).1 t (settle cfg s t a f).2 ∧
    Frame s (settle cfg s t a f).1 t ∧ (settle cfg s t a f).2.q = a.q ∧ (settle cfg s t a f).2.answer = a.answer := by
  induction f with
  | zero => intro s a hi ha; exact ⟨hi, ha, Frame.refl s t, (by first | rfl | trivial), (by first | rfl | trivial)⟩
  | succ f ih =>
    intro s a hi ha
    unfold settle
    split
    · rename_i r hpc
      split
      · -- inReq k
        rename_i k hst
        have hk : s.tgt t = k ∧ s.pc t ≠ .idle ∧ requestSelect (live cfg) a.q = .to (.up k) := by
          simpa [AskOK, hst] using ha
        cases r with
        | none =>
          refine ⟨hi, ?_, Frame.refl s t, (by first | rfl | trivial), (by first | rfl | trivial)⟩
          simp only [AskOK, SpecOK, hk.2.2]
          refine ⟨Or.inr ⟨(by first | rfl | trivial), k, (by first | rfl | trivial)⟩, ?_, ?_⟩
          · intro u hu; cases hu
          · intro k1 h1; cases h1
        | some id =>
          have hfrom : s.fromOf (some id) = .up k := by rw [fromOf_got s hi t id hpc, hk.1]
          dsimp only
          rw [hfrom]
          split
          · rename_i k1 hsel
            have hc := call_from_done s t k1 _ hpc
            have hi1 : Inv ((s.act (.call t k1)).runToPark t 8) := runToPark_inv _ t 8 (inv_act s _ hi)
            have hok1 : AskOK cfg ((s.act (.call t k1)).runToPark t 8) t
                { a with stage := .inResp (.to (.up k)) (.up k) k1 } := by
              simp only [AskOK]
              refine ⟨?_, ?_, hk.2.2.symm, (by first | rfl | trivial), hsel⟩
              · rw [runToPark_tgt]; exact hc.2
              · apply runToPark_not_idle; rw [hc.1]; simp
            obtain ⟨r1, r2, r3, r4, r5⟩ := ih _ _ hi1 hok1
            exact ⟨r1, r2, Frame.trans (Frame.trans (frame_act_call s t k1) (frame_runToPark _ t 8)) r3, r4, r5⟩
          · rename_i d hne
            refine ⟨hi, ?_, Frame.refl s t, (by first | rfl | trivial), (by first | rfl | trivial)⟩
            simp only [AskOK, SpecOK, hk.2.2]
            refine ⟨Or.inl (by first | rfl | trivial), ?_, ?_⟩
            · intro u hu
              injection hu with hu; subst hu
              exact ⟨(by first | rfl | trivial), Or.inl (by first | rfl | trivial)⟩
            · intro k1 h1
              injection h1 with h1
              exact absurd h1 (hne k1)
      · -- inResp
        rename_i rq from0 k1 hst
        have hk : s.tgt t = k1 ∧ s.pc t ≠ .idle ∧ rq = requestSelect (live cfg) a.q ∧ rq = .to from0 ∧
            responseSelect (live cfg) a.answer from0 = .next k1 := by
          simpa [AskOK, hst] using ha
        cases r with
        | none =>
          refine ⟨hi, ?_, Frame.refl s t, (by first | rfl | trivial), (by first | rfl | trivial)⟩
          simp only [AskOK, SpecOK]
          refine ⟨Or.inl hk.2.2.1, ?_, ?_⟩
          · intro u hu
            have : u = from0 := by
              have := hk.2.2.2.1 ▸ hu
              injection this with this; exact this.symm
            subst this
            exact ⟨(by first | rfl | trivial), Or.inr ⟨(by first | rfl | trivial), k1, hk.2.2.2.2⟩⟩
          · intro k h1; injection h1 with h1; cases h1
        | some id =>
          have hfrom : s.fromOf (some id) = .up k1 := by rw [fromOf_got s hi t id hpc, hk.1]
          refine ⟨hi, ?_, Frame.refl s t, (by first | rfl | trivial), (by first | rfl | trivial)⟩
          simp only [AskOK, SpecOK]
          refine ⟨Or.inl hk.2.2.1, ?_, ?_⟩
          · intro u hu
            have : u = from0 := by
              have := hk.2.2.2.1 ▸ hu
              injection this with this; exact this.symm
            subst this
            exact ⟨(by first | rfl | trivial), Or.inl (by rw [hk.2.2.2.2])⟩
          · intro k h1
            injection h1 with h1; injection h1 with h1; subst h1
            rw [hfrom]
      · exact ⟨hi, ha, Frame.refl s t, (by first | rfl | trivial), (by first | rfl | trivial)⟩
    · exact ⟨hi, ha, Frame.refl s t, (by first | rfl | trivial), (by first | rfl | trivial)⟩


theorem askOK_frame (cfg : Cfg) (s s' : Sys) (t t' : Nat) (a : AskT) (hf : Frame s s' t) (ht : t' ≠ t)
    (h : AskOK cfg s t' a) : AskOK cfg s' t' a := by
  obtain ⟨h1, h2⟩ := hf t' ht
  unfold AskOK at *
  cases hst : a.stage <;> simp only [hst] at h ⊢
  · rw [h1, h2]; exact h
  · rw [h1, h2]; exact h
  · exact h

theorem askStart_ok (cfg : Cfg) (s : Sys) (t : Nat) (q : Question) (ans : Resp) (hi : Inv s)
    (hidle : s.pc t = .idle) :
    Inv (askStart cfg s t q ans).1 ∧ AskOK cfg (askStart cfg s t q ans).1 t (askStart cfg s t q ans).2 ∧
    Frame s (askStart cfg s t q ans).1 t := by
  unfold askStart
  split
  · rename_i k hsel
    have hc := call_from_idle s t k hidle
    have hi1 : Inv ((s.act (.call t k)).runToPark t 8) := runToPark_inv _ t 8 (inv_act s _ hi)
    have hok1 : AskOK cfg ((s.act (.call t k)).runToPark t 8) t ⟨q, ans, .inReq k⟩ := by
      simp only [AskOK]
      refine ⟨?_, ?_, hsel⟩
      · rw [runToPark_tgt]; exact hc.2
      · apply runToPark_not_idle; rw [hc.1]; simp
    obtain ⟨r1, r2, r3, _, _⟩ := settle_ok cfg t 4 _ _ hi1 hok1
    exact ⟨r1, r2, Frame.trans (Frame.trans (frame_act_call s t k) (frame_runToPark _ t 8)) r3⟩
  · rename_i hsel
    split
    · rename_i k1 hresp
      have hc := call_from_idle s t k1 hidle
      have hi1 : Inv ((s.act (.call t k1)).runToPark t 8) := runToPark_inv _ t 8 (inv_act s _ hi)
      have hok1 : AskOK cfg ((s.act (.call t k1)).runToPark t 8) t ⟨q, ans, .inResp (.to .asis) .asis k1⟩ := by
        simp only [AskOK]
        refine ⟨?_, ?_, hsel.symm, (by first | rfl | trivial), hresp⟩
        · rw [runToPark_tgt]; exact hc.2
        · apply runToPark_not_idle; rw [hc.1]; simp
      obtain ⟨r1, r2, r3, _, _⟩ := settle_ok cfg t 4 _ _ hi1 hok1
      exact ⟨r1, r2, Frame.trans (Frame.trans (frame_act_call s t k1) (frame_runToPark _ t 8)) r3⟩
    · rename_i d hne
      refine ⟨hi, ?_, Frame.refl s t⟩
      simp only [AskOK, SpecOK, hsel]
      refine ⟨Or.inl (by first | rfl | trivial), ?_, ?_⟩
      · intro u hu
        injection hu with hu; subst hu
        exact ⟨(by first | rfl | trivial), Or.inl (by first | rfl | trivial)⟩
      · intro k1 h1
        injection h1 with h1
        exact absurd h1 (hne k1)
  · rename_i r h1 h2
    refine ⟨hi, ?_, Frame.refl s t⟩
    simp only [AskOK, SpecOK]
    refine ⟨Or.inl (by first | rfl | trivial), ?_, ?_⟩
    · intro u hu
      cases u with
      | asis => exact absurd hu (h2)
      | up k => exact absurd hu (h1 k)
    · intro k1 hk; cases hk

theorem askRelease_ok (cfg : Cfg) (s : Sys) (t : Nat) (a : AskT) (ok : Bool) (hi : Inv s)
    (ha : AskOK cfg s t a) :
    Inv (askRelease cfg s t a ok).1 ∧ AskOK cfg (askRelease cfg s t a ok).1 t (askRelease cfg s t a ok).2 ∧
    Frame s (askRelease cfg s t a ok).1 t := by
  unfold askRelease
  split
  · rename_i hp
    have hi1 : Inv ((s.act (.step t ok)).runToPark t 8) := runToPark_inv _ t 8 (inv_act s _ hi)
    have hfr : Frame s ((s.act (.step t ok)).runToPark t 8) t :=
      Frame.trans (frame_act_step s t ok) (frame_runToPark _ t 8)
    have htgt : ((s.act (.step t ok)).runToPark t 8).tgt t = s.tgt t := by
      rw [runToPark_tgt]
      simp only [Sys.act]
      split <;> (try rfl)
      all_goals (try split) <;> rfl
    have hni : ((s.act (.step t ok)).runToPark t 8).pc t ≠ .idle := by
      apply runToPark_not_idle
      simp only [parked] at hp
      simp only [Sys.act]
      split <;> simp_all
      all_goals (try split) <;> simp_all [upd]
    have hok1 : AskOK cfg ((s.act (.step t ok)).runToPark t 8) t a := by
      unfold AskOK at *
      cases hst : a.stage <;> simp only [hst] at ha ⊢
      · rw [htgt]; exact ⟨ha.1, hni, ha.2.2⟩
      · rw [htgt]; exact ⟨ha.1, hni, ha.2.2⟩
      · exact ha
    obtain ⟨r1, r2, r3, _, _⟩ := settle_ok cfg t 4 _ _ hi1 hok1
    exact ⟨r1, r2, Frame.trans hfr r3⟩
  · exact ⟨hi, ha, Frame.refl s t⟩

structure WInv (cfg : Cfg) (w : World) : Prop where
  inv : Inv w.s
  idle : ∀ t, w.asks t = none → w.s.pc t = .idle
  ok : ∀ t a, w.asks t = some a → AskOK cfg w.s t a

theorem winv_init (cfg : Cfg) : WInv cfg World.init :=
  ⟨inv_init, fun _ _ => rfl, fun t a h => by simp [World.init] at h⟩

theorem winv_move (cfg : Cfg) (w : World) (m : Move) (h : WInv cfg w) : WInv cfg (w.move cfg m) := by
  obtain ⟨hi, hidle, hok⟩ := h
  cases m with
  | start t q ans =>
    simp only [World.move]
    split
    · exact ⟨hi, hidle, hok⟩
    · rename_i hnone
      obtain ⟨r1, r2, r3⟩ := askStart_ok cfg w.s t q ans hi (hidle t hnone)
      refine ⟨r1, ?_, ?_⟩
      · intro t' ht'
        by_cases e : t' = t
        · subst e; simp [upd] at ht'
        · simp only [upd, e, if_false] at ht'
          rw [(r3 t' e).1]; exact hidle t' ht'
      · intro t' a' ht'
        by_cases e : t' = t
        · subst e
          simp only [upd, if_true] at ht'
          injection ht' with ht'; subst ht'; exact r2
        · simp only [upd, e, if_false] at ht'
          exact askOK_frame cfg w.s _ t t' a' r3 e (hok t' a' ht')
  | release t ok =>
    simp only [World.move]
    split
    · rename_i a hsome
      obtain ⟨r1, r2, r3⟩ := askRelease_ok cfg w.s t a ok hi (hok t a hsome)
      refine ⟨r1, ?_, ?_⟩
      · intro t' ht'
        by_cases e : t' = t
        · subst e; simp [upd] at ht'
        · simp only [upd, e, if_false] at ht'
          rw [(r3 t' e).1]; exact hidle t' ht'
      · intro t' a' ht'
        by_cases e : t' = t
        · subst e
          simp only [upd, if_true] at ht'
          injection ht' with ht'; subst ht'; exact r2
        · simp only [upd, e, if_false] at ht'
          exact askOK_frame cfg w.s _ t t' a' r3 e (hok t' a' ht')
    · exact ⟨hi, hidle, hok⟩

theorem winv_moves (cfg : Cfg) (moves : List Move) : WInv cfg (moves.foldl (World.move cfg) World.init) := by
  suffices ∀ w, WInv cfg w → WInv cfg (moves.foldl (World.move cfg) w) from this _ (winv_init cfg)
  induction moves with
  | nil => intro w h; exact h
  | cons m ms ih => intro w h; exact ih _ (winv_move cfg w m h)


/-! ## what goes wrong when the order is the other way round (used only by the `example` in `Props`)

`GetUpstream` with the `state.Store` of the fresh object moved BEFORE `FinishInitCallback`. -/
def Sys.actEarly (s : Sys) : Act → Sys
  | .step t ok =>
    let k := s.tgt t
    match s.pc t with
    | .build =>
      if ok then { s with pub := upd s.pub k (.ok s.next), pc := upd s.pc t (.callback s.next), next := s.next + 1 }
      else { s with pc := upd s.pc t .markFailed }
    | .publish id => { s with pc := upd s.pc t (.done (some id)) }
    | _ => s.act (.step t ok)
  | a => s.act a

end DaeVerif.C07.Res

namespace DaeVerif.C07.Props
open DaeVerif.C07 DaeVerif.C07.Res

/-- **Every upstream a caller obtains is registered.**  For EVERY schedule of any number of concurrent callers of
`GetUpstream` on any resolvers — slow path and fast path, first initialisation, failing initialisations
(bootstrap resolution or the upstream-ready callback) and retries, callers parked inside the blocking ready
callback for arbitrarily long — an upstream object `GetUpstream` returns is in `upstream2Index` under the index of
the resolver that was asked. -/
theorem obtained_upstream_is_registered (acts : List Act) (t id : Nat)
    (h : (run init acts).pc t = .done (some id)) :
    (run init acts).reg id = some ((run init acts).tgt t) :=
  (inv_run init acts inv_init).got t id (by simp [gotId, h])

/-- the same for what the lock-free fast path reads: a published upstream is a registered one. -/
theorem published_upstream_is_registered (acts : List Act) (k id : Nat)
    (h : (run init acts).pub k = .ok id) : (run init acts).reg id = some k :=
  (inv_run init acts inv_init).pub_reg k id h

/-- ... and it stays registered under that index whatever happens afterwards (the caller uses the upstream after a
network round trip, while other callers initialise, fail and retry). -/
theorem obtained_upstream_stays_registered (acts later : List Act) (t id : Nat)
    (h : (run init acts).pc t = .done (some id)) :
    (run init (acts ++ later)).reg id = some ((run init acts).tgt t) := by
  rw [run_append]
  exact reg_stable_run _ later (inv_run init acts inv_init) id _ (obtained_upstream_is_registered acts t id h)

/-- **Answers of an obtained upstream are routed by `upstream(...)` rules.**  `ResponseSelect` reads the answering
upstream's index from `upstream2Index`; for an upstream obtained from resolver `k` — at any later time — it reads
`k`, never as-is: the response decision is the one for "answered by upstream `k`", and a condition `upstream(k)`
holds of the answer. -/
theorem answers_of_obtained_upstream_are_routed_by_upstream_rules (acts later : List Act) (t id : Nat)
    (cfg : Cfg) (r : Resp) (h : (run init acts).pc t = .done (some id)) :
    let k := (run init acts).tgt t
    let s := run init (acts ++ later)
    s.fromOf (some id) = .up k ∧
    responseSelect cfg r (s.fromOf (some id)) = responseSelect cfg r (.up k) ∧
    (Func.upstream false [k]).holds (respEnv r (s.fromOf (some id))) = true := by
  have hr := obtained_upstream_stays_registered acts later t id h
  have hf : (run init (acts ++ later)).fromOf (some id) = .up ((run init acts).tgt t) := by
    simp [Sys.fromOf, hr]
  refine ⟨hf, by rw [hf], ?_⟩
  rw [hf]
  cases hq : r.q <;> simp [Func.holds, Func.anyParam, Func.neg, respEnv, hq, UpRef.index]

/-- **A failed initialisation is retried, and the retry is published.**  From every reachable state in which
resolver `k` holds no upstream (never initialised, or the last initialisation failed — also while other callers
are parked inside their own attempts), a caller whose bootstrap resolution and ready callback succeed obtains a
fresh registered upstream, and the fast path hands out that one from then on. -/
theorem retry_after_failure_succeeds (acts : List Act) (t k : Nat) (b1 b2 b3 : Bool)
    (hidle : (run init acts).pc t = .idle ∨ ∃ r, (run init acts).pc t = .done r)
    (hno : ∀ id, (run init acts).pub k ≠ .ok id) :
    let s := run init acts
    let s' := run s [.call t k, .step t b1, .step t true, .step t true, .step t b2, .step t b3]
    s'.pc t = .done (some s.next) ∧ s'.pub k = .ok s.next ∧ s'.reg s.next = some k := by
  intro s s'
  have hpub : ∀ id, s.pub k ≠ .ok id := hno
  have hstart : (s.act (.call t k)).pc t = .start ∧ (s.act (.call t k)).tgt t = k ∧
      (s.act (.call t k)).pub = s.pub ∧ (s.act (.call t k)).next = s.next := by
    rcases hidle with h | ⟨r, h⟩ <;> simp [s, Sys.act, h, upd]
  obtain ⟨h1, h2, h3, h4⟩ := hstart
  simp only [s', run, List.foldl]
  generalize s.act (.call t k) = s1 at *
  have hb : (s1.act (.step t b1)).pc t = .build ∧ (s1.act (.step t b1)).tgt t = k ∧
      (s1.act (.step t b1)).next = s.next := by
    simp only [Sys.act, h1, h2]
    cases hp : s1.pub k with
    | ok id => exact absurd (h3 ▸ hp) (hpub id)
    | unset => simp [upd, h2, h4]
    | failed => simp [upd, h2, h4]
  obtain ⟨g1, g2, g3⟩ := hb
  generalize s1.act (.step t b1) = s2 at *
  simp [Sys.act, g1, g2, g3, upd]


/-- **Under every schedule a question ends as routed.**  Any number of client questions are started and their
blocking operations released in ANY order with ANY outcomes (`moves`); whenever a question has ended (`fin r`):
* its route is the one of the first matching request rule — or, for an upstream route, the initialisation error;
* the upstream it was handed reads in `upstream2Index` as the routed one (`from0`), and the decision on that
  upstream's answer is `ResponseSelect`'s for "answered by the routed upstream" (first matching response rule,
  `response_select_is_first_match`) — or, for a re-ask, the initialisation error of the re-ask upstream;
* a re-ask upstream it was handed reads as the re-ask upstream (`from1`).
This is the statement the check judges the real code's `done …` lines by (`Res.SpecOK`). -/
theorem question_ends_as_routed_under_every_schedule (cfg : Cfg) (moves : List Move) (t : Nat) (a : AskT)
    (r : AskRes) (h : (moves.foldl (World.move cfg) World.init).asks t = some a) (hf : a.stage = .fin r) :
    SpecOK cfg a.q a.answer r := by
  have := (winv_moves cfg moves).ok t a h
  simpa [AskOK, hf] using this

-- non-vacuity: `request { fallback: u0 }  response { upstream(u0) -> reject; fallback: accept }`; two questions
-- interleaved (the second starts while the first is inside the ready callback, then the first one's callback
-- fails): the first ends with the initialisation error, the second as routed — emptied by the upstream(u0) rule
def exCfg : Cfg :=
  { nUp := 1, req := (compileRequest [] 0).getD default, resp := (compile [⟨[.upstream false [0]], 0xFD⟩] 0xFC).getD default }
def exQ : Question := { name := "a.com.".toList, qtype := 1, rx := [] }
def exAns : Resp := { isResponse := true, q := some exQ, recs := [.a 0x0a000001], rcodeOk := true }
def finOf (a : AskT) : Option (ReqSel × Option UpRef × Option RespSel) :=
  match a.stage with
  | .fin r => some (r.req, r.from0, r.resp)
  | _ => none
example :
    let w := [Move.start 1 exQ exAns, .release 1 true, .start 2 exQ exAns, .release 1 false,
      .release 2 true, .release 2 true].foldl (World.move exCfg) World.init
    (w.asks 1).bind finOf = some (.err .upstreamInit, none, none) ∧
    (w.asks 2).bind finOf = some (.to (.up 0), some (.up 0), some .reject) := by
  decide

-- non-vacuity: caller 1 is parked inside the ready callback of u0's first initialisation; caller 2 asks for u0
-- meanwhile: it does NOT get caller 1's unregistered object, it starts its own initialisation
example : (run init [.call 1 0, .step 1 true, .step 1 true, .call 2 0, .step 2 true]).pc 1 = .callback 0 ∧
    (run init [.call 1 0, .step 1 true, .step 1 true, .call 2 0, .step 2 true]).pc 2 = .build := by decide
-- both finish: each obtained its own object, both registered under index 0, the last publication wins
example :
    let s := run init [.call 1 0, .step 1 true, .step 1 true, .call 2 0, .step 2 true, .step 2 true, .step 2 true,
      .step 2 true, .step 2 true, .step 1 true, .step 1 true, .step 1 true]
    s.pc 1 = .done (some 0) ∧ s.pc 2 = .done (some 1) ∧ s.reg 0 = some 0 ∧ s.reg 1 = some 0 ∧ s.pub 0 = .ok 0 := by
  decide
-- a failing ready callback after another caller has published: the published upstream is replaced by the retry
-- mark, the next caller initialises again — and still only registered objects are handed out
example :
    let s := run init [.call 1 0, .step 1 true, .step 1 true, .call 2 0, .step 2 true, .step 2 true, .step 2 true,
      .step 2 true, .step 2 true, .step 1 false, .step 1 true, .call 3 0, .step 3 true]
    s.pc 1 = .done none ∧ s.pc 2 = .done (some 1) ∧ s.pub 0 = .failed ∧ s.pc 3 = .build := by decide
-- the theorem has teeth: with `state.Store` moved before `FinishInitCallback` (`actEarly`) the same schedule hands
-- caller 2 the object caller 1 is still initialising — not registered, so `ResponseSelect` reads as-is
example :
    let s := [Act.call 1 0, .step 1 true, .step 1 true, .call 2 0, .step 2 true].foldl Sys.actEarly init
    s.pc 1 = .callback 0 ∧ s.pc 2 = .done (some 0) ∧ s.reg 0 = none ∧ s.fromOf (some 0) = .asis := by decide

end DaeVerif.C07.Props
