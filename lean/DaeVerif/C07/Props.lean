import DaeVerif.C07.Proofs
namespace DaeVerif.C07.Props
open DaeVerif.C07 DaeVerif.RuleScan

/-- placeholder while the pipeline is brought up -/
theorem reject_beats_cache0 (cfg : Cfg) (cache : Cache) (dst : Nat) (q : Question) (ans : Upstreams)
    (h : requestSelect cfg q = .reject) :
    (handle cfg cache dst false (some q) ans).reply = .rejected := by
  simp [handle, h]

end DaeVerif.C07.Props
