import DaeVerif.C07.Proofs
import DaeVerif.C07.Skeleton
/-!
# C07 — property theorems

Only statements a reader should audit live here (namespace `DaeVerif.C07.Props`); helper lemmas are
in `Proofs.lean`, definitions in `Model.lean`.  Every theorem quantifies over ALL rule lists,
questions, answers and upstream behaviours; non-vacuity `example`s follow the theorems.

Reading aid — the specification side is three small definitions of `Model.lean`:
`Func.holds` (a call holds iff "some parameter matches" differs from its `!`),
`SrcRule.holds` (all calls hold) and `firstMatchSrc` (outbound of the first rule that holds, else
the fallback).  The implementation side is `scanGo` (the `Match` loop, statement by statement) over
`compile` (what the builders write: match sets, domain-set table indexed by match-set position,
ip-set table indexed by `Value`).
-/
namespace DaeVerif.C07.Props
open DaeVerif.C07 DaeVerif.RuleScan

/-- What `dns.New` and the builders guarantee of outbound bytes: user upstream ids stay below
`0xFC` (`too many upstreams` otherwise), `reject/asis/accept` are `0xFC/0xFD`; `0xFE/0xFF` are
never a rule's outbound (`upstream "…" not found`). -/
def OutsOK (rs : List SrcRule) (fb : Nat) : Prop := (∀ r ∈ rs, r.out < 0xFE) ∧ fb < 0xFE

/-- What the dae parser guarantees of a rule list (`empty parameter list is not supported`,
a rule has at least one call); `internal` calls are not DNS conditions. -/
def WellFormed (rs : List SrcRule) : Prop :=
  ∀ r ∈ rs, r.funcs ≠ [] ∧ ∀ f ∈ r.funcs, f.nonEmpty = true

/-- The builder model accepts every well-formed rule list, so the hypothesis
`compile rs fb = some P` of the theorems below holds for everything the parser can hand over. -/
theorem builder_accepts_wellformed (rs : List SrcRule) (fb : Nat) (h : WellFormed rs) :
    (compile rs fb).isSome = true := by
  have := toRules_isSome rs h
  unfold compile
  cases hR : toRules rs with
  | none => simp [hR] at this
  | some R => rfl

/-- What the parser and `classifyRequestRule` guarantee of a REQUEST rule list the request builder
accepts: a rule is either made of internal selectors (`sub/node/subnode`: split away) or of `qname` /
`qtype` calls with at least one parameter each. -/
def WellFormedRequest (rs : List SrcRule) : Prop :=
  ∀ r ∈ rs, r.isInternal = true ∨
    (r.funcs ≠ [] ∧ ∀ f ∈ r.funcs, f.isReqFunc = true ∧ f.nonEmpty = true)

/-- ... and the request builder model accepts every such list: the hypothesis
`compileRequest rs fb = some P` of the request theorems holds for all of them. -/
theorem compileRequest_accepts_wellformed (rs : List SrcRule) (fb : Nat) (h : WellFormedRequest rs) :
    (compileRequest rs fb).isSome = true := by
  have hsplit : ∀ r ∈ splitRequestRules rs,
      r.funcs ≠ [] ∧ ∀ f ∈ r.funcs, f.isReqFunc = true ∧ f.nonEmpty = true := by
    intro r hr
    obtain ⟨hmem, hni⟩ := List.mem_filter.mp hr
    rcases h r hmem with hi | hok
    · simp [hi] at hni
    · exact hok
  unfold compileRequest
  have hall : (splitRequestRules rs).all (fun r => r.funcs.all Func.isReqFunc) = true := by
    rw [List.all_eq_true]; intro r hr
    rw [List.all_eq_true]; intro f hf
    exact ((hsplit r hr).2 f hf).1
  simp only [hall, if_true]
  exact builder_accepts_wellformed _ fb (fun r hr => ⟨(hsplit r hr).1, fun f hf => ((hsplit r hr).2 f hf).2⟩)

/-! ## Clause 1 — questions are routed by the first matching request rule -/

/-- **Request routing is first-match.** For every request rule list and fallback the builder
accepts, every name (any case, dots, empty), every qtype: `RequestMatcher.Match` over the compiled
match sets returns the outbound of the first DNS rule (internal `sub/node/subnode` rules skipped)
all of whose conditions hold, else the fallback. -/
theorem request_match_is_first_match (rs : List SrcRule) (fb : Nat) (P : Prog) (env : Env)
    (hc : compileRequest rs fb = some P) (hw : OutsOK rs fb) :
    requestMatch P env = .hit (firstMatchSrc env (splitRequestRules rs) fb) := by
  unfold compileRequest at hc
  split at hc
  · have hout : ∀ r ∈ splitRequestRules rs, r.out < 0xFE := fun r hr =>
      hw.1 r (List.mem_filter.mp hr).1
    simp [requestMatch, scanGo_compile env _ fb P hc hout hw.2]
  · cases hc

-- non-vacuity: a four-rule list (two conditions, negation, two keys, an internal rule) compiles,
-- satisfies `OutsOK`, and the three questions below take three different exits.
example : (compileRequest Ex.reqRules 0xFD).isSome = true ∧ OutsOK Ex.reqRules 0xFD := by
  refine ⟨by decide, ?_⟩; unfold OutsOK Ex.reqRules; decide
example : firstMatchSrc Ex.envExample (splitRequestRules Ex.reqRules) 0xFD = 1 := by decide     -- rule 1 → u1
example : firstMatchSrc Ex.envXorg (splitRequestRules Ex.reqRules) 0xFD = 0xFC := by decide     -- rule 3 → reject
example : firstMatchSrc Ex.envOther (splitRequestRules Ex.reqRules) 0xFD = 0xFD := by decide    -- fallback → asis

/-- "first matching rule" spelled out (no recursion to read): either the list splits as
`pre ++ r :: post` with no rule of `pre` holding, `r` holding and the result being `r`'s outbound,
or no rule holds and the result is the fallback. -/
theorem first_match_is_first (env : Env) (rs : List SrcRule) (fb : Nat) :
    (∃ pre r post, rs = pre ++ r :: post ∧ (∀ x ∈ pre, x.holds env = false) ∧ r.holds env = true ∧
        firstMatchSrc env rs fb = r.out) ∨
    ((∀ x ∈ rs, x.holds env = false) ∧ firstMatchSrc env rs fb = fb) :=
  firstMatchSrc_char env fb rs

/-- Names are matched case-insensitively and up to ONE trailing dot: two non-empty names with the
same `ToLower(TrimSuffix(·, "."))` are routed alike by every rule list (same regex oracle). -/
theorem name_case_and_trailing_dot (rs : List SrcRule) (fb : Nat) (env : Env) (n' : List Char)
    (h1 : env.name ≠ []) (h2 : n' ≠ []) (hn : normName env.name = normName n') :
    firstMatchSrc { env with name := n' } rs fb = firstMatchSrc env rs fb := by
  have e1 : (env.name != []) = true := by simpa using h1
  have e2 : (n' != []) = true := by simpa using h2
  have hf : ∀ f : Func, f.holds { env with name := n' } = f.holds env := by
    intro f
    cases f <;> simp [Func.holds, Func.anyParam, hn, e1, e2]
  have hr : ∀ r : SrcRule, r.holds { env with name := n' } = r.holds env := by
    intro r; simp only [SrcRule.holds]; congr 1; funext f; exact hf f
  induction rs with
  | nil => rfl
  | cons r rs ih => simp [firstMatchSrc, hr, ih]

example : Ex.envExample.name ≠ [] ∧ "a.example.com".toList ≠ [] ∧
    normName Ex.envExample.name = normName "a.example.com".toList := by decide
-- ... but only ONE dot is trimmed: `a.example.com..` is a different name
example : normName "a.example.com..".toList ≠ normName "a.example.com".toList := by decide

/-- the same for the compiled matcher itself: `RequestMatcher.Match` answers alike for two non-empty
names that differ only in letter case and one trailing dot. -/
theorem request_match_case_and_trailing_dot (rs : List SrcRule) (fb : Nat) (P : Prog) (env : Env)
    (n' : List Char) (hc : compileRequest rs fb = some P) (hw : OutsOK rs fb)
    (h1 : env.name ≠ []) (h2 : n' ≠ []) (hn : normName env.name = normName n') :
    requestMatch P { env with name := n' } = requestMatch P env := by
  rw [request_match_is_first_match rs fb P _ hc hw, request_match_is_first_match rs fb P _ hc hw,
    name_case_and_trailing_dot _ fb env n' h1 h2 hn]

/-- `RequestSelect`: the decoded decision. `reject`/`asis` are the bytes `0xFC`/`0xFD`; any other
byte is an upstream index, which the builder took from the defined upstreams (`< nUp`). -/
def decodeReq (dead : List Nat) (o : Nat) : ReqSel :=
  if o == 0xFC then .reject else if o == 0xFD then .to .asis
  else if dead.contains o then .err .upstreamInit   -- `GetUpstream` fails: the question is not sent anywhere
  else .to (.up o)

theorem firstMatchSrc_mem (env : Env) (rs : List SrcRule) (fb : Nat) :
    firstMatchSrc env rs fb = fb ∨ ∃ r ∈ rs, firstMatchSrc env rs fb = r.out := by
  rcases firstMatchSrc_char env fb rs with ⟨pre, r, post, rfl, _, _, h⟩ | ⟨_, h⟩
  · exact Or.inr ⟨r, by simp, h⟩
  · exact Or.inl h

theorem request_select_is_first_match (cfg : Cfg) (rs : List SrcRule) (fb : Nat) (q : Question)
    (hc : compileRequest rs fb = some cfg.req)
    (hup : ∀ o, (o = fb ∨ ∃ r ∈ rs, o = r.out) → o < cfg.nUp ∨ o = 0xFC ∨ o = 0xFD)
    (hn : cfg.nUp ≤ 0xFC) :
    requestSelect cfg q = decodeReq cfg.dead (firstMatchSrc (reqEnv q) (splitRequestRules rs) fb) := by
  have hw : OutsOK rs fb := by
    constructor
    · intro r hr; rcases hup r.out (Or.inr ⟨r, hr, rfl⟩) with h | h | h <;> omega
    · rcases hup fb (Or.inl rfl) with h | h | h <;> omega
  unfold requestSelect
  rw [request_match_is_first_match rs fb cfg.req (reqEnv q) hc hw]
  have hm := firstMatchSrc_mem (reqEnv q) (splitRequestRules rs) fb
  have : firstMatchSrc (reqEnv q) (splitRequestRules rs) fb < cfg.nUp ∨
      firstMatchSrc (reqEnv q) (splitRequestRules rs) fb = 0xFC ∨
      firstMatchSrc (reqEnv q) (splitRequestRules rs) fb = 0xFD := by
    apply hup
    rcases hm with h | ⟨r, hr, h⟩
    · exact Or.inl h
    · exact Or.inr ⟨r, (List.mem_filter.mp hr).1, h⟩
  generalize firstMatchSrc (reqEnv q) (splitRequestRules rs) fb = o at this
  simp only [decodeReq]
  rcases this with h | h | h
  · have a : (o == 0xFC) = false := by simp; omega
    have b : (o == 0xFD) = false := by simp; omega
    have c : ¬ o ≥ cfg.nUp := by omega
    simp [a, b, c]
  · subst h; simp
  · subst h; simp

example : compileRequest Ex.reqRules 0xFD = some Ex.cfg2.req ∧ Ex.cfg2.nUp ≤ 0xFC ∧
    (∀ o, (o = 0xFD ∨ ∃ r ∈ Ex.reqRules, o = r.out) → o < Ex.cfg2.nUp ∨ o = 0xFC ∨ o = 0xFD) := by
  refine ⟨by decide, by decide, ?_⟩
  intro o h
  rcases h with rfl | ⟨x, hx, rfl⟩
  · decide
  · simp only [Ex.reqRules, List.mem_cons, List.mem_nil_iff, or_false] at hx
    rcases hx with rfl | rfl | rfl | rfl <;> decide

/-! ### dae's own look-ups (`daedns.Router`) use the same request rules -/

def decodeDae (o : Nat) : DaeSel := if o == 0xFD || o == 0xFC then .pass else .up o

/-- **dae's own look-ups are routed by the first matching request rule too.** For every look-up of a
node / subscription host and every query type, `daedns.Router.selectUpstream` picks the upstream named by
the first DNS request rule that holds for `CanonicalName(host)` and that type (else the fallback);
`asis` and — code as it is — also `reject` mean "hand the look-up to the base resolver". -/
theorem daedns_select_is_first_match (cfg : Cfg) (rs : List SrcRule) (fb : Nat) (host : List Char)
    (qtype : Nat) (rx : List String) (hc : compileRequest rs fb = some cfg.req)
    (hup : ∀ o, (o = fb ∨ ∃ r ∈ rs, o = r.out) → o < cfg.nUp ∨ o = 0xFC ∨ o = 0xFD)
    (hn : cfg.nUp ≤ 0xFC) :
    daednsSelect cfg host qtype rx =
      decodeDae (firstMatchSrc ⟨canonName host, qtype, [], 0, rx⟩ (splitRequestRules rs) fb) := by
  have hw : OutsOK rs fb := by
    constructor
    · intro r hr; rcases hup r.out (Or.inr ⟨r, hr, rfl⟩) with h | h | h <;> omega
    · rcases hup fb (Or.inl rfl) with h | h | h <;> omega
  unfold daednsSelect
  rw [request_match_is_first_match rs fb cfg.req _ hc hw]
  have hm := firstMatchSrc_mem ⟨canonName host, qtype, [], 0, rx⟩ (splitRequestRules rs) fb
  have : firstMatchSrc ⟨canonName host, qtype, [], 0, rx⟩ (splitRequestRules rs) fb < cfg.nUp ∨
      firstMatchSrc ⟨canonName host, qtype, [], 0, rx⟩ (splitRequestRules rs) fb = 0xFC ∨
      firstMatchSrc ⟨canonName host, qtype, [], 0, rx⟩ (splitRequestRules rs) fb = 0xFD := by
    apply hup
    rcases hm with h | ⟨r, hr, h⟩
    · exact Or.inl h
    · exact Or.inr ⟨r, (List.mem_filter.mp hr).1, h⟩
  generalize firstMatchSrc ⟨canonName host, qtype, [], 0, rx⟩ (splitRequestRules rs) fb = o at this
  simp only [decodeDae]
  rcases this with h | h | h
  · have a : (o == 0xFC) = false := by simp; omega
    have b : (o == 0xFD) = false := by simp; omega
    have c : ¬ o ≥ cfg.nUp := by omega
    simp [a, b, c]
  · subst h; simp
  · subst h; simp

/-! ## Clause 3 — answers are routed by the first matching response rule -/

/-- **Response routing is first-match** over name, type, answering upstream and answer addresses. -/
theorem response_match_is_first_match (rs : List SrcRule) (fb : Nat) (P : Prog) (env : Env)
    (hc : compile rs fb = some P) (hw : OutsOK rs fb) (hn : env.name ≠ []) :
    responseMatch P env = .hit (firstMatchSrc env rs fb) := by
  have : (env.name == []) = false := by simpa using hn
  simp [responseMatch, this, scanGo_compile env rs fb P hc hw.1 hw.2]

-- non-vacuity: an answer `[CNAME, A 10.1.2.3]` from u0 is re-asked at u1 (rule 1: answering
-- upstream AND address in 10/8), the same answer from u1 is emptied (rule 2), from as-is too.
example : (compile Ex.respRules 0xFC).isSome = true ∧ OutsOK Ex.respRules 0xFC ∧
    (respEnv Ex.respPolluted (.up 0)).name ≠ [] := by
  refine ⟨by decide, ?_, by decide⟩; unfold OutsOK Ex.respRules; decide
example : firstMatchSrc (respEnv Ex.respPolluted (.up 0)) Ex.respRules 0xFC = 1 := by decide
example : firstMatchSrc (respEnv Ex.respPolluted (.up 1)) Ex.respRules 0xFC = 0xFD := by decide
example : responseSelect Ex.cfg2 Ex.respPolluted (.up 0) = .next 1 := by decide
example : responseSelect Ex.cfg2 Ex.respPolluted .asis = .reject := by decide

/-- An answer without a usable question name is not routed at all (the matcher returns an error). -/
theorem response_match_empty_name (P : Prog) (env : Env) (hn : env.name = []) :
    responseMatch P env = .emptyName := by
  simp [responseMatch, hn]

def decodeResp (dead : List Nat) (o : Nat) : RespSel :=
  if o == 0xFC then .accept else if o == 0xFD then .reject
  else if dead.contains o then .err .upstreamInit
  else .next o

theorem response_select_is_first_match (cfg : Cfg) (rs : List SrcRule) (fb : Nat) (r : Resp) (u : UpRef)
    (q : Question) (hq : r.q = some q) (hname : q.name ≠ []) (hresp : r.isResponse = true)
    (hc : compile rs fb = some cfg.resp)
    (hup : ∀ o, (o = fb ∨ ∃ x ∈ rs, o = x.out) → o < cfg.nUp ∨ o = 0xFC ∨ o = 0xFD)
    (hn : cfg.nUp ≤ 0xFC) :
    responseSelect cfg r u = decodeResp cfg.dead (firstMatchSrc (respEnv r u) rs fb) := by
  have hw : OutsOK rs fb := by
    constructor
    · intro x hx; rcases hup x.out (Or.inr ⟨x, hx, rfl⟩) with h | h | h <;> omega
    · rcases hup fb (Or.inl rfl) with h | h | h <;> omega
  have henv : (respEnv r u).name ≠ [] := by simp [respEnv, hq, hname]
  unfold responseSelect
  rw [response_match_is_first_match rs fb cfg.resp (respEnv r u) hc hw henv]
  have : firstMatchSrc (respEnv r u) rs fb < cfg.nUp ∨ firstMatchSrc (respEnv r u) rs fb = 0xFC ∨
      firstMatchSrc (respEnv r u) rs fb = 0xFD :=
    hup _ (firstMatchSrc_mem (respEnv r u) rs fb)
  generalize firstMatchSrc (respEnv r u) rs fb = o at this
  simp only [hresp, decodeResp, Bool.not_true, Bool.false_eq_true, if_false]
  rcases this with h | h | h
  · have a : (o == 0xFC) = false := by simp; omega
    have b : (o == 0xFD) = false := by simp; omega
    have c : ¬ o ≥ cfg.nUp := by omega
    simp [a, b, c]
  · subst h; simp
  · subst h; simp

/-- The addresses a response rule sees are exactly the A / AAAA records of the answer section
(IPv4 in mapped form); other records contribute nothing. -/
theorem response_addresses (r : Resp) (u : UpRef) (q : Question) (hq : r.q = some q) :
    (respEnv r u).ips = r.recs.filterMap Rec.ip? ∧ (respEnv r u).«from» = u.index := by
  simp [respEnv, hq]

/-- Only the ANSWER section is routed: whatever an upstream puts into the authority or additional
section (glue records, anything hostile) changes no response-routing decision. -/
theorem extra_sections_do_not_route (cfg : Cfg) (r : Resp) (u : UpRef) (ns extra : List Rec) :
    responseSelect cfg { r with ns := ns, extra := extra } u = responseSelect cfg r u := by
  cases hq : r.q <;> simp [responseSelect, respEnv, hq]

/-! ## Clause 2 — reject beats the cache -/

/-- **Reject beats cache.** Whatever the cache holds, a message (with or without question) routed to
`reject` gets the empty answer and no upstream is asked; every cached answer of that (name, type, class) —
under every scope — is gone afterwards (for every name: since 4e63a53 a `|` of the name is escaped in cache
keys); entries with another base key are untouched. -/
theorem reject_beats_cache (cfg : Cfg) (cache : Cache) (dst : Nat) (q? : Option Question) (ans : Upstreams)
    (h : requestSelect cfg (q?.getD noQuestion) = .reject) :
    let q := q?.getD noQuestion
    let o := handle cfg cache dst false q? ans
    o.reply = .rejected ∧ o.trace = [] ∧
    (∀ sc, o.cache.lookup ⟨cacheName q.name, q.qtype, sc, q.qclass⟩ = none) ∧
    (∀ k : CacheKey, baseKeyOf k ≠ cacheName q.name ++ (natDigits q.qtype ++ clsSuffix q.qclass) →
      o.cache.lookup k = cache.lookup k) := by
  simp only [handle, h, Bool.false_eq_true, if_false]
  exact ⟨trivial, trivial, fun sc => lookup_removeFamily_same cache _ _ sc _ (cacheName_no_bar _),
    fun k hk => lookup_removeFamily_other cache _ _ _ k hk⟩

-- non-vacuity: the cache holds two answers for the rejected question (two scopes) and one for
-- another name; the question is rejected, both are gone, the other stays.
example : requestSelect Ex.cfgRejectAll Ex.qCached = .reject ∧
    Ex.cacheWithAnswer.lookup ⟨cacheName Ex.qCached.name, 1, .asis 1, 1⟩ = some [.a 0x01020304] ∧
    Ex.cacheWithAnswer.lookup ⟨cacheName Ex.qCached.name, 1, .up 0, 1⟩ = some [.a 0x05060708] := by decide
example : (handle Ex.cfgRejectAll Ex.cacheWithAnswer 1 false (some Ex.qCached) (fun _ _ => none)).cache =
    [(⟨"other.test.".toList, 1, .asis 1, 1⟩, [.a 0x09090909])] := by decide

/-- A cached answer is served only for questions that are not rejected, without asking anybody. -/
theorem cache_hit_asks_nobody (cfg : Cfg) (cache : Cache) (dst : Nat) (q : Question) (ans : Upstreams)
    (u : UpRef) (recs : List Rec) (h : requestSelect cfg q = .to u)
    (hhit : cache.lookup ⟨cacheName q.name, q.qtype, scopeOf dst u, q.qclass⟩ = some recs) :
    let o := handle cfg cache dst false (some q) ans
    o.reply = .answers recs true ∧ o.trace = [] ∧ o.cache = cache := by
  simp [handle, h, hhit]

/-! ## Clauses 1+3 in the controller — who is asked, and what happens to the answer -/

/-- On a cache miss the first upstream asked is the one the request rules selected, and the
upstream queries are exactly those of `dialSend` started there. -/
theorem question_goes_to_selected_upstream (cfg : Cfg) (cache : Cache) (dst : Nat) (q : Question)
    (ans : Upstreams) (u : UpRef) (h : requestSelect cfg q = .to u)
    (hmiss : cache.lookup ⟨cacheName q.name, q.qtype, scopeOf dst u, q.qclass⟩ = none) (hpos : 0 < cfg.maxDepth) :
    (handle cfg cache dst false (some q) ans).trace = (dialSend cfg (some q) ans 0 u).1 ∧
    (dialSend cfg (some q) ans 0 u).1.head? = some u := by
  constructor
  · simp only [handle, Option.getD_some, h, hmiss, Bool.false_eq_true, if_false]
    cases hd : dialSend cfg (some q) ans 0 u with
    | mk t r => cases r <;> rfl
  · rw [dialSend_step cfg (some q) ans 0 u hpos]
    cases ans 0 u with
    | none => rfl
    | some r =>
      cases ha : answersQuestion (some q) r
      · simp [ha]
      · cases hs : responseSelect cfg r u <;> simp [hs, ha]

/-- **What happens to an upstream answer** (one step of `dialSend` below the depth limit):
no answer → error; an answer to a different question → error (never routed, relayed or cached);
accept → the answer as is; reject → the same message with the answer section emptied; another
upstream → that upstream is asked next, one level deeper. -/
theorem response_action (cfg : Cfg) (q? : Option Question) (ans : Upstreams) (d : Nat) (u : UpRef)
    (h : d < cfg.maxDepth) :
    (ans d u = none → dialSend cfg q? ans d u = ([u], .error .forwardFail)) ∧
    (∀ r, ans d u = some r → answersQuestion q? r = false →
        dialSend cfg q? ans d u = ([u], .error .questionMismatch)) ∧
    (∀ r, ans d u = some r → answersQuestion q? r = true → responseSelect cfg r u = .accept →
        dialSend cfg q? ans d u = ([u], .ok r)) ∧
    (∀ r, ans d u = some r → answersQuestion q? r = true → responseSelect cfg r u = .reject →
        dialSend cfg q? ans d u = ([u], .ok { r with recs := [] })) ∧
    (∀ r k, ans d u = some r → answersQuestion q? r = true → responseSelect cfg r u = .next k →
        dialSend cfg q? ans d u =
          (u :: (dialSend cfg q? ans (d + 1) (.up k)).1, (dialSend cfg q? ans (d + 1) (.up k)).2)) ∧
    (∀ r e, ans d u = some r → answersQuestion q? r = true → responseSelect cfg r u = .err e →
        dialSend cfg q? ans d u = ([u], .error e)) := by
  refine ⟨?_, ?_, ?_, ?_, ?_, ?_⟩
  · intro h0; rw [dialSend_step cfg q? ans d u h, h0]
  · intro r h0 ha; rw [dialSend_step cfg q? ans d u h, h0]; simp [ha]
  · intro r h0 ha h1; rw [dialSend_step cfg q? ans d u h, h0]; simp [ha, h1]
  · intro r h0 ha h1; rw [dialSend_step cfg q? ans d u h, h0]; simp [ha, h1]
  · intro r k h0 ha h1; rw [dialSend_step cfg q? ans d u h, h0]; simp [ha, h1]
  · intro r e h0 ha h1; rw [dialSend_step cfg q? ans d u h, h0]; simp [ha, h1]

/-- A response routed to `reject` loses its ANSWER section only; question, rcode, authority and
additional section are those of the upstream's message. -/
theorem reject_empties_answer_section_only (cfg : Cfg) (q? : Option Question) (ans : Upstreams) (d : Nat)
    (u : UpRef) (r : Resp) (h : d < cfg.maxDepth) (h0 : ans d u = some r)
    (ha : answersQuestion q? r = true) (hr : responseSelect cfg r u = .reject) :
    ∃ r', dialSend cfg q? ans d u = ([u], .ok r') ∧ r'.recs = [] ∧ r'.ns = r.ns ∧ r'.extra = r.extra ∧
      r'.q = r.q ∧ r'.rcodeOk = r.rcodeOk :=
  ⟨{ r with recs := [] }, (response_action cfg q? ans d u h).2.2.2.1 r h0 ha hr, rfl, rfl, rfl, rfl, rfl⟩

/-- The final message is what the client gets, and a healthy one is stored under the cache key of
the ORIGINAL request route (also when another upstream finally answered, also when emptied). -/
theorem final_answer_is_relayed_and_cached (cfg : Cfg) (cache : Cache) (dst : Nat) (q : Question)
    (ans : Upstreams) (u : UpRef) (t : List UpRef) (r : Resp) (h : requestSelect cfg q = .to u)
    (hmiss : cache.lookup ⟨cacheName q.name, q.qtype, scopeOf dst u, q.qclass⟩ = none)
    (hd : dialSend cfg (some q) ans 0 u = (t, .ok r)) :
    let o := handle cfg cache dst false (some q) ans
    o.reply = .answers r.recs r.rcodeOk ∧
    (r.cacheable = true → o.cache.lookup ⟨cacheName q.name, q.qtype, scopeOf dst u, q.qclass⟩ = some r.recs) ∧
    (r.cacheable = false → o.cache = cache) := by
  simp only [handle, Option.getD_some, h, hmiss, hd, Bool.false_eq_true, if_false]
  refine ⟨trivial, ?_, ?_⟩
  · intro hc; simp only [hc, if_true]; exact lookup_store_same _ _ _
  · intro hc; simp [hc]

/-! ## The clauses end to end (rule text → controller behaviour) -/

/-- **Clause 1+2, end to end.** For a controller whose request program was built from `rs`/`fb`:
the decision is that of the first matching request rule (or the fallback); if it is `reject` the
client gets the empty answer, nobody is asked and the cached family is gone — whatever was cached;
otherwise, unless the answer is already cached under that route, the first upstream asked is the
one that rule names. -/
theorem question_follows_first_matching_request_rule (cfg : Cfg) (rs : List SrcRule) (fb : Nat)
    (cache : Cache) (dst : Nat) (q : Question) (ans : Upstreams)
    (hc : compileRequest rs fb = some cfg.req)
    (hup : ∀ o, (o = fb ∨ ∃ r ∈ rs, o = r.out) → o < cfg.nUp ∨ o = 0xFC ∨ o = 0xFD)
    (hn : cfg.nUp ≤ 0xFC) (hpos : 0 < cfg.maxDepth) :
    let d := decodeReq cfg.dead (firstMatchSrc (reqEnv q) (splitRequestRules rs) fb)
    let o := handle cfg cache dst false (some q) ans
    (d = .reject → o.reply = .rejected ∧ o.trace = [] ∧
        ∀ sc, o.cache.lookup ⟨cacheName q.name, q.qtype, sc, q.qclass⟩ = none) ∧
    (∀ u, d = .to u → cache.lookup ⟨cacheName q.name, q.qtype, scopeOf dst u, q.qclass⟩ = none →
        o.trace.head? = some u) ∧
    (∀ u recs, d = .to u → cache.lookup ⟨cacheName q.name, q.qtype, scopeOf dst u, q.qclass⟩ = some recs →
        o.trace = [] ∧ o.reply = .answers recs true) := by
  have hsel := request_select_is_first_match cfg rs fb q hc hup hn
  refine ⟨?_, ?_, ?_⟩
  · intro hd
    have h := reject_beats_cache cfg cache dst (some q) ans (hsel.trans hd)
    exact ⟨h.1, h.2.1, h.2.2.1⟩
  · intro u hd hmiss
    have h := question_goes_to_selected_upstream cfg cache dst q ans u (hsel.trans hd) hmiss hpos
    rw [h.1]; exact h.2
  · intro u recs hd hhit
    have h := cache_hit_asks_nobody cfg cache dst q ans u recs (hsel.trans hd) hhit
    exact ⟨h.2.1, h.1⟩

/-- **Clause 3, end to end.** For a controller whose response program was built from `rs`/`fb`: an
upstream answer (to the question asked, below the depth limit) is accepted, emptied or re-asked
exactly as the first matching response rule — evaluated on the answer's name, type, the answering
upstream and the A/AAAA addresses — or the fallback says. -/
theorem answer_follows_first_matching_response_rule (cfg : Cfg) (rs : List SrcRule) (fb : Nat)
    (q? : Option Question) (ans : Upstreams) (d : Nat) (u : UpRef) (r : Resp) (rq : Question)
    (hd : d < cfg.maxDepth) (h0 : ans d u = some r) (ha : answersQuestion q? r = true)
    (hq : r.q = some rq) (hname : rq.name ≠ []) (hresp : r.isResponse = true)
    (hc : compile rs fb = some cfg.resp)
    (hup : ∀ o, (o = fb ∨ ∃ x ∈ rs, o = x.out) → o < cfg.nUp ∨ o = 0xFC ∨ o = 0xFD)
    (hn : cfg.nUp ≤ 0xFC) :
    let dec := decodeResp cfg.dead (firstMatchSrc (respEnv r u) rs fb)
    (dec = .accept → dialSend cfg q? ans d u = ([u], .ok r)) ∧
    (dec = .reject → dialSend cfg q? ans d u = ([u], .ok { r with recs := [] })) ∧
    (∀ k, dec = .next k → dialSend cfg q? ans d u =
        (u :: (dialSend cfg q? ans (d + 1) (.up k)).1, (dialSend cfg q? ans (d + 1) (.up k)).2)) := by
  have hsel := response_select_is_first_match cfg rs fb r u rq hq hname hresp hc hup hn
  have hact := response_action cfg q? ans d u hd
  exact ⟨fun h => hact.2.2.1 r h0 ha (hsel.trans h), fun h => hact.2.2.2.1 r h0 ha (hsel.trans h),
    fun k h => hact.2.2.2.2.1 r k h0 ha (hsel.trans h)⟩

/-! ## Exactly one question per query (fixes 59279ab, 222c712) -/

/-- **A query that does not carry exactly one question is refused** (none: fix 222c712; more than one: fix
59279ab): FORMERR, nobody is asked, nothing is cached or evicted — so no question can ride along past the request
rules behind another one, and no answer is relayed or cached that could not be checked against a question.  Every
other message is handled by `handle` on its one question. -/
theorem query_without_exactly_one_question_is_refused (cfg : Cfg) (cache : Cache) (dst : Nat) (nq : Nat)
    (q? : Option Question) (ans : Upstreams) (h : nq ≠ 1) :
    let o := handleMsg cfg cache dst false nq q? ans
    o.reply = .refused ∧ o.trace = [] ∧ o.cache = cache := by
  simp [handleMsg, h]

theorem single_question_query_is_handled (cfg : Cfg) (cache : Cache) (dst : Nat) (isResp : Bool) (nq : Nat)
    (q? : Option Question) (ans : Upstreams) (h : nq = 1) :
    handleMsg cfg cache dst isResp nq q? ans = handle cfg cache dst isResp q? ans := by
  simp [handleMsg, h]

/-- the same with `optimistic_cache` on -/
theorem query_without_exactly_one_question_is_refused_optimistic (cfg : Cfg) (cache : Cache) (stale : List CacheKey)
    (dst : Nat) (nq : Nat) (q? : Option Question) (ans : Upstreams) (h : nq ≠ 1) :
    let o := handleMsgOpt cfg cache stale dst false nq q? ans
    o.reply = .refused ∧ o.trace = [] ∧ o.cache = cache ∧ o.stale = stale := by
  simp [handleMsgOpt, h]

-- non-vacuity: a question-less query and a two-question query against a configuration that would route
-- (`Ex.cfg2`): both refused, the cache untouched
example : (handleMsg Ex.cfg2 Ex.cacheWithAnswer 1 false 0 none (fun _ _ => none)).reply = .refused ∧
    (handleMsg Ex.cfg2 Ex.cacheWithAnswer 1 false 2 (some Ex.qCached) (fun _ _ => none)).reply = .refused := by decide

/-! ## Question classes (fix 4150de7) -/

/-- Request routing does not look at the class: a CH or ANY question is routed like the IN one. -/
theorem class_does_not_route (cfg : Cfg) (q : Question) (c : Nat) :
    requestSelect cfg { q with qclass := c } = requestSelect cfg q := rfl

/-- **A question of a class other than IN is never answered from, and never stored in, the response
cache of class IN**: its cache key carries the class, and whatever the upstreams answer to it is relayed
but not stored (also when a response rule empties or re-asks it). -/
theorem non_in_question_is_never_cached (cfg : Cfg) (cache : Cache) (dst : Nat) (q : Question) (ans : Upstreams)
    (u : UpRef) (hcls : q.qclass ≠ 1) (h : requestSelect cfg q = .to u)
    (hmiss : cache.lookup ⟨cacheName q.name, q.qtype, scopeOf dst u, q.qclass⟩ = none) :
    (handle cfg cache dst false (some q) ans).cache = cache := by
  simp only [handle, Option.getD_some, h, hmiss, Bool.false_eq_true, if_false]
  cases hd : dialSend cfg (some q) ans 0 u with
  | mk t res =>
    cases res with
    | error e => rfl
    | ok r =>
      have ha := dialSend_ok_answers cfg (some q) ans cfg.maxDepth 0 u r rfl (by rw [hd])
      have hnc : r.cacheable = false := by
        unfold answersQuestion at ha
        unfold Resp.cacheable
        cases hq : r.q with
        | none => simp
        | some rq =>
          simp only [hq, Bool.and_eq_true, beq_iff_eq] at ha
          have : (rq.qclass == 1) = false := by
            rw [beq_eq_false_iff_ne, ha.1.2]; exact hcls
          simp [this]
      simp [hnc]

/-- ... and the IN entry for the same name and type is a different key: it is not what a CH question
is looked up under. -/
theorem class_is_part_of_the_cache_key (n : List Char) (t : Nat) (sc : Scope) (c : Nat) (hc : c ≠ 1) :
    (⟨n, t, sc, c⟩ : CacheKey) ≠ ⟨n, t, sc, 1⟩ := by
  intro h; injection h with _ _ _ h4; exact hc h4

/-! ## Optimistic cache: who is asked by the refresh of a stale entry -/

/-- With `optimistic_cache` on, a hit of a stale entry is answered from the cache, and the background
refresh asks exactly what a fresh resolution would ask: `dialSend` from depth 0 at the upstream the
first matching request rule selected.  (One-step unfolding of the skeleton `handleOpt`; the tie
carries it.) -/
theorem stale_hit_refreshes_from_routed_upstream (cfg : Cfg) (cache : Cache) (stale : List CacheKey)
    (dst : Nat) (q : Question) (ans : Upstreams) (u : UpRef) (recs : List Rec)
    (h : requestSelect cfg q = .to u)
    (hhit : cache.lookup ⟨cacheName q.name, q.qtype, scopeOf dst u, q.qclass⟩ = some recs)
    (hst : stale.contains ⟨cacheName q.name, q.qtype, scopeOf dst u, q.qclass⟩ = true) :
    let o := handleOpt cfg cache stale dst false (some q) ans
    o.reply = .answers recs true ∧ o.trace = (dialSend cfg (some q) ans 0 u).1 := by
  simp only [handleOpt, Option.getD_some, h, hhit, hst, Bool.false_eq_true, if_false, Option.isSome_some,
    Bool.and_self, if_true]
  cases hd : dialSend cfg (some q) ans 0 u with
  | mk t res =>
    cases res with
    | error e => exact ⟨rfl, rfl⟩
    | ok r => simp only []; split <;> exact ⟨rfl, rfl⟩

/-- Reject is decided before any cache is consulted, stale entries included. -/
theorem reject_beats_stale_cache (cfg : Cfg) (cache : Cache) (stale : List CacheKey) (dst : Nat)
    (q? : Option Question) (ans : Upstreams) (h : requestSelect cfg (q?.getD noQuestion) = .reject) :
    let o := handleOpt cfg cache stale dst false q? ans
    o.reply = .rejected ∧ o.trace = [] := by
  simp [handleOpt, h]

/-! ## Clause 4 — the number of re-asks is bounded -/

/-- **Bounded re-asks.** For every configuration (in particular every response rule list, also
ones that bounce answers between upstreams forever), every cache, every client message and every
upstream behaviour, at most `MaxDnsLookupDepth` (`cfg.maxDepth`; 3 in the code, printed by the
harness from the constant under test) upstream queries are sent.  (That `handle` is a total function —
accepted by Lean's termination checker — is the "cannot loop forever".) -/
theorem reask_bounded (cfg : Cfg) (cache : Cache) (dst : Nat) (isResp : Bool) (q? : Option Question)
    (ans : Upstreams) :
    (handle cfg cache dst isResp q? ans).trace.length ≤ cfg.maxDepth := by
  have hb : ∀ u, (dialSend cfg q? ans 0 u).1.length ≤ cfg.maxDepth :=
    fun u => dialSend_trace_le cfg q? ans cfg.maxDepth 0 u rfl
  cases isResp with
  | true => simp [handle]
  | false =>
    simp only [handle, Bool.false_eq_true, if_false]
    generalize q?.getD noQuestion = q
    cases requestSelect cfg q with
    | err e => simp
    | reject => simp
    | to u =>
      simp only
      cases cache.lookup ⟨cacheName q.name, q.qtype, scopeOf dst u, q.qclass⟩ with
      | some recs => simp
      | none =>
        have := hb u
        cases hd : dialSend cfg q? ans 0 u with
        | mk t r => rw [hd] at this; cases r <;> simpa using this

/-- the same bound with `optimistic_cache` on (a background refresh is one `dialSend` too) -/
theorem reask_bounded_optimistic (cfg : Cfg) (cache : Cache) (stale : List CacheKey) (dst : Nat) (isResp : Bool)
    (q? : Option Question) (ans : Upstreams) :
    (handleOpt cfg cache stale dst isResp q? ans).trace.length ≤ cfg.maxDepth := by
  have hb : ∀ u, (dialSend cfg q? ans 0 u).1.length ≤ cfg.maxDepth :=
    fun u => dialSend_trace_le cfg q? ans cfg.maxDepth 0 u rfl
  cases isResp with
  | true => simp [handleOpt]
  | false =>
    simp only [handleOpt, Bool.false_eq_true, if_false]
    generalize q?.getD noQuestion = q
    cases requestSelect cfg q with
    | err e => simp
    | reject => simp
    | to u =>
      simp only
      have := hb u
      cases cache.lookup ⟨cacheName q.name, q.qtype, scopeOf dst u, q.qclass⟩ with
      | some recs =>
        simp only
        split
        · cases hd : dialSend cfg q? ans 0 u with
          | mk t r =>
            rw [hd] at this
            cases r with
            | error e => simpa using this
            | ok r => simp only []; split <;> simpa using this
        · simp
      | none =>
        cases hd : dialSend cfg q? ans 0 u with
        | mk t r => rw [hd] at this; cases r <;> simpa using this

/-- A rule set that sends every answer on to another upstream ends with the documented error
after exactly `MaxDnsLookupDepth` queries, whatever the upstreams answer. -/
theorem bouncing_ends_with_error (cfg : Cfg) (q? : Option Question) (ans : Upstreams) (u : UpRef)
    (hall : ∀ d v, ∃ r k, ans d v = some r ∧ answersQuestion q? r = true ∧ responseSelect cfg r v = .next k) :
    (dialSend cfg q? ans 0 u).2 = .error .tooDeep ∧
    (dialSend cfg q? ans 0 u).1.length = cfg.maxDepth := by
  have key : ∀ (n d : Nat) (v : UpRef), cfg.maxDepth - d = n →
      (dialSend cfg q? ans d v).2 = .error .tooDeep ∧ (dialSend cfg q? ans d v).1.length = n := by
    intro n
    induction n with
    | zero =>
      intro d v h
      rw [dialSend_deep cfg q? ans d v (by omega)]; exact ⟨rfl, rfl⟩
    | succ n ih =>
      intro d v h
      obtain ⟨r, k, h0, ha, h1⟩ := hall d v
      rw [(response_action cfg q? ans d v (by omega)).2.2.2.2.1 r k h0 ha h1]
      have := ih (d + 1) (.up k) (by omega)
      exact ⟨this.1, by simp [this.2]⟩
  exact key cfg.maxDepth 0 u rfl

-- non-vacuity: `upstream(u0) -> u1; upstream(u1) -> u0; fallback: u0` sends EVERY answer on.
example : ∀ (d : Nat) (v : UpRef), ∃ r k, (fun _ _ => some Ex.respLoop : Upstreams) d v = some r ∧
    answersQuestion (some Ex.qLoop) r = true ∧ responseSelect Ex.bounceCfg r v = .next k := by
  intro d v
  refine ⟨Ex.respLoop, if v = .up 0 then 1 else 0, rfl, by decide, ?_⟩
  have hc : compile Ex.bounceRules 0 = some Ex.bounceCfg.resp := by decide
  have hup : ∀ o, (o = 0 ∨ ∃ x ∈ Ex.bounceRules, o = x.out) → o < Ex.bounceCfg.nUp ∨ o = 0xFC ∨ o = 0xFD := by
    intro o h
    rcases h with rfl | ⟨x, hx, rfl⟩
    · decide
    · simp only [Ex.bounceRules, List.mem_cons, List.mem_nil_iff, or_false] at hx
      rcases hx with rfl | rfl <;> decide
  rw [response_select_is_first_match Ex.bounceCfg Ex.bounceRules 0 Ex.respLoop v Ex.qLoop rfl (by decide) rfl hc hup
    (by decide)]
  cases v with
  | asis => decide
  | up k =>
    by_cases h : k = 0
    · subst h; decide
    · by_cases h1 : k = 1
      · subst h1; decide
      · simp [decodeResp, firstMatchSrc, Ex.bounceRules, SrcRule.holds, Func.holds, Func.anyParam, Func.neg, respEnv,
          Ex.respLoop, UpRef.index, h, h1, Ex.bounceCfg]

/-- A message with the response bit is never routed, forwarded or cached. -/
theorem response_bit_refused (cfg : Cfg) (cache : Cache) (dst : Nat) (q? : Option Question) (ans : Upstreams) :
    let o := handle cfg cache dst true q? ans
    o.reply = .error .notRequest ∧ o.trace = [] ∧ o.cache = cache := by
  simp [handle]

/-! ## The controller skeleton follows the decisive order of the source -/

/-- **Source-structure guard.** The decisive order facts of `HandleWithResponseWriter_`,
`handleWithResponseWriter_`, `dialSend` and `backgroundRefresh` (snapshot `Gen/Skeleton.lean` of the go/ast
translator `c07skel`; recomputed for the tree under test and compared by the check on every run) are the
facts the model skeleton `handle` / `dialSend` / `handleOpt` relies on (`Skeleton.lean`). -/
theorem controller_steps_as_modelled : Gen.controllerFacts = modelledFacts := by
  rfl

end DaeVerif.C07.Props
