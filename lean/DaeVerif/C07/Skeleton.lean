import DaeVerif.C07.Model
import DaeVerif.C07.Gen.Skeleton
/-!
# C07 — the controller skeleton is written against the decisive order of the source

`handle`, `dialSend` and `handleOpt` (Model.lean) are a hand-written skeleton of
`HandleWithResponseWriter_` → `handleWithResponseWriter_` → `dialSend` (+ `backgroundRefresh`).
`/verif/translators/c07skel` (go/ast) extracts from the Go source the DECISIVE ORDER FACTS of those four
methods — which step comes before which, and which value (by parameter position / data flow, not by
spelling) is passed where.  `Gen/Skeleton.lean` is a snapshot of its output for the tree the model was
written against; `checks/c07.py` recomputes the facts for the tree under test on every run and compares.
The list below is what the model relies on, with the model clause next to each fact;
`Props.controller_steps_as_modelled` equates snapshot and model.

Not facts (no alarm): renamed locals, `!(d < Max)` for `d >= Max`, logging, extra or dropped cache
re-reads, helper extraction of non-decisive steps.  A changed fact (cache consulted before the reject test,
question check after response routing, another singleflight key, re-ask without `+1` or at another
upstream, store under another key, `>` for `>=`) is reported as a broken correspondence.
-/
namespace DaeVerif.C07

/-- the facts, in the translator's order:
* handlers: `requestSelect` first; `.reject ⇒ .rejected` before `cache.lookup` (both in `handle`/`handleOpt`);
* the coalesced resolution runs under the key that includes the scope (`CacheKey.scope`; `pair` ops);
* `dialSend _ _ _ 0 u` after a miss with the routed upstream `u`, stored under `key` of the request;
* `dialSend`: `depth ≥ cfg.maxDepth` guard first, then `ans depth up`, `answersQuestion`, `responseSelect`;
  `.reject ⇒ { r with recs := [] }`; `.next k ⇒ dialSend (depth + 1) (.up k)`; `cache.store key` only in `handle`
  after `dialSend` returned, with the request's `key`;
* `handleOpt`: stale hit ⇒ `dialSend … 0 u`, result stored under the same `key`; reject never refreshes. -/
def modelledFacts : List String := [
  "HandleWithResponseWriter_: request routing, then the reject test, then the first cache lookup",
  "HandleWithResponseWriter_: a rejected route is answered empty before any cache lookup",
  "handleWithResponseWriter_: request routing, then the reject test, then the first cache lookup",
  "handleWithResponseWriter_: a rejected route is answered empty before any cache lookup",
  "HandleWithResponseWriter_: resolution is coalesced under the response cache key (scope included)",
  "HandleWithResponseWriter_: cache lookup before the coalesced resolution",
  "handleWithResponseWriter_: after a cache miss, dialSend at depth 0 with the routed upstream under the request's response cache key",
  "dialSend: refuses when the depth has reached MaxDnsLookupDepth (>=)",
  "dialSend: depth guard, forward, question check, response routing — in this order",
  "dialSend: a response routed to reject loses its answer section",
  "dialSend: a re-ask goes one level deeper, to the upstream the response routing selected, under the same cache key",
  "dialSend: every store is under the cache key of the original request",
  "dialSend: nothing is stored before the response is routed",
  "backgroundRefresh: nothing for a rejected route; else dialSend at depth 0 with the upstream routed for the stale entry, under that entry's key"]

end DaeVerif.C07
