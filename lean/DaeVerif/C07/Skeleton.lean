import DaeVerif.C07.Model
import DaeVerif.C07.Gen.Skeleton
/-!
# C07 — the controller skeleton is written against the step order of the source

`handle`, `dialSend` and `handleOpt` (Model.lean) are a hand-written skeleton of
`HandleWithResponseWriter_` → `handleWithResponseWriter_` → `dialSend` (+ `backgroundRefresh`).
`Gen/Skeleton.lean` is regenerated on every check run from the Go source by
`/verif/translators/c07skel` (go/ast): the decision steps of those four functions in SOURCE ORDER.
The lists below are the order the model was written against, with the model clause each step became;
`Props.controller_steps_as_modelled` states that source and model agree step by step.  A re-ordered,
removed or added step (cache consulted before the reject test, question check after response routing,
another singleflight key, re-ask without `+1`, store under another key, …) breaks that theorem at build
time — independently of whether a generated input shows a behavioural difference.
-/
namespace DaeVerif.C07

/-- `HandleWithResponseWriter_` — `handle` / `handleOpt`:
route first (`requestSelect`); reject ⇒ `removeFamily` + `.rejected`, before any cache is read;
`cache.lookup` (a stale hit starts `backgroundRefresh`); miss ⇒ resolution under the singleflight key
`responseCacheKey` (`dialSend … 0 u`), then the reply is read back from the cache or written directly;
messages without question / with the response bit take the internal path. -/
def modelled_HandleWithResponseWriter_ : List String := [
  "route-request",
  "if-routed-to-reject",
  "remove-cache-family",
  "answer-empty",
  "cache-lookup",
  "background-refresh",
  "reply-from-cache",
  "singleflight(responseCacheKey)",
  "resolve",
  "cache-lookup",
  "reply-from-cache",
  "reply",
  "reply-packet",
  "internal-path"]

/-- `handleWithResponseWriter_` (internal path and the body of the singleflight resolution): the same
order again, ending in `dialSend` at depth 0 with the routed upstream and the request's cache key. -/
def modelled_handleWithResponseWriter_ : List String := [
  "route-request",
  "if-routed-to-reject",
  "remove-cache-family",
  "answer-empty",
  "cache-lookup",
  "background-refresh",
  "reply-from-cache",
  "dialSend(depth=0,upstream=upstream,key=responseCacheKey)"]

/-- `dialSend` — `dialSend`: depth guard `>=` first; forward; the question check BEFORE response routing;
`route-response`; accept / reject (empties `respMsg.Answer` only) / re-ask one level deeper at
`nextUpstream`; every store is under `responseCacheKey` (the ORIGINAL request's key). -/
def modelled_dialSend : List String := [
  "depth-guard(invokingDepth>=MaxDnsLookupDepth)",
  "forward",
  "question-check",
  "route-response",
  "case-accept",
  "case-reject",
  "empty-answer-section",
  "reask(invokingDepth+1,nextUpstream)",
  "case-accept",
  "case-reject",
  "store(responseCacheKey)",
  "reply",
  "reply-packet",
  "store(responseCacheKey)",
  "store(responseCacheKey)"]

/-- `backgroundRefresh` — the stale branch of `handleOpt`: nothing for a rejected route, else `dialSend`
at depth 0 with the upstream the request routing selected, storing under the stale entry's key. -/
def modelled_backgroundRefresh : List String := [
  "if-routed-to-reject",
  "dialSend(depth=0,upstream=upstream,key=cacheKey)"]

end DaeVerif.C07
