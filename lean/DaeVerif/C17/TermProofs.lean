import DaeVerif.C17.MergeProofs
/-! # C17 — the include merge terminates: fuel `|files| + 1` is never exhausted -/
namespace DaeVerif.C17

/-- pigeonhole: a duplicate-free list inside `m` is no longer than `m` -/
theorem nodup_subset_length_le {α : Type} [DecidableEq α] : ∀ (l m : List α), l.Nodup →
    (∀ x ∈ l, x ∈ m) → l.length ≤ m.length := by
  intro l
  induction l with
  | nil => intro m _ _; simp
  | cons a l ih =>
    intro m hnd hsub
    simp only [List.nodup_cons] at hnd
    have ham : a ∈ m := hsub a List.mem_cons_self
    have hsub' : ∀ x ∈ l, x ∈ m.erase a := by
      intro x hx
      have hxa : x ≠ a := by rintro rfl; exact hnd.1 hx
      exact (List.mem_erase_of_ne hxa).mpr (hsub x (List.mem_cons_of_mem _ hx))
    have := ih (m.erase a) hnd.2 hsub'
    rw [List.length_erase_of_mem ham] at this
    have hpos : 0 < m.length := List.length_pos_of_mem ham
    simp only [List.length_cons]
    omega

/-! ## no function of the merger other than the fuel counter produces the out-of-fuel value -/

theorem includePatterns_not_fuel (dir : List Char) : ∀ (items : List AItem),
    includePatterns dir items ≠ .error .fuel := by
  intro items
  induction items with
  | nil => simp [includePatterns]
  | cons it rest ih =>
    unfold includePatterns
    split
    · simp
    · split
      · rename_i e he
        intro h
        simp only [Except.error.injEq] at h
        subst h
        exact ih he
      · simp

theorem keepFiles_not_fuel (fs : FS) : ∀ (l : List (List Char)), keepFiles fs l ≠ .error .fuel := by
  intro l
  induction l with
  | nil => simp [keepFiles]
  | cons f rest ih =>
    unfold keepFiles
    split
    · exact ih
    · split
      · simp
      · split
        · rename_i e he
          intro h
          simp only [Except.error.injEq] at h
          subst h
          exact ih he
        · simp

theorem unsqueeze_not_fuel (fs : FS) : ∀ (l : List (List Char)), unsqueeze fs l ≠ .error .fuel := by
  intro l
  induction l with
  | nil => simp [unsqueeze]
  | cons p rest ih =>
    unfold unsqueeze
    split
    · simp
    · split
      · rename_i e he
        intro h
        simp only [Except.error.injEq] at h
        subst h
        exact keepFiles_not_fuel fs _ he
      · split
        · rename_i e he
          intro h
          simp only [Except.error.injEq] at h
          subst h
          exact ih he
        · simp

/-- what a successful (or failed) `readEntry` does to `visited`, with the facts the termination
argument needs: a new entry was not visited before and exists in the file system -/
theorem readEntry_cases (K : Classes) (fs : FS) (dir : List Char) (st : MState) (entry : List Char) :
    ((readEntry K fs dir st entry).1.visited = st.visited ∧
        ∃ e, (readEntry K fs dir st entry).2 = .error e ∧ e ≠ .fuel) ∨
    ((readEntry K fs dir st entry).1.visited = st.visited ++ [entry] ∧ entry ∉ st.visited ∧
        (fs.stat entry).isSome = true) := by
  unfold readEntry
  split
  · exact Or.inl ⟨rfl, _, rfl, by decide⟩
  · rename_i hnv
    split
    · exact Or.inl ⟨rfl, _, rfl, by decide⟩
    · split
      · exact Or.inl ⟨rfl, _, rfl, by decide⟩
      · split
        · exact Or.inl ⟨rfl, _, rfl, by decide⟩
        · rename_i fi hstat
          split
          · exact Or.inl ⟨rfl, _, rfl, by decide⟩
          · split
            · exact Or.inl ⟨rfl, _, rfl, by decide⟩
            · split
              · exact Or.inl ⟨rfl, _, rfl, by decide⟩
              · exact Or.inr ⟨rfl, by simpa using hnv, by simp [hstat]⟩

section
variable (K : Classes) (fs : FS) (dir : List Char) (files : List (List Char))

/-- the visited list is duplicate-free and only contains files of the (finite) file system -/
def VisInv (st : MState) : Prop := st.visited.Nodup ∧ ∀ p ∈ st.visited, p ∈ files

theorem visInv_length {st : MState} (h : VisInv files st) : st.visited.length ≤ files.length :=
  nodup_subset_length_le st.visited files h.1 h.2

theorem readEntry_visInv (hfiles : ∀ p, (fs.stat p).isSome = true → p ∈ files) (st : MState) (entry : List Char)
    (h : VisInv files st) : VisInv files (readEntry K fs dir st entry).1 := by
  rcases readEntry_cases K fs dir st entry with ⟨hv, _⟩ | ⟨hv, hne, hs⟩
  · unfold VisInv; rw [hv]; exact h
  · unfold VisInv; rw [hv]
    refine ⟨List.nodup_append.mpr ⟨h.1, by simp, ?_⟩, ?_⟩
    · intro a ha b hb
      simp only [List.mem_singleton] at hb
      subst hb
      rintro rfl
      exact hne ha
    · intro p hp
      rcases List.mem_append.mp hp with hp | hp
      · exact h.2 p hp
      · simp only [List.mem_singleton] at hp; subst hp; exact hfiles _ hs

theorem dfsMerge_visInv (hfiles : ∀ p, (fs.stat p).isSome = true → p ∈ files) (n : Nat) (st : MState)
    (entry : List Char) (h : VisInv files st) : VisInv files (dfsMerge K fs dir n st entry).1 :=
  dfsMerge_inv K fs dir (fun a b => VisInv files a → VisInv files b) (fun _ h => h)
    (fun _ _ _ hab hbc h => hbc (hab h)) (fun st entry => readEntry_visInv K fs dir files hfiles st entry) n st entry h

/-- the visited list only ever grows at its end -/
theorem dfsMerge_visited_prefix (n : Nat) (st : MState) (entry : List Char) :
    st.visited <+: (dfsMerge K fs dir n st entry).1.visited := by
  refine dfsMerge_inv K fs dir (fun a b => a.visited <+: b.visited) (fun _ => List.prefix_refl _)
    (fun _ _ _ hab hbc => List.IsPrefix.trans hab hbc) ?_ n st entry
  intro st entry
  rcases readEntry_cases K fs dir st entry with ⟨hv, _⟩ | ⟨hv, _, _⟩
  · rw [hv]; exact List.prefix_refl _
  · rw [hv]; exact List.prefix_append _ _

/-- the children loop never runs out of fuel if no child does -/
theorem dfsChildren_not_fuel (hfiles : ∀ p, (fs.stat p).isSome = true → p ∈ files) (n : Nat)
    (hT : ∀ st entry, VisInv files st → files.length + 1 ≤ n + st.visited.length →
      (dfsMerge K fs dir n st entry).2 ≠ .error .fuel) :
    ∀ (cs : List (List Char)) (st : MState) (acc : SMap), VisInv files st →
      files.length + 1 ≤ n + st.visited.length → (dfsChildren K fs dir n st acc cs).2 ≠ .error .fuel := by
  intro cs
  induction cs with
  | nil => intro st acc _ _; simp [dfsChildren]
  | cons c cs ih =>
    intro st acc hinv hlen
    have h1 := hT st c hinv hlen
    have h2 := dfsMerge_visInv K fs dir files hfiles n st c hinv
    have h3 := (dfsMerge_visited_prefix K fs dir n st c).length_le
    rw [dfsChildren]
    split
    · rename_i st' e heq
      rw [heq] at h1
      exact h1
    · rename_i st' m heq
      rw [heq] at h2 h3
      exact ih st' _ h2 (by simp only at h3; omega)

/-- **Termination.** From a state whose visited list is duplicate-free and inside the finite set
of files, `|files| + 1 - |visited|` levels of fuel are never exhausted: every nested call has
added a new file to the visited list. -/
theorem dfsMerge_not_fuel (hfiles : ∀ p, (fs.stat p).isSome = true → p ∈ files) :
    ∀ (n : Nat) (st : MState) (entry : List Char), VisInv files st →
      files.length + 1 ≤ n + st.visited.length → (dfsMerge K fs dir n st entry).2 ≠ .error .fuel := by
  intro n
  induction n with
  | zero =>
    intro st entry hinv hlen
    have := visInv_length files hinv
    omega
  | succ n ih =>
    intro st entry hinv hlen
    have hcases := readEntry_cases K fs dir st entry
    have hinv1 := readEntry_visInv K fs dir files hfiles st entry hinv
    rw [dfsMerge]
    split
    · rename_i st1 e heq
      rw [heq] at hcases
      rcases hcases with ⟨_, e', he', hne⟩ | ⟨hv, _, _⟩
      · simp only [Except.error.injEq] at he'
        subst he'
        simpa using hne
      · -- the state changed although the result is an error: impossible for the fuel value anyway
        intro hfuel
        simp only [Except.error.injEq] at hfuel
        subst hfuel
        -- readEntry never produces `.fuel`
        have : ∀ (st : MState) (entry : List Char), (readEntry K fs dir st entry).2 ≠ .error .fuel := by
          intro st entry
          unfold readEntry
          repeat' split
          all_goals simp
        exact this st entry (by rw [heq])
    · rename_i st1 own heq
      rw [heq] at hcases hinv1
      have hv : st1.visited = st.visited ++ [entry] := by
        rcases hcases with ⟨_, e', he', _⟩ | ⟨hv, _, _⟩
        · simp at he'
        · exact hv
      split
      · rename_i e he
        intro hfuel
        simp only [Except.error.injEq] at hfuel
        subst hfuel
        exact includePatterns_not_fuel dir _ he
      · split
        · rename_i e he
          intro hfuel
          simp only [Except.error.injEq] at hfuel
          subst hfuel
          exact unsqueeze_not_fuel fs _ he
        · apply dfsChildren_not_fuel K fs dir files hfiles n ih _ st1 own hinv1
          rw [hv]
          simp only [List.length_append, List.length_cons, List.length_nil]
          omega

end


/-! ## termination over a CLOSED UNIVERSE of path spellings (real file systems, alias spellings) -/

section
variable (K : Classes) (fs : FS) (dir : List Char) (U : List (List Char))

/-- `U` is closed under "is included by": whatever a readable, parsable member of `U` includes
(after glob expansion and the `.dae` / directory filter) is again in `U`.  On a real finite
directory tree such a finite `U` always exists although every file has infinitely many spellings:
only finitely many include values are WRITTEN (contents do not depend on the spelling), each
expands to finitely many glob answers, so `U = {entry} ∪ all those answers` is finite and closed. -/
def ClosedUniverse : Prop :=
  ∀ p ∈ U, ∀ fi, fs.stat p = some fi → ∀ ss, parse K fi.content = some ss →
    ∀ pats, includePatterns dir ((sectionsToMap ss).get "include".toList) = .ok pats →
      ∀ children, unsqueeze fs pats = .ok children → ∀ c ∈ children, c ∈ U

/-- a successful `readEntry` read and parsed the file -/
theorem readEntry_ok_facts (st st1 : MState) (entry : List Char) (own : SMap)
    (h : readEntry K fs dir st entry = (st1, .ok own)) :
    ∃ fi ss, fs.stat entry = some fi ∧ parse K fi.content = some ss ∧ own = sectionsToMap ss := by
  unfold readEntry at h
  split at h
  · simp at h
  · split at h
    · simp at h
    · split at h
      · simp at h
      · split at h
        · simp at h
        · rename_i fi hstat
          split at h
          · simp at h
          · split at h
            · simp at h
            · split at h
              · simp at h
              · rename_i ss hparse
                simp only [Prod.mk.injEq, Except.ok.injEq] at h
                exact ⟨fi, ss, hstat, hparse, h.2.symm⟩

def VisIn (st : MState) : Prop := st.visited.Nodup ∧ ∀ p ∈ st.visited, p ∈ U

theorem readEntry_visIn (st : MState) (entry : List Char) (he : entry ∈ U) (h : VisIn U st) :
    VisIn U (readEntry K fs dir st entry).1 := by
  rcases readEntry_cases K fs dir st entry with ⟨hv, _⟩ | ⟨hv, hne, _⟩
  · unfold VisIn; rw [hv]; exact h
  · unfold VisIn; rw [hv]
    refine ⟨List.nodup_append.mpr ⟨h.1, by simp, ?_⟩, ?_⟩
    · intro a ha b hb
      simp only [List.mem_singleton] at hb
      subst hb
      rintro rfl
      exact hne ha
    · intro p hp
      rcases List.mem_append.mp hp with hp | hp
      · exact h.2 p hp
      · simp only [List.mem_singleton] at hp; subst hp; exact he

/-- what one level needs from the level below -/
def LevelOK (n : Nat) : Prop :=
  ∀ st entry, entry ∈ U → VisIn U st →
    VisIn U (dfsMerge K fs dir n st entry).1 ∧
    (U.length + 1 ≤ n + st.visited.length → (dfsMerge K fs dir n st entry).2 ≠ .error .fuel)

theorem dfsChildren_closed (n : Nat) (hT : LevelOK K fs dir U n) :
    ∀ (cs : List (List Char)) (st : MState) (acc : SMap), (∀ c ∈ cs, c ∈ U) → VisIn U st →
      VisIn U (dfsChildren K fs dir n st acc cs).1 ∧
      (U.length + 1 ≤ n + st.visited.length → (dfsChildren K fs dir n st acc cs).2 ≠ .error .fuel) := by
  intro cs
  induction cs with
  | nil => intro st acc _ hv; simp only [dfsChildren]; exact ⟨hv, fun _ => by simp⟩
  | cons c cs ih =>
    intro st acc hcs hv
    obtain ⟨h1, h2⟩ := hT st c (hcs c List.mem_cons_self) hv
    have h3 := (dfsMerge_visited_prefix K fs dir n st c).length_le
    rw [dfsChildren]
    split
    · rename_i st' e heq
      rw [heq] at h1 h2
      exact ⟨h1, h2⟩
    · rename_i st' m heq
      rw [heq] at h1 h3
      obtain ⟨i1, i2⟩ := ih st' (mergeInto acc m) (fun c' hc' => hcs c' (List.mem_cons_of_mem _ hc')) h1
      exact ⟨i1, fun hlen => i2 (by simp only at h3; omega)⟩

theorem levelOK_all (hU : ClosedUniverse K fs dir U) : ∀ n, LevelOK K fs dir U n := by
  intro n
  induction n with
  | zero =>
    intro st entry _ hv
    refine ⟨by simpa [dfsMerge] using hv, ?_⟩
    intro hlen
    have := nodup_subset_length_le st.visited U hv.1 hv.2
    omega
  | succ n ih =>
    intro st entry he hv
    have hcases := readEntry_cases K fs dir st entry
    have hv1 := readEntry_visIn K fs dir U st entry he hv
    rw [dfsMerge]
    split
    · rename_i st1 e heq
      rw [heq] at hv1 hcases
      refine ⟨hv1, fun _ hfuel => ?_⟩
      simp only [Except.error.injEq] at hfuel
      subst hfuel
      have : ∀ (st : MState) (entry : List Char), (readEntry K fs dir st entry).2 ≠ .error .fuel := by
        intro st entry
        unfold readEntry
        repeat' split
        all_goals simp
      exact this st entry (by rw [heq])
    · rename_i st1 own heq
      rw [heq] at hv1 hcases
      have hvis : st1.visited = st.visited ++ [entry] := by
        rcases hcases with ⟨_, e', he', _⟩ | ⟨h, _, _⟩
        · simp at he'
        · exact h
      obtain ⟨fi, ss, hstat, hparse, hown⟩ := readEntry_ok_facts K fs dir st st1 entry own heq
      split
      · rename_i e hpe
        refine ⟨hv1, fun _ hfuel => ?_⟩
        simp only [Except.error.injEq] at hfuel
        subst hfuel
        exact includePatterns_not_fuel dir _ hpe
      · rename_i pats hpats
        split
        · rename_i e hue
          refine ⟨hv1, fun _ hfuel => ?_⟩
          simp only [Except.error.injEq] at hfuel
          subst hfuel
          exact unsqueeze_not_fuel fs _ hue
        · rename_i children hch
          have hin : ∀ c ∈ children, c ∈ U :=
            hU entry he fi hstat ss hparse pats (by rw [← hown]; exact hpats) children hch
          obtain ⟨c1, c2⟩ := dfsChildren_closed K fs dir U n ih children st1 own hin hv1
          refine ⟨c1, fun hlen => c2 ?_⟩
          rw [hvis]
          simp only [List.length_append, List.length_cons, List.length_nil]
          omega

end


/-- a file system whose globs match nothing includes nothing -/
theorem unsqueeze_empty_globs (fs : FS) (hg : ∀ p, fs.glob p = some []) :
    ∀ (pats children : List (List Char)), unsqueeze fs pats = .ok children → children = [] := by
  intro pats
  induction pats with
  | nil => intro children h; simp only [unsqueeze, Except.ok.injEq] at h; exact h.symm
  | cons p rest ih =>
    intro children h
    unfold unsqueeze at h
    rw [hg p] at h
    simp only [keepFiles] at h
    split at h
    · simp at h
    · rename_i b hb
      simp only [Except.ok.injEq, List.nil_append] at h
      rw [← h]; exact ih b hb

end DaeVerif.C17
