import DaeVerif.C17.MergeProofs
/-! # C17 — the include merge terminates: fuel `|files| + 1` is never exhausted -/
namespace DaeVerif.C17

/-- pigeonhole: a duplicate-free list inside `m` is no longer than `m` -/
theorem nodup_subset_length_le {α : Type} [DecidableEq α] : ∀ (l m : List α), l.Nodup →
    (∀ x ∈ l, x ∈ m) → l.length ≤ m.length := by
  intro l
  induction l with
  | nil => intro m _ _; simp
  | cons a l ih =>
    intro m hnd hsub
    simp only [List.nodup_cons] at hnd
    have ham : a ∈ m := hsub a List.mem_cons_self
    have hsub' : ∀ x ∈ l, x ∈ m.erase a := by
      intro x hx
      have hxa : x ≠ a := by rintro rfl; exact hnd.1 hx
      exact (List.mem_erase_of_ne hxa).mpr (hsub x (List.mem_cons_of_mem _ hx))
    have := ih (m.erase a) hnd.2 hsub'
    rw [List.length_erase_of_mem ham] at this
    have hpos : 0 < m.length := List.length_pos_of_mem ham
    simp only [List.length_cons]
    omega

/-! ## no function of the merger other than the fuel counter produces the out-of-fuel value -/

theorem includePatterns_not_fuel (dir : List Char) : ∀ (items : List AItem),
    includePatterns dir items ≠ .error .fuel := by
  intro items
  induction items with
  | nil => simp [includePatterns]
  | cons it rest ih =>
    unfold includePatterns
    split
    · simp
    · split
      · rename_i e he
        intro h
        simp only [Except.error.injEq] at h
        subst h
        exact ih he
      · simp

theorem keepFiles_not_fuel (fs : FS) : ∀ (l : List (List Char)), keepFiles fs l ≠ .error .fuel := by
  intro l
  induction l with
  | nil => simp [keepFiles]
  | cons f rest ih =>
    unfold keepFiles
    split
    · exact ih
    · split
      · simp
      · split
        · rename_i e he
          intro h
          simp only [Except.error.injEq] at h
          subst h
          exact ih he
        · simp

theorem unsqueeze_not_fuel (fs : FS) : ∀ (l : List (List Char)), unsqueeze fs l ≠ .error .fuel := by
  intro l
  induction l with
  | nil => simp [unsqueeze]
  | cons p rest ih =>
    unfold unsqueeze
    split
    · simp
    · split
      · rename_i e he
        intro h
        simp only [Except.error.injEq] at h
        subst h
        exact keepFiles_not_fuel fs _ he
      · split
        · rename_i e he
          intro h
          simp only [Except.error.injEq] at h
          subst h
          exact ih he
        · simp

/-- what a successful (or failed) `readEntry` does to `visited`, with the facts the termination
argument needs: a new entry was not visited before and exists in the file system -/
theorem readEntry_cases (K : Classes) (fs : FS) (dir : List Char) (st : MState) (entry : List Char) :
    ((readEntry K fs dir st entry).1.visited = st.visited ∧
        ∃ e, (readEntry K fs dir st entry).2 = .error e ∧ e ≠ .fuel) ∨
    ((readEntry K fs dir st entry).1.visited = st.visited ++ [entry] ∧ entry ∉ st.visited ∧
        (fs.stat entry).isSome = true) := by
  unfold readEntry
  split
  · exact Or.inl ⟨rfl, _, rfl, by decide⟩
  · rename_i hnv
    split
    · exact Or.inl ⟨rfl, _, rfl, by decide⟩
    · split
      · exact Or.inl ⟨rfl, _, rfl, by decide⟩
      · split
        · exact Or.inl ⟨rfl, _, rfl, by decide⟩
        · rename_i fi hstat
          split
          · exact Or.inl ⟨rfl, _, rfl, by decide⟩
          · split
            · exact Or.inl ⟨rfl, _, rfl, by decide⟩
            · split
              · exact Or.inl ⟨rfl, _, rfl, by decide⟩
              · exact Or.inr ⟨rfl, by simpa using hnv, by simp [hstat]⟩

section
variable (K : Classes) (fs : FS) (dir : List Char) (files : List (List Char))

/-- the visited list is duplicate-free and only contains files of the (finite) file system -/
def VisInv (st : MState) : Prop := st.visited.Nodup ∧ ∀ p ∈ st.visited, p ∈ files

theorem visInv_length {st : MState} (h : VisInv files st) : st.visited.length ≤ files.length :=
  nodup_subset_length_le st.visited files h.1 h.2

theorem readEntry_visInv (hfiles : ∀ p, (fs.stat p).isSome = true → p ∈ files) (st : MState) (entry : List Char)
    (h : VisInv files st) : VisInv files (readEntry K fs dir st entry).1 := by
  rcases readEntry_cases K fs dir st entry with ⟨hv, _⟩ | ⟨hv, hne, hs⟩
  · unfold VisInv; rw [hv]; exact h
  · unfold VisInv; rw [hv]
    refine ⟨List.nodup_append.mpr ⟨h.1, by simp, ?_⟩, ?_⟩
    · intro a ha b hb
      simp only [List.mem_singleton] at hb
      subst hb
      rintro rfl
      exact hne ha
    · intro p hp
      rcases List.mem_append.mp hp with hp | hp
      · exact h.2 p hp
      · simp only [List.mem_singleton] at hp; subst hp; exact hfiles _ hs

theorem dfsMerge_visInv (hfiles : ∀ p, (fs.stat p).isSome = true → p ∈ files) (n : Nat) (st : MState)
    (entry : List Char) (h : VisInv files st) : VisInv files (dfsMerge K fs dir n st entry).1 :=
  dfsMerge_inv K fs dir (fun a b => VisInv files a → VisInv files b) (fun _ h => h)
    (fun _ _ _ hab hbc h => hbc (hab h)) (fun st entry => readEntry_visInv K fs dir files hfiles st entry) n st entry h

/-- the visited list only ever grows at its end -/
theorem dfsMerge_visited_prefix (n : Nat) (st : MState) (entry : List Char) :
    st.visited <+: (dfsMerge K fs dir n st entry).1.visited := by
  refine dfsMerge_inv K fs dir (fun a b => a.visited <+: b.visited) (fun _ => List.prefix_refl _)
    (fun _ _ _ hab hbc => List.IsPrefix.trans hab hbc) ?_ n st entry
  intro st entry
  rcases readEntry_cases K fs dir st entry with ⟨hv, _⟩ | ⟨hv, _, _⟩
  · rw [hv]; exact List.prefix_refl _
  · rw [hv]; exact List.prefix_append _ _

/-- the children loop never runs out of fuel if no child does -/
theorem dfsChildren_not_fuel (hfiles : ∀ p, (fs.stat p).isSome = true → p ∈ files) (n : Nat)
    (hT : ∀ st entry, VisInv files st → files.length + 1 ≤ n + st.visited.length →
      (dfsMerge K fs dir n st entry).2 ≠ .error .fuel) :
    ∀ (cs : List (List Char)) (st : MState) (acc : SMap), VisInv files st →
      files.length + 1 ≤ n + st.visited.length → (dfsChildren K fs dir n st acc cs).2 ≠ .error .fuel := by
  intro cs
  induction cs with
  | nil => intro st acc _ _; simp [dfsChildren]
  | cons c cs ih =>
    intro st acc hinv hlen
    have h1 := hT st c hinv hlen
    have h2 := dfsMerge_visInv K fs dir files hfiles n st c hinv
    have h3 := (dfsMerge_visited_prefix K fs dir n st c).length_le
    rw [dfsChildren]
    split
    · rename_i st' e heq
      rw [heq] at h1
      exact h1
    · rename_i st' m heq
      rw [heq] at h2 h3
      exact ih st' _ h2 (by simp only at h3; omega)

/-- **Termination.** From a state whose visited list is duplicate-free and inside the finite set
of files, `|files| + 1 - |visited|` levels of fuel are never exhausted: every nested call has
added a new file to the visited list. -/
theorem dfsMerge_not_fuel (hfiles : ∀ p, (fs.stat p).isSome = true → p ∈ files) :
    ∀ (n : Nat) (st : MState) (entry : List Char), VisInv files st →
      files.length + 1 ≤ n + st.visited.length → (dfsMerge K fs dir n st entry).2 ≠ .error .fuel := by
  intro n
  induction n with
  | zero =>
    intro st entry hinv hlen
    have := visInv_length files hinv
    omega
  | succ n ih =>
    intro st entry hinv hlen
    have hcases := readEntry_cases K fs dir st entry
    have hinv1 := readEntry_visInv K fs dir files hfiles st entry hinv
    rw [dfsMerge]
    split
    · rename_i st1 e heq
      rw [heq] at hcases
      rcases hcases with ⟨_, e', he', hne⟩ | ⟨hv, _, _⟩
      · simp only [Except.error.injEq] at he'
        subst he'
        simpa using hne
      · -- the state changed although the result is an error: impossible for the fuel value anyway
        intro hfuel
        simp only [Except.error.injEq] at hfuel
        subst hfuel
        -- readEntry never produces `.fuel`
        have : ∀ (st : MState) (entry : List Char), (readEntry K fs dir st entry).2 ≠ .error .fuel := by
          intro st entry
          unfold readEntry
          repeat' split
          all_goals simp
        exact this st entry (by rw [heq])
    · rename_i st1 own heq
      rw [heq] at hcases hinv1
      have hv : st1.visited = st.visited ++ [entry] := by
        rcases hcases with ⟨_, e', he', _⟩ | ⟨hv, _, _⟩
        · simp at he'
        · exact hv
      split
      · rename_i e he
        intro hfuel
        simp only [Except.error.injEq] at hfuel
        subst hfuel
        exact includePatterns_not_fuel dir _ he
      · split
        · rename_i e he
          intro hfuel
          simp only [Except.error.injEq] at hfuel
          subst hfuel
          exact unsqueeze_not_fuel fs _ he
        · apply dfsChildren_not_fuel K fs dir files hfiles n ih _ st1 own hinv1
          rw [hv]
          simp only [List.length_append, List.length_cons, List.length_nil]
          omega

end

end DaeVerif.C17
