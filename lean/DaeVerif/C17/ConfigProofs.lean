import DaeVerif.C17.Model
/-! # C17 — `config.New`: what is rejected; rule-program size -/
namespace DaeVerif.C17

/-! ## sections -/

theorem configNew_unknown_section (S : Schema) (dec : Dec) (fuel : Nat) (ss : List ASection)
    (h : ∃ s ∈ ss, s.name ≠ "include".toList ∧ ∀ sp ∈ S.specs, sp.name ≠ s.name) :
    ∃ e, configNew S dec fuel ss = .error e := by
  unfold configNew
  split
  · exact ⟨_, rfl⟩
  · split
    · exact ⟨_, rfl⟩
    · have hany : (ss.any fun s => decide (s.name ≠ "include".toList ∧
          (!S.specs.any fun sp => decide (sp.name = s.name)) = true)) = true := by
        obtain ⟨s, hs, hne, hall⟩ := h
        refine List.any_eq_true.mpr ⟨s, hs, ?_⟩
        simp only [decide_eq_true_eq]
        refine ⟨hne, ?_⟩
        simp only [Bool.not_eq_true', List.any_eq_false, decide_eq_true_eq]
        exact fun sp hsp => hall sp hsp
      simp only [hany, if_true]
      exact ⟨_, rfl⟩

theorem configNew_missing_required (S : Schema) (dec : Dec) (fuel : Nat) (ss : List ASection)
    (h : ∃ sp ∈ S.specs, sp.required = true ∧ ∀ s ∈ ss, s.name ≠ sp.name) :
    configNew S dec fuel ss = .error (.requiredSection, []) := by
  unfold configNew
  have : (S.specs.all fun sp => !sp.required || (lookupSection ss sp.name).isSome) = false := by
    obtain ⟨sp, hsp, hreq, hnone⟩ := h
    apply Bool.eq_false_iff.mpr
    intro hall
    have := List.all_eq_true.mp hall sp hsp
    simp only [hreq, Bool.not_true, Bool.false_or] at this
    obtain ⟨s, hs⟩ := Option.isSome_iff_exists.mp this
    unfold lookupSection at hs
    have hmem := List.mem_of_find?_eq_some hs
    have hname := List.find?_some hs
    simp only [decide_eq_true_eq] at hname
    exact hnone s (List.mem_reverse.mp hmem) hname
  simp [this]

/-! ## keys -/

/-- the key under which an item is looked up in the struct -/
def AItem.key? : AItem → Option (List Char)
  | .str k _ _ => some k
  | .fns k _ _ => some k
  | .sec n _ => some n
  | .rule _ _ => none

/-- what `ParamParser` demands of a single item of the section (else it stops with an error) -/
def itemAdmissible (sd : StructDef) : AItem → Prop
  | .str k _ _ => k ≠ [] ∧ (findField sd.fields k).isSome
  | .fns k _ _ => (findField sd.fields k).isSome
  | .sec n _ => (findField sd.fields n).isSome
  | .rule _ _ => sd.hasRules = true

/-- **Unknown keys, key-less text, misplaced rules.** If the item loop of `ParamParser` succeeds
then every item was admissible; and every key marked as set is the key of some item. -/
theorem paramItems_ok (S : Schema) (dec : Dec) (n : Nat) (sd : StructDef) (path : Path) :
    ∀ (items : List AItem) (st : Store) (set : List (List Char)) (st' : Store) (set' : List (List Char)),
    paramItems S dec n sd path items st set = .ok (st', set') →
    (∀ it ∈ items, itemAdmissible sd it) ∧
    (∀ k ∈ set', k ∈ set ∨ ∃ it ∈ items, it.key? = some k) := by
  intro items
  induction items with
  | nil =>
    intro st set st' set' h
    simp only [paramItems, Except.ok.injEq, Prod.mk.injEq] at h
    obtain ⟨_, rfl⟩ := h
    exact ⟨by simp, fun k hk => Or.inl hk⟩
  | cons it rest ih =>
    intro st set st' set' h
    have lift : ∀ (key : List Char) (st1 : Store), it.key? = some key → itemAdmissible sd it →
        paramItems S dec n sd path rest st1 (key :: set) = .ok (st', set') →
        (∀ x ∈ it :: rest, itemAdmissible sd x) ∧
        (∀ k ∈ set', k ∈ set ∨ ∃ x ∈ it :: rest, x.key? = some k) := by
      intro key st1 hkey hadm hrec
      obtain ⟨h1, h2⟩ := ih st1 (key :: set) st' set' hrec
      refine ⟨?_, ?_⟩
      · intro x hx
        rcases List.mem_cons.mp hx with rfl | hx
        · exact hadm
        · exact h1 x hx
      · intro k hk
        rcases h2 k hk with hk' | ⟨x, hx, hxk⟩
        · rcases List.mem_cons.mp hk' with rfl | hk''
          · exact Or.inr ⟨it, List.mem_cons_self, hkey⟩
          · exact Or.inl hk''
        · exact Or.inr ⟨x, List.mem_cons_of_mem _ hx, hxk⟩
    unfold paramItems at h
    split at h
    · -- .str
      rename_i key val ann
      split at h
      · simp at h
      · rename_i hne
        split at h
        · simp at h
        · rename_i f hf
          have hadm : itemAdmissible sd (.str key val ann) :=
            ⟨by simpa using hne, by simp [hf]⟩
          split at h
          · exact lift key _ rfl hadm h
          · exact lift key _ rfl hadm h
          · split at h
            · exact lift key _ rfl hadm h
            · simp at h
          · simp at h
    · -- .fns
      rename_i key fs ann
      split at h
      · simp at h
      · rename_i f hf
        have hadm : itemAdmissible sd (.fns key fs ann) := by simp [itemAdmissible, hf]
        split at h
        · exact lift key _ rfl hadm h
        · split at h
          · dsimp only at h
            split at h
            · exact lift key _ rfl hadm h
            · exact lift key _ rfl hadm h
          · simp at h
        · simp at h
    · -- .sec
      rename_i name items
      split at h
      · simp at h
      · rename_i f hf
        have hadm : itemAdmissible sd (.sec name items) := by simp [itemAdmissible, hf]
        dsimp only at h
        split at h
        · simp at h
        · exact lift name _ rfl hadm h
    · -- .rule
      rename_i fs out
      split at h
      · rename_i hr
        have hadm : itemAdmissible sd (.rule fs out) := hr
        have key : ∀ st1, paramItems S dec n sd path rest st1 set = .ok (st', set') →
            (∀ x ∈ AItem.rule fs out :: rest, itemAdmissible sd x) ∧
            (∀ k ∈ set', k ∈ set ∨ ∃ x ∈ AItem.rule fs out :: rest, x.key? = some k) := by
          intro st1 hrec
          obtain ⟨h1, h2⟩ := ih st1 set st' set' hrec
          refine ⟨?_, ?_⟩
          · intro x hx
            rcases List.mem_cons.mp hx with rfl | hx
            · exact hadm
            · exact h1 x hx
          · intro k hk
            rcases h2 k hk with hk' | ⟨x, hx, hxk⟩
            · exact Or.inl hk'
            · exact Or.inr ⟨x, List.mem_cons_of_mem _ hx, hxk⟩
        dsimp only at h
        split at h
        · exact key _ h
        · exact key _ h
      · simp at h

/-- **Required keys.** If `ParamParser` succeeds, every admissibility condition held and every
`required` field's key occurs among the items. -/
theorem paramParser_ok (S : Schema) (dec : Dec) (n sid : Nat) (path : Path) (items : List AItem)
    (st st' : Store) (h : paramParser S dec (n + 1) sid path items st = .ok st') :
    ∃ sd, S.structs[sid]? = some sd ∧
      (∀ it ∈ items, itemAdmissible sd it) ∧
      (∀ f ∈ sd.fields, f.required = true → ∃ it ∈ items, it.key? = some f.key) := by
  rw [paramParser] at h
  split at h
  · simp at h
  · rename_i sd hsd
    refine ⟨sd, hsd, ?_⟩
    split at h
    · simp at h
    · rename_i st1 hdef
      split at h
      · simp at h
      · rename_i st2 set hitems
        obtain ⟨hadm, hset⟩ := paramItems_ok S dec n sd path items st1 [] st2 set hitems
        refine ⟨hadm, ?_⟩
        intro f hf hreq
        split at h
        · rename_i hcr
          unfold checkRequired at hcr
          have := List.all_eq_true.mp hcr f hf
          simp only [hreq, Bool.not_true, Bool.false_or] at this
          have hmem : f.key ∈ set := by simpa using this
          rcases hset f.key hmem with h0 | h1
          · simp at h0
          · exact h1
        · simp at h

/-! ## rule-program size -/

theorem addSet_ok {table : List Nat} {i : Nat} {t : List Nat} (h : addSet table i = .ok t) :
    i < table.length ∧ t.length = table.length := by
  unfold addSet at h
  split at h
  · rename_i hlt
    simp only [Except.ok.injEq] at h
    subst h
    exact ⟨hlt, by simp⟩
  · simp at h

theorem addSets_ok : ∀ (is : List Nat) (table t : List Nat), addSets table is = .ok t →
    (∀ i ∈ is, i < table.length) ∧ t.length = table.length := by
  intro is
  induction is with
  | nil => intro table t h; simp only [addSets, Except.ok.injEq] at h; subst h; simp
  | cons i is ih =>
    intro table t h
    rw [addSets] at h
    split at h
    · simp at h
    · rename_i t1 h1
      obtain ⟨hi, hl⟩ := addSet_ok h1
      obtain ⟨hrest, hl2⟩ := ih t1 t h
      refine ⟨?_, by omega⟩
      intro j hj
      rcases List.mem_cons.mp hj with rfl | hj
      · exact hi
      · have := hrest j hj; omega

theorem addSets_oversize : ∀ (is : List Nat) (table : List Nat), (∃ i ∈ is, table.length ≤ i) →
    addSets table is = .error .oversize := by
  intro is
  induction is with
  | nil => intro table h; simp at h
  | cons i is ih =>
    intro table h
    rw [addSets]
    by_cases hi : i < table.length
    · have h1 : addSet table i = .ok (table.set i (table.getD i 0 + 1)) := by simp [addSet, hi]
      rw [h1]
      simp only
      apply ih
      obtain ⟨j, hj, hle⟩ := h
      rcases List.mem_cons.mp hj with rfl | hj
      · omega
      · exact ⟨j, hj, by simpa using hle⟩
    · have h1 : addSet table i = .error .oversize := by simp [addSet, hi]
      rw [h1]


/-- **Size limit, accepted side.** If the program compiles, every domain set it emitted has a
match-set index inside the fixed-size table, and — for the traffic builder — the whole program,
fallback entry included, fits the table. -/
theorem compileSize_ok (emit : List Char → Option Emit) (totalLimit : Bool) (maxLen : Nat)
    (rules : List (List Fn × Fn)) (n : Nat) (h : compileSize emit totalLimit maxLen rules = .ok n) :
    ∃ ds, lowerRules emit rules 0 = .ok (n - 1, ds) ∧ 1 ≤ n ∧ (∀ i ∈ ds, i < maxLen) ∧
      (totalLimit = true → n ≤ maxLen) := by
  unfold compileSize at h
  split at h
  · simp at h
  · rename_i k ds hl
    split at h
    · simp at h
    · rename_i hnot
      split at h
      · simp at h
      · rename_i t ht
        simp only [Except.ok.injEq] at h
        subst h
        obtain ⟨hb, _⟩ := addSets_ok ds _ t ht
        refine ⟨ds, by simpa using hl, by omega, ?_, ?_⟩
        · intro i hi
          simpa using hb i hi
        · intro htl
          simp only [htl, true_and, Nat.not_lt] at hnot
          exact hnot

/-- **Size limit, rejected side (traffic routing, 51cbe59).** A program that lowers to more match
sets than the table holds — counting the fallback entry — is a build error, whatever kinds of
match sets it consists of. -/
theorem compileSize_too_long (emit : List Char → Option Emit) (maxLen : Nat) (rules : List (List Fn × Fn))
    (k : Nat) (ds : List Nat) (hl : lowerRules emit rules 0 = .ok (k, ds)) (hbig : maxLen < k + 1) :
    compileSize emit true maxLen rules = .error .oversize := by
  unfold compileSize
  rw [hl]
  simp [hbig]

/-- **Size limit, rejected side (every builder).** A program that lowers to a domain set at a
match-set index beyond the supported maximum is a build error (never an out-of-range table access). -/
theorem compileSize_oversize (emit : List Char → Option Emit) (totalLimit : Bool) (maxLen : Nat)
    (rules : List (List Fn × Fn))
    (k : Nat) (ds : List Nat) (hl : lowerRules emit rules 0 = .ok (k, ds)) (hbig : ∃ i ∈ ds, maxLen ≤ i) :
    compileSize emit totalLimit maxLen rules = .error .oversize := by
  unfold compileSize
  rw [hl]
  simp only
  split
  · rfl
  · rw [addSets_oversize ds _ (by simpa using hbig)]

/-! ## the probed lexer table -/

theorem bitClass_lt {bm : Nat} {c : Char} (h : bitClass bm c = true) : c.toNat < 128 := by
  simp only [bitClass, Bool.and_eq_true, decide_eq_true_eq] at h
  exact h.1

/-- the run-time check of the probed table establishes the hypotheses of the lexer theorems -/
theorem wfCheck_sound (a b c d : Nat) (h : (Classes.ofTable a b c d).wfCheck = true) :
    (Classes.ofTable a b c d).WF := by
  simp only [Classes.wfCheck, Bool.and_eq_true] at h
  obtain ⟨⟨⟨⟨⟨⟨h1, h2⟩, h3⟩, h4⟩, h5⟩, h6⟩, h7⟩ := h
  refine ⟨?_, ?_, ?_, ?_, ⟨h6, h7⟩⟩
  · intro ch hws
    have hlt : ch.toNat < 128 := bitClass_lt hws
    have := List.all_eq_true.mp h1 ch.toNat (List.mem_range.mpr hlt)
    simp only [Char.ofNat_toNat, hws, Bool.not_true, Bool.false_or, Bool.not_eq_true'] at this
    exact this
  · intro ch hch
    have := List.all_eq_true.mp h2 ch hch
    simpa using this
  · intro ch hch
    have := List.all_eq_true.mp h3 ch hch
    simpa using this
  · exact ⟨by simpa using h4, by simpa using h5⟩


/-! ## lifting the one-struct facts to `config.New` -/

/-- the items `config.New` decodes for a section name: those of the last section so named, or
none when the section is omitted (2aec039) -/
def itemsOf (ss : List ASection) (name : List Char) : List AItem :=
  match lookupSection ss name with
  | some sec => sec.items
  | none => []

/-- every spec's section went through `SectionParser` successfully -/
theorem decodeSpecs_ok_each (S : Schema) (dec : Dec) (fuel : Nat) (ss : List ASection) :
    ∀ (specs : List SectionSpec) (st st' : Store), decodeSpecs S dec fuel ss specs st = .ok st' →
    ∀ sp ∈ specs, ∃ st0 st1, sectionParser S dec fuel sp.kind [sp.name] (itemsOf ss sp.name) st0 = .ok st1 := by
  intro specs
  induction specs with
  | nil => intro st st' _ sp hsp; simp at hsp
  | cons sp0 rest ih =>
    intro st st' h sp hsp
    unfold decodeSpecs at h
    split at h
    · rename_i hlook
      split at h
      · simp at h
      · rename_i st1 hs
        rcases List.mem_cons.mp hsp with rfl | hsp'
        · exact ⟨st, st1, by simpa [itemsOf, hlook] using hs⟩
        · exact ih _ st' h sp hsp'
    · rename_i sec hlook
      split at h
      · simp at h
      · rename_i st1 hs
        rcases List.mem_cons.mp hsp with rfl | hsp'
        · exact ⟨st, st1, by simpa [itemsOf, hlook] using hs⟩
        · exact ih _ _ h sp hsp'

/-- **Unknown keys / missing required keys, at `config.New` level (top-level struct sections).**
If `config.New` succeeds then, for every struct section (`global`, `routing`, `dns`), every item
of the section it decoded is admissible (known key, no key-less text, rules only where rules
belong) and every `required` key is written.  (The section decoded for a name is the LAST one so
named — `config.New` assumes `Merger` has de-duplicated the names; nested sections are checked by
their own `ParamParser` run, see `unknown_key_rejected_one_struct`.) -/
theorem configNew_ok_sections (S : Schema) (dec : Dec) (fuel : Nat) (ss : List ASection) (st' : Store)
    (h : configNew S dec fuel ss = .ok st') (sp : SectionSpec) (hsp : sp ∈ S.specs) (sid : Nat)
    (hkind : sp.kind = .struct sid) :
    ∃ sd, S.structs[sid]? = some sd ∧
      (∀ it ∈ itemsOf ss sp.name, itemAdmissible sd it) ∧
      (∀ f ∈ sd.fields, f.required = true → ∃ it ∈ itemsOf ss sp.name, it.key? = some f.key) := by
  unfold configNew at h
  split at h
  · simp at h
  · split at h
    · simp at h
    · rename_i st hdec
      obtain ⟨st0, st1, hs⟩ := decodeSpecs_ok_each S dec fuel ss S.specs [] st hdec sp hsp
      cases fuel with
      | zero => simp [sectionParser] at hs
      | succ m =>
        simp only [sectionParser, hkind] at hs
        cases m with
        | zero => simp [paramParser] at hs
        | succ n => exact paramParser_ok S dec n sid [sp.name] _ st0 st1 hs

end DaeVerif.C17
