/-!
# C17 — executable model of dae's configuration front end

Core-only.  Four layers, mirroring the code in /repo:

1. `lex`       — the ANTLR lexer of `dae_config.g4` (longest match, rule order, the two non-greedy
                 string rules with their "last escaped quote" fallback, `/*…*/` versus NON_ID).
                 Character classes are a *parameter* (`Classes`): the driver receives the table the
                 harness probed from the real lexer at run time.
2. `parseToks` — an LL(2) recursive-descent parser for the grammar rules reconstructed from the
                 generated parser (`dae_config_parser.go`), producing a concrete syntax tree
                 (`Items`) that keeps quoting style and `,`-lists, and `walk`, which is
                 `pkg/config_parser/walker.go`: the `Section/Item/Param/Function/RoutingRule` AST
                 plus the two walker-level errors (empty parameter list, empty annotation).
3. `merge`     — `config.Merger` over an abstract file system (`config/config_merger.go`,
                 `common.EnsureFileInSubDir`, lexical `filepath.Clean/Join/Dir/Rel`).
4. `configNew` — `config.New` + the reflection-driven `SectionParser/ParamParser` over a schema
                 probed from the real structs, and the match-set size accounting of rule compilation.
-/
namespace DaeVerif.C17

/-! ## 1. Lexer -/

/-- The lexer's character classes (fragments `SAFE_ID_HEAD_CHAR`, `SAFE_NONID_HEAD_CHAR`,
`SAFE_INTERMEDIATE_CHAR`, token `WHITESPACE`).  Probed from the real lexer by the harness. -/
structure Classes where
  idHead : Char → Bool
  nonIdHead : Char → Bool
  inter : Char → Bool
  ws : Char → Bool

def bitClass (bm : Nat) (c : Char) : Bool := c.toNat < 128 && bm.testBit c.toNat

/-- the class table as the harness sends it: four 128-bit bitmaps over ASCII; every other code
point belongs to no class (probed by the harness) -/
def Classes.ofTable (a b c d : Nat) : Classes := ⟨bitClass a, bitClass b, bitClass c, bitClass d⟩

/-- `SAFE_CHAR` -/
def Classes.safe (K : Classes) (c : Char) : Bool := K.idHead c || K.nonIdHead c || K.inter c

inductive Tok where
  | comma | lbrace | rbrace | colon | lbrack | rbrack | bang | lparen | rparen | arrow | andand
  | id (s : List Char)
  | nonId (s : List Char)
  /-- `q` is the quote character, `s` the raw text between the quotes (no unescaping, as
  `getValueFromLiteral` does `text[1:len-1]`). -/
  | quote (q : Char) (s : List Char)
  deriving DecidableEq, Repr, Inhabited

/-- `'"' ( '\\"' | . )*? '"'` under ANTLR's lexer semantics.  `cs` is the text after the opening
quote; the result is the number of characters of `cs` the token takes, closing quote included.
A quote not directly preceded by a backslash ends the token; a quote directly preceded by a
backslash is remembered as a fallback end (`fb`) and scanning goes on; at end of input the *last*
fallback wins; with no fallback there is no token (lexer error). -/
def quoteScan (q : Char) : (prevBackslash : Bool) → (fb : Option Nat) → (pos : Nat) → List Char → Option Nat
  | _, fb, _, [] => fb
  | pb, fb, i, c :: cs =>
    if c = q then
      if pb then quoteScan q false (some (i + 1)) (i + 1) cs
      else some (i + 1)
    else quoteScan q (c = '\\') fb (i + 1) cs

def isNL (c : Char) : Bool := c = '\n' || c = '\r'

/-- `'#' .*? ([\r\n]+ | EOF)`: characters taken after the `#`. -/
def lineCommentLen : List Char → Nat
  | [] => 0
  | c :: cs => if isNL c then 1 + (cs.takeWhile isNL).length else 1 + lineCommentLen cs

/-- index just past the first `*/` -/
def blockEnd : List Char → Option Nat
  | [] => none
  | a :: rest =>
    match rest with
    | [] => none
    | b :: _ => if a = '*' ∧ b = '/' then some 2 else (blockEnd rest).map (· + 1)

inductive Scan where
  /-- a token; `n` = characters consumed after the first one -/
  | tok (t : Tok) (n : Nat)
  | skip (n : Nat)
  | err
  deriving Repr

/-- does `/*…*/` (COMMENT_BLOCK, earlier rule) beat NON_ID at a `/` followed by `cs = '*' :: …`?
Longest match; on equal length the earlier rule.  Returns the characters to skip after the `/`. -/
def blockCommentWins (K : Classes) (cs : List Char) : Option Nat :=
  match cs with
  | '*' :: cs' =>
    match blockEnd cs' with
    | some e =>
      -- comment length = 2 + e ; NON_ID length = 1 + run (0 if `/` is not a NON_ID head)
      let nonId := if K.nonIdHead '/' then 1 + (cs.takeWhile K.safe).length else 0
      if 2 + e ≥ nonId then some (1 + e) else none
    | none => none
  | _ => none

def startsWithGt : List Char → Bool
  | '>' :: _ => true
  | _ => false

/-- `'->'` (earlier rule, two characters) at a `-` -/
def isArrow (c : Char) (cs : List Char) : Bool := c = '-' && startsWithGt cs

/-- a block comment that wins at `c :: cs`: characters to skip after `c` -/
def commentAt (K : Classes) (c : Char) (cs : List Char) : Option Nat :=
  if c = '/' then blockCommentWins K cs else none

def startsWithAmp : List Char → Bool
  | '&' :: _ => true
  | _ => false

/-- One lexer step at a non-empty input `c :: cs`. -/
def scan (K : Classes) (c : Char) (cs : List Char) : Scan :=
  if K.ws c then .skip 0
  else if c = '#' then .skip (lineCommentLen cs)
  else if c = ',' then .tok .comma 0
  else if c = '{' then .tok .lbrace 0
  else if c = '}' then .tok .rbrace 0
  else if c = ':' then .tok .colon 0
  else if c = '[' then .tok .lbrack 0
  else if c = ']' then .tok .rbrack 0
  else if c = '!' then .tok .bang 0
  else if c = '(' then .tok .lparen 0
  else if c = ')' then .tok .rparen 0
  else if c = '&' then (if startsWithAmp cs then .tok .andand 1 else .err)
  else if c = '"' ∨ c = '\'' then
    match quoteScan c false none 0 cs with
    | some n => .tok (.quote c (cs.take (n - 1))) n
    | none => .err
  else if isArrow c cs then .tok .arrow 1
  else
    match commentAt K c cs with
    | some n => .skip n
    | none =>
      if K.idHead c then .tok (.id (c :: cs.takeWhile K.safe)) (cs.takeWhile K.safe).length
      else if K.nonIdHead c then .tok (.nonId (c :: cs.takeWhile K.safe)) (cs.takeWhile K.safe).length
      else .err

/-- The whole lexer: `none` = some token recognition error (the error listener fires, `Parse`
rejects). -/
def lex (K : Classes) : List Char → Option (List Tok)
  | [] => some []
  | c :: cs =>
    match scan K c cs with
    | .err => none
    | .skip n => lex K (cs.drop n)
    | .tok t n => (lex K (cs.drop n)).map (t :: ·)
termination_by cs => cs.length
decreasing_by all_goals (simp only [List.length_drop, List.length_cons]; omega)

/-! ## 2. Grammar: concrete syntax tree, token-level parser, walker -/

/-- `literal : quote_literal | bare_literal` -/
inductive Lit where
  | id (s : List Char) | nonId (s : List Char) | quote (q : Char) (s : List Char)
  deriving DecidableEq, Repr, Inhabited

def Lit.tok : Lit → Tok
  | .id s => .id s | .nonId s => .nonId s | .quote q s => .quote q s

def Lit.val : Lit → List Char
  | .id s => s | .nonId s => s | .quote _ s => s

def litOfTok : Tok → Option Lit
  | .id s => some (.id s) | .nonId s => some (.nonId s) | .quote q s => some (.quote q s)
  | _ => none

/-- `parameter : ID ':' literal | literal` -/
structure CParam where
  key : Option (List Char)
  val : Lit
  deriving DecidableEq, Repr

/-- `functionPrototype : '!'? ID '(' optParameterList ')'` -/
structure CFn where
  neg : Bool
  name : List Char
  params : List CParam
  deriving DecidableEq, Repr

/-- `outboundExpr : bare_literal | functionPrototype` -/
inductive COut where
  | id (s : List Char) | nonId (s : List Char) | fn (f : CFn)
  deriving DecidableEq, Repr

/-- declaration value: `literalExpression` or `functionPrototypeExpression` (both non-empty) -/
inductive CVal where
  | lits (first : Lit) (rest : List Lit)
  | fns (first : CFn) (rest : List CFn)
  deriving DecidableEq, Repr

/-- `declaration : ID ':' (functionPrototypeExpression | literalExpression) optAnnotation` -/
structure CDecl where
  key : List Char
  val : CVal
  /-- `none` = no `[...]`; `some []` = `[]` -/
  ann : Option (List CParam)
  deriving DecidableEq, Repr

/-- `routingRule : functionPrototypeExpression '->' outboundExpr` -/
structure CRule where
  first : CFn
  rest : List CFn
  out : COut
  deriving DecidableEq, Repr

/-- `routingRuleOrDeclarationOrLiteralOrExpressionList`, constructor per alternative. -/
inductive Items where
  | nil
  | rule (r : CRule) (rest : Items)
  | decl (d : CDecl) (rest : Items)
  | lit (l : Lit) (rest : Items)
  | sec (name : List Char) (body : Items) (rest : Items)
  deriving DecidableEq, Repr

/-- `start : (ID '{' list '}')* EOF` -/
abbrev Prog := List (List Char × Items)

/-! ### what a tree spells (token sequence) -/

def CParam.toks (p : CParam) : List Tok :=
  match p.key with
  | none => [p.val.tok]
  | some k => [.id k, .colon, p.val.tok]

/-- `(',' parameter)*` -/
def paramsTail (ps : List CParam) : List Tok := ps.flatMap (fun q => .comma :: q.toks)

/-- comma-separated, possibly empty -/
def paramsToks : List CParam → List Tok
  | [] => []
  | p :: ps => p.toks ++ paramsTail ps

def CFn.toks (f : CFn) : List Tok :=
  (if f.neg then [.bang] else []) ++ (.id f.name :: .lparen :: (paramsToks f.params ++ [.rparen]))

/-- `('&&' functionPrototype)*` -/
def fnsTail (fs : List CFn) : List Tok := fs.flatMap (fun f => .andand :: f.toks)

def fnsToks (first : CFn) (rest : List CFn) : List Tok := first.toks ++ fnsTail rest

/-- `(',' literal)*` -/
def litsTail (ls : List Lit) : List Tok := ls.flatMap (fun l => [.comma, l.tok])

def litsToks (first : Lit) (rest : List Lit) : List Tok := first.tok :: litsTail rest

def COut.toks : COut → List Tok
  | .id s => [.id s] | .nonId s => [.nonId s] | .fn f => f.toks

def CVal.toks : CVal → List Tok
  | .lits a r => litsToks a r
  | .fns a r => fnsToks a r

def annToks : Option (List CParam) → List Tok
  | none => []
  | some ps => .lbrack :: (paramsToks ps ++ [.rbrack])

def CDecl.toks (d : CDecl) : List Tok := .id d.key :: .colon :: (d.val.toks ++ annToks d.ann)

def CRule.toks (r : CRule) : List Tok := fnsToks r.first r.rest ++ .arrow :: r.out.toks

def Items.toks : Items → List Tok
  | .nil => []
  | .rule r rest => r.toks ++ rest.toks
  | .decl d rest => d.toks ++ rest.toks
  | .lit l rest => l.tok :: rest.toks
  | .sec n body rest => .id n :: .lbrace :: (body.toks ++ .rbrace :: rest.toks)

def progToks : Prog → List Tok
  | [] => []
  | (n, body) :: ps => .id n :: .lbrace :: (body.toks ++ .rbrace :: progToks ps)

/-! ### token-level parser (fuel = an upper bound on the tokens; `parseToks` supplies it) -/

inductive PErr where
  | syntax | fuel
  deriving DecidableEq, Repr

abbrev PRes (α : Type) := Except PErr (α × List Tok)

/-- `parameter` -/
def parseParam : List Tok → PRes CParam
  | .id k :: .colon :: t :: r =>
    match litOfTok t with
    | some l => .ok (⟨some k, l⟩, r)
    | none => .error .syntax
  | [.id _, .colon] => .error .syntax
  | t :: r =>
    match litOfTok t with
    | some l => .ok (⟨none, l⟩, r)
    | none => .error .syntax
  | [] => .error .syntax

/-- `nonEmptyParameterList : parameter (',' parameter)*` -/
def parseParams : Nat → List Tok → PRes (List CParam)
  | 0, _ => .error .fuel
  | n + 1, ts =>
    match parseParam ts with
    | .error e => .error e
    | .ok (p, r) =>
      match r with
      | .comma :: r' =>
        match parseParams n r' with
        | .error e => .error e
        | .ok (ps, r'') => .ok (p :: ps, r'')
      | _ => .ok ([p], r)

def startsLit : List Tok → Bool
  | t :: _ => (litOfTok t).isSome
  | [] => false

/-- `optParameterList` followed by the closing token `close` -/
def parseOptParams (n : Nat) (close : Tok) (ts : List Tok) : PRes (List CParam) :=
  if startsLit ts then
    match parseParams n ts with
    | .error e => .error e
    | .ok (ps, r) =>
      match r with
      | t :: r' => if t = close then .ok (ps, r') else .error .syntax
      | [] => .error .syntax
  else
    match ts with
    | t :: r' => if t = close then .ok ([], r') else .error .syntax
    | [] => .error .syntax

/-- `functionPrototype` -/
def parseFn (n : Nat) : List Tok → PRes CFn
  | .bang :: .id f :: .lparen :: r =>
    match parseOptParams n .rparen r with
    | .error e => .error e
    | .ok (ps, r') => .ok (⟨true, f, ps⟩, r')
  | .id f :: .lparen :: r =>
    match parseOptParams n .rparen r with
    | .error e => .error e
    | .ok (ps, r') => .ok (⟨false, f, ps⟩, r')
  | _ => .error .syntax

/-- `('&&' functionPrototype)*` -/
def parseFnsTail : Nat → List Tok → PRes (List CFn)
  | 0, _ => .error .fuel
  | n + 1, ts =>
    match ts with
    | .andand :: r =>
      match parseFn n r with
      | .error e => .error e
      | .ok (f, r') =>
        match parseFnsTail n r' with
        | .error e => .error e
        | .ok (fs, r'') => .ok (f :: fs, r'')
    | _ => .ok ([], ts)

/-- `(',' literal)*` -/
def parseLitsTail : Nat → List Tok → PRes (List Lit)
  | 0, _ => .error .fuel
  | n + 1, ts =>
    match ts with
    | .comma :: t :: r =>
      match litOfTok t with
      | none => .error .syntax
      | some l =>
        match parseLitsTail n r with
        | .error e => .error e
        | .ok (ls, r') => .ok (l :: ls, r')
    | [.comma] => .error .syntax
    | _ => .ok ([], ts)

/-- `optAnnotation` -/
def parseAnn (n : Nat) : List Tok → PRes (Option (List CParam))
  | .lbrack :: r =>
    match parseOptParams n .rbrack r with
    | .error e => .error e
    | .ok (ps, r') => .ok (some ps, r')
  | ts => .ok (none, ts)

/-- does a function prototype start here (`'!'` or `ID '('`)? -/
def startsFn : List Tok → Bool
  | .bang :: _ => true
  | .id _ :: .lparen :: _ => true
  | _ => false

/-- the part of a declaration after `ID ':'` -/
def parseDeclBody (n : Nat) (key : List Char) (ts : List Tok) : PRes CDecl :=
  if startsFn ts then
    match parseFn n ts with
    | .error e => .error e
    | .ok (f, r) =>
      match parseFnsTail n r with
      | .error e => .error e
      | .ok (fs, r') =>
        match parseAnn n r' with
        | .error e => .error e
        | .ok (a, r'') => .ok (⟨key, .fns f fs, a⟩, r'')
  else
    match ts with
    | t :: r =>
      match litOfTok t with
      | none => .error .syntax
      | some l =>
        match parseLitsTail n r with
        | .error e => .error e
        | .ok (ls, r') =>
          match parseAnn n r' with
          | .error e => .error e
          | .ok (a, r'') => .ok (⟨key, .lits l ls, a⟩, r'')
    | [] => .error .syntax

/-- `outboundExpr` -/
def parseOut (n : Nat) (ts : List Tok) : PRes COut :=
  if startsFn ts then
    match parseFn n ts with
    | .error e => .error e
    | .ok (f, r) => .ok (.fn f, r)
  else
    match ts with
    | .id s :: r => .ok (.id s, r)
    | .nonId s :: r => .ok (.nonId s, r)
    | _ => .error .syntax

/-- `routingRule` -/
def parseRule (n : Nat) (ts : List Tok) : PRes CRule :=
  match parseFn n ts with
  | .error e => .error e
  | .ok (f, r) =>
    match parseFnsTail n r with
    | .error e => .error e
    | .ok (fs, r') =>
      match r' with
      | .arrow :: r'' =>
        match parseOut n r'' with
        | .error e => .error e
        | .ok (o, r3) => .ok (⟨f, fs, o⟩, r3)
      | _ => .error .syntax

/-- which alternative of the list rule applies (two tokens of lookahead) -/
inductive ItemKind where
  | rule | decl (key : List Char) | sec (name : List Char) | lit (l : Lit) | none
  deriving DecidableEq, Repr

def itemKind : List Tok → ItemKind
  | .bang :: _ => .rule
  | .id _ :: .lparen :: _ => .rule
  | .id k :: .colon :: _ => .decl k
  | .id n :: .lbrace :: _ => .sec n
  | .id s :: _ => .lit (.id s)
  | .nonId s :: _ => .lit (.nonId s)
  | .quote q s :: _ => .lit (.quote q s)
  | _ => .none

/-- `routingRuleOrDeclarationOrLiteralOrExpressionList` -/
def parseItems : Nat → List Tok → PRes Items
  | 0, _ => .error .fuel
  | n + 1, ts =>
    match itemKind ts with
    | .none => .ok (.nil, ts)
    | .rule =>
      match parseRule n ts with
      | .error e => .error e
      | .ok (r, ts') =>
        match parseItems n ts' with
        | .error e => .error e
        | .ok (rest, ts'') => .ok (.rule r rest, ts'')
    | .decl k =>
      match parseDeclBody n k (ts.drop 2) with
      | .error e => .error e
      | .ok (d, ts') =>
        match parseItems n ts' with
        | .error e => .error e
        | .ok (rest, ts'') => .ok (.decl d rest, ts'')
    | .lit l =>
      match parseItems n (ts.drop 1) with
      | .error e => .error e
      | .ok (rest, ts'') => .ok (.lit l rest, ts'')
    | .sec name =>
      match parseItems n (ts.drop 2) with
      | .error e => .error e
      | .ok (body, ts') =>
        match ts' with
        | .rbrace :: ts'' =>
          match parseItems n ts'' with
          | .error e => .error e
          | .ok (rest, ts3) => .ok (.sec name body rest, ts3)
        | _ => .error .syntax

/-- `start` -/
def parseProg : Nat → List Tok → Except PErr Prog
  | 0, _ => .error .fuel
  | n + 1, ts =>
    match ts with
    | [] => .ok []
    | .id name :: .lbrace :: r =>
      match parseItems n r with
      | .error e => .error e
      | .ok (body, r') =>
        match r' with
        | .rbrace :: r'' =>
          match parseProg n r'' with
          | .error e => .error e
          | .ok ps => .ok ((name, body) :: ps)
        | _ => .error .syntax
    | _ => .error .syntax

def parseToks (ts : List Tok) : Except PErr Prog := parseProg (ts.length + 1) ts

/-! ### the Walker's AST -/

/-- function / annotation parameter: `Param{Key, Val}` -/
structure KV where
  key : List Char
  val : List Char
  deriving DecidableEq, Repr

/-- `config_parser.Function` -/
structure Fn where
  name : List Char
  neg : Bool
  params : List KV
  deriving DecidableEq, Repr

/-- `config_parser.Item` (tagged union of RoutingRule / Param / Section) -/
inductive AItem where
  | rule (fns : List Fn) (out : Fn)
  /-- `Param{Key, Val}` with `AndFunctions == nil` (also the literal item, key = "") -/
  | str (key : List Char) (val : List Char) (ann : List KV)
  /-- `Param{Key, AndFunctions}` -/
  | fns (key : List Char) (fs : List Fn) (ann : List KV)
  | sec (name : List Char) (items : List AItem)
  deriving Repr

structure ASection where
  name : List Char
  items : List AItem
  deriving Repr

def CParam.kv (p : CParam) : KV := ⟨p.key.getD [], p.val.val⟩

/-- `parseFunctionPrototype`: an empty parameter list is reported as an error. -/
def walkFn (f : CFn) : Option Fn :=
  if f.params.isEmpty then none else some ⟨f.name, f.neg, f.params.map CParam.kv⟩

def walkFns : List CFn → Option (List Fn)
  | [] => some []
  | f :: fs =>
    match walkFn f, walkFns fs with
    | some a, some as => some (a :: as)
    | _, _ => none

def walkOut : COut → Option Fn
  | .id s => some ⟨s, false, []⟩
  | .nonId s => some ⟨s, false, []⟩
  | .fn f => walkFn f

/-- annotation: absent → `nil`; `[]` → error "empty parameter list" -/
def walkAnn : Option (List CParam) → Option (List KV)
  | none => some []
  | some [] => none
  | some ps => some (ps.map CParam.kv)

def joinComma : List (List Char) → List Char
  | [] => []
  | [a] => a
  | a :: b :: r => a ++ ',' :: joinComma (b :: r)

def walkDecl (d : CDecl) : Option AItem :=
  match walkAnn d.ann with
  | none => none
  | some ann =>
    match d.val with
    | .lits a r => some (.str d.key (joinComma ((a :: r).map Lit.val)) ann)
    | .fns a r =>
      match walkFns (a :: r) with
      | none => none
      | some fs => some (.fns d.key fs ann)

def walkRule (r : CRule) : Option AItem :=
  match walkFns (r.first :: r.rest), walkOut r.out with
  | some fs, some o => some (.rule fs o)
  | _, _ => none

/-- `routingRuleOrDeclarationOrLiteralOrExpressionListParser.Parse` + `parseExpression`;
`none` = the walker reported an error (the whole `Parse` fails). -/
def walkItems : Items → Option (List AItem)
  | .nil => some []
  | .rule r rest =>
    match walkRule r, walkItems rest with
    | some a, some as => some (a :: as)
    | _, _ => none
  | .decl d rest =>
    match walkDecl d, walkItems rest with
    | some a, some as => some (a :: as)
    | _, _ => none
  | .lit l rest =>
    match walkItems rest with
    | some as => some (.str [] l.val [] :: as)
    | none => none
  | .sec n body rest =>
    match walkItems body, walkItems rest with
    | some b, some as => some (.sec n b :: as)
    | _, _ => none

def walkProg : Prog → Option (List ASection)
  | [] => some []
  | (n, body) :: ps =>
    match walkItems body, walkProg ps with
    | some b, some ss => some (⟨n, b⟩ :: ss)
    | _, _ => none

/-- `config_parser.Parse`: `none` = rejected with an error. -/
def parse (K : Classes) (text : List Char) : Option (List ASection) :=
  match lex K text with
  | none => none
  | some ts =>
    match parseToks ts with
    | .error _ => none
    | .ok p => walkProg p


/-! ### the renderer -/

def Tok.text : Tok → List Char
  | .comma => [','] | .lbrace => ['{'] | .rbrace => ['}'] | .colon => [':'] | .lbrack => ['[']
  | .rbrack => [']'] | .bang => ['!'] | .lparen => ['('] | .rparen => [')']
  | .arrow => ['-', '>'] | .andand => ['&', '&']
  | .id s => s | .nonId s => s
  | .quote q s => q :: (s ++ [q])

/-- tokens with the text written after each of them (whitespace, comments, or nothing) -/
def renderToks : List (Tok × List Char) → List Char
  | [] => []
  | (t, sep) :: rest => t.text ++ (sep ++ renderToks rest)

/-- the canonical printer: one space after every token -/
def render (p : Prog) : List Char := renderToks ((progToks p).map fun t => (t, [' ']))

/-- hypotheses on the probed character table under which `scan`'s decision tree is ANTLR's
longest-match / first-rule choice and the renderer is safe.  Checked on the probed table by the
driver at run time (`Classes.wfCheck`). -/
structure Classes.WF (K : Classes) : Prop where
  ws_not_safe : ∀ c, K.ws c = true → K.safe c = false
  /-- punctuation, quotes, `&`, `>` are neither word characters nor whitespace -/
  special : ∀ c ∈ [',', '{', '}', ':', '[', ']', '(', ')', '&', '"', '\'', '>'], K.safe c = false ∧ K.ws c = false
  /-- `!`, `#` may occur inside words but never start one; `-`, `/`, `*` never start an ID -/
  nohead : ∀ c ∈ ['!', '#', '-', '/', '*'], K.idHead c = false ∧ K.ws c = false
  bang_hash_nonid : K.nonIdHead '!' = false ∧ K.nonIdHead '#' = false
  nl_ws : K.ws '\n' = true ∧ K.ws '\r' = true

/-- the executable form of `Classes.WF` for a table (only ASCII can be in a class) -/
def Classes.wfCheck (K : Classes) : Bool :=
  (List.range 128).all (fun n => !(K.ws (Char.ofNat n)) || !(K.safe (Char.ofNat n))) &&
  [',', '{', '}', ':', '[', ']', '(', ')', '&', '"', '\'', '>'].all (fun c => !(K.safe c) && !(K.ws c)) &&
  ['!', '#', '-', '/', '*'].all (fun c => !(K.idHead c) && !(K.ws c)) &&
  !(K.nonIdHead '!') && !(K.nonIdHead '#') && K.ws '\n' && K.ws '\r'

/-- no unescaped closing quote inside, and the body does not end in a backslash -/
def quoteBodyOK (q : Char) : (prevBackslash : Bool) → List Char → Bool
  | pb, [] => !pb
  | pb, c :: cs => if c = q then pb && quoteBodyOK q false cs else quoteBodyOK q (c = '\\') cs

/-- a token the lexer reads back as itself -/
def TokOK (K : Classes) : Tok → Prop
  | .id s => ∃ c r, s = c :: r ∧ K.idHead c = true ∧ r.all K.safe = true
  | .nonId s => ∃ c r, s = c :: r ∧ K.nonIdHead c = true ∧ K.idHead c = false ∧ r.all K.safe = true ∧
      -- a word starting with `/*` must contain its `*/` strictly inside (else it is a comment)
      (c = '/' → ∀ r', r = '*' :: r' → ∃ e, blockEnd r' = some e ∧ e < r'.length)
  | .quote q s => (q = '"' ∨ q = '\'') ∧ quoteBodyOK q false s = true
  | _ => True

def Tok.isWord : Tok → Bool
  | .id _ => true | .nonId _ => true | _ => false

/-- what may directly follow a bare word -/
def wordEnd (K : Classes) : List Char → Prop
  | [] => True
  | c :: _ => K.safe c = false ∧ c ≠ '>' ∧ c ≠ '*'

/-- text the lexer skips completely, whatever follows it -/
def Skips (K : Classes) (s : List Char) : Prop := ∀ rest, lex K (s ++ rest) = lex K rest

/-- the text after token `t`: nothing (allowed when `t` is closed by itself or the next text
cannot extend it), or skipped text that starts with a whitespace character -/
def SepOK (K : Classes) (t : Tok) (sep next : List Char) : Prop :=
  (sep = [] ∧ (t.isWord = true → wordEnd K next)) ∨ (Skips K sep ∧ ∃ w r, sep = w :: r ∧ K.ws w = true)

def SepsOK (K : Classes) : List (Tok × List Char) → Prop
  | [] => True
  | (t, sep) :: rest => SepOK K t sep (renderToks rest) ∧ SepsOK K rest

/-! ## 3. Include merging over an abstract file system -/

/-- `Param.String(compact = true, quoteVal = false)` for a function/annotation parameter -/
def KV.str (p : KV) : List Char := if p.key.isEmpty then p.val else p.key ++ ':' :: p.val

def intercalateC (sep : List Char) : List (List Char) → List Char
  | [] => []
  | [a] => a
  | a :: b :: r => a ++ sep ++ intercalateC sep (b :: r)

/-- `Function.String(compact = true, quoteVal = false, omitEmpty = false)`: at most five
parameters are printed, then `...`. -/
def Fn.str (f : Fn) : List Char :=
  let ps := (f.params.take 5).map KV.str ++ (if f.params.length > 5 then ["...".toList] else [])
  (if f.neg then ['!'] else []) ++ f.name ++ '(' :: (intercalateC [','] ps ++ [')'])

/-- `Param.String(true, false)` of an item that is a `*Param`; `none` for rules and sections. -/
def AItem.paramStr : AItem → Option (List Char)
  | .str k v _ => some (if k.isEmpty then v else k ++ ':' :: v)
  | .fns k fs _ => some (k ++ ':' :: intercalateC ['&', '&'] (fs.map Fn.str))
  | _ => none

/-! ### lexical paths (`path/filepath` on Unix) -/

def splitOnC (sep : Char) : List Char → List (List Char)
  | [] => [[]]
  | c :: cs =>
    match splitOnC sep cs with
    | [] => [[]]           -- unreachable
    | h :: t => if c = sep then [] :: h :: t else (c :: h) :: t

def isAbsPath (p : List Char) : Bool := p.head? = some '/'

/-- one step of `Clean` on the stack of kept components (top = last kept) -/
def cleanStep (rooted : Bool) (stack : List (List Char)) (comp : List Char) : List (List Char) :=
  if comp = [] ∨ comp = ['.'] then stack
  else if comp = ['.', '.'] then
    match stack with
    | top :: rest => if top = ['.', '.'] then comp :: stack else rest
    | [] => if rooted then [] else [comp]
  else comp :: stack

/-- the cleaned components of a path, in order (`..` only in front, only for relative paths) -/
def cleanComps (p : List Char) : List (List Char) :=
  ((splitOnC '/' p).foldl (cleanStep (isAbsPath p)) []).reverse

/-- `filepath.Clean` -/
def cleanPath (p : List Char) : List Char :=
  if p = [] then ['.']
  else
    let cs := intercalateC ['/'] (cleanComps p)
    if isAbsPath p then '/' :: cs else if cs = [] then ['.'] else cs

/-- `filepath.Join(a, b)` -/
def joinPath (a b : List Char) : List Char :=
  if a = [] ∧ b = [] then []
  else if a = [] then cleanPath b
  else if b = [] then cleanPath a
  else cleanPath (a ++ '/' :: b)

/-- the text up to and including the last `/` -/
def dirPart (p : List Char) : List Char :=
  match (splitOnC '/' p).reverse with
  | _ :: r => (intercalateC ['/'] r.reverse) ++ (if r.isEmpty then [] else ['/'])
  | [] => []

/-- `filepath.Dir` -/
def dirOf (p : List Char) : List Char := cleanPath (dirPart p)

def hasSuffixC (s suf : List Char) : Bool := suf.reverse.isPrefixOf s.reverse

def stripPrefixL : List (List Char) → List (List Char) → Option (List (List Char))
  | [], t => some t
  | _ :: _, [] => none
  | b :: bs, t :: ts => if b = t then stripPrefixL bs ts else none

/-- `Rel` treats a base of `.` as the empty path -/
def relBase (b : List Char) : List Char := if b = ['.'] then [] else b

/-- the components `Rel` walks through on the target side (a target of `.` is the one component `.`) -/
def targComps (t : List Char) : List (List Char) := if t = ['.'] then [['.']] else cleanComps t

/-- `!strings.HasPrefix(rel, "..")` on what is left of the target after the base -/
def restOK : List (List Char) → Bool
  | [] => true
  | h :: _ => !(['.', '.'].isPrefixOf h)

/-- `common.EnsureFileInSubDir(filePath, dir)` at decision level: `true` = accepted.  This is
`filepath.Rel(dir, Dir(filePath))` succeeding with a result that does not start with `..`. -/
def ensureInSubDir (file dir : List Char) : Bool :=
  if dir = [] then false
  else if cleanPath (dirOf file) = cleanPath dir then true
  else if isAbsPath (relBase (cleanPath dir)) != isAbsPath (cleanPath (dirOf file)) then false
  else
    match stripPrefixL (cleanComps (relBase (cleanPath dir))) (targComps (cleanPath (dirOf file))) with
    | none => false
    | some rest => restOK rest

/-! ### the abstract file system and `Merger` -/

structure FileInfo where
  isDir : Bool
  /-- permission bits `fi.Mode() & 0777` -/
  perm : Nat
  content : List Char

structure FS where
  /-- `os.Open` + `Stat` (and `os.Stat` in `unsqueezeEntries`); `none` = error -/
  stat : List Char → Option FileInfo
  /-- `filepath.Glob`; `none` = `ErrBadPattern` -/
  glob : List Char → Option (List (List Char))

inductive MErr where
  | circular | suffix | scope | open | isDir | perm | parse | includeGrammar | glob | statErr | fuel
  deriving DecidableEq, Repr

/-- section name ↦ items, in first-appearance order (the Go map is unordered; outputs are
compared up to the order of names). -/
abbrev SMap := List (List Char × List AItem)

def SMap.get (m : SMap) (name : List Char) : List AItem :=
  match m.find? (fun e => e.1 = name) with
  | some e => e.2
  | none => []

/-- `m[name] = mergeItems(m[name], items)` -/
def SMap.append (m : SMap) (name : List Char) (items : List AItem) : SMap :=
  if m.any (fun e => e.1 = name) then
    m.map (fun e => if e.1 = name then (e.1, e.2 ++ items) else e)
  else m ++ [(name, items)]

/-- `convertSectionsToMap` -/
def sectionsToMap (ss : List ASection) : SMap :=
  ss.foldl (fun m s => m.append s.name s.items) []

/-- merge every section of `child` into `father` (the loop at the end of `dfsMerge`) -/
def mergeInto (father child : SMap) : SMap :=
  child.foldl (fun m e => m.append e.1 e.2) father

structure MState where
  /-- `entryToSectionMap` keys, in visiting order: files opened, checked and parsed -/
  visited : List (List Char)
  /-- every path handed to `os.Open` successfully (a superset of `visited`: a file may be opened
  and then rejected for being a directory, too open, or unparsable) -/
  opened : List (List Char)
  deriving Repr

/-- state after the call, and its result -/
abbrev MRes (α : Type) := MState × Except MErr α

/-- `readEntry`: the checks before `os.Open`, the open, the checks after it, the parse -/
def readEntry (K : Classes) (fs : FS) (entryDir : List Char) (st : MState) (entry : List Char) : MRes SMap :=
  if st.visited.contains entry then (st, .error .circular)
  else if !hasSuffixC entry ".dae".toList then (st, .error .suffix)
  else if !ensureInSubDir entry entryDir then (st, .error .scope)
  else
    match fs.stat entry with
    | none => (st, .error .open)
    | some fi =>
      let st1 : MState := { st with opened := st.opened ++ [entry] }
      if fi.isDir then (st1, .error .isDir)
      else if fi.perm % 32 ≠ 0 then (st1, .error .perm)       -- Mode()&0037 > 0
      else
        match parse K fi.content with
        | none => (st1, .error .parse)
        | some ss => ({ st1 with visited := st1.visited ++ [entry] }, .ok (sectionsToMap ss))

/-- only the include VALUE is a pattern: the characters `filepath.Match` interprets are quoted in
the entry directory (fix c17-entry-dir-glob-metacharacters) -/
def quoteGlobMeta (p : List Char) : List Char :=
  p.flatMap fun c => if c = '*' ∨ c = '?' ∨ c = '[' ∨ c = '\\' then ['\\', c] else [c]

/-- the glob patterns of the `include` section -/
def includePatterns (entryDir : List Char) : List AItem → Except MErr (List (List Char))
  | [] => .ok []
  | it :: rest =>
    match it.paramStr with
    | none => .error .includeGrammar
    | some next =>
      match includePatterns entryDir rest with
      | .error e => .error e
      | .ok ps => .ok ((if isAbsPath next then next else joinPath (quoteGlobMeta entryDir) next) :: ps)

/-- files of one glob result kept by `unsqueezeEntries` (`os.Stat`, no open) -/
def keepFiles (fs : FS) : List (List Char) → Except MErr (List (List Char))
  | [] => .ok []
  | f :: rest =>
    if !hasSuffixC f ".dae".toList then keepFiles fs rest
    else
      match fs.stat f with
      | none => .error .statErr
      | some fi =>
        match keepFiles fs rest with
        | .error e => .error e
        | .ok fsx => .ok (if fi.isDir then fsx else f :: fsx)

/-- `unsqueezeEntries` -/
def unsqueeze (fs : FS) : List (List Char) → Except MErr (List (List Char))
  | [] => .ok []
  | p :: rest =>
    match fs.glob p with
    | none => .error .glob
    | some files =>
      match keepFiles fs files with
      | .error e => .error e
      | .ok a =>
        match unsqueeze fs rest with
        | .error e => .error e
        | .ok b => .ok (a ++ b)

mutual
/-- `dfsMerge(entry, _)`: the merged section map of `entry` (own sections first, then every
included file's merged map, in listed order).  The Go code appends a child's map into the
father's map at the end of the child's call; here the father does the same append when the child
returns. -/
def dfsMerge (K : Classes) (fs : FS) (entryDir : List Char) :
    Nat → MState → List Char → MRes SMap
  | 0, st, _ => (st, .error .fuel)
  | n + 1, st, entry =>
    match readEntry K fs entryDir st entry with
    | (st1, .error e) => (st1, .error e)
    | (st1, .ok own) =>
      match includePatterns entryDir (own.get "include".toList) with
      | .error e => (st1, .error e)
      | .ok pats =>
        match unsqueeze fs pats with
        | .error e => (st1, .error e)
        | .ok children => dfsChildren K fs entryDir n st1 own children
/-- the loop over `childEntries` -/
def dfsChildren (K : Classes) (fs : FS) (entryDir : List Char) :
    Nat → MState → SMap → List (List Char) → MRes SMap
  | _, st, acc, [] => (st, .ok acc)
  | n, st, acc, c :: cs =>
    match dfsMerge K fs entryDir n st c with
    | (st', .error e) => (st', .error e)
    | (st', .ok m) => dfsChildren K fs entryDir n st' (mergeInto acc m) cs
end

/-- `Merger.Merge()` with `entryDir = Dir(entry)` -/
def merge (K : Classes) (fs : FS) (fuel : Nat) (entry : List Char) : MRes SMap :=
  dfsMerge K fs (dirOf entry) fuel ⟨[], []⟩ entry

/-! ## 4. `config.New`: the reflection-driven section / parameter parser over a probed schema -/

/-- what `ParamParser` / `SectionParser` distinguish about a struct field's Go type -/
inductive FKind where
  /-- decoded by `common.FuzzyDecode`; `k` identifies the Go type for the decode oracle -/
  | scalar (k : Nat)
  /-- `[]string`, `[]KeyableString` -/
  | strList
  /-- `interface{}` (`FunctionOrString`, `FunctionListOrString`) -/
  | iface
  /-- `[][]*config_parser.Function` (group `filter`) -/
  | fnLists
  /-- nested struct, index into `Schema.structs` -/
  | struct (s : Nat)
  /-- slice of structs with a `Name` field (`[]Group`) -/
  | structList (s : Nat)
  deriving DecidableEq, Repr

structure Field where
  key : List Char
  kind : FKind
  dflt : Option (List Char)
  required : Bool
  repeatable : Bool
  deriving Repr

structure StructDef where
  fields : List Field
  /-- has a `Rules []*RoutingRule` field tagged `mapstructure:"_"` -/
  hasRules : Bool
  deriving Repr

/-- `configSectionSpecs` joined with the field types of `config.Config` -/
structure SectionSpec where
  name : List Char
  required : Bool
  kind : FKind
  deriving Repr

structure Schema where
  structs : List StructDef
  specs : List SectionSpec
  deriving Repr

/-- `FuzzyDecode` of a value into a scalar Go type, as an oracle: canonical print of the decoded
value, `none` = not decodable.  Supplied by the harness from the real function. -/
abbrev Dec := Nat → List Char → Option (List Char)

/-! ### specification of `FuzzyDecode` for the cheap kinds (not an oracle) -/

def lowerAscii (c : Char) : Char := if 'A' ≤ c ∧ c ≤ 'Z' then Char.ofNat (c.toNat + 32) else c

/-- `case reflect.Bool`: the word table, case-insensitively -/
def decodeBool (v : List Char) : Option (List Char) :=
  let l := String.ofList (v.map lowerAscii)
  if l = "true" ∨ l = "t" ∨ l = "1" ∨ l = "y" ∨ l = "yes" ∨ l = "on" then some "true".toList
  else if l = "false" ∨ l = "f" ∨ l = "0" ∨ l = "n" ∨ l = "no" ∨ l = "off" then some "false".toList
  else none

def digitVal (c : Char) : Option Nat :=
  let l := lowerAscii c
  if '0' ≤ c ∧ c ≤ '9' then some (c.toNat - '0'.toNat)
  else if 'a' ≤ l ∧ l ≤ 'z' then some (l.toNat - 'a'.toNat + 10)
  else none

def isBasePrefixLetter (c : Char) : Bool := lowerAscii c = 'b' || lowerAscii c = 'o' || lowerAscii c = 'x'

/-- `strconv.underscoreOK` state machine; `saw` ∈ {'^', '0', '_', '!'} -/
def underscoreLoop (hex : Bool) : Char → List Char → Bool
  | saw, [] => saw != '_'
  | saw, c :: cs =>
    if ('0' ≤ c ∧ c ≤ '9') ∨ (hex ∧ 'a' ≤ lowerAscii c ∧ lowerAscii c ≤ 'f') then underscoreLoop hex '0' cs
    else if c = '_' then (if saw != '0' then false else underscoreLoop hex '_' cs)
    else if saw = '_' then false
    else underscoreLoop hex '!' cs

def underscoreOK (s : List Char) : Bool :=
  let s := match s with | '-' :: r => r | '+' :: r => r | _ => s
  match s with
  | '0' :: p :: r => if isBasePrefixLetter p then underscoreLoop (lowerAscii p = 'x') '0' r else underscoreLoop false '^' s
  | _ => underscoreLoop false '^' s

/-- the digit loop of `strconv.ParseUint` with base-0 underscores; `none` on a bad digit -/
def digitsLoop (base : Nat) : Nat → Bool → List Char → Option (Nat × Bool)
  | n, us, [] => some (n, us)
  | n, us, c :: cs =>
    if c = '_' then digitsLoop base n true cs
    else
      match digitVal c with
      | none => none
      | some d => if d ≥ base then none else digitsLoop base (n * base + d) us cs

/-- `strconv.ParseUint(s, 0, bits)` -/
def parseUint0 (s : List Char) (bits : Nat) : Option Nat :=
  if s = [] then none
  else
    let (base, body) : Nat × List Char :=
      match s with
      | '0' :: p :: r =>
        if s.length ≥ 3 ∧ lowerAscii p = 'b' then (2, r)
        else if s.length ≥ 3 ∧ lowerAscii p = 'o' then (8, r)
        else if s.length ≥ 3 ∧ lowerAscii p = 'x' then (16, r)
        else (8, p :: r)
      | '0' :: r => (8, r)
      | _ => (10, s)
    match digitsLoop base 0 false body with
    | none => none
    | some (n, us) =>
      if us ∧ !underscoreOK s then none
      else if n ≥ 2 ^ bits then none
      else some n

/-- `strconv.ParseInt(s, 0, bits)` -/
def parseInt0 (s : List Char) (bits : Nat) : Option Int :=
  if s = [] then none
  else
    let (neg, body) : Bool × List Char :=
      match s with
      | '+' :: r => (false, r)
      | '-' :: r => (true, r)
      | _ => (false, s)
    match parseUint0 body bits with
    | none => none
    | some un =>
      let cutoff := 2 ^ (bits - 1)
      if !neg ∧ un ≥ cutoff then none
      else if neg ∧ un > cutoff then none
      else some (if neg then -(un : Int) else (un : Int))

/-- `common.IsValidHttpMethod`: the exact (case-sensitive) word list -/
def validHttpMethod (v : List Char) : Bool :=
  let s := String.ofList v
  s = "GET" || s = "POST" || s = "PUT" || s = "PATCH" || s = "DELETE" || s = "COPY" || s = "HEAD" || s = "OPTIONS" ||
  s = "LINK" || s = "UNLINK" || s = "PURGE" || s = "LOCK" || s = "UNLOCK" || s = "PROPFIND" || s = "CONNECT" || s = "TRACE"

inductive DecSpec where
  | str | bool | int (bits : Nat) | uint (bits : Nat) | oracle
  deriving Repr

/-- the specified decoders; `none` (outer) = use the oracle -/
def decodeSpec : DecSpec → List Char → Option (Option (List Char))
  | .str, v => some (some v)
  | .bool, v => some (decodeBool v)
  | .int bits, v => some ((parseInt0 v bits).map fun i => (toString i).toList)
  | .uint bits, v => some ((parseUint0 v bits).map fun n => (toString n).toList)
  | .oracle, _ => none

/-- oracle ids of the two patch-stage validators -/
def kindAddrPort : Nat := 100
def kindHttpMethod : Nat := 101

inductive Leaf where
  /-- `k` = the scalar Go type (oracle id), `canon` = canonical print of the decoded value -/
  | scalar (k : Nat) (canon : List Char)
  | strs (vs : List (List Char))
  | istr (s : List Char)
  | ifns (fs : List Fn)
  | ifn (f : Fn)
  | fnLists (fss : List (List Fn)) (anns : List (List KV))
  | rules (rs : List (List Fn × Fn))
  /-- number of elements of a struct list -/
  | count (n : Nat)
  deriving Repr

/-- a field path: section / field / element components, e.g. `dns`,`routing`,`request`,`fallback`
or `group`,`[0]`,`policy` -/
abbrev Path := List (List Char)

/-- the typed configuration as a flat store: field path ↦ value; absent = Go zero value -/
abbrev Store := List (Path × Leaf)

def Store.get? (st : Store) (path : Path) : Option Leaf :=
  match st.find? (fun e => e.1 = path) with
  | some e => some e.2
  | none => none

def Store.put (st : Store) (path : Path) (v : Leaf) : Store :=
  if st.any (fun e => e.1 = path) then st.map (fun e => if e.1 = path then (path, v) else e)
  else st ++ [(path, v)]

inductive CErr where
  | requiredSection | unknownSection | patch
  | nokey | unexpectedKey | convert | ruleCtx | requiredParam | strlistType | unmatchedType
  | unsupportedSection | defaultDecode | fuel | badSchema
  deriving DecidableEq, Repr

def sub (path : Path) (key : List Char) : Path := path ++ [key]

def natStr (n : Nat) : List Char := (toString n).toList

/-- "fill in default value before parsing section" -/
def applyDefaults (dec : Dec) (path : Path) : List Field → Store → Except CErr Store
  | [], st => .ok st
  | f :: fs, st =>
    match f.dflt with
    | none => applyDefaults dec path fs st
    | some d =>
      match f.kind with
      | .iface => applyDefaults dec path fs (st.put (sub path f.key) (.istr d))
      | .scalar k =>
        match dec k d with
        | some c => applyDefaults dec path fs (st.put (sub path f.key) (.scalar k c))
        | none => .error .defaultDecode
      | .strList => applyDefaults dec path fs (st.put (sub path f.key) (.strs (splitOnC ',' d)))
      | _ => .error .defaultDecode

def findField (fields : List Field) (key : List Char) : Option Field := fields.find? (fun f => f.key = key)

def getStrs (st : Store) (p : Path) : List (List Char) :=
  match st.get? p with
  | some (.strs vs) => vs
  | _ => []

def getCount (st : Store) (p : Path) : Nat :=
  match st.get? p with
  | some (.count n) => n
  | _ => 0

/-- `StringListParser` -/
def stringListParser (p : Path) : List AItem → Store → Except CErr Store
  | [], st => .ok st
  | it :: rest, st =>
    match it.paramStr with
    | none => .error .strlistType
    | some s => stringListParser p rest (st.put p (.strs (getStrs st p ++ [s])))

/-- `ParamParser`'s "check required" -/
def checkRequired (fields : List Field) (set : List (List Char)) : Bool :=
  fields.all (fun f => !f.required || set.contains f.key)

mutual
/-- `ParamParser(to, section)` for the struct `sid` located at `path`. -/
def paramParser (S : Schema) (dec : Dec) : Nat → Nat → Path → List AItem → Store → Except CErr Store
  | 0, _, _, _, _ => .error .fuel
  | n + 1, sid, path, items, st =>
    match S.structs[sid]? with
    | none => .error .badSchema
    | some sd =>
      match applyDefaults dec path sd.fields st with
      | .error e => .error e
      | .ok st1 =>
        match paramItems S dec n sd path items st1 [] with
        | .error e => .error e
        | .ok (st2, set) => if checkRequired sd.fields set then .ok st2 else .error .requiredParam
/-- the loop over `section.Items`; `set` = keys with `field.Set` -/
def paramItems (S : Schema) (dec : Dec) : Nat → StructDef → Path → List AItem → Store →
    List (List Char) → Except CErr (Store × List (List Char))
  | _, _, _, [], st, set => .ok (st, set)
  | n, sd, path, it :: rest, st, set =>
    match it with
    | .str key val _ =>
      if key.isEmpty then .error .nokey
      else
        match findField sd.fields key with
        | none => .error .unexpectedKey
        | some f =>
          let p := sub path key
          match f.kind with
          | .iface => paramItems S dec n sd path rest (st.put p (.istr val)) (key :: set)
          | .strList =>
            let old := if set.contains key then getStrs st p else []
            paramItems S dec n sd path rest (st.put p (.strs (old ++ splitOnC ',' val))) (key :: set)
          | .scalar k =>
            match dec k val with
            | some c => paramItems S dec n sd path rest (st.put p (.scalar k c)) (key :: set)
            | none => .error .convert
          | _ => .error .convert
    | .fns key fs ann =>
      match findField sd.fields key with
      | none => .error .unexpectedKey
      | some f =>
        let p := sub path key
        match f.kind with
        | .iface => paramItems S dec n sd path rest (st.put p (.ifns fs)) (key :: set)
        | .fnLists =>
          if f.repeatable then
            match st.get? p with
            | some (.fnLists fss anns) =>
              paramItems S dec n sd path rest (st.put p (.fnLists (fss ++ [fs]) (anns ++ [ann]))) (key :: set)
            | _ => paramItems S dec n sd path rest (st.put p (.fnLists [fs] [ann])) (key :: set)
          else .error .convert
        | _ => .error .convert
    | .sec name items =>
      match findField sd.fields name with
      | none => .error .unexpectedKey
      | some f =>
        -- 958eeab: a list written in section form replaces the default on its first occurrence
        -- (`!field.Set && Kind() == Slice`), exactly like the `key: a, b` form; later ones append
        let st0 := if f.kind = .strList ∧ !set.contains name then st.put (sub path name) (.strs []) else st
        match sectionParser S dec n f.kind (sub path name) items st0 with
        | .error e => .error e
        | .ok st' => paramItems S dec n sd path rest st' (name :: set)
    | .rule fs out =>
      if sd.hasRules then
        let p := sub path "#rules".toList
        match st.get? p with
        | some (.rules rs) => paramItems S dec n sd path rest (st.put p (.rules (rs ++ [(fs, out)]))) set
        | _ => paramItems S dec n sd path rest (st.put p (.rules [(fs, out)])) set
      else .error .ruleCtx
/-- `SectionParser(to, section)` by the kind of `to` -/
def sectionParser (S : Schema) (dec : Dec) : Nat → FKind → Path → List AItem → Store → Except CErr Store
  | 0, _, _, _, _ => .error .fuel
  | n + 1, kind, path, items, st =>
    match kind with
    | .strList => stringListParser path items st
    | .struct sid => paramParser S dec n sid path items st
    | .structList sid => structListItems S dec n sid path items st
    | _ => .error .unsupportedSection
/-- "to is a section list (sections in section)" -/
def structListItems (S : Schema) (dec : Dec) : Nat → Nat → Path → List AItem → Store → Except CErr Store
  | _, _, _, [], st => .ok st
  | n, sid, path, it :: rest, st =>
    match it with
    | .sec name items =>
      let i := getCount st path
      let ep := path ++ ['[' :: (natStr i ++ [']'])]
      match paramParser S dec n sid ep items (st.put (sub ep "#name".toList) (.scalar 0 name)) with
      | .error e => .error e
      | .ok st' => structListItems S dec n sid path rest (st'.put path (.count (i + 1)))
    | _ => .error .unmatchedType
end

/-- last section of each name wins (`nameToSection[section.Name] = …`) -/
def lookupSection (ss : List ASection) (name : List Char) : Option ASection :=
  ss.reverse.find? (fun s => s.name = name)

def sectionHasParam (items : List AItem) (key : List Char) : Bool :=
  items.any fun
    | .str k _ _ => k = key
    | .fns k _ _ => k = key
    | _ => false

def hasPrefixC (s pre : List Char) : Bool := pre.isPrefixOf s

/-- `patchMustOutbound` on one outbound function -/
def mustPatchFn (f : Fn) : Fn :=
  if hasPrefixC f.name "must_".toList ∧ f.name ≠ "must_rules".toList then
    ⟨f.name.drop 5, f.neg, f.params ++ [⟨[], "must".toList⟩]⟩
  else f

def pBootstrap : Path := ["global".toList, "bootstrap_resolver".toList]
def pHttpMethod : Path := ["global".toList, "tcp_check_http_method".toList]
def pReqFallback : Path := ["dns".toList, "routing".toList, "request".toList, "fallback".toList]
def pRespFallback : Path := ["dns".toList, "routing".toList, "response".toList, "fallback".toList]
def pRules : Path := ["routing".toList, "#rules".toList]
def pFallback : Path := ["routing".toList, "fallback".toList]

def scalarAt (st : Store) (p : Path) : List Char :=
  match st.get? p with
  | some (.scalar _ v) => v
  | _ => []

/-- `patchTcpCheckHttpMethod` -/
def patchHttp (dec : Dec) (st : Store) : Store :=
  match dec kindHttpMethod (scalarAt st pHttpMethod) with
  | some _ => st
  | none => st.put pHttpMethod (.scalar 0 "CONNECT".toList)

def putIfAbsent (st : Store) (p : Path) (v : Leaf) : Store :=
  match st.get? p with
  | none => st.put p v
  | some _ => st

/-- `patchEmptyDns` -/
def patchEmptyDns (st : Store) : Store :=
  putIfAbsent (putIfAbsent st pReqFallback (.istr "asis".toList)) pRespFallback (.istr "accept".toList)

/-- `patchMustOutbound`, the rules -/
def patchMustRules (st : Store) : Store :=
  match st.get? pRules with
  | some (.rules rs) => st.put pRules (.rules (rs.map fun r => (r.1, mustPatchFn r.2)))
  | _ => st

/-- `patchMustOutbound`, the fallback (`ParseFunctionOrString` may fail) -/
def patchMustFallback (st : Store) : Except CErr Store :=
  let fb : Except CErr Fn := match st.get? pFallback with
    | some (.istr s) => .ok ⟨s, false, []⟩
    | some (.ifns [f]) => .ok f
    | some (.ifn f) => .ok f
    | _ => .error .patch
  match fb with
  | .error e => .error e
  | .ok f =>
    if hasPrefixC f.name "must_".toList then
      .ok (st.put pFallback (.ifn ⟨f.name.drop 5, f.neg, f.params ++ [⟨[], "must".toList⟩]⟩))
    else .ok st

/-- the four patches of `config/patch.go`, in order -/
def applyPatches (dec : Dec) (st : Store) : Except CErr Store :=
  -- patchBootstrapResolver
  match dec kindAddrPort (scalarAt st pBootstrap) with
  | none => .error .patch
  | some _ => patchMustFallback (patchMustRules (patchEmptyDns (patchHttp dec st)))

/-- decode the present sections in the order of `configSectionSpecs` -/
def decodeSpecs (S : Schema) (dec : Dec) (fuel : Nat) (ss : List ASection) : List SectionSpec → Store → Except (CErr × List Char) Store
  | [], st => .ok st
  | sp :: rest, st =>
    match lookupSection ss sp.name with
    | none =>
      -- 2aec039: an omitted optional section is decoded like an empty one (defaults apply)
      match sectionParser S dec fuel sp.kind [sp.name] [] st with
      | .error e => .error (e, sp.name)
      | .ok st' => decodeSpecs S dec fuel ss rest st'
    | some sec =>
      match sectionParser S dec fuel sp.kind [sp.name] sec.items st with
      | .error e => .error (e, sp.name)
      | .ok st' =>
        let st' := if sp.name = "global".toList then
            st'.put ["global".toList, "so_mark_from_dae_set".toList]
              (.scalar 1 (if sectionHasParam sec.items "so_mark_from_dae".toList then "true".toList else "false".toList))
          else st'
        decodeSpecs S dec fuel ss rest st'

/-- `config.New`.  The error carries the name of the section being decoded, if any. -/
def configNew (S : Schema) (dec : Dec) (fuel : Nat) (ss : List ASection) : Except (CErr × List Char) Store :=
  if !(S.specs.all fun sp => !sp.required || (lookupSection ss sp.name).isSome) then .error (.requiredSection, [])
  else
    match decodeSpecs S dec fuel ss S.specs [] with
    | .error e => .error e
    | .ok st =>
      if ss.any (fun s => s.name ≠ "include".toList ∧ !(S.specs.any fun sp => sp.name = s.name)) then
        .error (.unknownSection, [])
      else
        match applyPatches dec st with
        | .error e => .error (e, [])
        | .ok st' => .ok st'

/-! ## 5. Rule-program size: match sets emitted by lowering, and the fixed-size domain-set table -/

/-- how many match sets a function's key group emits (`add*` callbacks of the matcher builders) -/
inductive Emit where
  /-- one set, and it is a domain set (`AddSet(len(rules), …)` later) -/
  | domain
  /-- one set per key group -/
  | perGroup
  /-- one set per value -/
  | perValue
  deriving DecidableEq, Repr

/-- `groupParamValuesByKey`: keys in first-appearance order with the number of values -/
def groupKeys : List KV → List (List Char × Nat)
  | [] => []
  | p :: ps =>
    let rest := groupKeys ps
    -- p.key comes first; fold its later occurrences into it
    (p.key, 1 + ((rest.find? (fun e => e.1 = p.key)).map (·.2)).getD 0) :: rest.filter (fun e => e.1 ≠ p.key)

inductive SizeErr where
  | unknownFunction | noParams | oversize
  deriving DecidableEq, Repr

/-- lowering of one function: returns the new number of match sets and the indices of the
domain sets it emitted -/
def lowerFn (emit : List Char → Option Emit) (f : Fn) (idx : Nat) : Except SizeErr (Nat × List Nat) :=
  match emit f.name with
  | none => .error .unknownFunction
  | some e =>
    let groups := groupKeys f.params
    if groups.isEmpty then .error .noParams
    else
      match e with
      | .domain => .ok (idx + groups.length, (List.range groups.length).map (idx + ·))
      | .perGroup => .ok (idx + groups.length, [])
      | .perValue => .ok (idx + (groups.map (·.2)).sum, [])

def lowerFns (emit : List Char → Option Emit) : List Fn → Nat → Except SizeErr (Nat × List Nat)
  | [], idx => .ok (idx, [])
  | f :: fs, idx =>
    match lowerFn emit f idx with
    | .error e => .error e
    | .ok (idx', ds) =>
      match lowerFns emit fs idx' with
      | .error e => .error e
      | .ok (idx'', ds') => .ok (idx'', ds ++ ds')

def lowerRules (emit : List Char → Option Emit) : List (List Fn × Fn) → Nat → Except SizeErr (Nat × List Nat)
  | [], idx => .ok (idx, [])
  | r :: rs, idx =>
    match lowerFns emit r.1 idx with
    | .error e => .error e
    | .ok (idx', ds) =>
      match lowerRules emit rs idx' with
      | .error e => .error e
      | .ok (idx'', ds') => .ok (idx'', ds ++ ds')

/-- `AhocorasickSlimtrie.AddSet(bitIndex, …)` on the fixed-size table (`len = maxLen`): the
bound check added by d57e46a, then the write. -/
def addSet (table : List Nat) (bitIndex : Nat) : Except SizeErr (List Nat) :=
  if bitIndex < table.length then .ok (table.set bitIndex (table.getD bitIndex 0 + 1))
  else .error .oversize

def addSets : List Nat → List Nat → Except SizeErr (List Nat)
  | table, [] => .ok table
  | table, i :: is =>
    match addSet table i with
    | .error e => .error e
    | .ok t => addSets t is

/-- lowering + fallback set, the total-length check of the traffic builder (51cbe59:
`len(b.rules) > MaxMatchSetLen` is an error before anything is built; `totalLimit = false` for the
DNS matchers, which have no such table), then `BuildUserspace`/`Build`'s domain-matcher
construction: number of match sets of the program, or the build error. -/
def compileSize (emit : List Char → Option Emit) (totalLimit : Bool) (maxLen : Nat) (rules : List (List Fn × Fn)) :
    Except SizeErr Nat :=
  match lowerRules emit rules 0 with
  | .error e => .error e
  | .ok (n, ds) =>
    if totalLimit ∧ n + 1 > maxLen then .error .oversize
    else
      match addSets (List.replicate maxLen 0) ds with
      | .error e => .error e
      | .ok _ => .ok (n + 1)

/-- `RoutingMatcherBuilder.registerProgramParsers` + the `add*` callbacks -/
def routingEmit (name : List Char) : Option Emit :=
  if name = "domain".toList then some .domain
  else if name = "ip".toList ∨ name = "sip".toList ∨ name = "l4proto".toList ∨ name = "mac".toList ∨ name = "ipversion".toList then some .perGroup
  else if name = "port".toList ∨ name = "sport".toList ∨ name = "pname".toList ∨ name = "dscp".toList then some .perValue
  else none

/-- `dns.RequestMatcherBuilder` -/
def dnsRequestEmit (name : List Char) : Option Emit :=
  if name = "qname".toList then some .domain
  else if name = "qtype".toList then some .perValue
  else none

/-- `dns.ResponseMatcherBuilder` -/
def dnsResponseEmit (name : List Char) : Option Emit :=
  if name = "qname".toList then some .domain
  else if name = "ip".toList then some .perGroup
  else if name = "upstream".toList ∨ name = "qtype".toList then some .perValue
  else none

end DaeVerif.C17
