/-!
# C17 — executable model of dae's configuration front end

Core-only.  Four layers, mirroring the code in /repo:

1. `lex`       — the ANTLR lexer of `dae_config.g4` (longest match, rule order, the two non-greedy
                 string rules with their "last escaped quote" fallback, `/*…*/` versus NON_ID).
                 Character classes are a *parameter* (`Classes`): the driver receives the table the
                 harness probed from the real lexer at run time.
2. `parseToks` — an LL(2) recursive-descent parser for the grammar rules reconstructed from the
                 generated parser (`dae_config_parser.go`), producing a concrete syntax tree
                 (`Items`) that keeps quoting style and `,`-lists, and `walk`, which is
                 `pkg/config_parser/walker.go`: the `Section/Item/Param/Function/RoutingRule` AST
                 plus the two walker-level errors (empty parameter list, empty annotation).
3. `merge`     — `config.Merger` over an abstract file system (`config/config_merger.go`,
                 `common.EnsureFileInSubDir`, lexical `filepath.Clean/Join/Dir/Rel`).
4. `configNew` — `config.New` + the reflection-driven `SectionParser/ParamParser` over a schema
                 probed from the real structs, and the match-set size accounting of rule compilation.
-/
namespace DaeVerif.C17

/-! ## 1. Lexer -/

/-- The lexer's character classes (fragments `SAFE_ID_HEAD_CHAR`, `SAFE_NONID_HEAD_CHAR`,
`SAFE_INTERMEDIATE_CHAR`, token `WHITESPACE`).  Probed from the real lexer by the harness. -/
structure Classes where
  idHead : Char → Bool
  nonIdHead : Char → Bool
  inter : Char → Bool
  ws : Char → Bool

/-- `SAFE_CHAR` -/
def Classes.safe (K : Classes) (c : Char) : Bool := K.idHead c || K.nonIdHead c || K.inter c

inductive Tok where
  | comma | lbrace | rbrace | colon | lbrack | rbrack | bang | lparen | rparen | arrow | andand
  | id (s : List Char)
  | nonId (s : List Char)
  /-- `q` is the quote character, `s` the raw text between the quotes (no unescaping, as
  `getValueFromLiteral` does `text[1:len-1]`). -/
  | quote (q : Char) (s : List Char)
  deriving DecidableEq, Repr, Inhabited

/-- `'"' ( '\\"' | . )*? '"'` under ANTLR's lexer semantics.  `cs` is the text after the opening
quote; the result is the number of characters of `cs` the token takes, closing quote included.
A quote not directly preceded by a backslash ends the token; a quote directly preceded by a
backslash is remembered as a fallback end (`fb`) and scanning goes on; at end of input the *last*
fallback wins; with no fallback there is no token (lexer error). -/
def quoteScan (q : Char) : (prevBackslash : Bool) → (fb : Option Nat) → (pos : Nat) → List Char → Option Nat
  | _, fb, _, [] => fb
  | pb, fb, i, c :: cs =>
    if c = q then
      if pb then quoteScan q false (some (i + 1)) (i + 1) cs
      else some (i + 1)
    else quoteScan q (c = '\\') fb (i + 1) cs

def isNL (c : Char) : Bool := c = '\n' || c = '\r'

/-- `'#' .*? ([\r\n]+ | EOF)`: characters taken after the `#`. -/
def lineCommentLen : List Char → Nat
  | [] => 0
  | c :: cs => if isNL c then 1 + (cs.takeWhile isNL).length else 1 + lineCommentLen cs

/-- index just past the first `*/` -/
def blockEnd : List Char → Option Nat
  | [] => none
  | a :: rest =>
    match rest with
    | [] => none
    | b :: _ => if a = '*' ∧ b = '/' then some 2 else (blockEnd rest).map (· + 1)

inductive Scan where
  /-- a token; `n` = characters consumed after the first one -/
  | tok (t : Tok) (n : Nat)
  | skip (n : Nat)
  | err
  deriving Repr

/-- does `/*…*/` (COMMENT_BLOCK, earlier rule) beat NON_ID at a `/` followed by `cs = '*' :: …`?
Longest match; on equal length the earlier rule.  Returns the characters to skip after the `/`. -/
def blockCommentWins (K : Classes) (cs : List Char) : Option Nat :=
  match cs with
  | '*' :: cs' =>
    match blockEnd cs' with
    | some e =>
      -- comment length = 2 + e ; NON_ID length = 1 + run (0 if `/` is not a NON_ID head)
      let nonId := if K.nonIdHead '/' then 1 + (cs.takeWhile K.safe).length else 0
      if 2 + e ≥ nonId then some (1 + e) else none
    | none => none
  | _ => none

/-- One lexer step at a non-empty input `c :: cs`. -/
def scan (K : Classes) (c : Char) (cs : List Char) : Scan :=
  if K.ws c then .skip 0
  else if c = '#' then .skip (lineCommentLen cs)
  else if c = ',' then .tok .comma 0
  else if c = '{' then .tok .lbrace 0
  else if c = '}' then .tok .rbrace 0
  else if c = ':' then .tok .colon 0
  else if c = '[' then .tok .lbrack 0
  else if c = ']' then .tok .rbrack 0
  else if c = '!' then .tok .bang 0
  else if c = '(' then .tok .lparen 0
  else if c = ')' then .tok .rparen 0
  else if c = '&' then (match cs with | '&' :: _ => .tok .andand 1 | _ => .err)
  else if c = '"' ∨ c = '\'' then
    match quoteScan c false none 0 cs with
    | some n => .tok (.quote c (cs.take (n - 1))) n
    | none => .err
  else
    match (if c = '-' then (match cs with | '>' :: _ => true | _ => false) else false) with
    | true => .tok .arrow 1
    | false =>
      match (if c = '/' then blockCommentWins K cs else none) with
      | some n => .skip n
      | none =>
        if K.idHead c then .tok (.id (c :: cs.takeWhile K.safe)) (cs.takeWhile K.safe).length
        else if K.nonIdHead c then .tok (.nonId (c :: cs.takeWhile K.safe)) (cs.takeWhile K.safe).length
        else .err

/-- The whole lexer: `none` = some token recognition error (the error listener fires, `Parse`
rejects). -/
def lex (K : Classes) : List Char → Option (List Tok)
  | [] => some []
  | c :: cs =>
    match scan K c cs with
    | .err => none
    | .skip n => lex K (cs.drop n)
    | .tok t n => (lex K (cs.drop n)).map (t :: ·)
termination_by cs => cs.length
decreasing_by all_goals (simp only [List.length_drop, List.length_cons]; omega)

/-! ## 2. Grammar: concrete syntax tree, token-level parser, walker -/

/-- `literal : quote_literal | bare_literal` -/
inductive Lit where
  | id (s : List Char) | nonId (s : List Char) | quote (q : Char) (s : List Char)
  deriving DecidableEq, Repr, Inhabited

def Lit.tok : Lit → Tok
  | .id s => .id s | .nonId s => .nonId s | .quote q s => .quote q s

def Lit.val : Lit → List Char
  | .id s => s | .nonId s => s | .quote _ s => s

def litOfTok : Tok → Option Lit
  | .id s => some (.id s) | .nonId s => some (.nonId s) | .quote q s => some (.quote q s)
  | _ => none

/-- `parameter : ID ':' literal | literal` -/
structure CParam where
  key : Option (List Char)
  val : Lit
  deriving DecidableEq, Repr

/-- `functionPrototype : '!'? ID '(' optParameterList ')'` -/
structure CFn where
  neg : Bool
  name : List Char
  params : List CParam
  deriving DecidableEq, Repr

/-- `outboundExpr : bare_literal | functionPrototype` -/
inductive COut where
  | id (s : List Char) | nonId (s : List Char) | fn (f : CFn)
  deriving DecidableEq, Repr

/-- declaration value: `literalExpression` or `functionPrototypeExpression` (both non-empty) -/
inductive CVal where
  | lits (first : Lit) (rest : List Lit)
  | fns (first : CFn) (rest : List CFn)
  deriving DecidableEq, Repr

/-- `declaration : ID ':' (functionPrototypeExpression | literalExpression) optAnnotation` -/
structure CDecl where
  key : List Char
  val : CVal
  /-- `none` = no `[...]`; `some []` = `[]` -/
  ann : Option (List CParam)
  deriving DecidableEq, Repr

/-- `routingRule : functionPrototypeExpression '->' outboundExpr` -/
structure CRule where
  first : CFn
  rest : List CFn
  out : COut
  deriving DecidableEq, Repr

/-- `routingRuleOrDeclarationOrLiteralOrExpressionList`, constructor per alternative. -/
inductive Items where
  | nil
  | rule (r : CRule) (rest : Items)
  | decl (d : CDecl) (rest : Items)
  | lit (l : Lit) (rest : Items)
  | sec (name : List Char) (body : Items) (rest : Items)
  deriving DecidableEq, Repr

/-- `start : (ID '{' list '}')* EOF` -/
abbrev Prog := List (List Char × Items)

/-! ### what a tree spells (token sequence) -/

def CParam.toks (p : CParam) : List Tok :=
  match p.key with
  | none => [p.val.tok]
  | some k => [.id k, .colon, p.val.tok]

/-- comma-separated, possibly empty -/
def paramsToks : List CParam → List Tok
  | [] => []
  | [p] => p.toks
  | p :: q :: ps => p.toks ++ .comma :: paramsToks (q :: ps)

def CFn.toks (f : CFn) : List Tok :=
  (if f.neg then [.bang] else []) ++ (.id f.name :: .lparen :: (paramsToks f.params ++ [.rparen]))

def fnsToks (first : CFn) (rest : List CFn) : List Tok :=
  first.toks ++ rest.flatMap (fun f => .andand :: f.toks)

def litsToks (first : Lit) (rest : List Lit) : List Tok :=
  first.tok :: rest.flatMap (fun l => [.comma, l.tok])

def COut.toks : COut → List Tok
  | .id s => [.id s] | .nonId s => [.nonId s] | .fn f => f.toks

def CVal.toks : CVal → List Tok
  | .lits a r => litsToks a r
  | .fns a r => fnsToks a r

def annToks : Option (List CParam) → List Tok
  | none => []
  | some ps => .lbrack :: (paramsToks ps ++ [.rbrack])

def CDecl.toks (d : CDecl) : List Tok := .id d.key :: .colon :: (d.val.toks ++ annToks d.ann)

def CRule.toks (r : CRule) : List Tok := fnsToks r.first r.rest ++ .arrow :: r.out.toks

def Items.toks : Items → List Tok
  | .nil => []
  | .rule r rest => r.toks ++ rest.toks
  | .decl d rest => d.toks ++ rest.toks
  | .lit l rest => l.tok :: rest.toks
  | .sec n body rest => .id n :: .lbrace :: (body.toks ++ .rbrace :: rest.toks)

def progToks : Prog → List Tok
  | [] => []
  | (n, body) :: ps => .id n :: .lbrace :: (body.toks ++ .rbrace :: progToks ps)

/-! ### token-level parser (fuel = an upper bound on the tokens; `parseToks` supplies it) -/

inductive PErr where
  | syntax | fuel
  deriving DecidableEq, Repr

abbrev PRes (α : Type) := Except PErr (α × List Tok)

/-- `parameter` -/
def parseParam : List Tok → PRes CParam
  | .id k :: .colon :: t :: r =>
    match litOfTok t with
    | some l => .ok (⟨some k, l⟩, r)
    | none => .error .syntax
  | [.id _, .colon] => .error .syntax
  | t :: r =>
    match litOfTok t with
    | some l => .ok (⟨none, l⟩, r)
    | none => .error .syntax
  | [] => .error .syntax

/-- `nonEmptyParameterList : parameter (',' parameter)*` -/
def parseParams : Nat → List Tok → PRes (List CParam)
  | 0, _ => .error .fuel
  | n + 1, ts =>
    match parseParam ts with
    | .error e => .error e
    | .ok (p, r) =>
      match r with
      | .comma :: r' =>
        match parseParams n r' with
        | .error e => .error e
        | .ok (ps, r'') => .ok (p :: ps, r'')
      | _ => .ok ([p], r)

def startsLit : List Tok → Bool
  | t :: _ => (litOfTok t).isSome
  | [] => false

/-- `optParameterList` followed by the closing token `close` -/
def parseOptParams (n : Nat) (close : Tok) (ts : List Tok) : PRes (List CParam) :=
  if startsLit ts then
    match parseParams n ts with
    | .error e => .error e
    | .ok (ps, r) =>
      match r with
      | t :: r' => if t = close then .ok (ps, r') else .error .syntax
      | [] => .error .syntax
  else
    match ts with
    | t :: r' => if t = close then .ok ([], r') else .error .syntax
    | [] => .error .syntax

/-- `functionPrototype` -/
def parseFn (n : Nat) : List Tok → PRes CFn
  | .bang :: .id f :: .lparen :: r =>
    match parseOptParams n .rparen r with
    | .error e => .error e
    | .ok (ps, r') => .ok (⟨true, f, ps⟩, r')
  | .id f :: .lparen :: r =>
    match parseOptParams n .rparen r with
    | .error e => .error e
    | .ok (ps, r') => .ok (⟨false, f, ps⟩, r')
  | _ => .error .syntax

/-- `('&&' functionPrototype)*` -/
def parseFnsTail : Nat → List Tok → PRes (List CFn)
  | 0, _ => .error .fuel
  | n + 1, ts =>
    match ts with
    | .andand :: r =>
      match parseFn n r with
      | .error e => .error e
      | .ok (f, r') =>
        match parseFnsTail n r' with
        | .error e => .error e
        | .ok (fs, r'') => .ok (f :: fs, r'')
    | _ => .ok ([], ts)

/-- `(',' literal)*` -/
def parseLitsTail : Nat → List Tok → PRes (List Lit)
  | 0, _ => .error .fuel
  | n + 1, ts =>
    match ts with
    | .comma :: t :: r =>
      match litOfTok t with
      | none => .error .syntax
      | some l =>
        match parseLitsTail n r with
        | .error e => .error e
        | .ok (ls, r') => .ok (l :: ls, r')
    | [.comma] => .error .syntax
    | _ => .ok ([], ts)

/-- `optAnnotation` -/
def parseAnn (n : Nat) : List Tok → PRes (Option (List CParam))
  | .lbrack :: r =>
    match parseOptParams n .rbrack r with
    | .error e => .error e
    | .ok (ps, r') => .ok (some ps, r')
  | ts => .ok (none, ts)

/-- does a function prototype start here (`'!'` or `ID '('`)? -/
def startsFn : List Tok → Bool
  | .bang :: _ => true
  | .id _ :: .lparen :: _ => true
  | _ => false

/-- the part of a declaration after `ID ':'` -/
def parseDeclBody (n : Nat) (key : List Char) (ts : List Tok) : PRes CDecl :=
  if startsFn ts then
    match parseFn n ts with
    | .error e => .error e
    | .ok (f, r) =>
      match parseFnsTail n r with
      | .error e => .error e
      | .ok (fs, r') =>
        match parseAnn n r' with
        | .error e => .error e
        | .ok (a, r'') => .ok (⟨key, .fns f fs, a⟩, r'')
  else
    match ts with
    | t :: r =>
      match litOfTok t with
      | none => .error .syntax
      | some l =>
        match parseLitsTail n r with
        | .error e => .error e
        | .ok (ls, r') =>
          match parseAnn n r' with
          | .error e => .error e
          | .ok (a, r'') => .ok (⟨key, .lits l ls, a⟩, r'')
    | [] => .error .syntax

/-- `outboundExpr` -/
def parseOut (n : Nat) (ts : List Tok) : PRes COut :=
  if startsFn ts then
    match parseFn n ts with
    | .error e => .error e
    | .ok (f, r) => .ok (.fn f, r)
  else
    match ts with
    | .id s :: r => .ok (.id s, r)
    | .nonId s :: r => .ok (.nonId s, r)
    | _ => .error .syntax

/-- `routingRule` -/
def parseRule (n : Nat) (ts : List Tok) : PRes CRule :=
  match parseFn n ts with
  | .error e => .error e
  | .ok (f, r) =>
    match parseFnsTail n r with
    | .error e => .error e
    | .ok (fs, r') =>
      match r' with
      | .arrow :: r'' =>
        match parseOut n r'' with
        | .error e => .error e
        | .ok (o, r3) => .ok (⟨f, fs, o⟩, r3)
      | _ => .error .syntax

/-- which alternative of the list rule applies (two tokens of lookahead) -/
inductive ItemKind where
  | rule | decl (key : List Char) | sec (name : List Char) | lit (l : Lit) | none
  deriving DecidableEq, Repr

def itemKind : List Tok → ItemKind
  | .bang :: _ => .rule
  | .id _ :: .lparen :: _ => .rule
  | .id k :: .colon :: _ => .decl k
  | .id n :: .lbrace :: _ => .sec n
  | .id s :: _ => .lit (.id s)
  | .nonId s :: _ => .lit (.nonId s)
  | .quote q s :: _ => .lit (.quote q s)
  | _ => .none

/-- `routingRuleOrDeclarationOrLiteralOrExpressionList` -/
def parseItems : Nat → List Tok → PRes Items
  | 0, _ => .error .fuel
  | n + 1, ts =>
    match itemKind ts with
    | .none => .ok (.nil, ts)
    | .rule =>
      match parseRule n ts with
      | .error e => .error e
      | .ok (r, ts') =>
        match parseItems n ts' with
        | .error e => .error e
        | .ok (rest, ts'') => .ok (.rule r rest, ts'')
    | .decl k =>
      match parseDeclBody n k (ts.drop 2) with
      | .error e => .error e
      | .ok (d, ts') =>
        match parseItems n ts' with
        | .error e => .error e
        | .ok (rest, ts'') => .ok (.decl d rest, ts'')
    | .lit l =>
      match parseItems n (ts.drop 1) with
      | .error e => .error e
      | .ok (rest, ts'') => .ok (.lit l rest, ts'')
    | .sec name =>
      match parseItems n (ts.drop 2) with
      | .error e => .error e
      | .ok (body, ts') =>
        match ts' with
        | .rbrace :: ts'' =>
          match parseItems n ts'' with
          | .error e => .error e
          | .ok (rest, ts3) => .ok (.sec name body rest, ts3)
        | _ => .error .syntax

/-- `start` -/
def parseProg : Nat → List Tok → Except PErr Prog
  | 0, _ => .error .fuel
  | n + 1, ts =>
    match ts with
    | [] => .ok []
    | .id name :: .lbrace :: r =>
      match parseItems n r with
      | .error e => .error e
      | .ok (body, r') =>
        match r' with
        | .rbrace :: r'' =>
          match parseProg n r'' with
          | .error e => .error e
          | .ok ps => .ok ((name, body) :: ps)
        | _ => .error .syntax
    | _ => .error .syntax

def parseToks (ts : List Tok) : Except PErr Prog := parseProg (ts.length + 1) ts

/-! ### the Walker's AST -/

/-- function / annotation parameter: `Param{Key, Val}` -/
structure KV where
  key : List Char
  val : List Char
  deriving DecidableEq, Repr

/-- `config_parser.Function` -/
structure Fn where
  name : List Char
  neg : Bool
  params : List KV
  deriving DecidableEq, Repr

/-- `config_parser.Item` (tagged union of RoutingRule / Param / Section) -/
inductive AItem where
  | rule (fns : List Fn) (out : Fn)
  /-- `Param{Key, Val}` with `AndFunctions == nil` (also the literal item, key = "") -/
  | str (key : List Char) (val : List Char) (ann : List KV)
  /-- `Param{Key, AndFunctions}` -/
  | fns (key : List Char) (fs : List Fn) (ann : List KV)
  | sec (name : List Char) (items : List AItem)
  deriving Repr

structure ASection where
  name : List Char
  items : List AItem
  deriving Repr

def CParam.kv (p : CParam) : KV := ⟨p.key.getD [], p.val.val⟩

/-- `parseFunctionPrototype`: an empty parameter list is reported as an error. -/
def walkFn (f : CFn) : Option Fn :=
  if f.params.isEmpty then none else some ⟨f.name, f.neg, f.params.map CParam.kv⟩

def walkFns : List CFn → Option (List Fn)
  | [] => some []
  | f :: fs =>
    match walkFn f, walkFns fs with
    | some a, some as => some (a :: as)
    | _, _ => none

def walkOut : COut → Option Fn
  | .id s => some ⟨s, false, []⟩
  | .nonId s => some ⟨s, false, []⟩
  | .fn f => walkFn f

/-- annotation: absent → `nil`; `[]` → error "empty parameter list" -/
def walkAnn : Option (List CParam) → Option (List KV)
  | none => some []
  | some [] => none
  | some ps => some (ps.map CParam.kv)

def joinComma : List (List Char) → List Char
  | [] => []
  | [a] => a
  | a :: b :: r => a ++ ',' :: joinComma (b :: r)

def walkDecl (d : CDecl) : Option AItem :=
  match walkAnn d.ann with
  | none => none
  | some ann =>
    match d.val with
    | .lits a r => some (.str d.key (joinComma ((a :: r).map Lit.val)) ann)
    | .fns a r =>
      match walkFns (a :: r) with
      | none => none
      | some fs => some (.fns d.key fs ann)

def walkRule (r : CRule) : Option AItem :=
  match walkFns (r.first :: r.rest), walkOut r.out with
  | some fs, some o => some (.rule fs o)
  | _, _ => none

/-- `routingRuleOrDeclarationOrLiteralOrExpressionListParser.Parse` + `parseExpression`;
`none` = the walker reported an error (the whole `Parse` fails). -/
def walkItems : Items → Option (List AItem)
  | .nil => some []
  | .rule r rest =>
    match walkRule r, walkItems rest with
    | some a, some as => some (a :: as)
    | _, _ => none
  | .decl d rest =>
    match walkDecl d, walkItems rest with
    | some a, some as => some (a :: as)
    | _, _ => none
  | .lit l rest =>
    match walkItems rest with
    | some as => some (.str [] l.val [] :: as)
    | none => none
  | .sec n body rest =>
    match walkItems body, walkItems rest with
    | some b, some as => some (.sec n b :: as)
    | _, _ => none

def walkProg : Prog → Option (List ASection)
  | [] => some []
  | (n, body) :: ps =>
    match walkItems body, walkProg ps with
    | some b, some ss => some (⟨n, b⟩ :: ss)
    | _, _ => none

/-- `config_parser.Parse`: `none` = rejected with an error. -/
def parse (K : Classes) (text : List Char) : Option (List ASection) :=
  match lex K text with
  | none => none
  | some ts =>
    match parseToks ts with
    | .error _ => none
    | .ok p => walkProg p

end DaeVerif.C17
