import DaeVerif.C17.Pipeline
import DaeVerif.C17.ConfigProofs
import DaeVerif.C17.TermProofs
/-! # C17 — the rule optimizers never enlarge a program -/
namespace DaeVerif.C17

/-! ## `groupParamValuesByKey` -/

def gkeys (ps : List KV) : List (List Char) := (groupKeys ps).map (·.1)

theorem gkeys_cons (p : KV) (ps : List KV) :
    gkeys (p :: ps) = p.key :: ((groupKeys ps).filter (fun e => e.1 ≠ p.key)).map (·.1) := by
  simp [gkeys, groupKeys]

theorem gkeys_mem (ps : List KV) (k : List Char) : k ∈ gkeys ps ↔ ∃ p ∈ ps, p.key = k := by
  induction ps with
  | nil => simp [gkeys, groupKeys]
  | cons p ps ih =>
    rw [gkeys_cons]
    simp only [List.mem_cons, List.mem_map, List.mem_filter, decide_eq_true_eq]
    constructor
    · rintro (rfl | ⟨e, ⟨he, _⟩, rfl⟩)
      · exact ⟨p, Or.inl rfl, rfl⟩
      · have : e.1 ∈ gkeys ps := List.mem_map.mpr ⟨e, he, rfl⟩
        obtain ⟨q, hq, hqk⟩ := ih.mp this
        exact ⟨q, Or.inr hq, hqk⟩
    · rintro ⟨q, (rfl | hq), rfl⟩
      · exact Or.inl rfl
      · by_cases hk : q.key = p.key
        · exact Or.inl hk
        · right
          have : q.key ∈ gkeys ps := ih.mpr ⟨q, hq, rfl⟩
          obtain ⟨e, he, hek⟩ := List.mem_map.mp this
          exact ⟨e, ⟨he, by rw [hek]; exact hk⟩, hek⟩

theorem gkeys_nodup (ps : List KV) : (gkeys ps).Nodup := by
  induction ps with
  | nil => simp [gkeys, groupKeys]
  | cons p ps ih =>
    rw [gkeys_cons, List.nodup_cons]
    constructor
    · simp only [List.mem_map, List.mem_filter, decide_eq_true_eq, not_exists, not_and]
      intro e ⟨_, hne⟩ heq
      exact hne heq
    · exact ih.sublist ((List.filter_sublist).map _)

theorem groupKeys_eq_nil (ps : List KV) : groupKeys ps = [] ↔ ps = [] := by
  cases ps with
  | nil => simp [groupKeys]
  | cons p ps => simp [groupKeys]

/-- in a list with distinct keys, the counts split into the one found under `k` and the others -/
theorem sum_split_key : ∀ (l : List (List Char × Nat)) (k : List Char), (l.map (·.1)).Nodup →
    (l.map (·.2)).sum = ((l.find? (fun e => e.1 = k)).map (·.2)).getD 0 +
      ((l.filter (fun e => e.1 ≠ k)).map (·.2)).sum := by
  intro l k
  induction l with
  | nil => intro _; simp
  | cons e r ih =>
    intro hnd
    simp only [List.map_cons, List.nodup_cons] at hnd
    by_cases hek : e.1 = k
    · have hnone : ∀ x ∈ r, x.1 ≠ k := by
        intro x hx hxk
        exact hnd.1 (List.mem_map.mpr ⟨x, hx, by rw [hxk, hek]⟩)
      have hfilter : r.filter (fun x => !decide (x.1 = k)) = r := by
        apply List.filter_eq_self.mpr
        intro x hx
        simpa using hnone x hx
      simp [List.find?_cons, hek, List.filter_cons, hfilter]
    · have := ih hnd.2
      simp only [List.map_cons, List.sum_cons, List.find?_cons, hek, decide_false, List.filter_cons, ne_eq,
        not_false_eq_true, decide_true, if_true]
      simp only [ne_eq] at this
      omega

theorem groupKeys_sum (ps : List KV) : ((groupKeys ps).map (·.2)).sum = ps.length := by
  induction ps with
  | nil => simp [groupKeys]
  | cons p ps ih =>
    have hs := sum_split_key (groupKeys ps) p.key (gkeys_nodup ps)
    simp only [groupKeys, List.map_cons, List.sum_cons, List.length_cons]
    simp only [ne_eq] at hs
    rw [ih] at hs
    simp only [ne_eq]
    omega

/-! ## match sets of one function, of a rule, of a program (independent of the start index) -/

/-- the number of match sets a condition lowers to; `none` = a lowering error -/
def fnSets (emit : List Char → Option Emit) (f : Fn) : Option Nat :=
  match emit f.name with
  | none => none
  | some e =>
    if (groupKeys f.params).isEmpty then none
    else some (match e with
      | .perValue => ((groupKeys f.params).map (·.2)).sum
      | _ => (groupKeys f.params).length)

def sumOpt : List (Option Nat) → Option Nat
  | [] => some 0
  | none :: _ => none
  | some a :: r => (sumOpt r).map (a + ·)

def fnsSets (emit : List Char → Option Emit) (fs : List Fn) : Option Nat := sumOpt (fs.map (fnSets emit))

def rulesSets (emit : List Char → Option Emit) (rules : List Rule) : Option Nat :=
  sumOpt (rules.map fun r => fnsSets emit r.1)

theorem sumOpt_cons_some {x : Option Nat} {l : List (Option Nat)} {a : Nat} :
    sumOpt (x :: l) = some a ↔ ∃ y z, x = some y ∧ sumOpt l = some z ∧ a = y + z := by
  cases x with
  | none => simp [sumOpt]
  | some y =>
    simp only [sumOpt, Option.map_eq_some_iff, Option.some.injEq]
    constructor
    · rintro ⟨z, hz, rfl⟩; exact ⟨y, z, rfl, hz, rfl⟩
    · rintro ⟨y', z, rfl, hz, rfl⟩; exact ⟨z, hz, rfl⟩

theorem sumOpt_perm {l l' : List (Option Nat)} (h : l.Perm l') : sumOpt l = sumOpt l' := by
  induction h with
  | nil => rfl
  | cons x _ ih => cases x <;> simp [sumOpt, ih]
  | swap x y l =>
    cases x <;> cases y <;> simp only [sumOpt]
    · cases sumOpt l <;> simp
    · cases sumOpt l <;> simp
    · cases sumOpt l with
      | none => simp
      | some z => simp only [Option.map_some, Option.some.injEq]; omega
  | trans _ _ ih1 ih2 => exact ih1.trans ih2

/-- pointwise smaller summands give a smaller sum, and no new error -/
theorem sumOpt_map_le {α : Type} (F G : α → Option Nat) : ∀ (l : List α),
    (∀ x ∈ l, ∀ a, F x = some a → ∃ b, b ≤ a ∧ G x = some b) →
    ∀ a, sumOpt (l.map F) = some a → ∃ b, b ≤ a ∧ sumOpt (l.map G) = some b := by
  intro l
  induction l with
  | nil => intro _ a h; exact ⟨0, Nat.zero_le _, rfl⟩
  | cons x l ih =>
    intro hx a h
    rw [List.map_cons, sumOpt_cons_some] at h
    obtain ⟨y, z, hy, hz, rfl⟩ := h
    obtain ⟨y', hy', hG⟩ := hx x List.mem_cons_self y hy
    obtain ⟨z', hz', hGl⟩ := ih (fun w hw => hx w (List.mem_cons_of_mem _ hw)) z hz
    refine ⟨y' + z', by omega, ?_⟩
    rw [List.map_cons, sumOpt_cons_some]
    exact ⟨y', z', hG, hGl, rfl⟩

/-! ## lowering with a start index = start index + number of sets; domain-set indices stay inside -/

theorem lowerFn_sets (emit : List Char → Option Emit) (f : Fn) (idx k : Nat) (ds : List Nat)
    (h : lowerFn emit f idx = .ok (k, ds)) :
    ∃ n, fnSets emit f = some n ∧ k = idx + n ∧ ∀ d ∈ ds, idx ≤ d ∧ d < k := by
  unfold lowerFn at h
  unfold fnSets
  cases he : emit f.name with
  | none => simp [he] at h
  | some e =>
    simp only [he] at h ⊢
    by_cases hne : (groupKeys f.params).isEmpty = true
    · simp [hne] at h
    · simp only [hne, Bool.false_eq_true, if_false] at h ⊢
      cases e with
      | domain =>
        simp only [Except.ok.injEq, Prod.mk.injEq] at h
        obtain ⟨rfl, rfl⟩ := h
        refine ⟨_, rfl, rfl, ?_⟩
        intro d hd
        simp only [List.mem_map, List.mem_range] at hd
        obtain ⟨j, hj, rfl⟩ := hd
        omega
      | perGroup =>
        simp only [Except.ok.injEq, Prod.mk.injEq] at h
        obtain ⟨rfl, rfl⟩ := h
        exact ⟨_, rfl, rfl, by simp⟩
      | perValue =>
        simp only [Except.ok.injEq, Prod.mk.injEq] at h
        obtain ⟨rfl, rfl⟩ := h
        exact ⟨_, rfl, rfl, by simp⟩

theorem lowerFn_of_sets (emit : List Char → Option Emit) (f : Fn) (idx n : Nat) (h : fnSets emit f = some n) :
    ∃ ds, lowerFn emit f idx = .ok (idx + n, ds) := by
  unfold fnSets at h
  unfold lowerFn
  cases he : emit f.name with
  | none => simp [he] at h
  | some e =>
    simp only [he] at h ⊢
    by_cases hne : (groupKeys f.params).isEmpty = true
    · simp [hne] at h
    · simp only [hne, Bool.false_eq_true, if_false, Option.some.injEq] at h ⊢
      subst h
      cases e <;> exact ⟨_, rfl⟩

theorem lowerFns_sets (emit : List Char → Option Emit) : ∀ (fs : List Fn) (idx k : Nat) (ds : List Nat),
    lowerFns emit fs idx = .ok (k, ds) →
    ∃ n, fnsSets emit fs = some n ∧ k = idx + n ∧ ∀ d ∈ ds, idx ≤ d ∧ d < k := by
  intro fs
  induction fs with
  | nil =>
    intro idx k ds h
    simp only [lowerFns, Except.ok.injEq, Prod.mk.injEq] at h
    obtain ⟨rfl, rfl⟩ := h
    exact ⟨0, rfl, rfl, by simp⟩
  | cons f fs ih =>
    intro idx k ds h
    rw [lowerFns] at h
    split at h
    · simp at h
    · rename_i k1 ds1 h1
      split at h
      · simp at h
      · rename_i k2 ds2 h2
        simp only [Except.ok.injEq, Prod.mk.injEq] at h
        obtain ⟨rfl, rfl⟩ := h
        obtain ⟨n1, hn1, rfl, hd1⟩ := lowerFn_sets emit f idx k1 ds1 h1
        obtain ⟨n2, hn2, rfl, hd2⟩ := ih _ _ _ h2
        refine ⟨n1 + n2, ?_, by omega, ?_⟩
        · unfold fnsSets at hn2 ⊢
          rw [List.map_cons, sumOpt_cons_some]
          exact ⟨n1, n2, hn1, hn2, rfl⟩
        · intro d hd
          rcases List.mem_append.mp hd with hd | hd
          · have := hd1 d hd; omega
          · have := hd2 d hd; omega

theorem lowerFns_of_sets (emit : List Char → Option Emit) : ∀ (fs : List Fn) (idx n : Nat),
    fnsSets emit fs = some n → ∃ ds, lowerFns emit fs idx = .ok (idx + n, ds) := by
  intro fs
  induction fs with
  | nil =>
    intro idx n h
    simp only [fnsSets, List.map_nil, sumOpt, Option.some.injEq] at h
    subst h
    exact ⟨[], rfl⟩
  | cons f fs ih =>
    intro idx n h
    unfold fnsSets at h
    rw [List.map_cons, sumOpt_cons_some] at h
    obtain ⟨y, z, hy, hz, rfl⟩ := h
    obtain ⟨ds1, h1⟩ := lowerFn_of_sets emit f idx y hy
    obtain ⟨ds2, h2⟩ := ih (idx + y) z hz
    refine ⟨ds1 ++ ds2, ?_⟩
    rw [lowerFns, h1]
    simp only
    rw [h2]
    simp [Nat.add_assoc]

theorem lowerRules_sets (emit : List Char → Option Emit) : ∀ (rules : List Rule) (idx k : Nat) (ds : List Nat),
    lowerRules emit rules idx = .ok (k, ds) →
    ∃ n, rulesSets emit rules = some n ∧ k = idx + n ∧ ∀ d ∈ ds, idx ≤ d ∧ d < k := by
  intro rules
  induction rules with
  | nil =>
    intro idx k ds h
    simp only [lowerRules, Except.ok.injEq, Prod.mk.injEq] at h
    obtain ⟨rfl, rfl⟩ := h
    exact ⟨0, rfl, rfl, by simp⟩
  | cons r rs ih =>
    intro idx k ds h
    rw [lowerRules] at h
    split at h
    · simp at h
    · rename_i k1 ds1 h1
      split at h
      · simp at h
      · rename_i k2 ds2 h2
        simp only [Except.ok.injEq, Prod.mk.injEq] at h
        obtain ⟨rfl, rfl⟩ := h
        obtain ⟨n1, hn1, rfl, hd1⟩ := lowerFns_sets emit r.1 idx k1 ds1 h1
        obtain ⟨n2, hn2, rfl, hd2⟩ := ih _ _ _ h2
        refine ⟨n1 + n2, ?_, by omega, ?_⟩
        · unfold rulesSets at hn2 ⊢
          rw [List.map_cons, sumOpt_cons_some]
          exact ⟨n1, n2, hn1, hn2, rfl⟩
        · intro d hd
          rcases List.mem_append.mp hd with hd | hd
          · have := hd1 d hd; omega
          · have := hd2 d hd; omega

theorem lowerRules_of_sets (emit : List Char → Option Emit) : ∀ (rules : List Rule) (idx n : Nat),
    rulesSets emit rules = some n → ∃ ds, lowerRules emit rules idx = .ok (idx + n, ds) := by
  intro rules
  induction rules with
  | nil =>
    intro idx n h
    simp only [rulesSets, List.map_nil, sumOpt, Option.some.injEq] at h
    subst h
    exact ⟨[], rfl⟩
  | cons r rs ih =>
    intro idx n h
    unfold rulesSets at h
    rw [List.map_cons, sumOpt_cons_some] at h
    obtain ⟨y, z, hy, hz, rfl⟩ := h
    obtain ⟨ds1, h1⟩ := lowerFns_of_sets emit r.1 idx y hy
    obtain ⟨ds2, h2⟩ := ih (idx + y) z hz
    refine ⟨ds1 ++ ds2, ?_⟩
    rw [lowerRules, h1]
    simp only
    rw [h2]
    simp [Nat.add_assoc]

/-! ## each optimizer stage, on the number of sets -/

theorem gkeys_length_append_le (a b : List KV) :
    (groupKeys (a ++ b)).length ≤ (groupKeys a).length + (groupKeys b).length := by
  have h1 : (gkeys (a ++ b)).length ≤ (gkeys a ++ gkeys b).length := by
    apply nodup_subset_length_le _ _ (gkeys_nodup _)
    intro k hk
    obtain ⟨p, hp, hpk⟩ := (gkeys_mem _ _).mp hk
    rcases List.mem_append.mp hp with hp | hp
    · exact List.mem_append.mpr (Or.inl ((gkeys_mem _ _).mpr ⟨p, hp, hpk⟩))
    · exact List.mem_append.mpr (Or.inr ((gkeys_mem _ _).mpr ⟨p, hp, hpk⟩))
  simpa [gkeys] using h1

/-- merging `f(A)` and `f(B)` into `f(A, B)` never needs more sets than the two together -/
theorem fnSets_merge (emit : List Char → Option Emit) (name : List Char) (neg neg' neg'' : Bool) (a b : List KV)
    (x y : Nat) (hx : fnSets emit ⟨name, neg, a⟩ = some x) (hy : fnSets emit ⟨name, neg', b⟩ = some y) :
    ∃ z, z ≤ x + y ∧ fnSets emit ⟨name, neg'', a ++ b⟩ = some z := by
  unfold fnSets at hx hy ⊢
  cases he : emit name with
  | none => simp [he] at hx
  | some e =>
    simp only [he] at hx hy ⊢
    by_cases ha : (groupKeys a).isEmpty = true
    · simp [ha] at hx
    · by_cases hb : (groupKeys b).isEmpty = true
      · simp [hb] at hy
      · have hab : (groupKeys (a ++ b)).isEmpty = false := by
          cases hq : groupKeys (a ++ b) with
          | nil =>
            have := (groupKeys_eq_nil _).mp hq
            have ha' : a = [] := (List.append_eq_nil_iff.mp this).1
            simp [ha', groupKeys] at ha
          | cons _ _ => rfl
        simp only [ha, hb, hab, Bool.false_eq_true, if_false, Option.some.injEq] at hx hy ⊢
        subst hx hy
        cases e with
        | perValue =>
          refine ⟨_, ?_, rfl⟩
          simp only [groupKeys_sum, List.length_append]
          exact Nat.le_refl _
        | domain => exact ⟨_, gkeys_length_append_le a b, rfl⟩
        | perGroup => exact ⟨_, gkeys_length_append_le a b, rfl⟩

theorem dedupKV_sublist : ∀ (ps seen : List KV), (dedupKV seen ps).Sublist ps := by
  intro ps
  induction ps with
  | nil => intro seen; simp [dedupKV]
  | cons p ps ih =>
    intro seen
    rw [dedupKV]
    split
    · exact (ih seen).cons p
    · exact (ih (p :: seen)).cons₂ p

theorem dedupKV_ne_nil (ps : List KV) (h : ps ≠ []) : dedupKV [] ps ≠ [] := by
  cases ps with
  | nil => exact absurd rfl h
  | cons p ps => simp [dedupKV]

/-- removing repeated parameters never needs more sets -/
theorem fnSets_dedup (emit : List Char → Option Emit) (f : Fn) (x : Nat) (hx : fnSets emit f = some x) :
    ∃ z, z ≤ x ∧ fnSets emit ⟨f.name, f.neg, dedupKV [] f.params⟩ = some z := by
  unfold fnSets at hx ⊢
  cases he : emit f.name with
  | none => simp [he] at hx
  | some e =>
    simp only [he] at hx ⊢
    by_cases ha : (groupKeys f.params).isEmpty = true
    · simp [ha] at hx
    · have hne : f.params ≠ [] := by
        intro h0
        simp [h0, groupKeys] at ha
      have hd : (groupKeys (dedupKV [] f.params)).isEmpty = false := by
        cases hq : groupKeys (dedupKV [] f.params) with
        | nil => exact absurd ((groupKeys_eq_nil _).mp hq) (dedupKV_ne_nil _ hne)
        | cons _ _ => rfl
      simp only [ha, hd, Bool.false_eq_true, if_false, Option.some.injEq] at hx ⊢
      subst hx
      have hsub := dedupKV_sublist f.params []
      have hlen : (groupKeys (dedupKV [] f.params)).length ≤ (groupKeys f.params).length := by
        have h1 : (gkeys (dedupKV [] f.params)).length ≤ (gkeys f.params).length := by
          apply nodup_subset_length_le _ _ (gkeys_nodup _)
          intro k hk
          obtain ⟨p, hp, hpk⟩ := (gkeys_mem _ _).mp hk
          exact (gkeys_mem _ _).mpr ⟨p, hsub.subset hp, hpk⟩
        simpa [gkeys] using h1
      cases e with
      | perValue =>
        refine ⟨_, ?_, rfl⟩
        simp only [groupKeys_sum]
        exact hsub.length_le
      | domain => exact ⟨_, hlen, rfl⟩
      | perGroup => exact ⟨_, hlen, rfl⟩

theorem insertFn_perm (x : Fn) : ∀ (l : List Fn), (insertFn x l).Perm (x :: l) := by
  intro l
  induction l with
  | nil => exact List.Perm.refl _
  | cons g gs ih =>
    rw [insertFn]
    split
    · exact ((List.Perm.cons g ih).trans (List.Perm.swap x g gs))
    · exact List.Perm.refl _

theorem sortFns_perm : ∀ (fs : List Fn), (sortFns fs).Perm fs := by
  intro fs
  induction fs with
  | nil => exact List.Perm.refl _
  | cons f fs ih =>
    show (insertFn f (sortFns fs)).Perm (f :: fs)
    exact (insertFn_perm f _).trans (List.Perm.cons f ih)

theorem fnsSets_sortFns (emit : List Char → Option Emit) (fs : List Fn) : fnsSets emit (sortFns fs) = fnsSets emit fs := by
  unfold fnsSets
  exact sumOpt_perm ((sortFns_perm fs).map _)

theorem fnsSets_singleton (emit : List Char → Option Emit) (f : Fn) : fnsSets emit [f] = fnSets emit f := by
  unfold fnsSets
  cases h : fnSets emit f <;> simp [sumOpt, h]

theorem mergeRules_le (emit : List Char → Option Emit) : ∀ (rs : List Rule) (cur : Rule) (a : Nat),
    rulesSets emit (cur :: rs) = some a → ∃ b, b ≤ a ∧ rulesSets emit (mergeRules cur rs) = some b := by
  intro rs
  induction rs with
  | nil => intro cur a h; exact ⟨a, Nat.le_refl _, by simpa [mergeRules] using h⟩
  | cons r rs ih =>
    intro cur a h
    have keep : ∃ b, b ≤ a ∧ rulesSets emit (cur :: mergeRules r rs) = some b := by
      unfold rulesSets at h ⊢
      rw [List.map_cons, sumOpt_cons_some] at h
      obtain ⟨y, z, hy, hz, rfl⟩ := h
      obtain ⟨b, hb, hm⟩ := ih r z hz
      refine ⟨y + b, by omega, ?_⟩
      rw [List.map_cons, sumOpt_cons_some]
      exact ⟨y, b, hy, hm, rfl⟩
    rw [mergeRules]
    split
    · rename_i f g hf hg
      split
      · rename_i hcond
        obtain ⟨hname, _, _, _⟩ := hcond
        unfold rulesSets at h
        rw [List.map_cons, sumOpt_cons_some] at h
        obtain ⟨y, z, hy, hz, rfl⟩ := h
        rw [List.map_cons, sumOpt_cons_some] at hz
        obtain ⟨y2, z2, hy2, hz2, rfl⟩ := hz
        simp only [hf, fnsSets_singleton] at hy
        simp only [hg, fnsSets_singleton] at hy2
        have hg' : fnSets emit ⟨f.name, g.neg, g.params⟩ = some y2 := by
          rw [hname]; exact hy2
        obtain ⟨w, hw, hmerged⟩ := fnSets_merge emit f.name f.neg g.neg f.neg f.params g.params y y2 hy hg'
        have hnew : rulesSets emit (([⟨f.name, f.neg, f.params ++ g.params⟩], cur.2) :: rs) = some (w + z2) := by
          unfold rulesSets
          rw [List.map_cons, sumOpt_cons_some]
          exact ⟨w, z2, by simpa [fnsSets_singleton] using hmerged, hz2, rfl⟩
        obtain ⟨b, hb, hm⟩ := ih _ _ hnew
        exact ⟨b, by omega, hm⟩
      · exact keep
    · exact keep

theorem mergeAndSort_le (emit : List Char → Option Emit) (rules : List Rule) (a : Nat)
    (h : rulesSets emit rules = some a) : ∃ b, b ≤ a ∧ rulesSets emit (mergeAndSort rules) = some b := by
  have hsorted : rulesSets emit (rules.map fun r => (sortFns r.1, r.2)) = some a := by
    unfold rulesSets at h ⊢
    rw [List.map_map]
    have : ((fun r : Rule => fnsSets emit r.1) ∘ fun r : Rule => (sortFns r.1, r.2)) = fun r => fnsSets emit r.1 := by
      funext r
      simp [Function.comp, fnsSets_sortFns]
    rw [this]
    exact h
  unfold mergeAndSort
  split
  · rename_i heq
    rw [heq] at hsorted
    exact ⟨a, Nat.le_refl _, hsorted⟩
  · rename_i r rs heq
    rw [heq] at hsorted
    exact mergeRules_le emit rs r a hsorted

theorem dedupRules_le (emit : List Char → Option Emit) (rules : List Rule) (a : Nat)
    (h : rulesSets emit rules = some a) : ∃ b, b ≤ a ∧ rulesSets emit (dedupRules rules) = some b := by
  unfold rulesSets dedupRules at *
  rw [List.map_map]
  refine sumOpt_map_le (fun r : Rule => fnsSets emit r.1) _ rules ?_ a h
  intro r _ x hx
  simp only [Function.comp]
  unfold fnsSets at hx ⊢
  rw [List.map_map]
  exact sumOpt_map_le (fnSets emit) _ r.1 (fun f _ y hy => fnSets_dedup emit f y hy) x hx

/-- **The optimizer chain never enlarges a program**: whatever lowers to `a` match sets after the
alias stage lowers to at most `a` after merging and de-duplication, and to no new error. -/
theorem optimize_sets_le (emit : List Char → Option Emit) (withAlias : Bool) (rules : List Rule) (a : Nat)
    (h : rulesSets emit (if withAlias then aliasRules rules else rules) = some a) :
    ∃ b, b ≤ a ∧ rulesSets emit (optimizeRules withAlias rules) = some b := by
  unfold optimizeRules
  obtain ⟨b, hb, hm⟩ := mergeAndSort_le emit _ a h
  obtain ⟨c, hc, hd⟩ := dedupRules_le emit _ b hm
  exact ⟨c, by omega, hd⟩

theorem addSets_all_lt : ∀ (is : List Nat) (table : List Nat), (∀ i ∈ is, i < table.length) →
    ∃ t, addSets table is = .ok t := by
  intro is
  induction is with
  | nil => intro table _; exact ⟨table, rfl⟩
  | cons i is ih =>
    intro table h
    have hi : i < table.length := h i List.mem_cons_self
    rw [addSets]
    have h1 : addSet table i = .ok (table.set i (table.getD i 0 + 1)) := by simp [addSet, hi]
    rw [h1]
    simp only
    apply ih
    intro j hj
    simpa using h j (List.mem_cons_of_mem _ hj)

/-- a program that fits the table (total-length check on) still fits after the optimizers -/
theorem compileSize_optimized (emit : List Char → Option Emit) (maxLen : Nat) (withAlias : Bool) (rules : List Rule)
    (n : Nat) (h : compileSize emit true maxLen (if withAlias then aliasRules rules else rules) = .ok n) :
    ∃ n', n' ≤ n ∧ compileSize emit true maxLen (optimizeRules withAlias rules) = .ok n' := by
  obtain ⟨ds, hl, hn1, _, hmax⟩ := compileSize_ok emit true maxLen _ n h
  obtain ⟨a, ha, hk, _⟩ := lowerRules_sets emit _ 0 (n - 1) ds hl
  obtain ⟨b, hb, hopt⟩ := optimize_sets_le emit withAlias rules a ha
  obtain ⟨ds', hl'⟩ := lowerRules_of_sets emit _ 0 b hopt
  obtain ⟨b', hb', hk', hds'⟩ := lowerRules_sets emit _ 0 _ ds' hl'
  have hmax' := hmax rfl
  refine ⟨b + 1, by omega, ?_⟩
  unfold compileSize
  rw [hl']
  simp only [Nat.zero_add]
  have hnot : ¬ (True ∧ b + 1 > maxLen) := by omega
  rw [if_neg hnot]
  obtain ⟨t, ht⟩ := addSets_all_lt ds' (List.replicate maxLen 0) (by
    intro i hi
    have := hds' i hi
    simp only [List.length_replicate]
    omega)
  rw [ht]

end DaeVerif.C17
