import DaeVerif.C17.Model
/-!
# C17 — the token-level parser: what it accepts is exactly what the tree spells

* soundness  `parseX n ts = ok (x, r) → ts = toks x ++ r`
* completeness `parseX n (toks x ++ r) = ok (x, r)` for enough fuel and a follow context `r`
  that cannot continue the construct.
-/
namespace DaeVerif.C17

theorem litOfTok_sound {t : Tok} {l : Lit} (h : litOfTok t = some l) : l.tok = t := by
  cases t <;> simp [litOfTok] at h <;> subst h <;> rfl

@[simp] theorem litOfTok_tok (l : Lit) : litOfTok l.tok = some l := by
  cases l <;> rfl

/-! ## soundness -/

theorem parseParam_sound {ts : List Tok} {p : CParam} {r : List Tok}
    (h : parseParam ts = .ok (p, r)) : ts = p.toks ++ r := by
  unfold parseParam at h
  split at h
  · split at h
    · simp only [Except.ok.injEq, Prod.mk.injEq] at h
      obtain ⟨rfl, rfl⟩ := h
      rename_i hl
      simp [CParam.toks, litOfTok_sound hl]
    · simp at h
  · simp at h
  · split at h
    · simp only [Except.ok.injEq, Prod.mk.injEq] at h
      obtain ⟨rfl, rfl⟩ := h
      rename_i hl
      simp [CParam.toks, litOfTok_sound hl]
    · simp at h
  · simp at h

theorem parseParams_sound : ∀ (n : Nat) {ts : List Tok} {ps : List CParam} {r : List Tok},
    parseParams n ts = .ok (ps, r) → ∃ p ps', ps = p :: ps' ∧ ts = p.toks ++ paramsTail ps' ++ r := by
  intro n
  induction n with
  | zero => intro ts ps r h; simp [parseParams] at h
  | succ n ih =>
    intro ts ps r h
    unfold parseParams at h
    split at h
    · simp at h
    · rename_i p r1 hp
      have h1 := parseParam_sound hp
      split at h
      · rename_i r'
        split at h
        · simp at h
        · rename_i ps' r'' hrec
          simp only [Except.ok.injEq, Prod.mk.injEq] at h
          obtain ⟨rfl, rfl⟩ := h
          obtain ⟨q, qs, rfl, hts⟩ := ih hrec
          refine ⟨p, q :: qs, rfl, ?_⟩
          simp [h1, hts, paramsTail, List.flatMap_cons]
      · simp only [Except.ok.injEq, Prod.mk.injEq] at h
        obtain ⟨rfl, rfl⟩ := h
        exact ⟨p, [], rfl, by simp [h1, paramsTail]⟩

theorem parseOptParams_sound {n : Nat} {close : Tok} {ts : List Tok} {ps : List CParam} {r : List Tok}
    (h : parseOptParams n close ts = .ok (ps, r)) : ts = paramsToks ps ++ close :: r := by
  unfold parseOptParams at h
  split at h
  · split at h
    · simp at h
    · rename_i ps' r1 hp
      obtain ⟨p, qs, rfl, hts⟩ := parseParams_sound n hp
      split at h
      · split at h
        · rename_i t r' heq
          simp only [Except.ok.injEq, Prod.mk.injEq] at h
          obtain ⟨rfl, rfl⟩ := h
          subst heq
          simp [hts, paramsToks]
        · simp at h
      · simp at h
  · split at h
    · split at h
      · rename_i t r' heq
        simp only [Except.ok.injEq, Prod.mk.injEq] at h
        obtain ⟨rfl, rfl⟩ := h
        subst heq
        simp [paramsToks]
      · simp at h
    · simp at h

theorem parseFn_sound {n : Nat} {ts : List Tok} {f : CFn} {r : List Tok}
    (h : parseFn n ts = .ok (f, r)) : ts = f.toks ++ r := by
  unfold parseFn at h
  split at h
  · split at h
    · simp at h
    · rename_i ps r' hp
      simp only [Except.ok.injEq, Prod.mk.injEq] at h
      obtain ⟨rfl, rfl⟩ := h
      simp [CFn.toks, parseOptParams_sound hp]
  · split at h
    · simp at h
    · rename_i ps r' hp
      simp only [Except.ok.injEq, Prod.mk.injEq] at h
      obtain ⟨rfl, rfl⟩ := h
      simp [CFn.toks, parseOptParams_sound hp]
  · simp at h

theorem parseFnsTail_sound : ∀ (n : Nat) {ts : List Tok} {fs : List CFn} {r : List Tok},
    parseFnsTail n ts = .ok (fs, r) → ts = fnsTail fs ++ r := by
  intro n
  induction n with
  | zero => intro ts fs r h; simp [parseFnsTail] at h
  | succ n ih =>
    intro ts fs r h
    unfold parseFnsTail at h
    split at h
    · split at h
      · simp at h
      · rename_i f r' hf
        split at h
        · simp at h
        · rename_i fs' r'' hrec
          simp only [Except.ok.injEq, Prod.mk.injEq] at h
          obtain ⟨rfl, rfl⟩ := h
          simp [fnsTail, List.flatMap_cons, parseFn_sound hf, ih hrec]
    · simp only [Except.ok.injEq, Prod.mk.injEq] at h
      obtain ⟨rfl, rfl⟩ := h
      simp [fnsTail]

theorem parseLitsTail_sound : ∀ (n : Nat) {ts : List Tok} {ls : List Lit} {r : List Tok},
    parseLitsTail n ts = .ok (ls, r) → ts = litsTail ls ++ r := by
  intro n
  induction n with
  | zero => intro ts ls r h; simp [parseLitsTail] at h
  | succ n ih =>
    intro ts ls r h
    unfold parseLitsTail at h
    split at h
    · split at h
      · simp at h
      · rename_i l hl
        split at h
        · simp at h
        · rename_i ls' r' hrec
          simp only [Except.ok.injEq, Prod.mk.injEq] at h
          obtain ⟨rfl, rfl⟩ := h
          simp [litsTail, List.flatMap_cons, litOfTok_sound hl, ih hrec]
    · simp at h
    · simp only [Except.ok.injEq, Prod.mk.injEq] at h
      obtain ⟨rfl, rfl⟩ := h
      simp [litsTail]

theorem parseAnn_sound {n : Nat} {ts : List Tok} {a : Option (List CParam)} {r : List Tok}
    (h : parseAnn n ts = .ok (a, r)) : ts = annToks a ++ r := by
  unfold parseAnn at h
  split at h
  · split at h
    · simp at h
    · rename_i ps r' hp
      simp only [Except.ok.injEq, Prod.mk.injEq] at h
      obtain ⟨rfl, rfl⟩ := h
      simp [annToks, parseOptParams_sound hp]
  · simp only [Except.ok.injEq, Prod.mk.injEq] at h
    obtain ⟨rfl, rfl⟩ := h
    simp [annToks]

theorem parseDeclBody_sound {n : Nat} {key : List Char} {ts : List Tok} {d : CDecl} {r : List Tok}
    (h : parseDeclBody n key ts = .ok (d, r)) : d.key = key ∧ ts = d.val.toks ++ annToks d.ann ++ r := by
  unfold parseDeclBody at h
  split at h
  · split at h
    · simp at h
    · rename_i f r1 hf
      split at h
      · simp at h
      · rename_i fs r2 hfs
        split at h
        · simp at h
        · rename_i a r3 ha
          simp only [Except.ok.injEq, Prod.mk.injEq] at h
          obtain ⟨rfl, rfl⟩ := h
          refine ⟨rfl, ?_⟩
          simp [CVal.toks, fnsToks, parseFn_sound hf, parseFnsTail_sound n hfs, parseAnn_sound ha]
  · split at h
    · split at h
      · simp at h
      · rename_i l hl
        split at h
        · simp at h
        · rename_i ls r2 hls
          split at h
          · simp at h
          · rename_i a r3 ha
            simp only [Except.ok.injEq, Prod.mk.injEq] at h
            obtain ⟨rfl, rfl⟩ := h
            refine ⟨rfl, ?_⟩
            simp [CVal.toks, litsToks, litOfTok_sound hl, parseLitsTail_sound n hls, parseAnn_sound ha]
    · simp at h

theorem parseOut_sound {n : Nat} {ts : List Tok} {o : COut} {r : List Tok}
    (h : parseOut n ts = .ok (o, r)) : ts = o.toks ++ r := by
  unfold parseOut at h
  split at h
  · split at h
    · simp at h
    · rename_i f r' hf
      simp only [Except.ok.injEq, Prod.mk.injEq] at h
      obtain ⟨rfl, rfl⟩ := h
      simp [COut.toks, parseFn_sound hf]
  · split at h
    · simp only [Except.ok.injEq, Prod.mk.injEq] at h
      obtain ⟨rfl, rfl⟩ := h
      simp [COut.toks]
    · simp only [Except.ok.injEq, Prod.mk.injEq] at h
      obtain ⟨rfl, rfl⟩ := h
      simp [COut.toks]
    · simp at h

theorem parseRule_sound {n : Nat} {ts : List Tok} {rl : CRule} {r : List Tok}
    (h : parseRule n ts = .ok (rl, r)) : ts = rl.toks ++ r := by
  unfold parseRule at h
  split at h
  · simp at h
  · rename_i f r1 hf
    split at h
    · simp at h
    · rename_i fs r2 hfs
      split at h
      · rename_i r3
        split at h
        · simp at h
        · rename_i o r4 ho
          simp only [Except.ok.injEq, Prod.mk.injEq] at h
          obtain ⟨rfl, rfl⟩ := h
          simp [CRule.toks, fnsToks, parseFn_sound hf, parseFnsTail_sound n hfs, parseOut_sound ho]
      · simp at h

theorem itemKind_decl {ts : List Tok} {k : List Char} (h : itemKind ts = .decl k) :
    ∃ r, ts = .id k :: .colon :: r := by
  unfold itemKind at h
  split at h <;> simp at h
  subst h; exact ⟨_, rfl⟩

theorem itemKind_sec {ts : List Tok} {k : List Char} (h : itemKind ts = .sec k) :
    ∃ r, ts = .id k :: .lbrace :: r := by
  unfold itemKind at h
  split at h <;> simp at h
  subst h; exact ⟨_, rfl⟩

theorem itemKind_lit {ts : List Tok} {l : Lit} (h : itemKind ts = .lit l) :
    ∃ r, ts = l.tok :: r := by
  unfold itemKind at h
  split at h <;> simp at h <;> subst h <;> exact ⟨_, rfl⟩

theorem parseItems_sound : ∀ (n : Nat) {ts : List Tok} {items : Items} {r : List Tok},
    parseItems n ts = .ok (items, r) → ts = items.toks ++ r := by
  intro n
  induction n with
  | zero => intro ts items r h; simp [parseItems] at h
  | succ n ih =>
    intro ts items r h
    unfold parseItems at h
    split at h
    · -- none
      simp only [Except.ok.injEq, Prod.mk.injEq] at h
      obtain ⟨rfl, rfl⟩ := h
      simp [Items.toks]
    · -- rule
      split at h
      · simp at h
      · rename_i rl ts' hr
        split at h
        · simp at h
        · rename_i rest ts'' hrec
          simp only [Except.ok.injEq, Prod.mk.injEq] at h
          obtain ⟨rfl, rfl⟩ := h
          simp [Items.toks, parseRule_sound hr, ih hrec]
    · -- decl
      rename_i k hk
      obtain ⟨r0, rfl⟩ := itemKind_decl hk
      split at h
      · simp at h
      · rename_i d ts' hd
        split at h
        · simp at h
        · rename_i rest ts'' hrec
          simp only [Except.ok.injEq, Prod.mk.injEq] at h
          obtain ⟨rfl, rfl⟩ := h
          simp only [List.drop_succ_cons, List.drop_zero] at hd
          obtain ⟨hkey, hts⟩ := parseDeclBody_sound hd
          simp [Items.toks, CDecl.toks, hkey, hts, ih hrec]
    · -- lit
      rename_i l hl
      obtain ⟨r0, rfl⟩ := itemKind_lit hl
      split at h
      · simp at h
      · rename_i rest ts'' hrec
        simp only [Except.ok.injEq, Prod.mk.injEq] at h
        obtain ⟨rfl, rfl⟩ := h
        simp only [List.drop_succ_cons, List.drop_zero] at hrec
        simp [Items.toks, ih hrec]
    · -- sec
      rename_i name hs
      obtain ⟨r0, rfl⟩ := itemKind_sec hs
      split at h
      · simp at h
      · rename_i body ts' hb
        simp only [List.drop_succ_cons, List.drop_zero] at hb
        split at h
        · rename_i ts''
          split at h
          · simp at h
          · rename_i rest ts3 hrec
            simp only [Except.ok.injEq, Prod.mk.injEq] at h
            obtain ⟨rfl, rfl⟩ := h
            simp [Items.toks, ih hb, ih hrec]
        · simp at h

theorem parseProg_sound : ∀ (n : Nat) {ts : List Tok} {p : Prog},
    parseProg n ts = .ok p → ts = progToks p := by
  intro n
  induction n with
  | zero => intro ts p h; simp [parseProg] at h
  | succ n ih =>
    intro ts p h
    unfold parseProg at h
    split at h
    · simp only [Except.ok.injEq] at h
      subst h; simp [progToks]
    · rename_i name r
      split at h
      · simp at h
      · rename_i body r' hb
        split at h
        · rename_i r''
          split at h
          · simp at h
          · rename_i ps hrec
            simp only [Except.ok.injEq] at h
            subst h
            simp [progToks, parseItems_sound n hb, ih hrec]
        · simp at h
    · simp at h

end DaeVerif.C17
