import DaeVerif.C17.Model
/-!
# C17 — the token-level parser: what it accepts is exactly what the tree spells

* soundness  `parseX n ts = ok (x, r) → ts = toks x ++ r`
* completeness `parseX n (toks x ++ r) = ok (x, r)` for enough fuel and a follow context `r`
  that cannot continue the construct.
-/
namespace DaeVerif.C17

theorem litOfTok_sound {t : Tok} {l : Lit} (h : litOfTok t = some l) : l.tok = t := by
  cases t <;> simp [litOfTok] at h <;> subst h <;> rfl

@[simp] theorem litOfTok_tok (l : Lit) : litOfTok l.tok = some l := by
  cases l <;> rfl

/-! ## soundness -/

theorem parseParam_sound {ts : List Tok} {p : CParam} {r : List Tok}
    (h : parseParam ts = .ok (p, r)) : ts = p.toks ++ r := by
  unfold parseParam at h
  split at h
  · split at h
    · simp only [Except.ok.injEq, Prod.mk.injEq] at h
      obtain ⟨rfl, rfl⟩ := h
      rename_i hl
      simp [CParam.toks, litOfTok_sound hl]
    · simp at h
  · simp at h
  · split at h
    · simp only [Except.ok.injEq, Prod.mk.injEq] at h
      obtain ⟨rfl, rfl⟩ := h
      rename_i hl
      simp [CParam.toks, litOfTok_sound hl]
    · simp at h
  · simp at h

theorem parseParams_sound : ∀ (n : Nat) {ts : List Tok} {ps : List CParam} {r : List Tok},
    parseParams n ts = .ok (ps, r) → ∃ p ps', ps = p :: ps' ∧ ts = p.toks ++ paramsTail ps' ++ r := by
  intro n
  induction n with
  | zero => intro ts ps r h; simp [parseParams] at h
  | succ n ih =>
    intro ts ps r h
    unfold parseParams at h
    split at h
    · simp at h
    · rename_i p r1 hp
      have h1 := parseParam_sound hp
      split at h
      · rename_i r'
        split at h
        · simp at h
        · rename_i ps' r'' hrec
          simp only [Except.ok.injEq, Prod.mk.injEq] at h
          obtain ⟨rfl, rfl⟩ := h
          obtain ⟨q, qs, rfl, hts⟩ := ih hrec
          refine ⟨p, q :: qs, rfl, ?_⟩
          simp [h1, hts, paramsTail, List.flatMap_cons]
      · simp only [Except.ok.injEq, Prod.mk.injEq] at h
        obtain ⟨rfl, rfl⟩ := h
        exact ⟨p, [], rfl, by simp [h1, paramsTail]⟩

theorem parseOptParams_sound {n : Nat} {close : Tok} {ts : List Tok} {ps : List CParam} {r : List Tok}
    (h : parseOptParams n close ts = .ok (ps, r)) : ts = paramsToks ps ++ close :: r := by
  unfold parseOptParams at h
  split at h
  · split at h
    · simp at h
    · rename_i ps' r1 hp
      obtain ⟨p, qs, rfl, hts⟩ := parseParams_sound n hp
      split at h
      · split at h
        · rename_i t r' heq
          simp only [Except.ok.injEq, Prod.mk.injEq] at h
          obtain ⟨rfl, rfl⟩ := h
          subst heq
          simp [hts, paramsToks]
        · simp at h
      · simp at h
  · split at h
    · split at h
      · rename_i t r' heq
        simp only [Except.ok.injEq, Prod.mk.injEq] at h
        obtain ⟨rfl, rfl⟩ := h
        subst heq
        simp [paramsToks]
      · simp at h
    · simp at h

theorem parseFn_sound {n : Nat} {ts : List Tok} {f : CFn} {r : List Tok}
    (h : parseFn n ts = .ok (f, r)) : ts = f.toks ++ r := by
  unfold parseFn at h
  split at h
  · split at h
    · simp at h
    · rename_i ps r' hp
      simp only [Except.ok.injEq, Prod.mk.injEq] at h
      obtain ⟨rfl, rfl⟩ := h
      simp [CFn.toks, parseOptParams_sound hp]
  · split at h
    · simp at h
    · rename_i ps r' hp
      simp only [Except.ok.injEq, Prod.mk.injEq] at h
      obtain ⟨rfl, rfl⟩ := h
      simp [CFn.toks, parseOptParams_sound hp]
  · simp at h

theorem parseFnsTail_sound : ∀ (n : Nat) {ts : List Tok} {fs : List CFn} {r : List Tok},
    parseFnsTail n ts = .ok (fs, r) → ts = fnsTail fs ++ r := by
  intro n
  induction n with
  | zero => intro ts fs r h; simp [parseFnsTail] at h
  | succ n ih =>
    intro ts fs r h
    unfold parseFnsTail at h
    split at h
    · split at h
      · simp at h
      · rename_i f r' hf
        split at h
        · simp at h
        · rename_i fs' r'' hrec
          simp only [Except.ok.injEq, Prod.mk.injEq] at h
          obtain ⟨rfl, rfl⟩ := h
          simp [fnsTail, List.flatMap_cons, parseFn_sound hf, ih hrec]
    · simp only [Except.ok.injEq, Prod.mk.injEq] at h
      obtain ⟨rfl, rfl⟩ := h
      simp [fnsTail]

theorem parseLitsTail_sound : ∀ (n : Nat) {ts : List Tok} {ls : List Lit} {r : List Tok},
    parseLitsTail n ts = .ok (ls, r) → ts = litsTail ls ++ r := by
  intro n
  induction n with
  | zero => intro ts ls r h; simp [parseLitsTail] at h
  | succ n ih =>
    intro ts ls r h
    unfold parseLitsTail at h
    split at h
    · split at h
      · simp at h
      · rename_i l hl
        split at h
        · simp at h
        · rename_i ls' r' hrec
          simp only [Except.ok.injEq, Prod.mk.injEq] at h
          obtain ⟨rfl, rfl⟩ := h
          simp [litsTail, List.flatMap_cons, litOfTok_sound hl, ih hrec]
    · simp at h
    · simp only [Except.ok.injEq, Prod.mk.injEq] at h
      obtain ⟨rfl, rfl⟩ := h
      simp [litsTail]

theorem parseAnn_sound {n : Nat} {ts : List Tok} {a : Option (List CParam)} {r : List Tok}
    (h : parseAnn n ts = .ok (a, r)) : ts = annToks a ++ r := by
  unfold parseAnn at h
  split at h
  · split at h
    · simp at h
    · rename_i ps r' hp
      simp only [Except.ok.injEq, Prod.mk.injEq] at h
      obtain ⟨rfl, rfl⟩ := h
      simp [annToks, parseOptParams_sound hp]
  · simp only [Except.ok.injEq, Prod.mk.injEq] at h
    obtain ⟨rfl, rfl⟩ := h
    simp [annToks]

theorem parseDeclBody_sound {n : Nat} {key : List Char} {ts : List Tok} {d : CDecl} {r : List Tok}
    (h : parseDeclBody n key ts = .ok (d, r)) : d.key = key ∧ ts = d.val.toks ++ annToks d.ann ++ r := by
  unfold parseDeclBody at h
  split at h
  · split at h
    · simp at h
    · rename_i f r1 hf
      split at h
      · simp at h
      · rename_i fs r2 hfs
        split at h
        · simp at h
        · rename_i a r3 ha
          simp only [Except.ok.injEq, Prod.mk.injEq] at h
          obtain ⟨rfl, rfl⟩ := h
          refine ⟨rfl, ?_⟩
          simp [CVal.toks, fnsToks, parseFn_sound hf, parseFnsTail_sound n hfs, parseAnn_sound ha]
  · split at h
    · split at h
      · simp at h
      · rename_i l hl
        split at h
        · simp at h
        · rename_i ls r2 hls
          split at h
          · simp at h
          · rename_i a r3 ha
            simp only [Except.ok.injEq, Prod.mk.injEq] at h
            obtain ⟨rfl, rfl⟩ := h
            refine ⟨rfl, ?_⟩
            simp [CVal.toks, litsToks, litOfTok_sound hl, parseLitsTail_sound n hls, parseAnn_sound ha]
    · simp at h

theorem parseOut_sound {n : Nat} {ts : List Tok} {o : COut} {r : List Tok}
    (h : parseOut n ts = .ok (o, r)) : ts = o.toks ++ r := by
  unfold parseOut at h
  split at h
  · split at h
    · simp at h
    · rename_i f r' hf
      simp only [Except.ok.injEq, Prod.mk.injEq] at h
      obtain ⟨rfl, rfl⟩ := h
      simp [COut.toks, parseFn_sound hf]
  · split at h
    · simp only [Except.ok.injEq, Prod.mk.injEq] at h
      obtain ⟨rfl, rfl⟩ := h
      simp [COut.toks]
    · simp only [Except.ok.injEq, Prod.mk.injEq] at h
      obtain ⟨rfl, rfl⟩ := h
      simp [COut.toks]
    · simp at h

theorem parseRule_sound {n : Nat} {ts : List Tok} {rl : CRule} {r : List Tok}
    (h : parseRule n ts = .ok (rl, r)) : ts = rl.toks ++ r := by
  unfold parseRule at h
  split at h
  · simp at h
  · rename_i f r1 hf
    split at h
    · simp at h
    · rename_i fs r2 hfs
      split at h
      · rename_i r3
        split at h
        · simp at h
        · rename_i o r4 ho
          simp only [Except.ok.injEq, Prod.mk.injEq] at h
          obtain ⟨rfl, rfl⟩ := h
          simp [CRule.toks, fnsToks, parseFn_sound hf, parseFnsTail_sound n hfs, parseOut_sound ho]
      · simp at h

theorem itemKind_decl {ts : List Tok} {k : List Char} (h : itemKind ts = .decl k) :
    ∃ r, ts = .id k :: .colon :: r := by
  unfold itemKind at h
  split at h <;> simp at h
  subst h; exact ⟨_, rfl⟩

theorem itemKind_sec {ts : List Tok} {k : List Char} (h : itemKind ts = .sec k) :
    ∃ r, ts = .id k :: .lbrace :: r := by
  unfold itemKind at h
  split at h <;> simp at h
  subst h; exact ⟨_, rfl⟩

theorem itemKind_lit {ts : List Tok} {l : Lit} (h : itemKind ts = .lit l) :
    ∃ r, ts = l.tok :: r := by
  unfold itemKind at h
  split at h <;> simp at h <;> subst h <;> exact ⟨_, rfl⟩

theorem parseItems_sound : ∀ (n : Nat) {ts : List Tok} {items : Items} {r : List Tok},
    parseItems n ts = .ok (items, r) → ts = items.toks ++ r := by
  intro n
  induction n with
  | zero => intro ts items r h; simp [parseItems] at h
  | succ n ih =>
    intro ts items r h
    unfold parseItems at h
    split at h
    · -- none
      simp only [Except.ok.injEq, Prod.mk.injEq] at h
      obtain ⟨rfl, rfl⟩ := h
      simp [Items.toks]
    · -- rule
      split at h
      · simp at h
      · rename_i rl ts' hr
        split at h
        · simp at h
        · rename_i rest ts'' hrec
          simp only [Except.ok.injEq, Prod.mk.injEq] at h
          obtain ⟨rfl, rfl⟩ := h
          simp [Items.toks, parseRule_sound hr, ih hrec]
    · -- decl
      rename_i k hk
      obtain ⟨r0, rfl⟩ := itemKind_decl hk
      split at h
      · simp at h
      · rename_i d ts' hd
        split at h
        · simp at h
        · rename_i rest ts'' hrec
          simp only [Except.ok.injEq, Prod.mk.injEq] at h
          obtain ⟨rfl, rfl⟩ := h
          simp only [List.drop_succ_cons, List.drop_zero] at hd
          obtain ⟨hkey, hts⟩ := parseDeclBody_sound hd
          simp [Items.toks, CDecl.toks, hkey, hts, ih hrec]
    · -- lit
      rename_i l hl
      obtain ⟨r0, rfl⟩ := itemKind_lit hl
      split at h
      · simp at h
      · rename_i rest ts'' hrec
        simp only [Except.ok.injEq, Prod.mk.injEq] at h
        obtain ⟨rfl, rfl⟩ := h
        simp only [List.drop_succ_cons, List.drop_zero] at hrec
        simp [Items.toks, ih hrec]
    · -- sec
      rename_i name hs
      obtain ⟨r0, rfl⟩ := itemKind_sec hs
      split at h
      · simp at h
      · rename_i body ts' hb
        simp only [List.drop_succ_cons, List.drop_zero] at hb
        split at h
        · rename_i ts''
          split at h
          · simp at h
          · rename_i rest ts3 hrec
            simp only [Except.ok.injEq, Prod.mk.injEq] at h
            obtain ⟨rfl, rfl⟩ := h
            simp [Items.toks, ih hb, ih hrec]
        · simp at h

theorem parseProg_sound : ∀ (n : Nat) {ts : List Tok} {p : Prog},
    parseProg n ts = .ok p → ts = progToks p := by
  intro n
  induction n with
  | zero => intro ts p h; simp [parseProg] at h
  | succ n ih =>
    intro ts p h
    unfold parseProg at h
    split at h
    · simp only [Except.ok.injEq] at h
      subst h; simp [progToks]
    · rename_i name r
      split at h
      · simp at h
      · rename_i body r' hb
        split at h
        · rename_i r''
          split at h
          · simp at h
          · rename_i ps hrec
            simp only [Except.ok.injEq] at h
            subst h
            simp [progToks, parseItems_sound n hb, ih hrec]
        · simp at h
    · simp at h


/-! ## completeness -/

/-- the next token cannot continue a literal list, a function chain, an annotation-less
declaration, a bare outbound or a literal item -/
def okNext : List Tok → Bool
  | .lparen :: _ | .colon :: _ | .lbrace :: _ | .comma :: _ | .lbrack :: _ | .andand :: _ => false
  | _ => true

def notColon : List Tok → Bool
  | .colon :: _ => false
  | _ => true

def notComma : List Tok → Bool
  | .comma :: _ => false
  | _ => true

theorem CParam.toks_length_pos (p : CParam) : 1 ≤ p.toks.length := by
  unfold CParam.toks; split <;> simp

theorem parseParam_complete (p : CParam) (r : List Tok) (hr : notColon r = true) :
    parseParam (p.toks ++ r) = .ok (p, r) := by
  obtain ⟨key, v⟩ := p
  cases key with
  | some k => simp [CParam.toks, parseParam]
  | none =>
    cases v with
    | nonId s => simp [CParam.toks, Lit.tok, parseParam, litOfTok]
    | quote q s => simp [CParam.toks, Lit.tok, parseParam, litOfTok]
    | id s =>
      rcases r with _ | ⟨t, r'⟩
      · simp [CParam.toks, Lit.tok, parseParam, litOfTok]
      · cases t <;> simp_all [CParam.toks, Lit.tok, parseParam, litOfTok, notColon]

theorem paramsTail_cons (q : CParam) (qs : List CParam) :
    paramsTail (q :: qs) = .comma :: (q.toks ++ paramsTail qs) := by
  simp [paramsTail, List.flatMap_cons]

theorem parseParams_complete : ∀ (ps : List CParam) (p : CParam) (r : List Tok) (n : Nat),
    (p.toks ++ paramsTail ps).length < n → notColon r = true → notComma r = true →
    parseParams n (p.toks ++ paramsTail ps ++ r) = .ok (p :: ps, r) := by
  intro ps
  induction ps with
  | nil =>
    intro p r n hn hc hm
    cases n with
    | zero => simp at hn
    | succ n =>
      unfold parseParams
      simp only [paramsTail, List.flatMap_nil, List.append_nil]
      rw [parseParam_complete p r hc]
      rcases r with _ | ⟨t, r'⟩
      · rfl
      · cases t <;> simp_all [notComma]
  | cons q qs ih =>
    intro p r n hn hc hm
    cases n with
    | zero => simp at hn
    | succ n =>
      unfold parseParams
      rw [paramsTail_cons, List.append_assoc, parseParam_complete p _ (by simp [notColon])]
      simp only [List.cons_append, List.append_assoc]
      have hlen : (q.toks ++ paramsTail qs).length < n := by
        have := CParam.toks_length_pos p
        simp [paramsTail_cons] at hn ⊢; omega
      have := ih q r n hlen hc hm
      simp only [List.append_assoc] at this
      rw [this]

theorem startsLit_param (p : CParam) (r : List Tok) : startsLit (p.toks ++ r) = true := by
  obtain ⟨key, v⟩ := p
  cases key <;> cases v <;> simp [CParam.toks, Lit.tok, startsLit, litOfTok]

theorem parseOptParams_complete (ps : List CParam) (close : Tok) (r : List Tok) (n : Nat)
    (hn : (paramsToks ps).length < n) (hclose : close = .rparen ∨ close = .rbrack) :
    parseOptParams n close (paramsToks ps ++ close :: r) = .ok (ps, r) := by
  unfold parseOptParams
  cases ps with
  | nil =>
    have : startsLit (close :: r) = false := by
      rcases hclose with rfl | rfl <;> simp [startsLit, litOfTok]
    simp [paramsToks, this]
  | cons p ps =>
    simp only [paramsToks] at hn ⊢
    simp only [List.append_assoc, startsLit_param, ↓reduceIte]
    have hc : notColon (close :: r) = true := by rcases hclose with rfl | rfl <;> simp [notColon]
    have hm : notComma (close :: r) = true := by rcases hclose with rfl | rfl <;> simp [notComma]
    have := parseParams_complete ps p (close :: r) n hn hc hm
    simp only [List.append_assoc] at this
    rw [this]
    simp

theorem CFn.toks_length (f : CFn) : (paramsToks f.params).length + 3 ≤ f.toks.length := by
  unfold CFn.toks; split <;> simp <;> omega

theorem parseFn_complete (f : CFn) (r : List Tok) (n : Nat) (hn : f.toks.length ≤ n + 2) :
    parseFn n (f.toks ++ r) = .ok (f, r) := by
  have hl := f.toks_length
  obtain ⟨neg, name, params⟩ := f
  have h := parseOptParams_complete params .rparen r n (by simp only at hl; omega) (Or.inl rfl)
  cases neg
  · simp only [CFn.toks, Bool.false_eq_true, if_false, List.nil_append, List.cons_append, List.append_assoc,
      List.singleton_append]
    unfold parseFn
    simp only [h]
  · simp only [CFn.toks, if_true, List.cons_append, List.append_assoc, List.singleton_append, List.nil_append]
    unfold parseFn
    simp only [h]

theorem fnsTail_cons (f : CFn) (fs : List CFn) : fnsTail (f :: fs) = .andand :: (f.toks ++ fnsTail fs) := by
  simp [fnsTail, List.flatMap_cons]

def notAnd : List Tok → Bool
  | .andand :: _ => false
  | _ => true

theorem parseFnsTail_complete : ∀ (fs : List CFn) (r : List Tok) (n : Nat),
    (fnsTail fs).length < n → notAnd r = true →
    parseFnsTail n (fnsTail fs ++ r) = .ok (fs, r) := by
  intro fs
  induction fs with
  | nil =>
    intro r n hn hr
    cases n with
    | zero => simp at hn
    | succ n =>
      unfold parseFnsTail
      rcases r with _ | ⟨t, r'⟩
      · simp [fnsTail]
      · cases t <;> simp_all [fnsTail, notAnd]
  | cons f fs ih =>
    intro r n hn hr
    cases n with
    | zero => simp at hn
    | succ n =>
      unfold parseFnsTail
      rw [fnsTail_cons] at hn ⊢
      simp only [List.cons_append, List.append_assoc]
      have hf : f.toks.length ≤ n + 2 := by simp at hn; omega
      rw [parseFn_complete f _ n hf]
      have hlen : (fnsTail fs).length < n := by
        have := f.toks_length
        simp at hn; omega
      simp only [ih r n hlen hr]

theorem litsTail_cons (l : Lit) (ls : List Lit) : litsTail (l :: ls) = .comma :: l.tok :: litsTail ls := by
  simp [litsTail, List.flatMap_cons]

theorem parseLitsTail_complete : ∀ (ls : List Lit) (r : List Tok) (n : Nat),
    (litsTail ls).length < n → notComma r = true →
    parseLitsTail n (litsTail ls ++ r) = .ok (ls, r) := by
  intro ls
  induction ls with
  | nil =>
    intro r n hn hr
    cases n with
    | zero => simp at hn
    | succ n =>
      unfold parseLitsTail
      rcases r with _ | ⟨t, r'⟩
      · simp [litsTail]
      · cases t <;> simp_all [litsTail, notComma]
  | cons l ls ih =>
    intro r n hn hr
    cases n with
    | zero => simp at hn
    | succ n =>
      unfold parseLitsTail
      rw [litsTail_cons] at hn ⊢
      simp only [List.cons_append, litOfTok_tok]
      have hlen : (litsTail ls).length < n := by simp at hn; omega
      simp only [ih r n hlen hr]

def notLbrack : List Tok → Bool
  | .lbrack :: _ => false
  | _ => true

theorem parseAnn_complete (a : Option (List CParam)) (r : List Tok) (n : Nat)
    (hn : (annToks a).length < n + 2) (hr : notLbrack r = true) :
    parseAnn n (annToks a ++ r) = .ok (a, r) := by
  cases a with
  | none =>
    unfold parseAnn
    rcases r with _ | ⟨t, r'⟩
    · simp [annToks]
    · cases t <;> simp_all [annToks, notLbrack]
  | some ps =>
    have : (paramsToks ps).length < n := by simp [annToks] at hn; omega
    simp only [annToks, List.cons_append, List.append_assoc, List.nil_append, parseAnn,
      parseOptParams_complete ps .rbrack r n this (Or.inr rfl)]

theorem okNext_notAnd {r : List Tok} (h : okNext r = true) : notAnd r = true := by
  rcases r with _ | ⟨t, r'⟩
  · rfl
  · cases t <;> simp_all [okNext, notAnd]

theorem okNext_notComma {r : List Tok} (h : okNext r = true) : notComma r = true := by
  rcases r with _ | ⟨t, r'⟩
  · rfl
  · cases t <;> simp_all [okNext, notComma]

theorem okNext_notLbrack {r : List Tok} (h : okNext r = true) : notLbrack r = true := by
  rcases r with _ | ⟨t, r'⟩
  · rfl
  · cases t <;> simp_all [okNext, notLbrack]

theorem startsFn_fn (f : CFn) (r : List Tok) : startsFn (f.toks ++ r) = true := by
  obtain ⟨neg, name, params⟩ := f
  cases neg <;> simp [CFn.toks, startsFn]

theorem annToks_append_notAnd (a : Option (List CParam)) {r : List Tok} (h : okNext r = true) :
    notAnd (annToks a ++ r) = true := by
  cases a with
  | none => simpa [annToks] using okNext_notAnd h
  | some ps => simp [annToks, notAnd]

theorem annToks_append_notComma (a : Option (List CParam)) {r : List Tok} (h : okNext r = true) :
    notComma (annToks a ++ r) = true := by
  cases a with
  | none => simpa [annToks] using okNext_notComma h
  | some ps => simp [annToks, notComma]

/-- a literal followed by a literal tail, an annotation and an admissible context never looks
like the start of a function prototype -/
theorem startsFn_lits (a : Lit) (ls : List Lit) (ann : Option (List CParam)) {r : List Tok}
    (h : okNext r = true) : startsFn (a.tok :: (litsTail ls ++ (annToks ann ++ r))) = false := by
  cases a with
  | nonId s => simp [Lit.tok, startsFn]
  | quote q s => simp [Lit.tok, startsFn]
  | id s =>
    cases ls with
    | cons l ls => simp [Lit.tok, startsFn, litsTail_cons]
    | nil =>
      cases ann with
      | some ps => simp [Lit.tok, startsFn, litsTail, annToks]
      | none =>
        rcases r with _ | ⟨t, r'⟩
        · simp [Lit.tok, startsFn, litsTail, annToks]
        · cases t <;> simp_all [Lit.tok, startsFn, litsTail, annToks, okNext]

theorem parseDeclBody_complete (d : CDecl) (r : List Tok) (n : Nat)
    (hn : (d.val.toks ++ annToks d.ann).length ≤ n) (hr : okNext r = true) :
    parseDeclBody n d.key (d.val.toks ++ annToks d.ann ++ r) = .ok (d, r) := by
  obtain ⟨key, val, ann⟩ := d
  unfold parseDeclBody
  cases val with
  | fns f fs =>
    simp only [CVal.toks, fnsToks, List.append_assoc] at hn ⊢
    simp only [startsFn_fn, ↓reduceIte]
    have hl := f.toks_length
    have h1 : f.toks.length ≤ n + 2 := by simp at hn; omega
    rw [parseFn_complete f _ n h1]
    have h2 : (fnsTail fs).length < n := by simp at hn; omega
    simp only [parseFnsTail_complete fs _ n h2 (annToks_append_notAnd ann hr)]
    have h3 : (annToks ann).length < n + 2 := by simp at hn; omega
    simp only [parseAnn_complete ann r n h3 (okNext_notLbrack hr)]
  | lits a ls =>
    simp only [CVal.toks, litsToks, List.append_assoc, List.cons_append] at hn ⊢
    simp only [startsFn_lits a ls ann hr, Bool.false_eq_true, ↓reduceIte, litOfTok_tok]
    have h2 : (litsTail ls).length < n := by simp at hn; omega
    simp only [parseLitsTail_complete ls _ n h2 (annToks_append_notComma ann hr)]
    have h3 : (annToks ann).length < n + 2 := by simp at hn; omega
    simp only [parseAnn_complete ann r n h3 (okNext_notLbrack hr)]

theorem parseOut_complete (o : COut) (r : List Tok) (n : Nat) (hn : o.toks.length ≤ n + 2)
    (hr : okNext r = true) : parseOut n (o.toks ++ r) = .ok (o, r) := by
  unfold parseOut
  cases o with
  | fn f =>
    simp only [COut.toks] at hn ⊢
    simp only [startsFn_fn, ↓reduceIte, parseFn_complete f r n hn]
  | nonId s => simp [COut.toks, startsFn]
  | id s =>
    rcases r with _ | ⟨t, r'⟩
    · simp [COut.toks, startsFn]
    · cases t <;> simp_all [COut.toks, startsFn, okNext]

theorem parseRule_complete (rl : CRule) (r : List Tok) (n : Nat) (hn : rl.toks.length ≤ n)
    (hr : okNext r = true) : parseRule n (rl.toks ++ r) = .ok (rl, r) := by
  obtain ⟨f, fs, o⟩ := rl
  unfold parseRule
  simp only [CRule.toks, fnsToks, List.append_assoc, List.cons_append] at hn ⊢
  have hl := f.toks_length
  have h1 : f.toks.length ≤ n + 2 := by simp at hn; omega
  rw [parseFn_complete f _ n h1]
  have h2 : (fnsTail fs).length < n := by simp at hn; omega
  simp only [parseFnsTail_complete fs (.arrow :: (o.toks ++ r)) n h2 (by simp [notAnd])]
  have h3 : o.toks.length ≤ n + 2 := by simp at hn; omega
  simp only [parseOut_complete o r n h3 hr]

/-- what may follow a list of items: end of input or the closing brace -/
def closes : List Tok → Bool
  | [] => true
  | .rbrace :: _ => true
  | _ => false

theorem closes_itemKind {R : List Tok} (h : closes R = true) : itemKind R = .none := by
  rcases R with _ | ⟨t, r'⟩
  · rfl
  · cases t <;> simp_all [closes, itemKind]

theorem closes_okNext {R : List Tok} (h : closes R = true) : okNext R = true := by
  rcases R with _ | ⟨t, r'⟩
  · rfl
  · cases t <;> simp_all [closes, okNext]

theorem okNext_fn (f : CFn) (r : List Tok) : okNext (f.toks ++ r) = true := by
  obtain ⟨neg, name, params⟩ := f
  cases neg <;> simp [CFn.toks, okNext]

theorem okNext_items (items : Items) {R : List Tok} (h : closes R = true) :
    okNext (items.toks ++ R) = true := by
  cases items with
  | nil => simpa [Items.toks] using closes_okNext h
  | rule r rest =>
    obtain ⟨f, fs, o⟩ := r
    simp only [Items.toks, CRule.toks, fnsToks, List.append_assoc]
    exact okNext_fn f _
  | decl d rest => simp [Items.toks, CDecl.toks, okNext]
  | lit l rest => cases l <;> simp [Items.toks, Lit.tok, okNext]
  | sec n body rest => simp [Items.toks, okNext]

theorem itemKind_rule (rl : CRule) (r : List Tok) : itemKind (rl.toks ++ r) = .rule := by
  obtain ⟨⟨neg, name, params⟩, fs, o⟩ := rl
  cases neg <;> simp [CRule.toks, fnsToks, CFn.toks, itemKind]

theorem itemKind_litTok (l : Lit) {r : List Tok} (h : okNext r = true) :
    itemKind (l.tok :: r) = .lit l := by
  cases l with
  | nonId s => simp [Lit.tok, itemKind]
  | quote q s => simp [Lit.tok, itemKind]
  | id s =>
    rcases r with _ | ⟨t, r'⟩
    · simp [Lit.tok, itemKind]
    · cases t <;> simp_all [Lit.tok, itemKind, okNext]

theorem CRule.toks_length_pos (r : CRule) : 1 ≤ r.toks.length := by
  have := r.first.toks_length
  simp [CRule.toks, fnsToks]; omega

theorem parseItems_complete : ∀ (items : Items) (R : List Tok) (n : Nat),
    items.toks.length < n → closes R = true →
    parseItems n (items.toks ++ R) = .ok (items, R) := by
  intro items
  induction items with
  | nil =>
    intro R n hn hR
    cases n with
    | zero => simp at hn
    | succ n =>
      unfold parseItems
      simp [Items.toks, closes_itemKind hR]
  | rule rl rest ih =>
    intro R n hn hR
    cases n with
    | zero => simp at hn
    | succ n =>
      unfold parseItems
      simp only [Items.toks, List.append_assoc] at hn ⊢
      rw [itemKind_rule]
      have hpos := rl.toks_length_pos
      have h1 : rl.toks.length ≤ n := by simp at hn; omega
      simp only [parseRule_complete rl _ n h1 (okNext_items rest hR)]
      have h2 : rest.toks.length < n := by simp at hn; omega
      simp only [ih R n h2 hR]
  | decl d rest ih =>
    intro R n hn hR
    cases n with
    | zero => simp at hn
    | succ n =>
      unfold parseItems
      simp only [Items.toks, CDecl.toks, List.append_assoc, List.cons_append] at hn ⊢
      simp only [itemKind, List.drop_succ_cons, List.drop_zero]
      have h1 : (d.val.toks ++ annToks d.ann).length ≤ n := by simp at hn ⊢; omega
      have := parseDeclBody_complete d (rest.toks ++ R) n h1 (okNext_items rest hR)
      simp only [List.append_assoc] at this
      simp only [this]
      have h2 : rest.toks.length < n := by simp at hn; omega
      simp only [ih R n h2 hR]
  | lit l rest ih =>
    intro R n hn hR
    cases n with
    | zero => simp at hn
    | succ n =>
      unfold parseItems
      simp only [Items.toks, List.cons_append] at hn ⊢
      rw [itemKind_litTok l (okNext_items rest hR)]
      simp only [List.drop_succ_cons, List.drop_zero]
      have h2 : rest.toks.length < n := by simp at hn; omega
      simp only [ih R n h2 hR]
  | sec name body rest ihb ihr =>
    intro R n hn hR
    cases n with
    | zero => simp at hn
    | succ n =>
      unfold parseItems
      simp only [Items.toks, List.append_assoc, List.cons_append] at hn ⊢
      simp only [itemKind, List.drop_succ_cons, List.drop_zero]
      have h1 : body.toks.length < n := by simp at hn; omega
      simp only [ihb (.rbrace :: (rest.toks ++ R)) n h1 (by simp [closes])]
      have h2 : rest.toks.length < n := by simp at hn; omega
      simp only [ihr R n h2 hR]

theorem parseProg_complete : ∀ (p : Prog) (n : Nat), (progToks p).length < n →
    parseProg n (progToks p) = .ok p := by
  intro p
  induction p with
  | nil =>
    intro n hn
    cases n with
    | zero => simp at hn
    | succ n => simp [parseProg, progToks]
  | cons s ps ih =>
    intro n hn
    obtain ⟨name, body⟩ := s
    cases n with
    | zero => simp at hn
    | succ n =>
      unfold parseProg
      simp only [progToks] at hn ⊢
      have h1 : body.toks.length < n := by simp at hn; omega
      simp only [parseItems_complete body (.rbrace :: progToks ps) n h1 (by simp [closes])]
      have h2 : (progToks ps).length < n := by simp at hn; omega
      simp only [ih n h2]

/-- **Token level, both directions.** -/
theorem parseToks_complete (p : Prog) : parseToks (progToks p) = .ok p :=
  parseProg_complete p _ (Nat.lt_succ_self _)

theorem parseToks_sound {ts : List Tok} {p : Prog} (h : parseToks ts = .ok p) : progToks p = ts :=
  (parseProg_sound _ h).symm

end DaeVerif.C17
