import DaeVerif.C17.Model
import DaeVerif.C17.Pipeline
import DaeVerif.Common.Proto
/-! Line-protocol driver for C17 (op grammar: see harness/overlay/pkg/config_parser/c17_test.go). -/
open DaeVerif DaeVerif.C17 DaeVerif.Proto

namespace C17Drv

def escByte (b : UInt8) : String :=
  let n := b.toNat
  if (48 ≤ n ∧ n ≤ 57) ∨ (65 ≤ n ∧ n ≤ 90) ∨ (97 ≤ n ∧ n ≤ 122) ∨ n = 95 ∨ n = 46 ∨ n = 45 ∨ n = 47 then
    String.singleton (Char.ofNat n)
  else "%" ++ String.ofList [nibble (n / 16), nibble (n % 16)]

def esc (cs : List Char) : String :=
  (String.ofList cs).toUTF8.toList.foldl (fun acc b => acc ++ escByte b) ""

def kvStr (p : KV) : String := esc p.key ++ "=" ++ esc p.val
def kvsStr (ps : List KV) : String := ",".intercalate (ps.map kvStr)
def fnStr (f : Fn) : String := (if f.neg then "!" else "") ++ esc f.name ++ "(" ++ kvsStr f.params ++ ")"
def fnsStr (fs : List Fn) : String := "&".intercalate (fs.map fnStr)
def annStr (a : List KV) : String := if a.isEmpty then "" else "[" ++ kvsStr a ++ "]"

mutual
def itemStr : AItem → String
  | .rule fs o => "R(" ++ fnsStr fs ++ ">" ++ fnStr o ++ ")"
  | .str k v a => "V(" ++ esc k ++ "=" ++ esc v ++ ")" ++ annStr a
  | .fns k fs a => "F(" ++ esc k ++ ":" ++ fnsStr fs ++ ")" ++ annStr a
  | .sec n items => "S(" ++ esc n ++ "){" ++ itemsStr items ++ "}"
def itemsStr : List AItem → String
  | [] => ""
  | x :: xs => itemStr x ++ ";" ++ itemsStr xs
end

def secsStr (ss : List ASection) : String :=
  "".intercalate (ss.map fun s => "S(" ++ esc s.name ++ "){" ++ itemsStr s.items ++ "}")


def decodeText (hex : String) : Option (List Char) := do
  let bs ← hexToBytes? hex
  let s ← String.fromUTF8? (ByteArray.mk (bs.map UInt8.ofNat).toArray)
  pure s.toList


/-! ### decoding of op words -/

def unhex (w : String) : Option (List Char) := if w = "-" then some [] else decodeText w

/-- cursor-style parsing over the words of an op line -/
abbrev P := StateT (List String) Option

def word : P String := fun ws => match ws with | w :: r => some (w, r) | [] => none
def nat : P Nat := do let w ← word; match w.toNat? with | some n => pure n | none => failure
def int : P Int := do let w ← word; match w.toInt? with | some n => pure n | none => failure
def hexs : P (List Char) := do let w ← word; match unhex w with | some s => pure s | none => failure
def flag : P Bool := do let w ← word; pure (w = "1")
def expect (x : String) : P Unit := do let w ← word; if w = x then pure () else failure
def times {α} (n : Nat) (p : P α) : P (List α) :=
  match n with
  | 0 => pure []
  | k + 1 => do let a ← p; let r ← times k p; pure (a :: r)

def kindOf (w : String) : Option FKind :=
  match w.toList with
  | 's' :: r => (String.ofList r).toNat?.map .scalar
  | ['l'] => some .strList
  | ['i'] => some .iface
  | ['f'] => some .fnLists
  | 't' :: r => (String.ofList r).toNat?.map .struct
  | 'T' :: r => (String.ofList r).toNat?.map .structList
  | _ => none

def pKind : P FKind := do let w ← word; match kindOf w with | some k => pure k | none => failure

/-- `<kind>:<valHex>:<resHex|!>` -/
def oracleEntry (w : String) : Option (Nat × List Char × Option (List Char)) :=
  match w.splitOn ":" with
  | [k, v, r] => do
    let k ← k.toNat?
    let v ← unhex v
    if r = "!" then pure (k, v, none) else do let r ← unhex r; pure (k, v, some r)
  | _ => none

def pOracle : P (List (Nat × List Char × Option (List Char))) := do
  let n ← nat
  times n (do let w ← word; match oracleEntry w with | some e => pure e | none => failure)

def pField : P Field := do
  let key ← hexs
  let kind ← pKind
  let d ← word
  let dflt ← (if d = "!" then pure none else match unhex d with | some x => pure (some x) | none => failure)
  let req ← flag
  let rep ← flag
  pure ⟨key, kind, dflt, req, rep⟩

def pStruct : P StructDef := do
  let hr ← flag
  let n ← nat
  let fs ← times n pField
  pure ⟨fs, hr⟩

def pSpec : P SectionSpec := do
  let name ← hexs
  let req ← flag
  let kind ← pKind
  pure ⟨name, req, kind⟩

def specOf (w : String) : DecSpec :=
  match w.toList with
  | ['s'] => .str
  | ['b'] => .bool
  | 'i' :: r => match (String.ofList r).toNat? with | some b => .int b | none => .oracle
  | 'u' :: r => match (String.ofList r).toNat? with | some b => .uint b | none => .oracle
  | _ => .oracle

structure SchemaInfo where
  S : Schema
  zeros : List (List Char)
  specs : List DecSpec
  oracle : List (Nat × List Char × Option (List Char))

def pSchema : P SchemaInfo := do
  expect "K"; let nk ← nat; let zs ← times nk (do let z ← hexs; let w ← word; pure (z, specOf w))
  let zeros := zs.map (·.1)
  let dspecs := zs.map (·.2)
  expect "T"; let nt ← nat; let structs ← times nt pStruct
  expect "P"; let np ← nat; let specs ← times np pSpec
  expect "O"; let oracle ← pOracle
  pure ⟨⟨structs, specs⟩, zeros, dspecs, oracle⟩

/-- the decoder the model runs with: the SPECIFICATION for strings, bools and integers (ranged to
the field's Go type), the harness's oracle answers (real function) for the rest -/
def decOf (dspecs : List DecSpec) (tbl : List (Nat × List Char × Option (List Char))) : Dec := fun k v =>
  match (if k = kindHttpMethod then some (if validHttpMethod v then some "ok".toList else none)
         else (dspecs[k]?).bind (fun sp => decodeSpec sp v)) with
  | some r => r
  | none =>
    match tbl.find? (fun e => e.1 = k ∧ e.2.1 = v) with
    | some e => e.2.2
    | none => none

/-! ### canonical print of the typed configuration -/

def ruleStr (r : List Fn × Fn) : String := fnsStr r.1 ++ ">" ++ fnStr r.2

def leafStr (_zeros : List (List Char)) : Leaf → Option String
  | .scalar _ c => some ("s:" ++ esc c)
  | .strs vs => if vs.isEmpty then none else some ("l:" ++ toString vs.length ++ ":" ++ ",".intercalate (vs.map esc))
  | .istr s => some ("i:" ++ esc s)
  | .ifns fs => some ("f:" ++ fnsStr fs)
  | .ifn f => some ("F:" ++ fnStr f)
  | .fnLists fss anns => if fss.isEmpty then none else some ("L:" ++ "|".intercalate (fss.map fnsStr) ++ "~" ++ "|".intercalate (anns.map annStr))
  | .rules rs => if rs.isEmpty then none else some ("r:" ++ "|".intercalate (rs.map ruleStr))
  | .count n => if n = 0 then none else some ("n:" ++ toString n)

def insertSorted (x : String) : List String → List String
  | [] => [x]
  | y :: ys => if x ≤ y then x :: y :: ys else y :: insertSorted x ys

def sortStrings (xs : List String) : List String := xs.foldl (fun acc x => insertSorted x acc) []

def cerrStr : CErr → String
  | .requiredSection => "requiredSection" | .unknownSection => "unknownSection" | .patch => "patch"
  | .nokey => "nokey" | .unexpectedKey => "unexpectedKey" | .convert => "convert" | .ruleCtx => "ruleCtx"
  | .requiredParam => "requiredParam" | .strlistType => "strlistType" | .unmatchedType => "unmatchedType"
  | .unsupportedSection => "unsupportedSection" | .defaultDecode => "defaultDecode" | .fuel => "fuel" | .badSchema => "badSchema"

def merrStr : MErr → String
  | .circular => "circular" | .suffix => "suffix" | .scope => "scope" | .open => "open" | .isDir => "isDir"
  | .perm => "perm" | .parse => "parse" | .includeGrammar => "includeGrammar" | .glob => "glob"
  | .statErr => "statErr" | .fuel => "fuel"

/-- scalar leaves equal to the Go zero value of a *string-typed* field are printed by neither side;
the harness omits zero values, the model omits a scalar whose canonical text is a zero text. -/
def pathStr (p : Path) : String := ".".intercalate (p.map String.ofList)

def storeStr (zeros : List (List Char)) (st : Store) : String :=
  let entries := st.filterMap fun e =>
    match e.2 with
    | .scalar k c => if zeros[k]? = some c ∧ e.1.getLast? ≠ some "#name".toList then none else some (pathStr e.1 ++ "=s:" ++ esc c)
    | l => (leafStr zeros l).map (pathStr e.1 ++ "=" ++ ·)
  ";".intercalate (sortStrings entries)

def smapStr (m : SMap) : String :=
  "".intercalate (sortStrings (m.map fun e => "S(" ++ esc e.1 ++ "){" ++ itemsStr e.2 ++ "}"))

/-! ### ops -/

/-- one entry of the described tree: a regular file / directory (`FileInfo`) or a symbolic link
(`some target`, absolute) -/
def pFile : P (List Char × Option (List Char) × FileInfo) := do
  let path ← hexs
  let kind ← word
  let perm ← nat
  let cw ← word
  -- a file that is not valid UTF-8 is rejected by Parse: represent it by a text the lexer rejects
  let content ← (match unhex cw with
    | some c => pure c
    | none => if (hexToBytes? cw).isSome then pure ['\x00'] else failure)
  if kind = "l" then pure (path, some content, ⟨false, perm, []⟩)
  else pure (path, none, ⟨kind = "d", perm, content⟩)

def pGlob : P (List Char × Option (List (List Char))) := do
  let pat ← hexs
  let k ← int
  if k < 0 then pure (pat, none) else do
    let ms ← times k.toNat hexs
    pure (pat, some ms)

abbrev Tree := List (List Char × Option (List Char) × FileInfo)

/-- the path the kernel resolves a spelling to: made absolute against the working directory,
cleaned, then resolved component by component — a symbolic link met on the way (a directory link
in the middle, a file link at the end) is replaced by its target (absolute, as the harness makes
them) and resolution goes on from there -/
def realPath (tree : Tree) (cwd : List Char) (p : List Char) : List Char :=
  let linkAt := fun (q : List Char) =>
    match tree.find? (fun e => e.1 = q) with
    | some (_, some target, _) => some (cleanPath target)
    | _ => none
  -- `walk fuel resolved remaining`
  let rec walk : Nat → List Char → List (List Char) → List Char
    | 0, cur, rest => cur ++ rest.flatMap (fun c => '/' :: c)
    | _, cur, [] => if cur.isEmpty then ['/'] else cur
    | n + 1, cur, c :: rest =>
      let next := cur ++ '/' :: c
      match linkAt next with
      | some target => walk n [] (cleanComps target ++ rest)
      | none => walk n next rest
  let abs := cleanPath (if isAbsPath p then p else cwd ++ '/' :: p)
  walk 64 [] (cleanComps abs)

/-- the file system the real Merger ran on: `stat` by resolved path (so every spelling of a file
answers), `glob` by the harness's table of real `filepath.Glob` answers -/
def fsOf (tree : Tree) (cwd : List Char) (globs : List (List Char × Option (List (List Char)))) : FS :=
  { stat := fun p =>
      match tree.find? (fun e => e.1 = realPath tree cwd p) with
      | some (_, none, fi) => some fi
      | _ => none
    glob := fun pat => match globs.find? (fun e => e.1 = pat) with
      | some e => e.2
      -- a pattern the harness did not pre-compute: answer a `.dae` path that cannot be stat-ed, so
      -- that a model-side path bug surfaces as `statErr` instead of silently matching nothing
      | none => some ["<glob-miss>.dae".toList] }

def rulesOfItems (items : List AItem) : List (List Fn × Fn) :=
  items.filterMap fun | .rule fs o => some (fs, o) | _ => none

structure St where
  K : Classes
  schema : Option SchemaInfo

def runP {α} (p : P α) (ws : List String) : Option α := (p.run ws).map (·.1)

def handle (st : St) (line : String) : St × String :=
  match words line with
  | ["classes", a, b, c, d] =>
    match hexToNat? a, hexToNat? b, hexToNat? c, hexToNat? d with
    | some a, some b, some c, some d =>
      let K := Classes.ofTable a b c d
      ({ st with K := K }, if K.wfCheck then "classes ok" else "classes NOT-WF (the probed lexer table violates Classes.WF)")
    | _, _, _, _ => (st, "bad-op")
  | ["p", hex] =>
    match decodeText hex with
    | none => (st, if (hexToBytes? hex).isSome then "err" else "bad-op")   -- not valid UTF-8: rejected (fix c17-invalid-utf8-rewritten)
    | some cs =>
      match parse st.K cs with
      | none => (st, "err")
      | some ss => (st, "ok " ++ secsStr ss)
  | ["p"] =>
    match parse st.K [] with
    | none => (st, "err")
    | some ss => (st, "ok " ++ secsStr ss)
  | "schema" :: rest =>
    match runP pSchema rest with
    | some si =>
      -- the hypotheses `hnames` / `hfnd` of `defaults_applied`: distinct section names, distinct keys
      let nodup := fun (l : List (List Char)) => l.eraseDups.length == l.length
      let ok := nodup (si.S.specs.map (·.name)) && si.S.structs.all (fun sd => nodup (sd.fields.map (·.key)))
      ({ st with schema := some si }, if ok then "schema ok" else "schema NOT-NODUP (section names or field keys repeat)")
    | none => (st, "bad-op")
  | "c" :: text :: rest =>
    if (unhex text).isNone ∧ (hexToBytes? text).isSome then (st, "err:parse") else
    match st.schema, unhex text, runP pOracle rest with
    | some si, some cs, some tbl =>
      match parse st.K cs with
      | none => (st, "err:parse")
      | some ss =>
        match configNew si.S (decOf si.specs (tbl ++ si.oracle)) 64 ss with
        | .error (e, sec) => (st, "err:" ++ cerrStr e ++ (if sec.isEmpty then "" else "@" ++ String.ofList sec))
        | .ok store => (st, "ok " ++ storeStr si.zeros store)
    | _, _, _ => (st, "bad-op")
  | ["d", k, v] =>
    -- FuzzyDecode of one value: the specification where there is one, "oracle" otherwise
    match st.schema, k.toNat?, unhex v with
    | some si, some k, some v =>
      match (if k = kindHttpMethod then some (if validHttpMethod v then some "ok".toList else none)
             else (si.specs[k]?).bind (fun sp => decodeSpec sp v)) with
      | some (some c) => (st, "ok " ++ esc c)
      | some none => (st, "err")
      | none => (st, "oracle")
    | _, _, _ => (st, "bad-op")
  | ["path", a, b] =>
    match unhex a, unhex b with
    | some a, some b =>
      (st, "clean=" ++ esc (cleanPath a) ++ " join=" ++ esc (joinPath a b) ++ " dir=" ++ esc (dirOf a)
        ++ " abs=" ++ boolStr (isAbsPath a) ++ " sub=" ++ boolStr (ensureInSubDir a b))
    | _, _ => (st, "bad-op")
  | "m" :: entry :: rest =>
    let p : P (List Char × Tree × List (List Char × Option (List (List Char)))) := do
      expect "C"; let cwd ← hexs
      expect "F"; let n ← nat; let files ← times n pFile
      expect "G"; let g ← nat; let globs ← times g pGlob
      pure (cwd, files, globs)
    match unhex entry, runP p rest with
    | some entry, some (cwd, tree, globs) =>
      -- regular files handed to os.Open, by resolved path (the harness observes the real opens with
      -- inotify, which reports the real file and which it filters to non-directories)
      let openedStr := fun (ms : MState) =>
        " opened=" ++ ",".intercalate (sortStrings ((((ms.opened.map (realPath tree cwd)).eraseDups).filter fun p =>
          match tree.find? (fun e => e.1 = p) with | some e => !e.2.2.isDir | none => true).map esc))
      -- fuel: the closed universe of `merge_terminates` is the entry plus every glob answer
      let fuel := (globs.map fun e => match e.2 with | some l => l.length | none => 0).sum + 3
      match merge st.K (fsOf tree cwd globs) fuel entry with
      | (ms, .error e) => (st, "err:" ++ merrStr e ++ openedStr ms)
      | (ms, .ok m) =>
        (st, "ok " ++ smapStr m ++ " entries=" ++ ",".intercalate (sortStrings (ms.visited.map esc)) ++ openedStr ms)
    | _, _ => (st, "bad-op")
  | "r" :: entry :: rest =>
    -- cmd.readConfig = Merger.Merge ; config.New on a described tree
    let p : P (List Char × Tree × List (List Char × Option (List (List Char))) × List (Nat × List Char × Option (List Char))) := do
      expect "C"; let cwd ← hexs
      expect "F"; let n ← nat; let files ← times n pFile
      expect "G"; let g ← nat; let globs ← times g pGlob
      expect "O"; let tbl ← pOracle
      pure (cwd, files, globs, tbl)
    match st.schema, unhex entry, runP p rest with
    | some si, some entry, some (cwd, tree, globs, tbl) =>
      let fuel := (globs.map fun e => match e.2 with | some l => l.length | none => 0).sum + 3
      match readConfig st.K (fsOf tree cwd globs) si.S (decOf si.specs (tbl ++ si.oracle)) fuel 64 entry with
      | .error (.merge e) => (st, "err:merge:" ++ merrStr e)
      | .error (.new e sec) => (st, "err:" ++ cerrStr e ++ (if sec.isEmpty then "" else "@" ++ String.ofList sec))
      | .ok store => (st, "ok " ++ storeStr si.zeros store)
    | _, _, _ => (st, "bad-op")
  | ["do", e] =>
    -- a value of a kind the model does not specify: the answer of the standard library, as given
    match oracleEntry e with
    | some (_, _, some r) => (st, "ok " ++ esc r)
    | some (_, _, none) => (st, "err")
    | none => (st, "bad-op")
  | ["z", which, maxLen, text] =>
    match maxLen.toNat?, unhex text with
    | some maxLen, some cs =>
      match parse st.K cs with
      | none => (st, "err:parse")
      | some ss =>
        let rules := rulesOfItems (ss.flatMap (·.items))
        let emit := if which = "r" then routingEmit else if which = "q" then dnsRequestEmit else dnsResponseEmit
        match compileSize emit (which = "r") maxLen rules with
        | .ok n => (st, if which = "r" then "ok sets=" ++ toString n else "ok")
        | .error .oversize => (st, "err:oversize")
        | .error .unknownFunction => (st, "err:unknownFunction")
        | .error .noParams => (st, "err:noParams")
    | _, _ => (st, "bad-op")
  | ["y", which, maxLen, text] =>
    -- the production path: config text → rules as config.New hands them on → optimizers → lowering
    match maxLen.toNat?, unhex text with
    | some maxLen, some cs =>
      match parse st.K cs with
      | none => (st, "err:parse")
      | some ss =>
        let rules := if which = "r" then routingRulesOf ss else dnsResponseRulesOf ss
        if usesGeodata rules then (st, "geodata-parameters-are-not-modelled") else
        match (if which = "r" then compileRouting maxLen rules else compileDnsResponse maxLen rules) with
        | .ok n => (st, if which = "r" then "ok sets=" ++ toString n else "ok")
        | .error .oversize => (st, "err:oversize")
        | .error .unknownFunction => (st, "err:unknownFunction")
        | .error .noParams => (st, "err:noParams")
    | _, _ => (st, "bad-op")
  | ["e", _] => (st, "same")
  | ["k", _, _] => (st, "done")
  | ["n", _] => (st, "done")
  | ["n"] => (st, "done")
  | _ => (st, "bad-op")

end C17Drv

def main : IO Unit :=
  lineLoopS (⟨⟨fun _ => false, fun _ => false, fun _ => false, fun _ => false⟩, none⟩ : C17Drv.St) C17Drv.handle
