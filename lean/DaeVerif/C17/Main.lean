import DaeVerif.C17.Model
import DaeVerif.Common.Proto
/-! Line-protocol driver for C17 (op grammar: see harness/overlay/pkg/config_parser/c17_test.go). -/
open DaeVerif DaeVerif.C17 DaeVerif.Proto

namespace C17Drv

def escByte (b : UInt8) : String :=
  let n := b.toNat
  if (48 ≤ n ∧ n ≤ 57) ∨ (65 ≤ n ∧ n ≤ 90) ∨ (97 ≤ n ∧ n ≤ 122) ∨ n = 95 ∨ n = 46 ∨ n = 45 ∨ n = 47 then
    String.singleton (Char.ofNat n)
  else "%" ++ String.ofList [nibble (n / 16), nibble (n % 16)]

def esc (cs : List Char) : String :=
  (String.ofList cs).toUTF8.toList.foldl (fun acc b => acc ++ escByte b) ""

def kvStr (p : KV) : String := esc p.key ++ "=" ++ esc p.val
def kvsStr (ps : List KV) : String := ",".intercalate (ps.map kvStr)
def fnStr (f : Fn) : String := (if f.neg then "!" else "") ++ esc f.name ++ "(" ++ kvsStr f.params ++ ")"
def fnsStr (fs : List Fn) : String := "&".intercalate (fs.map fnStr)
def annStr (a : List KV) : String := if a.isEmpty then "" else "[" ++ kvsStr a ++ "]"

mutual
def itemStr : AItem → String
  | .rule fs o => "R(" ++ fnsStr fs ++ ">" ++ fnStr o ++ ")"
  | .str k v a => "V(" ++ esc k ++ "=" ++ esc v ++ ")" ++ annStr a
  | .fns k fs a => "F(" ++ esc k ++ ":" ++ fnsStr fs ++ ")" ++ annStr a
  | .sec n items => "S(" ++ esc n ++ "){" ++ itemsStr items ++ "}"
def itemsStr : List AItem → String
  | [] => ""
  | x :: xs => itemStr x ++ ";" ++ itemsStr xs
end

def secsStr (ss : List ASection) : String :=
  "".intercalate (ss.map fun s => "S(" ++ esc s.name ++ "){" ++ itemsStr s.items ++ "}")

def bitClass (bm : Nat) (c : Char) : Bool := c.toNat < 128 && bm.testBit c.toNat

def classesOfTable (a b c d : Nat) : Classes := ⟨bitClass a, bitClass b, bitClass c, bitClass d⟩

def decodeText (hex : String) : Option (List Char) := do
  let bs ← hexToBytes? hex
  let s ← String.fromUTF8? (ByteArray.mk (bs.map UInt8.ofNat).toArray)
  pure s.toList

structure St where
  K : Classes

def handle (st : St) (line : String) : St × String :=
  match words line with
  | ["classes", a, b, c, d] =>
    match hexToNat? a, hexToNat? b, hexToNat? c, hexToNat? d with
    | some a, some b, some c, some d => (⟨classesOfTable a b c d⟩, "classes ok")
    | _, _, _, _ => (st, "bad-op")
  | ["p", hex] =>
    match decodeText hex with
    | none => (st, "bad-op")
    | some cs =>
      match parse st.K cs with
      | none => (st, "err")
      | some ss => (st, "ok " ++ secsStr ss)
  | ["p"] =>
    match parse st.K [] with
    | none => (st, "err")
    | some ss => (st, "ok " ++ secsStr ss)
  | ["lex", hex] =>
    match decodeText hex with
    | none => (st, "bad-op")
    | some cs =>
      match lex st.K cs with
      | none => (st, "err")
      | some ts => (st, "ok " ++ toString ts.length)
  | _ => (st, "bad-op")

end C17Drv

def main : IO Unit :=
  lineLoopS (⟨⟨fun _ => false, fun _ => false, fun _ => false, fun _ => false⟩⟩ : C17Drv.St) C17Drv.handle
