import DaeVerif.C17.Model
/-! # C17 — include merging: order, no file twice, confinement of what is opened -/
namespace DaeVerif.C17

/-! ## section maps -/

theorem SMap.get_append (m : SMap) (k : List Char) (v : List AItem) (name : List Char) :
    (m.append k v).get name = if k = name then m.get name ++ v else m.get name := by
  unfold SMap.append SMap.get
  by_cases hany : m.any (fun e => e.1 = k) = true
  · simp only [hany, if_true]
    rw [List.find?_map]
    have hcomp : ((fun e : List Char × List AItem => decide (e.1 = name)) ∘
        (fun e : List Char × List AItem => if e.1 = k then (e.1, e.2 ++ v) else e)) =
        (fun e => decide (e.1 = name)) := by
      funext e
      simp only [Function.comp]
      split <;> rfl
    rw [hcomp]
    cases hfind : m.find? (fun e => decide (e.1 = name)) with
    | none =>
      have hne : ¬ k = name := by
        rintro rfl
        obtain ⟨x, hx, hxk⟩ := List.any_eq_true.mp hany
        have := List.find?_eq_none.mp hfind x hx
        simp at hxk
        simp [hxk] at this
      simp [hne]
    | some e =>
      have he : e.1 = name := by simpa using List.find?_some hfind
      by_cases hek : e.1 = k
      · have : k = name := hek ▸ he
        simp [hek, this]
      · have : ¬ k = name := by rintro rfl; exact hek he
        simp [hek, this]
  · simp only [hany, Bool.false_eq_true, if_false]
    rw [List.find?_append]
    cases hfind : m.find? (fun e => decide (e.1 = name)) with
    | none =>
      by_cases hk : k = name <;> simp [hk]
    | some e =>
      have he : e.1 = name := by simpa using List.find?_some hfind
      have hmem := List.mem_of_find?_eq_some hfind
      have hne : ¬ k = name := by
        rintro rfl
        apply hany
        exact List.any_eq_true.mpr ⟨e, hmem, by simp [he]⟩
      simp [hne]

/-- all items filed under `name`, in order -/
def SMap.getAll (m : SMap) (name : List Char) : List AItem :=
  (m.filter (fun e => e.1 = name)).flatMap (·.2)

/-- merging a child into its father appends, section by section, after what is there -/
theorem mergeInto_get (child : SMap) : ∀ (father : SMap) (name : List Char),
    (mergeInto father child).get name = father.get name ++ child.getAll name := by
  unfold mergeInto SMap.getAll
  induction child with
  | nil => intro f name; simp
  | cons e c ih =>
    intro f name
    simp only [List.foldl_cons]
    rw [ih, SMap.get_append]
    by_cases he : e.1 = name <;> simp [he, List.filter_cons, List.flatMap_cons]

/-! ## what `readEntry` does to the state -/

/-- a path that passed the checks made before `os.Open` -/
def Confined (entryDir p : List Char) : Prop :=
  hasSuffixC p ".dae".toList = true ∧ ensureInSubDir p entryDir = true

theorem readEntry_opened (K : Classes) (fs : FS) (dir : List Char) (st : MState) (entry : List Char) :
    ∀ p ∈ (readEntry K fs dir st entry).1.opened, p ∈ st.opened ∨ Confined dir p := by
  intro p hp
  unfold readEntry at hp
  split at hp
  · exact Or.inl hp
  · split at hp
    · exact Or.inl hp
    · rename_i hsuf
      split at hp
      · exact Or.inl hp
      · rename_i hsub
        have hc : Confined dir entry := by
          simp only [Bool.not_eq_true, Bool.not_eq_eq_eq_not, Bool.not_true, Bool.not_false] at hsuf hsub
          exact ⟨by simpa using hsuf, by simpa using hsub⟩
        split at hp
        · exact Or.inl hp
        · have key : ∀ q, q ∈ st.opened ++ [entry] → q ∈ st.opened ∨ Confined dir q := by
            intro q hq
            rcases List.mem_append.mp hq with h | h
            · exact Or.inl h
            · simp only [List.mem_singleton] at h; subst h; exact Or.inr hc
          split at hp
          · exact key p hp
          · split at hp
            · exact key p hp
            · split at hp
              · exact key p hp
              · exact key p hp

theorem readEntry_visited (K : Classes) (fs : FS) (dir : List Char) (st : MState) (entry : List Char) :
    (readEntry K fs dir st entry).1.visited = st.visited ∨
      ((readEntry K fs dir st entry).1.visited = st.visited ++ [entry] ∧ entry ∉ st.visited) := by
  unfold readEntry
  split
  · exact Or.inl rfl
  · rename_i hnv
    split
    · exact Or.inl rfl
    · split
      · exact Or.inl rfl
      · split
        · exact Or.inl rfl
        · split
          · exact Or.inl rfl
          · split
            · exact Or.inl rfl
            · split
              · exact Or.inl rfl
              · refine Or.inr ⟨rfl, ?_⟩
                simpa using hnv

/-- **Circular includes.** A file that is already in the visited set is rejected before anything
is opened. -/
theorem readEntry_circular (K : Classes) (fs : FS) (dir : List Char) (st : MState) (entry : List Char)
    (h : entry ∈ st.visited) : readEntry K fs dir st entry = (st, .error .circular) := by
  unfold readEntry
  simp [h]

/-! ## invariants of the depth-first merge -/

section
variable (K : Classes) (fs : FS) (dir : List Char)

/-- generic lifting: an invariant of the state that `readEntry` preserves is preserved by the
children loop if it is preserved by the recursive call -/
theorem dfsChildren_inv (I : MState → MState → Prop) (hrefl : ∀ s, I s s)
    (htrans : ∀ a b c, I a b → I b c → I a c) (n : Nat)
    (hP : ∀ st entry, I st (dfsMerge K fs dir n st entry).1) :
    ∀ (cs : List (List Char)) (st : MState) (acc : SMap), I st (dfsChildren K fs dir n st acc cs).1 := by
  intro cs
  induction cs with
  | nil => intro st acc; simp only [dfsChildren]; exact hrefl st
  | cons c cs ih =>
    intro st acc
    have h1 := hP st c
    rw [dfsChildren]
    split
    · rename_i st' e heq
      rw [heq] at h1; exact h1
    · rename_i st' m heq
      rw [heq] at h1
      exact htrans _ _ _ h1 (ih st' _)

theorem dfsMerge_inv (I : MState → MState → Prop) (hrefl : ∀ s, I s s)
    (htrans : ∀ a b c, I a b → I b c → I a c)
    (hread : ∀ st entry, I st (readEntry K fs dir st entry).1) :
    ∀ (n : Nat) (st : MState) (entry : List Char), I st (dfsMerge K fs dir n st entry).1 := by
  intro n
  induction n with
  | zero => intro st entry; simp only [dfsMerge]; exact hrefl st
  | succ n ih =>
    intro st entry
    have h1 := hread st entry
    rw [dfsMerge]
    split
    · rename_i st1 e heq
      rw [heq] at h1; exact h1
    · rename_i st1 own heq
      rw [heq] at h1
      split
      · exact h1
      · split
        · exact h1
        · exact htrans _ _ _ h1 (dfsChildren_inv K fs dir I hrefl htrans n ih _ st1 own)

/-- **Confinement.** Whatever the include graph, and whether or not the merge succeeds, every
file handed to `os.Open` ends in `.dae` and passed `EnsureFileInSubDir` against the entry
directory. -/
theorem dfsMerge_opened_confined (n : Nat) (st : MState) (entry : List Char) :
    ∀ p ∈ (dfsMerge K fs dir n st entry).1.opened, p ∈ st.opened ∨ Confined dir p := by
  refine dfsMerge_inv K fs dir (fun a b => ∀ p ∈ b.opened, p ∈ a.opened ∨ Confined dir p)
    (fun s p hp => Or.inl hp) ?_ (fun st entry => readEntry_opened K fs dir st entry) n st entry
  intro a b c hab hbc p hp
  rcases hbc p hp with h | h
  · exact hab p h
  · exact Or.inr h

/-- **No file twice.** The visited list never contains a path twice, so an include cycle can
never be completed (its closing edge hits `readEntry_circular`). -/
theorem dfsMerge_visited_nodup (n : Nat) (st : MState) (entry : List Char) (h : st.visited.Nodup) :
    (dfsMerge K fs dir n st entry).1.visited.Nodup := by
  have := dfsMerge_inv K fs dir (fun a b => a.visited.Nodup → b.visited.Nodup)
    (fun s h => h) (fun a b c hab hbc h => hbc (hab h)) ?_ n st entry
  · exact this h
  · intro st entry hnd
    rcases readEntry_visited K fs dir st entry with h | ⟨h, hne⟩
    · rw [h]; exact hnd
    · rw [h]
      exact List.nodup_append.mpr ⟨hnd, by simp, by
        intro a ha b hb
        simp only [List.mem_singleton] at hb
        subst hb
        rintro rfl
        exact hne ha⟩

/-- the visited list only grows -/
theorem dfsMerge_visited_mono (n : Nat) (st : MState) (entry : List Char) :
    ∀ p ∈ st.visited, p ∈ (dfsMerge K fs dir n st entry).1.visited := by
  refine dfsMerge_inv K fs dir (fun a b => ∀ p ∈ a.visited, p ∈ b.visited)
    (fun s p hp => hp) (fun a b c hab hbc p hp => hbc p (hab p hp)) ?_ n st entry
  intro st entry p hp
  rcases readEntry_visited K fs dir st entry with h | ⟨h, _⟩
  · rw [h]; exact hp
  · rw [h]; exact List.mem_append_left _ hp

end

/-! ## order -/

section
variable (K : Classes) (fs : FS) (dir : List Char)

/-- the merged maps of the children `cs`, visited in this order starting from state `st` -/
def ChildMaps (n : Nat) : MState → List (List Char) → List SMap → Prop
  | _, [], ms => ms = []
  | st, c :: cs, ms => ∃ st1 m1 ms', dfsMerge K fs dir n st c = (st1, .ok m1) ∧ ms = m1 :: ms' ∧ ChildMaps n st1 cs ms'

theorem dfsChildren_order (n : Nat) : ∀ (cs : List (List Char)) (st : MState) (acc : SMap) (st' : MState) (m : SMap),
    dfsChildren K fs dir n st acc cs = (st', .ok m) →
    ∃ ms, ChildMaps K fs dir n st cs ms ∧
      ∀ name, m.get name = acc.get name ++ ms.flatMap (fun mc => mc.getAll name) := by
  intro cs
  induction cs with
  | nil =>
    intro st acc st' m h
    simp only [dfsChildren, Prod.mk.injEq, Except.ok.injEq] at h
    obtain ⟨_, rfl⟩ := h
    exact ⟨[], rfl, by simp⟩
  | cons c cs ih =>
    intro st acc st' m h
    rw [dfsChildren] at h
    split at h
    · simp at h
    · rename_i st1 m1 heq
      obtain ⟨ms, hms, hget⟩ := ih st1 (mergeInto acc m1) st' m h
      refine ⟨m1 :: ms, ⟨st1, m1, ms, heq, rfl, hms⟩, ?_⟩
      intro name
      rw [hget name, mergeInto_get]
      simp [List.flatMap_cons]

/-- **Order.** The merged map of a file is: its own sections first, then, section by section, the
merged map of every included file in the order the includes are listed (each of them built the
same way, depth first). -/
theorem dfsMerge_order (n : Nat) (st st' : MState) (entry : List Char) (m : SMap)
    (h : dfsMerge K fs dir (n + 1) st entry = (st', .ok m)) :
    ∃ st1 own pats children ms,
      readEntry K fs dir st entry = (st1, .ok own) ∧
      includePatterns dir (own.get "include".toList) = .ok pats ∧
      unsqueeze fs pats = .ok children ∧
      ChildMaps K fs dir n st1 children ms ∧
      ∀ name, m.get name = own.get name ++ ms.flatMap (fun mc => mc.getAll name) := by
  rw [dfsMerge] at h
  split at h
  · simp at h
  · rename_i st1 own hread
    split at h
    · simp at h
    · rename_i pats hpats
      split at h
      · simp at h
      · rename_i children hch
        obtain ⟨ms, hms, hget⟩ := dfsChildren_order K fs dir n children st1 own st' m h
        exact ⟨st1, own, pats, children, ms, hread, hpats, hch, hms, hget⟩

end


/-! ## what the path check means lexically -/

theorem stripPrefixL_some : ∀ (b t rest : List (List Char)), stripPrefixL b t = some rest → t = b ++ rest := by
  intro b
  induction b with
  | nil => intro t rest h; simp only [stripPrefixL, Option.some.injEq] at h; simp [h]
  | cons x b ih =>
    intro t rest h
    cases t with
    | nil => simp [stripPrefixL] at h
    | cons y t =>
      simp only [stripPrefixL] at h
      split at h
      · rename_i hxy
        rw [hxy, ih t rest h]; rfl
      · simp at h

/-- **Confinement, lexically.** A path accepted by `EnsureFileInSubDir` has a directory whose
cleaned form is the entry directory's cleaned form, or whose cleaned components extend the entry
directory's cleaned components by components of which the first does not start with `..` (and
both are absolute or both relative). -/
theorem ensureInSubDir_lexical (file dir : List Char) (h : ensureInSubDir file dir = true) :
    dir ≠ [] ∧
    (cleanPath (dirOf file) = cleanPath dir ∨
      ∃ rest, targComps (cleanPath (dirOf file)) = cleanComps (relBase (cleanPath dir)) ++ rest ∧
        isAbsPath (relBase (cleanPath dir)) = isAbsPath (cleanPath (dirOf file)) ∧
        restOK rest = true) := by
  unfold ensureInSubDir at h
  by_cases hd : dir = []
  · simp [hd] at h
  · refine ⟨hd, ?_⟩
    simp only [hd, if_false] at h
    by_cases heq : cleanPath (dirOf file) = cleanPath dir
    · exact Or.inl heq
    · simp only [heq, if_false] at h
      by_cases habs : (isAbsPath (relBase (cleanPath dir)) != isAbsPath (cleanPath (dirOf file))) = true
      · simp [habs] at h
      · simp only [habs, Bool.false_eq_true, if_false] at h
        cases hs : stripPrefixL (cleanComps (relBase (cleanPath dir))) (targComps (cleanPath (dirOf file))) with
        | none => simp [hs] at h
        | some rest =>
          simp only [hs] at h
          exact Or.inr ⟨rest, stripPrefixL_some _ _ _ hs, by simpa using habs, h⟩


/-- every include value becomes one glob pattern, in order: itself when absolute, otherwise joined
to the ENTRY directory (never to the including file's directory) -/
theorem includePatterns_spec (dir : List Char) : ∀ (items : List AItem) (pats : List (List Char)),
    includePatterns dir items = .ok pats →
    ∃ vs : List (List Char), items.map AItem.paramStr = vs.map some ∧
      pats = vs.map (fun v => if isAbsPath v then v else joinPath (quoteGlobMeta dir) v) := by
  intro items
  induction items with
  | nil => intro pats h; simp only [includePatterns, Except.ok.injEq] at h; subst h; exact ⟨[], rfl, rfl⟩
  | cons it rest ih =>
    intro pats h
    unfold includePatterns at h
    split at h
    · simp at h
    · rename_i v hv
      split at h
      · simp at h
      · rename_i ps hps
        simp only [Except.ok.injEq] at h
        subst h
        obtain ⟨vs, h1, h2⟩ := ih ps hps
        exact ⟨v :: vs, by simp [hv, h1], by simp [h2]⟩

end DaeVerif.C17
